/-
  Observable labels of the Scope model and its replay machine (family `scope`): the driver executes the very
  `step` function of `Model/Scope.lean` on traces of the real runtime.

  Tied: every API boundary event of the scenario (scope.enter/spawn/fend/fpanic, sjoin, child.begin/end/panic,
  frame.drop, spawn, join, cancel) and every hooked operation of `join.rs` (Join.state, Join.to_wake) and of the
  result / panic slots (`coroutine_impl.rs`: packet, panic; `scoped.rs`: their_packet), with operands, results,
  success flags and memory orderings. Not in this layer's trace: the park/unpark internals of the Blocker
  (C02), the cancel bit itself (`cancel.rs`; the canceller's API call stands for it).

  The variant of `JoinState::join` (pinned / fixed by pending_fixes/F5.patch) is a configuration bit of the model
  (`Sh.fixed`). The machine starts undecided and commits at the first scoped join: the operation after the first
  `state.load` differs (`to_wake.store | packet.take` in the pinned code, a second `state.load` in the fixed code).
  The committed variant appears in the coverage (`variant/pinned`, `variant/fixed`).
-/
import MayVerif.Core.Trace
import MayVerif.Model.Scope
namespace MayVerif.Scope
open MayVerif

/-- representation maintenance for the replay: the state keeps its per-actor fields as functions, and every model step
    wraps them once more (`upd`), so a lookup walks through all steps taken so far. `tab` re-tabulates a function on
    `[0, bound)` (extensionally the same function: outside the table it still asks the old one). -/
def tabA {α : Type} (a : Array α) (f : Nat → α) : Nat → α := fun i => if h : i < a.size then a[i] else f i
def mk {α : Type} (bound : Nat) (f : Nat → α) : Array α := ((List.range bound).map f).toArray

/-- every table is built here, once per call (a `let` of this function), and captured by the new lookup function -/
def compactSt (s : St) : St :=
  let n := s.n
  let sh := s.sh
  let nb := sh.nextB + 1
  let a_pcs := mk n s.pcs
  let a_spawned := mk n sh.spawned
  let a_sco := mk n sh.sco
  let a_fin := mk n sh.fin
  let a_wake := mk n sh.wake
  let a_pkt := mk n sh.pkt
  let a_spk := mk n sh.spk
  let a_pan := mk n sh.pan
  let a_canc := mk n sh.canc
  let a_unw := mk n sh.unw
  let a_chain := mk n sh.chain
  let a_joined := mk n sh.joined
  let a_kids := mk n sh.kids
  let a_out := mk n sh.out
  let a_jres := mk n sh.jres
  let a_got := mk n sh.got
  let a_retv := mk n sh.retv
  let a_own := mk n sh.own
  let a_par := mk n sh.par
  let a_src := mk n sh.src
  let a_jfin := mk n sh.jfin
  let a_jby := mk n sh.jby
  let a_tok := mk nb sh.tok
  let a_bfor := mk nb sh.bfor
  { s with pcs := tabA a_pcs s.pcs, sh := { sh with spawned := tabA a_spawned sh.spawned, sco := tabA a_sco sh.sco, fin := tabA a_fin sh.fin, wake := tabA a_wake sh.wake, pkt := tabA a_pkt sh.pkt, spk := tabA a_spk sh.spk, pan := tabA a_pan sh.pan, canc := tabA a_canc sh.canc, unw := tabA a_unw sh.unw, chain := tabA a_chain sh.chain, joined := tabA a_joined sh.joined, kids := tabA a_kids sh.kids, out := tabA a_out sh.out, jres := tabA a_jres sh.jres, got := tabA a_got sh.got, retv := tabA a_retv sh.retv, own := tabA a_own sh.own, par := tabA a_par sh.par, src := tabA a_src sh.src, jfin := tabA a_jfin sh.jfin, jby := tabA a_jby sh.jby, tok := tabA a_tok sh.tok, bfor := tabA a_bfor sh.bfor } }

structure RSt where
  st : St
  age : Nat := 0                         -- model steps since the last `compactSt`
  locked : Bool := false
  names : List (String × Nat) := []       -- unnamed coroutines (`c#k`, children of `join!`) ↦ model actor
  lastJoin : Nat := 0

def jst (c : Tid) : Option (String × Nat) := some ("jst" ++ toString c, 0)
def jtw (c : Tid) : Option (String × Nat) := some ("jtw" ++ toString c, 0)
def pkI (c : Tid) : Option (String × Nat) := some ("pkt" ++ toString c, 0)
def pnI (c : Tid) : Option (String × Nat) := some ("pan" ++ toString c, 0)
def spI (c : Tid) : Option (String × Nat) := some ("spk" ++ toString c, 0)
def b2i (b : Bool) : Int := if b then 1 else 0
def optArg (o : Option Nat) : LArg := match o with | some v => .num v | none => .num (-1)
def blkArg (o : Option Bid) : LArg := match o with | some b => .id "blk" b | none => .num (-1)

def lLoad (sh : Sh) (c : Tid) : Label :=
  { obj := "join.state", inst := jst c, op := "load", res := .num (b2i (!sh.fin c)), ord := "Acquire" }
def lStoreB (sh : Sh) (c : Tid) : Label :=
  { obj := "join.to_wake", inst := jtw c, op := "opt.store", a1 := .id "blk" sh.nextB }
def lPkt (sh : Sh) (c : Tid) : Label :=
  { obj := "coroutine_impl.packet", inst := pkI c, op := "opt.take", res := optArg (sh.pkt c) }
def lTrig (me : Tid) : Label :=
  { obj := "join.state", inst := jst me, op := "store", a1 := .num 0, ord := "Release" }

/-- the observable of the (non-silent, non-API) step `tstep sh me pc .go` -/
def label (sh : Sh) (me : Tid) (pc : Pc) : Label :=
  match pc with
  | .jd c _ => lLoad sh c
  | .jx c k true => if fx sh k then lLoad sh c else lStoreB sh c
  | .jx c k false => if fx sh k then lLoad sh c else lPkt sh c
  | .w2 c _ => lStoreB sh c
  | .w3 c _ _ => lLoad sh c
  | .w5 c _ => { obj := "join.to_wake", inst := jtw c, op := "opt.take", res := blkArg (sh.wake c) }
  | .r1 c _ => lPkt sh c
  | .r2 c _ => { obj := "coroutine_impl.panic", inst := pnI c, op := "opt.take",
                 res := match sh.pan c with | some _ => .num 0 | none => .num (-1) }
  | .s1 c => { obj := "scoped.their_packet", inst := spI c, op := "opt.take", res := optArg (sh.spk c) }
  | .e1 v => { obj := "scoped.their_packet", inst := spI me, op := "opt.store", a1 := .num v }
  | .e2 v => { obj := "coroutine_impl.packet", inst := pkI me, op := "opt.store", a1 := .num v }
  | .e3 => lTrig me
  | .e4 => { obj := "join.to_wake", inst := jtw me, op := "opt.take", res := blkArg (sh.wake me) }
  | .pend => (match sh.unw me with
      | .pan _ => { obj := "coroutine_impl.panic", inst := pnI me, op := "opt.store", a1 := .num 0 }
      | _ => lTrig me)
  | _ => { kind := "none", op := "-" }

def kName : K → String | .dt => "dt" | .ex => "ex" | .top => "top"

def pcName : Pc → String
  | .idle => "idle" | .body => "body" | .inF => "inF" | .jd _ k => "jd." ++ kName k | .jx _ k r => "jx." ++ kName k ++ (if r then ".run" else ".done")
  | .w2 .. => "w2" | .w3 .. => "w3" | .w4 .. => "w4" | .w5 .. => "w5" | .r1 .. => "r1" | .r2 .. => "r2" | .s1 _ => "s1"
  | .left => "left" | .e1 _ => "e1" | .e2 _ => "e2" | .e3 => "e3" | .e4 => "e4" | .pend => "pend" | .fin => "fin"

def transName (sh : Sh) (me : Tid) (pc : Pc) : String :=
  let br := match pc with
    | .jd c _ | .w3 c _ _ => if sh.fin c then "/finished" else "/running"
    | .jx c k _ => (if fx sh k then "/fixed" else "/pinned") ++ (if sh.fin c then "/finished" else "/running")
    | .w5 c _ => (match sh.wake c with | some _ => "/own" | none => "/taken")
    | .r1 c _ => (match sh.pkt c with | some _ => "/value" | none => "/none")
    | .r2 c _ => (match sh.pan c with | some _ => "/payload" | none => "/cancel")
    | .e4 => (match sh.wake me with | some _ => "/unpark" | none => "/nobody")
    | .pend => (match sh.unw me with | .pan _ => "/panic" | _ => "/cancel")
    | _ => ""
  pcName pc ++ br ++ (match sh.unw me with | .no => "" | _ => "+unw")

def numOf : Tok → Option Nat
  | .num n => if n ≥ 0 then some n.toNat else none
  | _ => none

/-- the model choice an API `call` event stands for -/
def envOfCall (ev : Event) : Option Env :=
  match ev.op, numOf ev.a1, numOf ev.a2 with
  | "child.begin", _, _ => some .begin
  | "scope.enter", _, _ => some .enter
  | "scope.spawn", some c, _ => some (.spawn c)
  | "spawn", some c, _ => some (.spawn c)
  | "sjoin", some c, _ => some (.sjoin c)
  | "scope.fend", _, _ => some .fend
  | "scope.fpanic", some p, _ => some (.fpanic p)
  | "child.end", _, some v => some (.endv v)
  | "child.panic", _, some p => some (.panic p)
  | "frame.drop", _, _ => some .fdrop
  | "join", some c, _ => some (.join c)
  | "cancel", some c, _ => some (.cancel c)
  | _, _, _ => none

/-- candidates of actor `t` in state `s` without looking through silent steps -/
def obsCands (r : RSt) (t : Nat) (ev : Event) (pre : String) : List (Label × RSt × String) :=
  let s := r.st
  let pc := s.pcs t
  if ev.kind == "ret" then
    let ok : Bool := match ev.op, ev.a1 with
      | "scope.enter", _ => pc == .left && s.sh.unw t == .no
      | "sjoin", .num v => pc == .inF && (s.sh.kids t).any (fun c => (s.sh.got c).getLast? == some v.toNat)
      | "join", .num code => pc == .idle &&
          (match s.sh.jres r.lastJoin with
           | some .ok => code == 0 | some (.pan _) => code == 1 | some .cancel => code == 2 | none => false)
      | "cancel", _ => pc == .idle
      | _, _ => false
    if ok then [({ kind := "ret", op := ev.op }, r, pre ++ "ret." ++ ev.op)] else []
  else if ev.kind == "call" then
    match envOfCall ev with
    | none => []
    | some e =>
      -- the id a coroutine announces must be the actor the event is attributed to
      let idOk : Bool := match ev.op, numOf ev.a1 with
        | "child.begin", some i | "child.end", some i | "child.panic", some i | "frame.drop", some i => i == t
        | _, _ => true
      -- API calls are made from user code only (the step function ignores the choice at the other program points)
      let apiPc : Bool := match pc with | .idle | .body | .inF | .left => true | _ => false
      if !idOk || !apiPc then [] else
      match step s t e with
      | some s' =>
        let lj := match e with | .join c => c | _ => r.lastJoin
        [({ kind := "call", op := ev.op }, { r with st := s', lastJoin := lj }, pre ++ pcName pc ++ "/" ++ ev.op)]
      | none => []
  else
    match pc with
    | .idle | .body | .inF | .left | .fin | .w4 .. => []
    | _ =>
      match step s t .go with
      | some s' =>
        let lock := match pc with | .jx _ k _ => k != .top | _ => false
        [(label s.sh t pc, { r with st := s', locked := r.locked || lock }, pre ++ transName s.sh t pc)]
      | none => []

/-- silent steps an actor may have taken before its next observable step -/
def silentEnvs : Pc → List Env
  | .w4 .. => [.go, .cwake]
  | .body | .inF => [.chit]
  | _ => []

def candsV (r : RSt) (t : Nat) (ev : Event) : List (Label × RSt × String) :=
  obsCands r t ev "" ++
  (silentEnvs (r.st.pcs t)).flatMap fun e =>
    match step r.st t e with
    | some s' => obsCands { r with st := s' } t ev (pcName (r.st.pcs t) ++ (match e with | .cwake => "/cancelwake;" | .chit => "/cancelhit;" | _ => "/woken;"))
    | none => []

def flipV (r : RSt) : RSt := { r with st := { r.st with sh := { r.st.sh with fixed := !r.st.sh.fixed } } }

/-- strip the kernel-tail decoration: `k:c:c5#3` ↦ `c:c5`, `k:c#7#2` ↦ `c#7` -/
def coreName (a : String) : String :=
  if a.startsWith "k:" then
    let rest := (a.drop 2).toString
    match (rest.splitOn "#").reverse with
    | _ :: (x :: xs) => "#".intercalate (x :: xs).reverse
    | _ => rest
  else a

def actorOf (r : RSt) (a : String) : Option Nat :=
  if a == "main" then some 0
  else if a == "t1" then some 1
  else
    let c := coreName a
    if c.startsWith "c:c" then (c.drop 3).toString.toNat?
    else if c.startsWith "c#" then
      match r.names.find? (·.1 == c) with
      | some (_, i) => some i
      | none => some r.st.n           -- not bound yet: only `child.begin` can bind it
    else none

def cands0 (r : RSt) (t : Nat) (ev : Event) : List (Label × RSt × String) :=
  -- an unnamed coroutine (`c#k`) introduces itself with its first event; the name is derived from the address of its
  -- handle, so a later coroutine can carry the name of one that is gone
  let unnamed := (coreName ev.actor).startsWith "c#"
  if unnamed && ev.kind == "call" && ev.op == "child.begin" then
    match numOf ev.a1 with
    | some i =>
      let stale : Bool := t == r.st.n || r.st.pcs t == .fin
      if i < r.st.n && stale && r.names.all (·.2 != i) then
        let nm := coreName ev.actor
        let r' := { r with names := (nm, i) :: r.names.filter (·.1 != nm) }
        candsV r' i ev
      else []
    | none => []
  else if ev.obj == "join.to_wake" && ev.op == "opt.take" && (t ≥ r.st.n || (r.st.pcs t == .idle && !r.st.sh.spawned t)) then
    -- the last operation of a coroutine of the *previous* scenario of this process (`trigger`'s `to_wake.take()`
    -- comes after `state.store(false)`, which is all its joiner waits for): not an event of this scenario
    [({ obj := "join.to_wake", op := "opt.take" }, r, "stray/previous-scenario")]
  else if t == r.st.n then []
  else if r.locked then candsV r t ev
  else
    -- undecided variant: at a scoped `jx` (the only place where the two variants show different operations first) the
    -- candidates of the other variant are offered as well
    let decisive : Bool := match r.st.pcs t with | .jx _ k _ => k != .top | _ => false
    candsV r t ev ++ (if decisive then candsV (flipV r) t ev else [])

def cands (r : RSt) (t : Nat) (ev : Event) : List (Label × RSt × String) :=
  (cands0 r t ev).map fun (l, r', nm) =>
    (l, (if r'.age ≥ 24 then { r' with st := compactSt r'.st, age := 0 } else { r' with age := r'.age + 1 }), nm)

def machine : Machine where
  St := RSt
  init := fun h => match hnat h "actors" with
    | some n => .ok { st := init n false }
    | none => .error "scope scenario without actors="
  actor := actorOf
  cands := cands
  inv := fun r =>
    -- executable form of `scope_exit_after_children` (fixed variant) / `_partial` (pinned variant, owner not cancelled)
    let s := r.st
    match (List.range s.n).find? (fun o => s.pcs o == .left && (s.sh.fixed || !s.sh.canc o) && (s.sh.kids o).any (fun c => !s.sh.fin c)) with
    | some o => some s!"actor {o} has left its scope while one of its coroutines is still running"
    | none => none
  where_ := fun r t => if t < r.st.n then pcName (r.st.pcs t) ++ (if r.st.sh.fixed then " (fixed)" else " (pinned)") else "unbound coroutine"
  atEnd := fun r =>
    -- a finished run: every coroutine that was spawned is gone, the threads are idle
    -- (`e4`: the trigger's `to_wake.take()` may still be on its way when the scenario is over)
    match (List.range r.st.n).find? (fun t => r.st.sh.spawned t && r.st.pcs t != .fin && r.st.pcs t != .e4 || (t < 2 && r.st.pcs t != .idle)) with
    | some t => some s!"actor {t} is at {pcName (r.st.pcs t)} at the end of a finished run"
    | none => none
  skip := fun e => e.kind == "note"

end MayVerif.Scope
