/-
  Model of may's network I/O handshake (C17 / C18), unix back-end:
    src/io/sys/unix/{mod.rs, epoll.rs, cancel.rs}, src/io/sys/unix/net/{socket_read, socket_write, tcp_listener_accept,
    tcp_stream_connect, udp_recv_from, …}.rs, src/net/{tcp,udp}.rs, src/os/unix/net.rs, src/io/thread.rs, src/cancel.rs,
    src/sync/atomic_dur.rs.

  PARTIAL BY NATURE. The Linux kernel (epoll edge semantics, TCP / Unix byte streams, datagram queues, eventfd, the
  monotonic clock) is an adversarial ENVIRONMENT with a stated contract, not verified:
    * per socket an abstract readiness bit `avail` ("the system call the caller wants would not return EAGAIN") and
      `pend` ("an edge event for this fd is queued in its epoll instance, not yet delivered");
    * a system call returns EAGAIN iff `¬ avail`;
    * whenever data / buffer space / a connection ARRIVES (`Env.arrive`) an edge event is queued (`pend := true`);
      edges may also be queued for other reasons (`Env.edge`: EPOLLOUT for a reader, EPOLLHUP on a fresh socket …);
    * time only moves forward (`Env.tick`), a timer entry is popped only when its deadline has passed.
  Second part of the file (`namespace Kern`): the byte-stream / datagram contract itself, with the library's
  retry-after-EAGAIN loop on top, for `stream_preserved` and `datagram_boundaries`.

  One step per shared-memory operation of the code, in program order. An operation on socket `s` by caller `c`:

    API entry   u.reset   io_flag.swap(0, AcqRel)                        (connect: no reset, starts at u.sys)
                u.sys     the non-blocking system call                   (result = environment input)
                u.dur     first EAGAIN: read_timeout.get()               (AtomicDuration, whole ms; 0 = none)
                u.pre     yield_with: cancel.is_canceled()               (coroutine callers; a thread hands over to its proxy coroutine)
                u.wait    switched off; the kernel tail below runs `subscribe`
                u.back    resumed: check_cancel()  → Cancel panic
                u.clear   cancel.clear()  = CancelIoImpl.take();  then co_io_result(): TimedOut ?
    done():     u.store   io_flag.store(0, Relaxed)
                u.sys     system call again;  EAGAIN →  u.chk  io_flag.load(Relaxed) ≠ 0 ? u.store : u.pre

    subscribe (kernel tail `k`, on whichever worker switched the coroutine off) – the REPAIRED code, what `init` describes:
                k.reg0    [read / recv / accept / connect] cancel.set_io(io_data)   – BEFORE the publication (fix: io-stale-set_io)
                k.start   [time-out d] add_io_timer (`t.arm` mark)
                k.arm     EventData::arm_timer: lock the handle cell, next wait number, timer_list.add_timer(d), store the handle,
                          unlock – one step, enabled while no timeout handler holds the cell's lock (fix: io-timer-handle-race)
                k.set     (`t.set` mark)
                k.store   io_data.co.store(co)
                k.load    io_flag.load(Acquire) ≠ 0 ?  fast_schedule : cancel re-check
                k.take    fast_schedule: co.take()          k.dis  lock the cell, take the handle: event_data := null, remove; run_coroutine
                k.chk2    cancel.is_canceled() ?            k.own  io_data.schedule(): co.take()   k.ownDis  disarm; schedule
    select (worker `w`), per epoll event:
                deliver   io_flag.fetch_or(bits, Release)   w.sTake co.take()   w.sDis lock the cell, disarm the timer; schedule
    timer thread / timeout_handler (worker `w`, from timer_list.schedule_timer):
                pop       (environment) the entry leaves the list with the `event_data` it has at that moment: a disarm that comes
                          later cannot stop its handler any more
                fire      the handler begins: event_data null ? return :
                w.fChk    lock the cell; does it still hold the handle of THIS entry's wait (handle there, same wait number) ?
                          no → unlock, return (stale: the wait is over, or a later wait has armed its own timer);
                          yes → take the handle, KEEP the lock
                w.fOr     io_flag.fetch_or(IO_FLAG_TIMEOUT, Release)
                w.fTake   co.take(); unlock; [found] set TimedOut; run_coroutine   (a `subscribe` that had armed this timer but not yet
                          published its coroutine sees the flag in its re-check, re-runs the coroutine, which retries and arms afresh)
    Cancel::cancel (any thread):
                cancel    state.fetch_or(1)   x.io  CancelIoImpl.take()   x.take  io.co.take()   x.dis  disarm_timer() (under the lock); schedule
    Every disarm step needs the cell's lock: while a handler is between `w.fChk` (own) and the end of `w.fTake`, nobody can end the wait.

    The trees WITHOUT one of the repairs are variants of the same `step` (`St.fixOwn` / `St.regFirst` / `St.fixFlag` / `St.fixDis` =
    false), for the labelled defect witnesses and for the replay of such trees; no theorem is about them:
      ¬fixOwn   the cell is a `RefCell`: k.start arms (entry without handle), k.set stores the handle; `fire` takes whatever handle the
                cell holds and goes on unconditionally; a taker has a disarm step only when it finds a handle; the canceller's
                take + disarm + schedule is one step (`xtakeStep`)
      ¬regFirst k.load → k.reg `cancel.set_io` AFTER the publication → k.chk `is_canceled()` ? the tail runs the cancel itself
                (k.xor, k.xio, k.xtake)
      ¬fixFlag  no IO_FLAG_TIMEOUT (`fire` → w.fTake);   ¬fixDis  cancel leaves the io timer armed
    (`init` = all four true; `initHead` = /repo 960ad58 = fixFlag, fixDis; `initPinned` = none)

  The coroutine is a linear token: running / on its way in kernel tail k / in `co` slot of s / taken by a kernel tail or a
  worker / queued. `loc` is the ghost that says where it is; `dup` / `bad` record a double schedule / a resume of a coroutine that
  is not switched off. Ghost fields are never read by a non-ghost update.
-/
namespace MayVerif.Io

notation "Sock" => Nat
notation "Co" => Nat
notation "Tm" => Nat
notation "Kt" => Nat
notation "Wk" => Nat

@[grind] def upd {α : Type} (f : Nat → α) (t : Nat) (v : α) : Nat → α := fun u => if u = t then v else f u

/-- outcome of an I/O operation as the caller sees it -/
inductive Out | val (n : Int) | timedOut | canceled
  deriving DecidableEq, Repr

/-- where the coroutine (linear token) of a caller is — ghost -/
inductive Loc | run | tail (k : Kt) | slot (s : Sock) | heldK (k : Kt) | heldW (w : Wk) | queued
  deriving DecidableEq, Repr

/-- a timer entry: `armed s` = in the list with `event_data = s`; `popped s` = taken out of the list by the timer thread with
    `event_data = s`, its handler has not begun yet (a disarm comes too late for it); `disarmed` = `event_data = null` while still in
    the list (possibly removed); `gone` = its handler has begun / it was popped with `event_data = null` -/
inductive TmSt | free | armed (s : Sock) | popped (s : Sock) | disarmed | gone
  deriving DecidableEq, Repr

/-- user side of an operation -/
inductive UPc
  | idle
  | reset (s : Sock)
  | sys (s : Sock) (first : Bool)
  | dur (s : Sock)
  | chk (s : Sock)
  | pre (s : Sock)
  | wait (s : Sock)
  | back (s : Sock)
  | clear (s : Sock)
  | store (s : Sock)
  | done (o : Out)
  deriving DecidableEq, Repr

/-- kernel tail (`subscribe`); `r` = this operation registers for io cancel (read / accept / connect / recv: yes, write / send: no) -/
inductive KPc
  | off
  | start (s : Sock) (c : Co) (r : Bool)
  | arm (s : Sock) (c : Co) (r : Bool)           -- `St.fixOwn`: `EventData::arm_timer`, handle cell locked across add_timer + replace
  | set (s : Sock) (c : Co) (r : Bool) (t : Tm)
  | store (s : Sock) (c : Co) (r : Bool)
  | load (s : Sock) (c : Co) (r : Bool)
  | take (s : Sock)
  | dis (s : Sock) (c : Co)
  | reg (s : Sock) (c : Co)
  | chk (c : Co)
  -- the variant with pending_fixes/io-stale-set_io.patch (`St.regFirst`): register for cancel BEFORE publication, the re-check
  -- takes the tail's own slot (`EventData::schedule`)
  | reg0 (s : Sock) (c : Co) (r : Bool)
  | chk2 (s : Sock) (c : Co)
  | own (s : Sock)
  | ownDis (s : Sock) (c : Co)
  | xor (c : Co)
  | xio (c : Co)
  | xtake (s : Sock)
  | xDis (s : Sock) (c : Co)                     -- `St.fixOwn`: the canceller's `disarm_timer()` (takes the cell's lock), then schedule
  deriving DecidableEq, Repr

/-- a plain thread acting as selector, timer handler or canceller -/
inductive WPc
  | idle
  | sTake (s : Sock)
  | sDis (s : Sock) (c : Co)
  | fChk (s : Sock) (t : Tm)       -- `St.fixOwn`: the handler has popped entry `t`; lock the cell: still the handle of `t`'s wait?
  | fOr (s : Sock) (t : Tm)        -- timeout_handler after `timer.take()`: `io_flag.fetch_or(IO_FLAG_TIMEOUT)`
  | fTake (s : Sock) (t : Tm)
  | xio (c : Co)
  | xtake (s : Sock)
  | xDis (s : Sock) (c : Co)
  deriving DecidableEq, Repr

inductive Actor | u (c : Co) | k (i : Kt) | w (i : Wk) | env
  deriving DecidableEq, Repr

/-- environment / caller choices consumed by a step -/
inductive Env
  | go
  | start (s : Sock) (reset : Bool)            -- the caller begins an operation on `s` (`reset`: the API resets io_flag first)
  | sysAgain (reg ldur : Bool)                 -- system call: EAGAIN / EINPROGRESS; kind of operation: registers for io cancel / loads a time-out
  | sysDone (n : Int) (more : Bool)            -- system call finished with `n`; `more` = still ready afterwards
  | durv (ms : Nat)                            -- value of the AtomicDuration
  | resume                                     -- a worker runs the queued coroutine
  | deliver (s : Sock) (bits : Nat)            -- epoll hands an event for `s` to the selector
  | fire (t : Tm)                              -- the timer list pops entry `t`
  | pop (t : Tm)                               -- the timer thread takes entry `t` out of the list; its handler (`fire`) follows
  | cancel (c : Co)                            -- somebody calls `cancel()` on coroutine `c`
  | arrive (s : Sock) | edge (s : Sock) | tick (n : Nat)   -- kernel / clock
  | delTimer (s : Sock) | del (s : Sock)       -- IoData::drop → del_fd
  deriving DecidableEq, Repr

structure St where
  -- per socket (EventData)
  flag : Sock → Nat
  slot : Sock → Option Co
  tslot : Sock → Option Tm
  user : Sock → Option Co          -- the operation in progress (API contract: one at a time per IoData)
  -- kernel (environment)
  avail : Sock → Bool
  pend : Sock → Bool
  now : Nat
  -- timer list
  tm : Tm → TmSt
  deadline : Tm → Nat
  nextTm : Tm
  -- per caller / coroutine
  upc : Co → UPc
  isCo : Co → Bool                 -- coroutine caller (has cancel data) / plain thread behind its proxy coroutine
  opReg : Co → Bool                -- the operation in progress registers for io cancel
  dur : Co → Option Nat            -- time-out of the operation in progress, ns
  cbit : Co → Bool                 -- cancel.state bit 0
  cio : Co → Option Sock           -- CancelIoImpl
  para : Co → Bool                 -- the result left for the resumed coroutine is TimedOut
  queued : Co → Bool               -- in a run queue
  -- kernel tails, workers
  kpc : Kt → KPc
  nk : Kt
  wpc : Wk → WPc
  -- which code: the tree with the fixes 999f25c (`timeout_handler` raises IO_FLAG_TIMEOUT before its `co.take`) and 8f0e7f9
  -- (`CancelIoImpl::cancel` disarms the io timer) – both true – or the pinned tree without them (witnesses only)
  fixFlag : Bool
  fixDis : Bool
  -- the io subscribes register for cancel before they publish the coroutine (pending_fixes/io-stale-set_io.patch; false = /repo HEAD)
  regFirst : Bool
  -- the timer-handle cell is a lock that carries the number of the wait it was armed for; the handler returns unless the cell still
  -- holds its own wait's handle and keeps the lock through `co.take` (pending_fixes/io-timer-handle-race.patch; false = /repo HEAD,
  -- where the cell is a `RefCell`)
  fixOwn : Bool
  -- seeded variant C17_c (witness only): the API skips its early system call when the reset of `io_flag` returned 0, i.e. it treats the
  -- edge-triggered flag as level information about the kernel's queue
  skipSys : Bool
  tlock : Sock → Bool              -- the cell's lock is held (only ever by a timeout handler for more than one step)
  -- ghost
  lockBy : Sock → Wk               -- the handler that holds / last held the cell's lock
  own : Tm → Co                    -- the caller whose wait armed the entry
  wno : Tm → Nat                   -- … and the number of that wait
  wcnt : Co → Nat                  -- number of waits (yields into `subscribe`) the caller has begun
  popBy : Tm → Wk                  -- the handler that popped the entry
  lastCanc : Co → Wk               -- the latest thread that called `cancel()` on the coroutine
  lastX : Sock → Wk                -- the latest canceller that took this socket out of a `CancelIoImpl`
  loc : Co → Loc
  dup : Bool                       -- a coroutine was scheduled while already queued
  bad : Bool                       -- a coroutine was resumed while it was not switched off
  lastStore : Sock → Kt
  lastFetch : Sock → Wk
  lastFire : Sock → Wk
  lastArm : Sock → Option Tm       -- the entry armed by the latest `add_io_timer` on this socket
  armedAt : Tm → Nat
  tdur : Tm → Nat
  firedBy : Co → Tm                -- the timer entry that timed this caller out
  waitFrom : Co → Nat              -- time at which the current wait began (kernel tail started)

def msToNs (ms : Nat) : Nat := ms * 1000000
/-- `IO_FLAG_TIMEOUT` (src/io/sys/unix/mod.rs): the bit the timeout handler raises in `io_flag`; no epoll event uses it -/
def timeoutBit : Nat := 1073741824
/-- `AtomicDuration::store(Some(d))` (src/sync/atomic_dur.rs `to_millis`, since the F2 fix): rounded UP to whole milliseconds and
    at least 1 (0 encodes "no time-out"); the saturation at `usize::MAX` ms is not modelled -/
def durToMs (ns : Nat) : Nat := max 1 ((ns + 999999) / 1000000)
/-- the conversion before the F2 fix (`d.as_millis()`, truncating): kept to state what the defect was -/
def durToMsTrunc (ns : Nat) : Nat := ns / 1000000

/-- the operation on `s` ends with outcome `o` -/
def finish (st : St) (c : Co) (s : Sock) (o : Out) : St :=
  { st with upc := upd st.upc c (.done o), user := upd st.user s none }

/-- the coroutine of caller `c` is switched on again (by `run_coroutine`): a coroutine caller goes through `check_cancel`,
    a thread caller (woken by its proxy coroutine) looks at the result the proxy left: TimedOut ends the operation -/
def resumeU (st : St) (c : Co) : St :=
  match st.upc c with
  | .wait s =>
      { st with upc := upd st.upc c (if st.isCo c then .back s else if st.para c then .done .timedOut else .store s),
                user := if !st.isCo c && st.para c then upd st.user s none else st.user,
                para := if !st.isCo c && st.para c then upd st.para c false else st.para,
                loc := upd st.loc c .run }
  | _ => { st with bad := true }

/-- `Scheduler::schedule(co)` -/
def schedule (st : St) (c : Co) : St :=
  { st with queued := upd st.queued c true, dup := st.dup || st.queued c, loc := upd st.loc c .queued }

def unarm : TmSt → TmSt
  | .armed _ => .disarmed
  | x => x
def disarmTm (tm : Tm → TmSt) : Option Tm → Tm → TmSt
  | none => tm
  | some t => upd tm t (unarm (tm t))
/-- `timer.take().map(|h| { event_data := null; h.remove() })` -/
def disarm (st : St) (s : Sock) : St :=
  { st with tslot := upd st.tslot s none, tm := disarmTm st.tm (st.tslot s) }

def ustep (st : St) (c : Co) : UPc → Env → Option St
  | .idle, .start s rs | .done _, .start s rs =>
      if st.user s = none then
        some { st with user := upd st.user s (some c), dur := upd st.dur c none,
                       upc := upd st.upc c (if rs then .reset s else .sys s true) }
      else none
  -- (a socket is dropped only when no operation is in progress on it: it is borrowed by the operation)
  | .idle, .delTimer s | .done _, .delTimer s =>
      if st.user s = none && !st.tlock s then
        match st.tslot s with
        | some _ => some (disarm st s)
        | none => none
      else none
  | .idle, .del s | .done _, .del s => if st.user s = none then some st else none
  | .idle, _ | .done _, _ => none
  | .reset s, _ =>
      if st.skipSys && st.flag s == 0 then
        some { st with opReg := upd st.opReg c true, upc := upd st.upc c (.pre s) }
      else some { st with flag := upd st.flag s 0, upc := upd st.upc c (.sys s true) }
  | .sys s first, .sysAgain rg ld =>
      if st.avail s then none
      else if first then
        some { st with opReg := upd st.opReg c rg, upc := upd st.upc c (if ld then .dur s else .pre s) }
      else some { st with upc := upd st.upc c (.chk s) }
  | .sys s _, .sysDone n more =>
      if st.avail s then some (finish { st with avail := upd st.avail s more } c s (.val n)) else none
  | .sys _ _, _ => none
  | .dur s, .durv ms =>
      some { st with dur := upd st.dur c (if ms = 0 then none else some (msToNs ms)), upc := upd st.upc c (.pre s) }
  | .dur _, _ => none
  | .chk s, _ => some { st with upc := upd st.upc c (if st.flag s ≠ 0 then .store s else .pre s) }
  | .pre s, _ =>
      if st.isCo c && st.cbit c then some { st with upc := upd st.upc c (.back s) }
      else
        some { st with upc := upd st.upc c (.wait s), loc := upd st.loc c (.tail st.nk), nk := st.nk + 1,
                       waitFrom := upd st.waitFrom c st.now, wcnt := upd st.wcnt c (st.wcnt c + 1),
                       kpc := upd st.kpc st.nk (if st.regFirst && st.opReg c then .reg0 s c true
                                                else match st.dur c with
                                                | some _ => .start s c (st.opReg c)
                                                | none => .store s c (st.opReg c)) }
  | .wait _, .resume =>
      if st.queued c then some (resumeU { st with queued := upd st.queued c false } c) else none
  | .wait _, _ => none
  | .back s, _ =>
      if st.cbit c then some (finish { st with para := upd st.para c false } c s .canceled)
      else some { st with upc := upd st.upc c (.clear s) }
  | .clear s, _ =>
      if st.para c then some (finish { st with cio := upd st.cio c none, para := upd st.para c false } c s .timedOut)
      else some { st with cio := upd st.cio c none, upc := upd st.upc c (.store s) }
  | .store s, _ => some { st with flag := upd st.flag s 0, upc := upd st.upc c (.sys s false) }

/-- tail of `cancel()` after `CancelIoImpl.take()` on the trees without the timer-handle patch: `io.co.take()`, [8f0e7f9: disarm the
    io timer], schedule – one step (the cell is a `RefCell` there, nothing to wait for) -/
def xtakeStep (st : St) (s : Sock) : St :=
  match st.slot s with
  | none => st
  | some c' =>
      if st.fixDis then schedule (disarm { st with slot := upd st.slot s none } s) c'
      else schedule { st with slot := upd st.slot s none } c'

/- With `St.fixOwn` every taker of the coroutine goes on to a separate disarm step (`k.dis`, `k.ownDis`, `k.xDis`, `w.sDis`, `w.xDis`):
   `timer.borrow_mut()` is a lock there and the step is enabled only while no timeout handler holds it. Without `fixOwn` the disarm
   step exists only when there is a handle (as the hooks see it). -/
def kstep (st : St) (k : Kt) : KPc → Env → Option St
  | .off, _ => none
  | .start s c r, _ =>
      if st.fixOwn then some { st with kpc := upd st.kpc k (.arm s c r) }     -- (the `t.arm` mark; `arm_timer` follows)
      else
      match st.dur c with
      | some d =>
          some { st with tm := upd st.tm st.nextTm (.armed s), deadline := upd st.deadline st.nextTm (st.now + d),
                         armedAt := upd st.armedAt st.nextTm st.now, tdur := upd st.tdur st.nextTm d,
                         lastArm := upd st.lastArm s (some st.nextTm),
                         own := upd st.own st.nextTm c, wno := upd st.wno st.nextTm (st.wcnt c),
                         nextTm := st.nextTm + 1, kpc := upd st.kpc k (.set s c r st.nextTm) }
      | none => some { st with kpc := upd st.kpc k (.store s c r) }
  -- `arm_timer`: lock the cell, next wait number, `add_timer`, store the handle, unlock – nobody can see the entry without its handle
  | .arm s c r, _ =>
      if st.tlock s then none
      else
      match st.dur c with
      | some d =>
          some { st with tm := upd st.tm st.nextTm (.armed s), deadline := upd st.deadline st.nextTm (st.now + d),
                         armedAt := upd st.armedAt st.nextTm st.now, tdur := upd st.tdur st.nextTm d,
                         lastArm := upd st.lastArm s (some st.nextTm),
                         own := upd st.own st.nextTm c, wno := upd st.wno st.nextTm (st.wcnt c),
                         tslot := upd st.tslot s (some st.nextTm),
                         nextTm := st.nextTm + 1, kpc := upd st.kpc k (.set s c r st.nextTm) }
      | none => some { st with kpc := upd st.kpc k (.store s c r) }
  | .set s c r t, _ =>
      some { st with tslot := if st.fixOwn then st.tslot else upd st.tslot s (some t), kpc := upd st.kpc k (.store s c r) }
  | .store s c r, _ =>
      some { st with slot := upd st.slot s (some c), loc := upd st.loc c (.slot s), lastStore := upd st.lastStore s k,
                     kpc := upd st.kpc k (.load s c r) }
  | .load s c r, _ =>
      some { st with kpc := upd st.kpc k (if st.flag s ≠ 0 then .take s else if r then (if st.regFirst then .chk2 s c else .reg s c)
                                          else .off) }
  | .take s, _ =>
      match st.slot s with
      | none => some { st with kpc := upd st.kpc k .off }
      | some c' =>
          if st.fixOwn then some { st with slot := upd st.slot s none, loc := upd st.loc c' (.heldK k), kpc := upd st.kpc k (.dis s c') }
          else
          match st.tslot s with
          | none => some (resumeU { st with slot := upd st.slot s none, kpc := upd st.kpc k .off } c')
          | some _ => some { st with slot := upd st.slot s none, loc := upd st.loc c' (.heldK k), kpc := upd st.kpc k (.dis s c') }
  | .dis s c', _ => if st.tlock s then none else some (resumeU (disarm { st with kpc := upd st.kpc k .off } s) c')
  | .reg s c, _ => some { st with cio := upd st.cio c (some s), kpc := upd st.kpc k (.chk c) }
  | .chk c, _ => some { st with kpc := upd st.kpc k (if st.cbit c then .xor c else .off) }
  | .xor c, _ => some { st with cbit := upd st.cbit c true, kpc := upd st.kpc k (.xio c) }
  | .xio c, _ =>
      match st.cio c with
      | none => some { st with kpc := upd st.kpc k .off }
      | some s => some { st with cio := upd st.cio c none, kpc := upd st.kpc k (.xtake s) }
  | .xtake s, _ =>
      if st.fixOwn then
        match st.slot s with
        | none => some { st with kpc := upd st.kpc k .off }
        | some c' => some { st with slot := upd st.slot s none, loc := upd st.loc c' (.heldK k), kpc := upd st.kpc k (.xDis s c') }
      else some { xtakeStep st s with kpc := upd st.kpc k .off }
  | .xDis s c', _ => if st.tlock s then none else some (schedule (disarm { st with kpc := upd st.kpc k .off } s) c')
  | .reg0 s c r, _ =>
      some { st with cio := upd st.cio c (some s),
                     kpc := upd st.kpc k (match st.dur c with | some _ => .start s c r | none => .store s c r) }
  | .chk2 s c, _ => some { st with kpc := upd st.kpc k (if st.cbit c then .own s else .off) }
  | .own s, _ =>
      match st.slot s with
      | none => some { st with kpc := upd st.kpc k .off }
      | some c' =>
          if st.fixOwn then some { st with slot := upd st.slot s none, loc := upd st.loc c' (.heldK k), kpc := upd st.kpc k (.ownDis s c') }
          else
          match st.tslot s with
          | none => some (schedule { st with slot := upd st.slot s none, kpc := upd st.kpc k .off } c')
          | some _ => some { st with slot := upd st.slot s none, loc := upd st.loc c' (.heldK k), kpc := upd st.kpc k (.ownDis s c') }
  | .ownDis s c', _ => if st.tlock s then none else some (schedule (disarm { st with kpc := upd st.kpc k .off } s) c')

def wstep (st : St) (w : Wk) : WPc → Env → Option St
  | .idle, .deliver s bits =>
      if st.pend s && bits ≠ 0 then
        some { st with flag := upd st.flag s (st.flag s ||| bits), pend := upd st.pend s false,
                       lastFetch := upd st.lastFetch s w, wpc := upd st.wpc w (.sTake s) }
      else none
  | .idle, .fire t =>
      if st.deadline t ≤ st.now then
        match st.tm t with
        | .armed s | .popped s =>
                      some { st with tm := upd st.tm t .gone, tslot := if st.fixOwn then st.tslot else upd st.tslot s none,
                                     lastFire := upd st.lastFire s w, popBy := upd st.popBy t w,
                                     wpc := upd st.wpc w (if st.fixOwn then .fChk s t else if st.fixFlag then .fOr s t else .fTake s t) }
        | .disarmed => some { st with tm := upd st.tm t .gone }
        | _ => none
      else none
  | .idle, .cancel c => some { st with cbit := upd st.cbit c true, lastCanc := upd st.lastCanc c w, wpc := upd st.wpc w (.xio c) }
  | .idle, _ => none
  | .sTake s, _ =>
      match st.slot s with
      | none => some { st with wpc := upd st.wpc w .idle }
      | some c =>
          if st.fixOwn then some { st with slot := upd st.slot s none, loc := upd st.loc c (.heldW w), wpc := upd st.wpc w (.sDis s c) }
          else
          match st.tslot s with
          | none => some (schedule { st with slot := upd st.slot s none, wpc := upd st.wpc w .idle } c)
          | some _ => some { st with slot := upd st.slot s none, loc := upd st.loc c (.heldW w), wpc := upd st.wpc w (.sDis s c) }
  | .sDis s c, _ => if st.tlock s then none else some (schedule (disarm { st with wpc := upd st.wpc w .idle } s) c)
  -- lock the cell; the handler goes on only if the cell still holds the handle of the wait its entry was armed for (the handle is
  -- there and the wait number is the entry's: in the model, the cell refers to this very entry), and keeps the lock
  | .fChk s t, _ =>
      if st.tlock s then none
      else if st.tslot s = some t then
        some { st with tslot := upd st.tslot s none, tlock := upd st.tlock s true, lockBy := upd st.lockBy s w,
                       wpc := upd st.wpc w (.fOr s t) }
      else some { st with wpc := upd st.wpc w .idle }
  | .fOr s t, _ =>
      some { st with flag := upd st.flag s (st.flag s ||| timeoutBit), lastFetch := upd st.lastFetch s w,
                     wpc := upd st.wpc w (.fTake s t) }
  | .fTake s t, _ =>
      match st.slot s with
      | none => some { st with tlock := upd st.tlock s false, wpc := upd st.wpc w .idle }
      | some c =>
          some (resumeU { st with slot := upd st.slot s none, para := upd st.para c true, firedBy := upd st.firedBy c t,
                                  tlock := upd st.tlock s false, wpc := upd st.wpc w .idle } c)
  | .xio c, _ =>
      match st.cio c with
      | none => some { st with wpc := upd st.wpc w .idle }
      | some s => some { st with cio := upd st.cio c none, lastX := upd st.lastX s w, wpc := upd st.wpc w (.xtake s) }
  | .xtake s, _ =>
      if st.fixOwn then
        match st.slot s with
        | none => some { st with wpc := upd st.wpc w .idle }
        | some c' => some { st with slot := upd st.slot s none, loc := upd st.loc c' (.heldW w), wpc := upd st.wpc w (.xDis s c') }
      else some { xtakeStep st s with wpc := upd st.wpc w .idle }
  | .xDis s c, _ => if st.tlock s then none else some (schedule (disarm { st with wpc := upd st.wpc w .idle } s) c)

def estep (st : St) : Env → Option St
  | .arrive s => some { st with avail := upd st.avail s true, pend := upd st.pend s true }
  | .edge s => some { st with pend := upd st.pend s true }
  | .tick n => some { st with now := st.now + n }
  -- (between this and the handler's first step a taker may still disarm: too late, `unarm` leaves a popped entry as it is – the handler
  --  will run with the socket it was armed for. With the timer-handle fix it then finds that the cell no longer holds its handle)
  | .pop t =>
      if st.deadline t ≤ st.now then
        match st.tm t with
        | .armed s => some { st with tm := upd st.tm t (.popped s) }
        | _ => none
      else none
  | _ => none

def step (st : St) (a : Actor) (e : Env) : Option St :=
  match a with
  | .u c => ustep st c (st.upc c) e
  | .k i => kstep st i (st.kpc i) e
  | .w i => wstep st i (st.wpc i) e
  | .env => estep st e

/-- `co` : which callers are coroutines (the others are plain threads that go through their proxy coroutine);
    `ff`, `fd`, `rf`, `fo` : which code (see `St.fixFlag`, `St.fixDis`, `St.regFirst`, `St.fixOwn`) -/
def initCfg (ff fd rf fo : Bool) (co : Co → Bool) : St :=
  { flag := fun _ => 0, slot := fun _ => none, tslot := fun _ => none, user := fun _ => none,
    avail := fun _ => false, pend := fun _ => false, now := 0,
    tm := fun _ => .free, deadline := fun _ => 0, nextTm := 0,
    upc := fun _ => .idle, isCo := co, opReg := fun _ => false, dur := fun _ => none,
    cbit := fun _ => false, cio := fun _ => none, para := fun _ => false, queued := fun _ => false,
    kpc := fun _ => .off, nk := 0, wpc := fun _ => .idle,
    fixFlag := ff, fixDis := fd, regFirst := rf, fixOwn := fo, skipSys := false, tlock := fun _ => false,
    lockBy := fun _ => 0, own := fun _ => 0, wno := fun _ => 0, wcnt := fun _ => 0, popBy := fun _ => 0,
    lastCanc := fun _ => 0, lastX := fun _ => 0,
    loc := fun _ => .run, dup := false, bad := false, lastStore := fun _ => 0, lastFetch := fun _ => 0, lastFire := fun _ => 0, lastArm := fun _ => none,
    armedAt := fun _ => 0, tdur := fun _ => 0, firedBy := fun _ => 0, waitFrom := fun _ => 0 }

/-- the repaired code: /repo HEAD 960ad58 + fix: io-timer-handle-race + fix: io-stale-set_io -/
def init (co : Co → Bool) : St := initCfg true true true true co
/-- /repo 960ad58 without the two fixes (`RefCell` handle cell, `set_io` after publication): witnesses only -/
def initHead (co : Co → Bool) : St := initCfg true true false false co
/-- the pinned tree: in addition no IO_FLAG_TIMEOUT, cancel leaves the timer armed: witnesses only -/
def initPinned (co : Co → Bool) : St := initCfg false false false false co

/-- the repaired code with the seeded change C17_c (`TcpListener::accept` tries the system call only when the reset found a raised
    flag): witness `accept_skipped_syscall_witness` only -/
def initSkip (co : Co → Bool) : St := { init co with skipSys := true }

/-- every finite schedule: disabled choices are skipped, so `∀ sched` is every interleaving with every environment -/
def run (st : St) : List (Actor × Env) → St
  | [] => st
  | (a, e) :: r => match step st a e with
    | some st' => run st' r
    | none => run st r

/-! ### the kernel's byte-stream and datagram contract, with the library's retry loop on top -/
namespace Kern

/-- one direction of a connected stream socket (TCP or Unix) -/
structure Chan where
  fifo : List Nat          -- bytes in flight
  cap : Nat                -- room the kernel currently offers (adversarial: `Ev.room`)
  shut : Bool              -- the writer shut its half down
  -- ghost: everything the kernel accepted / handed out, API level
  sent : List Nat
  rcvd : List Nat
  eofSeen : Bool           -- a read into a non-empty buffer returned 0

/-- one system call; the library's `read`/`write` is `loop { syscall; EAGAIN ⇒ wait for readiness, retry }`, so an API call is
    the last, non-EAGAIN system call of such a loop and returns exactly its result -/
inductive Ev
  | write (buf : List Nat) (k : Nat)     -- write(buf): the kernel accepts `min k cap |buf|` bytes, EAGAIN iff that is 0 (and buf ≠ [])
  | read (m : Nat) (k : Nat)             -- read(m-byte buffer): returns `min k m |fifo|` bytes; EAGAIN iff fifo empty and not shut
  | room (n : Nat)                       -- the kernel changes the room it offers
  | shutdown

def take' (k : Nat) (l : List Nat) : List Nat := l.take k

/-- result of the system call: `none` = EAGAIN -/
def sysStep (c : Chan) : Ev → Chan × Option Nat
  | .write buf k =>
      if c.shut then (c, some 0) else          -- (EPIPE in reality; nothing is accepted)
      let n := min (max k 1) (min c.cap buf.length)
      if n = 0 then (c, if buf.length = 0 then some 0 else none)
      else ({ c with fifo := c.fifo ++ buf.take n, cap := c.cap - n, sent := c.sent ++ buf.take n }, some n)
  | .read m k =>
      let n := min (max k 1) (min m c.fifo.length)
      if n = 0 then
        if c.fifo.length = 0 ∧ c.shut then ({ c with eofSeen := true }, some 0)
        else if m = 0 then (c, some 0)
        else (c, none)
      else ({ c with fifo := c.fifo.drop n, rcvd := c.rcvd ++ c.fifo.take n }, some n)
  | .room n => ({ c with cap := n }, none)
  | .shutdown => ({ c with shut := true }, none)

def init : Chan := { fifo := [], cap := 0, shut := false, sent := [], rcvd := [], eofSeen := false }

def run (c : Chan) : List Ev → Chan
  | [] => c
  | e :: r => run (sysStep c e).1 r

/-- a datagram socket: a queue of whole datagrams -/
structure DQ where
  q : List (List Nat)
  sent : List (List Nat)
  rcvd : List (List Nat × Nat)   -- ghost: the datagram a recv consumed, with the size of the buffer it was given

inductive DEv
  | send (d : List Nat) (full : Bool)    -- sendto: the whole datagram or EAGAIN (`full`)
  | recv (m : Nat)                       -- recvfrom into an m-byte buffer: one whole datagram, cut to m bytes; EAGAIN iff empty

/-- the bytes a recv hands to the caller: the head datagram, cut to the buffer -/
def delivered (x : List Nat × Nat) : List Nat := x.1.take x.2

def dStep (s : DQ) : DEv → DQ × Option Nat
  | .send d full => if full then (s, none) else ({ s with q := s.q ++ [d], sent := s.sent ++ [d] }, some d.length)
  | .recv m => match s.q with
      | [] => (s, none)
      | d :: r => ({ s with q := r, rcvd := s.rcvd ++ [(d, m)] }, some (delivered (d, m)).length)

def dInit : DQ := { q := [], sent := [], rcvd := [] }

def dRun (s : DQ) : List DEv → DQ
  | [] => s
  | e :: r => dRun (dStep s e).1 r

end Kern

end MayVerif.Io
