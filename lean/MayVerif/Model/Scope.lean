/-
  Model of `coroutine::scope` / `join!` / `ScopedJoinHandle::join` (src/scoped.rs) on top of the Join
  handshake (src/join.rs) with the result / panic slots of `spawn_impl` (src/coroutine_impl.rs), for any
  number of coroutines and any nesting: every actor may open a scope, spawn children into it and is itself
  possibly a child of somebody's scope. One `tstep` case per shared-memory operation of the code.

  (The Join component here is deliberately self-contained: it is the minimal handshake this work package
  needs and does not import `Model/Runtime/Join.lean`.)

      scope(f):        enter ; f: spawn* (defer a dtor per child, LIFO) ; [ScopedJoinHandle::join]* ; fend
                       drop_all: for every dtor: JoinState::join
                       unwinding out of `f` or out of a dtor: `Drop for Scope` = drop_all again
      JoinState::join: swap(Joined) ; if it was Running(handle):            -- `joined c := true`, the handle is consumed
          pinned code  handle.join()
          fixed  code  disable_cancel ; while !handle.is_done() { handle.wait() } ; handle.join() ; enable_cancel
                       (cancel is disabled exactly while the actor is at a join pc `jd … r2` of a scoped join, so the
                        disable count needs no field: `Env.chit` exists at `body` / `inF` only, `w4` looks at `fx`)
                       if !panicking { res.unwrap_or_else(resume_unwind) }
      handle.join():   wait ; packet.take() or else panic.take() or else Cancel
      Join::wait:      state.load ? { cur = Blocker ; to_wake.store(cur) ; state.load ? cur.park() : to_wake.take() }
      closure end:     [their_packet.store(v)] ; packet.store ; trigger: state.store(false) ; to_wake.take()?.unpark()
      panic/cancel end (run_coroutine's None branch): [panic.store(payload)] ; trigger

  `Blocker::park` is the abstract binary token of C02 with the cancel behaviour of `yield_with` / `check_cancel`:
  a park of a cancelled coroutine whose cancel is not disabled returns at once (`Env.cwake`); it raises the
  `Cancel` panic unless the coroutine is already unwinding (`unw ≠ no`), in which case it just returns
  (yield_now.rs:21-28, cancel.rs:111-121). That is defect F5: see `Props/C14.lean`.
  `Sh.fixed` selects the variant of `JoinState::join` (false = the pinned code, true = pending_fixes/F5.patch).

  Silent steps (no event in a trace of this layer): the return of a park (`w4`) and a cancellation point in user
  code noticing the cancel bit (`Env.chit`).
  Assumption (see README-C14, finding F10): `thread::panicking()` is modelled as "this coroutine is unwinding".

  Ghost fields (never read by a non-ghost step): `kids`, `out`, `jres`, `got`, `retv`, `bfor`, `own`, `par`, `src`, `jfin`, `jby`.
-/
namespace MayVerif.Scope

notation "Tid" => Nat
notation "Bid" => Nat

@[grind] def upd {α : Type} (f : Nat → α) (t : Nat) (v : α) : Nat → α := fun u => if u = t then v else f u

/-- what an actor is unwinding with -/
inductive Unw | no | pan (p : Nat) | cancel
  deriving DecidableEq, Repr

/-- how a coroutine ended = what its join delivers -/
inductive Res | ok | pan (p : Nat) | cancel
  deriving DecidableEq, Repr

/-- who asked for the join: a dtor of the scope, an explicit `ScopedJoinHandle::join` inside `f`, a plain `JoinHandle::join` -/
inductive K | dt | ex | top
  deriving DecidableEq, Repr

inductive Pc
  | idle | body | inF
  | jd (c : Tid) (k : K)                 -- state.load (pinned: first load of wait; fixed: is_done)
  | jx (c : Tid) (k : K) (r : Bool)      -- the operation after it differs between the variants
  | w2 (c : Tid) (k : K)                 -- to_wake.store(cur)
  | w3 (c : Tid) (k : K) (b : Bid)       -- re-check state.load
  | w4 (c : Tid) (k : K) (b : Bid)       -- parked
  | w5 (c : Tid) (k : K)                 -- to_wake.take() (re-check saw the coroutine finished)
  | r1 (c : Tid) (k : K)                 -- packet.take
  | r2 (c : Tid) (k : K)                 -- panic.take
  | s1 (c : Tid)                         -- ScopedJoinHandle::join: their_packet.take().unwrap()
  | left                                 -- the scope has been left (normally or by unwinding)
  | e1 (v : Nat) | e2 (v : Nat) | e3 | e4
  | pend                                 -- unwound to the coroutine's entry: run_coroutine's None branch
  | fin
  deriving DecidableEq, Repr

inductive Env
  | go
  | begin
  | enter
  | spawn (c : Tid)
  | sjoin (c : Tid)
  | fend
  | fpanic (p : Nat)
  | endv (v : Nat)
  | panic (p : Nat)
  | fdrop
  | join (c : Tid)
  | cancel (c : Tid)
  | chit
  | cwake
  deriving DecidableEq, Repr

structure Sh where
  fixed : Bool
  spawned : Tid → Bool
  sco : Tid → Bool
  fin : Tid → Bool               -- `!Join.state`
  wake : Tid → Option Bid        -- `Join.to_wake`
  pkt : Tid → Option Nat         -- result packet of `spawn_impl`
  spk : Tid → Option Nat         -- `their_packet` of `Scope::spawn`
  pan : Tid → Option Nat         -- panic slot
  canc : Tid → Bool              -- cancel bit
  unw : Tid → Unw
  chain : Tid → List Tid         -- dtor chain of the actor's open scope, head is run first
  joined : Tid → Bool            -- `JoinState::Joined`
  tok : Bid → Bool
  nextB : Bid
  -- ghost
  kids : Tid → List Tid          -- every coroutine spawned into the actor's current scope
  out : Tid → Option Res         -- how the coroutine ended
  jres : Tid → Option Res        -- what the join of this coroutine delivered to its joiner
  got : Tid → List Nat           -- values handed out by explicit joins of this coroutine
  retv : Tid → Option Nat        -- value the coroutine's closure returned
  bfor : Bid → Tid               -- the coroutine in whose Join this blocker was registered
  own : Tid → Option Nat         -- payload of a panic the actor raised itself
  par : Tid → Tid                -- owner of the scope the coroutine was spawned into
  src : Tid → Tid                -- the coroutine whose result the actor re-raised (`resume_unwind`)
  jfin : Tid → Bool              -- the coroutine was finished when its join delivered
  jby : Tid → Tid                -- who joins this coroutine

/-- actors 0 and 1 are threads (`main`, the canceller), everything else is a coroutine -/
@[grind] def isCo (t : Tid) : Bool := decide (2 ≤ t)

/-- first dtor of the chain whose `JoinState` is still `Running`, and the rest of the chain -/
def popChain (joined : Tid → Bool) : List Tid → Option (Tid × List Tid)
  | [] => none
  | c :: r => if joined c then popChain joined r else some (c, r)

/-- run the next dtor (`drop_all`), or leave the scope -/
def toDtor (sh : Sh) (me : Tid) : Sh × Pc :=
  match popChain sh.joined (sh.chain me) with
  | none => ({ sh with chain := upd sh.chain me [] }, .left)
  | some (c, r) => ({ sh with chain := upd sh.chain me r, joined := upd sh.joined c true, jby := upd sh.jby c me }, .jd c .dt)

def resOfUnw : Unw → Res
  | .no => .ok | .pan p => .pan p | .cancel => .cancel
def unwOfRes : Res → Unw
  | .ok => .no | .pan p => .pan p | .cancel => .cancel

/-- `handle.join()` produced `res` for coroutine `c` -/
def finishJoin (sh : Sh) (me c : Tid) (k : K) (res : Res) : Sh × Pc :=
  let sh := { sh with jres := upd sh.jres c (some res), jfin := upd sh.jfin c (sh.fin c) }
  match k with
  | .top => (sh, .idle)
  | .dt | .ex =>
    if sh.unw me = .no then
      match res with
      | .ok => if k = .ex then (sh, .s1 c) else toDtor sh me
      | r => toDtor { sh with unw := upd sh.unw me (unwOfRes r), src := upd sh.src me c } me   -- resume_unwind: `Drop for Scope` follows
    else toDtor sh me                                                      -- already panicking: the result is dropped

/-- the fix changes `JoinState::join` (scoped joins) only; a plain `JoinHandle::join` is the same code in both variants -/
def fx (sh : Sh) (k : K) : Bool := sh.fixed && (k != .top)

/-- after a completed wait: pinned code goes on to `packet.take`, fixed code re-checks `is_done` -/
def afterWait (sh : Sh) (c : Tid) (k : K) : Pc := if fx sh k then .jd c k else .r1 c k

def storeBlocker (sh : Sh) (c : Tid) (k : K) : Sh × Pc :=
  ({ sh with wake := upd sh.wake c (some sh.nextB), bfor := upd sh.bfor sh.nextB c, nextB := sh.nextB + 1 }, .w3 c k sh.nextB)

def takePacket (sh : Sh) (me c : Tid) (k : K) : Sh × Pc :=
  match sh.pkt c with
  | some _ => finishJoin { sh with pkt := upd sh.pkt c none } me c k .ok
  | none => (sh, .r2 c k)

/-- `trigger`'s `to_wake.take()?.unpark()` -/
def trigger2 (sh : Sh) (me : Tid) : Sh :=
  match sh.wake me with
  | some b => { sh with wake := upd sh.wake me none, tok := upd sh.tok b true }
  | none => sh

def tstep (sh : Sh) (me : Tid) : Pc → Env → Option (Sh × Pc)
  -- a spawned coroutine starts; a thread starts to act as a scope owner
  | .idle, .begin =>
      if isCo me then (if sh.spawned me then some (sh, .body) else none)
      else (if sh.unw me = .no then some (sh, .body) else none)
  | .idle, .spawn c =>
      if !isCo me && isCo c && !sh.spawned c then some ({ sh with spawned := upd sh.spawned c true }, .idle) else none
  | .idle, .join c =>
      if !isCo me && sh.spawned c && !sh.sco c && !sh.joined c && sh.unw me = .no then
        some ({ sh with joined := upd sh.joined c true, jby := upd sh.jby c me }, .jd c .top)      -- `join(self)` consumes the handle
      else none
  | .idle, .cancel c => if !isCo me && isCo c then some ({ sh with canc := upd sh.canc c true }, .idle) else none
  | .idle, _ => none
  -- user code outside a scope
  | .body, .enter => some ({ sh with chain := upd sh.chain me [], kids := upd sh.kids me [] }, .inF)
  | .body, .endv v =>
      if sh.unw me = .no then
        some ({ sh with retv := upd sh.retv me (some v) }, if isCo me then (if sh.sco me then .e1 v else .e2 v) else .idle)
      else none
  | .body, .panic p =>
      if sh.unw me = .no then
        some ({ sh with unw := upd sh.unw me (.pan p), own := upd sh.own me (some p) }, if isCo me then .pend else .idle)
      else none
  | .body, .chit =>
      if isCo me && sh.canc me && sh.unw me = .no then
        some ({ sh with unw := upd sh.unw me .cancel }, .pend)
      else none
  | .body, _ => none
  -- inside `f`
  | .inF, .spawn c =>
      if isCo c && !sh.spawned c then
        some ({ sh with spawned := upd sh.spawned c true, sco := upd sh.sco c true, joined := upd sh.joined c false,
                        chain := upd sh.chain me (c :: sh.chain me), kids := upd sh.kids me (c :: sh.kids me),
                        par := upd sh.par c me }, .inF)
      else none
  | .inF, .sjoin c =>
      if c ∈ sh.chain me ∧ sh.joined c = false then
        some ({ sh with joined := upd sh.joined c true, jby := upd sh.jby c me }, .jd c .ex)
      else none
  | .inF, .fend => some (toDtor sh me)
  | .inF, .fpanic p =>
      if sh.unw me = .no then some (toDtor { sh with unw := upd sh.unw me (.pan p), own := upd sh.own me (some p) } me) else none
  | .inF, .chit =>
      if isCo me && sh.canc me && sh.unw me = .no then
        some (toDtor { sh with unw := upd sh.unw me .cancel } me)
      else none
  | .inF, _ => none
  -- the join of coroutine `c`
  | .jd c k, _ => some (sh, .jx c k (!sh.fin c))
  | .jx c k true, _ =>
      if fx sh k then some (sh, if sh.fin c then .jd c k else .w2 c k)       -- wait(): state.load
      else some (storeBlocker sh c k)                                        -- to_wake.store(cur)
  | .jx c k false, _ =>
      if fx sh k then (if sh.fin c then some (sh, .r1 c k) else none)        -- handle.join(): wait(): state.load
      else some (takePacket sh me c k)                                       -- packet.take
  | .w2 c k, _ => some (storeBlocker sh c k)
  | .w3 c k b, _ => some (sh, if sh.fin c then .w5 c k else .w4 c k b)
  | .w4 c k _, .cwake =>
      if isCo me && sh.canc me then
        if fx sh k then some (sh, .jd c k)                                   -- cancel is disabled: a spurious wake-up, wait again
        else if sh.unw me = .no then
          (match k with
           | .top => none
           | _ => some (toDtor { sh with unw := upd sh.unw me .cancel } me)) -- `check_cancel` raises Cancel: the join is abandoned
        else some (sh, .r1 c k)                                              -- unwinding: `check_cancel` does not re-panic, the wait just returns
      else none
  | .w4 c k b, _ => if sh.tok b then some ({ sh with tok := upd sh.tok b false }, afterWait sh c k) else none
  | .w5 c k, _ => some ({ sh with wake := upd sh.wake c none }, afterWait sh c k)
  | .r1 c k, _ => some (takePacket sh me c k)
  | .r2 c k, _ =>
      match sh.pan c with
      | some p => some (finishJoin { sh with pan := upd sh.pan c none } me c k (.pan p))
      | none => some (finishJoin sh me c k .cancel)
  | .s1 c, _ =>
      match sh.spk c with
      | some v => some ({ sh with spk := upd sh.spk c none, got := upd sh.got c (sh.got c ++ [v]) }, .inF)
      | none => none                       -- `unwrap()` on an empty packet: proved unreachable
  -- the scope has been left: the owner's frame goes away
  | .left, .fdrop => some (sh, if sh.unw me = .no then .body else if isCo me then .pend else .idle)
  | .left, _ => none
  -- end of the closure
  | .e1 v, _ => some ({ sh with spk := upd sh.spk me (some v) }, .e2 0)
  | .e2 v, _ => some ({ sh with pkt := upd sh.pkt me (some v) }, .e3)
  | .e3, _ => some ({ sh with fin := upd sh.fin me true, out := upd sh.out me (some (resOfUnw (sh.unw me))) }, .e4)
  | .e4, _ => some (trigger2 sh me, .fin)
  -- run_coroutine's None branch
  | .pend, _ =>
      match sh.unw me with
      | .pan p => some ({ sh with pan := upd sh.pan me (some p) }, .e3)
      | .cancel => some ({ sh with fin := upd sh.fin me true, out := upd sh.out me (some .cancel) }, .e4)
      | .no => none
  | .fin, _ => none

structure St where
  n : Nat
  sh : Sh
  pcs : Tid → Pc

def step (s : St) (t : Tid) (e : Env) : Option St :=
  if t < s.n then
    match tstep s.sh t (s.pcs t) e with
    | none => none
    | some (sh', pc') => some ⟨s.n, sh', upd s.pcs t pc'⟩
  else none

def init (n : Nat) (fixed : Bool) : St :=
  ⟨n, { fixed := fixed, spawned := fun _ => false, sco := fun _ => false, fin := fun _ => false, wake := fun _ => none,
        pkt := fun _ => none, spk := fun _ => none, pan := fun _ => none, canc := fun _ => false,
        unw := fun _ => .no, chain := fun _ => [], joined := fun _ => false, tok := fun _ => false, nextB := 0,
        kids := fun _ => [], out := fun _ => none, jres := fun _ => none, got := fun _ => [], retv := fun _ => none,
        bfor := fun _ => 0, own := fun _ => none, par := fun _ => 0, src := fun _ => 0, jfin := fun _ => false, jby := fun _ => 0 },
   fun _ => .idle⟩

/-- every finite schedule: disabled choices are skipped, so `∀ sched` is every interleaving -/
def run (s : St) : List (Tid × Env) → St
  | [] => s
  | (t, e) :: r => match step s t e with
    | some s' => run s' r
    | none => run s r

end MayVerif.Scope
