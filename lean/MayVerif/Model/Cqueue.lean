/-
  Model of `may::cqueue` (src/cqueue.rs): select coroutines ("arms"), `EventSender::{send,subscribe,drop}`,
  `Cqueue::{add_impl,poll,check_panic,drop}`, `Selector::remove`, with the `selectors` mutex, its poison flag and
  the lifetime of its guard. One step per shared-memory operation of the code, in program order.

  Actors: the poller (owner of the cqueue: a thread or a coroutine), the arms `a = 0,1,…` (arm id = value of `total`
  when it was added) each with a *kernel tail* (the part of `send` that runs `EventSender::subscribe` on the worker
  after the coroutine switched off its stack: it runs concurrently with the resumed arm), and a remover (a thread
  that calls `Selector::remove`).

      arm a:   top      user code of a top half      --ret arm.top-->  s1   (tops += 1)
                                                     --arm.ret / arm.panic--> d0   --cancel unwinding--> d1
               s1       send: check_cancel            cancel ? (Cancel panic) d0 : s2
               s2       extra.store                   f8 ? (yield: susp, tail starts) : s3
               s3       (pinned) yield_with: is_canceled ?  shortcut: para := Canceled, NO event, b0  :  yield
               tail     k0 wait_kernel.store(true) (f16b)  k1 extra.load  k2 push Event{co}  k3 to_wake.take (+unpark)
                        k4 wait_kernel.store(false) (f16b)
               susp     --the poller pops the event (continue_bottom)-->  r0
               r0       (f16b) wait_kernel.load: spin while the tail is still running;  then b0
               b0       --call arm.bottom--> bot (botS += 1)   --ret arm.bottom--> top (bots += 1) | --arm.panic--> d0
               d0..d3   Drop for EventSender: extra.load, push Done, cnt -= 1, to_wake.take (+unpark, + join trigger)
      poller:  add_impl a1..a6, poll p1..p5 / run / check_panic c0..c8, Cqueue::drop x1..x5 + drain, see `pstep`.

  Five behaviours of the pinned code are switchable (`Cfg`): the main model is `fixed` (what /verif/pending_fixes
  F9, F8, F9b, F16a, F16b turn the code into; the replayed traces are traces of that code), the pinned behaviour is
  kept to prove the negation witnesses in `Props/C16.lean`.

  Folded (non-racing) sub-steps: `unpark` of the taken waker is part of the `to_wake.take` step; the join trigger of
  an arm is part of its last step `d3` (in the code it comes later: the model's `join` is enabled earlier than the
  real one, every real trace is still a model trace); `Blocker::current()` is part of `to_wake.store`.
  Ghost fields (never read by a non-ghost step): tops sent cons botS bots doneCons raisedBy caught
  (`raisedBy` is read by `xEnd` only to name the payload of an unwinding that is already in progress).
-/
namespace MayVerif.Cqueue

notation "Aid" => Nat
notation "Bid" => Nat

@[grind] def upd {α : Type} (f : Nat → α) (t : Nat) (v : α) : Nat → α := fun u => if u = t then v else f u

structure Cfg where
  f9 : Bool    -- check_panic releases the `selectors` guard before `join` / `resume_unwind`
  f8 : Bool    -- `send` does not use the user-space cancel shortcut of `yield_with`
  f9b : Bool   -- `Cqueue::drop` finishes the drain before it re-raises an arm's panic
  f16a : Bool  -- `poll` re-pops after `cnt == 0`; `check_panic` always joins
  f16b : Bool  -- `EventSender::wait_kernel`: `send` does not return while `subscribe` still runs
  f10 : Bool   -- `cqueue::scope` catches a panic of `f` and finishes the cqueue with no unwind in flight (F10.patch)
  deriving DecidableEq, Repr

def fixed : Cfg := ⟨true, true, true, true, true, true⟩
def pinned : Cfg := ⟨false, false, false, false, false, false⟩

inductive Ev | normal (a : Aid) | done (a : Aid)
  deriving DecidableEq, Repr

inductive Outcome | running | ok | cancelled | panicked
  deriving DecidableEq, Repr

inductive APc
  | idle | top | s1 | s2 | s3 | susp | r0 | b0 | bot | d0 | d1 | d2 | d3 | ended
  deriving DecidableEq, Repr

inductive TPc | idle | k0 | k1 | k2 | k3 | k4
  deriving DecidableEq, Repr

/-- which API the poller is in: `poll` called by the user (timed or not), or the drain of `Cqueue::drop` -/
inductive Mode | user (timed : Bool) | drain
  deriving DecidableEq, Repr

inductive Res | ok (a : Aid) | finished | timeout
  deriving DecidableEq, Repr

inductive Exit | normal | unwound (a : Aid) | poisonPanic | aborted
  deriving DecidableEq, Repr

inductive PPc
  | idle
  | a1 | a2 | a3 | a4 | a5 | a6
  | p1 (m : Mode) | p2 (m : Mode) | p2b (m : Mode) | p3 (m : Mode) | p4 (m : Mode) (b : Bid)
  | p4t (m : Mode) (ev : Ev) | p5 (m : Mode) (b : Bid)
  | run (m : Mode) (a : Aid)
  | c0 (m : Mode) (a : Aid) | c1 (m : Mode) (a : Aid) | c2 (m : Mode) (a : Aid) | c3 (m : Mode) (a : Aid)
  | c5 (m : Mode) (a : Aid) | c6 (m : Mode) (a : Aid) | c7 (m : Mode) (a : Aid) | c8 (m : Mode) (a : Aid)
  | cU (m : Mode) (a : Aid)
  | ret (m : Mode) (r : Res)
  | unw (a : Aid)                 -- a user `poll` unwinds with the payload of arm a
  | x1 | x2 | x2p | x3 (i : Aid) | x4 (i : Aid) | x5 | xEnd
  | gone (r : Exit)
  deriving DecidableEq, Repr

inductive RPc | idle | r1 (a : Aid) | r2 (a : Aid)
  deriving DecidableEq, Repr

/-- scheduling / environment choices -/
inductive Env
  | go
  | tail                      -- the kernel tail of the arm moves (instead of the arm itself)
  | topRet | armRet | armPanic | cancelUnwind      -- what the user code of an arm does next
  | add | poll (timed : Bool) | exit | catch | timeout | skip    -- poller
  | remove (a : Aid)                                          -- remover
  deriving DecidableEq, Repr

structure Sh where
  q : List Ev
  cnt : Int
  total : Nat
  toWake : Option Bid
  tok : Bid → Bool
  nextB : Bid
  mlock : Bool
  poison : Bool
  isPan : Bool
  handle : Aid → Bool
  cancel : Aid → Bool
  wk : Aid → Bool
  joined : Aid → Bool
  para : Aid → Bool
  outcome : Aid → Outcome
  unwinding : Bool
  stored : Option Aid
  -- ghost
  tops : Aid → Nat
  sent : Aid → Nat
  cons : Aid → Nat
  botS : Aid → Nat
  bots : Aid → Nat
  doneCons : Aid → Bool
  raisedBy : Option Aid
  caught : Bool

/-- wake whoever is registered (take + unpark in one step) -/
def wake (sh : Sh) : Sh :=
  match sh.toWake with
  | some b => { sh with toWake := none, tok := upd sh.tok b true }
  | none => sh

/-- one step of the kernel tail of arm `a` (`EventSender::subscribe`, runs on the worker after the arm switched out) -/
def kstep (cfg : Cfg) (sh : Sh) (a : Aid) (tp : TPc) : Option (Sh × TPc) :=
  match tp with
  | .idle => none
  | .k0 => some ({ sh with wk := upd sh.wk a true }, .k1)
  | .k1 => some (sh, .k2)
  | .k2 => some ({ sh with q := sh.q ++ [.normal a], sent := upd sh.sent a (sh.sent a + 1) }, .k3)
  | .k3 => some (wake sh, if cfg.f16b then .k4 else .idle)
  | .k4 => some ({ sh with wk := upd sh.wk a false }, .idle)

/-- one step of arm `a` itself. `sup`: the arm runs on the stack of a poller that is unwinding, where `check_cancel`
    does not raise the Cancel panic (`thread::panicking()` is about the OS thread, not the coroutine) -/
def mstep (cfg : Cfg) (sup : Bool) (sh : Sh) (a : Aid) (pc : APc) (e : Env) : Option (Sh × APc × Option TPc) :=
  match pc with
  | .idle => none
  | .top =>
    match e with
    | .topRet => some ({ sh with tops := upd sh.tops a (sh.tops a + 1) }, .s1, none)
    | .armRet => some ({ sh with outcome := upd sh.outcome a .ok }, .d0, none)
    | .armPanic => some ({ sh with outcome := upd sh.outcome a .panicked }, .d0, none)
    | .cancelUnwind => if sh.cancel a && !sup then some ({ sh with outcome := upd sh.outcome a .cancelled }, .d1, none) else none
    | _ => none
  | .s1 => if sh.cancel a && !sup then some ({ sh with outcome := upd sh.outcome a .cancelled }, .d0, none) else some (sh, .s2, none)
  | .s2 => if cfg.f8 then some (sh, .susp, some (if cfg.f16b then .k0 else .k1)) else some (sh, .s3, none)
  | .s3 =>
    if sh.cancel a then some ({ sh with para := upd sh.para a true }, .b0, none)     -- F8: no switch-out, no event
    else some (sh, .susp, some (if cfg.f16b then .k0 else .k1))
  | .susp => none                                          -- continued by the poller
  | .r0 => if cfg.f16b && sh.wk a then some (sh, .r0, none) else some (sh, .b0, none)
  | .b0 => some ({ sh with botS := upd sh.botS a (sh.botS a + 1) }, .bot, none)
  | .bot =>
    match e with
    | .armPanic => some ({ sh with outcome := upd sh.outcome a .panicked }, .d0, none)
    | .cancelUnwind => none
    | _ => some ({ sh with bots := upd sh.bots a (sh.bots a + 1) }, .top, none)
  | .d0 => some (sh, .d1, none)
  | .d1 => some ({ sh with q := sh.q ++ [.done a] }, .d2, none)
  | .d2 => some ({ sh with cnt := sh.cnt - 1 }, .d3, none)
  | .d3 => some ({ wake sh with joined := upd sh.joined a true }, .ended, none)
  | .ended => none

/-- one step of arm `a`: its kernel tail when `e = .tail`, else the arm itself (which starts a tail when it yields) -/
def astep (cfg : Cfg) (sup : Bool) (sh : Sh) (a : Aid) (pc : APc) (tp : TPc) (e : Env) : Option (Sh × APc × TPc) :=
  if e = .tail then
    match kstep cfg sh a tp with
    | some (sh', tp') => some (sh', pc, tp')
    | none => none
  else
    match mstep cfg sup sh a pc e with
    | some (sh', pc', some tp') => some (sh', pc', tp')
    | some (sh', pc', none) => some (sh', pc', tp)
    | none => none

/-- the arm is not running on the poller's stack any more (`run_coroutine` inside `continue_bottom` returned) -/
def offStack (pc : APc) (tp : TPc) : Bool :=
  match pc with
  | .top | .ended => true
  | .susp => tp == .idle
  | _ => false

/-- what the poller does with a popped event: `(next pc, shared state, arm whose pc changes)` -/
def dispatch (cfg : Cfg) (sh : Sh) (m : Mode) (ev : Ev) : Sh × PPc × Option (Aid × APc) :=
  match ev with
  | .normal a => ({ sh with cons := upd sh.cons a (sh.cons a + 1) }, .run m a, some (a, .r0))
  | .done a => ({ sh with doneCons := upd sh.doneCons a true }, if cfg.f16a then .c1 m a else .c0 m a, none)

/-- a `lock().unwrap()` on the poisoned `selectors` mutex panics: while unwinding that is a process abort -/
def poisonExit (sh : Sh) : PPc := if sh.unwinding then .gone .aborted else .gone .poisonPanic

/-- after `check_panic` decided to re-raise the payload of arm `a` -/
def raise (cfg : Cfg) (sh : Sh) (m : Mode) (a : Aid) : Sh × PPc :=
  match m with
  | .user _ => ({ sh with unwinding := true }, .unw a)
  | .drain =>
    if cfg.f9b then ({ sh with stored := some a }, .p1 .drain)        -- kept until the drain is complete
    else (sh, .gone (.unwound a))                                    -- leaves `drop` at once, arms may be alive

/-- one step of the poller; `apc`/`tpc` are read for the two hand-overs (nested resume, join) -/
def pstep (cfg : Cfg) (n : Nat) (sh : Sh) (apc : Aid → APc) (tpc : Aid → TPc) (pc : PPc) (e : Env) :
    Option (Sh × PPc × Option (Aid × APc)) :=
  match pc with
  | .idle =>
    match e with
    | .add => if sh.total < n then some (sh, .a1, none) else none
    | .poll t => some (sh, .p1 (.user t), none)
    | .exit => some (sh, .x1, none)
    | _ => none
  -- add_impl
  | .a1 => some (sh, .a2, some (sh.total, .top))                      -- total.load, spawn
  | .a2 => some ({ sh with cnt := sh.cnt + 1 }, .a3, none)
  | .a3 => some ({ sh with total := sh.total + 1 }, .a4, none)
  | .a4 => if sh.mlock then none else some ({ sh with mlock := true }, .a5, none)
  | .a5 => if sh.poison then some ({ sh with mlock := false }, poisonExit sh, none)
           else some ({ sh with handle := upd sh.handle (sh.total - 1) true }, .a6, none)
  | .a6 => some ({ sh with mlock := false }, .idle, none)
  -- poll
  | .p1 m =>
    match sh.q with
    | [] => some (sh, .p2 m, none)
    | ev :: q' => let (sh', pc', u) := dispatch cfg { sh with q := q' } m ev; some (sh', pc', u)
  | .p2 m =>
    if sh.cnt = 0 then (if cfg.f16a then some (sh, .p2b m, none) else some (sh, .ret m .finished, none))
    else some (sh, .p3 m, none)
  | .p2b m =>
    match sh.q with
    | [] => some (sh, .ret m .finished, none)
    | ev :: q' => let (sh', pc', u) := dispatch cfg { sh with q := q' } m ev; some (sh', pc', u)
  | .p3 m => some ({ sh with toWake := some sh.nextB, nextB := sh.nextB + 1 }, .p4 m sh.nextB, none)
  | .p4 m b =>
    match sh.q with
    | [] => some (sh, .p5 m b, none)
    | ev :: q' => some ({ sh with q := q' }, .p4t m ev, none)
  | .p4t m ev => let (sh', pc', u) := dispatch cfg { sh with toWake := none } m ev; some (sh', pc', u)
  | .p5 m b =>
    match e with
    | .timeout => if m = .user true then some (sh, .ret m .timeout, none) else none
    | _ => if sh.tok b then some (sh, .p1 m, none) else none
  | .run m a => if offStack (apc a) (tpc a) then some (sh, .ret m (.ok a), none) else none
  -- check_panic
  | .c0 m a => if sh.isPan then some (sh, .p1 m, none) else some (sh, .c1 m a, none)
  | .c1 m a => if sh.mlock then none else some ({ sh with mlock := true }, .c2 m a, none)
  | .c2 m a =>
    if sh.poison then some ({ sh with mlock := false }, poisonExit sh, none)
    else some ({ sh with handle := upd sh.handle a false }, if cfg.f9 then .c3 m a else .c5 m a, none)
  | .c3 m a => some ({ sh with mlock := false }, .c5 m a, none)
  | .c5 m a =>
    if sh.joined a then
      (if cfg.f16a && sh.isPan then some (sh, if cfg.f9 then .p1 m else .cU m a, none)
       else if sh.outcome a = .panicked then some (sh, .c6 m a, none)
       else some (sh, if cfg.f9 then .p1 m else .cU m a, none))
    else none
  | .cU m _ => some ({ sh with mlock := false }, .p1 m, none)
  | .c6 m a =>
    let sh' := { sh with isPan := true, raisedBy := some a }
    if cfg.f9 then let (s2, pc') := raise cfg sh' m a; some (s2, pc', none)
    else some (sh', .c7 m a, none)
  | .c7 m a => some ({ sh with poison := true }, .c8 m a, none)       -- the guard is dropped by the unwinding
  | .c8 m a => let (s2, pc') := raise cfg { sh with mlock := false } m a; some (s2, pc', none)
  | .ret m r =>
    match m with
    | .user _ => some (sh, .idle, none)
    | .drain => match r with
      | .finished => some (sh, .xEnd, none)
      | _ => some (sh, .p1 .drain, none)
  | .unw _ =>
    match e with
    | .catch => some ({ sh with unwinding := false, caught := true }, .idle, none)     -- caught inside the scope closure
    | _ => some (sh, .x1, none)                                         -- the cqueue is dropped by the unwinding
  -- Cqueue::drop
  | .x1 => if sh.mlock then none else some ({ sh with mlock := true }, .x2, none)
  | .x2 => if sh.poison then (if sh.unwinding then some (sh, .gone .aborted, none) else some (sh, .x2p, none))
           else some (sh, .x3 0, none)
  | .x2p => some ({ sh with mlock := false }, .gone .poisonPanic, none)
  | .x3 i =>
    if i < sh.total then
      match e with
      | .skip => if !sh.handle i || sh.joined i then some (sh, .x3 (i + 1), none) else none
      | _ => if sh.handle i then some ({ sh with cancel := upd sh.cancel i true }, .x4 i, none) else none
    else some (sh, .x5, none)
  | .x4 i => some (sh, .x3 (i + 1), none)
  | .x5 => some ({ sh with mlock := false }, .p1 .drain, none)
  | .xEnd =>
    -- a pending unwinding goes on (the stored payload is dropped: `thread::panicking()`); else the stored panic is re-raised
    if sh.unwinding then some (sh, .gone (.unwound (sh.raisedBy.getD 0)), none)
    else match sh.stored with
      | some a => some (sh, .gone (.unwound a), none)
      | none => some (sh, .gone .normal, none)
  | .gone _ => none

def rstep (sh : Sh) (pc : RPc) (e : Env) : Option (Sh × RPc) :=
  match pc with
  | .idle => match e with
    | .remove a => if a < sh.total then some (sh, .r1 a) else none
    | _ => none
  | .r1 a => some ({ sh with cancel := upd sh.cancel a true }, .r2 a)
  | .r2 _ => some (sh, .idle)

/-- arm `a` was resumed by `continue_bottom` and `run_coroutine` has not returned yet -/
def onStack (pc : PPc) (a : Aid) : Bool :=
  match pc with
  | .run _ b => a == b
  | _ => false

inductive Actor | poller | arm (a : Aid) | remover
  deriving DecidableEq, Repr

structure St where
  n : Nat
  sh : Sh
  apc : Aid → APc
  tpc : Aid → TPc
  ppc : PPc
  rpc : RPc

def step (cfg : Cfg) (s : St) (who : Actor) (e : Env) : Option St :=
  match s.ppc with
  | .gone .aborted => none                                   -- the process is dead
  | _ =>
  match who with
  | .arm a =>
    if a < s.n then
      -- (with F10.patch `unwinding` means "the payload is kept aside until the cqueue is finished": no unwind is in flight
      --  while the poller drains, so nothing is suppressed on its stack)
      match astep cfg (s.sh.unwinding && !cfg.f10 && onStack s.ppc a) s.sh a (s.apc a) (s.tpc a) e with
      | some (sh', pc', tp') => some { s with sh := sh', apc := upd s.apc a pc', tpc := upd s.tpc a tp' }
      | none => none
    else none
  | .poller =>
    match pstep cfg s.n s.sh s.apc s.tpc s.ppc e with
    | some (sh', pc', none) => some { s with sh := sh', ppc := pc' }
    | some (sh', pc', some (a, apc')) => some { s with sh := sh', ppc := pc', apc := upd s.apc a apc' }
    | none => none
  | .remover =>
    match rstep s.sh s.rpc e with
    | some (sh', pc') => some { s with sh := sh', rpc := pc' }
    | none => none

def sh0 : Sh :=
  { q := [], cnt := 0, total := 0, toWake := none, tok := fun _ => false, nextB := 0, mlock := false, poison := false,
    isPan := false, handle := fun _ => false, cancel := fun _ => false, wk := fun _ => false, joined := fun _ => false,
    para := fun _ => false, outcome := fun _ => .running, unwinding := false, stored := none,
    tops := fun _ => 0, sent := fun _ => 0, cons := fun _ => 0, botS := fun _ => 0, bots := fun _ => 0,
    doneCons := fun _ => false, raisedBy := none, caught := false }

/-- a cqueue scope that may add up to `n` arms -/
def init (n : Nat) : St := ⟨n, sh0, fun _ => .idle, fun _ => .idle, .idle, .idle⟩

/-- every finite schedule: disabled choices are skipped, so `∀ sched` is every interleaving -/
def run (cfg : Cfg) (s : St) : List (Actor × Env) → St
  | [] => s
  | (t, e) :: r => match step cfg s t e with
    | some s' => run cfg s' r
    | none => run cfg s r

end MayVerif.Cqueue
