/-
  Replay machine of the implementation-level Barrier model (families `barrier`, det and detx).

  Events of the barrier's lock-protected state (`sync.barrier.count`, `sync.barrier.generation_id`: hooked accesses,
  values included) are steps of `BarrierImpl.step` and must match its labels: order, operation, operand and result –
  in particular the value every evaluation of the `wait_while` predicate sees. All other events of the actor (mutex,
  condvar, blockers) are passed to the condvar machine underneath (see `CvClient.lean`); the specification steps of the
  barrier model fire with the matching change of that machine:
      b0lock / bwake  when the condvar machine sees the actor holding the mutex (again),
      b5wait          when the actor has released the mutex inside `Condvar::wait` (its blocker is enqueued by then),
      b9notify        when `notify_all` has popped the queue empty,
      b6unlock        with the first event of the guard's `unlock`.
  `call barrier.wait` / `ret barrier.wait <is_leader>` are the API boundary.
-/
import MayVerif.Core.Trace
import MayVerif.Model.Sync.BarrierImpl
import MayVerif.Model.Sync.CvClient
namespace MayVerif.BarrierImpl
open MayVerif
open MayVerif.CvClient

def barI : Option (String × Nat) := some ("bar", 0)

/-- the observable of a protected-state access -/
def label (sh : Sh) : Pc → Label
  | .b1gen => { obj := "sync.barrier.generation_id", inst := barI, op := "load", res := .num sh.gen }
  | .b2inc _ => { obj := "sync.barrier.count", inst := barI, op := "add", a1 := .num 1, res := .num sh.count }
  | .b3cmp _ => { obj := "sync.barrier.count", inst := barI, op := "load", res := .num sh.count }
  | .b4pred _ => if sh.seeded then { obj := "sync.barrier.count", inst := barI, op := "load", res := .num sh.count }
                 else { obj := "sync.barrier.generation_id", inst := barI, op := "load", res := .num sh.gen }
  | .b7reset _ => { obj := "sync.barrier.count", inst := barI, op := "store", a1 := .num 0 }
  | .b8gen _ => { obj := "sync.barrier.generation_id", inst := barI, op := "add", a1 := .num 1, res := .num sh.gen }
  | _ => { kind := "spec", op := "-" }

def pcName : Pc → String
  | .idle => "idle" | .b0lock => "b0lock" | .b1gen => "b1gen" | .b2inc _ => "b2inc" | .b3cmp _ => "b3cmp"
  | .b4pred _ => "b4pred" | .b5wait _ => "b5wait" | .bsleep .. => "bsleep" | .bwake _ => "bwake"
  | .b7reset _ => "b7reset" | .b8gen _ => "b8gen" | .b9notify _ => "b9notify" | .b6unlock .. => "b6unlock" | .done .. => "done"

def transName (sh : Sh) (pc : Pc) : String :=
  pcName pc ++ match pc with
    | .b3cmp _ => if sh.count < sh.N then "/follower" else "/leader"
    | .b4pred lg => if lg == sh.gen then "/sleep" else if sh.count == 0 then "/released" else "/released-overtaken"
    | _ => ""

structure LSt where
  b : St
  c : Condvar.PSt
  err : Option String := none

def isStateObj (ev : Event) : Bool := ev.kind == "a" && ev.obj.startsWith "sync.barrier."

/-- fire the specification steps of the barrier model that the change of the condvar machine (`c` → `c'`) implies -/
def sync (b : St) (c c' : Condvar.PSt) (t : Nat) : Option (St × Condvar.PSt × String) :=
  let holdsNow := heldQuiet c' t
  match b.pcs t with
  | .b0lock =>
      if holdsNow then (step b t .go).bind fun b' => (feed c' t "ret" "mutex.lock").map fun c2 => (b', c2, "+b0lock")
      else some (b, c', "")
  | .b5wait _ =>
      if !Condvar.holdsM (c'.cv.pcs t) then (step b t .go).map fun b' => (b', c', "+b5wait") else some (b, c', "")
  | .bsleep _ e =>
      if holdsNow then
        let wake := if e < b.sh.nall then Env.go else Env.spurious
        ((step b t wake).bind fun b1 => step b1 t .go).map fun b' => (b', c', if e < b.sh.nall then "+bsleep/notified+bwake" else "+bsleep/spurious+bwake")
      else some (b, c', "")
  | .b9notify _ =>
      if holdsNow && c.cv.pcs t != .held then
        (step b t .go).bind fun b' => (feed c' t "ret" "cv.notify_all").map fun c2 => (b', c2, "+b9notify")
      else some (b, c', "")
  | _ => some (b, c', "")

def cands (s : LSt) (t : Nat) (ev : Event) : List (Label × LSt × String) :=
  let bpc := s.b.pcs t
  let pass (c0 : Condvar.PSt) (b0 : St) (pre : String) : List (Label × LSt × String) :=
    (Condvar.cands c0 t ev).filterMap fun (l, c', nm) =>
      (sync b0 c0 c' t).map fun (b', c2, sfx) => (l, { s with b := b', c := c2 }, pre ++ nm ++ sfx)
  if ev.kind == "call" then
    if ev.op == "barrier.wait" && bpc == .idle && outQuiet s.c t then
      match step s.b t .call, feed s.c t "call" "mutex.lock" with
      | some b', some c' => [({ kind := "call", op := "barrier.wait" }, { s with b := b', c := c' }, "call")]
      | _, _ => []
    else []
  else if ev.kind == "ret" then
    match bpc with
    | .done l _ =>
        if ev.op == "barrier.wait" && outQuiet s.c t then
          match step s.b t .ret with
          | some b' => [({ kind := "ret", op := "barrier.wait", a1 := .num (if l then 1 else 0) }, { s with b := b' }, if l then "ret/leader" else "ret/follower")]
          | none => []
        else []
    | _ => [({ kind := "ret", op := s!"<none: the model's Barrier::wait is at {pcName bpc}>" }, s, "")]
  else if isStateObj ev then
    -- an access to the protected state: the actor must hold the mutex and be between two API calls
    if !heldQuiet s.c t then [({ kind := "spec", op := s!"<none: access to the barrier state at {pcName bpc} without holding the mutex>" }, s, "")]
    else match bpc with
      | .b1gen | .b2inc _ | .b3cmp _ | .b4pred _ | .b7reset _ | .b8gen _ =>
          (match step s.b t .go with
           | none => []
           | some b' =>
               -- entering / leaving `wait_while`
               let c' : Option Condvar.PSt := match bpc, b'.pcs t with
                 | .b3cmp _, .b4pred _ => feed s.c t "call" "cv.wait_while"
                 | .b4pred _, .b6unlock .. => feed s.c t "ret" "cv.wait_while"
                 | _, _ => some s.c
               match c' with
               | some c' => [(label s.b.sh bpc, { s with b := b', c := c' }, transName s.b.sh bpc)]
               | none => [])
      | _ => [({ kind := "spec", op := s!"<none: no access to the barrier state at {pcName bpc}>" }, s, "")]
  else
    -- an event of the mutex / condvar / a blocker
    match bpc with
    | .b9notify _ =>
        if heldQuiet s.c t then
          match feed s.c t "call" "cv.notify_all" with
          | some c0 => pass c0 s.b ""
          | none => []
        else pass s.c s.b ""
    | .b6unlock .. =>
        -- the guard is dropped: `unlock` without a marker; the model's unlock fires with its first event
        (match step s.b t .go, feed s.c t "call" "mutex.unlock" with
         | some b', some c0 => pass c0 b' "b6unlock+"
         | _, _ => [])
    | .b1gen | .b2inc _ | .b3cmp _ | .b4pred _ | .b7reset _ | .b8gen _ =>
        (pass s.c s.b "").map fun (l, _, _) => ({ l with op := l.op ++ s!" <but the model expects: {(label s.b.sh bpc).str}>" , kind := "spec" }, s, "")
    | _ => pass s.c s.b ""

def inv (s : LSt) : Option String :=
  match s.err with
  | some e => some e
  | none => match Condvar.inv s.c with
    | some e => some e
    | none =>
      if s.b.sh.locked != s.c.cv.sh.locked then some "the barrier model's mutex bit differs from the condvar machine's"
      else if s.b.sh.ph == 0 && s.b.sh.N > 0 && s.b.sh.count >= s.b.sh.N then some "count reached num_threads without a release"
      else if (List.range s.b.sh.gen).any (fun g => s.b.sh.ldr g != 1 || s.b.sh.arr g != s.b.sh.N) then some "a released generation without exactly one leader / exactly n arrivals"
      else none

def machine : Machine where
  St := LSt
  init := fun h => match hnat h "actors", hnat h "parties" with
    | some n, some p => .ok { b := init n p false, c := { cv := Condvar.init n, mx := Mutex.init n 1 } }
    | _, _ => .error "barrier scenario without actors= / parties="
  actor := fun s a => if a.startsWith "t" then ((a.drop 1).toString.toNat?).bind (fun t => if t < s.b.n then some t else none) else none
  cands := cands
  inv := inv
  where_ := fun s t => s!"barrier:{pcName (s.b.pcs t)} {Condvar.machine.where_ s.c t}"
  atEnd := fun s =>
    if (List.range s.b.n).all (fun t => s.b.pcs t == .idle) && s.b.sh.count == 0 then Condvar.machine.atEnd s.c
    else some "not every party is out of the barrier at the end of a finished run"
  skip := fun e => e.kind == "note" || e.obj.startsWith "?."

end MayVerif.BarrierImpl
