/-
  Observable labels of the SyncFlag model and its replay machine: the driver executes the very `step`
  function of `Model/Sync/SyncFlag.lean` on implementation traces (scenario family `syncflag`).
-/
import MayVerif.Core.Trace
import MayVerif.Model.Sync.SyncFlag
namespace MayVerif.SyncFlag
open MayVerif

def flagI : Option (String × Nat) := some ("flag", 0)
def bl (b : Bid) : Option (String × Nat) := some ("blk", b)
def b2i (b : Bool) : Int := if b then 1 else 0

/-- the observable of the step `tstep sh me pc e`; `api` is the name on a call / return event -/
def label (sh : Sh) (pc : Pc) (e : Env) (api : String) : Label :=
  match pc, e with
  | .idle, _ => { kind := "call", op := api }
  | .done r, _ => { kind := "ret", op := api, a1 := .num r }
  | .i0load, _ | .w0load, _ => { obj := "sync.sync_flag.cnt", inst := flagI, op := "load", res := .num sh.cnt, ord := "SeqCst" }
  | .w1push b, _ => { obj := "sync.sync_flag.to_wake", inst := flagI, op := "q.push", a1 := .id "blk" b }
  | .w2fsub _, _ => { obj := "sync.sync_flag.cnt", inst := flagI, op := "fetch_sub", a1 := .num 1, res := .num sh.cnt, ord := "SeqCst" }
  | .f0store _ _, _ => { obj := "sync.sync_flag.cnt", inst := flagI, op := "store", a1 := .num MAXI, ord := "SeqCst" }
  | .fpop _ _, _ => { obj := "sync.sync_flag.to_wake", inst := flagI, op := "q.pop",
                      res := match sh.q with | [] => .num (-1) | w :: _ => .id "blk" w }
  | .wake1 w _ _, _ => { kind := "blk", obj := "tp", inst := bl w, op := "unpark" }
  | .wake2 w _ _, _ => { obj := "sync.blocking.unparked", inst := bl w, op := "store", a1 := .num 1, ord := "SeqCst" }
  | .wake3 w _ _, _ => { obj := "sync.blocking.release", inst := bl w, op := "swap", a1 := .num 0, res := .num (b2i (sh.release w)), ord := "SeqCst" }
  | .w5park b, .abort => { kind := "blk", obj := "tp", inst := bl b, op := "park_return", res := .num 0 }
  | .w5park b, _ => { kind := "blk", obj := "tp", inst := bl b, op := "park_return", res := .num 1 }
  | .w6load b, _ | .w8load b, _ => { obj := "sync.blocking.unparked", inst := bl b, op := "load", res := .num (b2i (sh.unparked b)), ord := "SeqCst" }
  | .w7set b, _ => { obj := "sync.blocking.release", inst := bl b, op := "store", a1 := .num 1, ord := "SeqCst" }
  | .w9swap b, _ => { obj := "sync.blocking.release", inst := bl b, op := "swap", a1 := .num 0, res := .num (b2i (sh.release b)), ord := "SeqCst" }

def pcName : Pc → String
  | .idle => "idle" | .done _ => "done" | .i0load => "i0load" | .w0load => "w0load"
  | .w1push _ => "w1push" | .w2fsub _ => "w2fsub" | .f0store .. => "f0store" | .fpop .. => "fpop"
  | .wake1 .. => "wake1" | .wake2 .. => "wake2" | .wake3 .. => "wake3"
  | .w5park _ => "w5park" | .w6load _ => "w6load" | .w7set _ => "w7set" | .w8load _ => "w8load"
  | .w9swap _ => "w9swap"

def bName : Base → String | .toPark _ => "self" | .fin => "ret"
def dName (d : Nat) : String := if d = 0 then "" else "+nested"

def envOfCall : String → Option Env
  | "syncflag.wait" | "syncflag.wait_timeout" => some .startWait
  | "syncflag.fire" => some .startFire
  | "syncflag.is_fired" => some .startIs
  | _ => none

def envsFor : Pc → List Env
  | .w5park _ => [.go, .abort]
  | _ => [.go]

/-- transition name for coverage: pc plus the branch taken -/
def transName (sh : Sh) (pc : Pc) (e : Env) : String :=
  let br := match pc, e with
    | .idle, .startWait => "/wait" | .idle, .startFire => "/fire" | .idle, .startIs => "/is_fired"
    | .i0load, _ | .w0load, _ => if sh.cnt > 0 then "/fired" else "/not"
    | .w2fsub _, _ => if sh.cnt > 0 then "/selfserve" else "/park"
    | .f0store d k, _ => "." ++ bName k ++ dName d ++ (if sh.fired then "/again" else "/first")
    | .fpop d k, _ => "." ++ bName k ++ dName d ++ (if sh.q.isEmpty then "/none" else "/some")
    | .wake3 w _ _, _ | .w9swap w, _ => if sh.release w then "/refire" else "/done"
    | .w5park _, .abort => "/abort" | .w5park _, _ => "/woken"
    | .w6load b, _ | .w8load b, _ => if sh.unparked b then "/unparked" else "/not"
    | _, _ => ""
  pcName pc ++ br

def cands (s : St) (t : Nat) (ev : Event) : List (Label × St × String) :=
  let pc := s.pcs t
  -- the model's own next steps (what a divergence report shows as "expected")
  let normal : List (Label × St × String) := match pc with
    | .idle | .done _ => []
    | _ => (envsFor pc).filterMap fun e =>
      match step s t e with
      | some s' => some (label s.sh pc e "", s', transName s.sh pc e)
      | none => none
  match ev.kind, pc with
  | "call", .idle =>
    match envOfCall ev.op with
    | some e => match step s t e with
      | some s' => [(label s.sh pc e ev.op, s', transName s.sh pc e)]
      | none => []
    | none => []
  | "ret", .done _ =>
    -- the API name on a return must be one of this object's calls; the value is the model's
    match envOfCall ev.op, step s t .go with
    | some _, some s' => [(label s.sh pc .go ev.op, s', "done")]
    | _, _ => []
  | "blk", .w5park b =>
    -- park entry is an observation of the state, not a step
    if ev.op == "park_enter" then [({ kind := "blk", obj := "tp", inst := bl b, op := "park_enter" }, s, "park_enter")]
    else normal
  | _, _ => normal

def allIdle (s : St) : Bool := (List.range s.n).all (fun t => s.pcs t == .idle)

/-- executable check on the replayed state: the latch (`fired` ⇒ the counter reads fired) -/
def invCheck (s : St) : Option String :=
  if s.sh.fired && !(isFired s) then some s!"fired but cnt={s.sh.cnt}"
  else if !s.sh.fired && isFired s then some s!"never fired but cnt={s.sh.cnt}"
  else none

def machine : Machine where
  St := St
  init := fun h => match hnat h "actors" with
    | some n => .ok (init n)
    | none => .error "syncflag scenario without actors="
  actor := fun s a => if a.startsWith "t" then ((a.drop 1).toString.toNat?).bind (fun t => if t < s.n then some t else none) else none
  cands := cands
  inv := invCheck
  where_ := fun s t => pcName (s.pcs t)
  atEnd := fun s => if allIdle s then
      (if !s.sh.fired || s.sh.q.isEmpty then none else some s!"all idle, fired, but {s.sh.q.length} blockers left in the queue")
    else some "not every actor is idle at the end of a finished run"
  skip := fun e => e.kind == "note"

end MayVerif.SyncFlag
