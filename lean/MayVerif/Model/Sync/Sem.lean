/-
  Model of `may::sync::Semphore` (src/sync/semphore.rs) with the `SyncBlocker` hand-over
  (src/sync/blocking.rs): one `tstep` case per shared-memory operation of the code, in program order.

      try_wait():            c0load false   cnt.load()  > 0 ?  c0cas : return false
                             c0cas false c  cnt.compare_exchange(c, c-1)  Ok -> return true | Err(x) -> x > 0 ? retry : return false
      wait_timeout_impl(d):  c0load true / c0cas true c      the same loop (`self.try_wait()`); on failure:
                                                              `SyncBlocker::current()` (fresh blocker `b`), then
                             w1push  to_wake.push(cur)
                             w2fsub  cnt.fetch_sub(1) > 0 ?  wakeup_one() : park
                             w5park  cur.park(d)  -> Ok : return true | Err(Timeout|Canceled)      (Env.abort)
                             w6load  cur.is_unparked() ? post()
                             w7set   cur.set_release()   w8load  cur.is_unparked()   w9swap  cur.take_release() ? post()
                                                              return false (or the cancel panic)
      wakeup_one():          w3pop   to_wake.pop().expect(..)
                             wake1   w.blocker.unpark()        wake2  w.unparked.store(true)
                             wake3   w.release.swap(false) ?  post() : return
      post():                p0fadd  cnt.fetch_add(1) < 0 ?  wakeup_one() : return
      get_value():           g0load  cnt.load()
      every API return:      done r  (the `ret` event; `r` = returned value, false/unit = 0)

  `K` is the continuation of a (nested) `post()` / `wakeup_one()`: park on the own blocker (self-serve inside
  `wait_timeout_impl`), return to the caller of the API, and `ext` = "this `post()` is the API call itself"
  (only used to tell the external posts from the compensating ones in the ghost ledger).

  Ghost fields (never read by a step that is not itself ghost): `aph`, `vph` (per-blocker phases of the owner's
  abort path and of its waker), `duty`/`dup` (who committed to pass the permit on), `wk`/`ow` (who wakes / owns a
  blocker), `got` (the owner consumed the token), and the monotone counters
  `FS M pushes pops` (fetch_subs, matches, queue traffic) and `PX Cd CS TK DU S` (external posts performed,
  compensating posts performed, successful CASes, tokens consumed, commitments, successful waits).
-/
namespace MayVerif.Sem

notation "Tid" => Nat
notation "Bid" => Nat

@[grind] def upd {α : Type} (f : Nat → α) (t : Nat) (v : α) : Nat → α := fun u => if u = t then v else f u

/-- continuation after a `post()` / `wakeup_one()` -/
inductive K | toPark (b : Bid) | fin | ext
  deriving DecidableEq, Repr

inductive Pc
  | idle
  | done (r : Int)
  | c0load (w : Bool) | c0cas (w : Bool) (c : Int)
  | g0load
  | w1push (b : Bid) | w2fsub (b : Bid) | w3pop (k : K)
  | wake1 (w : Bid) (k : K) | wake2 (w : Bid) (k : K) | wake3 (w : Bid) (k : K)
  | w5park (b : Bid) | w6load (b : Bid) | w7set (b : Bid) | w8load (b : Bid) | w9swap (b : Bid)
  | p0fadd (k : K)
  deriving DecidableEq, Repr

/-- environment / caller choices: which API is called, whether a park ends by time-out or cancellation -/
inductive Env | startWait | startTry | startPost | startGet | abort | go
  deriving DecidableEq, Repr

/-- owner's abort phase / waker's phase, per blocker (ghost) -/
inductive APh | a0 | a1 | a2 | a3 | a4 | a5 deriving DecidableEq, Repr
inductive VPh | v0 | v1 | v2 | v3 | v4 deriving DecidableEq, Repr

structure Sh where
  cnt : Int
  q : List Bid
  tok : Bid → Bool
  unparked : Bid → Bool
  release : Bid → Bool
  nextB : Bid
  -- ghost
  aph : Bid → APh
  vph : Bid → VPh
  duty : Bid → Bool      -- somebody committed to re-post on behalf of this blocker
  dup : Bool             -- a second commitment for the same blocker happened (must stay false)
  FS : Nat
  M : Nat
  pushes : Nat
  pops : Nat
  wk : Bid → Tid         -- who is waking this blocker
  ow : Bid → Tid         -- who owns (waits on) this blocker
  got : Bid → Bool       -- the owner consumed the wake-up token (its wait succeeded)
  PX : Nat               -- external post()s whose fetch_add has been performed
  Cd : Nat               -- compensating (re-)posts whose fetch_add has been performed
  CS : Nat               -- successful compare_exchanges (fast-path successes)
  TK : Nat               -- tokens consumed (slow-path successes)
  DU : Nat               -- commitments made
  S : Nat                -- wait / wait_timeout / try_wait calls that returned true

def contK (k : K) : Pc := match k with | .toPark b => .w5park b | .fin => .done 0 | .ext => .done 0
/-- a nested call made by an external post is an ordinary one -/
def unx (k : K) : K := match k with | .ext => .fin | k => k
def isExt (k : K) : Bool := match k with | .ext => true | _ => false

def tstep (sh : Sh) (me : Tid) : Pc → Env → Option (Sh × Pc)
  | .idle, .startWait => some (sh, .c0load true)
  | .idle, .startTry => some (sh, .c0load false)
  | .idle, .startPost => some (sh, .p0fadd .ext)
  | .idle, .startGet => some (sh, .g0load)
  | .idle, _ => none
  | .done _, _ => some (sh, .idle)
  | .g0load, _ => some (sh, .done (if sh.cnt > 0 then sh.cnt else 0))
  | .c0load w, _ =>
      if sh.cnt > 0 then some (sh, .c0cas w sh.cnt)
      else if w then some ({ sh with nextB := sh.nextB + 1, ow := upd sh.ow sh.nextB me }, .w1push sh.nextB)
      else some (sh, .done 0)
  | .c0cas w c, _ =>
      if sh.cnt = c then some ({ sh with cnt := c - 1, CS := sh.CS + 1, S := sh.S + 1 }, .done 1)
      else if sh.cnt > 0 then some (sh, .c0cas w sh.cnt)
      else if w then some ({ sh with nextB := sh.nextB + 1, ow := upd sh.ow sh.nextB me }, .w1push sh.nextB)
      else some (sh, .done 0)
  | .w1push b, _ => some ({ sh with q := sh.q ++ [b], pushes := sh.pushes + 1 }, .w2fsub b)
  | .w2fsub b, _ =>
      some ({ sh with cnt := sh.cnt - 1, FS := sh.FS + 1, M := if sh.cnt > 0 then sh.M + 1 else sh.M },
            if sh.cnt > 0 then .w3pop (.toPark b) else .w5park b)
  | .w3pop k, _ => match sh.q with
      | [] => none           -- `expect("got null blocker!")` would fire: proved unreachable
      | w :: q' => some ({ sh with q := q', vph := upd sh.vph w .v1, pops := sh.pops + 1, wk := upd sh.wk w me }, .wake1 w k)
  | .wake1 w k, _ => some ({ sh with tok := upd sh.tok w true, vph := upd sh.vph w .v2 }, .wake2 w k)
  | .wake2 w k, _ => some ({ sh with unparked := upd sh.unparked w true, vph := upd sh.vph w .v3 }, .wake3 w k)
  | .wake3 w k, _ =>
      some ({ sh with release := upd sh.release w false, vph := upd sh.vph w .v4,
                      duty := if sh.release w then upd sh.duty w true else sh.duty,
                      DU := if sh.release w then sh.DU + 1 else sh.DU,
                      dup := sh.dup || (sh.release w && sh.duty w) },
            if sh.release w then .p0fadd k else contK k)
  | .w5park b, .abort => some ({ sh with aph := upd sh.aph b .a1 }, .w6load b)
  | .w5park b, _ =>
      if sh.tok b then some ({ sh with tok := upd sh.tok b false, got := upd sh.got b true, TK := sh.TK + 1, S := sh.S + 1 }, .done 1)
      else none
  | .w6load b, _ =>
      if sh.unparked b then
        some ({ sh with aph := upd sh.aph b .a5, duty := upd sh.duty b true, DU := sh.DU + 1, dup := sh.dup || sh.duty b }, .p0fadd .fin)
      else some ({ sh with aph := upd sh.aph b .a2 }, .w7set b)
  | .w7set b, _ => some ({ sh with release := upd sh.release b true, aph := upd sh.aph b .a3 }, .w8load b)
  | .w8load b, _ => if sh.unparked b then some ({ sh with aph := upd sh.aph b .a4 }, .w9swap b)
                    else some ({ sh with aph := upd sh.aph b .a5 }, .done 0)
  | .w9swap b, _ =>
      some ({ sh with release := upd sh.release b false, aph := upd sh.aph b .a5,
                      duty := if sh.release b then upd sh.duty b true else sh.duty,
                      DU := if sh.release b then sh.DU + 1 else sh.DU,
                      dup := sh.dup || (sh.release b && sh.duty b) },
            if sh.release b then .p0fadd .fin else .done 0)
  | .p0fadd k, _ =>
      some ({ sh with cnt := sh.cnt + 1, M := if sh.cnt < 0 then sh.M + 1 else sh.M,
                      PX := if isExt k then sh.PX + 1 else sh.PX, Cd := if isExt k then sh.Cd else sh.Cd + 1 },
            if sh.cnt < 0 then .w3pop (unx k) else contK k)

structure St where
  n : Nat
  sh : Sh
  pcs : Tid → Pc

def step (s : St) (t : Tid) (e : Env) : Option St :=
  if t < s.n then
    match tstep s.sh t (s.pcs t) e with
    | none => none
    | some (sh', pc') => some ⟨s.n, sh', upd s.pcs t pc'⟩
  else none

def init (n : Nat) (i : Nat) : St :=
  ⟨n, { cnt := i, q := [], tok := fun _ => false, unparked := fun _ => false, release := fun _ => false, nextB := 0,
        aph := fun _ => .a0, vph := fun _ => .v0, duty := fun _ => false, dup := false, FS := 0, M := 0, pushes := 0, pops := 0,
        wk := fun _ => 0, ow := fun _ => 0, got := fun _ => false, PX := 0, Cd := 0, CS := 0, TK := 0, DU := 0, S := 0 },
   fun _ => .idle⟩

/-- every finite schedule: disabled choices are skipped, so `∀ sched` is every interleaving -/
def run (s : St) : List (Tid × Env) → St
  | [] => s
  | (t, e) :: r => match step s t e with
    | some s' => run s' r
    | none => run s r

/-- what `get_value()` returns in this state -/
def value (s : St) : Int := if s.sh.cnt > 0 then s.sh.cnt else 0

end MayVerif.Sem
