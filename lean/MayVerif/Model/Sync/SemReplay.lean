/-
  Observable labels of the Semphore model and its replay machine: the driver executes the very `step`
  function of `Model/Sync/Sem.lean` on implementation traces (scenario family `sem`).
-/
import MayVerif.Core.Trace
import MayVerif.Model.Sync.Sem
namespace MayVerif.Sem
open MayVerif

def semI : Option (String × Nat) := some ("sem", 0)
def bl (b : Bid) : Option (String × Nat) := some ("blk", b)
def b2i (b : Bool) : Int := if b then 1 else 0

/-- the observable of the step `tstep sh me pc e`; `api` is the name on a call / return event -/
def label (sh : Sh) (pc : Pc) (e : Env) (api : String) : Label :=
  match pc, e with
  | .idle, _ => { kind := "call", op := api }
  | .done r, _ => { kind := "ret", op := api, a1 := .num r }
  | .c0load _, _ | .g0load, _ => { obj := "sync.semphore.cnt", inst := semI, op := "load", res := .num sh.cnt, ord := "SeqCst" }
  | .c0cas _ c, _ =>
      { obj := "sync.semphore.cnt", inst := semI, op := "cas", a1 := .num c, a2 := .num (c - 1), res := .num sh.cnt,
        flag := some (if sh.cnt = c then 1 else 0), ord := "SeqCst" }
  | .w1push b, _ => { obj := "sync.semphore.to_wake", inst := semI, op := "q.push", a1 := .id "blk" b }
  | .w2fsub _, _ => { obj := "sync.semphore.cnt", inst := semI, op := "fetch_sub", a1 := .num 1, res := .num sh.cnt, ord := "SeqCst" }
  | .w3pop _, _ => { obj := "sync.semphore.to_wake", inst := semI, op := "q.pop",
                     res := match sh.q with | [] => .num (-1) | w :: _ => .id "blk" w }
  | .wake1 w _, _ => { kind := "blk", obj := "tp", inst := bl w, op := "unpark" }
  | .wake2 w _, _ => { obj := "sync.blocking.unparked", inst := bl w, op := "store", a1 := .num 1, ord := "SeqCst" }
  | .wake3 w _, _ => { obj := "sync.blocking.release", inst := bl w, op := "swap", a1 := .num 0, res := .num (b2i (sh.release w)), ord := "SeqCst" }
  | .w5park b, .abort => { kind := "blk", obj := "tp", inst := bl b, op := "park_return", res := .num 0 }
  | .w5park b, _ => { kind := "blk", obj := "tp", inst := bl b, op := "park_return", res := .num 1 }
  | .w6load b, _ | .w8load b, _ => { obj := "sync.blocking.unparked", inst := bl b, op := "load", res := .num (b2i (sh.unparked b)), ord := "SeqCst" }
  | .w7set b, _ => { obj := "sync.blocking.release", inst := bl b, op := "store", a1 := .num 1, ord := "SeqCst" }
  | .w9swap b, _ => { obj := "sync.blocking.release", inst := bl b, op := "swap", a1 := .num 0, res := .num (b2i (sh.release b)), ord := "SeqCst" }
  | .p0fadd _, _ => { obj := "sync.semphore.cnt", inst := semI, op := "fetch_add", a1 := .num 1, res := .num sh.cnt, ord := "SeqCst" }

def pcName : Pc → String
  | .idle => "idle" | .done _ => "done" | .c0load true => "c0load.wait" | .c0load false => "c0load.try"
  | .c0cas true _ => "c0cas.wait" | .c0cas false _ => "c0cas.try" | .g0load => "g0load"
  | .w1push _ => "w1push" | .w2fsub _ => "w2fsub"
  | .w3pop _ => "w3pop" | .wake1 .. => "wake1" | .wake2 .. => "wake2" | .wake3 .. => "wake3"
  | .w5park _ => "w5park" | .w6load _ => "w6load" | .w7set _ => "w7set" | .w8load _ => "w8load"
  | .w9swap _ => "w9swap" | .p0fadd _ => "p0fadd"

def kName : K → String | .toPark _ => "self" | .fin => "comp" | .ext => "ext"

/-- the API call an event name stands for -/
def envOfCall : String → Option Env
  | "sem.wait" | "sem.wait_timeout" => some .startWait
  | "sem.try_wait" => some .startTry
  | "sem.post" => some .startPost
  | "sem.get_value" => some .startGet
  | _ => none

def envsFor : Pc → List Env
  | .w5park _ => [.go, .abort]
  | _ => [.go]

/-- transition name for coverage: pc plus the branch taken -/
def transName (sh : Sh) (pc : Pc) (e : Env) : String :=
  let br := match pc, e with
    | .idle, .startWait => "/wait" | .idle, .startTry => "/try" | .idle, .startPost => "/post" | .idle, .startGet => "/get"
    | .c0load _, _ => if sh.cnt > 0 then "/pos" else "/fail"
    | .c0cas _ c, _ => if sh.cnt = c then "/ok" else if sh.cnt > 0 then "/retry" else "/fail"
    | .w2fsub _, _ => if sh.cnt > 0 then "/selfserve" else "/park"
    | .wake3 w k, _ => "." ++ kName k ++ (if sh.release w then "/repost" else "/done")
    | .w9swap w, _ => if sh.release w then "/repost" else "/done"
    | .w5park _, .abort => "/abort" | .w5park _, _ => "/woken"
    | .w6load b, _ | .w8load b, _ => if sh.unparked b then "/unparked" else "/not"
    | .p0fadd k, _ => "." ++ kName k ++ (if sh.cnt < 0 then "/wake" else "/free")
    | _, _ => ""
  pcName pc ++ br

def cands (s : St) (t : Nat) (ev : Event) : List (Label × St × String) :=
  let pc := s.pcs t
  -- the model's own next steps (what a divergence report shows as "expected")
  let normal : List (Label × St × String) := match pc with
    | .idle | .done _ => []
    | _ => (envsFor pc).filterMap fun e =>
      match step s t e with
      | some s' => some (label s.sh pc e "", s', transName s.sh pc e)
      | none => none
  match ev.kind, pc with
  | "call", .idle =>
    match envOfCall ev.op with
    | some e => match step s t e with
      | some s' => [(label s.sh pc e ev.op, s', transName s.sh pc e)]
      | none => []
    | none => []
  | "ret", .done _ =>
    -- the API name on a return must be one of this object's calls; the value is the model's
    match envOfCall ev.op, step s t .go with
    | some _, some s' => [(label s.sh pc .go ev.op, s', "done")]
    | _, _ => []
  | "blk", .w5park b =>
    -- park entry is an observation of the state, not a step
    if ev.op == "park_enter" then [({ kind := "blk", obj := "tp", inst := bl b, op := "park_enter" }, s, "park_enter")]
    else normal
  | _, _ => normal

def allIdle (s : St) : Bool := (List.range s.n).all (fun t => s.pcs t == .idle)

/-- executable check of the headline invariants on the replayed state (the proofs are about all states;
    this guards the replay itself and would expose a model/driver mismatch) -/
def invCheck (i : Nat) (s : St) : Option String :=
  if s.sh.dup then some "double re-post"
  else if s.sh.S > i + s.sh.PX then some s!"successes {s.sh.S} > init {i} + posts {s.sh.PX}"
  else none

/-- the machine carries the initial value next to the state -/
def machine : Machine where
  St := Nat × St
  init := fun h => match hnat h "actors", hnat h "init" with
    | some n, some i => .ok (i, init n i)
    | _, _ => .error "sem scenario without actors= / init="
  actor := fun s a => if a.startsWith "t" then ((a.drop 1).toString.toNat?).bind (fun t => if t < s.2.n then some t else none) else none
  cands := fun s t ev => (cands s.2 t ev).map fun (l, s', nm) => (l, (s.1, s'), nm)
  inv := fun s => invCheck s.1 s.2
  where_ := fun s t => pcName (s.2.pcs t)
  atEnd := fun s => if allIdle s.2 then
      (if value s.2 == (s.1 : Int) + s.2.sh.PX - s.2.sh.S then none
       else some s!"all idle but value={value s.2} init={s.1} posts={s.2.sh.PX} successes={s.2.sh.S}")
    else some "not every actor is idle at the end of a finished run"
  skip := fun e => e.kind == "note"

end MayVerif.Sem
