/-
  Replay machine of the spec-level Barrier model (family `barrier`).

  Only the API boundary is compared with the model: `call barrier.wait` / `ret barrier.wait <is_leader>`. The one
  internal event the machine uses is the arrival's linearization point: the first time the actor is granted the
  barrier's mutex after its call (`sync.mutex.cnt cas` that succeeds, or the first successful `park_return`) – there
  the model's `arrive` step fires, so generations and the leader are assigned in the real lock order. At the `ret`
  the model must be able to let this actor leave: it is `done l g` with the same leader flag, or it can wake
  (notified or spuriously), re-check and find its generation complete. A return from an incomplete generation, a wrong
  or second leader flag are divergences. All other events (the condvar's and mutex's internals, checked by the
  `condvar` family) pass through.
-/
import MayVerif.Core.Trace
import MayVerif.Model.Sync.Barrier
namespace MayVerif.Barrier
open MayVerif

structure RSt where
  s : St
  ph : Nat → Nat := fun _ => 0     -- 0 idle, 1 called (waiting for the mutex), 2 arrived

def setPh (r : RSt) (t v : Nat) : RSt := { r with ph := fun u => if u = t then v else r.ph u }

def pass (ev : Event) : Label := { kind := ev.kind, obj := ev.obj, op := ev.op }

/-- run the model steps `es` of actor `t` in order (all must be enabled) -/
def steps (s : St) (t : Nat) : List Env → Option St
  | [] => some s
  | e :: r => match step s t e with
    | some s' => steps s' t r
    | none => none

def isGrant (ev : Event) : Bool :=
  (ev.kind == "a" && ev.obj == "sync.mutex.cnt" && ev.op == "cas" && ev.flag == 1) ||
  (ev.kind == "blk" && ev.op == "park_return" && ev.res == .num 1)

def cands (r : RSt) (t : Nat) (ev : Event) : List (Label × RSt × String) :=
  let pc := r.s.pcs t
  if ev.kind == "call" then
    if ev.op == "barrier.wait" && r.ph t == 0 && pc == .idle then [(pass ev, setPh r t 1, "call")] else []
  else if ev.kind == "ret" then
    if ev.op != "barrier.wait" || r.ph t != 2 then [] else
    match pc with
    | .done l _ =>
        match step r.s t .ret with
        | some s' => [({ kind := "ret", op := "barrier.wait", a1 := .num (if l then 1 else 0) }, setPh { r with s := s' } t 0,
                       if l then "ret/leader" else "ret/follower")]
        | none => []
    | .bwait lg e =>
        -- leave the wait set (notified if the model says so, else spuriously), re-check, return as non-leader
        let wake := if e < r.s.sh.nall then Env.go else Env.spurious
        match steps r.s t [wake, .go] with
        | some s1 =>
            (match s1.pcs t with
             | .done false _ =>
                 match step s1 t .ret with
                 | some s' => [({ kind := "ret", op := "barrier.wait", a1 := .num 0 }, setPh { r with s := s' } t 0,
                                if e < r.s.sh.nall then "ret/notified" else "ret/spurious")]
                 | none => []
             | _ => [({ kind := "ret", op := s!"<none: generation {lg} is not complete: {r.s.sh.count} of {r.s.sh.N} arrived>" }, r, "")])
        | none => []
    | _ => []
  else if r.ph t == 1 && isGrant ev then
    match step r.s t .arrive with
    | some s' => [(pass ev, setPh { r with s := s' } t 2,
                   match s'.pcs t with | .done .. => "arrive/leader" | _ => "arrive/wait")]
    | none => []
  else [(pass ev, r, "internal")]

def machine : Machine where
  St := RSt
  init := fun h => match hnat h "actors", hnat h "parties" with
    | some n, some p => .ok { s := init n p }
    | _, _ => .error "barrier scenario without actors= / parties="
  actor := fun r a => if a.startsWith "t" then ((a.drop 1).toString.toNat?).bind (fun t => if t < r.s.n then some t else none) else none
  cands := cands
  inv := fun r =>
    if r.s.sh.N > 0 && r.s.sh.count >= r.s.sh.N then some "count reached num_threads without a release"
    else if (List.range r.s.sh.gen).any (fun g => r.s.sh.ldr g != 1) then some "a completed generation without exactly one leader"
    else none
  where_ := fun r t => s!"{repr (r.s.pcs t)} phase={r.ph t}"
  atEnd := fun r => if (List.range r.s.n).all (fun t => r.s.pcs t == .idle) && r.s.sh.count == 0 then none
                    else some "not every party is out of the barrier at the end of a finished run"
  skip := fun e => e.kind == "note"

end MayVerif.Barrier
