/-
  Helpers for replay machines of PROGRAMS built on one `Mutex` + one `Condvar` (Barrier, WaitGroup): such a machine is
  layered on top of the condvar replay machine (`CondvarReplay.lean`: `Condvar.step` in lock-step with `Mutex.step`).
  The program's own model says which Mutex / Condvar API the actor is calling; since the internal calls of
  `Barrier::wait` / `WaitGroup::*` carry no `call`/`ret` markers, the layer FEEDS the corresponding marker to the condvar
  machine itself and passes every mutex / condvar / blocker event of the actor down unchanged. So the order of the
  program's protected-state accesses relative to lock, unlock, wait and notify_all is checked against the real events,
  and the blockers are checked by the same machine as in the `condvar` family.
-/
import MayVerif.Model.Sync.CondvarReplay
namespace MayVerif.CvClient
open MayVerif

/-- feed a synthetic API marker (`call`/`ret` of a Mutex / Condvar API) of actor `t` to the condvar machine -/
def feed (c : Condvar.PSt) (t : Nat) (kind op : String) : Option Condvar.PSt :=
  let ev : Event := { actor := "", kind := kind, obj := "-", inst := "", op := op, a1 := .num 0, a2 := .num 0, res := .num 0, flag := 2, ord := "-" }
  ((Condvar.cands c t ev).find? fun x => x.1.kind == kind && x.1.op == op).map fun x => x.2.1

def feeds (c : Condvar.PSt) (t : Nat) : List (String × String) → Option Condvar.PSt
  | [] => some c
  | (k, o) :: r => (feed c t k o).bind fun c' => feeds c' t r

/-- the actor holds the mutex in user code (between two API calls) as far as the condvar machine is concerned -/
def heldQuiet (c : Condvar.PSt) (t : Nat) : Bool := c.cv.pcs t == .held && c.mx.pcs t == .held
def outQuiet (c : Condvar.PSt) (t : Nat) : Bool := c.cv.pcs t == .idle && c.mx.pcs t == .idle

def isApiEvent (ev : Event) : Bool := ev.kind == "call" || ev.kind == "ret"

end MayVerif.CvClient
