/-
  Model of `may::sync::Mutex` (src/sync/mutex.rs) with the `SyncBlocker` hand-over
  (src/sync/blocking.rs): one `tstep` case per shared-memory operation of the code, in program order.

  Polarity: the model counts *free permits* (`cnt = 1 - cnt_code`, so `cnt = 1` is "unlocked",
  `cnt = 0` "locked, nobody waiting", `cnt = -k` "locked, k registered"); the labels in
  `MutexReplay.lean` translate back. This is the one-permit instance of the counted gate that
  `Semphore` and the inner lock of `RwLock` share.

      lock():      m0cas   cnt.compare_exchange(0,1)            (try_lock inside lock)
                   w1push  to_wake.push(cur)                     (fresh SyncBlocker `b`)
                   w2fsub  cnt.fetch_add(1) == 0 ?  w3pop : park
                   w3pop   to_wake.pop().expect(..)
                   wake1   w.blocker.unpark()        wake2  w.unparked.store(true)
                   wake3   w.release.swap(false) ?  unlock() : continue
                   w5park  cur.park(None)  -> Ok | Err(Canceled)            (Env.abort)
                           | Err(Canceled) while cancellation is disabled (Env.abortIgnore: the re-lock inside
                             Condvar::wait; `b_ignore` in the code) → i6load
                   i6load  cur.is_unparked() ? break (the lock was handed over) : park again      (code after fix F11)
                   w6load  cur.is_unparked() ? unlock()
                   w7set   cur.set_release()     w8load  cur.is_unparked()   w9swap cur.take_release() ? unlock()
      try_lock():  t0cas   cnt.compare_exchange(0,1)
      unlock():    p0fadd  cnt.fetch_sub(1) > 1 ?  w3pop : done

  Ghost fields (never read by a step that is not itself ghost): `aph`, `vph` (per-blocker phases of
  the owner's abort path and of its waker), `duty`/`dup` (who committed to pass the permit on),
  counters `FS M pushes pops`, `wk`.
-/
namespace MayVerif.Mutex

notation "Tid" => Nat
notation "Bid" => Nat

@[grind] def upd {α : Type} (f : Nat → α) (t : Nat) (v : α) : Nat → α := fun u => if u = t then v else f u

/-- continuation after a wake-up performed on behalf of somebody: go and park on own blocker, or done -/
inductive K | toPark (b : Bid) | fin
  deriving DecidableEq, Repr

inductive Pc
  | idle
  | m0cas | t0cas | w1push (b : Bid) | w2fsub (b : Bid) | w3pop (k : K)
  | wake1 (w : Bid) (k : K) | wake2 (w : Bid) (k : K) | wake3 (w : Bid) (k : K)
  | w5park (b : Bid) | i6load (b : Bid) | w6load (b : Bid) | w7set (b : Bid) | w8load (b : Bid) | w9swap (b : Bid)
  | p0fadd (k : K)
  | held
  deriving DecidableEq, Repr

/-- environment / caller choices: which API is called, whether a park ends by cancellation -/
inductive Env | startLock | startTry | unlock | abort | abortIgnore | go
  deriving DecidableEq, Repr

/-- owner's abort phase / waker's phase, per blocker (ghost) -/
inductive APh | a0 | a1 | a2 | a3 | a4 | a5 deriving DecidableEq, Repr
inductive VPh | v0 | v1 | v2 | v3 | v4 deriving DecidableEq, Repr

structure Sh where
  cnt : Int
  q : List Bid
  tok : Bid → Bool
  unparked : Bid → Bool
  release : Bid → Bool
  nextB : Bid
  -- ghost
  aph : Bid → APh
  vph : Bid → VPh
  duty : Bid → Bool      -- somebody committed to pass the permit on, on behalf of this blocker
  dup : Bool             -- a second commitment for the same blocker happened (must stay false)
  FS : Nat
  M : Nat
  pushes : Nat
  pops : Nat
  wk : Bid → Tid         -- who is waking this blocker
  own : Bid → Tid        -- who created (owns) this blocker
  cons : Bid → Bool      -- the owner consumed the token of this blocker (its park returned Ok)
  pb : Option Bid        -- the blocker whose delivered, unconsumed token currently carries the lock, if any

def contK (k : K) : Pc := match k with | .toPark b => .w5park b | .fin => .idle

def tstep (sh : Sh) (me : Tid) : Pc → Env → Option (Sh × Pc)
  | .idle, .startLock => some (sh, .m0cas)
  | .idle, .startTry => some (sh, .t0cas)
  | .idle, _ => none
  | .held, .unlock => some (sh, .p0fadd .fin)
  | .held, _ => none
  | .m0cas, _ =>
      if sh.cnt = 1 then some ({ sh with cnt := 0 }, .held)
      else some ({ sh with nextB := sh.nextB + 1, own := upd sh.own sh.nextB me }, .w1push sh.nextB)
  | .t0cas, _ =>
      if sh.cnt = 1 then some ({ sh with cnt := 0 }, .held) else some (sh, .idle)
  | .w1push b, _ => some ({ sh with q := sh.q ++ [b], pushes := sh.pushes + 1 }, .w2fsub b)
  | .w2fsub b, _ =>
      some ({ sh with cnt := sh.cnt - 1, FS := sh.FS + 1, M := if sh.cnt > 0 then sh.M + 1 else sh.M },
            if sh.cnt > 0 then .w3pop (.toPark b) else .w5park b)
  | .w3pop k, _ => match sh.q with
      | [] => none           -- `expect("got null blocker!")` would fire: proved unreachable
      | w :: q' => some ({ sh with q := q', vph := upd sh.vph w .v1, pops := sh.pops + 1, wk := upd sh.wk w me }, .wake1 w k)
  | .wake1 w k, _ => some ({ sh with tok := upd sh.tok w true, vph := upd sh.vph w .v2, pb := some w }, .wake2 w k)
  | .wake2 w k, _ => some ({ sh with unparked := upd sh.unparked w true, vph := upd sh.vph w .v3 }, .wake3 w k)
  | .wake3 w k, _ =>
      some ({ sh with release := upd sh.release w false, vph := upd sh.vph w .v4,
                      duty := if sh.release w then upd sh.duty w true else sh.duty,
                      dup := sh.dup || (sh.release w && sh.duty w),
                      pb := if sh.release w then none else sh.pb },
            if sh.release w then .p0fadd k else contK k)
  | .w5park b, .abort => some ({ sh with aph := upd sh.aph b .a1 }, .w6load b)
  | .w5park b, .abortIgnore => some (sh, .i6load b)
  | .i6load b, _ =>
      -- cancel ignored: a delivered lock is kept (the hand-over is consumed), otherwise keep waiting; the release
      -- action is never registered on this path (fix F11)
      if sh.unparked b then some ({ sh with tok := upd sh.tok b false, cons := upd sh.cons b true, pb := none }, .held)
      else some (sh, .w5park b)
  | .w5park b, _ => if sh.tok b then some ({ sh with tok := upd sh.tok b false, cons := upd sh.cons b true, pb := none }, .held) else none
  | .w6load b, _ =>
      if sh.unparked b then some ({ sh with aph := upd sh.aph b .a5, duty := upd sh.duty b true, dup := sh.dup || sh.duty b, pb := none }, .p0fadd .fin)
      else some ({ sh with aph := upd sh.aph b .a2 }, .w7set b)
  | .w7set b, _ => some ({ sh with release := upd sh.release b true, aph := upd sh.aph b .a3 }, .w8load b)
  | .w8load b, _ => if sh.unparked b then some ({ sh with aph := upd sh.aph b .a4 }, .w9swap b)
                    else some ({ sh with aph := upd sh.aph b .a5 }, .idle)
  | .w9swap b, _ =>
      some ({ sh with release := upd sh.release b false, aph := upd sh.aph b .a5,
                      duty := if sh.release b then upd sh.duty b true else sh.duty,
                      dup := sh.dup || (sh.release b && sh.duty b),
                      pb := if sh.release b then none else sh.pb },
            if sh.release b then .p0fadd .fin else .idle)
  | .p0fadd k, _ => some ({ sh with cnt := sh.cnt + 1, M := if sh.cnt < 0 then sh.M + 1 else sh.M }, if sh.cnt < 0 then .w3pop k else contK k)

structure St where
  n : Nat
  sh : Sh
  pcs : Tid → Pc

def step (s : St) (t : Tid) (e : Env) : Option St :=
  if t < s.n then
    match tstep s.sh t (s.pcs t) e with
    | none => none
    | some (sh', pc') => some ⟨s.n, sh', upd s.pcs t pc'⟩
  else none

def init (n : Nat) (i : Nat) : St :=
  ⟨n, ⟨i, [], fun _ => false, fun _ => false, fun _ => false, 0, fun _ => .a0, fun _ => .v0, fun _ => false, false, 0, 0, 0, 0, fun _ => 0, fun _ => 0, fun _ => false, none⟩, fun _ => .idle⟩

/-- every finite schedule: disabled choices are skipped, so `∀ sched` is every interleaving -/
def run (s : St) : List (Tid × Env) → St
  | [] => s
  | (t, e) :: r => match step s t e with
    | some s' => run s' r
    | none => run s r

end MayVerif.Mutex
