/-
  Model of `may::sync::Barrier::wait` (src/sync/barrier.rs:127-144) over the SPECS of its Mutex and Condvar:
  a locked region is one atomic step (C05 mutual exclusion), and the condvar is the notification epoch `nall`:
  `wait` releases the mutex and enqueues atomically (C11 `cv_enqueue_before_unlock`), and returns – having re-acquired
  the mutex (`cv_wait_reacquires`) – after a later `notify_all` (`nall` grew: `cv_notify_all`, `cv_no_stranded_waiter`)
  or spuriously (`Env.spurious`).

      wait():   arrive    let mut lock = self.lock.lock();  local_gen = lock.generation_id;  lock.count += 1;
                          if lock.count < n  { wait_while(lock, |s| local_gen == s.generation_id) ... }   -> bwait
                          else { lock.count = 0; lock.generation_id += 1; cvar.notify_all(); leader }      -> done true
                bwait     (inside Condvar::wait, mutex released)   woken by notify_all | spuriously         -> bwoken
                bwoken    re-locked: local_gen == generation_id ?  wait again : return non-leader          -> bwait | done false
                done l g  `BarrierWaitResult(l)` is returned for generation g

  `generation_id` wraps in the code (`wrapping_add`); the model uses unbounded `Nat` (2^64 generations while one
  party sleeps is out of scope). Ghost: `arr g` arrivals with local generation g, `ldr g` leader branches taken in g,
  `who g` the leader of g.
-/
namespace MayVerif.Barrier

@[grind] def upd {α : Type} (f : Nat → α) (t : Nat) (v : α) : Nat → α := fun u => if u = t then v else f u

inductive Pc
  | idle
  | bwait (lg : Nat) (e : Nat)     -- in the condvar's wait set since epoch `e`, local generation `lg`
  | bwoken (lg : Nat)              -- left the wait set, re-acquiring the mutex
  | done (l : Bool) (g : Nat)      -- returning `BarrierWaitResult(l)` from generation `g`
  deriving DecidableEq, Repr

inductive Env | arrive | spurious | go | ret
  deriving DecidableEq, Repr

structure Sh where
  N : Nat               -- `num_threads`
  count : Nat
  gen : Nat
  nall : Nat            -- condvar spec: number of `notify_all` so far
  -- ghost
  arr : Nat → Nat
  ldr : Nat → Nat
  who : Nat → Nat

def tstep (sh : Sh) (me : Nat) : Pc → Env → Option (Sh × Pc)
  | .idle, .arrive =>
      if sh.count + 1 < sh.N then
        some ({ sh with count := sh.count + 1, arr := upd sh.arr sh.gen (sh.arr sh.gen + 1) }, .bwait sh.gen sh.nall)
      else
        some ({ sh with count := 0, gen := sh.gen + 1, nall := sh.nall + 1, arr := upd sh.arr sh.gen (sh.arr sh.gen + 1),
                        ldr := upd sh.ldr sh.gen (sh.ldr sh.gen + 1), who := upd sh.who sh.gen me }, .done true sh.gen)
  | .idle, _ => none
  | .bwait lg e, .go => if e < sh.nall then some (sh, .bwoken lg) else none
  | .bwait lg _, .spurious => some (sh, .bwoken lg)
  | .bwait _ _, _ => none
  | .bwoken lg, _ => if lg = sh.gen then some (sh, .bwait lg sh.nall) else some (sh, .done false lg)
  | .done _ _, .ret => some (sh, .idle)
  | .done _ _, _ => none

structure St where
  n : Nat
  sh : Sh
  pcs : Nat → Pc

def step (s : St) (t : Nat) (e : Env) : Option St :=
  if t < s.n then
    match tstep s.sh t (s.pcs t) e with
    | none => none
    | some (sh', pc') => some ⟨s.n, sh', upd s.pcs t pc'⟩
  else none

/-- `n` actors, a barrier for `N` parties -/
def init (n N : Nat) : St :=
  ⟨n, { N := N, count := 0, gen := 0, nall := 0, arr := fun _ => 0, ldr := fun _ => 0, who := fun _ => 0 }, fun _ => .idle⟩

def run (s : St) : List (Nat × Env) → St
  | [] => s
  | (t, e) :: r => match step s t e with
    | some s' => run s' r
    | none => run s r

end MayVerif.Barrier
