/-
  Implementation-level model of `may::sync::WaitGroup` (src/sync/wait_group.rs): one step per access to the counter under
  its lock (`Inner::count`, hooked under cfg(may_verif)) and per call into Mutex / Condvar, over the SPECIFICATIONS of
  those two (as in `BarrierImpl.lean`: `locked`; `wait` = release + sleep in one step, woken by a later `notify_all`
  (`nall`) or spuriously, re-locks before it returns).

      clone():  c0lock  count.lock()        c1add  *count += 1          c2unlock
      drop():   d0lock  count.lock()        d1sub  *count -= 1          d2cmp  if *count == 0   d3notify  cvar.notify_all()
                d4unlock
      wait(self):
                g0lock  count.lock()        g1cmp  *count == 1          g2unlock (the temporary guard)
                    true  -> return: `self` is dropped (d0lock … d4unlock, K.early), then wait returns
                    false -> drop(self) (K.self), then
                w0lock  count.lock()        w1cmp  while *count > 0     w2wait  cvar.wait(count)  (wsleep / wwake)
                w3unlock                    gdone  wait returns

  An actor holds `h` handles; a fresh clone goes to `pool` (handles in transit) from which any actor may `take` it.
  Ghost: `owner`, `ph` (1 while the dropper is between its decrement and the end of its `== 0` / notify_all).
-/
namespace MayVerif.WaitGroupImpl

@[grind] def upd {α : Type} (f : Nat → α) (t : Nat) (v : α) : Nat → α := fun u => if u = t then v else f u

/-- whose `Drop` runs: a handle dropped by user code, `self` on the early return of `wait`, `self` before `wait` blocks -/
inductive K | user | early | self
  deriving DecidableEq, Repr

inductive Pc
  | idle (h : Nat)
  | c0lock (h : Nat) | c1add (h : Nat) | c2unlock (h : Nat) | cdone (h : Nat)
  | d0lock (h : Nat) (k : K) | d1sub (h : Nat) (k : K) | d2cmp (h : Nat) (k : K) | d3notify (h : Nat) (k : K)
  | d4unlock (h : Nat) (k : K) | ddone (h : Nat)
  | g0lock (h : Nat) | g1cmp (h : Nat) | g2unlock (h : Nat) (one : Bool)
  | w0lock (h : Nat) | w1cmp (h : Nat) | w2wait (h : Nat) | wsleep (h : Nat) (e : Nat) | wwake (h : Nat)
  | w3unlock (h : Nat) | gdone (h : Nat)
  deriving DecidableEq, Repr

inductive Env | clone | take | drop | wait | spurious | go | ret
  deriving DecidableEq, Repr

structure Sh where
  locked : Bool     -- the counter's mutex (spec)
  count : Nat
  nall : Nat        -- condvar spec: number of `notify_all` so far
  pool : Nat        -- handles in transit
  -- ghost
  owner : Nat
  ph : Nat

def contK (h : Nat) : K → Pc
  | .user => .ddone h
  | .early => .gdone h
  | .self => .w0lock h

def tstep (sh : Sh) (me : Nat) : Pc → Env → Option (Sh × Pc)
  | .idle h, .clone => if 0 < h then some (sh, .c0lock h) else none
  | .idle h, .take => if 0 < sh.pool then some ({ sh with pool := sh.pool - 1 }, .idle (h + 1)) else none
  | .idle h, .drop => if 0 < h then some (sh, .d0lock (h - 1) .user) else none
  | .idle h, .wait => if 0 < h then some (sh, .g0lock (h - 1)) else none
  | .idle _, _ => none
  | .c0lock h, _ => if sh.locked then none else some ({ sh with locked := true, owner := me }, .c1add h)
  | .c1add h, _ => some ({ sh with count := sh.count + 1, pool := sh.pool + 1 }, .c2unlock h)
  | .c2unlock h, _ => some ({ sh with locked := false }, .cdone h)
  | .cdone h, .ret => some (sh, .idle h)
  | .cdone _, _ => none
  | .d0lock h k, _ => if sh.locked then none else some ({ sh with locked := true, owner := me }, .d1sub h k)
  | .d1sub h k, _ => some ({ sh with count := sh.count - 1, ph := 1 }, .d2cmp h k)
  | .d2cmp h k, _ => if sh.count = 0 then some (sh, .d3notify h k) else some ({ sh with ph := 0 }, .d4unlock h k)
  | .d3notify h k, _ => some ({ sh with nall := sh.nall + 1, ph := 0 }, .d4unlock h k)
  | .d4unlock h k, _ => some ({ sh with locked := false }, contK h k)
  | .ddone h, .ret => some (sh, .idle h)
  | .ddone _, _ => none
  | .g0lock h, _ => if sh.locked then none else some ({ sh with locked := true, owner := me }, .g1cmp h)
  | .g1cmp h, _ => some (sh, .g2unlock h (sh.count == 1))
  | .g2unlock h one, _ => some ({ sh with locked := false }, .d0lock h (if one then .early else .self))
  | .w0lock h, _ => if sh.locked then none else some ({ sh with locked := true, owner := me }, .w1cmp h)
  | .w1cmp h, _ => if 0 < sh.count then some (sh, .w2wait h) else some (sh, .w3unlock h)
  | .w2wait h, _ => some ({ sh with locked := false }, .wsleep h sh.nall)
  | .wsleep h e, .go => if e < sh.nall then some (sh, .wwake h) else none
  | .wsleep h _, .spurious => some (sh, .wwake h)
  | .wsleep _ _, _ => none
  | .wwake h, _ => if sh.locked then none else some ({ sh with locked := true, owner := me }, .w1cmp h)
  | .w3unlock h, _ => some ({ sh with locked := false }, .gdone h)
  | .gdone h, .ret => some (sh, .idle h)
  | .gdone _, _ => none

structure St where
  n : Nat
  sh : Sh
  pcs : Nat → Pc

def step (s : St) (t : Nat) (e : Env) : Option St :=
  if t < s.n then
    match tstep s.sh t (s.pcs t) e with
    | none => none
    | some (sh', pc') => some ⟨s.n, sh', upd s.pcs t pc'⟩
  else none

/-- `WaitGroup::new()` held by actor 0 -/
def init (n : Nat) : St :=
  ⟨n, { locked := false, count := 1, nall := 0, pool := 0, owner := 0, ph := 0 }, fun t => if t = 0 then .idle 1 else .idle 0⟩

def run (s : St) : List (Nat × Env) → St
  | [] => s
  | (t, e) :: r => match step s t e with
    | some s' => run s' r
    | none => run s r

/-- this actor holds the counter's mutex -/
@[grind] def holds : Pc → Bool
  | .c1add _ | .c2unlock _ | .d1sub .. | .d2cmp .. | .d3notify .. | .d4unlock .. | .g1cmp _ | .g2unlock .. | .w1cmp _ | .w2wait _ | .w3unlock _ => true
  | _ => false

/-- handles of this actor that are still counted in `count` -/
@[grind] def wt : Pc → Nat
  | .idle h | .c0lock h | .c1add h | .c2unlock h | .cdone h => h
  | .d0lock h _ | .d1sub h _ => h + 1
  | .d2cmp h _ | .d3notify h _ | .d4unlock h _ | .ddone h => h
  | .g0lock h | .g1cmp h | .g2unlock h _ => h + 1
  | .w0lock h | .w1cmp h | .w2wait h | .wsleep h _ | .wwake h | .w3unlock h | .gdone h => h

end MayVerif.WaitGroupImpl
