/-
  Model of `may::sync::Condvar` (src/sync/condvar.rs) with the `SyncBlocker` hand-over
  (src/sync/blocking.rs): one `tstep` case per shared-memory operation of the code, in program order.
  The associated `Mutex` is its ATOMIC SPEC here (`locked`: `lock` blocks until free, `unlock`); the
  replay machine (`CondvarReplay.lean`) runs this model in lock-step with the step function of
  `Model/Sync/Mutex.lean` and checks the spec bit against it at every lock/unlock boundary.

      user code:   idle     --lock-->  held  --unlock--> idle          (mutex spec)
      wait(g) / wait_timeout(g,d):
                   held     verify: mutex.compare_exchange(0, addr)   (binds the mutex; fresh SyncBlocker `b`)
                   w1push   to_wake.push(cur)
                   w2unlock unlock_mutex(lock)                         (mutex spec)
                   w3park   cur.park(dur) -> Ok | Err(_) (Env.abort: Timeout or Canceled – wait_impl only looks at is_err())
                   w4lockOk / w4lockE   forget(lock.lock())            (mutex spec: blocks until free)
                   w5load   cur.is_unparked() ? notify_one()
                   w6set    cur.set_release()    w7load  cur.is_unparked()    w8swap  cur.take_release() ? notify_one()
                   wend d   wait_impl returned Err: `if ret == Err(ParkError::Canceled)` in wait / wait_timeout
                            (Env.cancel -> w9unlock;  otherwise it was the time-out, possible only for a timed wait)
                   wdone r  wait / wait_timeout returns (r = timed out) holding the mutex
                   w9unlock (Canceled) forget(guard); unlock_mutex(lock); trigger_cancel_panic()
      notify_one:  n0pop    to_wake.pop()  -> None: return
                   n1unpark w.blocker.unpark()     n2store  w.unparked.store(true)
                   n3swap   w.release.swap(false) ? notify_one() again
      notify_all:  a0pop    to_wake.pop()  -> None: return
                   a1unpark w.blocker.unpark()     a2store  w.unparked.store(true)     (loop)

  `w4lock*` is the spec `lock`: it cannot be aborted. In the code that is the `b_ignore` path of `Mutex::lock` (a cancel
  arriving while cancellation is disabled is ignored); the pinned tree got it wrong (F11, two holders after a cancel
  during this re-lock, fixed in /repo 5bd8b87) – a defect of the Mutex against its spec, found outside this model.

  `notify_*` may be called with or without the mutex (continuation `K`). The per-blocker phases `aph`/`vph`
  and the flags are those of the hand-over table shared with Mutex/Semphore (`notify_one` plays `post`).

  Ghost fields (never read by a non-ghost part of a step): `owner`, `aph`, `vph`, `duty`/`dup`, `wk`, `vall`,
  `got`, `snapH`.
-/
import MayVerif.Model.Sync.Mutex
namespace MayVerif.Condvar
open MayVerif.Mutex (APh VPh upd)

/-- where a `notify_*` returns to: user code without / with the mutex, or the tail of `wait_impl` after a park that
    returned Err (`d` = the wait had a time-out) -/
inductive K | idle | held | wret (d : Bool)
  deriving DecidableEq, Repr

inductive Pc
  | idle | held
  | w1push (b : Bid) (d : Bool) | w2unlock (b : Bid) (d : Bool) | w3park (b : Bid) (d : Bool)
  | w4lockOk | w4lockE (b : Bid) (d : Bool)
  | w5load (b : Bid) (d : Bool) | w6set (b : Bid) (d : Bool) | w7load (b : Bid) (d : Bool) | w8swap (b : Bid) (d : Bool)
  | wend (d : Bool)
  | w9unlock
  | wdone (r : Bool)
  | n0pop (k : K) | n1unpark (w : Bid) (k : K) | n2store (w : Bid) (k : K) | n3swap (w : Bid) (k : K)
  | a0pop (k : K) | a1unpark (w : Bid) (k : K) | a2store (w : Bid) (k : K)
  deriving DecidableEq, Repr

/-- environment / caller choices: which API is called (`wait d`: `d` = with a time-out), whether a park ends
    with an error (`abort`), and whether that error was the cancellation (`cancel`, at `wend`) -/
inductive Env | lock | unlock | wait (d : Bool) | notifyOne | notifyAll | abort | cancel | go
  deriving DecidableEq, Repr

structure Sh where
  locked : Bool            -- the associated mutex (atomic spec)
  bound : Bool             -- `Condvar::mutex` ≠ 0
  q : List Bid             -- `to_wake`
  tok : Bid → Bool         -- park token of the blocker
  unparked : Bid → Bool
  release : Bid → Bool
  nextB : Bid
  -- ghost
  owner : Tid              -- who holds the mutex (meaningful while `locked`)
  aph : Bid → APh
  vph : Bid → VPh
  duty : Bid → Bool        -- somebody committed to pass the notification on, on behalf of this blocker
  dup : Bool               -- a second commitment for the same blocker happened (must stay false)
  wk : Bid → Tid           -- who popped this blocker
  vall : Bid → Bool        -- popped by a `notify_all`
  got : Bid → Bool         -- the owner's park returned Ok (it consumed the token)
  snapH : Tid → List Bid   -- the queue when this actor's latest `notify_all` started

def contK : K → Pc
  | .idle => .idle
  | .held => .held
  | .wret d => .wend d

def tstep (sh : Sh) (me : Tid) : Pc → Env → Option (Sh × Pc)
  | .idle, .lock => if sh.locked then none else some ({ sh with locked := true, owner := me }, .held)
  | .idle, .notifyOne => some (sh, .n0pop .idle)
  | .idle, .notifyAll => some ({ sh with snapH := upd sh.snapH me sh.q }, .a0pop .idle)
  | .idle, _ => none
  | .held, .unlock => some ({ sh with locked := false }, .idle)
  | .held, .wait d => some ({ sh with bound := true, nextB := sh.nextB + 1 }, .w1push sh.nextB d)
  | .held, .notifyOne => some (sh, .n0pop .held)
  | .held, .notifyAll => some ({ sh with snapH := upd sh.snapH me sh.q }, .a0pop .held)
  | .held, _ => none
  | .w1push b d, _ => some ({ sh with q := sh.q ++ [b] }, .w2unlock b d)
  | .w2unlock b d, _ => some ({ sh with locked := false }, .w3park b d)
  | .w3park b d, .abort => some ({ sh with aph := upd sh.aph b .a1 }, .w4lockE b d)
  | .w3park b _, _ => if sh.tok b then some ({ sh with tok := upd sh.tok b false, got := upd sh.got b true }, .w4lockOk) else none
  | .w4lockOk, _ => if sh.locked then none else some ({ sh with locked := true, owner := me }, .wdone false)
  | .w4lockE b c, _ => if sh.locked then none else some ({ sh with locked := true, owner := me }, .w5load b c)
  | .w5load b c, _ =>
      if sh.unparked b then some ({ sh with aph := upd sh.aph b .a5, duty := upd sh.duty b true, dup := sh.dup || sh.duty b }, .n0pop (.wret c))
      else some ({ sh with aph := upd sh.aph b .a2 }, .w6set b c)
  | .w6set b c, _ => some ({ sh with release := upd sh.release b true, aph := upd sh.aph b .a3 }, .w7load b c)
  | .w7load b c, _ => if sh.unparked b then some ({ sh with aph := upd sh.aph b .a4 }, .w8swap b c)
                      else some ({ sh with aph := upd sh.aph b .a5 }, contK (.wret c))
  | .w8swap b c, _ =>
      some ({ sh with release := upd sh.release b false, aph := upd sh.aph b .a5,
                      duty := if sh.release b then upd sh.duty b true else sh.duty,
                      dup := sh.dup || (sh.release b && sh.duty b) },
            if sh.release b then .n0pop (.wret c) else contK (.wret c))
  | .wend _, .cancel => some (sh, .w9unlock)
  | .wend d, _ => if d then some (sh, .wdone true) else none
  | .w9unlock, _ => some ({ sh with locked := false }, .idle)
  | .wdone _, _ => some (sh, .held)
  | .n0pop k, _ => match sh.q with
      | [] => some (sh, contK k)
      | w :: q' => some ({ sh with q := q', vph := upd sh.vph w .v1, wk := upd sh.wk w me }, .n1unpark w k)
  | .n1unpark w k, _ => some ({ sh with tok := upd sh.tok w true, vph := upd sh.vph w .v2 }, .n2store w k)
  | .n2store w k, _ => some ({ sh with unparked := upd sh.unparked w true, vph := upd sh.vph w .v3 }, .n3swap w k)
  | .n3swap w k, _ =>
      some ({ sh with release := upd sh.release w false, vph := upd sh.vph w .v4,
                      duty := if sh.release w then upd sh.duty w true else sh.duty,
                      dup := sh.dup || (sh.release w && sh.duty w) },
            if sh.release w then .n0pop k else contK k)
  | .a0pop k, _ => match sh.q with
      | [] => some (sh, contK k)
      | w :: q' => some ({ sh with q := q', vph := upd sh.vph w .v1, wk := upd sh.wk w me, vall := upd sh.vall w true }, .a1unpark w k)
  | .a1unpark w k, _ => some ({ sh with tok := upd sh.tok w true, vph := upd sh.vph w .v2 }, .a2store w k)
  | .a2store w k, _ => some ({ sh with unparked := upd sh.unparked w true, vph := upd sh.vph w .v3 }, .a0pop k)

/-- the continuation runs with the mutex held -/
@[grind] def kHolds : K → Bool | .idle => false | _ => true
/-- this actor holds the associated mutex (spec level) -/
@[grind] def holdsM : Pc → Bool
  | .held | .w1push .. | .w2unlock .. | .w5load .. | .w6set .. | .w7load .. | .w8swap .. | .wend _ | .w9unlock | .wdone _ => true
  | .n0pop k | .n1unpark _ k | .n2store _ k | .n3swap _ k | .a0pop k | .a1unpark _ k | .a2store _ k => kHolds k
  | .idle | .w3park .. | .w4lockOk | .w4lockE .. => false

structure St where
  n : Nat
  sh : Sh
  pcs : Tid → Pc

def step (s : St) (t : Tid) (e : Env) : Option St :=
  if t < s.n then
    match tstep s.sh t (s.pcs t) e with
    | none => none
    | some (sh', pc') => some ⟨s.n, sh', upd s.pcs t pc'⟩
  else none

def init (n : Nat) : St :=
  ⟨n, { locked := false, bound := false, q := [], tok := fun _ => false, unparked := fun _ => false, release := fun _ => false,
        nextB := 0, owner := 0, aph := fun _ => .a0, vph := fun _ => .v0, duty := fun _ => false, dup := false,
        wk := fun _ => 0, vall := fun _ => false, got := fun _ => false, snapH := fun _ => [] },
   fun _ => .idle⟩

/-- every finite schedule: disabled choices are skipped, so `∀ sched` is every interleaving -/
def run (s : St) : List (Tid × Env) → St
  | [] => s
  | (t, e) :: r => match step s t e with
    | some s' => run s' r
    | none => run s r

end MayVerif.Condvar
