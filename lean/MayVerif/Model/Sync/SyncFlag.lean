/-
  Model of `may::sync::SyncFlag` (src/sync/sync_flag.rs) with the `SyncBlocker` hand-over
  (src/sync/blocking.rs): one `tstep` case per shared-memory operation of the code, in program order.

      is_fired():            i0load  cnt.load() > 0
      wait_timeout_impl(d):  w0load  cnt.load() > 0 ?  return true           (`self.is_fired()`)
                                                       `SyncBlocker::current()` (fresh blocker `b`), then
                             w1push  to_wake.push(cur)
                             w2fsub  cnt.fetch_sub(1) > 0 ?  wakeup_all() : park
                             w5park  cur.park(d)  -> Ok : return true | Err(Timeout|Canceled)      (Env.abort)
                             w6load  cur.is_unparked() ? fire()
                             w7set   cur.set_release()   w8load  cur.is_unparked()   w9swap  cur.take_release() ? fire()
                                                       return false (or the cancel panic)
      fire():                f0store cnt.store(isize::MAX)   then wakeup_all()
      wakeup_all():          fpop    to_wake.pop()   None -> return | Some(w) ->
                             wake1   w.blocker.unpark()        wake2  w.unparked.store(true)
                             wake3   w.release.swap(false) ?  fire() : ()          and loop
      every API return:      done r  (the `ret` event; `r` = returned value, false/unit = 0)

  `fire()` called from inside a `wakeup_all()` loop is a real nested call: `d` counts the suspended loops
  (when the innermost loop sees `None` the one below pops again), `Base` is what the outermost caller does
  afterwards (park on the own blocker = self-serve inside `wait_timeout_impl`, or return).

  Ghost fields: `vph` (per-blocker phase of its waker), `wk` (who wakes it), `fired` (some `cnt.store(MAX)` happened).
-/
namespace MayVerif.SyncFlag

notation "Tid" => Nat
notation "Bid" => Nat

/-- `isize::MAX` on the 64-bit target the traces come from. Irreducible: the proofs use it as an opaque constant
    (only `n < MAXI` is ever assumed about it); unfolding the literal inside `Int` comparisons sends `whnf` into
    deep recursion. Compiled code (the replay driver) is not affected. -/
@[irreducible] def MAXI : Int := 9223372036854775807

@[grind] def upd {α : Type} (f : Nat → α) (t : Nat) (v : α) : Nat → α := fun u => if u = t then v else f u

/-- what the outermost `wakeup_all()` returns to -/
inductive Base | toPark (b : Bid) | fin
  deriving DecidableEq, Repr

inductive Pc
  | idle
  | done (r : Int)
  | i0load
  | w0load | w1push (b : Bid) | w2fsub (b : Bid)
  | f0store (d : Nat) (k : Base) | fpop (d : Nat) (k : Base)
  | wake1 (w : Bid) (d : Nat) (k : Base) | wake2 (w : Bid) (d : Nat) (k : Base) | wake3 (w : Bid) (d : Nat) (k : Base)
  | w5park (b : Bid) | w6load (b : Bid) | w7set (b : Bid) | w8load (b : Bid) | w9swap (b : Bid)
  deriving DecidableEq, Repr

/-- environment / caller choices: which API is called, whether a park ends by time-out or cancellation -/
inductive Env | startWait | startFire | startIs | abort | go
  deriving DecidableEq, Repr

inductive VPh | v0 | v1 | v2 | v3 | v4 deriving DecidableEq, Repr

structure Sh where
  cnt : Int
  q : List Bid
  tok : Bid → Bool
  unparked : Bid → Bool
  release : Bid → Bool
  nextB : Bid
  -- ghost
  vph : Bid → VPh
  wk : Bid → Tid
  fired : Bool

def contB (k : Base) : Pc := match k with | .toPark b => .w5park b | .fin => .done 0

def tstep (sh : Sh) (me : Tid) : Pc → Env → Option (Sh × Pc)
  | .idle, .startWait => some (sh, .w0load)
  | .idle, .startFire => some (sh, .f0store 0 .fin)
  | .idle, .startIs => some (sh, .i0load)
  | .idle, _ => none
  | .done _, _ => some (sh, .idle)
  | .i0load, _ => some (sh, .done (if sh.cnt > 0 then 1 else 0))
  | .w0load, _ =>
      if sh.cnt > 0 then some (sh, .done 1)
      else some ({ sh with nextB := sh.nextB + 1 }, .w1push sh.nextB)
  | .w1push b, _ => some ({ sh with q := sh.q ++ [b] }, .w2fsub b)
  | .w2fsub b, _ => some ({ sh with cnt := sh.cnt - 1 }, if sh.cnt > 0 then .fpop 0 (.toPark b) else .w5park b)
  | .f0store d k, _ => some ({ sh with cnt := MAXI, fired := true }, .fpop d k)
  | .fpop d k, _ => match sh.q with
      | [] => some (sh, match d with | 0 => contB k | d' + 1 => .fpop d' k)
      | w :: q' => some ({ sh with q := q', vph := upd sh.vph w .v1, wk := upd sh.wk w me }, .wake1 w d k)
  | .wake1 w d k, _ => some ({ sh with tok := upd sh.tok w true, vph := upd sh.vph w .v2 }, .wake2 w d k)
  | .wake2 w d k, _ => some ({ sh with unparked := upd sh.unparked w true, vph := upd sh.vph w .v3 }, .wake3 w d k)
  | .wake3 w d k, _ =>
      some ({ sh with release := upd sh.release w false, vph := upd sh.vph w .v4 },
            if sh.release w then .f0store (d + 1) k else .fpop d k)
  | .w5park b, .abort => some (sh, .w6load b)
  | .w5park b, _ => if sh.tok b then some ({ sh with tok := upd sh.tok b false }, .done 1) else none
  | .w6load b, _ => if sh.unparked b then some (sh, .f0store 0 .fin) else some (sh, .w7set b)
  | .w7set b, _ => some ({ sh with release := upd sh.release b true }, .w8load b)
  | .w8load b, _ => if sh.unparked b then some (sh, .w9swap b) else some (sh, .done 0)
  | .w9swap b, _ =>
      some ({ sh with release := upd sh.release b false }, if sh.release b then .f0store 0 .fin else .done 0)

structure St where
  n : Nat
  sh : Sh
  pcs : Tid → Pc

def step (s : St) (t : Tid) (e : Env) : Option St :=
  if t < s.n then
    match tstep s.sh t (s.pcs t) e with
    | none => none
    | some (sh', pc') => some ⟨s.n, sh', upd s.pcs t pc'⟩
  else none

def init (n : Nat) : St :=
  ⟨n, { cnt := 0, q := [], tok := fun _ => false, unparked := fun _ => false, release := fun _ => false, nextB := 0,
        vph := fun _ => .v0, wk := fun _ => 0, fired := false },
   fun _ => .idle⟩

/-- every finite schedule: disabled choices are skipped, so `∀ sched` is every interleaving -/
def run (s : St) : List (Tid × Env) → St
  | [] => s
  | (t, e) :: r => match step s t e with
    | some s' => run s' r
    | none => run s r

/-- what `is_fired()` returns in this state -/
def isFired (s : St) : Bool := s.sh.cnt > 0

end MayVerif.SyncFlag
