/-
  Observable labels of the Mutex model and its replay machine: the driver executes the very `step`
  function of `Model/Sync/Mutex.lean` on implementation traces.
-/
import MayVerif.Core.Trace
import MayVerif.Model.Sync.Mutex
namespace MayVerif.Mutex
open MayVerif

def mtx : Option (String × Nat) := some ("mutex", 0)
def bl (b : Bid) : Option (String × Nat) := some ("blk", b)
def b2i (b : Bool) : Int := if b then 1 else 0

/-- the observable of the step `tstep sh me pc e` (code polarity: `cnt_code = 1 - cnt`) -/
def label (sh : Sh) (pc : Pc) (e : Env) : Label :=
  match pc, e with
  | .idle, .startLock => { kind := "call", op := "mutex.lock" }
  | .idle, .startTry => { kind := "call", op := "mutex.try_lock" }
  | .held, _ => { kind := "call", op := "mutex.unlock" }
  | .idle, _ => { kind := "none", op := "-" }
  | .m0cas, _ | .t0cas, _ =>
      { obj := "sync.mutex.cnt", inst := mtx, op := "cas", a1 := .num 0, a2 := .num 1, res := .num (1 - sh.cnt),
        flag := some (if sh.cnt = 1 then 1 else 0), ord := "SeqCst" }
  | .w1push b, _ => { obj := "sync.mutex.to_wake", inst := mtx, op := "q.push", a1 := .id "blk" b }
  | .w2fsub _, _ => { obj := "sync.mutex.cnt", inst := mtx, op := "fetch_add", a1 := .num 1, res := .num (1 - sh.cnt), ord := "SeqCst" }
  | .w3pop _, _ => { obj := "sync.mutex.to_wake", inst := mtx, op := "q.pop",
                     res := match sh.q with | [] => .num (-1) | w :: _ => .id "blk" w }
  | .wake1 w _, _ => { kind := "blk", obj := "tp", inst := bl w, op := "unpark" }
  | .wake2 w _, _ => { obj := "sync.blocking.unparked", inst := bl w, op := "store", a1 := .num 1, ord := "SeqCst" }
  | .wake3 w _, _ => { obj := "sync.blocking.release", inst := bl w, op := "swap", a1 := .num 0, res := .num (b2i (sh.release w)), ord := "SeqCst" }
  | .w5park b, .abort | .w5park b, .abortIgnore => { kind := "blk", obj := "tp", inst := bl b, op := "park_return", res := .num 0 }
  | .i6load b, _ => { obj := "sync.blocking.unparked", inst := bl b, op := "load", res := .num (b2i (sh.unparked b)), ord := "SeqCst" }
  | .w5park b, _ => { kind := "blk", obj := "tp", inst := bl b, op := "park_return", res := .num 1 }
  | .w6load b, _ | .w8load b, _ => { obj := "sync.blocking.unparked", inst := bl b, op := "load", res := .num (b2i (sh.unparked b)), ord := "SeqCst" }
  | .w7set b, _ => { obj := "sync.blocking.release", inst := bl b, op := "store", a1 := .num 1, ord := "SeqCst" }
  | .w9swap b, _ => { obj := "sync.blocking.release", inst := bl b, op := "swap", a1 := .num 0, res := .num (b2i (sh.release b)), ord := "SeqCst" }
  | .p0fadd _, _ => { obj := "sync.mutex.cnt", inst := mtx, op := "fetch_sub", a1 := .num 1, res := .num (1 - sh.cnt), ord := "SeqCst" }

def pcName : Pc → String
  | .idle => "idle" | .m0cas => "m0cas" | .t0cas => "t0cas" | .w1push _ => "w1push" | .w2fsub _ => "w2fsub"
  | .w3pop _ => "w3pop" | .wake1 .. => "wake1" | .wake2 .. => "wake2" | .wake3 .. => "wake3"
  | .w5park _ => "w5park" | .i6load _ => "i6load" | .w6load _ => "w6load" | .w7set _ => "w7set" | .w8load _ => "w8load"
  | .w9swap _ => "w9swap" | .p0fadd _ => "p0fadd" | .held => "held"

def envsFor : Pc → List Env
  | .idle => [.startLock, .startTry]
  | .held => [.unlock]
  | .w5park _ => [.go, .abort, .abortIgnore]
  | _ => [.go]

/-- transition name for coverage: pc plus the branch taken -/
def transName (sh : Sh) (pc : Pc) (e : Env) : String :=
  let br := match pc, e with
    | .idle, .startLock => "/lock" | .idle, .startTry => "/try"
    | .m0cas, _ | .t0cas, _ => if sh.cnt = 1 then "/ok" else "/fail"
    | .w2fsub _, _ => if sh.cnt > 0 then "/selfserve" else "/park"
    | .wake3 w _, _ | .w9swap w, _ => if sh.release w then "/repost" else "/done"
    | .w5park _, .abort => "/abort" | .w5park _, .abortIgnore => "/abort-ignored" | .w5park _, _ => "/woken"
    | .i6load b, _ => if sh.unparked b then "/keep" else "/park-again"
    | .w6load b, _ | .w8load b, _ => if sh.unparked b then "/unparked" else "/not"
    | .p0fadd _, _ => if sh.cnt < 0 then "/wake" else "/free"
    | _, _ => ""
  pcName pc ++ br

/-- executable check of the headline invariants on the replayed state (the proofs are about all states;
    this guards the replay itself and would expose a model/driver mismatch) -/
def holders (s : St) : Nat := (List.range s.n).countP fun t => s.pcs t == .held

def cands (s : St) (t : Nat) (ev : Event) : List (Label × St × String) :=
  let pc := s.pcs t
  -- API returns and park entry are observations of the state, not steps
  if ev.kind == "ret" then
    let ok : Bool := match ev.op, ev.a1 with
      | "mutex.lock", _ => pc == .held
      | "mutex.try_lock", .num 1 => pc == .held
      | "mutex.try_lock", .num 0 => pc == .idle
      | "mutex.unlock", _ => pc == .idle
      | _, _ => false
    if ok then [({ kind := "ret", op := ev.op }, s, "ret")] else []
  else if ev.kind == "blk" && ev.op == "park_enter" then
    match pc with
    | .w5park b => [({ kind := "blk", obj := "tp", inst := bl b, op := "park_enter" }, s, "park_enter")]
    | _ => []
  else
    (envsFor pc).filterMap fun e =>
      match step s t e with
      | some s' => some (label s.sh pc e, s', transName s.sh pc e)
      | none => none

/-- replay state: the model state plus the mode of the trace. In LIVE traces (`live=1` in the scenario header, filter
    `sync/mutex.rs`, `sync/blocking.rs`) the blocker's own park/unpark operations produce no events (`Park` is filtered
    out, `ThreadPark` is real), so `wake1` (blocker.unpark), the return of `park` and the abort (`Env.abort` = `park`
    returned `Err(Canceled)`) are SILENT model steps: when the actor's next event does not match at such a pc, the
    machine takes the silent step first and then matches. -/
structure RSt where
  st : St
  live : Bool

/-- the silent steps available to actor `t` (live mode only): successor state and the name of the step -/
def silent (s : St) (t : Nat) : List (St × String) :=
  match s.pcs t with
  | .wake1 _ _ => match step s t .go with
    | some s' => [(s', "wake1~")]
    | none => []
  | .w5park b =>
    -- the waker's `blocker.unpark()` is silent too: if the token is not there yet, the actor that popped `b` delivers it first
    let woken : Option St :=
      if s.sh.tok b then step s t .go
      else ((List.range s.n).find? fun u => match s.pcs u with | .wake1 w _ => w == b | _ => false).bind fun u =>
        (step s u .go).bind fun s1 => step s1 t .go
    (match woken with | some s' => [(s', "w5park/woken~")] | none => []) ++
    (match step s t .abort with | some s' => [(s', "w5park/abort~")] | none => []) ++
    -- cancelled while cancellation is disabled (re-lock inside Condvar::wait): the `b_ignore` path
    (match step s t .abortIgnore with | some s' => [(s', "w5park/abort-ignored~")] | none => [])
  -- a cancelled holder drops its guard while unwinding: no `call mutex.unlock` announces the unlock
  | .held => match step s t .unlock with
    | some s' => [(s', "held/unwind~")]
    | none => []
  | _ => []

def candsR (r : RSt) (t : Nat) (ev : Event) : List (Label × RSt × String) :=
  let direct := (cands r.st t ev).map fun (l, s', nm) => (l, { r with st := s' }, nm)
  if !r.live then direct
  else
    direct ++ (silent r.st t).flatMap fun (s1, nm1) =>
      (cands s1 t ev).map fun (l, s', nm) => (l, { r with st := s' }, nm1 ++ "+" ++ nm)

/-- trace actor ↦ model actor: threads `t<k>`; in live traces also coroutines named `c<k>` (`c:c<k>`), one index space -/
def actorOf (r : RSt) (a : String) : Option Nat :=
  let idx : Option Nat :=
    if a.startsWith "t" then (a.drop 1).toString.toNat?
    else if r.live && a.startsWith "c:c" then (a.drop 3).toString.toNat?
    else none
  idx.bind fun t => if t < r.st.n then some t else none

def machine : Machine where
  St := RSt
  init := fun h => match hnat h "actors" with
    | some n => .ok { st := init n 1, live := hget h "live" == some "1" }
    | none => .error "mutex scenario without actors="
  actor := actorOf
  cands := candsR
  inv := fun r => if holders r.st > 1 then some "two holders" else if r.st.sh.dup then some "double re-post" else none
  where_ := fun r t => pcName (r.st.pcs t)
  atEnd := fun r => let s := r.st
    if (List.range s.n).all (fun t => s.pcs t == .idle) then
      (if s.sh.cnt == 1 && s.sh.q.isEmpty then none else some s!"all idle but cnt={s.sh.cnt} |q|={s.sh.q.length}")
    else some "not every actor is idle at the end of a finished run"
  skip := fun e => e.kind == "note"

end MayVerif.Mutex
