/-
  Observable labels of the Mutex model and its replay machine: the driver executes the very `step`
  function of `Model/Sync/Mutex.lean` on implementation traces.
-/
import MayVerif.Core.Trace
import MayVerif.Model.Sync.Mutex
namespace MayVerif.Mutex
open MayVerif

def mtx : Option (String × Nat) := some ("mutex", 0)
def bl (b : Bid) : Option (String × Nat) := some ("blk", b)
def b2i (b : Bool) : Int := if b then 1 else 0

/-- the observable of the step `tstep sh me pc e` (code polarity: `cnt_code = 1 - cnt`) -/
def label (sh : Sh) (pc : Pc) (e : Env) : Label :=
  match pc, e with
  | .idle, .startLock => { kind := "call", op := "mutex.lock" }
  | .idle, .startTry => { kind := "call", op := "mutex.try_lock" }
  | .held, _ => { kind := "call", op := "mutex.unlock" }
  | .idle, _ => { kind := "none", op := "-" }
  | .m0cas, _ | .t0cas, _ =>
      { obj := "sync.mutex.cnt", inst := mtx, op := "cas", a1 := .num 0, a2 := .num 1, res := .num (1 - sh.cnt),
        flag := some (if sh.cnt = 1 then 1 else 0), ord := "SeqCst" }
  | .w1push b, _ => { obj := "sync.mutex.to_wake", inst := mtx, op := "q.push", a1 := .id "blk" b }
  | .w2fsub _, _ => { obj := "sync.mutex.cnt", inst := mtx, op := "fetch_add", a1 := .num 1, res := .num (1 - sh.cnt), ord := "SeqCst" }
  | .w3pop _, _ => { obj := "sync.mutex.to_wake", inst := mtx, op := "q.pop",
                     res := match sh.q with | [] => .num (-1) | w :: _ => .id "blk" w }
  | .wake1 w _, _ => { kind := "blk", obj := "tp", inst := bl w, op := "unpark" }
  | .wake2 w _, _ => { obj := "sync.blocking.unparked", inst := bl w, op := "store", a1 := .num 1, ord := "Release" }
  | .wake3 w _, _ => { obj := "sync.blocking.release", inst := bl w, op := "swap", a1 := .num 0, res := .num (b2i (sh.release w)), ord := "Acquire" }
  | .w5park b, .abort => { kind := "blk", obj := "tp", inst := bl b, op := "park_return", res := .num 0 }
  | .w5park b, _ => { kind := "blk", obj := "tp", inst := bl b, op := "park_return", res := .num 1 }
  | .w6load b, _ | .w8load b, _ => { obj := "sync.blocking.unparked", inst := bl b, op := "load", res := .num (b2i (sh.unparked b)), ord := "Acquire" }
  | .w7set b, _ => { obj := "sync.blocking.release", inst := bl b, op := "store", a1 := .num 1, ord := "Release" }
  | .w9swap b, _ => { obj := "sync.blocking.release", inst := bl b, op := "swap", a1 := .num 0, res := .num (b2i (sh.release b)), ord := "Acquire" }
  | .p0fadd _, _ => { obj := "sync.mutex.cnt", inst := mtx, op := "fetch_sub", a1 := .num 1, res := .num (1 - sh.cnt), ord := "SeqCst" }

def pcName : Pc → String
  | .idle => "idle" | .m0cas => "m0cas" | .t0cas => "t0cas" | .w1push _ => "w1push" | .w2fsub _ => "w2fsub"
  | .w3pop _ => "w3pop" | .wake1 .. => "wake1" | .wake2 .. => "wake2" | .wake3 .. => "wake3"
  | .w5park _ => "w5park" | .w6load _ => "w6load" | .w7set _ => "w7set" | .w8load _ => "w8load"
  | .w9swap _ => "w9swap" | .p0fadd _ => "p0fadd" | .held => "held"

def envsFor : Pc → List Env
  | .idle => [.startLock, .startTry]
  | .held => [.unlock]
  | .w5park _ => [.go, .abort]
  | _ => [.go]

/-- transition name for coverage: pc plus the branch taken -/
def transName (sh : Sh) (pc : Pc) (e : Env) : String :=
  let br := match pc, e with
    | .idle, .startLock => "/lock" | .idle, .startTry => "/try"
    | .m0cas, _ | .t0cas, _ => if sh.cnt = 1 then "/ok" else "/fail"
    | .w2fsub _, _ => if sh.cnt > 0 then "/selfserve" else "/park"
    | .wake3 w _, _ | .w9swap w, _ => if sh.release w then "/repost" else "/done"
    | .w5park _, .abort => "/abort" | .w5park _, _ => "/woken"
    | .w6load b, _ | .w8load b, _ => if sh.unparked b then "/unparked" else "/not"
    | .p0fadd _, _ => if sh.cnt < 0 then "/wake" else "/free"
    | _, _ => ""
  pcName pc ++ br

/-- executable check of the headline invariants on the replayed state (the proofs are about all states;
    this guards the replay itself and would expose a model/driver mismatch) -/
def holders (s : St) : Nat := (List.range s.n).countP fun t => s.pcs t == .held

def cands (s : St) (t : Nat) (ev : Event) : List (Label × St × String) :=
  let pc := s.pcs t
  -- API returns and park entry are observations of the state, not steps
  if ev.kind == "ret" then
    let ok : Bool := match ev.op, ev.a1 with
      | "mutex.lock", _ => pc == .held
      | "mutex.try_lock", .num 1 => pc == .held
      | "mutex.try_lock", .num 0 => pc == .idle
      | "mutex.unlock", _ => pc == .idle
      | _, _ => false
    if ok then [({ kind := "ret", op := ev.op }, s, "ret")] else []
  else if ev.kind == "blk" && ev.op == "park_enter" then
    match pc with
    | .w5park b => [({ kind := "blk", obj := "tp", inst := bl b, op := "park_enter" }, s, "park_enter")]
    | _ => []
  else
    (envsFor pc).filterMap fun e =>
      match step s t e with
      | some s' => some (label s.sh pc e, s', transName s.sh pc e)
      | none => none

def machine : Machine where
  St := St
  init := fun h => match hnat h "actors" with
    | some n => .ok (init n 1)
    | none => .error "mutex scenario without actors="
  actor := fun s a => if a.startsWith "t" then ((a.drop 1).toString.toNat?).bind (fun t => if t < s.n then some t else none) else none
  cands := cands
  inv := fun s => if holders s > 1 then some "two holders" else if s.sh.dup then some "double re-post" else none
  where_ := fun s t => pcName (s.pcs t)
  atEnd := fun s => if (List.range s.n).all (fun t => s.pcs t == .idle) then
      (if s.sh.cnt == 1 && s.sh.q.isEmpty then none else some s!"all idle but cnt={s.sh.cnt} |q|={s.sh.q.length}")
    else some "not every actor is idle at the end of a finished run"
  skip := fun e => e.kind == "note"

end MayVerif.Mutex
