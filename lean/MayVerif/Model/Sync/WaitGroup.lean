/-
  Model of `may::sync::WaitGroup` (src/sync/wait_group.rs:106-141) over the SPECS of its Mutex and Condvar
  (a locked region is one atomic step; the condvar is the notification epoch `nall`, a wait may wake spuriously).

      clone():  lock; *count += 1; unlock                                   (needs a live handle)
      drop():   lock; *count -= 1; if *count == 0 { cvar.notify_all() }; unlock
      wait(self):
                g0check   if *self.inner.count.lock() == 1 { return }        (-> g9drop: `self` is dropped before the return)
                g1drop    drop(self)
                g2lock    count = inner.count.lock();  while *count > 0 { ... }
                gwait e   inside Condvar::wait (mutex released, enqueued at epoch e): woken by notify_all | spuriously
                gwoken    re-locked: *count > 0 ? wait again : return
                gdone     wait returns

  An actor holds `h` handles (`idle h`); a fresh clone goes to the `pool` (handles in transit, e.g. moved into a
  spawned closure) from which any actor may take it.
-/
namespace MayVerif.WaitGroup

@[grind] def upd {α : Type} (f : Nat → α) (t : Nat) (v : α) : Nat → α := fun u => if u = t then v else f u

inductive Pc
  | idle (h : Nat)
  | g0check (h : Nat) | g9drop (h : Nat) | g1drop (h : Nat) | g2lock (h : Nat)
  | gwait (h : Nat) (e : Nat) | gwoken (h : Nat) | gdone (h : Nat)
  deriving DecidableEq, Repr

inductive Env | clone | take | drop | wait | spurious | go | ret
  deriving DecidableEq, Repr

structure Sh where
  count : Nat
  nall : Nat      -- condvar spec: number of `notify_all` so far
  pool : Nat      -- handles in transit

/-- the `Drop` region: `*count -= 1; if *count == 0 { notify_all }` -/
def dropSh (sh : Sh) : Sh := { sh with count := sh.count - 1, nall := if sh.count - 1 = 0 then sh.nall + 1 else sh.nall }

def tstep (sh : Sh) (_me : Nat) : Pc → Env → Option (Sh × Pc)
  | .idle h, .clone => if 0 < h then some ({ sh with count := sh.count + 1, pool := sh.pool + 1 }, .idle h) else none
  | .idle h, .take => if 0 < sh.pool then some ({ sh with pool := sh.pool - 1 }, .idle (h + 1)) else none
  | .idle h, .drop => if 0 < h then some (dropSh sh, .idle (h - 1)) else none
  | .idle h, .wait => if 0 < h then some (sh, .g0check (h - 1)) else none
  | .idle _, _ => none
  | .g0check h, _ => if sh.count = 1 then some (sh, .g9drop h) else some (sh, .g1drop h)
  | .g9drop h, _ => some (dropSh sh, .gdone h)
  | .g1drop h, _ => some (dropSh sh, .g2lock h)
  | .g2lock h, _ => if 0 < sh.count then some (sh, .gwait h sh.nall) else some (sh, .gdone h)
  | .gwait h e, .go => if e < sh.nall then some (sh, .gwoken h) else none
  | .gwait h _, .spurious => some (sh, .gwoken h)
  | .gwait _ _, _ => none
  | .gwoken h, _ => if 0 < sh.count then some (sh, .gwait h sh.nall) else some (sh, .gdone h)
  | .gdone h, .ret => some (sh, .idle h)
  | .gdone _, _ => none

structure St where
  n : Nat
  sh : Sh
  pcs : Nat → Pc

def step (s : St) (t : Nat) (e : Env) : Option St :=
  if t < s.n then
    match tstep s.sh t (s.pcs t) e with
    | none => none
    | some (sh', pc') => some ⟨s.n, sh', upd s.pcs t pc'⟩
  else none

/-- `WaitGroup::new()` held by actor 0 -/
def init (n : Nat) : St := ⟨n, { count := 1, nall := 0, pool := 0 }, fun t => if t = 0 then .idle 1 else .idle 0⟩

def run (s : St) : List (Nat × Env) → St
  | [] => s
  | (t, e) :: r => match step s t e with
    | some s' => run s' r
    | none => run s r

end MayVerif.WaitGroup
