/-
  Observable labels of the Condvar model and its replay machine (family `condvar`).

  The trace of a condvar scenario contains the events of condvar.rs, of the condvar's blockers AND of the
  associated `may::sync::Mutex` (mutex.rs and the mutex's own blockers). The machine is the PRODUCT of
    * `Condvar.step` (Model/Sync/Condvar.lean: the mutex is the atomic spec bit `locked`), and
    * `Mutex.step`   (Model/Sync/Mutex.lean: the C05 model, per atomic operation),
  both executed, no second copy:
    * events of an actor that is inside a mutex operation (Mutex pc not `idle`/`held`) are explained by `Mutex.cands`;
    * where the condvar code calls `unlock_mutex(lock)` (pc `w2unlock`, `w9unlock`) the next event of the actor must be
      the first event of `Mutex::unlock` – the spec `unlock` fires with it; where it calls `lock.lock()` (`w4lock*`)
      the next events must be those of `Mutex::lock`, and the spec `lock` fires at the event that makes the Mutex model
      grant the lock (CAS success / park return). If the spec bit is not free at that moment, that is a divergence.
  So the ORDER of the mutex operations relative to the condvar's own operations is tied to the code (unlocking before
  the push, or not re-locking, diverges); that the mutex is an atomic lock is by the C05 theorems (spec).

  Replay bookkeeping that is not part of any model: `ctx` remembers which wait API an actor is in, because
  `wait_while` calls `wait` internally without `call`/`ret` markers.

  LIVE traces (family `condvar_live`, header `live=1`: coroutines `c:c<k>` and threads `t<k>` on the real runtime,
  filter condvar.rs + mutex.rs + blocking.rs): the blockers' own park / unpark produce no events (`Park` is filtered out,
  `ThreadPark` is real), so `n1unpark`/`a1unpark` (blocker.unpark), the end of the park and the Mutex model's silent
  steps (`Mutex.silent`) are SILENT steps taken when the actor's next event needs them. Whether a park returned Ok or
  Err is not visible when the actor starts to re-lock the mutex (the events of `Mutex::lock` are the same); the machine
  therefore lets the Mutex model run the re-lock with the condvar actor still at `w3park` (`relock`), and executes the
  condvar steps `park returned Ok | Err` and the spec `lock` – in this order, unchanged – at the actor's first event
  after the grant: `unparked.load` of its own blocker means Err, anything else Ok (which needs the token: delivered, or
  deliverable by the notifier that popped the blocker). These late steps touch only the owner's token and ghost fields,
  so the delay commutes with every other actor's step. `wend` (the `ret == Err(Canceled)` test of wait/wait_timeout)
  is resolved by the next event as well: a `ret` means time-out, the events of `unlock_mutex` the cancel path.
-/
import MayVerif.Core.Trace
import MayVerif.Model.Sync.Condvar
import MayVerif.Model.Sync.MutexReplay
namespace MayVerif.Condvar
open MayVerif

def cvI : Option (String × Nat) := some ("cv", 0)
/-- condvar blockers get odd numbers, the mutex model's blockers even ones, in one namespace: a trace blocker
    can never be both -/
def bl (b : Bid) : Option (String × Nat) := some ("blk", 2 * b + 1)
def bid (b : Bid) : LArg := .id "blk" (2 * b + 1)
def b2i (b : Bool) : Int := if b then 1 else 0

/-- the observable of the step `tstep sh me pc e` -/
def label (sh : Sh) (pc : Pc) (e : Env) : Label :=
  match pc, e with
  | .idle, .lock | .w4lockOk, _ | .w4lockE .., _ => { kind := "spec", op := "mutex.lock" }
  | .held, .unlock | .w2unlock .., _ | .w9unlock, _ => { kind := "spec", op := "mutex.unlock" }
  | .idle, .notifyOne | .held, .notifyOne => { kind := "call", op := "cv.notify_one" }
  | .idle, .notifyAll | .held, .notifyAll => { kind := "call", op := "cv.notify_all" }
  | .held, .wait _ =>
      { obj := "sync.condvar.mutex", inst := cvI, op := "cas", a1 := .num 0, a2 := .id "maddr" 0,
        res := if sh.bound then .id "maddr" 0 else .num 0, flag := some (if sh.bound then 0 else 1), ord := "SeqCst" }
  | .idle, _ | .held, _ => { kind := "none", op := "-" }
  | .w1push b _, _ => { obj := "sync.condvar.to_wake", inst := cvI, op := "q.push", a1 := bid b }
  | .w3park b _, .abort => { kind := "blk", obj := "tp", inst := bl b, op := "park_return", res := .num 0 }
  | .wend _, _ => { kind := "none", op := "wait: ret == Err(Canceled) ?" }
  | .w3park b _, _ => { kind := "blk", obj := "tp", inst := bl b, op := "park_return", res := .num 1 }
  | .w5load b _, _ | .w7load b _, _ =>
      { obj := "sync.blocking.unparked", inst := bl b, op := "load", res := .num (b2i (sh.unparked b)), ord := "SeqCst" }
  | .w6set b _, _ => { obj := "sync.blocking.release", inst := bl b, op := "store", a1 := .num 1, ord := "SeqCst" }
  | .w8swap b _, _ | .n3swap b _, _ =>
      { obj := "sync.blocking.release", inst := bl b, op := "swap", a1 := .num 0, res := .num (b2i (sh.release b)), ord := "SeqCst" }
  | .wdone r, _ => { kind := "ret", op := "cv.wait", a1 := .num (b2i r) }
  | .n0pop _, _ | .a0pop _, _ =>
      { obj := "sync.condvar.to_wake", inst := cvI, op := "q.pop", res := match sh.q with | [] => .num (-1) | w :: _ => bid w }
  | .n1unpark w _, _ | .a1unpark w _, _ => { kind := "blk", obj := "tp", inst := bl w, op := "unpark" }
  | .n2store w _, _ | .a2store w _, _ => { obj := "sync.blocking.unparked", inst := bl w, op := "store", a1 := .num 1, ord := "SeqCst" }

def pcName : Pc → String
  | .idle => "idle" | .held => "held" | .w1push .. => "w1push" | .w2unlock .. => "w2unlock" | .w3park .. => "w3park"
  | .w4lockOk => "w4lockOk" | .w4lockE .. => "w4lockE" | .w5load .. => "w5load" | .w6set .. => "w6set"
  | .w7load .. => "w7load" | .w8swap .. => "w8swap" | .wend _ => "wend" | .w9unlock => "w9unlock" | .wdone _ => "wdone"
  | .n0pop _ => "n0pop" | .n1unpark .. => "n1unpark" | .n2store .. => "n2store" | .n3swap .. => "n3swap"
  | .a0pop _ => "a0pop" | .a1unpark .. => "a1unpark" | .a2store .. => "a2store"

def kName : K → String | .idle => "" | .held => "(locked)" | .wret _ => "(fwd)"

/-- transition name for coverage: pc plus the branch taken -/
def transName (sh : Sh) (pc : Pc) (e : Env) : String :=
  let br := match pc, e with
    | .idle, .lock => "/lock" | .held, .unlock => "/unlock"
    | .idle, .notifyOne | .held, .notifyOne => "/notify_one" | .idle, .notifyAll | .held, .notifyAll => "/notify_all"
    | .held, .wait d => (if d then "/wait_timeout" else "/wait") ++ (if sh.bound then "/bound" else "/bind")
    | .w3park _ _, .abort => "/err" | .w3park _ _, _ => "/woken"
    | .wend _, .cancel => "/cancel" | .wend _, _ => "/timeout"
    | .w5load b _, _ | .w7load b _, _ => if sh.unparked b then "/unparked" else "/not"
    | .w8swap b _, _ | .n3swap b _, _ => if sh.release b then "/forward" else "/done"
    | .n0pop k, _ | .a0pop k, _ => kName k ++ (if sh.q.isEmpty then "/empty" else "/some")
    | .wdone r, _ => if r then "/timed_out" else "/notified"
    | _, _ => ""
  pcName pc ++ br

/-- replay state: both models plus the bookkeeping of the API context -/
structure PSt where
  cv : St
  mx : Mutex.St
  ctx : Nat → Nat := fun _ => 0   -- 0 none, 1 `wait`, 2 `wait_timeout`, 3 `wait_while`
  err : Option String := none
  live : Bool := false
  /-- live: the actor has left its park and re-locks the mutex; the condvar model is still at `w3park` -/
  relock : Nat → Bool := fun _ => false

def mquiet (pc : Mutex.Pc) : Bool := pc == .idle || pc == .held

def reArg : LArg → LArg
  | .id ns b => if ns == "blk" then .id ns (2 * b) else .id ns b
  | a => a
/-- a label of the Mutex model with its blocker ids moved to the even numbers -/
def reLabel (l : Label) : Label :=
  { l with inst := l.inst.map (fun p => if p.1 == "blk" then (p.1, 2 * p.2) else p),
           a1 := reArg l.a1, a2 := reArg l.a2, res := reArg l.res }

def setCtx (ps : PSt) (t : Nat) (v : Nat) : PSt := { ps with ctx := fun u => if u = t then v else ps.ctx u }
def setRelock (ps : PSt) (t : Nat) (v : Bool) : PSt := { ps with relock := fun u => if u = t then v else ps.relock u }

/-- inside `wait_while` a finished internal `wait` returns to the loop without a `ret` marker -/
def settle (ps : PSt) (t : Nat) : PSt :=
  match ps.cv.pcs t with
  | .wdone _ => if ps.ctx t == 3 then
      match step ps.cv t .go with
      | some cv' => { ps with cv := cv' }
      | none => ps
    else ps
  | _ => ps

/-- run the condvar steps `es` of actor `t` in order (all must be enabled) -/
def cvRun (cv : St) (t : Nat) : List Env → Option St
  | [] => some cv
  | e :: r => match step cv t e with
    | some cv' => cvRun cv' t r
    | none => none

/-- the Mutex model moved from `mpc0`: when it grants the lock to `t`, the spec `lock` of the condvar model fires
    (for an actor whose park outcome is still open it is only checked to be enabled and fires with the outcome) -/
def afterMutex (ps : PSt) (mpc0 : Mutex.Pc) (mx' : Mutex.St) (t : Nat) : PSt × String :=
  if mpc0 != .held && mx'.pcs t == .held then
    if ps.relock t then
      if ps.cv.sh.locked then
        ({ ps with mx := mx', err := some s!"the implementation mutex was granted to actor {t} (re-lock in wait) while the spec mutex is held by {ps.cv.sh.owner}" }, "")
      else ({ ps with mx := mx' }, "")
    else match step ps.cv t .lock with
    | some cv' => (settle { ps with mx := mx', cv := cv' } t, "+" ++ transName ps.cv.sh (ps.cv.pcs t) .lock)
    | none => ({ ps with mx := mx', err := some s!"the implementation mutex was granted to actor {t} at {pcName (ps.cv.pcs t)} while the spec mutex is held by {ps.cv.sh.owner}" }, "")
  else ({ ps with mx := mx' }, "")

/-- the event is explained by the Mutex model, started from `mx0` (`ps.mx` possibly after a silent call step) -/
def viaMutex (ps : PSt) (mx0 : Mutex.St) (t : Nat) (ev : Event) (pre : String) : List (Label × PSt × String) :=
  (Mutex.cands mx0 t ev).map fun (l, mx', nm) =>
    let (ps', sfx) := afterMutex ps (ps.mx.pcs t) mx' t
    (reLabel l, ps', pre ++ "mx." ++ nm ++ sfx)

def envsFor (live : Bool) : Pc → List Env
  | .w3park .. => if live then [] else [.go, .abort]
  | .idle | .held | .wdone _ | .wend _ | .w2unlock .. | .w9unlock | .w4lockOk | .w4lockE .. => []
  | _ => [.go]

def cvSteps (ps : PSt) (t : Nat) (envs : List Env) (lab : Label → Label := id) : List (Label × PSt × String) :=
  envs.filterMap fun e =>
    match step ps.cv t e with
    | some cv' => some (lab (label ps.cv.sh (ps.cv.pcs t) e), settle { ps with cv := cv' } t, transName ps.cv.sh (ps.cv.pcs t) e)
    | none => none

/-- the steps that explain one event directly -/
def core (ps : PSt) (t : Nat) (ev : Event) : List (Label × PSt × String) :=
  let cpc := ps.cv.pcs t
  let mpc := ps.mx.pcs t
  let obs (ok : Bool) (ps' : PSt) : List (Label × PSt × String) :=
    if ok then [({ kind := ev.kind, op := ev.op }, ps', ev.kind ++ ":" ++ ev.op)] else []
  if ev.kind == "ret" then
    match ev.op with
    | "mutex.lock" => obs (mpc == .held && cpc == .held) ps
    | "mutex.unlock" => obs (mpc == .idle && cpc == .idle) ps
    | "cv.notify_one" | "cv.notify_all" => obs (mquiet mpc && (cpc == .held || cpc == .idle)) ps
    | "cv.wait" | "cv.wait_timeout" =>
        (match cpc with
         | .wdone _ =>
             if ps.ctx t == (if ev.op == "cv.wait" then 1 else 2) && mpc == .held then
               cvSteps (setCtx ps t 0) t [.go] (fun l => { l with op := ev.op })
             else []
         | _ => [({ kind := "ret", op := s!"<none: the model's wait is not finished, next: {(label ps.cv.sh cpc .go).str}>" }, ps, "")])
    | "cv.wait_while" => obs (ps.ctx t == 3 && mpc == .held && cpc == .held) (setCtx ps t 0)
    | _ => []
  else if ev.kind == "call" then
    match ev.op with
    | "mutex.lock" => if cpc == .idle && mpc == .idle then viaMutex ps ps.mx t ev "" else []
    | "mutex.unlock" =>
        if cpc == .held && mpc == .held && ps.ctx t == 0 then
          match step ps.cv t .unlock, Mutex.step ps.mx t .unlock with
          | some cv', some mx' => [({ kind := "call", op := "mutex.unlock" }, { ps with cv := cv', mx := mx' }, "held/unlock")]
          | _, _ => []
        else []
    | "cv.wait" => obs (cpc == .held && mpc == .held && ps.ctx t == 0) (setCtx ps t 1)
    | "cv.wait_timeout" => obs (cpc == .held && mpc == .held && ps.ctx t == 0) (setCtx ps t 2)
    | "cv.wait_while" => obs (cpc == .held && mpc == .held && ps.ctx t == 0) (setCtx ps t 3)
    | "cv.notify_one" => if mquiet mpc && ps.ctx t == 0 then cvSteps ps t [.notifyOne] else []
    | "cv.notify_all" => if mquiet mpc && ps.ctx t == 0 then cvSteps ps t [.notifyAll] else []
    | _ => []
  else if !mquiet mpc then viaMutex ps ps.mx t ev ""
  else match cpc with
    | .w2unlock .. | .w9unlock =>
        -- `unlock_mutex(lock)`: the spec unlock fires with the first event of `Mutex::unlock`
        match step ps.cv t .go, Mutex.step ps.mx t .unlock with
        | some cv', some mx0 => viaMutex { ps with cv := cv' } mx0 t ev (pcName cpc ++ "+")
        | _, _ => []
    | .w4lockOk | .w4lockE .. =>
        -- `lock.lock()`: the events of `Mutex::lock`; the spec lock fires when the Mutex model grants
        match Mutex.step ps.mx t .startLock with
        | some mx0 => viaMutex ps mx0 t ev ""
        | none => []
    | .w3park b d =>
        if ev.kind == "blk" && ev.op == "park_enter" then
          [({ kind := "blk", obj := "tp", inst := bl b, op := "park_enter", a1 := .num (b2i d) }, ps, "park_enter")]
        else cvSteps ps t (envsFor ps.live cpc)
    | .held =>
        -- the first operation of a wait (the API was announced by a `call`, or we are inside `wait_while`)
        if ps.ctx t != 0 && mpc == .held then cvSteps ps t [.wait (ps.ctx t == 2)] else []
    | _ => cvSteps ps t (envsFor ps.live cpc)

/-- the silent steps available to actor `t`: successor and name -/
def silent (ps : PSt) (t : Nat) : List (PSt × String) :=
  let cpc := ps.cv.pcs t
  let mpc := ps.mx.pcs t
  -- (all modes) `if ret == Err(ParkError::Canceled)` after wait_impl returned an error: no shared-memory operation
  (match cpc with
   | .wend _ =>
       (match step ps.cv t .go with | some cv' => [(settle { ps with cv := cv' } t, "wend/timeout~")] | none => []) ++
       (match step ps.cv t .cancel with | some cv' => [(setCtx { ps with cv := cv' } t 0, "wend/cancel~")] | none => [])
   | _ => []) ++
  (if !ps.live then [] else
    -- the Mutex model's own silent steps (blocker.unpark, end of its park, cancel of a blocked lock)
    (if mquiet mpc then [] else
      (Mutex.silent ps.mx t).map fun (mx1, nm) =>
        let (ps', sfx) := afterMutex ps mpc mx1 t
        (ps', "mx." ++ nm ++ sfx)) ++
    (match cpc with
     -- `w.blocker.unpark()` has no event
     | .n1unpark .. | .a1unpark .. =>
         (match step ps.cv t .go with | some cv' => [({ ps with cv := cv' }, pcName cpc ++ "~")] | none => [])
     | .w3park b _ =>
         if !ps.relock t then
           -- the park is over (outcome open): `lock.lock()` starts
           (if mpc == .idle then match Mutex.step ps.mx t .startLock with
              | some mx0 => [(setRelock { ps with mx := mx0 } t true, "w3park/left~")]
              | none => []
            else [])
         else if mpc == .held then
           -- the re-lock is granted: now the park outcome and the spec lock fire
           let err := match cvRun ps.cv t [.abort, .lock] with
             | some cv' => [(setRelock { ps with cv := cv' } t false, "w3park/err~+w4lockE")]
             | none => []
           let cv0 : Option St :=
             if ps.cv.sh.tok b then some ps.cv
             else ((List.range ps.cv.n).find? fun u => match ps.cv.pcs u with
                     | .n1unpark w _ | .a1unpark w _ => w == b | _ => false).bind fun u => step ps.cv u .go
           let ok := match cv0.bind fun c => cvRun c t [.go, .lock] with
             | some cv' => [(settle (setRelock { ps with cv := cv' } t false) t, "w3park/woken~+w4lockOk")]
             | none => []
           err ++ ok
         else []
     | _ => []))

/-- candidates: the direct ones, then those after one, two or three silent steps of the actor -/
def cands (ps : PSt) (t : Nat) (ev : Event) : List (Label × PSt × String) :=
  let lift (alts : List (PSt × String)) : List (Label × PSt × String) :=
    alts.flatMap fun (p1, nm1) => (core p1 t ev).map fun (l, p', nm) => (l, p', nm1 ++ "+" ++ nm)
  let s1 := silent ps t
  let s2 := s1.flatMap fun (p1, nm1) => (silent p1 t).map fun (p2, nm2) => (p2, nm1 ++ "+" ++ nm2)
  let s3 := s2.flatMap fun (p2, nm2) => (silent p2 t).map fun (p3, nm3) => (p3, nm2 ++ "+" ++ nm3)
  core ps t ev ++ lift s1 ++ lift s2 ++ lift s3

def holders (s : Mutex.St) : Nat := (List.range s.n).countP fun t => s.pcs t == .held

def inv (ps : PSt) : Option String :=
  match ps.err with
  | some e => some e
  | none =>
    if holders ps.mx > 1 then some "two holders of the mutex"
    else if ps.mx.sh.dup then some "double re-post in the mutex"
    else if ps.cv.sh.dup then some "a notification was forwarded twice for one blocker"
    else if (List.range ps.cv.n).any (fun t => !ps.relock t && holdsM (ps.cv.pcs t) != (ps.mx.pcs t == .held)) then
      some "spec mutex holder differs from the Mutex model's holder"
    else if (List.range ps.cv.n).any (fun t => holdsM (ps.cv.pcs t) && !(ps.cv.sh.locked && ps.cv.sh.owner == t)) then
      some "an actor inside the locked region does not own the spec mutex"
    else none

/-- trace actor ↦ model actor: threads `t<k>`; in live traces also coroutines named `c<k>` (`c:c<k>`), one index space -/
def actorOf (s : PSt) (a : String) : Option Nat :=
  let idx : Option Nat :=
    if a.startsWith "t" then (a.drop 1).toString.toNat?
    else if s.live && a.startsWith "c:c" then (a.drop 3).toString.toNat?
    else none
  idx.bind fun t => if t < s.cv.n then some t else none

def machine : Machine where
  St := PSt
  init := fun h => match hnat h "actors" with
    | some n => .ok { cv := init n, mx := Mutex.init n 1, live := hget h "live" == some "1" }
    | none => .error "condvar scenario without actors="
  actor := actorOf
  cands := cands
  inv := inv
  where_ := fun s t => s!"cv:{pcName (s.cv.pcs t)} mutex:{Mutex.pcName (s.mx.pcs t)} ctx={s.ctx t}{if s.relock t then " (re-locking)" else ""}"
  atEnd := fun s =>
    if (List.range s.cv.n).all (fun t => s.cv.pcs t == .idle && s.mx.pcs t == .idle) then
      (if s.mx.sh.cnt == 1 && s.mx.sh.q.isEmpty && !s.cv.sh.locked then none
       else some s!"all idle but mutex cnt={s.mx.sh.cnt} |q|={s.mx.sh.q.length} spec locked={s.cv.sh.locked}")
    else some "not every actor is idle at the end of a finished run"
  skip := fun e => e.kind == "note" || e.obj.startsWith "?."

end MayVerif.Condvar
