/-
  Implementation-level model of `may::sync::Barrier::wait` (src/sync/barrier.rs): one step per access to the
  lock-protected state (`count`, `generation_id`, hooked under cfg(may_verif)) and per call into Mutex / Condvar,
  over the SPECIFICATIONS of those two (the C05 / C11 theorems are the contract, the blockers are not re-modelled):
    * Mutex  : `locked` – `lock` blocks until free (`mutex_mutual_exclusion`, `cv_mutex_exclusive`);
    * Condvar: `wait` releases the lock and joins the wait set in one step (`cv_enqueue_before_unlock`), a sleeper
      leaves after a later `notify_all` (`nall` grew: `cv_notify_all`, `cv_no_stranded_waiter`) or spuriously, and
      re-acquires the lock before `wait` returns (`cv_wait_reacquires`), in any order.

      wait():   b0lock    let mut lock = self.lock.lock().unwrap();
                b1gen     let local_gen = lock.generation_id;                          (load)
                b2inc     lock.count += 1;                                             (add)
                b3cmp     if lock.count < self.num_threads                             (load)
                b4pred      wait_while: |state| local_gen == state.generation_id       (load, every evaluation)
                b5wait        true  -> Condvar::wait(guard): release + sleep -> bsleep
                bsleep / bwake  woken (notify_all | spuriously), re-lock -> b4pred
                              false -> b6unlock false
                b7reset   lock.count = 0;                                              (store)
                b8gen     lock.generation_id = lock.generation_id.wrapping_add(1);     (add)
                b9notify  self.cvar.notify_all();
                b6unlock  the guard is dropped
                done l    BarrierWaitResult(l)

  `seeded = true` is the variant of /verif/seeded/C11_c: the predicate is `state.count != 0`.
  `generation_id` wraps in the code; the model uses unbounded `Nat` (2^64 generations while one party sleeps is out of
  scope). Ghost: `owner`, `ph` (where the lock holder is in the arrival / release sequence), `arr g` (arrivals counted
  with generation g), `ldr g` (leader branches taken in g), `who g` (the leader of g).
-/
namespace MayVerif.BarrierImpl

@[grind] def upd {α : Type} (f : Nat → α) (t : Nat) (v : α) : Nat → α := fun u => if u = t then v else f u

inductive Pc
  | idle
  | b0lock
  | b1gen | b2inc (lg : Nat) | b3cmp (lg : Nat)
  | b4pred (lg : Nat) | b5wait (lg : Nat)
  | bsleep (lg : Nat) (e : Nat) | bwake (lg : Nat)
  | b7reset (lg : Nat) | b8gen (lg : Nat) | b9notify (lg : Nat)
  | b6unlock (l : Bool) (lg : Nat)
  | done (l : Bool) (lg : Nat)
  deriving DecidableEq, Repr

inductive Env | call | spurious | go | ret
  deriving DecidableEq, Repr

structure Sh where
  N : Nat               -- `num_threads`
  seeded : Bool         -- the predicate of seeded/C11_c
  locked : Bool         -- the barrier's mutex (spec)
  count : Nat
  gen : Nat
  nall : Nat            -- condvar spec: number of `notify_all` so far
  -- ghost
  owner : Nat
  ph : Nat              -- 0 | 1 counted, not compared | 2 leader before the reset | 3 before the bump | 4 before notify_all
  arr : Nat → Nat
  ldr : Nat → Nat
  who : Nat → Nat

def tstep (sh : Sh) (me : Nat) : Pc → Env → Option (Sh × Pc)
  | .idle, .call => some (sh, .b0lock)
  | .idle, _ => none
  | .b0lock, _ => if sh.locked then none else some ({ sh with locked := true, owner := me }, .b1gen)
  | .b1gen, _ => some (sh, .b2inc sh.gen)
  | .b2inc lg, _ => some ({ sh with count := sh.count + 1, ph := 1, arr := upd sh.arr sh.gen (sh.arr sh.gen + 1) }, .b3cmp lg)
  | .b3cmp lg, _ =>
      if sh.count < sh.N then some ({ sh with ph := 0 }, .b4pred lg)
      else some ({ sh with ph := 2, ldr := upd sh.ldr sh.gen (sh.ldr sh.gen + 1), who := upd sh.who sh.gen me }, .b7reset lg)
  | .b4pred lg, _ =>
      if (if sh.seeded then sh.count != 0 else lg == sh.gen) then some (sh, .b5wait lg) else some (sh, .b6unlock false lg)
  | .b5wait lg, _ => some ({ sh with locked := false }, .bsleep lg sh.nall)
  | .bsleep lg e, .go => if e < sh.nall then some (sh, .bwake lg) else none
  | .bsleep lg _, .spurious => some (sh, .bwake lg)
  | .bsleep _ _, _ => none
  | .bwake lg, _ => if sh.locked then none else some ({ sh with locked := true, owner := me }, .b4pred lg)
  | .b7reset lg, _ => some ({ sh with count := 0, ph := 3 }, .b8gen lg)
  | .b8gen lg, _ => some ({ sh with gen := sh.gen + 1, ph := 4 }, .b9notify lg)
  | .b9notify lg, _ => some ({ sh with nall := sh.nall + 1, ph := 0 }, .b6unlock true lg)
  | .b6unlock l lg, _ => some ({ sh with locked := false }, .done l lg)
  | .done _ _, .ret => some (sh, .idle)
  | .done _ _, _ => none

structure St where
  n : Nat
  sh : Sh
  pcs : Nat → Pc

def step (s : St) (t : Nat) (e : Env) : Option St :=
  if t < s.n then
    match tstep s.sh t (s.pcs t) e with
    | none => none
    | some (sh', pc') => some ⟨s.n, sh', upd s.pcs t pc'⟩
  else none

/-- `n` actors, a `Barrier::new(N)`; `seeded` selects the predicate of seeded/C11_c -/
def init (n N : Nat) (seeded : Bool) : St :=
  ⟨n, { N := N, seeded := seeded, locked := false, count := 0, gen := 0, nall := 0, owner := 0, ph := 0,
        arr := fun _ => 0, ldr := fun _ => 0, who := fun _ => 0 }, fun _ => .idle⟩

def run (s : St) : List (Nat × Env) → St
  | [] => s
  | (t, e) :: r => match step s t e with
    | some s' => run s' r
    | none => run s r

/-- this actor holds the barrier's mutex -/
@[grind] def holds : Pc → Bool
  | .b1gen | .b2inc _ | .b3cmp _ | .b4pred _ | .b5wait _ | .b7reset _ | .b8gen _ | .b9notify _ | .b6unlock .. => true
  | _ => false

end MayVerif.BarrierImpl
