/-
  Replay machine of the spec-level WaitGroup model (family `waitgroup`).

  Only the API boundary is compared with the model: `call`/`ret` of `wg.clone`, `wg.drop`, `wg.wait`. The locked
  regions of `clone`, `drop` and of the first half of `wait` (check, drop of `self`, second lock) fire at the `call`
  event – the earliest possible linearization, which can only make the model's count smaller than the real one (for
  drops) or is covered by the caller's own live handle (for clones), so a correct implementation never diverges.
  At `ret wg.wait` the model must be able to let the actor return: it is `gdone`, or it can wake (notified or
  spuriously), re-check and find `count = 0`. A `wait` that returns while the model still counts a live handle is a
  divergence. All other events pass through (they are checked by the `condvar` family).
  The initial state is reached by running the model itself: actor 0 clones, everybody takes its handles, actor 0
  drops the original – so the theorems about `run (init n) sched` apply to every replayed state.
-/
import MayVerif.Core.Trace
import MayVerif.Model.Sync.WaitGroup
namespace MayVerif.WaitGroup
open MayVerif

def pass (ev : Event) : Label := { kind := ev.kind, obj := ev.obj, op := ev.op }

def steps (s : St) (t : Nat) : List Env → Option St
  | [] => some s
  | e :: r => match step s t e with
    | some s' => steps s' t r
    | none => none

/-- run actor `t` through the locked regions it can perform without waiting (pcs g0check … g2lock) -/
def settle (s : St) (t : Nat) : Nat → St
  | 0 => s
  | fuel + 1 => match s.pcs t with
    | .g0check _ | .g9drop _ | .g1drop _ | .g2lock _ => match step s t .go with
      | some s' => settle s' t fuel
      | none => s
    | _ => s

def cands (s : St) (t : Nat) (ev : Event) : List (Label × St × String) :=
  let pc := s.pcs t
  if ev.kind == "call" then
    match ev.op, pc with
    | "wg.clone", .idle _ => match steps s t [.clone, .take] with
        | some s' => [(pass ev, s', "clone")]
        | none => []
    | "wg.drop", .idle _ => match step s t .drop with
        | some s' => [(pass ev, s', if s'.sh.count == 0 then "drop/last" else "drop")]
        | none => []
    | "wg.wait", .idle _ => match step s t .wait with
        | some s0 =>
            let s' := settle s0 t 4
            [(pass ev, s', match s'.pcs t with | .gwait .. => (if s.sh.count == 1 then "wait/only" else "wait/blocks") | _ => (if s.sh.count == 1 then "wait/only" else "wait/free"))]
        | none => []
    | _, _ => []
  else if ev.kind == "ret" then
    match ev.op, pc with
    | "wg.clone", .idle _ | "wg.drop", .idle _ => [(pass ev, s, "ret")]
    | "wg.wait", .gdone _ => match step s t .ret with
        | some s' => [(pass ev, s', "ret/wait")]
        | none => []
    | "wg.wait", .gwait _ e =>
        let wake := if e < s.sh.nall then Env.go else Env.spurious
        (match steps s t [wake, .go] with
         | some s1 =>
             (match s1.pcs t with
              | .gdone _ => match step s1 t .ret with
                  | some s' => [(pass ev, s', if e < s.sh.nall then "ret/wait-notified" else "ret/wait-spurious")]
                  | none => []
              | _ => [({ kind := "ret", op := s!"<none: {s.sh.count} handles are still alive>" }, s, "")])
         | none => [])
    | _, _ => []
  else [(pass ev, s, "internal")]

/-- the model run that distributes the initial handles -/
def prefixSched (hs : List Nat) : List (Nat × Env) :=
  let total := hs.foldl (· + ·) 0
  (List.replicate total (0, Env.clone)) ++
  ((List.range hs.length).flatMap fun t => List.replicate (hs.getD t 0) (t, Env.take)) ++ [(0, Env.drop)]

def machine : Machine where
  St := St
  init := fun h => match hnat h "actors", hget h "handles" with
    | some n, some hs =>
        let l := (hs.splitOn ",").map (fun x => x.toNat?.getD 0)
        .ok (run (init n) (prefixSched l))
    | _, _ => .error "waitgroup scenario without actors= / handles="
  actor := fun s a => if a.startsWith "t" then ((a.drop 1).toString.toNat?).bind (fun t => if t < s.n then some t else none) else none
  cands := cands
  inv := fun s => if (List.range s.n).any (fun t => match s.pcs t with | .gdone _ => s.sh.count != 0 | _ => false) then some "a wait is returning while count > 0" else none
  where_ := fun s t => s!"{repr (s.pcs t)} count={s.sh.count}"
  atEnd := fun s => if (List.range s.n).all (fun t => s.pcs t == .idle 0) && s.sh.count == 0 && s.sh.pool == 0 then none
                    else some s!"handles left at the end of a finished run (count={s.sh.count})"
  skip := fun e => e.kind == "note"

end MayVerif.WaitGroup
