/-
  Model of `may::sync::RwLock` (src/sync/rwlock.rs, with the fixes F1a/F1b/F1c applied; `tstepG true` is the
  pinned tree before these fixes, kept for the negation witnesses of `Props/C12.lean`).

  RwLock = `rlock` (a may `Mutex<usize>` guarding the reader count `r`)
         + the global gate (`cnt`, `to_wake`, the SyncBlocker hand-over incl. the cancel path)
         + the poison flag.

  Both locks are **components**: the state contains two copies `g` (gate) and `rl` (rlock) of the shared state
  of `Model/Sync/Mutex.lean`, and every step of a sub-call `lock()/try_lock()/unlock()` on either of them is
  literally `Mutex.tstep` on that copy (the gate is line by line the Mutex protocol: rwlock.rs `lock/unlock/
  unpark_one` = mutex.rs `lock/unlock/unpark_one`, except that `try_lock` does a `cnt.load` before its CAS and
  that there is no `b_ignore` loop). The invariant of C05 is therefore re-used for both by projection
  (`Proof/Sync/RwLock/Sim.lean`), not re-proved.

  One `tstep` case per hooked shared-memory operation, in program order:

      read():        rlk  rlock.lock()                 (Mutex steps m0cas … held)
                     rlp  MutexGuard::new: rlock.poison.failed.load
                     rld  `if *r == 0`                 (hooked access to the protected counter: event `load -> r`)
                     gld  gate try_lock: cnt.load      glk  gate lock(): CAS / push / fetch_add / pop+wake / park / cancel path
                     rinc `*r += 1`                    (event `add 1 -> old r`)
                     psn  RwLockReadGuard::new: poison.failed.load
                     rul  drop(r): rlock unlock        (Mutex steps p0fadd …)  ; return Ok / Poisoned(guard)
      try_read():    rlk (try: t0cas) rlp rld gld glk(t0cas) rinc psn rul        WouldBlock: rul … return 0
      read guard drop = read_unlock():   rlk rlp rdec(`*r -= 1`, event `sub 1 -> old r`) rck(`if *r == 0`, event `load -> r`)
                                         gul(gate unlock()) rul
      write():       gld glk psn ; try_write(): gld glk(t0cas) psn
      write guard drop:  wpo (poison.failed.store(1) iff unwinding)  gul
      is_poisoned(): isp

  `*r` is a plain `usize` protected by rlock; under `cfg(may_verif)` it is a `verif::Counted`, whose every comparison and
  `+=` / `-=` is one trace event and one det schedule point, so every access is a step of its own here and the replay
  compares the order AND the values of the accesses. `*r` is only touched between `rlp` and `rul` of one call, i.e.
  while the actor holds `rlock`; that these sections exclude each other is theorem `rwlock_rlock_sections_exclusive`
  (from C05's mutual exclusion for the component).

  Guards are not program points: `RG`/`WG` count the read/write guards handed out (at the *return* of
  read/try_read/write/try_write, inside `Ok` or inside `Poisoned`) and not yet given to `drop` (decremented at
  the *call* of the drop). Guards are `Send`: any idle actor may drop one.

  Ghost (never read by a non-ghost step): RG, WG, grp ("the reader group holds the gate"), res.
-/
import MayVerif.Model.Sync.Mutex
namespace MayVerif.RwLock
open MayVerif.Mutex (upd)

/-- the API call an actor is inside -/
inductive Op | read | tryRead | write | tryWrite | dropR | dropW
  deriving DecidableEq, Repr

inductive Pc
  | idle
  | rlk (o : Op) (p : Mutex.Pc)            -- inside rlock.lock() / rlock.try_lock(), at Mutex pc `p`
  | rlp (o : Op)                           -- rlock acquired: MutexGuard::new loads rlock's poison flag
  | rld (o : Op)                           -- read / try_read: `if *r == 0`
  | rinc (o : Op) (first : Bool)           -- read / try_read: `*r += 1`; `first` (ghost): this call has just taken the gate
  | rdec                                   -- read_unlock: `*r -= 1`
  | rck (last : Bool)                      -- read_unlock: `if *r == 0`; `last` (ghost): the decrement went to 0
  | gld (o : Op)                           -- gate try_lock(): `cnt.load`
  | glk (o : Op) (p : Mutex.Pc)            -- gate lock() / try_lock() from the CAS on, at Mutex pc `p`
  | glp (o : Op)                           -- PINNED TREE ONLY (before fix F1b): `poison.get()` after a lost CAS
  | psn (o : Op)                           -- Rw…Guard::new: `poison.failed.load`
  | gul (o : Op) (p : Mutex.Pc)            -- gate unlock(), at Mutex pc `p`
  | rul (o : Op) (v : Nat) (p : Mutex.Pc)  -- rlock unlock (the guard `r` is dropped), then return `v`
  | wpo                                    -- write guard dropped while unwinding: `poison.failed.store(1)`
  | isp                                    -- is_poisoned(): `poison.failed.load`
  deriving DecidableEq, Repr

/-- caller / environment choices: which API is called; whether a park ends by cancellation (`abort`), or by a cancellation
    while the coroutine has cancellation disabled (`abortIgnore`) -/
inductive Env | read | tryRead | write | tryWrite | dropR | dropW (panicking : Bool) | isPoisoned | go | abort | abortIgnore
  deriving DecidableEq, Repr

structure Sh where
  g : Mutex.Sh          -- the global gate (free-permit polarity: g.cnt = 1 - cnt_code)
  rl : Mutex.Sh         -- rlock
  r : Int               -- *rlock : reader count (Int so that an underflow is visible, not truncated)
  poison : Bool         -- RwLock.poison.failed
  -- ghost
  RG : Nat              -- read guards handed out and not yet dropped
  WG : Nat              -- write guards handed out and not yet dropped
  grp : Bool            -- the reader group holds the gate
  res : Nat → Nat       -- last API result per actor: 0 WouldBlock / done, 1 Ok(guard), 2 Poisoned(guard), 3 cancel panic

/-- environment of a step of the rlock component: `Mutex::lock` ignores a cancel while cancellation is disabled (`b_ignore`) -/
def menvR : Env → Mutex.Env
  | .abort => .abort
  | .abortIgnore => .abortIgnore
  | _ => .go
/-- environment of the `rlock.lock()` inside a read guard's drop (`read_unlock`, fix F1c): cancellation is disabled there, so a
    cancel that arrives while it is parked takes the `b_ignore` path of `Mutex::lock` and the drop always completes -/
def menvD : Env → Mutex.Env
  | .abort | .abortIgnore => .abortIgnore
  | _ => .go
/-- environment of a step of the gate component: `RwLock::lock` has no `b_ignore` loop, every cancel takes the abort path -/
def menvG : Env → Mutex.Env
  | .abort | .abortIgnore => .abort
  | _ => .go

def b2n (b : Bool) : Nat := if b then 1 else 0

/-- does lock() (not try_lock()) run for this call -/
def blocking : Op → Bool
  | .read | .write => true
  | _ => false
def reader : Op → Bool
  | .read | .tryRead => true
  | _ => false

/-- the gate was acquired on behalf of call `o` -/
def acquired (pin : Bool) (sh : Sh) (o : Op) : Sh × Pc :=
  if reader o then
    -- read() and the fixed try_read(): `*r += 1` is next; the pinned try_read() builds the guard first
    if pin && o == .tryRead then ({ sh with grp := true }, .psn o)
    else (sh, .rinc o true)
  else (sh, .psn o)

/-- gate try_lock() reported WouldBlock to a non-blocking call / gate lock() was cancelled -/
def notAcquired (sh : Sh) (me : Nat) (o : Op) : Sh × Pc :=
  match o with
  | .read => (sh, .rul .read 3 (.p0fadd .fin))        -- forget(r); unlock_mutex(&rlock); cancel panic
  | .tryRead => (sh, .rul .tryRead 0 (.p0fadd .fin))  -- drop(r); WouldBlock
  | .write => ({ sh with res := upd sh.res me 3 }, .idle)
  | _ => ({ sh with res := upd sh.res me 0 }, .idle)

/-- `pin = false`: the code with fixes F1a and F1b (the model the theorems are about and the driver replays);
    `pin = true`: the pinned tree. -/
def tstepG (pin : Bool) (sh : Sh) (me : Nat) : Pc → Env → Option (Sh × Pc)
  -- API calls
  | .idle, .read => some (sh, .rlk .read .m0cas)
  | .idle, .tryRead => some (sh, .rlk .tryRead .t0cas)
  | .idle, .write => some (sh, .gld .write)
  | .idle, .tryWrite => some (sh, .gld .tryWrite)
  | .idle, .dropR => if 0 < sh.RG then some ({ sh with RG := sh.RG - 1 }, .rlk .dropR .m0cas) else none
  | .idle, .dropW pan =>
      if 0 < sh.WG then some ({ sh with WG := sh.WG - 1 }, if pan then .wpo else .gul .dropW (.p0fadd .fin)) else none
  | .idle, .isPoisoned => some (sh, .isp)
  | .idle, _ => none
  | .isp, _ => some ({ sh with res := upd sh.res me (b2n sh.poison) }, .idle)
  | .wpo, _ => some ({ sh with poison := true }, .gul .dropW (.p0fadd .fin))
  -- rlock.lock() / rlock.try_lock(): the Mutex component
  | .rlk o p, e =>
      match Mutex.tstep sh.rl me p (if !pin && o == .dropR then menvD e else menvR e) with
      | none => none
      | some (rl', p') =>
        if p' = .held then some ({ sh with rl := rl' }, .rlp o)
        else if p' = .idle then
          -- try_lock lost its CAS (WouldBlock), or lock() was cancelled while parked (cancel panic out of the call).
          -- A read guard's drop is never left like this (fix F1c; `rwlock_drop_always_completes`); on the pinned tree it
          -- was, and the count the guard held was lost (`rwlock_pinned_F1c_drop_cancelled_leaks`).
          if !pin && o == .dropR then none
          else some ({ sh with rl := rl', res := upd sh.res me (if o = .tryRead then 0 else 3) }, .idle)
        else some ({ sh with rl := rl' }, .rlk o p')
  | .rlp o, _ =>
      if o = .dropR then some (sh, .rdec)
      else if reader o then some (sh, .rld o)
      else none                                     -- only read / try_read / read_unlock take rlock
  | .rld o, _ =>
      if reader o then
        if sh.r = 0 then some (sh, .gld o)          -- first reader: take the gate
        else if pin && o == .tryRead then some (sh, .psn o)
        else some (sh, .rinc o false)
      else none
  | .rinc o first, _ =>
      -- the reader group holds the gate from the first reader's count on
      if reader o then
        some ({ sh with r := sh.r + 1, grp := if first then true else sh.grp },
              if pin && o == .tryRead then .rul o 1 (.p0fadd .fin) else .psn o)
      else none
  | .rdec, _ =>
      if sh.r ≤ 0 then none                         -- `*r -= 1` underflows (debug: panic): proved unreachable for pin = false
      else some ({ sh with r := sh.r - 1, grp := if sh.r = 1 then false else sh.grp }, .rck (sh.r = 1))
  | .rck last, _ =>
      -- the code branches on the value it reads; `last` is the ghost knowledge of the decrement: they agree
      -- (`rwlock_last_reader_knows`), the other two combinations are unreachable
      if sh.r = 0 then (if last then some (sh, .gul .dropR (.p0fadd .fin)) else none)
      else (if last then none else some (sh, .rul .dropR 0 (.p0fadd .fin)))
  -- gate try_lock(): load
  | .gld o, _ =>
      if sh.g.cnt = 1 then some (sh, .glk o (if blocking o then .m0cas else .t0cas))
      else if blocking o then
        -- WouldBlock inside lock(): `SyncBlocker::current()`; as in the Mutex model the blocker is allocated by the step
        -- that decides to wait
        match Mutex.tstep sh.g me .m0cas .go with
        | none => none
        | some (g', p') => some ({ sh with g := g' }, .glk o p')
      else some (notAcquired sh me o)
  -- gate lock() / try_lock() from the CAS on: the Mutex component
  | .glk o p, e =>
      if pin && (p == .m0cas || p == .t0cas) && sh.g.cnt != 1 then some (sh, .glp o)    -- pinned: lost CAS -> poison.get()
      else
      match Mutex.tstep sh.g me p (menvG e) with
      | none => none
      | some (g', p') =>
        if p' = .held then some (acquired pin { sh with g := g' } o)
        else if p' = .idle then some (notAcquired { sh with g := g' } me o)
        else some ({ sh with g := g' }, .glk o p')
  -- PINNED ONLY: a lost CAS on a poisoned lock is reported as `Poisoned`, which every caller treats as "acquired"
  | .glp o, _ =>
      if pin then
        if sh.poison then some (acquired pin sh o)
        else if blocking o then
          match Mutex.tstep sh.g me .m0cas .go with
          | none => none
          | some (g', p') => some ({ sh with g := g' }, .glk o p')
        else some (notAcquired sh me o)
      else none
  | .psn o, _ =>
      let v := if sh.poison then 2 else 1
      if reader o then
        if pin && o == .tryRead then
          -- pinned try_read: `let g = RwLockReadGuard::new(self)?; *r += 1;` – the `?` leaves before the count
          if sh.poison then some (sh, .rul o 2 (.p0fadd .fin)) else some (sh, .rinc o false)
        else some (sh, .rul o v (.p0fadd .fin))
      else some ({ sh with WG := sh.WG + 1, res := upd sh.res me v }, .idle)
  -- gate unlock()
  | .gul o p, e =>
      match Mutex.tstep sh.g me p (menvG e) with
      | none => none
      | some (g', p') =>
        if p' = .idle then
          if o = .dropR then some ({ sh with g := g' }, .rul .dropR 0 (.p0fadd .fin))
          else some ({ sh with g := g', res := upd sh.res me 0 }, .idle)
        else some ({ sh with g := g' }, .gul o p')
  -- rlock unlock, then the call returns `v`; a guard is handed out iff v = 1 (Ok) or v = 2 (inside Poisoned)
  | .rul o v p, e =>
      match Mutex.tstep sh.rl me p (menvR e) with
      | none => none
      | some (rl', p') =>
        if p' = .idle then
          some ({ sh with rl := rl', res := upd sh.res me v, RG := if v = 1 ∨ v = 2 then sh.RG + 1 else sh.RG }, .idle)
        else some ({ sh with rl := rl' }, .rul o v p')

/-- the code with the fixes F1a/F1b -/
def tstep (sh : Sh) (me : Nat) (pc : Pc) (e : Env) : Option (Sh × Pc) := tstepG false sh me pc e

structure St where
  n : Nat
  sh : Sh
  pcs : Nat → Pc

def stepG (pin : Bool) (s : St) (t : Nat) (e : Env) : Option St :=
  if t < s.n then
    match tstepG pin s.sh t (s.pcs t) e with
    | none => none
    | some (sh', pc') => some ⟨s.n, sh', upd s.pcs t pc'⟩
  else none

def step (s : St) (t : Nat) (e : Env) : Option St := stepG false s t e

def sh0 : Mutex.Sh := (Mutex.init 0 1).sh

def init (n : Nat) (poisoned : Bool) : St :=
  ⟨n, ⟨sh0, sh0, 0, poisoned, 0, 0, false, fun _ => 0⟩, fun _ => .idle⟩

def runG (pin : Bool) (s : St) : List (Nat × Env) → St
  | [] => s
  | (t, e) :: r => match stepG pin s t e with
    | some s' => runG pin s' r
    | none => runG pin s r

/-- every finite schedule: disabled choices are skipped, so `∀ sched` is every interleaving -/
def run (s : St) (sched : List (Nat × Env)) : St := runG false s sched

end MayVerif.RwLock
