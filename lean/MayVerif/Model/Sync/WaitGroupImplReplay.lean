/-
  Replay machine of the implementation-level WaitGroup model (families `waitgroup`, det and detx), layered on the
  condvar machine like `BarrierImplReplay.lean`: the hooked accesses to the counter under its lock
  (`sync.wait_group.count`: add / sub / load with values) are steps of `WaitGroupImpl.step` and must match its labels;
  every other event of the actor goes to the condvar machine underneath, and the specification steps of the model
  (lock, unlock, `wait` = release + sleep, wake + re-lock, `notify_all`) fire with the matching change of that machine.
  API boundary: `call`/`ret` of `wg.clone`, `wg.drop`, `wg.wait`. The initial handles are distributed by running the model
  itself (actor 0 clones, everybody takes its handles, actor 0 drops the original), so every replayed state is a
  `run (init n) sched`.
-/
import MayVerif.Core.Trace
import MayVerif.Model.Sync.WaitGroupImpl
import MayVerif.Model.Sync.CvClient
namespace MayVerif.WaitGroupImpl
open MayVerif
open MayVerif.CvClient

def wgI : Option (String × Nat) := some ("wg", 0)

def label (sh : Sh) : Pc → Label
  | .c1add _ => { obj := "sync.wait_group.count", inst := wgI, op := "add", a1 := .num 1, res := .num sh.count }
  | .d1sub .. => { obj := "sync.wait_group.count", inst := wgI, op := "sub", a1 := .num 1, res := .num sh.count }
  | .d2cmp .. | .g1cmp _ | .w1cmp _ => { obj := "sync.wait_group.count", inst := wgI, op := "load", res := .num sh.count }
  | _ => { kind := "spec", op := "-" }

def kName : K → String | .user => "" | .early => "(early)" | .self => "(self)"
def pcName : Pc → String
  | .idle _ => "idle" | .c0lock _ => "c0lock" | .c1add _ => "c1add" | .c2unlock _ => "c2unlock" | .cdone _ => "cdone"
  | .d0lock _ k => "d0lock" ++ kName k | .d1sub _ k => "d1sub" ++ kName k | .d2cmp _ k => "d2cmp" ++ kName k
  | .d3notify _ k => "d3notify" ++ kName k | .d4unlock _ k => "d4unlock" ++ kName k | .ddone _ => "ddone"
  | .g0lock _ => "g0lock" | .g1cmp _ => "g1cmp" | .g2unlock .. => "g2unlock"
  | .w0lock _ => "w0lock" | .w1cmp _ => "w1cmp" | .w2wait _ => "w2wait" | .wsleep .. => "wsleep" | .wwake _ => "wwake"
  | .w3unlock _ => "w3unlock" | .gdone _ => "gdone"

def transName (sh : Sh) (pc : Pc) : String :=
  pcName pc ++ match pc with
    | .d2cmp .. => if sh.count == 0 then "/last" else "/more"
    | .g1cmp _ => if sh.count == 1 then "/only" else "/others"
    | .w1cmp _ => if 0 < sh.count then "/sleep" else "/zero"
    | _ => ""

structure LSt where
  b : St
  c : Condvar.PSt
  err : Option String := none

def isStateObj (ev : Event) : Bool := ev.kind == "a" && ev.obj.startsWith "sync.wait_group."
def wantsLock : Pc → Bool | .c0lock _ | .d0lock .. | .g0lock _ | .w0lock _ => true | _ => false
def isUnlock : Pc → Bool | .c2unlock _ | .d4unlock .. | .g2unlock .. | .w3unlock _ => true | _ => false
def isState : Pc → Bool | .c1add _ | .d1sub .. | .d2cmp .. | .g1cmp _ | .w1cmp _ => true | _ => false

/-- fire the specification steps of the model that the change of the condvar machine (`c` → `c'`) implies -/
def sync (b : St) (c c' : Condvar.PSt) (t : Nat) : Option (St × Condvar.PSt × String) :=
  let holdsNow := heldQuiet c' t
  let bpc := b.pcs t
  if wantsLock bpc then
    if holdsNow then
      (step b t .go).bind fun b' =>
        -- the loop `while *count > 0 { count = cvar.wait(count) }` is a wait_while for the condvar machine
        let ms := match bpc with | .w0lock _ => [("ret", "mutex.lock"), ("call", "cv.wait_while")] | _ => [("ret", "mutex.lock")]
        (feeds c' t ms).map fun c2 => (b', c2, "+" ++ pcName bpc)
    else some (b, c', "")
  else match bpc with
  | .w2wait _ =>
      if !Condvar.holdsM (c'.cv.pcs t) then (step b t .go).map fun b' => (b', c', "+w2wait") else some (b, c', "")
  | .wsleep _ e =>
      if holdsNow then
        let wake := if e < b.sh.nall then Env.go else Env.spurious
        ((step b t wake).bind fun b1 => step b1 t .go).map fun b' => (b', c', if e < b.sh.nall then "+wsleep/notified+wwake" else "+wsleep/spurious+wwake")
      else some (b, c', "")
  | .d3notify .. =>
      if holdsNow && c.cv.pcs t != .held then
        (step b t .go).bind fun b' => (feed c' t "ret" "cv.notify_all").map fun c2 => (b', c2, "+" ++ pcName bpc)
      else some (b, c', "")
  | _ => some (b, c', "")

def cands (s : LSt) (t : Nat) (ev : Event) : List (Label × LSt × String) :=
  let bpc := s.b.pcs t
  let pass (c0 : Condvar.PSt) (b0 : St) (pre : String) : List (Label × LSt × String) :=
    (Condvar.cands c0 t ev).filterMap fun (l, c', nm) =>
      (sync b0 c0 c' t).map fun (b', c2, sfx) => (l, { s with b := b', c := c2 }, pre ++ nm ++ sfx)
  let api (e : Env) (nm : String) : List (Label × LSt × String) :=
    match step s.b t e with
    | some b' => [({ kind := ev.kind, op := ev.op }, { s with b := b' }, nm)]
    | none => []
  if ev.kind == "call" then
    if !outQuiet s.c t then [] else
    match ev.op, bpc with
    | "wg.clone", .idle _ => api .clone "call:clone"
    | "wg.drop", .idle _ => api .drop "call:drop"
    | "wg.wait", .idle _ => api .wait "call:wait"
    | _, _ => []
  else if ev.kind == "ret" then
    if !outQuiet s.c t then [({ kind := "ret", op := s!"<none: the model is at {pcName bpc} and the mutex is not released>" }, s, "")] else
    match ev.op, bpc with
    | "wg.clone", .cdone _ =>
        -- the scenario keeps the new handle: it is taken from the pool at once
        (match (step s.b t .ret).bind fun b1 => step b1 t .take with
         | some b' => [({ kind := "ret", op := "wg.clone" }, { s with b := b' }, "ret:clone")]
         | none => [])
    | "wg.drop", .ddone _ => api .ret "ret:drop"
    | "wg.wait", .gdone _ => api .ret "ret:wait"
    | _, _ => [({ kind := "ret", op := s!"<none: the model's call is at {pcName bpc}, count = {s.b.sh.count}>" }, s, "")]
  else if isStateObj ev then
    if !heldQuiet s.c t then [({ kind := "spec", op := s!"<none: access to the counter at {pcName bpc} without holding the mutex>" }, s, "")]
    else if isState bpc then
      (match step s.b t .go with
       | none => []
       | some b' =>
           let c' : Option Condvar.PSt := match bpc, b'.pcs t with
             | .w1cmp _, .w3unlock _ => feed s.c t "ret" "cv.wait_while"
             | _, _ => some s.c
           match c' with
           | some c' => [(label s.b.sh bpc, { s with b := b', c := c' }, transName s.b.sh bpc)]
           | none => [])
    else [({ kind := "spec", op := s!"<none: no access to the counter at {pcName bpc}>" }, s, "")]
  else
    -- an event of the mutex / condvar / a blocker
    if wantsLock bpc && outQuiet s.c t then
      match feed s.c t "call" "mutex.lock" with
      | some c0 => pass c0 s.b ""
      | none => []
    else if isUnlock bpc then
      -- a guard is dropped: `unlock` without a marker; the model's unlock fires with its first event
      (match step s.b t .go, feed s.c t "call" "mutex.unlock" with
       | some b', some c0 => pass c0 b' (pcName bpc ++ "+")
       | _, _ => [])
    else if isState bpc then
      (pass s.c s.b "").map fun (l, _, _) => ({ l with op := l.op ++ s!" <but the model expects: {(label s.b.sh bpc).str}>", kind := "spec" }, s, "")
    else match bpc with
    | .d3notify .. =>
        if heldQuiet s.c t then
          match feed s.c t "call" "cv.notify_all" with
          | some c0 => pass c0 s.b ""
          | none => []
        else pass s.c s.b ""
    | _ => pass s.c s.b ""

def inv (s : LSt) : Option String :=
  match s.err with
  | some e => some e
  | none => match Condvar.inv s.c with
    | some e => some e
    | none =>
      if s.b.sh.locked != s.c.cv.sh.locked then some "the waitgroup model's mutex bit differs from the condvar machine's"
      else if (List.range s.b.n).any (fun t => match s.b.pcs t with | .gdone _ => s.b.sh.count != 0 | _ => false) then some "a wait is returning while count > 0"
      else if s.b.sh.count != (List.range s.b.n).foldl (fun a t => a + wt (s.b.pcs t)) 0 + s.b.sh.pool then some "count differs from the number of live handles"
      else none

/-- the model run that distributes the initial handles (clone = call, lock, add, unlock, return) -/
def prefixSched (hs : List Nat) : List (Nat × Env) :=
  let total := hs.foldl (· + ·) 0
  ((List.replicate total [(0, Env.clone), (0, Env.go), (0, Env.go), (0, Env.go), (0, Env.ret)]).flatten) ++
  ((List.range hs.length).flatMap fun t => List.replicate (hs.getD t 0) (t, Env.take)) ++
  [(0, Env.drop), (0, Env.go), (0, Env.go), (0, Env.go), (0, Env.go), (0, Env.ret)]

def machine : Machine where
  St := LSt
  init := fun h => match hnat h "actors", hget h "handles" with
    | some n, some hs =>
        let l := (hs.splitOn ",").map (fun x => x.toNat?.getD 0)
        .ok { b := run (init n) (prefixSched l), c := { cv := Condvar.init n, mx := Mutex.init n 1 } }
    | _, _ => .error "waitgroup scenario without actors= / handles="
  actor := fun s a => if a.startsWith "t" then ((a.drop 1).toString.toNat?).bind (fun t => if t < s.b.n then some t else none) else none
  cands := cands
  inv := inv
  where_ := fun s t => s!"wg:{pcName (s.b.pcs t)} count={s.b.sh.count} {Condvar.machine.where_ s.c t}"
  atEnd := fun s =>
    if (List.range s.b.n).all (fun t => s.b.pcs t == .idle 0) && s.b.sh.count == 0 && s.b.sh.pool == 0 then Condvar.machine.atEnd s.c
    else some s!"handles left at the end of a finished run (count={s.b.sh.count})"
  skip := fun e => e.kind == "note" || e.obj.startsWith "?."

end MayVerif.WaitGroupImpl
