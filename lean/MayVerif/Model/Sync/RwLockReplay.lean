/-
  Observable labels of the RwLock model and its replay machine (families `rwlock`, `rwlock_reg`): the driver executes
  the very `step` function of `Model/Sync/RwLock.lean` on implementation traces.

  Steps of the two Mutex components re-use the labels of `MutexReplay.lean`, renamed to the objects they act on:
  the gate is `sync.rwlock.cnt` / `sync.rwlock.to_wake` with blockers in namespace `blk`, rlock is
  `sync.mutex.cnt` / `sync.mutex.to_wake` with blockers in namespace `rblk`.
-/
import MayVerif.Core.Trace
import MayVerif.Model.Sync.MutexReplay
import MayVerif.Model.Sync.RwLock
namespace MayVerif.RwLock
open MayVerif

def rw : Option (String × Nat) := some ("rwlock", 0)
def pflag : Option (String × Nat) := some ("poison", 0)     -- RwLock.poison
def rpflag : Option (String × Nat) := some ("poison", 1)    -- rlock.poison
def rcnt : Option (String × Nat) := some ("rcnt", 0)       -- *rlock, the reader count (verif::Counted)
def b2i (b : Bool) : Int := if b then 1 else 0

def reArg (gate : Bool) : LArg → LArg
  | .id "blk" b => .id (if gate then "blk" else "rblk") b
  | a => a

/-- a Mutex label, renamed to the component it belongs to -/
def relabel (gate : Bool) (l : Label) : Label :=
  let obj := if gate then
      (if l.obj == "sync.mutex.cnt" then "sync.rwlock.cnt" else if l.obj == "sync.mutex.to_wake" then "sync.rwlock.to_wake" else l.obj)
    else l.obj
  let inst := match l.inst with
    | some ("mutex", _) => if gate then rw else some ("mutex", 0)
    | some ("blk", b) => some (if gate then "blk" else "rblk", b)
    | i => i
  { l with obj := obj, inst := inst, a1 := reArg gate l.a1, a2 := reArg gate l.a2, res := reArg gate l.res }

def opName : Env → String
  | .read => "rwlock.read" | .tryRead => "rwlock.try_read" | .write => "rwlock.write" | .tryWrite => "rwlock.try_write"
  | .dropR => "rwlock.drop_r" | .dropW _ => "rwlock.drop_w" | .isPoisoned => "rwlock.is_poisoned" | _ => "-"

/-- the observable of the step `tstep sh me pc e` -/
def label (sh : Sh) (pc : Pc) (e : Env) : Label :=
  match pc, e with
  | .idle, .dropW pan => { kind := "call", op := "rwlock.drop_w", a1 := .num (b2i pan) }
  | .idle, e => { kind := "call", op := opName e }
  | .rlk .dropR p, e => relabel false (Mutex.label sh.rl p (menvD e))
  | .rlk _ p, e | .rul _ _ p, e => relabel false (Mutex.label sh.rl p (menvR e))
  | .glk _ p, e | .gul _ p, e => relabel true (Mutex.label sh.g p (menvG e))
  | .rlp _, _ => { obj := "sync.poison.failed", inst := rpflag, op := "load", res := .num 0, ord := "Relaxed" }
  | .rld _, _ | .rck _, _ => { obj := "sync.rwlock.rlock", inst := rcnt, op := "load", res := .num sh.r }
  | .rinc _ _, _ => { obj := "sync.rwlock.rlock", inst := rcnt, op := "add", a1 := .num 1, res := .num sh.r }
  | .rdec, _ => { obj := "sync.rwlock.rlock", inst := rcnt, op := "sub", a1 := .num 1, res := .num sh.r }
  | .gld _, _ => { obj := "sync.rwlock.cnt", inst := rw, op := "load", res := .num (1 - sh.g.cnt), ord := "SeqCst" }
  | .glp _, _ | .psn _, _ | .isp, _ =>
      { obj := "sync.poison.failed", inst := pflag, op := "load", res := .num (b2i sh.poison), ord := "Relaxed" }
  | .wpo, _ => { obj := "sync.poison.failed", inst := pflag, op := "store", a1 := .num 1, ord := "Relaxed" }

def opStr : Op → String
  | .read => "read" | .tryRead => "try_read" | .write => "write" | .tryWrite => "try_write" | .dropR => "drop_r" | .dropW => "drop_w"

def pcName : Pc → String
  | .idle => "idle"
  | .rlk o p => s!"{opStr o}:rlock.lock:{Mutex.pcName p}"
  | .rlp o => s!"{opStr o}:rlock.poison"
  | .rld o => s!"{opStr o}:r.load"
  | .rinc o _ => s!"{opStr o}:r.add"
  | .rdec => "drop_r:r.sub"
  | .rck _ => "drop_r:r.load"
  | .gld o => s!"{opStr o}:gate.load"
  | .glk o p => s!"{opStr o}:gate.lock:{Mutex.pcName p}"
  | .glp o => s!"{opStr o}:gate.poison(pinned)"
  | .psn o => s!"{opStr o}:poison"
  | .gul o p => s!"{opStr o}:gate.unlock:{Mutex.pcName p}"
  | .rul o _ p => s!"{opStr o}:rlock.unlock:{Mutex.pcName p}"
  | .wpo => "drop_w:poison.store"
  | .isp => "is_poisoned:load"

def envsFor : Pc → List Env
  | .idle => [.read, .tryRead, .write, .tryWrite, .dropR, .dropW false, .dropW true, .isPoisoned]
  | .rlk .dropR (.w5park _) => [.go, .abort]
  | .rlk _ (.w5park _) => [.go, .abort, .abortIgnore]
  | .glk _ (.w5park _) => [.go, .abort]
  | _ => [.go]

/-- transition name for coverage: program point plus the branch taken -/
def transName (sh : Sh) (pc : Pc) (e : Env) : String :=
  let br := match pc, e with
    | .idle, e => "/" ++ opName e
    | .rlk .dropR p, e => "/" ++ Mutex.transName sh.rl p (menvD e)
    | .rlk _ p, e | .rul _ _ p, e => "/" ++ Mutex.transName sh.rl p (menvR e)
    | .glk _ p, e | .gul _ p, e => "/" ++ Mutex.transName sh.g p (menvG e)
    | .rld _, _ => if sh.r = 0 then "/first" else "/more"
    | .rinc _ f, _ => if f then "/first" else "/more"
    | .rck _, _ => if sh.r = 0 then "/last" else "/more"
    | .gld _, _ => if sh.g.cnt = 1 then "/free" else "/busy"
    | .psn _, _ | .isp, _ => if sh.poison then "/poisoned" else "/clean"
    | _, _ => ""
  (match pc with
    | .idle => "idle"
    | .rlk o _ => opStr o ++ ":rlock.lock" | .rlp o => opStr o ++ ":rlock.poison" | .gld o => opStr o ++ ":gate.load"
    | .rld o => opStr o ++ ":r.load" | .rinc o _ => opStr o ++ ":r.add" | .rdec => "drop_r:r.sub" | .rck _ => "drop_r:r.load"
    | .glk o _ => opStr o ++ ":gate.lock" | .glp o => opStr o ++ ":gate.poison" | .psn o => opStr o ++ ":poison"
    | .gul o _ => opStr o ++ ":gate.unlock" | .rul o _ _ => opStr o ++ ":rlock.unlock"
    | .wpo => "drop_w:poison.store" | .isp => "is_poisoned") ++ br

/-- actors inside an rlock critical section (they may touch `*r`) -/
def inRl : Pc → Bool
  | .rlp _ | .rld _ | .rinc _ _ | .rdec | .rck _ | .rul _ _ (.p0fadd _) => true
  | .gld o | .glk o _ | .psn o => reader o
  | .gul o _ => o == .dropR
  | _ => false
def rlHolders (s : St) : Nat := (List.range s.n).countP fun t => inRl (s.pcs t)

def cands (s : St) (t : Nat) (ev : Event) : List (Label × St × String) :=
  let pc := s.pcs t
  -- API returns and park entry are observations of the state, not steps
  if ev.kind == "ret" then
    let ok : Bool := pc == .idle && (match ev.a1 with | .num v => v == (s.sh.res t : Int) | _ => false)
    if ok then [({ kind := "ret", op := ev.op }, s, "ret")] else []
  else if ev.kind == "blk" && ev.op == "park_enter" then
    match pc with
    | .glk _ (.w5park b) => [({ kind := "blk", obj := "tp", inst := some ("blk", b), op := "park_enter" }, s, "park_enter")]
    | .rlk _ (.w5park b) => [({ kind := "blk", obj := "tp", inst := some ("rblk", b), op := "park_enter" }, s, "park_enter")]
    | _ => []
  else
    (envsFor pc).filterMap fun e =>
      match step s t e with
      | some s' => some (label s.sh pc e, s', transName s.sh pc e)
      | none => none

/-- executable check of the headline invariants on the replayed state (the proofs are about all states; this guards
    the replay itself and would expose a model/driver mismatch) -/
def invCheck (s : St) : Option String :=
  if s.sh.WG > 1 then some "two write guards"
  else if s.sh.WG > 0 && (s.sh.RG > 0 || s.sh.r != 0) then some "write guard together with readers"
  else if s.sh.r < 0 then some "reader count underflow"
  else if s.sh.grp != decide (0 < s.sh.r) then some "reader group / reader count mismatch"
  else if rlHolders s > 1 then some "two actors inside rlock"
  else if s.sh.g.dup || s.sh.rl.dup then some "double re-post"
  else none

/-- replay state: the model state plus the mode of the trace. In LIVE traces (`live=1` in the scenario header; family
    `rwlock_live`: coroutines and threads on the real runtime) the blockers' own park / unpark operations produce no
    events (`Park` is filtered out, `ThreadPark` is real), so `wake1` (blocker.unpark), the return of `park` and the
    cancellation of a parked coroutine (`Env.abort`: `park` returned `Err(Canceled)`) are SILENT model steps: when the
    actor's next event does not match at such a pc, the machine takes the silent step first and then matches
    (as in `MutexReplay.lean`). -/
structure RSt where
  st : St
  live : Bool

/-- the Mutex sub-pc of actor `u` in the gate (`gate = true`) resp. rlock component, if it is inside one -/
def subPc (gate : Bool) : Pc → Option Mutex.Pc
  | .glk _ p | .gul _ p => if gate then some p else none
  | .rlk _ p | .rul _ _ p => if gate then none else some p
  | _ => none

/-- the silent steps available to actor `t` (live mode only): successor state and the name of the step -/
def silent (s : St) (t : Nat) : List (St × String) :=
  let wake1Of (gate : Bool) (b : Nat) : Option Nat :=
    (List.range s.n).find? fun u => match subPc gate (s.pcs u) with | some (.wake1 w _) => w == b | _ => false
  let parked (gate : Bool) (b : Nat) (tok : Bool) : List (St × String) :=
    -- the waker's `blocker.unpark()` is silent too: if the token is not there yet, the actor that popped `b` delivers it first
    let woken : Option St :=
      if tok then step s t .go
      else (wake1Of gate b).bind fun u => (step s u .go).bind fun s1 => step s1 t .go
    (match woken with | some s' => [(s', "w5park/woken~")] | none => []) ++
    (match step s t .abort with | some s' => [(s', "w5park/abort~")] | none => [])
  match s.pcs t with
  | .glk _ (.wake1 _ _) | .gul _ (.wake1 _ _) | .rlk _ (.wake1 _ _) | .rul _ _ (.wake1 _ _) =>
      (match step s t .go with | some s' => [(s', "wake1~")] | none => [])
  | .glk _ (.w5park b) => parked true b (s.sh.g.tok b)
  | .rlk _ (.w5park b) => parked false b (s.sh.rl.tok b)
  | _ => []

def candsR (r : RSt) (t : Nat) (ev : Event) : List (Label × RSt × String) :=
  let direct := (cands r.st t ev).map fun (l, s', nm) => (l, { r with st := s' }, nm)
  if !r.live then direct
  else
    direct ++ (silent r.st t).flatMap fun (s1, nm1) =>
      (cands s1 t ev).map fun (l, s', nm) => (l, { r with st := s' }, nm1 ++ "+" ++ nm)

/-- trace actor ↦ model actor: threads `t<k>`; in live traces also coroutines named `c<k>` (`c:c<k>`), one index space,
    and `main` (the scenario's own thread: final probes) as the last actor -/
def actorOf (r : RSt) (a : String) : Option Nat :=
  let idx : Option Nat :=
    if a.startsWith "t" then (a.drop 1).toString.toNat?
    else if r.live && a.startsWith "c:c" then (a.drop 3).toString.toNat?
    else if r.live && a == "main" then some (r.st.n - 1)
    else none
  idx.bind fun t => if t < r.st.n then some t else none

def machine : Machine where
  St := RSt
  init := fun h => match hnat h "actors" with
    | some n => .ok { st := init n ((hnat h "poisoned").getD 0 != 0), live := hget h "live" == some "1" }
    | none => .error "rwlock scenario without actors="
  actor := actorOf
  cands := candsR
  inv := fun r => invCheck r.st
  where_ := fun r t => pcName (r.st.pcs t)
  atEnd := fun r => let s := r.st
    if (List.range s.n).all (fun t => s.pcs t == .idle) then
      (if s.sh.RG == 0 && s.sh.WG == 0 then
        (if s.sh.r == 0 && s.sh.g.cnt == 1 && s.sh.g.q.isEmpty && s.sh.rl.cnt == 1 && s.sh.rl.q.isEmpty then none
         else some s!"all guards dropped but r={s.sh.r} gate.cnt={s.sh.g.cnt} |gate.q|={s.sh.g.q.length} rlock.cnt={s.sh.rl.cnt}")
       else none)
    else some "not every actor is idle at the end of a finished run"
  skip := fun e => e.kind == "note"

end MayVerif.RwLock
