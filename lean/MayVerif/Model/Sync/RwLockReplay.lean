/-
  Observable labels of the RwLock model and its replay machine (families `rwlock`, `rwlock_reg`): the driver executes
  the very `step` function of `Model/Sync/RwLock.lean` on implementation traces.

  Steps of the two Mutex components re-use the labels of `MutexReplay.lean`, renamed to the objects they act on:
  the gate is `sync.rwlock.cnt` / `sync.rwlock.to_wake` with blockers in namespace `blk`, rlock is
  `sync.mutex.cnt` / `sync.mutex.to_wake` with blockers in namespace `rblk`.
-/
import MayVerif.Core.Trace
import MayVerif.Model.Sync.MutexReplay
import MayVerif.Model.Sync.RwLock
namespace MayVerif.RwLock
open MayVerif

def rw : Option (String × Nat) := some ("rwlock", 0)
def pflag : Option (String × Nat) := some ("poison", 0)     -- RwLock.poison
def rpflag : Option (String × Nat) := some ("poison", 1)    -- rlock.poison
def b2i (b : Bool) : Int := if b then 1 else 0

def reArg (gate : Bool) : LArg → LArg
  | .id "blk" b => .id (if gate then "blk" else "rblk") b
  | a => a

/-- a Mutex label, renamed to the component it belongs to -/
def relabel (gate : Bool) (l : Label) : Label :=
  let obj := if gate then
      (if l.obj == "sync.mutex.cnt" then "sync.rwlock.cnt" else if l.obj == "sync.mutex.to_wake" then "sync.rwlock.to_wake" else l.obj)
    else l.obj
  let inst := match l.inst with
    | some ("mutex", _) => if gate then rw else some ("mutex", 0)
    | some ("blk", b) => some (if gate then "blk" else "rblk", b)
    | i => i
  { l with obj := obj, inst := inst, a1 := reArg gate l.a1, a2 := reArg gate l.a2, res := reArg gate l.res }

def opName : Env → String
  | .read => "rwlock.read" | .tryRead => "rwlock.try_read" | .write => "rwlock.write" | .tryWrite => "rwlock.try_write"
  | .dropR => "rwlock.drop_r" | .dropW _ => "rwlock.drop_w" | .isPoisoned => "rwlock.is_poisoned" | _ => "-"

/-- the observable of the step `tstep sh me pc e` -/
def label (sh : Sh) (pc : Pc) (e : Env) : Label :=
  match pc, e with
  | .idle, .dropW pan => { kind := "call", op := "rwlock.drop_w", a1 := .num (b2i pan) }
  | .idle, e => { kind := "call", op := opName e }
  | .rlk _ p, e | .rul _ _ p, e => relabel false (Mutex.label sh.rl p (menvR e))
  | .glk _ p, e | .gul _ p, e => relabel true (Mutex.label sh.g p (menvG e))
  | .rlp _, _ => { obj := "sync.poison.failed", inst := rpflag, op := "load", res := .num 0, ord := "Relaxed" }
  | .gld _, _ => { obj := "sync.rwlock.cnt", inst := rw, op := "load", res := .num (1 - sh.g.cnt), ord := "SeqCst" }
  | .glp _, _ | .psn _, _ | .isp, _ =>
      { obj := "sync.poison.failed", inst := pflag, op := "load", res := .num (b2i sh.poison), ord := "Relaxed" }
  | .wpo, _ => { obj := "sync.poison.failed", inst := pflag, op := "store", a1 := .num 1, ord := "Relaxed" }

def opStr : Op → String
  | .read => "read" | .tryRead => "try_read" | .write => "write" | .tryWrite => "try_write" | .dropR => "drop_r" | .dropW => "drop_w"

def pcName : Pc → String
  | .idle => "idle"
  | .rlk o p => s!"{opStr o}:rlock.lock:{Mutex.pcName p}"
  | .rlp o => s!"{opStr o}:rlock.poison"
  | .gld o => s!"{opStr o}:gate.load"
  | .glk o p => s!"{opStr o}:gate.lock:{Mutex.pcName p}"
  | .glp o => s!"{opStr o}:gate.poison(pinned)"
  | .psn o => s!"{opStr o}:poison"
  | .gul o p => s!"{opStr o}:gate.unlock:{Mutex.pcName p}"
  | .rul o _ p => s!"{opStr o}:rlock.unlock:{Mutex.pcName p}"
  | .wpo => "drop_w:poison.store"
  | .isp => "is_poisoned:load"

def envsFor : Pc → List Env
  | .idle => [.read, .tryRead, .write, .tryWrite, .dropR, .dropW false, .dropW true, .isPoisoned]
  | .rlk _ (.w5park _) => [.go, .abort, .abortIgnore]
  | .glk _ (.w5park _) => [.go, .abort]
  | _ => [.go]

/-- transition name for coverage: program point plus the branch taken -/
def transName (sh : Sh) (pc : Pc) (e : Env) : String :=
  let br := match pc, e with
    | .idle, e => "/" ++ opName e
    | .rlk _ p, e | .rul _ _ p, e => "/" ++ Mutex.transName sh.rl p (menvR e)
    | .glk _ p, e | .gul _ p, e => "/" ++ Mutex.transName sh.g p (menvG e)
    | .rlp .dropR, _ => if sh.r = 1 then "/last" else "/more"
    | .rlp _, _ => if sh.r = 0 then "/first" else "/more"
    | .gld _, _ => if sh.g.cnt = 1 then "/free" else "/busy"
    | .psn _, _ | .isp, _ => if sh.poison then "/poisoned" else "/clean"
    | _, _ => ""
  (match pc with
    | .idle => "idle"
    | .rlk o _ => opStr o ++ ":rlock.lock" | .rlp o => opStr o ++ ":rlock.poison" | .gld o => opStr o ++ ":gate.load"
    | .glk o _ => opStr o ++ ":gate.lock" | .glp o => opStr o ++ ":gate.poison" | .psn o => opStr o ++ ":poison"
    | .gul o _ => opStr o ++ ":gate.unlock" | .rul o _ _ => opStr o ++ ":rlock.unlock"
    | .wpo => "drop_w:poison.store" | .isp => "is_poisoned") ++ br

/-- actors inside an rlock critical section (they may touch `*r`) -/
def inRl : Pc → Bool
  | .rlp _ | .rul _ _ (.p0fadd _) => true
  | .gld o | .glk o _ | .psn o => reader o
  | .gul o _ => o == .dropR
  | _ => false
def rlHolders (s : St) : Nat := (List.range s.n).countP fun t => inRl (s.pcs t)

def cands (s : St) (t : Nat) (ev : Event) : List (Label × St × String) :=
  let pc := s.pcs t
  -- API returns and park entry are observations of the state, not steps
  if ev.kind == "ret" then
    let ok : Bool := pc == .idle && (match ev.a1 with | .num v => v == (s.sh.res t : Int) | _ => false)
    if ok then [({ kind := "ret", op := ev.op }, s, "ret")] else []
  else if ev.kind == "blk" && ev.op == "park_enter" then
    match pc with
    | .glk _ (.w5park b) => [({ kind := "blk", obj := "tp", inst := some ("blk", b), op := "park_enter" }, s, "park_enter")]
    | .rlk _ (.w5park b) => [({ kind := "blk", obj := "tp", inst := some ("rblk", b), op := "park_enter" }, s, "park_enter")]
    | _ => []
  else
    (envsFor pc).filterMap fun e =>
      match step s t e with
      | some s' => some (label s.sh pc e, s', transName s.sh pc e)
      | none => none

/-- executable check of the headline invariants on the replayed state (the proofs are about all states; this guards
    the replay itself and would expose a model/driver mismatch) -/
def invCheck (s : St) : Option String :=
  if s.sh.WG > 1 then some "two write guards"
  else if s.sh.WG > 0 && (s.sh.RG > 0 || s.sh.r != 0) then some "write guard together with readers"
  else if s.sh.r < 0 then some "reader count underflow"
  else if s.sh.grp != decide (0 < s.sh.r) then some "reader group / reader count mismatch"
  else if rlHolders s > 1 then some "two actors inside rlock"
  else if s.sh.g.dup || s.sh.rl.dup then some "double re-post"
  else none

def machine : Machine where
  St := St
  init := fun h => match hnat h "actors" with
    | some n => .ok (init n ((hnat h "poisoned").getD 0 != 0))
    | none => .error "rwlock scenario without actors="
  actor := fun s a => if a.startsWith "t" then ((a.drop 1).toString.toNat?).bind (fun t => if t < s.n then some t else none) else none
  cands := cands
  inv := invCheck
  where_ := fun s t => pcName (s.pcs t)
  atEnd := fun s =>
    if (List.range s.n).all (fun t => s.pcs t == .idle) then
      (if s.sh.RG == 0 && s.sh.WG == 0 then
        (if s.sh.r == 0 && s.sh.g.cnt == 1 && s.sh.g.q.isEmpty && s.sh.rl.cnt == 1 && s.sh.rl.q.isEmpty then none
         else some s!"all guards dropped but r={s.sh.r} gate.cnt={s.sh.g.cnt} |gate.q|={s.sh.g.q.length} rlock.cnt={s.sh.rl.cnt}")
       else none)
    else some "not every actor is idle at the end of a finished run"
  skip := fun e => e.kind == "note"

end MayVerif.RwLock
