/-
  Model of coroutine-local storage (src/local.rs, `spawn_impl` / `Done::drop_coroutine` in src/coroutine_impl.rs,
  src/pool.rs) and of the life cycle of the generator's `para` slot (src/yield_now.rs, cancel.rs, park.rs, sleep.rs,
  sync/fast_blocking.rs, cqueue.rs, scheduler.rs).

  * CLS: `spawn_impl` attaches a new, empty `CoroutineLocal` (and a new `Coroutine` handle with a new `Cancel`) to
    the generator – pooled or new –; `LocalKey::with` = lookup-or-init in the current coroutine's map, or in the
    thread's `LOCALMAP` in thread context; the map hangs off the generator, not the worker (`migrate` changes nothing
    else); `drop_coroutine` frees the `CoroutineLocal` (every value dropped with it) and may put the generator back
    into the FIFO pool. `init_code` does not clear `para`: a pooled generator keeps what was left in it.
  * `para` table – who sets, who consumes (`yield_with(resource)` with the `EventSource`s of the crate):

        setter                          | when
        yield_with shortcut             | the cancel bit is set before the switch-out: para := Canceled, no switch
        CancelImpl::cancel              | takes the parked coroutine out of its registered slot: para := Canceled
        timer (scheduler.rs:58)         | takes it out of the timer entry: para := TimedOut

        EventSource      | yield_back                      | consumer after yield_with
        Park (check)     | check_cancel: get_co_para+panic | park_timeout: get_co_para → Timeout / Canceled
        Park (ignore)    | nothing                         | park_timeout: get_co_para
        Sleep            | check_cancel                    | sleep: get_co_para
        fast Park        | check_cancel                    | park: get_co_para
        Yield            | check_cancel                    | –  (nobody sets para for it except the shortcut)
        io (socket ops)  | nothing (clear_cancel_bit)      | co_io_result: get_co_para → io::Error (TimedOut / Canceled)
        EventSender      | NOTHING ("ignore the cancel")   | –  ⇒ the shortcut's Canceled survives: defect F8
                         |                                 |    (fixed: `send` does not use the shortcut)

        while UNWINDING (`thread::panicking()`): a `Drop` impl on the coroutine's stack may call these APIs again.
        `check_cancel` then does NOT raise a second panic, but it still runs `get_co_para()` BEFORE the panicking
        test – that is the code's rule (`Cfg.clr`), and the only consumer for
        yield_with shortcut while unwinding, EventSource = Yield (a `Drop` that calls `yield_now()`):
                         | check_cancel: get_co_para, no panic | –
        (Sleep / Park in a `Drop` also have their own consumer after `yield_with`.)

  One step per line of that table; `Cfg.f8` switches the fix of F8 (main model: `fixed`), `Cfg.clr = false` is the
  seeded change C15_a (`get_co_para` moved inside `if !thread::panicking()`).
-/
namespace MayVerif.Local

notation "Cid" => Nat
notation "Gid" => Nat
notation "Key" => Nat
notation "Val" => Nat

@[grind] def upd {α : Type} (f : Nat → α) (t : Nat) (v : α) : Nat → α := fun u => if u = t then v else f u
@[grind] def upd2 {α : Type} (f : Nat → Nat → α) (a b : Nat) (v : α) : Nat → Nat → α := fun x y => if x = a ∧ y = b then v else f x y
@[grind] def clr {α : Type} (f : Nat → Nat → Option α) (a : Nat) : Nat → Nat → Option α := fun x y => if x = a then none else f x y

structure Cfg where
  f8 : Bool       -- EventSender::send does not take the user-space cancel shortcut
  clr : Bool      -- check_cancel clears `para` before it looks at thread::panicking()
  early : Bool    -- (seeded change C15_b) park_timeout returns Ok as soon as it finds the unpark token, without get_co_para
  deriving DecidableEq, Repr
def fixed : Cfg := ⟨true, true, false⟩
def pinned : Cfg := ⟨false, true, false⟩
/-- the seeded change C15_a: `get_co_para()` only inside `if !thread::panicking()` -/
def seededC15a : Cfg := ⟨true, false, false⟩
/-- the seeded change C15_b: `park_timeout` skips `get_co_para()` when `check_park()` found the token -/
def seededC15b : Cfg := ⟨true, true, true⟩

inductive Para | canceled | timedOut
  deriving DecidableEq, Repr

inductive Api | park (ignoreCancel : Bool) | sleep | fastPark | yieldNow | send | io
  deriving DecidableEq, Repr

inductive Wake | unpark | timer | cancel
  deriving DecidableEq, Repr

inductive Pc
  | idle | run | sendChk
  -- `u = true`: the call is made by a `Drop` impl while the coroutine unwinds (it returns to `unwinding`)
  | yielding (u : Bool) (a : Api) | shortcut (u : Bool) (a : Api) | parked (u : Bool) (a : Api)
  | resumed (u : Bool) (a : Api) | post (u : Bool) (a : Api)
  | unwinding | dropping | ended
  deriving DecidableEq, Repr

inductive Env
  | spawn (reuse : Bool) | acc (k : Key) | migrate (w : Nat) | call (a : Api) | go | wake (w : Wake) | cancel
  | finish | panic | drop (toPool : Bool) | tacc (k : Key)
  deriving DecidableEq, Repr

structure Sh where
  para : Gid → Option Para
  pool : List Gid
  nextG : Gid
  nextV : Val
  gen : Cid → Gid
  cancelBit : Cid → Bool
  map : Cid → Key → Option Val
  worker : Cid → Nat
  lastPark : Cid → Option (Option Para)
  tmap : Nat → Key → Option Val
  -- ghost
  inits : Cid → Key → Nat
  freed : Cid → Nat
  ownC : Val → Option (Cid × Key)
  ownT : Val → Option (Nat × Key)

@[grind] def hasTimer : Api → Bool
  | .park _ | .sleep | .io => true
  | _ => false
@[grind] def cancelRegistered : Api → Bool
  | .park _ | .sleep | .fastPark | .io => true
  | _ => false
/-- `yield_back` of this EventSource calls `check_cancel` -/
@[grind] def checksCancel : Api → Bool
  | .park false | .sleep | .fastPark | .yieldNow => true
  | _ => false

/-- one step of coroutine `c` (or, for `tacc`, of thread `c`) -/
def tstep (cfg : Cfg) (sh : Sh) (c : Nat) (pc : Pc) (e : Env) : Option (Sh × Pc) :=
  match e with
  | .tacc k =>       -- thread context: the per-thread fallback map (pc unused)
    match sh.tmap c k with
    | some _ => some (sh, pc)
    | none => some ({ sh with tmap := upd2 sh.tmap c k (some sh.nextV), nextV := sh.nextV + 1,
                               ownT := upd sh.ownT sh.nextV (some (c, k)) }, pc)
  | .cancel => if pc = .idle ∨ pc = .ended then none else some ({ sh with cancelBit := upd sh.cancelBit c true }, pc)
  | .migrate w => if pc = .idle ∨ pc = .ended then none else some ({ sh with worker := upd sh.worker c w }, pc)
  | _ =>
  match pc with
  | .idle =>
    match e with
    | .spawn reuse =>
      let base : Sh := { sh with cancelBit := upd sh.cancelBit c false, map := clr sh.map c }
      match reuse, sh.pool with
      | true, g :: rest => some ({ base with gen := upd sh.gen c g, pool := rest }, .run)        -- pool.get: `para` is kept
      | _, _ => some ({ base with gen := upd sh.gen c sh.nextG, nextG := sh.nextG + 1 }, .run)
    | _ => none
  | .run =>
    match e with
    | .acc k =>
      match sh.map c k with
      | some _ => some (sh, .run)
      | none => some ({ sh with map := upd2 sh.map c k (some sh.nextV), nextV := sh.nextV + 1,
                                 inits := upd2 sh.inits c k (sh.inits c k + 1),
                                 ownC := upd sh.ownC sh.nextV (some (c, k)) }, .run)
    | .call .send => some (sh, .sendChk)
    | .call a => some (sh, .yielding false a)
    | .finish => some (sh, .dropping)
    | .panic => some (sh, .unwinding)
    | _ => none
  | .sendChk =>
    if sh.cancelBit c then some ({ sh with para := upd sh.para (sh.gen c) none }, .unwinding)      -- check_cancel: get_co_para, panic
    else if cfg.f8 then some (sh, .parked false .send) else some (sh, .yielding false .send)
  | .yielding u a =>
    if sh.cancelBit c then some ({ sh with para := upd sh.para (sh.gen c) (some .canceled) }, .shortcut u a)
    else some (sh, .parked u a)
  | .shortcut false a =>
    match a with
    | .send => some (sh, .run)                   -- F8: `yield_back` is a no-op, the bottom half runs, para stays
    | .park true | .io => some (sh, .post false a)     -- no check in yield_back: the API's own get_co_para consumes it
    | _ => some ({ sh with para := upd sh.para (sh.gen c) none }, .unwinding)   -- check_cancel: get_co_para, Cancel panic
  | .shortcut true a =>
    -- while unwinding: check_cancel clears (the code's rule) but does not panic again
    match a with
    | .send | .park true | .io => some (sh, .post true a)
    | _ => some (if cfg.clr then { sh with para := upd sh.para (sh.gen c) none } else sh, .post true a)
  | .parked u a =>
    match e with
    | .wake .unpark => some (sh, .resumed u a)
    | .wake .timer => if hasTimer a then some ({ sh with para := upd sh.para (sh.gen c) (some .timedOut) }, .resumed u a) else none
    | .wake .cancel =>
      if cancelRegistered a && sh.cancelBit c then some ({ sh with para := upd sh.para (sh.gen c) (some .canceled) }, .resumed u a) else none
    | _ => none
  | .resumed false a =>
    if checksCancel a && sh.cancelBit c then some ({ sh with para := upd sh.para (sh.gen c) none }, .unwinding)
    else some (sh, .post false a)
  | .resumed true a =>
    if checksCancel a && sh.cancelBit c then some (if cfg.clr then { sh with para := upd sh.para (sh.gen c) none } else sh, .post true a)
    else some (sh, .post true a)
  | .post u a =>
    let back : Pc := if u then .unwinding else .run
    match a with
    | .park _ =>
      -- `e = wake unpark` here: an unpark landed after the timer / canceller had already taken the coroutine (the token
      -- is there when the resumed coroutine runs `check_park`). The code consumes the para all the same.
      if cfg.early && e == .wake .unpark then some ({ sh with lastPark := upd sh.lastPark c (some none) }, back)
      else some ({ sh with lastPark := upd sh.lastPark c (some (sh.para (sh.gen c))), para := upd sh.para (sh.gen c) none }, back)
    | .io => some ({ sh with lastPark := upd sh.lastPark c (some (sh.para (sh.gen c))), para := upd sh.para (sh.gen c) none }, back)
    | .sleep | .fastPark => some ({ sh with para := upd sh.para (sh.gen c) none }, back)
    | .yieldNow | .send => some (sh, back)
  | .unwinding =>
    match e with
    | .call .send => none
    | .call a => some (sh, .yielding true a)       -- a `Drop` impl calls a blocking API during the unwind
    | _ => some (sh, .dropping)
  | .dropping =>
    match e with
    | .drop toPool => some ({ sh with freed := upd sh.freed c (sh.freed c + 1), pool := if toPool then sh.pool ++ [sh.gen c] else sh.pool }, .ended)
    | _ => none
  | .ended => none

structure St where
  sh : Sh
  pcs : Nat → Pc

def step (cfg : Cfg) (s : St) (c : Nat) (e : Env) : Option St :=
  match tstep cfg s.sh c (s.pcs c) e with
  | some (sh', pc') => some ⟨sh', upd s.pcs c pc'⟩
  | none => none

def init : St :=
  ⟨{ para := fun _ => none, pool := [], nextG := 0, nextV := 0, gen := fun _ => 0, cancelBit := fun _ => false,
     map := fun _ _ => none, worker := fun _ => 0, lastPark := fun _ => none, tmap := fun _ _ => none,
     inits := fun _ _ => 0, freed := fun _ => 0, ownC := fun _ => none, ownT := fun _ => none }, fun _ => .idle⟩

def run (cfg : Cfg) (s : St) : List (Nat × Env) → St
  | [] => s
  | (c, e) :: r => match step cfg s c e with
    | some s' => run cfg s' r
    | none => run cfg s r

end MayVerif.Local
