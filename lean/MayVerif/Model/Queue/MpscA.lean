/-
  C03, level A: `may_queue::mpsc::Queue` over LOGICAL slot indices (no blocks, no pointers).

  Slot `i` of the logical array stands for slot `i % B` of the `i / B`-th block. What is kept from the block
  structure is exactly what influences the responses of the operations:
  * `res`      number of successful tail CASes = next logical index to reserve,
  * `closing`  the closing bit of the packed tail word: set by the CAS that reserves the last slot of a block,
               cleared by that producer's `tail.store(next_block)`; while it is set every CAS fails and
               `push_index()` under-reports by one (mpsc.rs `push_index`),
  * `ready/val` per slot, `head` = the consumer's position.

  Any number of actors; actor 0 is the consumer (it may push as well). One step per shared-memory operation
  that matters at this level; the block-level steps of the code (allocation, `wait_next_block`, `next` link,
  head-block hand-over, `head.index` store, frees) are stutter steps here (see level B, `Mpsc.lean`).

  Ghost state (never read by a non-ghost computation): the abstract FIFO `A`, the number `lin` of linearized
  pushes, the reserved value / owner / per-producer sequence number of every slot, the log of linearized
  pushes and of returned values, and the flags `badNone/badVal/badLen` raised when a response disagrees
  with the abstract queue at the linearization point of the operation.

  Linearization points:
  * push into a slot that is not the last of its block: its successful CAS;
  * push into the last slot of a block (the closer): its `tail.store(next_block)`, or the consumer's
    successful `ready` read of that slot if that comes first (helping) – `push_index()` does not count the
    slot while the closing bit is set, so `peek/len/is_empty` do not see it before;
  * pop / bulk_pop element / Drop's pops: the `ready` read that succeeds; `None` / empty: the tail read;
  * peek: `None` at the tail read, `Some` at the `ready` read; len / is_empty: the tail read.
-/
namespace MayVerif.MpscA
scoped notation "Tid" => Nat

@[grind] def upd {α : Type} (f : Nat → α) (t : Nat) (v : α) : Nat → α := fun u => if u = t then v else f u

inductive Ret
  | unit | pop (r : Option Nat) | bulk (l : List Nat) | peek (r : Option Nat) | len (n : Nat) | empty (b : Bool)
  deriving DecidableEq, Repr, Inhabited

inductive Pc
  | idle
  -- push(v)
  | load (v : Nat)                     -- `tail.load`
  | cas (v seen : Nat)                 -- `tail.compare_exchange(seen, seen+1 | closing)`
  | publish (v i : Nat)                -- slot write + `ready.store(1)`
  | close                              -- closer only: … `tail.store(next_block)`
  -- pop (d = called from Drop: loop until None)
  | tryGet (d : Bool)                  -- `try_get(head)`
  | pushIndex (d : Bool)               -- `push_index()` after a failed try_get
  | spin (d : Bool)                    -- `get(head)`
  -- bulk_pop
  | bFast (acc : List Nat)             -- fast path: try_get slot after slot up to the block end
  | bPushIndex
  | bCopy (e : Nat) (acc : List Nat)   -- slow path: `copy_to_bulk(head, e)`
  -- peek
  | kPushIndex
  | kSpin
  -- len (e = is_empty)
  | lPushIndex (e : Bool)
  | ret (r : Ret)
  deriving DecidableEq, Repr, Inhabited

inductive Env
  | go
  | aba                                -- CAS only: the stale word compares equal (address reuse), see level B
  | push (v : Nat) | pop | bulk | peek | len | isEmpty | drop
  deriving DecidableEq, Repr, Inhabited

structure Sh where
  B : Nat
  res : Nat
  closing : Bool
  ready : Nat → Bool
  val : Nat → Nat
  head : Nat
  -- ghost
  lin : Nat                            -- pushes linearized so far = slots `< lin`
  A : List Nat                         -- the abstract FIFO
  pend : Nat → Nat                     -- value destined for a reserved slot
  own : Nat → Tid                      -- who reserved the slot
  sq : Nat → Nat                       -- the per-producer sequence number of that push
  cnt : Tid → Nat                      -- number of pushes the actor has started
  pushed : List (Tid × Nat × Nat)      -- linearized pushes (producer, its sequence number, value), LP order
  popped : List Nat                    -- values handed out (pop, bulk_pop, Drop), LP order
  badNone : Bool                       -- None / empty bulk / peek None although the abstract queue was not empty
  badVal : Bool                        -- a value handed out (or peeked) that is not the abstract head
  badLen : Bool                        -- len / is_empty disagreeing with the abstract size

/-- what `push_index()` computes from the tail word -/
def pushIndex (s : Sh) : Nat := if s.closing then s.res - 1 else s.res

/-- linearize the push that reserved slot `i` (ghost) -/
def linz (s : Sh) (i : Nat) : Sh :=
  { s with lin := i + 1, A := s.A ++ [s.pend i], pushed := s.pushed ++ [(s.own i, s.sq i, s.pend i)] }

/-- the consumer takes slot `head` (its `ready` flag was just read as set): linearization point of this pop;
    if the slot is the closing slot of a block whose push is not linearized yet, it is linearized first -/
def take (s : Sh) : Sh :=
  let s1 := if s.lin ≤ s.head then linz s s.head else s
  { s1 with head := s1.head + 1, A := s1.A.tail, popped := s1.popped ++ [s1.val s1.head],
            badVal := s1.badVal || (s1.A.head? != some (s1.val s1.head)) }

def noneLP (s : Sh) : Sh := { s with badNone := s.badNone || !s.A.isEmpty }

def tstep (s : Sh) (t : Tid) : Pc → Env → Option (Sh × Pc)
  -- API calls
  | .idle, .push v => some ({ s with cnt := upd s.cnt t (s.cnt t + 1) }, .load v)
  | .idle, .pop => if t = 0 then some (s, .tryGet false) else none
  | .idle, .drop => if t = 0 then some (s, .tryGet true) else none
  | .idle, .bulk => if t = 0 then some (s, .bFast []) else none
  | .idle, .peek => if t = 0 then some (s, .kPushIndex) else none
  | .idle, .len => if t = 0 then some (s, .lPushIndex false) else none
  | .idle, .isEmpty => if t = 0 then some (s, .lPushIndex true) else none
  | .idle, _ => none
  -- push
  | .load v, _ => some (s, .cas v (pushIndex s))
  | .cas v seen, e =>
      if s.closing = false ∧ (seen = s.res ∨ (e = .aba ∧ seen < s.res ∧ seen % s.B = s.res % s.B)) then
        let i := s.res
        let s1 := { s with res := i + 1, pend := upd s.pend i v, own := upd s.own i t, sq := upd s.sq i (s.cnt t - 1) }
        if (i + 1) % s.B = 0 then some ({ s1 with closing := true }, .publish v i)
        else some (linz s1 i, .publish v i)
      else some (s, .cas v (pushIndex s))
  | .publish v i, _ =>
      some ({ s with ready := upd s.ready i true, val := upd s.val i v }, if (i + 1) % s.B = 0 then .close else .ret .unit)
  | .close, _ =>
      let s1 := if s.lin < s.res then linz s (s.res - 1) else s
      some ({ s1 with closing := false }, .ret .unit)
  -- pop
  | .tryGet d, _ =>
      if s.ready s.head then some (take s, if d then .tryGet true else .ret (.pop (some (s.val s.head))))
      else some (s, .pushIndex d)
  | .pushIndex d, _ =>
      if s.head ≥ pushIndex s then some (noneLP s, if d then .ret .unit else .ret (.pop none))
      else some (s, .spin d)
  | .spin d, _ =>
      if s.ready s.head then some (take s, if d then .tryGet true else .ret (.pop (some (s.val s.head))))
      else none
  -- bulk_pop
  | .bFast acc, _ =>
      if s.ready s.head then
        let acc' := acc ++ [s.val s.head]
        some (take s, if (s.head + 1) % s.B = 0 then .ret (.bulk acc') else .bFast acc')
      else if acc.isEmpty then some (s, .bPushIndex) else some (s, .ret (.bulk acc))
  | .bPushIndex, _ =>
      if s.head ≥ pushIndex s then some (noneLP s, .ret (.bulk []))
      else some (s, .bCopy (min (pushIndex s) ((s.head / s.B + 1) * s.B)) [])
  | .bCopy e acc, _ =>
      if s.ready s.head then
        let acc' := acc ++ [s.val s.head]
        some (take s, if s.head + 1 ≥ e then .ret (.bulk acc') else .bCopy e acc')
      else none
  -- peek
  | .kPushIndex, _ =>
      if s.head ≥ pushIndex s then some (noneLP s, .ret (.peek none)) else some (s, .kSpin)
  | .kSpin, _ =>
      if s.ready s.head then
        some ({ s with badVal := s.badVal || (s.A.head? != some (s.val s.head)) }, .ret (.peek (some (s.val s.head))))
      else none
  -- len / is_empty
  | .lPushIndex e, _ =>
      let n := pushIndex s - s.head
      some ({ s with badLen := s.badLen || (n != s.A.length) }, .ret (if e then .empty (n == 0) else .len n))
  | .ret _, _ => some (s, .idle)

structure St where
  n : Nat
  sh : Sh
  pcs : Tid → Pc

def step (s : St) (t : Tid) (e : Env) : Option St :=
  if t < s.n then
    match tstep s.sh t (s.pcs t) e with
    | some (sh', pc') => some { s with sh := sh', pcs := upd s.pcs t pc' }
    | none => none
  else none

def initSh (B : Nat) : Sh :=
  { B := B, res := 0, closing := false, ready := fun _ => false, val := fun _ => 0, head := 0, lin := 0, A := [],
    pend := fun _ => 0, own := fun _ => 0, sq := fun _ => 0, cnt := fun _ => 0, pushed := [], popped := [],
    badNone := false, badVal := false, badLen := false }

def init (B n : Nat) : St := { n := n, sh := initSh B, pcs := fun _ => .idle }

/-- a schedule is any list of (actor, environment choice); disabled choices are skipped -/
def run (s : St) : List (Tid × Env) → St
  | [] => s
  | (t, e) :: r => match step s t e with
    | some s' => run s' r
    | none => run s r

end MayVerif.MpscA
