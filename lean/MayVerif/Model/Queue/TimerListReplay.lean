/-
  Observable labels of the timer-list model and its replay machine (family `mq_tl`): the driver executes the
  very `step` function of `Model/Queue/TimerList.lean` on traces of the real `mpsc_list_v1::Queue`.
  The executable invariant `chk` is the pointer-level `Chain` invariant of `Proof/Queue/TimerList/Inv.lean`
  (abstraction to the member list `L` executed alongside).
-/
import MayVerif.Core.Trace
import MayVerif.Model.Queue.TimerList
namespace MayVerif.TimerList
open MayVerif

def LINK_BIT : Int := 0x1000_0000
def MASK : Int := 0x0FFF_FFFF

def q0 : Option (String × Nat) := some ("tlq", 0)
def nd (m : Nid) : Option (String × Nat) := some ("tl", m)
def ptr (m : Nid) : LArg := if m = 0 then .num 0 else .id "tl" m
def refsVal (sh : Sh) (m : Nid) : Int := (if sh.lnk m then LINK_BIT else 0) + (sh.rc m : Int)
def O (f : String) : String := "mq.mpsc_list_v1." ++ f

/-- the observable of the step `tstep sh me pc e` -/
def label (sh : Sh) (pc : Pc) (e : Env) : Label :=
  match pc, e with
  | .idle, .push v => { kind := "call", op := "tl.push", a1 := .num v }
  | .idle, .pop => { kind := "call", op := "tl.pop" }
  | .idle, .popIf acc => { kind := "call", op := "tl.pop_if", a1 := .num acc.length }
  | .idle, .peek => { kind := "call", op := "tl.peek" }
  | .idle, .isEmpty => { kind := "call", op := "tl.is_empty" }
  | .idle, .remove m => { kind := "call", op := "tl.remove", a1 := .num (sh.pv m) }
  | .idle, .isLink m => { kind := "call", op := "tl.is_link", a1 := .num (sh.pv m) }
  | .idle, .drop m => { kind := "call", op := "tl.drop", a1 := .num (sh.pv m) }
  | .idle, .qdrop => { kind := "call", op := "tl.qdrop" }
  | .idle, _ => { kind := "none", op := "-" }
  | .ret r, _ => { kind := "ret", op := "*", a1 := .num r }
  | .pSwap _, _ => { obj := O "head", inst := q0, op := "swap", a1 := .id "tl" sh.nid, res := .id "tl" sh.head, ord := "AcqRel" }
  | .pPrev n p, _ => { obj := O "prev", inst := nd n, op := "store", a1 := ptr p, ord := "-" }
  | .pLink n p, _ => { obj := O "next", inst := nd p, op := "store", a1 := ptr n, ord := "Release" }
  -- the operand is the producer's local `prev`: a dangling pointer once the predecessor is freed (the
  -- canonicaliser then prints whatever lives at that address now)
  | .pTail _ _, .aba => { obj := O "tail", inst := q0, op := "load", a1 := .id "tl" sh.tail, res := .id "tl" sh.tail, ord := "-" }
  | .pTail _ p, _ => { obj := O "tail", inst := q0, op := "load", a1 := if sh.freed p then .any else .id "tl" p, res := .id "tl" sh.tail, ord := "-" }
  | .oHead _, _ | .iHead _, _ | .kHead, _ | .eHead, _ => { obj := O "head", inst := q0, op := "load", res := .id "tl" sh.head, ord := "Acquire" }
  | .oAnd _, _ | .iAnd _, _ | .qAnd, _ => { obj := O "refs", inst := nd sh.tail, op := "fetch_and", a1 := .num MASK, res := .num (refsVal sh sh.tail), ord := "AcqRel" }
  | .qDec, _ => { obj := O "refs", inst := nd sh.tail, op := "fetch_sub", a1 := .num 1, res := .num (refsVal sh sh.tail), ord := "AcqRel" }
  | .oNext _, _ | .iNext _, _ | .kNext, _ => { obj := O "next", inst := nd sh.tail, op := "load", res := ptr (sh.next sh.tail), ord := "Acquire" }
  | .cPrev x _, _ => { obj := O "prev", inst := nd x, op := "store", a1 := .num 0, ord := "-" }
  | .cTail x _, _ => { obj := O "tail", inst := q0, op := "store", a1 := ptr x, ord := "-" }
  | .cTake _ x _, _ => { obj := O "value", inst := nd x, op := "take", res := .num (b2i (sh.val x).isSome), ord := "-" }
  | .cDec o _ _, _ => { obj := O "refs", inst := nd o, op := "fetch_sub", a1 := .num 1, res := .num (refsVal sh o), ord := "AcqRel" }
  | .rRefs m, _ | .lRefs m, _ => { obj := O "refs", inst := nd m, op := "load", res := .num (refsVal sh m), ord := "Acquire" }
  | .rPrev m, _ => { obj := O "prev", inst := nd m, op := "load", res := ptr (sh.prev m), ord := "-" }
  | .rNext m, _ => { obj := O "next", inst := nd m, op := "load", res := ptr (sh.next m), ord := "Acquire" }
  | .rAnd m _ _, _ => { obj := O "refs", inst := nd m, op := "fetch_and", a1 := .num MASK, res := .num (refsVal sh m), ord := "AcqRel" }
  | .rSetPrev _ p x, _ => { obj := O "prev", inst := nd x, op := "store", a1 := ptr p, ord := "-" }
  | .rSetNext _ p x, _ => { obj := O "next", inst := nd p, op := "store", a1 := ptr x, ord := "Release" }
  | .rTake m, _ => { obj := O "value", inst := nd m, op := "take", res := .num (b2i (sh.val m).isSome), ord := "-" }
  | .rDec m _, _ | .rDrop m _, _ | .dDec m, _ => { obj := O "refs", inst := nd m, op := "fetch_sub", a1 := .num 1, res := .num (refsVal sh m), ord := "AcqRel" }

def pcName : Pc → String
  | .idle => "idle" | .ret _ => "ret" | .pSwap _ => "pSwap" | .pPrev .. => "pPrev" | .pLink .. => "pLink" | .pTail .. => "pTail"
  | .oHead _ => "oHead" | .oAnd _ => "oAnd" | .oNext _ => "oNext" | .iHead _ => "iHead" | .iNext _ => "iNext" | .iAnd _ => "iAnd"
  | .cPrev .. => "cPrev" | .cTail .. => "cTail" | .cTake .. => "cTake" | .cDec .. => "cDec" | .qAnd => "qAnd" | .qDec => "qDec"
  | .kHead => "kHead" | .kNext => "kNext" | .eHead => "eHead"
  | .rRefs _ => "rRefs" | .rPrev _ => "rPrev" | .rNext _ => "rNext" | .rAnd .. => "rAnd" | .rSetPrev .. => "rSetPrev"
  | .rSetNext .. => "rSetNext" | .rTake _ => "rTake" | .rDec .. => "rDec" | .rDrop .. => "rDrop" | .lRefs _ => "lRefs" | .dDec _ => "dDec"

/-- transition name for coverage: pc plus the branch taken -/
def transName (sh : Sh) (pc : Pc) (e : Env) : String :=
  let fr (m : Nid) : String := if sh.rc m = 1 ∧ sh.lnk m = false then "/free" else "/keep"
  let br := match pc, e with
    | .idle, .push _ => "/push" | .idle, .pop => "/pop" | .idle, .popIf _ => "/pop_if" | .idle, .peek => "/peek"
    | .idle, .isEmpty => "/is_empty" | .idle, .remove _ => "/remove" | .idle, .isLink _ => "/is_link" | .idle, .drop _ => "/drop"
    | .idle, .qdrop => "/qdrop"
    | .pTail _ _, .aba => "/aba"
    | .pTail _ p, _ => if sh.tail = p then "/head" else if sh.freed p then "/not_head_pred_freed" else "/not_head"
    | .oHead k, _ => (if sh.head = sh.tail then "/empty" else "/nonempty") ++ (if k then "/qdrop" else "")
    | .iHead _, _ | .kHead, _ | .eHead, _ => if sh.head = sh.tail then "/empty" else "/nonempty"
    | .oNext _, _ | .kNext, _ => if sh.next sh.tail = 0 then "/spin" else "/got"
    | .iNext acc, _ => if sh.next sh.tail = 0 then "/spin" else
        (match sh.val (sh.next sh.tail) with | some v => if acc.contains v then "/accept" else "/reject" | none => "/novalue")
    | .cDec o _ k, _ => fr o ++ (if k then "/qdrop" else "")
    | .qDec, _ => fr sh.tail
    | .rRefs m, _ => if sh.lnk m then "/linked" else "/unlinked"
    | .rPrev m, _ => if sh.prev m = 0 then "/stub" else "/has_prev"
    | .rNext m, _ => if sh.next m = 0 then "/last" else "/unlink"
    | .rTake m, _ => if (sh.val m).isSome then "/some" else "/none"
    | .rDec m _, _ | .rDrop m _, _ | .dDec m, _ => fr m
    | .lRefs m, _ => if sh.lnk m then "/linked" else "/unlinked"
    | _, _ => ""
  pcName pc ++ br

/-- replay state: the model state plus the `free` notes seen so far -/
structure RSt where
  st : St
  fseen : List Nid := []

def nodes (sh : Sh) : List Nid := (List.range sh.nid).filter (fun m => 1 ≤ m)

/-- executable `Chain` invariant (checked after every replayed step): between `tail` and `head` the `next`
    chain contains exactly the members `L` in swap order, `prev` is its inverse for linked members, detached
    exactly where a producer sits between `swap` and `store next`, modulo the consumer's own unlink window -/
def chk (s : St) : Option String :=
  let sh := s.sh
  let c := s.pcs 0
  let ns := nodes sh
  -- the consumer is in the middle of re-linking around this node
  let mid (b : Nid) : Bool := match c with
    | .cTail x _ => b == x
    | .rSetNext _ _ x => b == x
    | _ => false
  let midA (a : Nid) : Bool := match c with
    | .cTail _ _ => a == sh.tail
    | .rSetNext m p _ => a == m || a == p
    | _ => false
  let live (a : Nid) : Bool := a == sh.tail || sh.st a == .member
  let unl (m' : Nid) : Bool := match c with
    | .rSetPrev m _ _ => m' == m
    | .rSetNext m _ _ => m' == m
    | _ => false
  if sh.head + 1 != sh.nid then some "head is not the last swapped node" else
  if ns.any (fun m => (sh.st m == .member) != sh.L.contains m) then some "st is not consistent with L" else
  if ns.any (fun m => (sh.st m == .popped) != sh.popped.contains m || (sh.st m == .removed) != sh.removed.contains m) then some "st is not consistent with popped / removed" else
  if !(sh.popped.zip sh.popped.tail).all (fun ab => ab.1 < ab.2) then some "pops were not in swap order" else
  if sh.popped.any (fun m => m > sh.tail) then some "a popped node is younger than the stub" else
  if !(sh.L.zip sh.L.tail).all (fun ab => ab.1 < ab.2) then some "L is not in swap order" else
  if sh.L.any (fun m => m ≤ sh.tail) then some "a member is older than the stub" else
  if (sh.head == sh.tail) != sh.L.isEmpty then some "head = tail but L is not empty (or conversely)" else
  if ns.any (fun a => live a && !midA a && sh.next a != 0 &&
      !(sh.st (sh.next a) == .member && sh.lk (sh.next a) && a < sh.next a && sh.prev (sh.next a) == a &&
        sh.L.all (fun c' => !(a < c') || sh.next a ≤ c'))) then some "Chain: next of a live node is not its successor in stub::L" else
  if sh.L.any (fun b => sh.lk b && !mid b && !(sh.prev b != 0 && live (sh.prev b) && sh.next (sh.prev b) == b)) then
    some "Chain: prev of a linked member is not its predecessor" else
  if sh.L.any (fun b => !sh.lk b && !(live (sh.sp b) && sh.next (sh.sp b) == 0 && sh.sp b < b && (sh.prev b == 0 || sh.prev b == sh.sp b) &&
        sh.L.all (fun c' => !(sh.sp b < c') || b ≤ c') &&
        (List.range s.n).any (fun t => s.pcs t == .pPrev b (sh.sp b) || s.pcs t == .pLink b (sh.sp b)))) then
    some "Chain: a detached member is not where a producer between swap and store-next put it" else
  if sh.L.any (fun m => sh.val m != some (sh.pv m) || (!sh.lnk m && !unl m)) then some "Val: a member lost its value or its link bit" else
  if sh.val sh.tail != none && !(match c with | .cTake _ x _ => x == sh.tail | _ => false) then some "Val: the stub has a value" else
  if sh.prev sh.tail != 0 then some "Members: the stub has a prev" else
  if ns.any (fun m => sh.lnk m && sh.prev m != 0 && sh.st m != .member) then
    some "Members: a linked node with a prev is not in L" else
  if ns.any (fun m => sh.freed m && ((m == sh.tail && !sh.dead) || sh.st m == .member || sh.hnd m)) then some "a live node or a node with a handle is freed" else
  if ns.any (fun m => sh.rc m != (if sh.lr m then 1 else 0) + (if sh.hr m then 1 else 0)) then some "refs: the count is not the number of owners (list, handle)" else
  if ns.any (fun m => sh.freed m != (!sh.lr m && !sh.hr m)) then some "refs: a node is freed although it has an owner, or it leaked" else
  if ns.any (fun m => (sh.st m == .member || (m == sh.tail && sh.tr) || sh.lnk m) && !sh.lr m) then some "refs: a member / the stub / a linked node is not owned by the list" else
  if ns.any (fun m => (sh.hnd m || sh.hin m || (2 ≤ m && !sh.rd m)) && !sh.hr m) then some "refs: a handle does not own its node" else
  if (sh.popped ++ sh.removed ++ sh.L).length != sh.nid - 2 then some "a pushed node is in none or in several of L / popped / removed" else
  none

def envOf (s : St) (ev : Event) : List Env :=
  let byVal (v : Int) : List Nid := (nodes s.sh).filter (fun m => 2 ≤ m && (s.sh.pv m : Int) == v)
  match ev.op, ev.a1 with
  | "tl.push", .num v => [.push v.toNat]
  | "tl.pop", _ => [.pop]
  | "tl.pop_if", .num b => [.popIf (List.range b.toNat)]
  | "tl.peek", _ => [.peek]
  | "tl.is_empty", _ => [.isEmpty]
  | "tl.remove", .num v => (byVal v).map .remove
  | "tl.is_link", .num v => (byVal v).map .isLink
  | "tl.drop", .num v => (byVal v).map .drop
  | "tl.qdrop", _ => [.qdrop]
  | _, _ => []

def cands (r : RSt) (t : Nat) (ev : Event) : List (Label × RSt × String) :=
  let s := r.st
  let pc := s.pcs t
  if ev.kind == "note" then
    -- `free TlNodeK`: an observation – the model has freed that node, and it is reported once
    (nodes s.sh).filterMap fun m =>
      if s.sh.freed m && !r.fseen.contains m then
        some ({ kind := "note", op := "free", a1 := .id "tl" m }, { r with fseen := m :: r.fseen }, "free")
      else none
  else
    let envs : List Env := match pc with
      | .idle => if ev.kind == "call" then envOf s ev else []
      | .pTail _ _ => [.aba, .go]
      | _ => [.go]
    envs.filterMap fun e =>
      match step s t e with
      | some s' =>
        let l := label s.sh pc e
        let l := if l.kind == "ret" then { l with op := ev.op } else l
        some (l, { r with st := s' }, transName s.sh pc e)
      | none => none

def machine : Machine where
  St := RSt
  init := fun h => match hnat h "actors" with
    | some n => .ok { st := init n }
    | none => .error "mq_tl scenario without actors="
  actor := fun r a => if a.startsWith "t" then ((a.drop 1).toString.toNat?).bind (fun t => if t < r.st.n then some t else none) else none
  cands := cands
  inv := fun r => chk r.st
  where_ := fun r t => pcName (r.st.pcs t)
  atEnd := fun r =>
    if !(List.range r.st.n).all (fun t => r.st.pcs t == .idle) then some "not every actor is idle at the end of a finished run"
    else if (nodes r.st.sh).any (fun m => r.st.sh.freed m && !r.fseen.contains m) then some "the model freed a node the implementation did not free"
    else none
  -- `Queue::new` (refs of the initial stub := 1) is the model's initial state
  skip := fun e => (e.kind == "note" && e.op != "free") || (e.obj == O "refs" && e.op == "store")

end MayVerif.TimerList
