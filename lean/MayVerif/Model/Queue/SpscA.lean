/-
  C03, level A: `may_queue::spsc::Queue` over LOGICAL slot indices (no blocks, no block cache).

  Two fixed roles: the producer (`push`) and the consumer (`pop / bulk_pop / peek / len / is_empty / Drop`).
  `tail` / `head` are the values of `tail.index` / `head.index`; `val i` is the payload of logical slot `i`
  (slot `i % B` of the `i / B`-th block in program order of allocation / recycling, see level B `Spsc.lean`).

  Linearization points: push = its `tail.index.store`; pop / bulk_pop / peek returning nothing, and len /
  is_empty = their `tail.index.load`; pop / bulk_pop returning values = their `head.index.store`; peek
  returning a value = the read of the slot. Ghost: the abstract FIFO `A`, the logs `pushed` / `popped` and the
  flags raised when a response disagrees with `A` at the linearization point.
-/
import MayVerif.Model.Queue.MpscA
namespace MayVerif.SpscA
open MayVerif.MpscA (upd Ret)

inductive PPc
  | idle
  | write (v : Nat)          -- `tail.set(push_index, v)` (non-atomic slot write)
  | publish (v : Nat)        -- [block full: alloc_node, link] … `tail.index.store(push_index + 1)`
  | ret
  deriving DecidableEq, Repr, Inhabited

inductive CPc
  | idle
  | pLoad                    -- pop: `tail.index.load`
  | pGet                     -- read the slot
  | pStore (v : Nat)         -- [block end: head block hand-over] … `head.index.store(index + 1)`
  | bLoad (d : Bool)         -- bulk_pop (d: called from Drop's loop)
  | bGet (d : Bool) (e : Nat)
  | bStore (d : Bool) (e : Nat) (vals : List Nat)
  | kLoad                    -- peek
  | kGet
  | lLoad (e : Bool)         -- len / is_empty
  | ret (r : Ret)
  deriving DecidableEq, Repr, Inhabited

inductive Env
  | go | push (v : Nat) | pop | bulk | peek | len | isEmpty | drop
  deriving DecidableEq, Repr, Inhabited

structure Sh where
  B : Nat
  tail : Nat
  head : Nat
  val : Nat → Nat
  -- ghost
  A : List Nat
  pushed : List Nat
  popped : List Nat
  badNone : Bool
  badVal : Bool
  badLen : Bool

def noneLP (s : Sh) : Sh := { s with badNone := s.badNone || !s.A.isEmpty }

/-- the values of the logical slots `[i, i + n)` -/
def slots (s : Sh) (i n : Nat) : List Nat := (List.range n).map fun k => s.val (i + k)

def pstep (s : Sh) : PPc → Env → Option (Sh × PPc)
  | .idle, .push v => some (s, .write v)
  | .idle, _ => none
  | .write v, _ => some ({ s with val := upd s.val s.tail v }, .publish v)
  | .publish v, _ => some ({ s with tail := s.tail + 1, A := s.A ++ [v], pushed := s.pushed ++ [v] }, .ret)
  | .ret, _ => some (s, .idle)

def cstep (s : Sh) : CPc → Env → Option (Sh × CPc)
  | .idle, .pop => some (s, .pLoad)
  | .idle, .bulk => some (s, .bLoad false)
  | .idle, .drop => some (s, .bLoad true)
  | .idle, .peek => some (s, .kLoad)
  | .idle, .len => some (s, .lLoad false)
  | .idle, .isEmpty => some (s, .lLoad true)
  | .idle, _ => none
  | .pLoad, _ => if s.head = s.tail then some (noneLP s, .ret (.pop none)) else some (s, .pGet)
  | .pGet, _ => some (s, .pStore (s.val s.head))
  | .pStore v, _ =>
      some ({ s with head := s.head + 1, A := s.A.tail, popped := s.popped ++ [v], badVal := s.badVal || (s.A.head? != some v) },
            .ret (.pop (some v)))
  | .bLoad d, _ =>
      if s.head = s.tail then some (noneLP s, if d then .ret .unit else .ret (.bulk []))
      else some (s, .bGet d (min s.tail ((s.head / s.B + 1) * s.B)))
  | .bGet d e, _ => some (s, .bStore d e (slots s s.head (e - s.head)))
  | .bStore d e vals, _ =>
      some ({ s with head := e, A := s.A.drop vals.length, popped := s.popped ++ vals,
                     badVal := s.badVal || (s.A.take vals.length != vals) },
            if d then .bLoad true else .ret (.bulk vals))
  | .kLoad, _ => if s.head = s.tail then some (noneLP s, .ret (.peek none)) else some (s, .kGet)
  | .kGet, _ =>
      some ({ s with badVal := s.badVal || (s.A.head? != some (s.val s.head)) }, .ret (.peek (some (s.val s.head))))
  | .lLoad e, _ =>
      let n := s.tail - s.head
      some ({ s with badLen := s.badLen || (n != s.A.length) }, .ret (if e then .empty (n == 0) else .len n))
  | .ret _, _ => some (s, .idle)

structure St where
  sh : Sh
  pp : PPc
  cp : CPc

inductive Act
  | prod (e : Env)
  | cons (e : Env)
  deriving Repr, Inhabited

def step (s : St) : Act → Option St
  | .prod e => match pstep s.sh s.pp e with
    | some (sh', pc') => some { s with sh := sh', pp := pc' }
    | none => none
  | .cons e => match cstep s.sh s.cp e with
    | some (sh', pc') => some { s with sh := sh', cp := pc' }
    | none => none

def initSh (B : Nat) : Sh :=
  { B := B, tail := 0, head := 0, val := fun _ => 0, A := [], pushed := [], popped := [],
    badNone := false, badVal := false, badLen := false }

def init (B : Nat) : St := { sh := initSh B, pp := .idle, cp := .idle }

def run (s : St) : List Act → St
  | [] => s
  | a :: r => match step s a with
    | some s' => run s' r
    | none => run s r

end MayVerif.SpscA
