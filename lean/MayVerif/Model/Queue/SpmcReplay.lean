/-
  Observable labels of the spmc model (level B) and its replay machine, family `mq_spmc`.
  The driver executes the very `step` of `Model/Queue/Spmc.lean` on implementation traces, and runs the
  level-A model (`SpmcA.lean`, the one the theorems of `Props/C04.lean` are about) alongside as an executable
  simulation check (`SpmcSim.lean`).

  Values of the may_queue atomics are printed by the canonicaliser as `SpmcBlock3` (block pointer),
  `SpmcBlock3+5` / `SpmcBlock3+31!` (packed head word: block + index, `!` = lock bit) and
  `Freed_SpmcBlock3+5` (a stale word whose block is gone); they are matched here, with a bijection between
  model block identifiers and trace tokens.
-/
import MayVerif.Core.Trace
import MayVerif.Model.Queue.Spmc
import MayVerif.Model.Queue.SpmcSim
namespace MayVerif.Spmc
open MayVerif

/-- a value as the model expects it in the trace -/
inductive MV
  | num (n : Int)
  | ptr (b : Option Nat)                      -- block pointer / null
  | word (b : Nat) (idx : Nat) (lock : Bool)  -- packed head word naming a live block
  | stale (idx : Nat) (lock : Bool)           -- packed head word whose block was freed: any base token
  | any
  deriving Repr

inductive MObj
  | none
  | head (q : Nat) | tidx (q : Nat) | tblk (q : Nat)
  | used (b : Nat) | start (b : Nat) | next (b : Nat)
  deriving Repr

structure MLabel where
  kind : String := "a"
  obj : MObj := .none
  op : String
  a1 : MV := .any
  a2 : MV := .any
  res : MV := .any
  flag : Option Nat := none
  ord : String := ""
  deriving Repr

def MV.str : MV → String
  | .num n => toString n
  | .ptr none => "null"
  | .ptr (some b) => s!"blk#{b}"
  | .word b i l => s!"blk#{b}+{i}" ++ (if l then "!" else "")
  | .stale i l => s!"<freed>+{i}" ++ (if l then "!" else "")
  | .any => "_"

def MObj.str : MObj → String
  | .none => "-"
  | .head q => s!"head@q{q}" | .tidx q => s!"tail.index@q{q}" | .tblk q => s!"tail.block@q{q}"
  | .used b => s!"used@blk#{b}" | .start b => s!"start@blk#{b}" | .next b => s!"next@blk#{b}"

def MLabel.str (l : MLabel) : String :=
  let f := match l.flag with | some f => s!" flag={f}" | none => ""
  s!"{l.kind} {l.obj.str} {l.op} {l.a1.str} {l.a2.str} -> {l.res.str}{f} {l.ord}"

/-- split `Tok+off!` -/
def parseWord (s : String) : String × Nat × Bool :=
  let (s, lk) := if s.endsWith "!" then ((s.dropEnd 1).toString, true) else (s, false)
  match s.splitOn "+" with
  | [b, o] => (b, o.toNat?.getD 0, lk)
  | _ => (s, 0, lk)

def matchMV (bj : Bij) : MV → Tok → Option Bij
  | .any, _ => some bj
  | .num n, .num m => if n == m then some bj else none
  | .ptr none, .num 0 => some bj
  | .ptr (some b), .id s => if s.contains '+' || s.endsWith "!" then none else bj.bind ("blk", b) s
  | .word b i l, .id s =>
      let (base, off, lk) := parseWord s
      if off == i && lk == l then bj.bind ("blk", b) base else none
  | .stale i l, .id s =>
      let (_, off, lk) := parseWord s
      if off == i && lk == l then some bj else none
  | _, _ => none

def objName : MObj → String
  | .none => "-"
  | .head _ => "mq.spmc.BlockPtr.0" | .tidx _ => "mq.spmc.index" | .tblk _ => "mq.spmc.block"
  | .used _ => "mq.spmc.used" | .start _ => "mq.spmc.start" | .next _ => "mq.spmc.next"

def objKey : MObj → Option (String × Nat)
  | .none => none
  | .head q => some ("qh", q) | .tidx q => some ("qi", q) | .tblk q => some ("qb", q)
  | .used b => some ("blk", b) | .start b => some ("blk", b) | .next b => some ("blk", b)

def matchM (bj : Bij) (l : MLabel) (e : Event) : Option Bij := do
  if l.kind != e.kind || objName l.obj != e.obj || l.op != e.op then none
  if l.ord != "" && l.ord != e.ord then none
  match l.flag with
  | some f => if f != e.flag then none
  | none => pure ()
  let bj ← match objKey l.obj with
    | some k => bj.bind k e.inst
    | none => some bj
  let bj ← matchMV bj l.a1 e.a1
  let bj ← matchMV bj l.a2 e.a2
  matchMV bj l.res e.res

def optv (r : Option Nat) : MV := match r with | some v => .num v | none => .num (-1)
def b2i (b : Bool) : Int := if b then 1 else 0

/-- label of the steps that are API returns (or the first load of `Drop`) -/
def retLabel (sh : Sh) : Pc → MLabel
  | .rPush => { kind := "ret", op := "spmc.push" }
  | .rPop r => { kind := "ret", op := "spmc.pop", a1 := optv r }
  | .rLpop r => { kind := "ret", op := "spmc.lpop", a1 := optv r }
  | .rBulk [] n => { kind := "ret", op := "spmc.bulk_pop", a1 := .num n }
  | .rBulk (v :: _) _ => { kind := "ret", op := "spmc.bulk.item", a1 := .num v }
  | .rSteal r => { kind := "ret", op := "spmc.steal_into", a1 := optv r }
  | .rDrop => { kind := "ret", op := "spmc.drop" }
  | .d1 q => let h := (sh.qs q).head
             { obj := .head q, op := "load", res := .word h.blk h.idx h.lock, ord := "Acquire" }
  | _ => { kind := "none", op := "-" }

/-- the observable of the step `tstep sh me pc e` -/
def label (sh : Sh) (me : Nat) (pc : Pc) (e : Env) : MLabel :=
  match pc, e with
  | .idle, .start (.push q v) => { kind := "call", op := "spmc.push", a1 := .num v, a2 := .num q }
  | .idle, .start (.lpop q) => { kind := "call", op := "spmc.lpop", a2 := .num q }
  | .idle, .start (.pop q) => { kind := "call", op := "spmc.pop", a2 := .num q }
  | .idle, .start (.bulk q) => { kind := "call", op := "spmc.bulk_pop", a2 := .num q }
  | .idle, .start (.steal q) => { kind := "call", op := "spmc.steal_into", a1 := .num q, a2 := .num me }
  | .idle, .start (.drop q) => { kind := "call", op := "spmc.drop", a2 := .num q }
  | .idle, .start (.empt q) => { kind := "call", op := "spmc.is_empty", a2 := .num q }
  | .idle, _ | .panic, _ => { kind := "none", op := "-" }
  | .pu0 q _ _, _ => { obj := .tblk q, op := "uload", res := .ptr (some (sh.qs q).tblk), ord := "-" }
  | .pu1 q _ _ _, _ => { obj := .tidx q, op := "uload", res := .num (sh.qs q).tidx, ord := "-" }
  | .pu2 _ tb _ _, _ => { obj := .next tb, op := "store", a1 := .ptr (some sh.nextB), ord := "Release" }
  | .pu3 q nb _ _, _ => { obj := .tblk q, op := "store", a1 := .ptr (some nb), ord := "Relaxed" }
  | .pu4 q pi _, _ => { obj := .tidx q, op := "store", a1 := .num (pi + 1), ord := "Release" }
  | .t0 l, _ => let h := (sh.qs l.q).head
                { obj := .head l.q, op := "load", res := .word h.blk h.idx h.lock, ord := "Acquire" }
  | .t1 l, _ => if l.k = .lpop then { obj := .tidx l.q, op := "uload", res := .num (sh.qs l.q).tidx, ord := "-" }
                else { obj := .tidx l.q, op := "load", res := .num (sh.qs l.q).tidx, ord := "Acquire" }
  | .t2 l, _ => if l.k = .lpop then { obj := .tblk l.q, op := "uload", res := .ptr (some (sh.qs l.q).tblk), ord := "-" }
                else { obj := .tblk l.q, op := "load", res := .ptr (some (sh.qs l.q).tblk), ord := "Acquire" }
  | .tE l, env => { kind := "ret", op := "spmc.is_empty",
                    a1 := .num (b2i (peq sh l.hb l.tb (envEq env) && decide (l.hi = l.pi % BSZ))) }
  | .tT l, env =>
      let eq := peq sh l.hb l.tb (envEq env)
      let pid := l.pi % BSZ
      if eq && decide (pid ≤ l.hi) then retLabel sh (deliver me l [])
      else
        let lk : Bool := match l.k with | .bulk => !eq | _ => decide (l.hi = BSZ - 1)
        let nid : Nat := match l.k with | .bulk => (if eq then pid else 0) | _ => l.hi + 1
        let cur := (sh.qs l.q).head
        let okb : Bool := decide (cur.blk = l.hb) ||
          ((sh.blks l.hb).freed && envAba env && decide ((sh.blks l.hb).fgen ≤ cur.blk))
        let ok : Bool := !cur.lock && decide (cur.idx = l.hi) && okb
        let stale := (sh.blks l.hb).freed
        let base : Option Nat := if !stale then some l.hb else if ok then some cur.blk else none
        let mk := fun (i : Nat) (k : Bool) => match base with | some b => MV.word b i k | none => MV.stale i k
        { obj := .head l.q, op := "cas", a1 := mk l.hi false, a2 := if lk then mk l.hi true else mk nid false,
          res := .word cur.blk cur.idx cur.lock, flag := some (if ok then 1 else 0), ord := "AcqRel" }
  | .t4 l _ _, _ => { obj := .start l.hb, op := "load", res := .num (sh.blks l.hb).start, ord := "Relaxed" }
  | .t5 l _, _ | .t8 l _ _, _ => { obj := .tidx l.q, op := "load", res := .num (sh.qs l.q).tidx, ord := "Acquire" }
  | .t6r l, _ => { obj := .head l.q, op := "store", a1 := .word l.hb l.hi false, ord := "Release" }
  | .t6 l _ _, _ => { obj := .next l.hb, op := "load", res := .ptr (sh.blks l.hb).next, ord := "Acquire" }
  | .t7 l _ _ nh, _ => { obj := .head l.q, op := "store", a1 := .word nh.blk nh.idx nh.lock, ord := "Release" }
  | .t9 l _, _ => { obj := .tidx l.q, op := "store", a1 := .num (l.pi + 1), ord := "Relaxed" }
  | .tF l lo hi _, _ => { obj := .used l.hb, op := "fetch_sub", a1 := .num (hi - lo), res := .num (sh.blks l.hb).used, ord := "Relaxed" }
  | .tFree l _, _ => { kind := "note", op := "free", a1 := .ptr (some l.hb) }
  | .d2 q _, _ => { obj := .tblk q, op := "load", res := .ptr (some (sh.qs q).tblk), ord := "Acquire" }
  | .d3 _ b, _ => { kind := "note", op := "free", a1 := .ptr (some b) }
  | pc, _ => retLabel sh pc

def kindName : Kind → String | .pop => "pop" | .lpop => "lpop" | .bulk => "bulk" | .empt => "empt"
def ctxName : Ctx → String | .plain => "" | .steal => "[steal]" | .drop => "[drop]"
def pkName : PK → String | .plain => "" | .steal .. => "[steal]"

def pcName : Pc → String
  | .idle => "idle" | .panic => "panic"
  | .pu0 _ _ k => "pu0" ++ pkName k | .pu1 _ _ _ k => "pu1" ++ pkName k | .pu2 _ _ _ k => "pu2" ++ pkName k
  | .pu3 _ _ _ k => "pu3" ++ pkName k | .pu4 _ _ k => "pu4" ++ pkName k
  | .t0 l => s!"t0.{kindName l.k}{ctxName l.cx}" | .t1 l => s!"t1.{kindName l.k}" | .t2 l => s!"t2.{kindName l.k}"
  | .tT l => s!"tT.{kindName l.k}{ctxName l.cx}" | .tE _ => "tE"
  | .t4 l .. => s!"t4.{kindName l.k}" | .t5 l _ => s!"t5.{kindName l.k}" | .t6r l => s!"t6r.{kindName l.k}"
  | .t6 l .. => s!"t6.{kindName l.k}" | .t7 l .. => s!"t7.{kindName l.k}" | .t8 l .. => s!"t8.{kindName l.k}"
  | .t9 .. => "t9.lpop" | .tF l .. => s!"tF.{kindName l.k}{ctxName l.cx}" | .tFree l _ => s!"tFree.{kindName l.k}"
  | .d1 _ => "d1" | .d2 .. => "d2" | .d3 .. => "d3"
  | .rPush => "rPush" | .rPop _ => "rPop" | .rLpop _ => "rLpop" | .rBulk .. => "rBulk" | .rSteal _ => "rSteal" | .rDrop => "rDrop"

/-- transition name for coverage: pc plus the branch taken -/
def transName (sh : Sh) (_me : Nat) (pc : Pc) (e : Env) (pc' : Pc) : String :=
  let br := match pc, e with
    | .pu1 .., _ => (match pc' with | .pu2 .. => "/boundary" | _ => "/inblock")
    | .pu4 .., _ => (match pc' with | .pu0 .. => "/next-requeue" | .rSteal _ => "/steal-done" | _ => "")
    | .tT l, env =>
        let eq := peq sh l.hb l.tb (envEq env)
        let stale := (sh.blks l.hb).freed || (sh.blks l.tb).freed
        (match pc' with
         | .t4 _ lk _ => (if lk then "/lock" else "/direct") ++ (if (sh.blks l.hb).freed then "-ABA" else "")
         | .t1 _ | .tT _ => "/casfail" ++ (if (sh.qs l.q).head.lock then "-locked" else "") ++ (if (sh.blks l.hb).freed then "-stale" else "")
         | _ => "/empty" ++ (if l.hi > l.pi % BSZ && eq then "-behind" else "")) ++ (if stale && l.hb != l.tb then (if eq then "~eq" else "~ne") else "")
    | .t4 .., _ => (match pc' with | .t5 .. => "/lock" | .t8 .. => "/direct" | .t6r _ => "/lock-empty" | .t6 .. => "/lock-go"
                                   | .t9 .. => "/skip" | .tF .. => "/read" | _ => "/panic")
    | .t5 .., _ => (match pc' with | .t6r _ => "/empty" | .t6 .. => "/to-next" | _ => "/within")
    | .t8 .., _ => (match pc' with | .t8 .. => "/wait" | _ => "/ready")
    | .tF .., _ => (match pc' with | .tFree .. => "/last" | _ => "/more")
    | .rBulk (_ :: _) _, _ => "/item"
    | .d2 .., _ => (match pc' with | .d3 .. => "" | _ => "/panic")
    | _, _ => ""
  pcName pc ++ br

def parseStart (t : Nat) (ev : Event) : List Env :=
  let q : Nat := match ev.a2 with | .num n => n.toNat | _ => 0
  let a : Nat := match ev.a1 with | .num n => n.toNat | _ => 0
  match ev.op with
  | "spmc.push" => [.start (.push q a)]
  | "spmc.lpop" => [.start (.lpop q)]
  | "spmc.pop" => [.start (.pop q)]
  | "spmc.bulk_pop" => [.start (.bulk q)]
  | "spmc.steal_into" => if q = t then [.start (.steal a)] else []
  | "spmc.drop" => [.start (.drop q)]
  | "spmc.is_empty" => [.start (.empt q)]
  | _ => []

def envsFor (t : Nat) (pc : Pc) (ev : Event) : List Env :=
  match pc with
  | .idle => parseStart t ev
  | .tT _ => [.go, .adv true false, .adv false true, .adv true true]
  | .tE _ => [.go, .adv true false]
  | _ => [.go]

/-- replay state: model state, token bijection, level-A states run alongside, first simulation failure -/
structure RS where
  st : St
  bj : Bij := []
  sim : Sim.SimSt
  simErr : Option String := none
  nsteps : Nat := 0

def cands (rs : RS) (t : Nat) (ev : Event) : List (Label × RS × String) :=
  let s := rs.st
  let pc := s.pcs t
  (envsFor t pc ev).filterMap fun e =>
    match step s t e with
    | none => none
    | some s' =>
      let ml := label s.sh t pc e
      match matchM rs.bj ml ev with
      | some bj' =>
        let (sim', err) := Sim.simStep rs.sim s t e s'
        -- every 24 steps the function-valued fields are re-tabulated (same functions, cheap look-ups)
        let cpt := rs.nsteps % 24 == 23
        some ({ kind := ev.kind, obj := ev.obj, op := ev.op },
              { st := if cpt then Sim.compactB s' else s', bj := bj', sim := if cpt then Sim.compactSim s'.n sim' else sim',
                simErr := (match rs.simErr with | some x => some x | none => err), nsteps := rs.nsteps + 1 },
              transName s.sh t pc e (s'.pcs t))
      | none => some ({ kind := "model", op := ml.str }, rs, "")

/-- executable check of the ghost flags on the replayed state -/
def invCheck (rs : RS) : Option String :=
  let sh := rs.st.sh
  if sh.uaf then some "spmc_block_safe: a field of a freed block was accessed"
  else if sh.dfree then some "spmc_block_safe: a block was freed twice"
  else if sh.uninit then some "spmc_no_uninit: an uninitialised slot was read"
  else if sh.unpub then some "spmc_no_uninit: a slot at or beyond the published tail.index was read"
  else if (List.range rs.st.n).any (fun t => rs.st.pcs t == .panic) then some "an assertion of the code fails in the model (pc = panic)"
  else match rs.simErr with
    | some e => some ("level-A simulation: " ++ e)
    | none => none

def dupGot : List Got → Bool
  | [] => false
  | g :: r => r.any (fun h => h.q == g.q && h.i == g.i) || dupGot r

def machine : Machine where
  St := RS
  init := fun h => match hnat h "actors" with
    | some n => .ok { st := init n, sim := Sim.simInit n }
    | none => .error "mq_spmc scenario without actors="
  actor := fun rs a => if a.startsWith "t" then ((a.drop 1).toString.toNat?).bind (fun t => if t < rs.st.n then some t else none) else none
  cands := cands
  inv := invCheck
  where_ := fun rs t => pcName (rs.st.pcs t)
  atEnd := fun rs =>
    if !(List.range rs.st.n).all (fun t => rs.st.pcs t == .idle) then some "not every actor is idle at the end of a finished run"
    else if dupGot rs.st.sh.got then some "spmc_exactly_once: a logical index was obtained twice"
    else none
  skip := fun e => (e.kind == "note" && e.op != "free") || e.kind == "blk"

end MayVerif.Spmc
