/-
  Level-A model of `may_queue::spmc`: logical indices, no blocks, no addresses.

  * The owner (actor 0) writes slot `tail` and then publishes `tail + 1`.
  * Takers (any actor, the owner included) claim logical ranges by a compare-exchange on `head`:
      - directly: `head : h ↦ e` for some `e > h` – *whatever `e` the taker computed from its possibly stale
        view*: the emptiness test on the stale `(push_index, tail_block)` pair and the effect of address reuse
        (ABA) are arbitrary guesses of the environment here (`Env.claim true e`, `Env.giveUp`), so over-claims
        beyond the published `tail` are possible; the claimer then waits until `tail` has passed its range;
      - or by setting the lock bit (block boundary in `pop`, "not the tail block" in `bulk_pop`): while the
        bit is set every other compare-exchange fails; the holder re-reads `tail` under the lock and either
        installs the exact new head or restores the old one.
    A compare-exchange that succeeds always claims from the *current* head: at level B the block in `head` is
    the one whose `start` is read after the CAS, whatever the taker had loaded before.
  * `local_pop` (owner only) differs in that its `tail` is exact: it gives up iff `tail ≤ h`.

  The level-B model (`Spmc.lean`: blocks, `used` counters, packed head word, re-used addresses; replayed against
  the implementation) is run against this model step by step in `SpmcSim.lean`.

  Ghost fields: `cnt` (how often an index was handed out), `who` (the claimer of an index), `lk` (lock holder),
  `bad`, `olog`, `olast`, `plog`.
-/
namespace MayVerif.SpmcA

local notation "Tid" => Nat
local notation "Val" => Nat

@[grind] def upd {α : Type} (f : Nat → α) (t : Nat) (v : α) : Nat → α := fun u => if u = t then v else f u

inductive Pc
  | idle
  | oWrite (v : Val)        -- push: write slot `tail`
  | oPub                    -- push: publish `tail + 1`
  | oLoad                   -- local_pop: load head
  | oTry (h : Nat)          -- local_pop: test against the exact tail, then CAS
  | tTry                    -- pop / bulk_pop: (stale) test, then CAS
  | tWait (lo hi : Nat)     -- direct claim made: spin until `hi ≤ tail`
  | tLocked (lo : Nat)      -- lock bit set: read `tail`
  | tBack (lo : Nat)        -- nothing there: restore the old head (clear the lock bit)
  | tGo (lo hi : Nat)       -- install the new head `hi` (clears the lock bit)
  | tRead (lo hi : Nat)     -- read the slots `[lo, hi)`
  | tDone (lo hi : Nat)     -- return them (`lo = hi`: nothing)
  deriving DecidableEq, Repr

inductive Env
  | push (v : Val) | lpop | take        -- API calls
  | go
  | giveUp                              -- the emptiness test says "empty"
  | claim (direct : Bool) (e : Nat)     -- successful CAS: direct claim up to `e` / lock path (then: range end `e`)
  deriving DecidableEq, Repr

structure Sh where
  tail : Nat
  head : Nat
  lock : Bool
  slot : Nat → Option Val
  -- ghost
  cnt : Nat → Nat
  who : Nat → Tid
  lk : Tid
  bad : Bool            -- a slot was read at or beyond `tail`, or before it was written
  olog : List Nat       -- logical indices handed to the owner, in the order of its returns
  olast : Nat           -- one past the last index handed to the owner
  plog : List Val       -- pushed values in push order

def setWho (who : Nat → Tid) (lo hi : Nat) (t : Tid) : Nat → Tid := fun i => if lo ≤ i ∧ i < hi then t else who i

def tstep (sh : Sh) (me : Tid) : Pc → Env → Option (Sh × Pc)
  | .idle, .push v => if me = 0 then some (sh, .oWrite v) else none
  | .idle, .lpop => if me = 0 then some (sh, .oLoad) else none
  | .idle, .take => some (sh, .tTry)
  | .idle, _ => none
  | .oWrite v, _ => some ({ sh with slot := upd sh.slot sh.tail (some v), plog := sh.plog ++ [v] }, .oPub)
  | .oPub, _ => some ({ sh with tail := sh.tail + 1 }, .idle)
  | .oLoad, _ => some (sh, .oTry sh.head)
  | .oTry h, env =>
      if sh.tail ≤ h then some (sh, .idle)
      else if sh.head = h ∧ sh.lock = false then
        match env with
        | .claim false _ => some ({ sh with lock := true, lk := me }, .tLocked h)
        | _ => some ({ sh with head := h + 1, who := setWho sh.who h (h + 1) me }, .tWait h (h + 1))
      else some (sh, .oTry sh.head)
  | .tTry, .giveUp => some (sh, .idle)
  | .tTry, .claim true e =>
      if sh.lock = false ∧ sh.head < e then
        some ({ sh with head := e, who := setWho sh.who sh.head e me }, .tWait sh.head e)
      else none
  | .tTry, .claim false _ => if sh.lock = false then some ({ sh with lock := true, lk := me }, .tLocked sh.head) else none
  | .tTry, _ => none            -- a failed CAS (and the re-loads after it) is a stutter
  | .tLocked lo, env =>
      if sh.tail ≤ lo then some (sh, .tBack lo)
      else
        let e := match env with | .claim _ e => (if lo < e ∧ e ≤ sh.tail then e else lo + 1) | _ => lo + 1
        some ({ sh with who := setWho sh.who lo e me }, .tGo lo e)
  | .tBack _, _ => some ({ sh with lock := false }, .tDone 0 0)
  | .tGo lo hi, _ => some ({ sh with head := hi, lock := false }, .tRead lo hi)
  | .tWait lo hi, _ => some (sh, if hi ≤ sh.tail then .tRead lo hi else .tWait lo hi)
  | .tRead lo hi, _ =>
      some ({ sh with cnt := fun i => if lo ≤ i ∧ i < hi then sh.cnt i + 1 else sh.cnt i,
                      bad := sh.bad || decide (sh.tail < hi) || (List.range (hi - lo)).any (fun j => (sh.slot (lo + j)).isNone),
                      olog := if me = 0 then sh.olog ++ List.range' lo (hi - lo) else sh.olog,
                      olast := if me = 0 then hi else sh.olast }, .tDone lo hi)
  | .tDone _ _, _ => some (sh, .idle)

structure St where
  n : Nat
  sh : Sh
  pcs : Tid → Pc

def step (s : St) (t : Tid) (e : Env) : Option St :=
  if t < s.n then
    match tstep s.sh t (s.pcs t) e with
    | none => none
    | some (sh', pc') => some ⟨s.n, sh', upd s.pcs t pc'⟩
  else none

def init (n : Nat) : St :=
  ⟨n, ⟨0, 0, false, fun _ => none, fun _ => 0, fun _ => 0, 0, false, [], 0, []⟩, fun _ => .idle⟩

/-- every finite schedule: disabled choices are skipped, so `∀ sched` is every interleaving -/
def run (s : St) : List (Tid × Env) → St
  | [] => s
  | (t, e) :: r => match step s t e with
    | some s' => run s' r
    | none => run s r

/-- the values a returning taker hands out -/
def batch (sh : Sh) (lo hi : Nat) : List (Option Val) := (List.range (hi - lo)).map fun j => sh.slot (lo + j)

end MayVerif.SpmcA
