/-
  C03, level B: `may_queue::spsc::Queue` (feature `inner_cache`, the default) per hooked operation of
  `may_queue/src/spsc.rs`; replayed against traces of the real code (`SpscReplay.lean`).

  Concrete state: heap blocks (`live`, `next`, slot payloads), `tail.index / tail.block` (producer side),
  `head.index / head.block` (consumer side), and the block cache `first`, `last_head` (producer side; the
  producer reads `head.block` racily in `alloc_node`).

    push      pBlk → pIdx → pWr (slot write) [block full: alloc_node → pLink → pSetBlk] → pPub → pRet
    alloc_node  aFirst → aLast → (first ≠ last_head: aNext → aSetFirst
                                 | aHead → aSetLast → (first ≠ head.block: aNext → aSetFirst | aAlloc))
    pop       oIdx → oTail → (None | oBlk → oRd (slot read) [block end: oNext → oSetBlk] → oStore)
    peek      kIdx → kTail → (None | kBlk → kRd (slot read))
    len       lHead → lTail
    bulk_pop  bIdx → bTail → (empty | bBlk → bRd* (one slot read per step) [block end: bNext → bSetBlk] → bStore)
  The non-atomic slot accesses are steps of their own: the hook sits directly in front of the access inside
  `BlockNode::set / get / peek`, so the event moves with the access (a copy that runs after the block hand-over
  diverges from the model).
    Drop      bulk_pop loop (d = true) → dHead → dTail → dFirst → (dNext → dFree)* → dFreeH
    new       nAlloc → nRet

  Every dereference of a block goes through `touch` (ghost flag `uaf`). A recycled block that the consumer can
  still read needs no flag of its own: the producer's write into it would change a payload the level-A state still
  holds, and the consumer's next read then disagrees with level A (`simBad` / the replay's state comparison).

  Tie to level A (`SpscA.lean`): as for mpsc, the state carries the level-A state as a ghost component that is
  advanced by `SpscA.pstep/cstep` on the level-A action each concrete step stands for; `simBad` is raised when
  that step is not enabled or the level-A pc is not the projection of the concrete pc.
-/
import MayVerif.Model.Queue.SpscA
import MayVerif.Model.Queue.Mpsc
namespace MayVerif.Spsc
open MayVerif.MpscA (upd Ret)
open MayVerif.Mpsc (upd2)

scoped notation "Bid" => Nat

/-- locals of a push in progress: value, tail block, push index -/
structure PL where
  v : Nat
  tb : Bid
  pi : Nat
  deriving DecidableEq, Repr, Inhabited

inductive PPc
  | idle
  | pBlk (v : Nat)
  | pIdx (v : Nat) (tb : Bid)
  | pWr (v : Nat) (tb : Bid) (pi : Nat)        -- the slot write of `BlockNode::set`
  | aFirst (l : PL)
  | aLast (l : PL) (f : Bid)
  | aNext (l : PL) (f : Bid)
  | aSetFirst (l : PL) (f nx : Bid)
  | aHead (l : PL) (f : Bid)
  | aSetLast (l : PL) (f hb : Bid)
  | aAlloc (l : PL)
  | pLink (l : PL) (nt : Bid)
  | pSetBlk (l : PL) (nt : Bid)
  | pPub (v : Nat) (pi : Nat)
  | pRet
  deriving DecidableEq, Repr, Inhabited

inductive CPc
  | idle
  | nAlloc | nRet
  | oIdx | oTail (hi : Nat) | oBlk (hi : Nat) | oRd (hb : Bid) (hi : Nat) | oNext (hb : Bid) (hi v : Nat) | oSetBlk (nh : Bid) (hi v : Nat)
  | oStore (hi v : Nat)
  | kIdx | kTail (hi : Nat) | kBlk (hi : Nat) | kRd (hb : Bid) (hi : Nat)
  | lHead (e : Bool) | lTail (e : Bool) (hi : Nat)
  | bIdx (d : Bool) | bTail (d : Bool) (hi : Nat) | bBlk (d : Bool) (hi e : Nat)
  | bRd (d : Bool) (hb : Bid) (ci e : Nat) (acc : List Nat)      -- `copy_to_bulk`: the read of logical slot ci
  | bNext (d : Bool) (hb : Bid) (e : Nat) (vals : List Nat) | bSetBlk (d : Bool) (nh : Bid) (e : Nat) (vals : List Nat)
  | bStore (d : Bool) (e : Nat) (vals : List Nat)
  | dHead | dTail (hb : Bid) | dFirst (hb : Bid) | dNext (f tb : Bid) | dFree (f nx tb : Bid) | dFreeH (hb : Bid)
  | ret (r : Ret)
  deriving DecidableEq, Repr, Inhabited

inductive Env
  | go | new | push (v : Nat) | pop | bulk | peek | len | isEmpty | drop
  deriving DecidableEq, Repr, Inhabited

structure Sh where
  B : Nat
  created : Bool
  alive : Bool
  nb : Nat
  live : Bid → Bool
  next : Bid → Option Bid
  val : Bid → Nat → Nat
  tailIdx : Nat
  tailBlk : Bid
  headIdx : Nat
  headBlk : Bid
  first : Bid
  lastHead : Bid
  -- ghost
  uaf : Bool
  dfree : Bool
  panic : Bool
  a : SpscA.Sh
  simBad : Bool
  -- ghost: the block chain. `chain k` = the block holding the logical slots `k*B … k*B+B-1`, `num` its inverse on the
  -- live blocks; `fk / lk / hk / tk` = the numbers of `first / last_head / head.block / tail.block`; the live blocks
  -- are `chain fk … chain (te-1)`; `ph`: 0 before `Queue::new`, 1 in use, 2 Drop frees the blocks, 3 dropped.
  -- Read by ghost updates only.
  chain : Nat → Bid
  num : Bid → Nat
  fk : Nat
  lk : Nat
  hk : Nat
  tk : Nat
  te : Nat
  ph : Nat

def touch (s : Sh) (b : Bid) : Sh := { s with uaf := s.uaf || !s.live b }
def alloc (s : Sh) : Sh := { s with nb := s.nb + 1, live := upd s.live s.nb true, next := upd s.next s.nb none }
def free (s : Sh) (b : Bid) : Sh := { s with live := upd s.live b false, dfree := s.dfree || !s.live b }

/-- the payloads of slots `[i % B, i % B + n)` of block `b` -/
def copy (s : Sh) (b : Bid) (i n : Nat) : List Nat := (List.range n).map fun k => s.val b (i % s.B + k)

abbrev AAct := Option SpscA.Env

def pstepC (s : Sh) : PPc → Env → Option (Sh × PPc × AAct)
  | .idle, .push v => if s.alive then some (s, .pBlk v, some (.push v)) else none
  | .idle, _ => none
  | .pBlk v, _ => some (s, .pIdx v s.tailBlk, none)
  | .pIdx v tb, _ => some (s, .pWr v tb s.tailIdx, none)
  | .pWr v tb pi, _ =>
      let s := touch s tb
      let s := { s with val := upd2 s.val tb (pi % s.B) v }
      some (s, if (pi + 1) % s.B = 0 then .aFirst ⟨v, tb, pi⟩ else .pPub v pi, some .go)
  | .aFirst l, _ => some (s, .aLast l s.first, none)
  | .aLast l f, _ => some (s, if f ≠ s.lastHead then .aNext l f else .aHead l f, none)
  | .aNext l f, _ =>
      let s := touch s f
      match s.next f with
      | some nx => some (s, .aSetFirst l f nx, none)
      | none => some ({ s with panic := true }, .aSetFirst l f f, none)
  | .aSetFirst l f nx, _ =>
      -- ghost: the recycled block `f` becomes block number `tk + 1`
      some ({ s with first := nx, fk := s.fk + 1, chain := upd s.chain (s.tk + 1) f, num := upd s.num f (s.tk + 1),
                     te := s.te + 1 }, .pLink l f, none)
  | .aHead l f, _ => some (s, .aSetLast l f s.headBlk, none)
  | .aSetLast l f hb, _ =>
      some ({ s with lastHead := hb, lk := s.num hb }, if f ≠ hb then .aNext l f else .aAlloc l, none)
  | .aAlloc l, _ =>
      some ({ alloc s with chain := upd s.chain (s.tk + 1) s.nb, num := upd s.num s.nb (s.tk + 1), te := s.te + 1 },
            .pLink l s.nb, none)
  | .pLink l nt, _ => let s := touch s l.tb; some ({ s with next := upd s.next l.tb (some nt) }, .pSetBlk l nt, none)
  | .pSetBlk l nt, _ => some ({ s with tailBlk := nt, tk := s.tk + 1 }, .pPub l.v l.pi, none)
  | .pPub _ pi, _ => some ({ s with tailIdx := pi + 1 }, .pRet, some .go)
  | .pRet, _ => some (s, .idle, some .go)

def cstepC (s : Sh) : CPc → Env → Option (Sh × CPc × AAct)
  | .idle, .new => if s.created then none else some (s, .nAlloc, none)
  | .idle, .pop => if s.alive then some (s, .oIdx, some .pop) else none
  | .idle, .bulk => if s.alive then some (s, .bIdx false, some .bulk) else none
  | .idle, .drop => if s.alive then some ({ s with alive := false }, .bIdx true, some .drop) else none
  | .idle, .peek => if s.alive then some (s, .kIdx, some .peek) else none
  | .idle, .len => if s.alive then some (s, .lHead false, some .len) else none
  | .idle, .isEmpty => if s.alive then some (s, .lHead true, some .isEmpty) else none
  | .idle, _ => none
  -- Queue::new
  | .nAlloc, _ =>
      let b := s.nb
      some ({ alloc s with tailIdx := 0, tailBlk := b, headIdx := 0, headBlk := b, first := b, lastHead := b,
                           created := true, alive := true,
                           chain := upd s.chain 0 b, num := upd s.num b 0, fk := 0, lk := 0, hk := 0, tk := 0, te := 1,
                           ph := 1 }, .nRet, none)
  | .nRet, _ => some (s, .idle, none)
  -- pop
  | .oIdx, _ => some (s, .oTail s.headIdx, none)
  | .oTail hi, _ => if hi = s.tailIdx then some (s, .ret (.pop none), some .go) else some (s, .oBlk hi, some .go)
  | .oBlk hi, _ => some (s, .oRd s.headBlk hi, none)
  | .oRd hb hi, _ =>
      let s := touch s hb
      let v := s.val hb (hi % s.B)
      some (s, if (hi + 1) % s.B = 0 then .oNext hb hi v else .oStore hi v, some .go)
  | .oNext hb hi v, _ =>
      let s := touch s hb
      match s.next hb with
      | some nh => some (s, .oSetBlk nh hi v, none)
      | none => some ({ s with panic := true }, .oSetBlk hb hi v, none)
  | .oSetBlk nh hi v, _ => some ({ s with headBlk := nh, hk := s.hk + 1 }, .oStore hi v, none)
  | .oStore hi v, _ => some ({ s with headIdx := hi + 1 }, .ret (.pop (some v)), some .go)
  -- peek
  | .kIdx, _ => some (s, .kTail s.headIdx, none)
  | .kTail hi, _ => if hi = s.tailIdx then some (s, .ret (.peek none), some .go) else some (s, .kBlk hi, some .go)
  | .kBlk hi, _ => some (s, .kRd s.headBlk hi, none)
  | .kRd hb hi, _ => let s := touch s hb; some (s, .ret (.peek (some (s.val hb (hi % s.B)))), some .go)
  -- len / is_empty
  | .lHead e, _ => some (s, .lTail e s.headIdx, none)
  | .lTail e hi, _ => let n := s.tailIdx - hi; some (s, .ret (if e then .empty (n == 0) else .len n), some .go)
  -- bulk_pop
  | .bIdx d, _ => some (s, .bTail d s.headIdx, none)
  | .bTail d hi, _ =>
      if hi = s.tailIdx then some (s, if d then .dHead else .ret (.bulk []), some .go)
      else some (s, .bBlk d hi (min s.tailIdx ((hi / s.B + 1) * s.B)), some .go)
  | .bBlk d hi e, _ => some (s, .bRd d s.headBlk hi e [], none)
  | .bRd d hb ci e acc, _ =>
      -- the level-A action (which takes all the values at once) is attached to the LAST read
      let s := touch s hb
      let acc' := acc ++ [s.val hb (ci % s.B)]
      if ci + 1 < e then some (s, .bRd d hb (ci + 1) e acc', none)
      else some (s, if e % s.B = 0 then .bNext d hb e acc' else .bStore d e acc', some .go)
  | .bNext d hb e vals, _ =>
      let s := touch s hb
      match s.next hb with
      | some nh => some (s, .bSetBlk d nh e vals, none)
      | none => some ({ s with panic := true }, .bSetBlk d hb e vals, none)
  | .bSetBlk d nh e vals, _ => some ({ s with headBlk := nh, hk := s.hk + 1 }, .bStore d e vals, none)
  | .bStore d e vals, _ => some ({ s with headIdx := e }, if d then .bIdx true else .ret (.bulk vals), some .go)
  -- Drop after `while !self.bulk_pop().is_empty() {}`
  | .dHead, _ => some (s, .dTail s.headBlk, none)
  | .dTail hb, _ => some ({ s with panic := s.panic || (s.tailBlk != hb) }, .dFirst hb, none)
  | .dFirst hb, _ => some ({ s with ph := 2 }, if s.first = hb then .dFreeH hb else .dNext s.first hb, none)
  | .dNext f tb, _ =>
      let s := touch s f
      match s.next f with
      | some nx => some (s, .dFree f nx tb, none)
      | none => some ({ s with panic := true }, .dFreeH tb, none)
  | .dFree f nx tb, _ => some ({ free s f with fk := s.fk + 1 }, if nx = tb then .dFreeH tb else .dNext nx tb, none)
  | .dFreeH hb, _ => some ({ free s hb with te := s.te - 1, ph := 3 }, .ret .unit, none)
  | .ret _, _ => some (s, .idle, some .go)

def projP : PPc → SpscA.PPc
  | .idle => .idle
  | .pBlk v | .pIdx v _ | .pWr v .. => .write v
  | .aFirst l | .aLast l _ | .aNext l _ | .aSetFirst l .. | .aHead l _ | .aSetLast l .. | .aAlloc l | .pLink l _
  | .pSetBlk l _ => .publish l.v
  | .pPub v _ => .publish v
  | .pRet => .ret

def projC : CPc → SpscA.CPc
  | .idle | .nAlloc | .nRet => .idle
  | .oIdx | .oTail _ => .pLoad
  | .oBlk _ | .oRd .. => .pGet
  | .oNext _ _ v | .oSetBlk _ _ v | .oStore _ v => .pStore v
  | .kIdx | .kTail _ => .kLoad
  | .kBlk _ | .kRd .. => .kGet
  | .lHead e | .lTail e _ => .lLoad e
  | .bIdx d | .bTail d _ => .bLoad d
  | .bBlk d _ e | .bRd d _ _ e _ => .bGet d e
  | .bNext d _ e vals | .bSetBlk d _ e vals | .bStore d e vals => .bStore d e vals
  | .dHead | .dTail _ | .dFirst _ | .dNext .. | .dFree .. | .dFreeH _ => .ret .unit
  | .ret r => .ret r

structure St where
  sh : Sh
  pp : PPc
  cp : CPc
  app : SpscA.PPc       -- ghost: level-A pcs
  acp : SpscA.CPc

inductive Act
  | prod (e : Env)
  | cons (e : Env)
  deriving Repr, Inhabited

def step (s : St) : Act → Option St
  | .prod e =>
    match pstepC s.sh s.pp e with
    | some (sh', pc', aa) =>
      let (a', apc', ok) := match aa with
        | none => (s.sh.a, s.app, true)
        | some ae => match SpscA.pstep s.sh.a s.app ae with
          | some (a', apc') => (a', apc', true)
          | none => (s.sh.a, s.app, false)
      some { s with sh := { sh' with a := a', simBad := sh'.simBad || !ok || (projP pc' != apc') }, pp := pc', app := apc' }
    | none => none
  | .cons e =>
    -- `Drop` takes `&mut self`: it starts only when the producer is idle (and clears `alive`)
    if e = .drop ∧ s.pp ≠ .idle then none else
    match cstepC s.sh s.cp e with
    | some (sh', pc', aa) =>
      let (a', apc', ok) := match aa with
        | none => (s.sh.a, s.acp, true)
        | some ae => match SpscA.cstep s.sh.a s.acp ae with
          | some (a', apc') => (a', apc', true)
          | none => (s.sh.a, s.acp, false)
      some { s with sh := { sh' with a := a', simBad := sh'.simBad || !ok || (projC pc' != apc') }, cp := pc', acp := apc' }
    | none => none

def initSh (B : Nat) : Sh :=
  { B := B, created := false, alive := false, nb := 0, live := fun _ => false, next := fun _ => none, val := fun _ _ => 0,
    tailIdx := 0, tailBlk := 0, headIdx := 0, headBlk := 0, first := 0, lastHead := 0,
    uaf := false, dfree := false, panic := false, a := SpscA.initSh B, simBad := false,
    chain := fun _ => 0, num := fun _ => 0, fk := 0, lk := 0, hk := 0, tk := 0, te := 0, ph := 0 }

def init (B : Nat) : St := { sh := initSh B, pp := .idle, cp := .idle, app := .idle, acp := .idle }

def run (s : St) : List Act → St
  | [] => s
  | a :: r => match step s a with
    | some s' => run s' r
    | none => run s r

end MayVerif.Spsc
