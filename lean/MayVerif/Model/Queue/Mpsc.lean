/-
  C03, level B: `may_queue::mpsc::Queue` per shared-memory operation of `may_queue/src/mpsc.rs`
  (this is the model that is replayed against traces of the real code, `MpscReplay.lean`).

  Concrete state: heap blocks (generation-unique ids; `live`, `start`, `next`, per-slot `ready`/value), the packed
  tail word `(block, index, closing bit)`, the consumer-owned `head.block` / `head.index`, `old_block`.
  One `tstepC` case per hooked operation in program order with the branch the code takes:

    push      pLoad → pCas (retry loop) → pWrite → pSet [slot B-1: → pAlloc → pWait (spin) → pLink → pTail]
    pop       oBlk → oIdx → oTry → [oTail → (None | oSpin (spin))] → oRead → oStore [slot B-1: retire]
    retire    [rFree (previous old_block)] → rNext (spin) → rHead        (shared by pop / bulk_pop)
    bulk_pop  bIdx → bBlk → (bFast → bFastRd)* → (bStore | bTail → (empty | (bCopy (spin) → bCopyRd)* → bStore))
              [block end: retire]
    peek      kIdx → kTail → (None | kBlk → kSpin (spin) → kRead)
    len       lIdx → lTail          (is_empty = len() == 0)
    Drop      pop loop (d = true) → dHead → dTail → dNext → dFree1 → dFree2 → [dFree3]
    new       nAlloc0 → nAlloc1 → nLink → nRet

  The non-atomic slot accesses are steps of their own (`pWrite`; `oRead`, `bFastRd`, `bCopyRd`, `kRead`): the hook
  sits directly in front of the access inside `BlockNode::set / try_get / get / peek`, so the event moves with the
  access. Other non-atomic accesses that the code keeps race free (`block.start`, `old_block`) are folded into the
  adjacent hooked operation. Every dereference of a block goes through `touch`, which raises the ghost flag
  `uaf` when the block is not live; `dfree` = double free; `panic` = an assertion of `Drop` fails.

  Tie to level A (`MpscA.lean`, where the FIFO refinement is proved): the state carries the level-A state `a` as a
  ghost component. `tstepC` computes the concrete step (it never reads `a`) and names the level-A action it
  stands for (`none` = stutter); `step` advances `a` with `MpscA.tstep` on that action and raises `simBad` when
  the level-A step is not enabled or the level-A pc is not the projection `proj` of the new concrete pc.
-/
import MayVerif.Model.Queue.MpscA
namespace MayVerif.Mpsc
scoped notation "Tid" => Nat
scoped notation "Bid" => Nat

open MayVerif.MpscA (upd Ret)

@[grind] def upd2 {α : Type} (f : Nat → Nat → α) (b i : Nat) (v : α) : Nat → Nat → α :=
  fun c j => if c = b ∧ j = i then v else f c j

/-- the packed tail word: block pointer | slot index (low bits) | closing flag (bit 63) -/
structure Word where
  blk : Bid
  idx : Nat
  closing : Bool
  deriving DecidableEq, Repr, Inhabited

/-- what follows the hand-over of the head block -/
inductive K
  | pop (d : Bool) (v : Nat)
  | bulk (acc : List Nat)
  deriving DecidableEq, Repr, Inhabited

inductive Pc
  | idle
  -- Queue::new
  | nAlloc0 | nAlloc1 (b0 : Bid) | nLink (b0 b1 : Bid) | nRet
  -- push(v)
  | pLoad (v : Nat)
  | pCas (v : Nat) (w : Word)
  | pWrite (v : Nat) (b : Bid) (i : Nat)       -- the slot write of `BlockNode::set`
  | pSet (v : Nat) (b : Bid) (i : Nat)         -- `ready.store(1)`
  | pAlloc (b : Bid)
  | pWait (b nn : Bid)
  | pLink (nx nn : Bid)
  | pTail (nx : Bid)
  -- pop (d: called from Drop)
  | oBlk (d : Bool)
  | oIdx (d : Bool) (hb : Bid)
  | oTry (d : Bool) (hb : Bid) (pi : Nat)
  | oTail (d : Bool) (hb : Bid) (pi : Nat)
  | oSpin (d : Bool) (hb : Bid) (pi : Nat)
  | oRead (d : Bool) (sp : Bool) (hb : Bid) (pi : Nat)     -- the slot read of `try_get` (sp = false) / `get` (sp = true)
  | oStore (d : Bool) (hb : Bid) (pi : Nat) (v : Nat)
  -- hand-over of the head block
  | rFree (hb : Bid) (k : K)
  | rNext (hb : Bid) (k : K)
  | rHead (nx : Bid) (k : K)
  -- bulk_pop (ci = logical index of the slot read next, e = logical end of the copy)
  | bIdx
  | bBlk (pi : Nat)
  | bFast (hb : Bid) (ci : Nat) (acc : List Nat)
  | bFastRd (hb : Bid) (ci : Nat) (acc : List Nat)          -- the slot read after a successful `ready` read
  | bStore (hb : Bid) (ni : Nat) (acc : List Nat)
  | bTail (hb : Bid) (pi : Nat)
  | bCopy (hb : Bid) (ci e : Nat) (acc : List Nat)
  | bCopyRd (hb : Bid) (ci e : Nat) (acc : List Nat)
  -- peek
  | kIdx
  | kTail (pi : Nat)
  | kBlk (pi : Nat)
  | kSpin (hb : Bid) (pi : Nat)
  | kRead (hb : Bid) (pi : Nat)
  -- len / is_empty
  | lIdx (e : Bool)
  | lTail (e : Bool) (pi : Nat)
  -- Drop after the pop loop
  | dHead
  | dTail (hb : Bid)
  | dNext (b : Bid)
  | dFree1 (b nx : Bid)
  | dFree2 (b : Bid)
  | dFree3 (ob : Bid)
  | ret (r : Ret)
  deriving DecidableEq, Repr, Inhabited

inductive Env
  | go
  | aba                  -- CAS only: the address of the (freed) block in the stale word is the address of the tail block
  | new | push (v : Nat) | pop | bulk | peek | len | isEmpty | drop
  deriving DecidableEq, Repr, Inhabited

structure Sh where
  B : Nat
  created : Bool
  alive : Bool
  nb : Nat                        -- blocks allocated so far = next fresh id
  live : Bid → Bool
  start : Bid → Nat
  next : Bid → Option Bid
  ready : Bid → Nat → Bool
  val : Bid → Nat → Nat
  tail : Word
  headBlk : Bid
  headIdx : Nat
  old : Option Bid
  -- ghost
  uaf : Bool
  dfree : Bool
  panic : Bool
  a : MpscA.Sh
  simBad : Bool

/-- every dereference of a block -/
def touch (s : Sh) (b : Bid) : Sh := { s with uaf := s.uaf || !s.live b }

def alloc (s : Sh) (st : Nat) : Sh :=
  { s with nb := s.nb + 1, live := upd s.live s.nb true, start := upd s.start s.nb st }

def free (s : Sh) (b : Bid) : Sh := { s with live := upd s.live b false, dfree := s.dfree || !s.live b }

/-- `push_index()` evaluated on a tail word (dereferences the tail block for `start`) -/
def pidx (s : Sh) (w : Word) : Nat := s.start w.blk + w.idx

/-- the word a successful CAS on `w` installs: `id < BLOCK_MASK ? pack(block, id+1) : tail | 1<<63` -/
def nextWord (B : Nat) (w : Word) : Word :=
  if w.idx + 1 < B then { w with idx := w.idx + 1 } else { w with closing := true }

/-- continue after the head block was handed over (or did not have to be) -/
def after (k : K) : Pc :=
  match k with
  | .pop true _ => .oBlk true
  | .pop false v => .ret (.pop (some v))
  | .bulk acc => .ret (.bulk acc)

/-- `old_block.replace(Box::from_raw(head))`: the previous old block (if any) is freed in the next step -/
def retire (s : Sh) (hb : Bid) (k : K) : Sh × Pc :=
  match s.old with
  | none => ({ s with old := some hb }, .rNext hb k)
  | some _ => (s, .rFree hb k)

abbrev AAct := Option MpscA.Env

def tstepC (s : Sh) (t : Tid) : Pc → Env → Option (Sh × Pc × AAct)
  -- API calls
  | .idle, .new => if s.created ∨ t ≠ 0 then none else some (s, .nAlloc0, none)
  | .idle, .push v => if s.alive then some (s, .pLoad v, some (.push v)) else none
  | .idle, .pop => if s.alive ∧ t = 0 then some (s, .oBlk false, some .pop) else none
  | .idle, .drop => if s.alive ∧ t = 0 then some ({ s with alive := false }, .oBlk true, some .drop) else none
  | .idle, .bulk => if s.alive ∧ t = 0 then some (s, .bIdx, some .bulk) else none
  | .idle, .peek => if s.alive ∧ t = 0 then some (s, .kIdx, some .peek) else none
  | .idle, .len => if s.alive ∧ t = 0 then some (s, .lIdx false, some .len) else none
  | .idle, .isEmpty => if s.alive ∧ t = 0 then some (s, .lIdx true, some .isEmpty) else none
  | .idle, _ => none
  -- Queue::new
  | .nAlloc0, _ => some (alloc s 0, .nAlloc1 s.nb, none)
  | .nAlloc1 b0, _ => some (alloc s s.B, .nLink b0 s.nb, none)
  | .nLink b0 b1, _ =>
      let s := touch s b0
      some ({ s with next := upd s.next b0 (some b1), tail := ⟨b0, 0, false⟩, headBlk := b0, headIdx := 0, old := none,
                     created := true, alive := true }, .nRet, none)
  | .nRet, _ => some (s, .idle, none)
  -- push
  | .pLoad v, _ => some (s, .pCas v { s.tail with closing := false }, some .go)
  | .pCas v w, e =>
      if s.tail = w then some ({ s with tail := nextWord s.B w }, .pWrite v w.blk w.idx, some .go)
      else if e = .aba ∧ s.live w.blk = false ∧ w.idx = s.tail.idx ∧ s.tail.closing = false ∧ s.start w.blk < s.start s.tail.blk then
        some ({ s with tail := nextWord s.B s.tail }, .pWrite v s.tail.blk s.tail.idx, some .aba)
      else some (s, .pCas v { s.tail with closing := false }, some .go)
  | .pWrite v b i, _ => let s := touch s b; some ({ s with val := upd2 s.val b i v }, .pSet v b i, none)
  | .pSet _ b i, _ =>
      let s := touch s b
      some ({ s with ready := upd2 s.ready b i true }, if i + 1 = s.B then .pAlloc b else .ret .unit, some .go)
  | .pAlloc b, _ => let s := touch s b; some (alloc s (s.start b + 2 * s.B), .pWait b s.nb, none)
  | .pWait b nn, _ =>
      let s := touch s b
      match s.next b with
      | none => some (s, .pWait b nn, none)
      | some nx => some (s, .pLink nx nn, none)
  | .pLink nx nn, _ => let s := touch s nx; some ({ s with next := upd s.next nx (some nn) }, .pTail nx, none)
  | .pTail nx, _ => some ({ s with tail := ⟨nx, 0, false⟩ }, .ret .unit, some .go)
  -- pop
  | .oBlk d, _ => some (s, .oIdx d s.headBlk, none)
  | .oIdx d hb, _ => some (s, .oTry d hb s.headIdx, none)
  | .oTry d hb pi, _ =>
      let s := touch s hb
      if s.ready hb (pi % s.B) then some (s, .oRead d false hb pi, none)
      else some (s, .oTail d hb pi, some .go)
  | .oTail d hb pi, _ =>
      let s := touch s s.tail.blk
      if pi ≥ pidx s s.tail then some (s, if d then .dHead else .ret (.pop none), some .go)
      else some (s, .oSpin d hb pi, some .go)
  | .oSpin d hb pi, _ =>
      let s := touch s hb
      if s.ready hb (pi % s.B) then some (s, .oRead d true hb pi, none)
      else some (s, .oSpin d hb pi, none)
  | .oRead d _ hb pi, _ => let s := touch s hb; some (s, .oStore d hb pi (s.val hb (pi % s.B)), some .go)
  | .oStore d hb pi v, _ =>
      let s := { s with headIdx := pi + 1 }
      if (pi + 1) % s.B = 0 then let (s, pc) := retire s hb (.pop d v); some (s, pc, none)
      else some (s, after (.pop d v), none)
  -- hand-over of the head block
  | .rFree hb k, _ =>
      match s.old with
      | some ob => some ({ free s ob with old := some hb }, .rNext hb k, none)
      | none => none
  | .rNext hb k, _ =>
      let s := touch s hb
      match s.next hb with
      | none => some (s, .rNext hb k, none)
      | some nx => some (s, .rHead nx k, none)
  | .rHead nx k, _ => some ({ s with headBlk := nx }, after k, none)
  -- bulk_pop
  | .bIdx, _ => some (s, .bBlk s.headIdx, none)
  | .bBlk pi, _ => some (s, .bFast s.headBlk pi [], none)
  | .bFast hb ci acc, _ =>
      let s := touch s hb
      if s.ready hb (ci % s.B) then some (s, .bFastRd hb ci acc, none)
      else if acc.isEmpty then some (s, .bTail hb ci, some .go) else some (s, .bStore hb ci acc, some .go)
  | .bFastRd hb ci acc, _ =>
      let s := touch s hb
      let acc' := acc ++ [s.val hb (ci % s.B)]
      some (s, if (ci + 1) % s.B = 0 then .bStore hb (ci + 1) acc' else .bFast hb (ci + 1) acc', some .go)
  | .bStore hb ni acc, _ =>
      let s := { s with headIdx := ni }
      if ni % s.B = 0 then let (s, pc) := retire s hb (.bulk acc); some (s, pc, none)
      else some (s, .ret (.bulk acc), none)
  | .bTail hb pi, _ =>
      let s := touch s s.tail.blk
      if pi ≥ pidx s s.tail then some (s, .ret (.bulk []), some .go)
      else some (s, .bCopy hb pi (min (pidx s s.tail) ((pi / s.B + 1) * s.B)) [], some .go)
  | .bCopy hb ci e acc, _ =>
      let s := touch s hb
      if s.ready hb (ci % s.B) then some (s, .bCopyRd hb ci e acc, none)
      else some (s, .bCopy hb ci e acc, none)
  | .bCopyRd hb ci e acc, _ =>
      let s := touch s hb
      let acc' := acc ++ [s.val hb (ci % s.B)]
      some (s, if ci + 1 ≥ e then .bStore hb e acc' else .bCopy hb (ci + 1) e acc', some .go)
  -- peek
  | .kIdx, _ => some (s, .kTail s.headIdx, none)
  | .kTail pi, _ =>
      let s := touch s s.tail.blk
      if pi ≥ pidx s s.tail then some (s, .ret (.peek none), some .go) else some (s, .kBlk pi, some .go)
  | .kBlk pi, _ => some (s, .kSpin s.headBlk pi, none)
  | .kSpin hb pi, _ =>
      let s := touch s hb
      if s.ready hb (pi % s.B) then some (s, .kRead hb pi, none)
      else some (s, .kSpin hb pi, none)
  | .kRead hb pi, _ => let s := touch s hb; some (s, .ret (.peek (some (s.val hb (pi % s.B)))), some .go)
  -- len / is_empty
  | .lIdx e, _ => some (s, .lTail e s.headIdx, none)
  | .lTail e pi, _ =>
      let s := touch s s.tail.blk
      let n := pidx s s.tail - pi
      some (s, .ret (if e then .empty (n == 0) else .len n), some .go)
  -- Drop, after `while self.pop().is_some() {}`
  | .dHead, _ => some (s, .dTail s.headBlk, none)
  | .dTail hb, _ => some ({ s with panic := s.panic || (s.tail.blk != hb) }, .dNext s.tail.blk, none)
  | .dNext b, _ =>
      let s := touch s b
      match s.next b with
      | some nx => some (s, .dFree1 b nx, none)
      | none => some ({ s with panic := true }, .ret .unit, none)
  | .dFree1 b nx, _ => some (free s nx, .dFree2 b, none)
  | .dFree2 b, _ =>
      let s := free s b
      match s.old with
      | some ob => some (s, .dFree3 ob, none)
      | none => some (s, .ret .unit, none)
  | .dFree3 ob, _ => some ({ free s ob with old := none }, .ret .unit, none)
  | .ret _, _ => some (s, .idle, some .go)

/-- level-A pc the concrete pc stands for (logical index of a slot = `start block + index`) -/
def proj (s : Sh) : Pc → MpscA.Pc
  | .idle | .nAlloc0 | .nAlloc1 _ | .nLink .. | .nRet => .idle
  | .pLoad v => .load v
  | .pCas v w => .cas v (s.start w.blk + w.idx)
  | .pWrite v b i | .pSet v b i => .publish v (s.start b + i)
  | .pAlloc _ | .pWait .. | .pLink .. | .pTail _ => .close
  | .oBlk d | .oIdx d _ | .oTry d .. => .tryGet d
  | .oTail d .. => .pushIndex d
  | .oSpin d .. => .spin d
  | .oRead d sp .. => if sp then .spin d else .tryGet d
  | .oStore d _ _ v => if d then .tryGet true else .ret (.pop (some v))
  | .rFree _ k | .rNext _ k | .rHead _ k =>
      match k with
      | .pop true _ => .tryGet true
      | .pop false v => .ret (.pop (some v))
      | .bulk acc => .ret (.bulk acc)
  | .bIdx | .bBlk _ => .bFast []
  | .bFast _ _ acc | .bFastRd _ _ acc => .bFast acc
  | .bStore _ _ acc => .ret (.bulk acc)
  | .bTail .. => .bPushIndex
  | .bCopy _ _ e acc | .bCopyRd _ _ e acc => .bCopy e acc
  | .kIdx | .kTail _ => .kPushIndex
  | .kBlk _ | .kSpin .. | .kRead .. => .kSpin
  | .lIdx e | .lTail e _ => .lPushIndex e
  | .dHead | .dTail _ | .dNext _ | .dFree1 .. | .dFree2 _ | .dFree3 _ => .ret .unit
  | .ret r => .ret r

structure St where
  n : Nat
  sh : Sh
  pcs : Tid → Pc
  apcs : Tid → MpscA.Pc          -- ghost: the level-A pcs

/-- `Drop` takes `&mut self`: it starts only when every other actor is idle (and from then on no operation starts:
    `alive` is cleared by its first step) -/
def quiet (s : St) (t : Tid) : Bool := (List.range s.n).all fun u => u == t || s.pcs u == .idle

def step (s : St) (t : Tid) (e : Env) : Option St :=
  if t < s.n ∧ (e = .drop → quiet s t = true) then
    match tstepC s.sh t (s.pcs t) e with
    | some (sh', pc', aa) =>
      let (a', apc', ok) := match aa with
        | none => (s.sh.a, s.apcs t, true)
        | some ae =>
          match MpscA.tstep s.sh.a t (s.apcs t) ae with
          | some (a', apc') => (a', apc', true)
          | none => (s.sh.a, s.apcs t, false)
      some { s with sh := { sh' with a := a', simBad := sh'.simBad || !ok || (proj sh' pc' != apc') },
                    pcs := upd s.pcs t pc', apcs := upd s.apcs t apc' }
    | none => none
  else none

def initSh (B : Nat) : Sh :=
  { B := B, created := false, alive := false, nb := 0, live := fun _ => false, start := fun _ => 0, next := fun _ => none,
    ready := fun _ _ => false, val := fun _ _ => 0, tail := ⟨0, 0, false⟩, headBlk := 0, headIdx := 0, old := none,
    uaf := false, dfree := false, panic := false, a := MpscA.initSh B, simBad := false }

def init (B n : Nat) : St := { n := n, sh := initSh B, pcs := fun _ => .idle, apcs := fun _ => .idle }

def run (s : St) : List (Tid × Env) → St
  | [] => s
  | (t, e) :: r => match step s t e with
    | some s' => run s' r
    | none => run s r

end MayVerif.Mpsc
