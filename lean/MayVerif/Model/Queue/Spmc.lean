/-
  Level-B model of `may_queue::spmc` (may_queue/src/spmc.rs): one `tstep` case per hooked shared-memory
  operation of the code, in program order, with the branch the code takes on the value read.
  This is the function the driver replays implementation traces in (`SpmcReplay.lean`).

  Objects: queues `q` = (`head` word = (block, index, lock bit 63), `tail.index`, `tail.block`);
  blocks = (`used`, `start`, `next`, slots). Block identifiers are *generations*: a re-allocated address is a
  new identifier. Address reuse (ABA) is an adversarial choice of the environment:
    * a pointer comparison `ptr::eq(block, tail_block)` one of whose sides is a freed block may come out
      either way (`Env.adv eq _`),
    * a compare-exchange on `head` whose expected word names a freed block may succeed if the index and the
      lock bit agree and the block now in `head` was allocated after the stale one was freed (`Env.adv _ aba`);
      the taker then works on the block that is in `head` now (`block.start` is read after the CAS).

      push(v):        pu0 uload tail.block   pu1 uload tail.index [+ slot write]
                      [index+1 ≡ 0 mod B:  pu2 alloc; tail.next.store(new)   pu3 tail.block.store(new)]
                      pu4 tail.index.store(index+1)
      pop / local_pop / bulk_pop / is_empty:
                      t0 head.load   t1 tail.index.(u)load   t2 tail.block.(u)load
                      tT emptiness test, then head.compare_exchange   (is_empty: tE = the result)
                         fail: pop/bulk reload t1,t2; local_pop retries at once
                      t4 block.start.load
                      lock path (pop/local_pop: index = B-1; bulk_pop: block ≠ tail_block):
                         t5 tail.index.load (not local_pop)   t6r head.store(old) → empty
                         t6 block.next.load   t7 head.store(new head)
                      direct path: t8 spin on tail.index.load until the claimed range is published
                         (local_pop: no spin; t9 = the `tail.index.store(push_index+1)` skip branch)
                      tF [slot reads] used.fetch_sub(n)   tFree (the one who brings `used` to 0)
      steal_into:     bulk_pop on the victim, then push of all but the last value to the thief's own queue
      Drop:           bulk_pop until empty, d1 head.load, d2 tail.block.load, d3 free

  Ghost fields (never read by a non-ghost part of a step): `uaf`, `uninit`, `unpub`, `dfree`, `got`, `fgen`,
  `Block.own` (the queue a block was allocated for), `Queue.last` (the newest block allocated for the queue),
  `Queue.dead` / `Queue.gone` (its `Drop` has started / has freed the last block).

  API discipline (what the Rust type system enforces, `step`/`opOk`): `Drop` takes `&mut self` on the last
  handle, so it starts only when no actor is inside a routine on that queue (`steal_into` holds `&mut` on the
  thief's own queue as well) and no routine starts on a queue whose `Drop` has started; only the queues
  `q < n` exist.

  Two different generations can have the same address only if one was freed before the other was allocated
  (`alias`): only then is the outcome of `ptr::eq` adversarial.
-/
namespace MayVerif.Spmc

local notation "Tid" => Nat
local notation "Bid" => Nat
local notation "Qid" => Nat
local notation "Val" => Nat

/-- BLOCK_SIZE (`1 << BLOCK_SHIFT`, spmc.rs:14-18); the replay checks it through `used`'s initial value -/
def BSZ : Nat := 32

@[grind] def upd {α : Type} (f : Nat → α) (t : Nat) (v : α) : Nat → α := fun u => if u = t then v else f u

structure HeadW where
  blk : Bid
  idx : Nat
  lock : Bool
  deriving DecidableEq, Repr

structure Block where
  used : Nat
  start : Nat
  next : Option Bid
  freed : Bool
  fgen : Nat                 -- ghost: number of blocks allocated so far when this one was freed
  data : Nat → Option Val    -- slot ↦ value; `none` = uninitialised
  own : Qid                  -- ghost: the queue this block was allocated for

def newBlock (own : Qid) (start : Nat) : Block := ⟨BSZ, start, none, false, 0, fun _ => none, own⟩

structure Queue where
  head : HeadW
  tidx : Nat
  tblk : Bid
  last : Bid                 -- ghost: the newest block allocated for this queue
  dead : Bool                -- ghost: `Drop` of this queue has started
  gone : Bool                -- ghost: `Drop` of this queue has freed its last block

inductive Kind | pop | lpop | bulk | empt
  deriving DecidableEq, Repr
inductive Ctx | plain | steal | drop
  deriving DecidableEq, Repr

/-- locals of a taker routine: queue, routine, context, `head` = (hb, hi), `push_index`, `tail_block` -/
structure Loc where
  q : Qid
  k : Kind
  cx : Ctx
  hb : Bid
  hi : Nat
  pi : Nat
  tb : Bid
  deriving DecidableEq, Repr

/-- continuation of a push: plain API call, or the re-queueing loop of `steal_into` -/
inductive PK
  | plain
  | steal (rest : List Val) (r : Option Val)
  deriving DecidableEq, Repr

inductive Pc
  | idle
  | pu0 (q : Qid) (v : Val) (k : PK)
  | pu1 (q : Qid) (v : Val) (tb : Bid) (k : PK)
  | pu2 (q : Qid) (tb : Bid) (pi : Nat) (k : PK)
  | pu3 (q : Qid) (nb : Bid) (pi : Nat) (k : PK)
  | pu4 (q : Qid) (pi : Nat) (k : PK)
  | t0 (l : Loc)
  | t1 (l : Loc)
  | t2 (l : Loc)
  | tT (l : Loc)
  | tE (l : Loc)
  | t4 (l : Loc) (lk : Bool) (nid : Nat)
  | t5 (l : Loc) (lo : Nat)
  | t6r (l : Loc)
  | t6 (l : Loc) (lo hi : Nat)
  | t7 (l : Loc) (lo hi : Nat) (nh : HeadW)
  | t8 (l : Loc) (lo hi : Nat)
  | t9 (l : Loc) (lo : Nat)
  | tF (l : Loc) (lo hi : Nat) (skip : Bool)
  | tFree (l : Loc) (vals : List Val)
  | d1 (q : Qid)
  | d2 (q : Qid) (hb : Bid)
  | d3 (q : Qid) (b : Bid)
  | rPush | rPop (r : Option Val) | rLpop (r : Option Val) | rBulk (items : List Val) (n : Nat)
  | rSteal (r : Option Val) | rDrop
  | panic                     -- an `assert!` of the code would fire / a null `next` would be followed
  deriving DecidableEq, Repr

inductive Op
  | push (q : Qid) (v : Val) | lpop (q : Qid) | pop (q : Qid) | bulk (q : Qid) | steal (src : Qid)
  | drop (q : Qid) | empt (q : Qid)
  deriving DecidableEq, Repr

/-- environment: which API is called; adversarial outcome of comparisons that involve a freed block's address -/
inductive Env
  | start (o : Op)
  | go
  | adv (eq aba : Bool)
  deriving DecidableEq, Repr

def envEq : Env → Bool | .adv e _ => e | _ => false
def envAba : Env → Bool | .adv _ a => a | _ => false

/-- who obtained what: actor, queue, logical index, value, and whether it was dropped by `Drop` -/
structure Got where
  t : Tid
  q : Qid
  i : Nat
  v : Val
  dropped : Bool
  deriving DecidableEq, Repr

structure Sh where
  qs : Qid → Queue
  blks : Bid → Block
  nextB : Bid
  -- ghost
  uaf : Bool        -- a step accessed a field of a freed block
  uninit : Bool     -- a slot that was never written was read
  unpub : Bool      -- a slot at or beyond the published `tail.index` was read
  dfree : Bool      -- a block was freed twice
  got : List Got

def mkLoc (q : Qid) (k : Kind) (cx : Ctx) : Loc := ⟨q, k, cx, 0, 0, 0, 0⟩

/-- the access of a field of block `b` -/
def touch (sh : Sh) (b : Bid) : Sh := if (sh.blks b).freed then { sh with uaf := true } else sh

/-- generation `a` was freed before generation `b` was allocated: `b` may have been given the address of `a` -/
def reusedBy (sh : Sh) (a b : Bid) : Bool := (sh.blks a).freed && decide ((sh.blks a).fgen ≤ b)

/-- two different generations that can have the same address -/
def alias (sh : Sh) (a b : Bid) : Bool := reusedBy sh a b || reusedBy sh b a

/-- `ptr::eq` on block addresses: decided by the identifiers unless one block was freed before the other was
    allocated (then the addresses may or may not coincide) -/
def peq (sh : Sh) (a b : Bid) (g : Bool) : Bool :=
  if a = b then true else if alias sh a b then g else false

def afterPush (me : Tid) : PK → Pc
  | .plain => .rPush
  | .steal [] r => .rSteal r
  | .steal (x :: xs) r => .pu0 me x (.steal xs r)

/-- where a taker routine hands its result -/
def deliver (me : Tid) (l : Loc) (vals : List Val) : Pc :=
  match l.k, l.cx with
  | .pop, _ => .rPop vals.head?
  | .lpop, _ => .rLpop vals.head?
  | .bulk, .plain => .rBulk vals vals.length
  | .bulk, .steal => afterPush me (.steal vals.dropLast vals.getLast?)
  | .bulk, .drop => if vals.isEmpty then .d1 l.q else .t0 (mkLoc l.q .bulk .drop)
  | .empt, _ => .idle

def setHead (sh : Sh) (q : Qid) (h : HeadW) : Sh := { sh with qs := upd sh.qs q { (sh.qs q) with head := h } }
def setBlk (sh : Sh) (b : Bid) (f : Block → Block) : Sh := { sh with blks := upd sh.blks b (f (sh.blks b)) }

def freeBlk (sh : Sh) (b : Bid) : Sh :=
  let sh1 := if (sh.blks b).freed then { sh with dfree := true } else sh
  setBlk sh1 b fun bl => { bl with freed := true, fgen := sh.nextB }

/-- slot values of the logical range `[lo, hi)` read from block `b` -/
def readSlots (sh : Sh) (b : Bid) (lo hi : Nat) : List (Option Val) :=
  (List.range (hi - lo)).map fun j => (sh.blks b).data ((lo + j) % BSZ)

/-- steps of the program points that a taker routine can also reach without an event of its own
    (the API return after an "empty" test, the first load of `Drop` after its last `bulk_pop`) -/
def retStep (sh : Sh) : Pc → Option (Sh × Pc)
  | .rPush => some (sh, .idle)
  | .rPop _ => some (sh, .idle)
  | .rLpop _ => some (sh, .idle)
  | .rBulk [] _ => some (sh, .idle)
  | .rBulk (_ :: r) n => some (sh, .rBulk r n)
  | .rSteal _ => some (sh, .idle)
  | .rDrop => some (sh, .idle)
  | .d1 q => some (sh, .d2 q (sh.qs q).head.blk)
  | _ => none

def tstep (sh : Sh) (me : Tid) : Pc → Env → Option (Sh × Pc)
  | .idle, .start (.push q v) => if q = me then some (sh, .pu0 q v .plain) else none
  | .idle, .start (.lpop q) => if q = me then some (sh, .t0 (mkLoc q .lpop .plain)) else none
  | .idle, .start (.pop q) => some (sh, .t0 (mkLoc q .pop .plain))
  | .idle, .start (.bulk q) => some (sh, .t0 (mkLoc q .bulk .plain))
  | .idle, .start (.steal q) => if q = me then none else some (sh, .t0 (mkLoc q .bulk .steal))
  | .idle, .start (.drop q) =>
      some ({ sh with qs := upd sh.qs q { (sh.qs q) with dead := true } }, .t0 (mkLoc q .bulk .drop))
  | .idle, .start (.empt q) => some (sh, .t0 (mkLoc q .empt .plain))
  | .idle, _ => none
  | .panic, _ => none
  -- push
  | .pu0 q v k, _ => some (sh, .pu1 q v (sh.qs q).tblk k)
  | .pu1 q v tb k, _ =>
      let pi := (sh.qs q).tidx
      let sh1 := setBlk (touch sh tb) tb fun bl => { bl with data := upd bl.data (pi % BSZ) (some v) }
      some (sh1, if (pi + 1) % BSZ = 0 then .pu2 q tb pi k else .pu4 q pi k)
  | .pu2 q tb pi k, _ =>
      let nb := sh.nextB
      let sh1 := touch sh tb
      let sh2 := { sh1 with nextB := nb + 1, blks := upd sh1.blks nb (newBlock q (pi + 1)),
                            qs := upd sh1.qs q { (sh1.qs q) with last := nb } }
      some (setBlk sh2 tb fun bl => { bl with next := some nb }, .pu3 q nb pi k)
  | .pu3 q nb pi k, _ => some ({ sh with qs := upd sh.qs q { (sh.qs q) with tblk := nb } }, .pu4 q pi k)
  | .pu4 q pi k, _ => some ({ sh with qs := upd sh.qs q { (sh.qs q) with tidx := pi + 1 } }, afterPush me k)
  -- takers
  | .t0 l, _ => some (sh, .t1 { l with hb := (sh.qs l.q).head.blk, hi := (sh.qs l.q).head.idx })
  | .t1 l, _ => some (sh, .t2 { l with pi := (sh.qs l.q).tidx })
  | .t2 l, _ => some (sh, if l.k = .empt then .tE { l with tb := (sh.qs l.q).tblk } else .tT { l with tb := (sh.qs l.q).tblk })
  | .tE _, _ => some (sh, .idle)
  | .tT l, env =>
      let e := peq sh l.hb l.tb (envEq env)
      let pid := l.pi % BSZ
      if e && decide (pid ≤ l.hi) then retStep sh (deliver me l [])
      else
        let lk : Bool := match l.k with | .bulk => !e | _ => decide (l.hi = BSZ - 1)
        let nid : Nat := match l.k with | .bulk => (if e then pid else 0) | _ => l.hi + 1
        let cur := (sh.qs l.q).head
        let okb : Bool := decide (cur.blk = l.hb) || (envAba env && reusedBy sh l.hb cur.blk)
        if !cur.lock && decide (cur.idx = l.hi) && okb then
          some (setHead sh l.q (if lk then ⟨cur.blk, l.hi, true⟩ else ⟨cur.blk, nid, false⟩),
                .t4 { l with hb := cur.blk } lk nid)
        else
          let l' := { l with hb := cur.blk, hi := cur.idx }
          some (sh, if l.k = .lpop then .tT l' else .t1 l')
  | .t4 l lk nid, _ =>
      let sh1 := touch sh l.hb
      let bs := (sh.blks l.hb).start
      let lo := bs + l.hi
      match l.k with
      | .pop => some (sh1, if lk then .t5 l lo else .t8 l lo (lo + 1))
      | .bulk => some (sh1, if lk then .t5 l lo else .t8 l lo (bs + nid))
      | .lpop =>
          if lk then some (sh1, if l.pi ≤ lo then .t6r l else .t6 l lo (lo + 1))
          else if l.pi ≤ lo then some (sh1, if lo = l.pi then .t9 l lo else .panic)
          else some (sh1, .tF l lo (lo + 1) false)
      | .empt => none
  | .t5 l lo, _ =>
      let pi := (sh.qs l.q).tidx
      if pi ≤ lo then some (sh, .t6r l)
      else match l.k with
        | .bulk =>
            let e := min (lo - l.hi + BSZ) pi
            some (sh, if e % BSZ = 0 then .t6 l lo e else .t7 l lo e ⟨l.hb, e % BSZ, false⟩)
        | _ => some (sh, .t6 l lo (lo + 1))
  | .t6r l, _ => some (setHead sh l.q ⟨l.hb, l.hi, false⟩, deliver me l [])
  | .t6 l lo hi, _ =>
      match (sh.blks l.hb).next with
      | some nx => some (touch sh l.hb, .t7 l lo hi ⟨nx, 0, false⟩)
      | none => some (touch sh l.hb, .panic)
  | .t7 l lo hi nh, _ => some (setHead sh l.q nh, .tF l lo hi false)
  | .t8 l lo hi, _ => some (sh, if hi ≤ (sh.qs l.q).tidx then .tF l lo hi false else .t8 l lo hi)
  | .t9 l lo, _ => some ({ sh with qs := upd sh.qs l.q { (sh.qs l.q) with tidx := l.pi + 1 } }, .tF l lo (lo + 1) true)
  | .tF l lo hi skip, _ =>
      let sh1 := touch sh l.hb
      let sz := hi - lo
      let old := (sh.blks l.hb).used
      let slots := if skip then [] else readSlots sh l.hb lo hi
      let vals := slots.map fun o => o.getD 0
      let gots := (List.range slots.length).map fun j => (⟨me, l.q, lo + j, vals.getD j 0, l.cx == .drop⟩ : Got)
      let sh2 := { sh1 with uninit := sh1.uninit || slots.any (·.isNone),
                            unpub := sh1.unpub || (!skip && decide ((sh.qs l.q).tidx < hi)),
                            got := sh1.got ++ gots }
      let sh3 := setBlk sh2 l.hb fun bl => { bl with used := old - sz }
      some (sh3, if old = sz then .tFree l vals else deliver me l vals)
  | .tFree l vals, _ => some (freeBlk sh l.hb, deliver me l vals)
  -- Drop
  | .d1 q, _ => retStep sh (.d1 q)
  | .d2 q hb, _ => some (sh, if (sh.qs q).tblk = hb then .d3 q hb else .panic)
  | .d3 q b, _ =>
      let sh1 := freeBlk sh b
      some ({ sh1 with qs := upd sh1.qs q { (sh1.qs q) with gone := true } }, .rDrop)
  -- API returns
  | .rPush, _ => retStep sh .rPush
  | .rPop r, _ => retStep sh (.rPop r)
  | .rLpop r, _ => retStep sh (.rLpop r)
  | .rBulk i n, _ => retStep sh (.rBulk i n)
  | .rSteal r, _ => retStep sh (.rSteal r)
  | .rDrop, _ => retStep sh .rDrop

structure St where
  n : Nat
  sh : Sh
  pcs : Tid → Pc

/-- actor `t` at `pc` is inside a routine that has a reference to queue `q` -/
def onQ (t : Tid) (pc : Pc) (q : Qid) : Bool :=
  let viaLoc := fun (l : Loc) => l.q == q || (l.cx == .steal && t == q)
  match pc with
  | .pu0 q' .. | .pu1 q' .. | .pu2 q' .. | .pu3 q' .. | .pu4 q' .. => q' == q
  | .t0 l | .t1 l | .t2 l | .tT l | .tE l | .t4 l .. | .t5 l _ | .t6r l | .t6 l .. | .t7 l .. | .t8 l .. | .t9 l _
  | .tF l .. | .tFree l _ => viaLoc l
  | .d1 q' | .d2 q' _ | .d3 q' _ => q' == q
  | _ => false

def alive (s : St) (q : Qid) : Bool := decide (q < s.n) && !(s.sh.qs q).dead

/-- may actor `t` call this API now? (queue exists, its `Drop` has not started; `Drop` needs exclusive access) -/
def opOk (s : St) (t : Tid) : Op → Bool
  | .push q _ | .lpop q | .pop q | .bulk q | .empt q => alive s q
  | .steal q => alive s q && alive s t
  | .drop q => alive s q && (List.range s.n).all fun u => !onQ u (s.pcs u) q

def guard (s : St) (t : Tid) (e : Env) : Bool :=
  match s.pcs t, e with
  | .idle, .start o => opOk s t o
  | _, _ => true

def step (s : St) (t : Tid) (e : Env) : Option St :=
  if t < s.n ∧ guard s t e = true then
    match tstep s.sh t (s.pcs t) e with
    | none => none
    | some (sh', pc') => some ⟨s.n, sh', upd s.pcs t pc'⟩
  else none

/-- `n` actors, `n` queues; queue `q` is owned by actor `q` and starts with block `q` (start index 0) -/
def init (n : Nat) : St :=
  ⟨n, ⟨fun q => ⟨⟨q, 0, false⟩, 0, q, q, false, false⟩, fun b => newBlock b 0, n, false, false, false, false, []⟩,
   fun _ => .idle⟩

/-- every finite schedule: disabled choices are skipped, so `∀ sched` is every interleaving -/
def run (s : St) : List (Tid × Env) → St
  | [] => s
  | (t, e) :: r => match step s t e with
    | some s' => run s' r
    | none => run s r

end MayVerif.Spmc
