/-
  Observable events of the level-B mpsc model and its replay machine (family `mq_mpsc`): the driver executes the very
  `step` function of `Model/Queue/Mpsc.lean` (and, through it, `MpscA.tstep`) on traces of the real code.

  Block ids of the model are tied to the block tokens of the trace (`MpscBlock3`) by a bijection kept in the replay
  state: a model allocation step must be a `born` note with a token that is not in use, and from then on every
  operand / result / object instance that mentions the block must print as that token: `MpscBlock3` (pointer),
  `MpscBlock3+5` (packed tail word: block + index), `MpscBlock3+63!` (closing bit), `…@MpscBlock3[5]` (slot 5).
  After every replayed step the executable checks below run: no use-after-free / double free / failed assertion in
  the model, the level-A step was enabled and its pc is the projection of the concrete pc (`simBad`), no level-A
  response disagreed with the abstract FIFO, and (at API returns) the concrete state is the image of the level-A
  state: tail word ↔ `res`/`closing`, `head.index` ↔ `head`, per-slot `ready`/value of the unconsumed window.
-/
import MayVerif.Core.Trace
import MayVerif.Generated.ConstsMpsc
import MayVerif.Model.Queue.Mpsc
namespace MayVerif.Mpsc
open MayVerif.MpscA (Ret)

structure RSt where
  st : St
  toks : List (Nat × String) := []
  full : Bool := false          -- the last step was an API return: run the full state-correspondence check

/-- the event the model expects (all fields as they print in the trace) -/
structure XEv where
  kind : String := "a"
  obj : String := "-"
  inst : String := ""
  op : String
  a1 : String := "0"
  a2 : String := "0"
  res : String := "0"
  flag : Nat := 2
  ord : String := "-"

def XEv.str (x : XEv) : String :=
  let o := if x.inst == "" then x.obj else s!"{x.obj}@{x.inst}"
  s!"{x.kind} {o} {x.op} {x.a1} {x.a2} -> {x.res} flag={x.flag} {x.ord}"

/-- `"*"` in an operand position matches anything (used only for a stale word whose block has been freed: its
    address may have been reused, so the trace may print it under another block's token) -/
def XEv.matches (x : XEv) (e : Event) : Bool :=
  x.kind == e.kind && x.obj == e.obj && x.inst == e.inst && x.op == e.op && (x.a1 == "*" || x.a1 == e.a1.str) &&
  (x.kind == "ret" || x.a2 == "*" || x.a2 == e.a2.str) && x.res == e.res.str && x.flag == e.flag && x.ord == e.ord

def tokOf (r : RSt) (b : Nat) : String :=
  match r.toks.find? (·.1 == b) with
  | some p => p.2
  | none => s!"?block{b}"

/-- a (packed) block pointer as the canonicaliser prints it -/
def wstr (r : RSt) (w : Word) : String :=
  let t := tokOf r w.blk
  let bang := if w.closing then "!" else ""
  if r.st.sh.live w.blk then (if w.idx == 0 && !w.closing then t else s!"{t}+{w.idx}{bang}")
  else s!"Freed_{t}+{w.idx}{bang}"

def pstr (r : RSt) (b : Nat) : String := wstr r ⟨b, 0, false⟩
def ostr (r : RSt) : Option Nat → String
  | none => "0"
  | some b => pstr r b
def b2s (b : Bool) : String := if b then "1" else "0"

def tailEv (r : RSt) : XEv :=
  { obj := "mq.mpsc.BlockPtr.0", inst := "0", op := "load", res := wstr r r.st.sh.tail, ord := "Acquire" }
def readyEv (r : RSt) (b i : Nat) : XEv :=
  { obj := "mq.mpsc.ready", inst := s!"{tokOf r b}[{i}]", op := "load", res := b2s (r.st.sh.ready b i), ord := "Acquire" }
def nextEv (r : RSt) (b : Nat) : XEv :=
  { obj := "mq.mpsc.next", inst := tokOf r b, op := "load", res := ostr r (r.st.sh.next b), ord := "Acquire" }
/-- the non-atomic slot accesses: `swrite idx value` / `sread idx -> value found` on the block -/
def swriteEv (r : RSt) (b i v : Nat) : XEv :=
  { obj := "mq.mpsc._slot", inst := tokOf r b, op := "swrite", a1 := toString i, a2 := toString v }
def sreadEv (r : RSt) (b i : Nat) : XEv :=
  { obj := "mq.mpsc._slot", inst := tokOf r b, op := "sread", a1 := toString i, res := toString (r.st.sh.val b i) }
def freeEv (r : RSt) (b : Nat) : XEv := { kind := "note", op := "free", a1 := tokOf r b }
def idxU (r : RSt) : XEv := { obj := "mq.mpsc.index", inst := "0", op := "uload", res := toString r.st.sh.headIdx }
def blkU (r : RSt) : XEv := { obj := "mq.mpsc.block", inst := "0", op := "uload", res := pstr r r.st.sh.headBlk }
def idxStore (n : Nat) : XEv := { obj := "mq.mpsc.index", inst := "0", op := "store", a1 := toString n, ord := "Relaxed" }

def retEv : Ret → List XEv
  | .unit => [{ kind := "ret", op := "mq.push" }, { kind := "ret", op := "mq.drop" }]
  | .pop none => [{ kind := "ret", op := "mq.pop", a1 := "-1" }]
  | .pop (some v) => [{ kind := "ret", op := "mq.pop", a1 := toString v }]
  | .bulk l => [{ kind := "ret", op := "mq.bulk_pop", a1 := toString l.length }]
  | .peek none => [{ kind := "ret", op := "mq.peek", a1 := "-1" }]
  | .peek (some v) => [{ kind := "ret", op := "mq.peek", a1 := toString v }]
  | .len n => [{ kind := "ret", op := "mq.len", a1 := toString n }]
  | .empty b => [{ kind := "ret", op := "mq.is_empty", a1 := b2s b }]

/-- the event(s) the step of `pc` under `e` must print as, from the state BEFORE the step; `none` = an allocation
    (a `born` note whose fresh token is bound to the new block id) -/
def expect (r : RSt) (pc : Pc) (e : Env) : Option (List XEv) :=
  let s := r.st.sh
  match pc, e with
  | .idle, .new => some [{ kind := "call", op := "mq.new" }]
  | .idle, .push v => some [{ kind := "call", op := "mq.push", a1 := toString v }]
  | .idle, .pop => some [{ kind := "call", op := "mq.pop" }]
  | .idle, .bulk => some [{ kind := "call", op := "mq.bulk_pop" }]
  | .idle, .peek => some [{ kind := "call", op := "mq.peek" }]
  | .idle, .len => some [{ kind := "call", op := "mq.len" }]
  | .idle, .isEmpty => some [{ kind := "call", op := "mq.is_empty" }]
  | .idle, .drop => some [{ kind := "call", op := "mq.drop" }]
  | .idle, _ => some []
  | .nAlloc0, _ | .nAlloc1 _, _ | .pAlloc _, _ => none
  | .nLink b0 b1, _ => some [{ obj := "mq.mpsc.next", inst := tokOf r b0, op := "store", a1 := pstr r b1, ord := "Relaxed" }]
  | .nRet, _ => some [{ kind := "ret", op := "mq.new" }]
  | .pLoad _, _ => some [tailEv r]
  | .pCas _ w, e =>
      let ok := s.tail = w
      let exp := if ok || e != .aba then w else { s.tail with closing := false }
      let stale := !ok && e != .aba && !s.live w.blk
      some [{ obj := "mq.mpsc.BlockPtr.0", inst := "0", op := "cas", a1 := if stale then "*" else wstr r exp,
              a2 := if stale then "*" else wstr r (nextWord s.B exp),
              res := wstr r s.tail, flag := if ok || e == .aba then 1 else 0, ord := "AcqRel" }]
  | .pWrite v b i, _ => some [swriteEv r b i v]
  | .oRead _ _ hb pi, _ | .kRead hb pi, _ => some [sreadEv r hb (pi % s.B)]
  | .bFastRd hb ci _, _ | .bCopyRd hb ci _ _, _ => some [sreadEv r hb (ci % s.B)]
  | .pSet _ b i, _ => some [{ obj := "mq.mpsc.ready", inst := s!"{tokOf r b}[{i}]", op := "store", a1 := "1", ord := "Release" }]
  | .pWait b _, _ => some [nextEv r b]
  | .pLink nx nn, _ => some [{ obj := "mq.mpsc.next", inst := tokOf r nx, op := "store", a1 := pstr r nn, ord := "Release" }]
  | .pTail nx, _ => some [{ obj := "mq.mpsc.BlockPtr.0", inst := "0", op := "store", a1 := pstr r nx, ord := "Release" }]
  | .oBlk _, _ | .bBlk _, _ | .kBlk _, _ => some [blkU r]
  | .oIdx .., _ | .bIdx, _ | .kIdx, _ => some [idxU r]
  | .oTry _ hb pi, _ | .oSpin _ hb pi, _ | .kSpin hb pi, _ => some [readyEv r hb (pi % s.B)]
  | .bFast hb ci _, _ | .bCopy hb ci _ _, _ => some [readyEv r hb (ci % s.B)]
  | .oTail .., _ | .bTail .., _ | .kTail _, _ | .lTail .., _ | .dTail _, _ => some [tailEv r]
  | .oStore _ _ pi _, _ => some [idxStore (pi + 1)]
  | .bStore _ ni _, _ => some [idxStore ni]
  | .rFree _ _, _ => some [freeEv r (s.old.getD 0)]
  | .rNext hb _, _ => some [nextEv r hb]
  | .rHead nx _, _ => some [{ obj := "mq.mpsc.block", inst := "0", op := "store", a1 := pstr r nx, ord := "Relaxed" }]
  | .lIdx _, _ => some [{ obj := "mq.mpsc.index", inst := "0", op := "load", res := toString s.headIdx, ord := "Acquire" }]
  | .dHead, _ => some [{ obj := "mq.mpsc.block", inst := "0", op := "load", res := pstr r s.headBlk, ord := "Acquire" }]
  | .dNext b, _ => some [nextEv r b]
  | .dFree1 _ nx, _ => some [freeEv r nx]
  | .dFree2 b, _ => some [freeEv r b]
  | .dFree3 ob, _ => some [freeEv r ob]
  | .ret x, _ => some (retEv x)

def pcName : Pc → String
  | .idle => "idle" | .nAlloc0 => "nAlloc0" | .nAlloc1 _ => "nAlloc1" | .nLink .. => "nLink" | .nRet => "nRet"
  | .pLoad _ => "pLoad" | .pCas .. => "pCas" | .pWrite .. => "pWrite" | .pSet .. => "pSet" | .pAlloc _ => "pAlloc" | .pWait .. => "pWait"
  | .pLink .. => "pLink" | .pTail _ => "pTail"
  | .oBlk d => if d then "oBlk.d" else "oBlk" | .oIdx .. => "oIdx" | .oTry .. => "oTry" | .oTail .. => "oTail"
  | .oSpin .. => "oSpin" | .oRead .. => "oRead" | .oStore .. => "oStore"
  | .rFree .. => "rFree" | .rNext .. => "rNext" | .rHead .. => "rHead"
  | .bIdx => "bIdx" | .bBlk _ => "bBlk" | .bFast .. => "bFast" | .bFastRd .. => "bFastRd" | .bStore .. => "bStore" | .bTail .. => "bTail"
  | .bCopy .. => "bCopy" | .bCopyRd .. => "bCopyRd"
  | .kIdx => "kIdx" | .kTail _ => "kTail" | .kBlk _ => "kBlk" | .kSpin .. => "kSpin" | .kRead .. => "kRead"
  | .lIdx _ => "lIdx" | .lTail .. => "lTail"
  | .dHead => "dHead" | .dTail _ => "dTail" | .dNext _ => "dNext" | .dFree1 .. => "dFree1" | .dFree2 _ => "dFree2"
  | .dFree3 _ => "dFree3"
  | .ret (.unit) => "ret" | .ret (.pop none) => "ret.none" | .ret (.pop (some _)) => "ret.some"
  | .ret (.bulk []) => "ret.bulk0" | .ret (.bulk _) => "ret.bulk" | .ret (.peek none) => "ret.peek0"
  | .ret (.peek (some _)) => "ret.peek" | .ret (.len _) => "ret.len" | .ret (.empty _) => "ret.empty"

def envsFor (pc : Pc) (ev : Event) : List Env :=
  match pc with
  | .idle =>
    if ev.kind != "call" then [] else
    match ev.op, ev.a1 with
    | "mq.new", _ => [.new]
    | "mq.push", .num v => [.push v.toNat]
    | "mq.pop", _ => [.pop]
    | "mq.bulk_pop", _ => [.bulk]
    | "mq.peek", _ => [.peek]
    | "mq.len", _ => [.len]
    | "mq.is_empty", _ => [.isEmpty]
    | "mq.drop", _ => [.drop]
    | _, _ => []
  | _ => [.go]

/-- a generic label that matches the event (the comparison was done on the rendered expectation) -/
def okLabel (ev : Event) : Label := { kind := ev.kind, obj := ev.obj, op := ev.op }
/-- a label that cannot match, carrying the expectation for the divergence report -/
def noLabel (xs : List XEv) : Label := { kind := "expected", op := " | ".intercalate (xs.map XEv.str) }

def cands (r : RSt) (t : Nat) (ev : Event) : List (Label × RSt × String) :=
  let s := r.st
  let pc := s.pcs t
  -- the values of a bulk_pop are reported one by one before its return: observations of the pc
  if ev.kind == "call" && ev.op == "mq.bulk.item" then
    match pc, ev.a1, ev.a2 with
    | .ret (.bulk l), .num i, .num v =>
      if l[i.toNat]? == some v.toNat then [(okLabel ev, { r with full := false }, "bulk.item")]
      else [(noLabel [{ kind := "call", op := "mq.bulk.item", a1 := toString i, a2 := toString (l[i.toNat]?.getD 0) }], r, "")]
    | _, _, _ => []
  else
    -- the `.aba` environment is offered only where it differs from `.go` (the engine keeps every matching candidate
    -- as an alternative, so identical successors must not be offered twice)
    let envs : List Env := match pc with
      | .pCas _ w =>
        let sh := s.sh
        if sh.tail != w && !sh.live w.blk && w.idx == sh.tail.idx && !sh.tail.closing && sh.start w.blk < sh.start sh.tail.blk
        then [.go, .aba] else [.go]
      | _ => envsFor pc ev
    envs.filterMap fun e =>
      match step s t e with
      | none => none
      | some s' =>
        let nm := pcName pc ++ ">" ++ pcName (s'.pcs t) ++ (if e == .aba then "/aba" else "")
        match expect r pc e with
        | none =>
          -- allocation: a `born` note with a fresh block token
          match ev.a1 with
          | .id tok =>
            if ev.kind == "note" && ev.op == "born" && tok.startsWith "MpscBlock" && !(r.toks.any (·.2 == tok)) then
              some (okLabel ev, { st := s', toks := (s.sh.nb, tok) :: r.toks, full := false }, nm)
            else some (noLabel [{ kind := "note", op := "born", a1 := "<fresh MpscBlock token>" }], r, nm)
          | _ => some (noLabel [{ kind := "note", op := "born", a1 := "<fresh MpscBlock token>" }], r, nm)
        | some xs =>
          if xs.any (·.matches ev) then some (okLabel ev, { r with st := s', full := ev.kind == "ret" }, nm)
          else some (noLabel xs, r, nm)

/-- the block that holds logical slot `i` (live blocks only) -/
def blockAt (sh : Sh) (i : Nat) : Option Nat :=
  (List.range sh.nb).find? fun b => sh.live b && sh.start b == i / sh.B * sh.B

/-- concrete state = image of the level-A state (checked at API returns) -/
def relOk (s : St) (full : Bool) : Option String :=
  let sh := s.sh
  let a := sh.a
  if !sh.alive then none
  else if sh.tail.closing != a.closing then some s!"closing bit {sh.tail.closing} but level A has {a.closing}"
  else if sh.start sh.tail.blk + sh.tail.idx != MpscA.pushIndex a then
    some s!"tail word stands for index {sh.start sh.tail.blk + sh.tail.idx}, level A push_index = {MpscA.pushIndex a}"
  else if sh.headIdx > a.head then some s!"head.index {sh.headIdx} > level A head {a.head}"
  else if s.pcs 0 == .idle && sh.headIdx != a.head then some s!"consumer idle, head.index {sh.headIdx} ≠ level A head {a.head}"
  else if !full then none
  else
    let bad := (List.range (a.res - a.head)).find? fun k =>
      let i := a.head + k
      match blockAt sh i with
      | none => true
      | some b => sh.ready b (i % sh.B) != a.ready i || (a.ready i && sh.val b (i % sh.B) != a.val i)
    match bad with
    | some k => some s!"slot {a.head + k}: block-level ready/value differs from level A"
    | none =>
      if s.pcs 0 == .idle && (blockAt sh a.head).isSome && blockAt sh a.head != some sh.headBlk && a.head % sh.B != 0 then
        some "head.block is not the block of head.index"
      else none

def invChk (r : RSt) : Option String :=
  let sh := r.st.sh
  if sh.uaf then some "model: a step touched a block that is not live (use after free)"
  else if sh.dfree then some "model: a block was freed twice"
  else if sh.panic then some "model: an assertion of Queue::drop failed"
  else if sh.simBad then some "level B step is not a level A step (simulation broken)"
  else if sh.a.badNone then some "level A: None / empty returned while the abstract FIFO was not empty"
  else if sh.a.badVal then some "level A: a returned value is not the head of the abstract FIFO"
  else if sh.a.badLen then some "level A: len / is_empty disagrees with the abstract FIFO"
  else relOk r.st r.full

def machine : Machine where
  St := RSt
  init := fun h =>
    match hnat h "actors", hnat h "B" with
    | some n, some b =>
      if b == ConstsMpsc.MPSC_BLOCK_SIZE then .ok { st := init b n }
      else .error s!"block size of the running code ({b}) differs from the generated constant ({ConstsMpsc.MPSC_BLOCK_SIZE})"
    | _, _ => .error "mq_mpsc scenario without actors= / B="
  actor := fun r a => if a.startsWith "t" then ((a.drop 1).toString.toNat?).bind (fun t => if t < r.st.n then some t else none) else none
  cands := cands
  inv := invChk
  where_ := fun r t => pcName (r.st.pcs t)
  atEnd := fun r =>
    let s := r.st
    if !(List.range s.n).all (fun t => s.pcs t == .idle) then some "not every actor is idle at the end of a finished run"
    else if s.sh.created && !s.sh.alive then
      (if (List.range s.sh.nb).any (fun b => s.sh.live b) then some "a block is still allocated after Queue::drop"
       else if !s.sh.a.A.isEmpty then some "abstract FIFO not empty after Queue::drop"
       else if s.sh.a.pushed.length != s.sh.a.popped.length then some "pushed and handed-out counts differ after Queue::drop"
       else none)
    else none
  skip := fun e => e.kind == "blk" || (e.kind == "note" && e.op != "born" && e.op != "free")

end MayVerif.Mpsc
