/-
  Model of `may_queue::mpsc_list_v1::Queue` / `Entry` (may_queue/src/mpsc_list_v1.rs), the removable
  multi-producer list behind the timers: one `tstep` case per shared-memory access of the code, in
  program order, at pointer level (nodes `{prev, next, value, refs = link bit + count}`, atomic `head`,
  consumer-owned `tail` = the stub).

      push(v):     pSwap   node = Node::new(Some v); prev = head.swap(node)
                   pPrev   (*node).prev = prev
                   pLink   (*prev).next.store(node)
                   pTail   tail' = *self.tail.get();  is_head = (tail' == prev)         (racy read)
      pop():       oHead   head.load() == tail ? None
                   oAnd    (*tail).refs.fetch_and(MASK)  oNext  next = (*tail).next.load()  (spin while null)
                   cPrev   (*next).prev = null           cTail  *self.tail.get() = next
                   cTake   (*next).value.take()          cDec   (*tail_old).refs.fetch_sub(1) == 1 ? free
      pop_if(f):   iHead, iNext (spin; then f(value) ? go on : None), iAnd, then cPrev .. cDec
      peek():      kHead, kNext (spin; value)            is_empty():  eHead
      remove(h):   rRefs   link bit clear ? None         rPrev  prev == null ? None
                   rNext   next = node.next.load(); null ? None
                   rAnd    node.refs.fetch_and(MASK)     rSetPrev (*next).prev = prev
                   rSetNext prev.next.store(next)        rTake  node.value.take()
                   rDec    node.refs.fetch_sub(1)        rDrop  (Entry::drop) node.refs.fetch_sub(1) == 1 ? free
      is_link(h):  lRefs                                 drop(h):  dDec
      drop(queue): the pop loop (`k = true` in the pop program points: `while self.pop().is_some() {}`), then
                   qAnd    (*tail).refs.fetch_and(MASK)  qDec   (*tail).refs.fetch_sub(1) == 1 ? free
                   (`fix = false` is the pinned tree: the stub is freed unconditionally – kept for the witness of defect F12)

  This is the model of the *fixed* code (pending_fixes F12: `Queue::drop` retires the stub like `pop` does; F13: `refs` is an
  `AtomicUsize`, so the link bit and the count are updated by atomic read-modify-writes and handles may be inspected and
  dropped on any thread).

  Node identifiers are handed out at the `swap` (the model is free to name nodes: the replay unifies
  model ids with trace tokens by a bijection), so **the id order is the swap order**: `0` = null,
  `1` = the initial stub, `k+1` = the k-th pushed node.

  Actor 0 is the (single) consumer: only it may start pop / pop_if / peek / is_empty / remove and drop the queue
  (the latter only while nobody else is inside a queue operation – ownership – and nobody may start one afterwards).
  Every actor may push, and may inspect / drop an existing handle, also after the queue is gone.

  Ghost fields (never read by a non-ghost update): `L` (the member list of DESIGN App. G.1: pushed,
  neither popped nor removed, in swap order), `st` (per node: member / popped / removed), `lk`, `sp`,
  `own`, `ts`, `pv`, `popped`, `removed` (append-only logs of the nodes that left by pop / by remove),
  `out`, `ih`, `rd`, and the owners of the two references of a node: `lr` (the list), `hr` (the handle), `hin` (the handle is
  inside a call of actor `hby`), `tr` (the queue still owns its stub). `hnd`, `nid`, `freed`, `fa` are the model's view of handle
  ownership and of the allocator (they guard the API-typing of handles and the `aba` choice only).
-/
namespace MayVerif.TimerList

notation "Tid" => Nat
notation "Nid" => Nat

@[grind] def upd {α : Type} (f : Nat → α) (t : Nat) (v : α) : Nat → α := fun u => if u = t then v else f u

/-- ghost status of a node id: not (yet) an entry (null, the initial stub, unborn) / member of the list /
    left by pop or pop_if / left by remove -/
inductive NSt | none | member | popped | removed
  deriving DecidableEq, Repr

inductive Pc
  | idle
  | ret (r : Int)                                   -- the operation is finished, `r` is what the API returns (-1 = None)
  | pSwap (v : Nat) | pPrev (n p : Nid) | pLink (n p : Nid) | pTail (n p : Nid)
  | oHead (k : Bool) | oAnd (k : Bool) | oNext (k : Bool)        -- `k`: inside `Queue::drop`'s pop loop
  | iHead (acc : List Nat) | iNext (acc : List Nat) | iAnd (x : Nid)
  | cPrev (x : Nid) (k : Bool) | cTail (x : Nid) (k : Bool) | cTake (o x : Nid) (k : Bool) | cDec (o : Nid) (v : Nat) (k : Bool)
  | qAnd | qDec
  | kHead | kNext | eHead
  | rRefs (m : Nid) | rPrev (m : Nid) | rNext (m : Nid)
  | rAnd (m p x : Nid) | rSetPrev (m p x : Nid) | rSetNext (m p x : Nid) | rTake (m : Nid)
  | rDec (m : Nid) (r : Int) | rDrop (m : Nid) (r : Int)
  | lRefs (m : Nid) | dDec (m : Nid)
  deriving DecidableEq, Repr

/-- caller / environment choices: which API is called (the predicate of `pop_if` is the set `acc` of
    accepted values), and `aba`: the allocator gave the address of the freed swap-time predecessor to the
    node that is the stub now (possible only if the stub was swapped in after that free), so the pointer
    comparison of `push` succeeds spuriously -/
inductive Env
  | push (v : Nat) | pop | popIf (acc : List Nat) | peek | isEmpty
  | remove (m : Nid) | isLink (m : Nid) | drop (m : Nid) | qdrop
  | aba | go
  deriving DecidableEq, Repr

structure Sh where
  head : Nid
  tail : Nid
  prev : Nid → Nid
  next : Nid → Nid
  val : Nid → Option Nat
  lnk : Nid → Bool          -- link bit of `refs`
  rc : Nid → Nat            -- count part of `refs`
  freed : Nid → Bool
  nid : Nid                 -- next fresh node id
  hnd : Nid → Bool          -- the handle of the node exists and is not borrowed / moved into a call
  dead : Bool               -- `Queue::drop` has started: no queue operation may start any more
  fix : Bool                -- constant: true = the fixed `Queue::drop`, false = the pinned one (frees the stub unconditionally)
  -- ghost
  fa : Nid → Nid            -- `nid` at the moment the node was freed (nodes swapped later have ids ≥ fa)
  L : List Nid
  st : Nid → NSt
  lk : Nid → Bool           -- the producer has stored `prev.next`
  sp : Nid → Nid            -- swap-time predecessor (the value returned by the swap)
  own : Nid → Tid           -- the actor that pushed the node
  ts : Nid → Nid            -- the stub at the moment of the swap
  pv : Nid → Nat            -- pushed value
  popped : List Nid
  removed : List Nid
  out : Nid → Option Nat    -- the value that left the list with this node
  ih : Nid → Bool           -- `is_head` reported by the push of this node
  rd : Nid → Bool           -- the push of this node has read `tail` (its report is made)
  lr : Nid → Bool           -- the list holds its reference on the node
  hr : Nid → Bool           -- the handle side holds its reference on the node
  hin : Nid → Bool          -- the handle is inside a call (moved into remove / drop, borrowed by is_link)
  hby : Nid → Tid           -- … of this actor
  tr : Bool                 -- the queue has not yet given up its stub (false after the last step of `Queue::drop`)

/-- `if refs.fetch_sub(1) == 1 { free }` (an underflow of the count part cannot be expressed: blocked, proved unreachable) -/
def decRef (sh : Sh) (m : Nid) (list : Bool) : Option Sh :=
  if sh.rc m = 0 then none
  else some { sh with rc := upd sh.rc m (sh.rc m - 1),
                      lr := if list = true then upd sh.lr m false else sh.lr,
                      hr := if list = true then sh.hr else upd sh.hr m false,
                      hin := if list = true then sh.hin else upd sh.hin m false,
                      freed := if sh.rc m = 1 ∧ sh.lnk m = false then upd sh.freed m true else sh.freed,
                      fa := if sh.rc m = 1 ∧ sh.lnk m = false then upd sh.fa m sh.nid else sh.fa }

def b2i (b : Bool) : Int := if b then 1 else 0

def tstep (sh : Sh) (me : Tid) : Pc → Env → Option (Sh × Pc)
  -- API calls and returns
  | .idle, .push v => if sh.dead = false then some (sh, .pSwap v) else none
  | .idle, .pop => if me = 0 ∧ sh.dead = false then some (sh, .oHead false) else none
  | .idle, .popIf acc => if me = 0 ∧ sh.dead = false then some (sh, .iHead acc) else none
  | .idle, .peek => if me = 0 ∧ sh.dead = false then some (sh, .kHead) else none
  | .idle, .isEmpty => if me = 0 ∧ sh.dead = false then some (sh, .eHead) else none
  | .idle, .qdrop => if me = 0 ∧ sh.dead = false then some ({ sh with dead := true }, .oHead true) else none
  | .idle, .remove m => if me = 0 ∧ sh.hnd m = true then some ({ sh with hnd := upd sh.hnd m false, hin := upd sh.hin m true, hby := upd sh.hby m me }, .rRefs m) else none
  | .idle, .isLink m => if sh.hnd m = true then some ({ sh with hnd := upd sh.hnd m false, hin := upd sh.hin m true, hby := upd sh.hby m me }, .lRefs m) else none
  | .idle, .drop m => if sh.hnd m = true then some ({ sh with hnd := upd sh.hnd m false, hin := upd sh.hin m true, hby := upd sh.hby m me }, .dDec m) else none
  | .idle, _ => none
  | .ret _, _ => some (sh, .idle)
  -- push
  | .pSwap v, _ =>
      some ({ sh with head := sh.nid, nid := sh.nid + 1,
                      prev := upd sh.prev sh.nid 0, next := upd sh.next sh.nid 0, val := upd sh.val sh.nid (some v),
                      lnk := upd sh.lnk sh.nid true, rc := upd sh.rc sh.nid 2, lr := upd sh.lr sh.nid true, hr := upd sh.hr sh.nid true,
                      L := sh.L ++ [sh.nid], st := upd sh.st sh.nid .member, sp := upd sh.sp sh.nid sh.head,
                      own := upd sh.own sh.nid me, ts := upd sh.ts sh.nid sh.tail, pv := upd sh.pv sh.nid v }, .pPrev sh.nid sh.head)
  | .pPrev n p, _ => some ({ sh with prev := upd sh.prev n p }, .pLink n p)
  | .pLink n p, _ => some ({ sh with next := upd sh.next p n, lk := upd sh.lk n true }, .pTail n p)
  | .pTail n p, .aba =>
      if sh.freed p = true ∧ sh.fa p ≤ sh.tail ∧ sh.tail ≠ p then
        some ({ sh with hnd := upd sh.hnd n true, ih := upd sh.ih n true, rd := upd sh.rd n true }, .ret 1)
      else none
  | .pTail n p, _ =>
      some ({ sh with hnd := upd sh.hnd n true, ih := upd sh.ih n (decide (sh.tail = p)), rd := upd sh.rd n true },
            .ret (b2i (decide (sh.tail = p))))
  -- pop
  | .oHead k, _ =>
      if sh.head = sh.tail then
        (if k = false then some (sh, .ret (-1))
         else if sh.fix = true then some (sh, .qAnd)
         else some ({ sh with freed := upd sh.freed sh.tail true, fa := upd sh.fa sh.tail sh.nid, tr := false }, .ret 0))   -- pinned: `Box::from_raw(tail)`
      else some (sh, .oAnd k)
  | .oAnd k, _ => some ({ sh with lnk := upd sh.lnk sh.tail false }, .oNext k)
  | .oNext k, _ => if sh.next sh.tail = 0 then some (sh, .oNext k) else some (sh, .cPrev (sh.next sh.tail) k)
  -- the end of `Queue::drop`: retire the stub
  | .qAnd, _ => some ({ sh with lnk := upd sh.lnk sh.tail false }, .qDec)
  | .qDec, _ => (decRef sh sh.tail true).map fun sh' => ({ sh' with tr := false }, .ret 0)
  -- pop_if
  | .iHead acc, _ => if sh.head = sh.tail then some (sh, .ret (-1)) else some (sh, .iNext acc)
  | .iNext acc, _ =>
      if sh.next sh.tail = 0 then some (sh, .iNext acc) else
      match sh.val (sh.next sh.tail) with
      | none => none                    -- `assert!((*next).value.is_some())` would fire: proved unreachable
      | some v => if acc.contains v then some (sh, .iAnd (sh.next sh.tail)) else some (sh, .ret (-1))
  | .iAnd x, _ => some ({ sh with lnk := upd sh.lnk sh.tail false }, .cPrev x false)
  -- common suffix of pop / pop_if
  | .cPrev x k, _ => some ({ sh with prev := upd sh.prev x 0 }, .cTail x k)
  | .cTail x k, _ =>
      some ({ sh with tail := x, L := sh.L.erase x, st := upd sh.st x .popped, popped := sh.popped ++ [x] }, .cTake sh.tail x k)
  | .cTake o x k, _ =>
      match sh.val x with
      | none => none                    -- `.unwrap()` of an empty value would panic: proved unreachable
      | some v => some ({ sh with val := upd sh.val x none, out := upd sh.out x (some v) }, .cDec o v k)
  | .cDec o v k, _ => (decRef sh o true).map fun sh' => (sh', if k = true then .oHead true else .ret v)
  -- peek / is_empty
  | .kHead, _ => if sh.head = sh.tail then some (sh, .ret (-1)) else some (sh, .kNext)
  | .kNext, _ =>
      if sh.next sh.tail = 0 then some (sh, .kNext) else
      match sh.val (sh.next sh.tail) with
      | none => none
      | some v => some (sh, .ret v)
  | .eHead, _ => some (sh, .ret (b2i (decide (sh.head = sh.tail))))
  -- remove
  | .rRefs m, _ => if sh.lnk m = true then some (sh, .rPrev m) else some (sh, .rDrop m (-1))
  | .rPrev m, _ => if sh.prev m = 0 then some (sh, .rDrop m (-1)) else some (sh, .rNext m)
  | .rNext m, _ => if sh.next m = 0 then some (sh, .rDrop m (-1)) else some (sh, .rAnd m (sh.prev m) (sh.next m))
  | .rAnd m p x, _ => some ({ sh with lnk := upd sh.lnk m false }, .rSetPrev m p x)
  | .rSetPrev m p x, _ => some ({ sh with prev := upd sh.prev x p }, .rSetNext m p x)
  | .rSetNext m p x, _ =>
      some ({ sh with next := upd sh.next p x, L := sh.L.erase m, st := upd sh.st m .removed, removed := sh.removed ++ [m] }, .rTake m)
  | .rTake m, _ =>
      some ({ sh with val := upd sh.val m none, out := upd sh.out m (sh.val m) },
            .rDec m (match sh.val m with | some v => (v : Int) | none => -1))
  | .rDec m r, _ => (decRef sh m true).map fun sh' => (sh', .rDrop m r)
  | .rDrop m r, _ => (decRef sh m false).map fun sh' => (sh', .ret r)
  -- handle holder
  | .lRefs m, _ => some ({ sh with hnd := upd sh.hnd m true, hin := upd sh.hin m false }, .ret (b2i (sh.lnk m)))
  | .dDec m, _ => (decRef sh m false).map fun sh' => (sh', .ret 0)

structure St where
  n : Nat
  sh : Sh
  pcs : Tid → Pc

/-- not inside a queue operation (idle, returning, or working on a handle only) -/
def quiet : Pc → Bool
  | .idle | .ret _ | .lRefs _ | .dDec _ => true
  | _ => false

def step (s : St) (t : Tid) (e : Env) : Option St :=
  if t < s.n then
    -- ownership: the queue can only be dropped while nobody else is inside one of its operations
    if e = .qdrop ∧ (List.range s.n).all (fun u => u = t || quiet (s.pcs u)) = false then none else
    match tstep s.sh t (s.pcs t) e with
    | none => none
    | some (sh', pc') => some ⟨s.n, sh', upd s.pcs t pc'⟩
  else none

/-- `Queue::new()`: the stub is node 1 with `refs = 1` (no handle, link bit clear) -/
def init (n : Nat) (fix : Bool := true) : St :=
  ⟨n, { head := 1, tail := 1, dead := false, fix := fix, prev := fun _ => 0, next := fun _ => 0, val := fun _ => none, lnk := fun _ => false,
        rc := fun m => if m = 1 then 1 else 0, freed := fun _ => false, nid := 2, hnd := fun _ => false,
        fa := fun _ => 0, L := [], st := fun _ => .none, lk := fun _ => false, sp := fun _ => 0, own := fun _ => 0,
        ts := fun _ => 0, pv := fun _ => 0,
        popped := [], removed := [], out := fun _ => none, ih := fun _ => false, rd := fun _ => false,
        lr := fun m => decide (m = 1), hr := fun _ => false, hin := fun _ => false, hby := fun _ => 0, tr := true },
   fun _ => .idle⟩

/-- every finite schedule: disabled choices are skipped, so `∀ sched` is every interleaving -/
def run (s : St) : List (Tid × Env) → St
  | [] => s
  | (t, e) :: r => match step s t e with
    | some s' => run s' r
    | none => run s r

end MayVerif.TimerList
