/-
  Observable events of the level-B spsc model and its replay machine (family `mq_spsc`): the driver executes the very
  `step` function of `Model/Queue/Spsc.lean` (and, through it, `SpscA.pstep/cstep`) on traces of the real code.
  Trace actor `t0` is the consumer role, `t1` the producer role. Block ids ↔ block tokens (`SpscBlock3`) as for mpsc.
  `tail.index / head.index` (and `tail.block / head.block`) are built by the same constructor line, so the trace
  names them `mq.spsc.index@0/1` in order of first appearance: the instance numbers are bound to the model objects
  on first use (a bijection kept in the replay state).
-/
import MayVerif.Core.Trace
import MayVerif.Generated.ConstsMpsc
import MayVerif.Model.Queue.Spsc
import MayVerif.Model.Queue.MpscReplay
namespace MayVerif.Spsc
open MayVerif
open MayVerif.MpscA (Ret)
open MayVerif.Mpsc (XEv okLabel noLabel b2s retEv)

structure RSt where
  st : St
  toks : List (Nat × String) := []
  insts : List (String × String) := []     -- model object ("tail.index") ↦ instance number in the trace
  full : Bool := false

/-- expected event + the model object whose trace instance it must be (for the shared-name objects) -/
structure XB where
  x : XEv
  bind : Option String := none

def tokOf (r : RSt) (b : Nat) : String :=
  match r.toks.find? (·.1 == b) with
  | some p => p.2
  | none => s!"?block{b}"

def pstr (r : RSt) (b : Nat) : String :=
  if r.st.sh.live b then tokOf r b else s!"Freed_{tokOf r b}+0"
def ostr (r : RSt) : Option Nat → String
  | none => "0"
  | some b => pstr r b

def idxEv (key op : String) (a1 res : String) (ord : String) : XB :=
  { x := { obj := "mq.spsc.index", op := op, a1 := a1, res := res, ord := ord }, bind := some key }
def blkEv (key op : String) (a1 res : String) (ord : String) : XB :=
  { x := { obj := "mq.spsc.block", op := op, a1 := a1, res := res, ord := ord }, bind := some key }
def nextLoad (r : RSt) (b : Nat) (op ord : String) : XB :=
  { x := { obj := "mq.spsc.next", inst := tokOf r b, op := op, res := ostr r (r.st.sh.next b), ord := ord } }
def swriteEv (r : RSt) (b i v : Nat) : XB :=
  { x := { obj := "mq.spsc._slot", inst := tokOf r b, op := "swrite", a1 := toString i, a2 := toString v } }
def sreadEv (r : RSt) (b i : Nat) : XB :=
  { x := { obj := "mq.spsc._slot", inst := tokOf r b, op := "sread", a1 := toString i, res := toString (r.st.sh.val b i) } }
def freeEv (r : RSt) (b : Nat) : XB := { x := { kind := "note", op := "free", a1 := tokOf r b } }
def plain (x : XEv) : XB := { x := x }

def expectP (r : RSt) (pc : PPc) (e : Env) : Option (List XB) :=
  let s := r.st.sh
  match pc, e with
  | .idle, .push v => some [plain { kind := "call", op := "mq.push", a1 := toString v }]
  | .idle, _ => some []
  | .pBlk _, _ => some [blkEv "tail.block" "uload" "0" (pstr r s.tailBlk) "-"]
  | .pIdx .., _ => some [idxEv "tail.index" "uload" "0" (toString s.tailIdx) "-"]
  | .pWr v tb pi, _ => some [swriteEv r tb (pi % s.B) v]
  | .aFirst _, _ => some [plain { obj := "mq.spsc.first", inst := "0", op := "uload", res := pstr r s.first }]
  | .aLast .., _ => some [plain { obj := "mq.spsc.last_head", inst := "0", op := "uload", res := pstr r s.lastHead }]
  | .aNext _ f, _ => some [nextLoad r f "uload" "-"]
  | .aSetFirst _ _ nx, _ => some [plain { obj := "mq.spsc.first", inst := "0", op := "store", a1 := pstr r nx, ord := "Relaxed" }]
  | .aHead .., _ => some [blkEv "head.block" "uload" "0" (pstr r s.headBlk) "-"]
  | .aSetLast _ _ hb, _ => some [plain { obj := "mq.spsc.last_head", inst := "0", op := "store", a1 := pstr r hb, ord := "Relaxed" }]
  | .aAlloc _, _ => none
  | .pLink l nt, _ => some [plain { obj := "mq.spsc.next", inst := tokOf r l.tb, op := "store", a1 := pstr r nt, ord := "Relaxed" }]
  | .pSetBlk _ nt, _ => some [blkEv "tail.block" "store" (pstr r nt) "0" "Relaxed"]
  | .pPub _ pi, _ => some [idxEv "tail.index" "store" (toString (pi + 1)) "0" "Release"]
  | .pRet, _ => some [plain { kind := "ret", op := "mq.push" }]

def expectC (r : RSt) (pc : CPc) (e : Env) : Option (List XB) :=
  let s := r.st.sh
  match pc, e with
  | .idle, .new => some [plain { kind := "call", op := "mq.new" }]
  | .idle, .pop => some [plain { kind := "call", op := "mq.pop" }]
  | .idle, .bulk => some [plain { kind := "call", op := "mq.bulk_pop" }]
  | .idle, .peek => some [plain { kind := "call", op := "mq.peek" }]
  | .idle, .len => some [plain { kind := "call", op := "mq.len" }]
  | .idle, .isEmpty => some [plain { kind := "call", op := "mq.is_empty" }]
  | .idle, .drop => some [plain { kind := "call", op := "mq.drop" }]
  | .idle, _ => some []
  | .nAlloc, _ => none
  | .nRet, _ => some [plain { kind := "ret", op := "mq.new" }]
  | .oIdx, _ | .kIdx, _ | .bIdx _, _ => some [idxEv "head.index" "uload" "0" (toString s.headIdx) "-"]
  | .oTail _, _ | .kTail _, _ | .bTail .., _ | .lTail .., _ => some [idxEv "tail.index" "load" "0" (toString s.tailIdx) "Acquire"]
  | .oBlk _, _ | .kBlk _, _ | .bBlk .., _ => some [blkEv "head.block" "uload" "0" (pstr r s.headBlk) "-"]
  | .oRd hb hi, _ | .kRd hb hi, _ => some [sreadEv r hb (hi % s.B)]
  | .bRd _ hb ci _ _, _ => some [sreadEv r hb (ci % s.B)]
  | .oNext hb .., _ | .bNext _ hb .., _ => some [nextLoad r hb "load" "Relaxed"]
  | .oSetBlk nh .., _ | .bSetBlk _ nh .., _ => some [blkEv "head.block" "store" (pstr r nh) "0" "Relaxed"]
  | .oStore hi _, _ => some [idxEv "head.index" "store" (toString (hi + 1)) "0" "Relaxed"]
  | .bStore _ e _, _ => some [idxEv "head.index" "store" (toString e) "0" "Relaxed"]
  | .lHead _, _ => some [idxEv "head.index" "load" "0" (toString s.headIdx) "Relaxed"]
  | .dHead, _ => some [blkEv "head.block" "load" "0" (pstr r s.headBlk) "Relaxed"]
  | .dTail _, _ => some [blkEv "tail.block" "load" "0" (pstr r s.tailBlk) "Relaxed"]
  | .dFirst _, _ => some [plain { obj := "mq.spsc.first", inst := "0", op := "load", res := pstr r s.first, ord := "Relaxed" }]
  | .dNext f _, _ => some [nextLoad r f "load" "Relaxed"]
  | .dFree f .., _ => some [freeEv r f]
  | .dFreeH hb, _ => some [freeEv r hb]
  | .ret x, _ => some ((retEv x).map plain)

def pName : PPc → String
  | .idle => "p.idle" | .pBlk _ => "pBlk" | .pIdx .. => "pIdx" | .pWr .. => "pWr" | .aFirst _ => "aFirst" | .aLast .. => "aLast"
  | .aNext .. => "aNext" | .aSetFirst .. => "aSetFirst" | .aHead .. => "aHead" | .aSetLast .. => "aSetLast"
  | .aAlloc _ => "aAlloc" | .pLink .. => "pLink" | .pSetBlk .. => "pSetBlk" | .pPub .. => "pPub" | .pRet => "pRet"

def cName : CPc → String
  | .idle => "c.idle" | .nAlloc => "nAlloc" | .nRet => "nRet"
  | .oIdx => "oIdx" | .oTail _ => "oTail" | .oBlk _ => "oBlk" | .oRd .. => "oRd" | .oNext .. => "oNext" | .oSetBlk .. => "oSetBlk"
  | .oStore .. => "oStore"
  | .kIdx => "kIdx" | .kTail _ => "kTail" | .kBlk _ => "kBlk" | .kRd .. => "kRd" | .lHead _ => "lHead" | .lTail .. => "lTail"
  | .bIdx d => if d then "bIdx.d" else "bIdx" | .bTail .. => "bTail" | .bBlk .. => "bBlk" | .bRd .. => "bRd" | .bNext .. => "bNext"
  | .bSetBlk .. => "bSetBlk" | .bStore .. => "bStore"
  | .dHead => "dHead" | .dTail _ => "dTail" | .dFirst _ => "dFirst" | .dNext .. => "dNext" | .dFree .. => "dFree"
  | .dFreeH _ => "dFreeH"
  | .ret r => Mpsc.pcName (.ret r)

def callEnv (ev : Event) : List Env :=
  if ev.kind != "call" then [] else
  match ev.op, ev.a1 with
  | "mq.new", _ => [.new]
  | "mq.push", .num v => [.push v.toNat]
  | "mq.pop", _ => [.pop]
  | "mq.bulk_pop", _ => [.bulk]
  | "mq.peek", _ => [.peek]
  | "mq.len", _ => [.len]
  | "mq.is_empty", _ => [.isEmpty]
  | "mq.drop", _ => [.drop]
  | _, _ => []

/-- does the event match one of the expectations? returns the updated instance table -/
def matchXB (r : RSt) (xs : List XB) (ev : Event) : Option (List (String × String)) :=
  xs.findSome? fun xb =>
    match xb.bind with
    | none => if xb.x.matches ev then some r.insts else none
    | some key =>
      let x := { xb.x with inst := ev.inst }
      if !x.matches ev then none else
      match r.insts.find? (·.1 == key) with
      | some p => if p.2 == ev.inst then some r.insts else none
      | none =>
        -- the instance number must not already name the sibling object of the same trace name
        let sib := if key.startsWith "tail." then "head." ++ (key.drop 5).toString else "tail." ++ (key.drop 5).toString
        match r.insts.find? (·.1 == sib) with
        | some p => if p.2 == ev.inst then none else some ((key, ev.inst) :: r.insts)
        | none => some ((key, ev.inst) :: r.insts)

def showXB (r : RSt) (xb : XB) : XEv :=
  match xb.bind with
  | none => xb.x
  | some key => { xb.x with inst := match r.insts.find? (·.1 == key) with | some p => p.2 | none => s!"<{key}>" }

def cands (r : RSt) (t : Nat) (ev : Event) : List (Label × RSt × String) :=
  let s := r.st
  if ev.kind == "call" && ev.op == "mq.bulk.item" then
    match s.cp, ev.a1, ev.a2 with
    | .ret (.bulk l), .num i, .num v =>
      if t == 0 && l[i.toNat]? == some v.toNat then [(okLabel ev, { r with full := false }, "bulk.item")]
      else [(noLabel [{ kind := "call", op := "mq.bulk.item", a1 := toString i, a2 := toString (l[i.toNat]?.getD 0) }], r, "")]
    | _, _, _ => []
  else
    let isIdle := if t == 0 then s.cp == .idle else s.pp == .idle
    let envs := if isIdle then callEnv ev else [.go]
    envs.filterMap fun e =>
      let act : Act := if t == 0 then .cons e else .prod e
      match step s act with
      | none => none
      | some s' =>
        let nm := if t == 0 then cName s.cp ++ ">" ++ cName s'.cp else pName s.pp ++ ">" ++ pName s'.pp
        let ex := if t == 0 then expectC r s.cp e else expectP r s.pp e
        match ex with
        | none =>
          match ev.a1 with
          | .id tok =>
            if ev.kind == "note" && ev.op == "born" && tok.startsWith "SpscBlock" && !(r.toks.any (·.2 == tok)) then
              some (okLabel ev, { r with st := s', toks := (s.sh.nb, tok) :: r.toks, full := false }, nm)
            else some (noLabel [{ kind := "note", op := "born", a1 := "<fresh SpscBlock token>" }], r, nm)
          | _ => some (noLabel [{ kind := "note", op := "born", a1 := "<fresh SpscBlock token>" }], r, nm)
        | some xs =>
          match matchXB r xs ev with
          | some insts => some (okLabel ev, { r with st := s', insts := insts, full := ev.kind == "ret" }, nm)
          | none => some (noLabel (xs.map (showXB r)), r, nm)

/-- the block that holds logical slot `i ≥ head`: follow `next` from the head block -/
def blockAt (sh : Sh) (i : Nat) : Option Nat :=
  let rec go : Nat → Nat → Option Nat
    | 0, b => some b
    | k + 1, b => match sh.next b with
      | some nx => go k nx
      | none => none
  go (i / sh.B - sh.headIdx / sh.B) sh.headBlk

def relOk (s : St) (full : Bool) : Option String :=
  let sh := s.sh
  let a := sh.a
  if !sh.alive then none
  else if sh.tailIdx != a.tail then some s!"tail.index {sh.tailIdx} ≠ level A tail {a.tail}"
  else if sh.headIdx != a.head then some s!"head.index {sh.headIdx} ≠ level A head {a.head}"
  else if !full || s.cp != .idle then none
  else
    let bad := (List.range (a.tail - a.head)).find? fun k =>
      let i := a.head + k
      match blockAt sh i with
      | none => true
      | some b => !sh.live b || sh.val b (i % sh.B) != a.val i
    match bad with
    | some k => some s!"slot {a.head + k}: block-level payload differs from level A (or its block is unreachable / freed)"
    | none => none

def invChk (r : RSt) : Option String :=
  let sh := r.st.sh
  if sh.uaf then some "model: a step touched a block that is not live (use after free)"
  else if sh.dfree then some "model: a block was freed twice"
  else if sh.panic then some "model: an assertion of Queue::drop failed / a null next pointer was followed"
  else if sh.simBad then some "level B step is not a level A step (simulation broken)"
  else if sh.a.badNone then some "level A: None / empty returned while the abstract FIFO was not empty"
  else if sh.a.badVal then some "level A: a returned value is not the head of the abstract FIFO"
  else if sh.a.badLen then some "level A: len / is_empty disagrees with the abstract FIFO"
  else relOk r.st r.full

def machine : Machine where
  St := RSt
  init := fun h =>
    match hnat h "B" with
    | some b =>
      if b == ConstsMpsc.SPSC_BLOCK_SIZE then .ok { st := init b }
      else .error s!"block size of the running code ({b}) differs from the generated constant ({ConstsMpsc.SPSC_BLOCK_SIZE})"
    | none => .error "mq_spsc scenario without B="
  actor := fun _ a => if a == "t0" then some 0 else if a == "t1" then some 1 else none
  cands := cands
  inv := invChk
  where_ := fun r t => if t == 0 then cName r.st.cp else pName r.st.pp
  atEnd := fun r =>
    let s := r.st
    if s.cp != .idle || s.pp != .idle then some "not every actor is idle at the end of a finished run"
    else if s.sh.created && !s.sh.alive then
      (if (List.range s.sh.nb).any (fun b => s.sh.live b) then some "a block is still allocated after Queue::drop"
       else if !s.sh.a.A.isEmpty then some "abstract FIFO not empty after Queue::drop"
       else if s.sh.a.pushed.length != s.sh.a.popped.length then some "pushed and handed-out counts differ after Queue::drop"
       else none)
    else none
  skip := fun e => e.kind == "blk" || (e.kind == "note" && e.op != "born" && e.op != "free")

end MayVerif.Spsc
