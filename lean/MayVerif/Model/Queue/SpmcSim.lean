/-
  Executable simulation check B → A for the spmc models.

  For every step of the level-B model (`Spmc.lean`, the one replayed against the implementation) `simStep`
  computes the level-A steps (`SpmcA.lean`, the one the theorems of `Props/C04.lean` are about) it
  corresponds to – none (stutter), one, or a few – on the level-A instance of the queue concerned, executes
  them with `SpmcA.step`, and then checks the simulation relation:
      A.tail = tail.index,  A.lock = lock bit of head,  A.head = start(head.block) + head.index,
      the acting actor's level-A pc is the abstraction of its level-B pc (for every queue),
      the slot values read by B equal the batch A hands out.
  A level-A step that is not enabled, or a broken relation, is reported by the replay as a broken model
  invariant. This is a *checked* refinement on every replayed implementation trace, not a proved one.

  Queue `q` is owned by actor `q`; the level-A owner is actor 0, so actors `q` and `0` are swapped.
-/
import MayVerif.Model.Queue.Spmc
import MayVerif.Model.Queue.SpmcA
namespace MayVerif.Spmc.Sim
open MayVerif.Spmc

structure SimSt where
  as : Nat → SpmcA.St

def simInit (n : Nat) : SimSt := ⟨fun _ => SpmcA.init n⟩

def atid (q : Nat) (t : Nat) : Nat := if t = q then 0 else if t = 0 then q else t

def logical (sh : Sh) (b : Nat) (i : Nat) : Nat := (sh.blks b).start + i

/-- level-A steps performed on entering a routine without an API call event of its own
    (the re-queueing pushes of `steal_into`, the `bulk_pop` loop of `Drop`) -/
def entry (pc pc' : Pc) : List (Nat × SpmcA.Env) :=
  match pc' with
  | .pu0 q x (.steal ..) => [(q, .push x)]
  | .t0 l => (match pc with | .idle => [] | _ => [(l.q, .take)])
  | _ => []

def isRetPc : Pc → Bool
  | .rPop _ | .rLpop _ | .rBulk .. => true
  | _ => false

/-- the level-A steps a level-B step corresponds to; `none` = no counterpart (reported) -/
def absSteps (s : St) (t : Nat) (e : Env) (s' : St) (sim : SimSt) : Option (List (Nat × SpmcA.Env)) :=
  let pc := s.pcs t
  let pc' := s'.pcs t
  let doneQ : List (Nat × SpmcA.Env) :=
    ((List.range s.n).filter fun q => match (sim.as q).pcs (atid q t) with | .tDone .. => true | _ => false).map fun q => (q, SpmcA.Env.go)
  match pc with
  | .idle => (match e with
      | .start (.push q v) => some [(q, .push v)]
      | .start (.lpop q) => some [(q, .lpop)]
      | .start (.pop q) | .start (.bulk q) | .start (.steal q) | .start (.drop q) => some [(q, .take)]
      | _ => some [])
  | .pu1 q .. => some [(q, .go)]
  | .pu4 q .. => some ((q, .go) :: entry pc pc')
  | .t0 l => some (if l.k = .lpop then [(l.q, .go)] else [])
  | .tT l =>
      (match pc' with
       | .t4 l' lk nid =>
           if l.k = .lpop then some [(l.q, .claim (!lk) 0)]
           else if lk then some [(l.q, .claim false 0)]
           else some [(l.q, .claim true (logical s.sh l'.hb nid))]
       | .t1 _ => some []
       | .tT _ => some [(l.q, .go)]
       | _ => some ((l.q, if l.k = .lpop then SpmcA.Env.go else .giveUp) :: entry pc pc'))
  | .t4 l _ _ => some (if l.k = .lpop then [(l.q, .go)] else [])
  | .t5 l _ => (match pc' with
      | .t6 _ _ hi | .t7 _ _ hi _ => some [(l.q, .claim false hi)]
      | _ => some [(l.q, .go)])
  | .t6r l => some ((l.q, .go) :: (if l.cx = .plain then [] else (l.q, .go) :: entry pc pc'))
  | .t7 l .. => some [(l.q, .go)]
  | .t8 l .. => some [(l.q, .go)]
  | .t9 .. => none
  | .tF l _ _ skip =>
      if skip then none else
      (match pc' with
       | .tFree .. => some [(l.q, .go)]
       | _ => some ((l.q, .go) :: (if l.cx = .plain then [] else (l.q, .go) :: entry pc pc')))
  | .tFree l _ => some (if l.cx = .plain then [] else (l.q, .go) :: entry pc pc')
  | .rPop _ | .rLpop _ | .rBulk [] _ => some doneQ
  | _ => some []

/-- is the level-A pc `a` (of the same actor, in the instance of queue `q`) the abstraction of the level-B pc? -/
def absOk (sh : Sh) (q : Nat) (pc : Pc) (a : SpmcA.Pc) : Bool :=
  let idle := a == .idle
  match pc with
  | .pu0 q' v _ | .pu1 q' v _ _ => if q = q' then a == .oWrite v else idle
  | .pu2 q' .. | .pu3 q' .. | .pu4 q' .. => if q = q' then a == .oPub else idle
  | .t0 l => if q = l.q then (match l.k with | .lpop => a == .oLoad | .empt => idle | _ => a == .tTry) else idle
  | .t1 l | .t2 l | .tT l =>
      if q = l.q then (match l.k with | .lpop => a == .oTry (logical sh l.hb l.hi) | .empt => idle | _ => a == .tTry) else idle
  | .t4 l lk nid =>
      if q = l.q then (if lk then a == .tLocked (logical sh l.hb l.hi) else a == .tWait (logical sh l.hb l.hi) (logical sh l.hb nid)) else idle
  | .t5 l lo => if q = l.q then a == .tLocked lo else idle
  | .t6r l => if q = l.q then a == .tBack (logical sh l.hb l.hi) else idle
  | .t6 l lo hi | .t7 l lo hi _ => if q = l.q then a == .tGo lo hi else idle
  | .t8 l lo hi => if q = l.q then a == .tWait lo hi else idle
  | .t9 .. => false
  | .tF l lo hi skip => if q = l.q then (!skip && a == .tRead lo hi) else idle
  | .tFree l _ => if q = l.q then (match a with | .tDone .. => true | _ => false) else idle
  | .rPop _ | .rLpop _ | .rBulk .. => (match a with | .tDone .. => true | .idle => true | _ => false)
  | _ => idle

def runA (a : SpmcA.St) (t : Nat) : List SpmcA.Env → Except String SpmcA.St
  | [] => .ok a
  | e :: r => match SpmcA.step a t e with
    | some a' => runA a' t r
    | none => .error s!"level-A step {repr e} of actor {t} is not enabled"

def applySteps (sim : SimSt) (t : Nat) : List (Nat × SpmcA.Env) → Except String SimSt
  | [] => .ok sim
  | (q, e) :: r => match runA (sim.as q) (atid q t) [e] with
    | .ok a' => applySteps ⟨upd sim.as q a'⟩ t r
    | .error m => .error s!"queue {q}: {m}"

def checkRel (s' : St) (t : Nat) (sim : SimSt) : Option String :=
  (List.range s'.n).findSome? fun q =>
    let a := sim.as q
    let bq := s'.sh.qs q
    if a.sh.tail != bq.tidx then some s!"queue {q}: A.tail={a.sh.tail} B.tail.index={bq.tidx}"
    else if a.sh.lock != bq.head.lock then some s!"queue {q}: A.lock={a.sh.lock} B.lock={bq.head.lock}"
    else if a.sh.head != logical s'.sh bq.head.blk bq.head.idx then
      some s!"queue {q}: A.head={a.sh.head} B.head={logical s'.sh bq.head.blk bq.head.idx}"
    else if a.sh.bad then some s!"queue {q}: level-A flag `bad` raised"
    else if !absOk s'.sh q (s'.pcs t) (a.pcs (atid q t)) then
      some s!"queue {q}: level-A pc {repr (a.pcs (atid q t))} is not the abstraction of the level-B pc of actor {t}"
    else none

/-- values read by B at `tF` equal the batch level A hands out -/
def checkVals (s : St) (t : Nat) (sim : SimSt) : Option String :=
  match s.pcs t with
  | .tF l lo hi false =>
      if readSlots s.sh l.hb lo hi == SpmcA.batch (sim.as l.q).sh lo hi then none
      else some s!"queue {l.q}: slots [{lo},{hi}) read at level B differ from the level-A batch"
  | _ => none

/-- table-backed copy of a function on `[0, n)` (keeps look-ups cheap in long replays; extensionally the
    same function on the range that is in use) -/
def tabOf {α : Type} (a : Array α) (d : α) (i : Nat) : α := a.getD i d

/-- (the array is an argument of a partial application, so it is computed once, when the table is built) -/
structure Fn (α : Type) where
  f : Nat → α

@[noinline] def mkTab {α : Type} (n : Nat) (f : Nat → α) (d : α) : Fn α :=
  ⟨tabOf (Array.ofFn (n := n) fun i => f i.val) d⟩

/- NB: `mkTab` must be called through a `let` (a definition of type `… → Nat → α` is compiled with the look-up
   index as an extra parameter and would rebuild the array on every look-up). -/

def compactA (a : SpmcA.St) : SpmcA.St :=
  let m := max a.sh.tail a.sh.head + 2
  let p := mkTab a.n a.pcs .idle
  let sl := mkTab m a.sh.slot none
  let c := mkTab m a.sh.cnt 0
  let w := mkTab m a.sh.who 0
  { a with pcs := p.f, sh := { a.sh with slot := sl.f, cnt := c.f, who := w.f } }

def compactSim (n : Nat) (sim : SimSt) : SimSt :=
  let t := mkTab n (fun q => compactA (sim.as q)) (SpmcA.init n)
  ⟨t.f⟩

def compactBlk (b : Block) : Block :=
  let d := mkTab BSZ b.data none
  { b with data := d.f }

def compactB (s : St) : St :=
  let p := mkTab s.n s.pcs .idle
  let q := mkTab s.n s.sh.qs (s.sh.qs s.n)
  let b := mkTab s.sh.nextB (fun b => compactBlk (s.sh.blks b)) (newBlock 0 0)
  { s with pcs := p.f, sh := { s.sh with qs := q.f, blks := b.f } }

def simStep (sim : SimSt) (s : St) (t : Nat) (e : Env) (s' : St) : SimSt × Option String :=
  match absSteps s t e s' sim with
  | none => (sim, some s!"the level-B step of actor {t} has no level-A counterpart")
  | some steps =>
    match applySteps sim t steps with
    | .error m => (sim, some m)
    | .ok sim' =>
      match checkVals s t sim' with
      | some m => (sim', some m)
      | none => (sim', checkRel s' t sim')

end MayVerif.Spmc.Sim
