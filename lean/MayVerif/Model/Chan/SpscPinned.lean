/-
  Variant of `Model/Chan/Spsc.lean` with the behaviour of the PINNED tree (before /verif/pending_fixes/F3.patch) at the
  one place the fix changes: the coroutine-side `subscribe` re-checks only `!queue.is_empty()`, not `channels == 0`
  (src/sync/spsc.rs, `impl EventSource for Park`). Every other step is the step function of `Spsc.lean` itself.
  It exists only to carry the negation witness of defect F3 (`Props/C07.lean`).
-/
import MayVerif.Model.Chan.Spsc
namespace MayVerif.Chan.SpscPinned
open MayVerif.Chan MayVerif.Chan.Spsc

/-- the kernel tail of the pinned tree: an empty queue ends `subscribe` at once -/
def kstepP (sh : Sh) (me : Tid) : Option Sh :=
  match sh.kt with
  | .k1empty _ => match sh.q with
      | [] => some { sh with kt := .k5done }            -- pinned: no look at `channels`
      | _ :: _ => some { sh with kt := .k3take }
  | _ => kstep sh me

def tstepP (n : Nat) (sh : Sh) (me : Tid) (pc : Pc) (e : Env) : Option (Sh × Pc) :=
  if e = .kern then
    (if sh.rx = some me then (kstepP sh me).map (fun sh' => (sh', pc)) else none)
  else ustep n sh me pc e

def stepP (s : St) (t : Tid) (e : Env) : Option St :=
  if t < s.n then
    match tstepP s.n s.sh t (s.pcs t) e with
    | none => none
    | some (sh', pc') => some ⟨s.n, sh', upd s.pcs t pc'⟩
  else none

def runP (s : St) : List (Tid × Env) → St
  | [] => s
  | (t, e) :: r => match stepP s t e with
    | some s' => runP s' r
    | none => runP s r

/-- a receiver coroutine suspended for ever: every actor is idle or suspended without having been scheduled, the
    kernel tail is finished, at least one actor is suspended, and the Sender has been dropped -/
def hung (s : St) : Bool :=
  (List.range s.n).all (fun u => match s.pcs u with
    | .idle => true
    | .y1susp _ | .r4park _ => !s.sh.tok u
    | _ => false) &&
  (List.range s.n).any (fun u => match s.pcs u with | .y1susp _ | .r4park _ => true | _ => false) &&
  s.sh.kt == .kIdle && s.sh.tx == none && s.sh.channels == 0

end MayVerif.Chan.SpscPinned
