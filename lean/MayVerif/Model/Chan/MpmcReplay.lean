/-
  Observable labels of the mpmc channel model and its replay machine (family `ch_mpmc`): the driver executes the
  very `step` function of `Model/Chan/Mpmc.lean` on implementation traces.
-/
import MayVerif.Core.Trace
import MayVerif.Model.Chan.Mpmc
namespace MayVerif.Chan.Mpmc
open MayVerif MayVerif.Chan

def ch : Option (String × Nat) := some ("ch", 0)
def bl (b : Bid) : Option (String × Nat) := some ("blk", b)
def b2i (b : Bool) : Int := if b then 1 else 0

def apiName : Api → String
  | .send => "chan.send" | .tryRecv => "chan.try_recv" | .recv => "chan.recv" | .recvTimeout => "chan.recv_timeout"
  | .cloneTx => "chan.clone" | .dropTx => "chan.drop_tx" | .cloneRx => "chan.clone_rx" | .dropRx => "chan.drop_rx"

def resCode : Res → Int
  | .ok m => m.v | .disc => -1 | .empty => -2 | .tmo => -3 | .sent => 1 | .refused _ => 0 | .unit => 0

def headArg : List Msg → LArg
  | m :: _ => .num m.v
  | [] => .num (-1)

/-- the observable of the step `tstep n sh me pc e` -/
def label (sh : Sh) (pc : Pc) (e : Env) : Label :=
  match pc, e with
  | .idle, .send v => { kind := "call", op := "chan.send", a1 := .num v }
  | .idle, .tryRecv => { kind := "call", op := "chan.try_recv" }
  | .idle, .recv => { kind := "call", op := "chan.recv" }
  | .idle, .recvTimeout => { kind := "call", op := "chan.recv_timeout" }
  | .idle, .cloneTx => { kind := "call", op := "chan.clone" }
  | .idle, .dropTx => { kind := "call", op := "chan.drop_tx" }
  | .idle, .cloneRx => { kind := "call", op := "chan.clone_rx" }
  | .idle, .dropRx => { kind := "call", op := "chan.drop_rx" }
  | .idle, _ => { kind := "none", op := "-" }
  | .done a r, _ => { kind := "ret", op := apiName a, a1 := .num (resCode r) }
  | .m0load _, _ | .z1load _, _ => { obj := "sync.mpmc.rx_ports", inst := ch, op := "load", res := .num sh.rxPorts, ord := "Acquire" }
  | .m1push v, _ => { obj := "sync.mpmc.queue", inst := ch, op := "q.push", a1 := .num v }
  | .gpost _, _ => { obj := "sync.mpmc.sem_gate", inst := ch, op := "sem.post" }
  | .gunpark w _, _ => { kind := "blk", obj := "tp", inst := bl w, op := "unpark" }
  | .y0try _, _ => { obj := "sync.mpmc.sem_gate", inst := ch, op := "sem.try_wait" }
  | .y1pop _, _ | .e1pop, _ => { obj := "sync.mpmc.queue", inst := ch, op := "q.pop", res := headArg sh.q }
  | .y2load _, _ | .z0load _, _ => { obj := "sync.mpmc.tx_ports", inst := ch, op := "load", res := .num sh.txPorts, ord := "Acquire" }
  | .w0wait _, _ => { obj := "sync.mpmc.sem_gate", inst := ch, op := "sem.wait" }
  | .w1park b _, .timeout => { kind := "blk", obj := "tp", inst := bl b, op := "park_return", res := .num 0 }
  | .w1park b _, _ => { kind := "blk", obj := "tp", inst := bl b, op := "park_return", res := .num 1 }
  | .c0fadd, _ => { obj := "sync.mpmc.tx_ports", inst := ch, op := "fetch_add", a1 := .num 1, res := .num sh.txPorts, ord := "SeqCst" }
  | .x0fsub, _ => { obj := "sync.mpmc.tx_ports", inst := ch, op := "fetch_sub", a1 := .num 1, res := .num sh.txPorts, ord := "SeqCst" }
  | .cr0fadd, _ => { obj := "sync.mpmc.rx_ports", inst := ch, op := "fetch_add", a1 := .num 1, res := .num sh.rxPorts, ord := "SeqCst" }
  | .xr0fsub, _ => { obj := "sync.mpmc.rx_ports", inst := ch, op := "fetch_sub", a1 := .num 1, res := .num sh.rxPorts, ord := "SeqCst" }

def kName : K → String | .sendRet => "send" | .discRet _ => "disc" | .dropTx => "drop_tx" | .tmoRet => "tmo"
def aName : Api → String | .tryRecv => "try" | .recv => "recv" | .recvTimeout => "timed" | _ => "-"

def pcName : Pc → String
  | .idle => "idle" | .done .. => "done" | .m0load _ => "m0load" | .m1push _ => "m1push"
  | .gpost k => "gpost." ++ kName k | .gunpark _ k => "gunpark." ++ kName k
  | .y0try a => "y0try." ++ aName a | .y1pop a => "y1pop." ++ aName a | .y2load a => "y2load." ++ aName a
  | .w0wait a => "w0wait." ++ aName a | .w1park _ a => "w1park." ++ aName a
  | .c0fadd => "c0fadd" | .x0fsub => "x0fsub" | .cr0fadd => "cr0fadd" | .xr0fsub => "xr0fsub" | .e1pop => "e1pop"
  | .z0load _ => "z0load" | .z1load _ => "z1load"

def envsFor (pc : Pc) (ev : Event) : List Env :=
  match pc with
  | .idle =>
    if ev.kind == "call" then
      match ev.op, ev.a1 with
      | "chan.send", .num v => [.send v.toNat]
      | "chan.try_recv", _ => [.tryRecv]
      | "chan.recv", _ => [.recv]
      | "chan.recv_timeout", _ => [.recvTimeout]
      | "chan.clone", _ => [.cloneTx]
      | "chan.drop_tx", _ => [.dropTx]
      | "chan.clone_rx", _ => [.cloneRx]
      | "chan.drop_rx", _ => [.dropRx]
      | _, _ => []
    else []
  | .w1park _ _ => [.go, .timeout]
  | _ => [.go]

/-- transition name for coverage: pc plus the branch taken -/
def transName (sh : Sh) (pc : Pc) (e : Env) : String :=
  let br := match pc, e with
    | .idle, .send _ => "/send" | .idle, .tryRecv => "/try_recv" | .idle, .recv => "/recv" | .idle, .recvTimeout => "/recv_timeout"
    | .idle, .cloneTx => "/clone" | .idle, .dropTx => "/drop_tx" | .idle, .cloneRx => "/clone_rx" | .idle, .dropRx => "/drop_rx"
    | .done _ r, _ => (match r with | .ok _ => "/ok" | .empty => "/empty" | .disc => "/disc" | .tmo => "/tmo" | .sent => "/sent"
                                    | .refused _ => "/refused" | .unit => "/unit")
    | .m0load _, _ => if sh.rxPorts = 0 then "/no_receiver" else "/open"
    | .gpost _, _ => if sh.cnt < 0 then "/wake" else "/free"
    | .gunpark w _, _ => if sh.released w then (if sh.cnt < 0 then "/stale_wake" else "/stale_free") else "/live"
    | .y0try _, _ | .w0wait _, _ => if 0 < sh.cnt then "/permit" else "/none"
    | .y1pop _, _ | .e1pop, _ => if sh.q.isEmpty then "/none" else "/some"
    | .w1park b _, .timeout => if sh.unparked b then "/timeout_repost" else "/timeout" | .w1park _ _, _ => "/woken"
    | .x0fsub, _ => if sh.txPorts = 1 then "/last" else (if sh.arc = 1 then "/free" else "/more")
    | .xr0fsub, _ => if sh.rxPorts = 1 then "/last" else (if sh.arc = 1 then "/free" else "/more")
    | _, _ => ""
  pcName pc ++ br

def cands (s : St) (t : Nat) (ev : Event) : List (Label × St × String) :=
  let pc := s.pcs t
  if ev.kind == "blk" && ev.op == "park_enter" then
    match pc with
    | .w1park b a => [({ kind := "blk", obj := "tp", inst := bl b, op := "park_enter", a1 := .num (b2i (isTimed a)) }, s, "park_enter")]
    | _ => []
  else
    (envsFor pc ev).filterMap fun e =>
      match step s t e with
      | some s' => some (label s.sh pc e, s', transName s.sh pc e)
      | none => none

def sumF (n : Nat) (f : Nat → Nat) : Nat := (List.range n).foldl (fun a t => a + f t) 0

/-- the initial handle distribution of a scenario, reached from `init` by model steps: actor 0 clones its handles
    and hands them out -/
def distribute (n : Nat) (txs rxs : List Nat) : Except String St :=
  let tt := txs.foldl (· + ·) 0
  let tr := rxs.foldl (· + ·) 0
  if tt = 0 || tr = 0 then .error "scenario without a Sender or without a Receiver" else
  let rep (k : Nat) (e : Env) : List (Tid × Env) := (List.replicate k [(0, e), (0, .go), (0, .go)]).flatten
  let gives (l : List Nat) (mk : Tid → Env) : List (Tid × Env) :=
    ((List.range l.length).map fun u => if u = 0 then [] else List.replicate (l.getD u 0) (0, mk u)).flatten
  let s := run (init n) (rep (tt - 1) .cloneTx ++ rep (tr - 1) .cloneRx ++ gives txs .giveTx ++ gives rxs .giveRx)
  if (List.range n).all (fun u => s.sh.tx u == txs.getD u 0 && s.sh.rx u == rxs.getD u 0) && s.sh.txPorts == tt && s.sh.rxPorts == tr
  then .ok s else .error "cannot set up the handle distribution of the header"

def posPart (c : Int) : Int := if 0 < c then c else 0

def machine : Machine where
  St := St
  init := fun h => match hnat h "actors", hget h "tx", hget h "rx" with
    | some n, some txs, some rxs =>
      distribute n ((txs.splitOn ".").map fun w => w.toNat?.getD 0) ((rxs.splitOn ".").map fun w => w.toNat?.getD 0)
    | _, _, _ => .error "ch_mpmc scenario without actors= tx= rx="
  actor := fun s a => if a.startsWith "t" then ((a.drop 1).toString.toNat?).bind (fun t => if t < s.n then some t else none) else none
  cands := cands
  inv := fun s =>
    if s.sh.pushed != s.sh.hist.map (·.1) ++ s.sh.q then some "pushed ≠ popped ++ queued"
    else if s.sh.txPorts != sumF s.n s.sh.tx then some "tx_ports ≠ number of Sender handles"
    else if s.sh.rxPorts != sumF s.n s.sh.rx then some "rx_ports ≠ number of Receiver handles"
    else if (if s.sh.cnt < 0 then (s.sh.wq.length : Int) != - s.sh.cnt else !s.sh.wq.isEmpty) then some "gate: waiters ≠ -cnt"
    else none
  where_ := fun s t => pcName (s.pcs t)
  atEnd := fun s =>
    if !(List.range s.n).all (fun t => s.pcs t == .idle) then some "not every actor is idle at the end of a finished run"
    else if s.sh.arc != 0 || !s.sh.q.isEmpty then some s!"all idle and done but arc={s.sh.arc} |q|={s.sh.q.length}"
    else none
  -- not steps of the channel: bookkeeping notes, and the harness's own gates (virtual parks on blockers that are not SyncBlockers)
  skip := fun e => e.kind == "note" || (e.kind == "blk" && !e.inst.startsWith "SyncBlocker")

end MayVerif.Chan.Mpmc
