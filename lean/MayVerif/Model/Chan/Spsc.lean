/-
  Model of `may::sync::spsc` (src/sync/spsc.rs, with the F3 fix of /verif/pending_fixes/F3.patch): one `tstep` case per
  shared-memory operation of the code, in program order. The inner `may_queue::spsc::Queue` is an atomic FIFO at this
  layer (C03 is its own check). One Sender (no clone), one Receiver; each endpoint is a thread or a coroutine
  (`co t` = actor `t` runs in coroutine context; the det-mode replay has thread endpoints only).

      send(t):        s0load   port_dropped.load(Relaxed) ? Err(t)
                      s1push   queue.push(t)
                      s2take   wait_co.take()          s3unpark  blocker.unpark()   (thread: `Thread::unpark`,
                                                                 coroutine: `get_scheduler().schedule(co)`)
      try_recv():     t0pop    queue.pop()  Some ⇒ Ok
                      t1load   channels.load(Relaxed) > 0 ? Empty
                      t2pop    queue.pop().ok_or(Disconnected)
      recv():         try_recv (context `pre`)  Ok / Disconnected ⇒ return;  Empty ⇒
        thread:       r0new    Blocker::new_thread(current())              (the `born SpscBlocker` note)
                      r1store  wait_co.store(blocker)
                      try_recv (context `reg`)  Empty ⇒ r4park `thread::park()`, else r3clear `wait_co.clear()`, return
                      try_recv (context `post`) and return its result (Empty ⇒ `Receiver::recv` loops)
        coroutine:    y0yield  `yield_with(&Park::new(self))`: the coroutine switches out, its KERNEL TAIL runs
                               `subscribe` on the worker (steps `Env.kern` of the same actor, program counter `kt`):
                                 k0store  wait_co.store(Blocker::new_coroutine(co))
                                 k1empty  !queue.is_empty() ?                                  ⇒ k3take
                                 k2load   channels.load(Relaxed) == 0 ?   [the F3 fix]         ⇒ k3take
                                 k3take   wait_co.take()     k4run  run_coroutine(co)
                                 k5done   DropGuard: wait_kernel.store(false)
                      y1susp   suspended until resumed (by the sender's `schedule`, or by `run_coroutine` above)
                      y2drop   `Drop for Park`: while wait_kernel.load() { yield_now() }
                      try_recv (context `post`)
      drop(Sender):   x0store  channels.store(0)      x1take  wait_co.take()      x2unpark  blocker.unpark()
      drop(Receiver): p0store  port_dropped.store(true)     p1pop   while queue.pop().is_some() {}
      The queue is dropped, with whatever is still in it, by whoever releases the last handle of the `Arc` (no hooked
      step; folded, like the strong count itself, into the last hooked step of the handle's drop: `release`).

  `tok t`: the `std::thread::park` token of thread `t` / "coroutine `t` has been scheduled to resume".
  `bthr b`: the thread / coroutine handle inside blocker `b`.
  Ghost fields: `tx`, `rx` (who owns the Sender / Receiver), `pushed`, `hist` as in `Mpsc.lean`.
-/
import MayVerif.Model.Chan.Base
namespace MayVerif.Chan.Spsc
open MayVerif.Chan

inductive Ctx | api | pre | reg (b : Bid) | post
  deriving DecidableEq, Repr

inductive Pc
  | idle
  | done (a : Api) (r : Res)
  | s0load (v : Nat) | s1push (v : Nat) | s2take | s3unpark (w : Bid)
  | r0new | r1store (b : Bid)
  | t0pop (c : Ctx) | t1load (c : Ctx) | t2pop (c : Ctx)
  | r3clear (r : Res)
  | r4park (b : Bid)
  | y0yield | y1susp (b : Bid) | y2drop
  | x0store | x1take | x2unpark (w : Bid)
  | p0store | p1pop
  deriving DecidableEq, Repr

/-- program counter of the receiver coroutine's kernel tail (`subscribe`) -/
inductive KPc
  | kIdle
  | k0store (b : Bid) | k1empty (b : Bid) | k2load (b : Bid) | k3take | k4run (w : Bid) | k5done
  deriving DecidableEq, Repr

inductive Env
  | send (v : Nat) | tryRecv | recv | dropTx | dropRx
  | giveTx (u : Tid) | giveRx (u : Tid)
  | go
  | kern        -- the kernel tail of this (coroutine) actor moves
  deriving DecidableEq, Repr

structure Sh where
  q : List Msg
  waitCo : Option Bid
  channels : Nat
  portDropped : Bool
  tok : Tid → Bool
  bthr : Bid → Tid
  nextB : Bid
  arc : Nat
  kt : KPc
  waitKernel : Bool
  co : Tid → Bool
  -- ghost
  tx : Option Tid
  rx : Option Tid
  pushed : List Msg
  hist : List (Msg × Disp)

/-- what the caller of `try_recv` does with its outcome -/
def cont (isCo : Bool) : Ctx → TR → Pc
  | .api, .ok m => .done .tryRecv (.ok m)
  | .api, .empty => .done .tryRecv .empty
  | .api, .disc => .done .tryRecv .disc
  | .pre, .ok m => .done .recv (.ok m)
  | .pre, .empty => if isCo then .y0yield else .r0new
  | .pre, .disc => .done .recv .disc
  | .reg _, .ok m => .r3clear (.ok m)
  | .reg b, .empty => .r4park b
  | .reg _, .disc => .r3clear .disc
  | .post, .ok m => .done .recv (.ok m)
  | .post, .empty => .t0pop .pre           -- `Receiver::recv` loops
  | .post, .disc => .done .recv .disc

/-- the handle's `Arc` is released; the last one drops the queue with what is still in it -/
def release (sh : Sh) (a : Api) : Sh × Pc :=
  if sh.arc = 1 then ({ sh with arc := 0, q := [], hist := sh.hist ++ sh.q.map (fun m => (m, none)) }, .done a .unit)
  else ({ sh with arc := sh.arc - 1 }, .done a .unit)

/-- one step of the kernel tail -/
def kstep (sh : Sh) (me : Tid) : Option Sh :=
  match sh.kt with
  | .kIdle => none
  | .k0store b => some { sh with waitCo := some b, bthr := upd sh.bthr b me, kt := .k1empty b }
  | .k1empty b => match sh.q with
      | [] => some { sh with kt := .k2load b }
      | _ :: _ => some { sh with kt := .k3take }
  | .k2load _ => if sh.channels = 0 then some { sh with kt := .k3take } else some { sh with kt := .k5done }
  | .k3take => match sh.waitCo with
      | some w => some { sh with waitCo := none, kt := .k4run w }
      | none => some { sh with kt := .k5done }
  | .k4run w => some { sh with tok := upd sh.tok (sh.bthr w) true, kt := .k5done }
  | .k5done => some { sh with waitKernel := false, kt := .kIdle }

/-- one step of the actor itself -/
def ustep (n : Nat) (sh : Sh) (me : Tid) : Pc → Env → Option (Sh × Pc)
  | .idle, .send v => if sh.tx = some me then some (sh, .s0load v) else none
  | .idle, .dropTx => if sh.tx = some me then some (sh, .x0store) else none
  | .idle, .giveTx u => if sh.tx = some me ∧ u < n then some ({ sh with tx := some u }, .idle) else none
  | .idle, .tryRecv => if sh.rx = some me then some (sh, .t0pop .api) else none
  | .idle, .recv => if sh.rx = some me then some (sh, .t0pop .pre) else none
  | .idle, .dropRx => if sh.rx = some me then some (sh, .p0store) else none
  | .idle, .giveRx u => if sh.rx = some me ∧ u < n then some ({ sh with rx := some u }, .idle) else none
  | .idle, _ => none
  | .done _ _, _ => some (sh, .idle)
  -- send
  | .s0load v, _ => if sh.portDropped then some (sh, .done .send (.refused v)) else some (sh, .s1push v)
  | .s1push v, _ => some ({ sh with q := sh.q ++ [⟨v, me⟩], pushed := sh.pushed ++ [⟨v, me⟩] }, .s2take)
  | .s2take, _ => match sh.waitCo with
      | some w => some ({ sh with waitCo := none }, .s3unpark w)
      | none => some (sh, .done .send .sent)
  | .s3unpark w, _ => some ({ sh with tok := upd sh.tok (sh.bthr w) true }, .done .send .sent)
  -- try_recv
  | .t0pop c, _ => match sh.q with
      | m :: q' => some ({ sh with q := q', hist := sh.hist ++ [(m, some me)] }, cont (sh.co me) c (.ok m))
      | [] => some (sh, .t1load c)
  | .t1load c, _ => if 0 < sh.channels then some (sh, cont (sh.co me) c .empty) else some (sh, .t2pop c)
  | .t2pop c, _ => match sh.q with
      | m :: q' => some ({ sh with q := q', hist := sh.hist ++ [(m, some me)] }, cont (sh.co me) c (.ok m))
      | [] => some (sh, cont (sh.co me) c .disc)
  -- recv, thread
  | .r0new, _ => some ({ sh with nextB := sh.nextB + 1, bthr := upd sh.bthr sh.nextB me }, .r1store sh.nextB)
  | .r1store b, _ => some ({ sh with waitCo := some b }, .t0pop (.reg b))
  | .r3clear r, _ => some ({ sh with waitCo := none }, .done .recv r)
  | .r4park _, _ => if sh.tok me then some ({ sh with tok := upd sh.tok me false }, .t0pop .post) else none
  -- recv, coroutine
  | .y0yield, _ =>
      if sh.kt = .kIdle then some ({ sh with nextB := sh.nextB + 1, waitKernel := true, kt := .k0store sh.nextB }, .y1susp sh.nextB)
      else none                           -- (a second kernel tail cannot exist: proved unreachable)
  | .y1susp _, _ => if sh.tok me then some ({ sh with tok := upd sh.tok me false }, .y2drop) else none
  | .y2drop, _ => if sh.waitKernel then some (sh, .y2drop) else some (sh, .t0pop .post)
  -- drop of the Sender
  | .x0store, _ => some ({ sh with channels := 0, tx := none }, .x1take)
  | .x1take, _ => match sh.waitCo with
      | some w => some ({ sh with waitCo := none }, .x2unpark w)
      | none => some (release sh .dropTx)
  | .x2unpark w, _ => some (release { sh with tok := upd sh.tok (sh.bthr w) true } .dropTx)
  -- drop of the Receiver
  | .p0store, _ => some ({ sh with portDropped := true }, .p1pop)
  | .p1pop, _ => match sh.q with
      | m :: q' => some ({ sh with q := q', hist := sh.hist ++ [(m, none)] }, .p1pop)
      | [] => some (release { sh with rx := none } .dropRx)

def tstep (n : Nat) (sh : Sh) (me : Tid) (pc : Pc) (e : Env) : Option (Sh × Pc) :=
  if e = .kern then
    (if sh.rx = some me then (kstep sh me).map (fun sh' => (sh', pc)) else none)
  else ustep n sh me pc e

structure St where
  n : Nat
  sh : Sh
  pcs : Tid → Pc

def step (s : St) (t : Tid) (e : Env) : Option St :=
  if t < s.n then
    match tstep s.n s.sh t (s.pcs t) e with
    | none => none
    | some (sh', pc') => some ⟨s.n, sh', upd s.pcs t pc'⟩
  else none

/-- `channel()`: actor 0 holds the Sender and the Receiver; `co` says which actors run in coroutine context -/
def init (n : Nat) (co : Tid → Bool) : St :=
  ⟨n, { q := [], waitCo := none, channels := 1, portDropped := false, tok := fun _ => false, bthr := fun _ => 0, nextB := 0,
        arc := 2, kt := .kIdle, waitKernel := false, co := co, tx := some 0, rx := some 0, pushed := [], hist := [] },
   fun _ => .idle⟩

/-- every finite schedule: disabled choices are skipped, so `∀ sched` is every interleaving -/
def run (s : St) : List (Tid × Env) → St
  | [] => s
  | (t, e) :: r => match step s t e with
    | some s' => run s' r
    | none => run s r

end MayVerif.Chan.Spsc
