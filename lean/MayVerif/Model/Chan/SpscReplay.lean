/-
  Observable labels of the spsc channel model and its replay machine (family `ch_spsc`): the driver executes the
  very `step` function of `Model/Chan/Spsc.lean` on implementation traces. Det mode has thread endpoints only; the
  labels of the coroutine path (kernel tail `k:<actor>`, `wait_kernel`) are given for the live mode to come.
-/
import MayVerif.Core.Trace
import MayVerif.Model.Chan.Spsc
namespace MayVerif.Chan.Spsc
open MayVerif MayVerif.Chan

def ch : Option (String × Nat) := some ("ch", 0)
def thr (t : Tid) : Option (String × Nat) := some ("thr", t)
def b2i (b : Bool) : Int := if b then 1 else 0

def apiName : Api → String
  | .send => "chan.send" | .tryRecv => "chan.try_recv" | .recv => "chan.recv" | .recvTimeout => "chan.recv_timeout"
  | .cloneTx => "chan.clone" | .dropTx => "chan.drop_tx" | .cloneRx => "chan.clone_rx" | .dropRx => "chan.drop_rx"

def resCode : Res → Int
  | .ok m => m.v | .disc => -1 | .empty => -2 | .tmo => -3 | .sent => 1 | .refused _ => 0 | .unit => 0

def optArg : Option Bid → LArg
  | some w => .id "blk" w
  | none => .num (-1)

def headArg : List Msg → LArg
  | m :: _ => .num m.v
  | [] => .num (-1)

/-- the observable of the actor's own step -/
def label (sh : Sh) (pc : Pc) (e : Env) : Label :=
  match pc, e with
  | .idle, .send v => { kind := "call", op := "chan.send", a1 := .num v }
  | .idle, .tryRecv => { kind := "call", op := "chan.try_recv" }
  | .idle, .recv => { kind := "call", op := "chan.recv" }
  | .idle, .dropTx => { kind := "call", op := "chan.drop_tx" }
  | .idle, .dropRx => { kind := "call", op := "chan.drop_rx" }
  | .idle, _ => { kind := "none", op := "-" }
  | .done a r, _ => { kind := "ret", op := apiName a, a1 := .num (resCode r) }
  | .s0load _, _ => { obj := "sync.spsc.port_dropped", inst := ch, op := "load", res := .num (b2i sh.portDropped), ord := "Relaxed" }
  | .s1push v, _ => { obj := "sync.spsc.queue", inst := ch, op := "q.push", a1 := .num v }
  | .s2take, _ | .x1take, _ => { obj := "sync.spsc.wait_co", inst := ch, op := "opt.take", res := optArg sh.waitCo }
  | .s3unpark w, _ | .x2unpark w, _ => { kind := "blk", obj := "tp", inst := thr (sh.bthr w), op := "unpark" }
  | .r0new, _ => { kind := "note", op := "born", a1 := .id "blk" sh.nextB }
  | .r1store b, _ => { obj := "sync.spsc.wait_co", inst := ch, op := "opt.store", a1 := .id "blk" b }
  | .t0pop _, _ | .t2pop _, _ | .p1pop, _ => { obj := "sync.spsc.queue", inst := ch, op := "q.pop", res := headArg sh.q }
  | .t1load _, _ => { obj := "sync.spsc.channels", inst := ch, op := "load", res := .num sh.channels, ord := "Relaxed" }
  | .r3clear _, _ => { obj := "sync.spsc.wait_co", inst := ch, op := "opt.clear" }
  | .r4park _, _ => { kind := "blk", obj := "tp", inst := none, op := "park_return", res := .num 1 }
  | .y0yield, _ => { kind := "note", op := "subscribe_enter" }
  | .y1susp _, _ => { kind := "note", op := "resume_enter" }
  | .y2drop, _ => { obj := "sync.spsc.wait_kernel", op := "load", res := .num (b2i sh.waitKernel), ord := "Relaxed" }
  | .x0store, _ => { obj := "sync.spsc.channels", inst := ch, op := "store", a1 := .num 0, ord := "Relaxed" }
  | .p0store, _ => { obj := "sync.spsc.port_dropped", inst := ch, op := "store", a1 := .num 1, ord := "Relaxed" }

/-- the observable of a kernel-tail step -/
def klabel (sh : Sh) : Label :=
  match sh.kt with
  | .kIdle => { kind := "none", op := "-" }
  | .k0store b => { obj := "sync.spsc.wait_co", inst := ch, op := "opt.store", a1 := .id "blk" b }
  | .k1empty _ => { obj := "sync.spsc.queue", inst := ch, op := "q.is_empty", res := .num (b2i sh.q.isEmpty) }
  | .k2load _ => { obj := "sync.spsc.channels", inst := ch, op := "load", res := .num sh.channels, ord := "Relaxed" }
  | .k3take => { obj := "sync.spsc.wait_co", inst := ch, op := "opt.take", res := optArg sh.waitCo }
  | .k4run _ => { kind := "note", op := "resume_enter" }
  | .k5done => { obj := "sync.spsc.wait_kernel", op := "store", a1 := .num 0, ord := "Relaxed" }

def ctxName : Ctx → String | .api => "api" | .pre => "pre" | .reg _ => "reg" | .post => "post"

def pcName : Pc → String
  | .idle => "idle" | .done .. => "done" | .s0load _ => "s0load" | .s1push _ => "s1push" | .s2take => "s2take"
  | .s3unpark _ => "s3unpark" | .r0new => "r0new" | .r1store _ => "r1store"
  | .t0pop c => "t0pop." ++ ctxName c | .t1load c => "t1load." ++ ctxName c | .t2pop c => "t2pop." ++ ctxName c
  | .r3clear _ => "r3clear" | .r4park _ => "r4park" | .y0yield => "y0yield" | .y1susp _ => "y1susp" | .y2drop => "y2drop"
  | .x0store => "x0store" | .x1take => "x1take" | .x2unpark _ => "x2unpark" | .p0store => "p0store" | .p1pop => "p1pop"

def envsFor (pc : Pc) (ev : Event) : List Env :=
  match pc with
  | .idle =>
    if ev.kind == "call" then
      match ev.op, ev.a1 with
      | "chan.send", .num v => [.send v.toNat]
      | "chan.try_recv", _ => [.tryRecv]
      | "chan.recv", _ => [.recv]
      | "chan.drop_tx", _ => [.dropTx]
      | "chan.drop_rx", _ => [.dropRx]
      | _, _ => []
    else []
  | _ => [.go]

def transName (sh : Sh) (pc : Pc) (e : Env) : String :=
  let br := match pc, e with
    | .idle, .send _ => "/send" | .idle, .tryRecv => "/try_recv" | .idle, .recv => "/recv"
    | .idle, .dropTx => "/drop_tx" | .idle, .dropRx => "/drop_rx"
    | .done _ r, _ => (match r with | .ok _ => "/ok" | .empty => "/empty" | .disc => "/disc" | .tmo => "/tmo" | .sent => "/sent"
                                    | .refused _ => "/refused" | .unit => "/unit")
    | .s0load _, _ => if sh.portDropped then "/port_dropped" else "/open"
    | .s2take, _ | .x1take, _ => if sh.waitCo.isSome then "/wake" else "/nobody"
    | .t0pop _, _ | .t2pop _, _ | .p1pop, _ => if sh.q.isEmpty then "/none" else "/some"
    | .t1load _, _ => if 0 < sh.channels then "/sender" else "/no_sender"
    | _, _ => ""
  pcName pc ++ br

def cands (s : St) (t : Nat) (ev : Event) : List (Label × St × String) :=
  let pc := s.pcs t
  if ev.kind == "blk" && ev.op == "park_enter" then
    match pc with
    | .r4park _ => [({ kind := "blk", obj := "tp", inst := thr t, op := "park_enter" }, s, "park_enter")]
    | _ => []
  else
    (envsFor pc ev).filterMap fun e =>
      match step s t e with
      | some s' =>
        let l := label s.sh pc e
        -- the thread's own park names the thread
        let l := match pc with | .r4park _ => { l with inst := thr t } | _ => l
        some (l, s', transName s.sh pc e)
      | none => none

def machine : Machine where
  St := St
  init := fun h => match hnat h "actors", hnat h "tx", hnat h "rx" with
    | some n, some tx, some rx =>
      let s := run (init n (fun _ => false)) [(0, .giveTx tx), (0, .giveRx rx)]
      if s.sh.tx == some tx && s.sh.rx == some rx then .ok s else .error "cannot set up the handle distribution of the header"
    | _, _, _ => .error "ch_spsc scenario without actors= tx= rx="
  actor := fun s a => if a.startsWith "t" then ((a.drop 1).toString.toNat?).bind (fun t => if t < s.n then some t else none) else none
  cands := cands
  inv := fun s =>
    if s.sh.pushed != s.sh.hist.map (·.1) ++ s.sh.q then some "pushed ≠ popped ++ queued"
    else if (s.sh.channels == 0) != (s.sh.tx == none) then some "channels ≠ (a Sender exists)"
    else none
  where_ := fun s t => pcName (s.pcs t)
  atEnd := fun s =>
    if !(List.range s.n).all (fun t => s.pcs t == .idle) then some "not every actor is idle at the end of a finished run"
    else if s.sh.arc != 0 || !s.sh.q.isEmpty then some s!"all idle and done but arc={s.sh.arc} |q|={s.sh.q.length}"
    else none
  -- not steps of the channel: notes other than the birth of a blocker of this channel, and the harness's own gates
  skip := fun e => (e.kind == "note" && !(e.op == "born" && (match e.a1 with | .id s => s.startsWith "SpscBlocker" | _ => false)))
    || (e.kind == "blk" && !e.inst.startsWith "Thread")

end MayVerif.Chan.Spsc
