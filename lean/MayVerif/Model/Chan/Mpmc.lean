/-
  Model of `may::sync::mpmc` (src/sync/mpmc.rs, with the F4 fix of /verif/pending_fixes/F4.patch): one `tstep` case
  per step of the channel code, in program order. `SegQueue` is an atomic FIFO (external crate, by contract).

  The `Semphore` is NOT modelled per atomic operation here (that is C10's model, `Model/Sync/Sem.lean`): at this
  layer it is the *counted gate with FIFO hand-off* that C10 specifies, i.e. semphore.rs with every call executed
  atomically up to its park and up to each unpark:
      try_wait   cnt > 0 ? (cnt -= 1; true) : false
      wait(d)    try_wait, else register a fresh blocker `b` (wq.push(b); cnt -= 1) and park on it;
                 Ok ⇒ acquired;  time-out (only with a duration) ⇒ `b` already unparked ? post() : mark `b` released
      post       old = cnt; cnt += 1; old < 0 ⇒ pop the first waiter `w`, then (own step) unpark it:
                 token := true; `w` released ⇒ post() again on its behalf
  The tie to the code is made at exactly these points: mpmc.rs emits a schedule-point event in front of every call
  into the semaphore (`sem.post / sem.wait / sem.try_wait`, /verif/pending_hooks/wp-chan.patch), the blocker's
  park / unpark are the virtual `ThreadPark` events, and `sync/semphore.rs` is outside the scenario filter, so that
  in det mode its code really runs atomically between those points. (The interleavings *inside* the semaphore, the
  two-flag hand-over included, are explored and proved by C10.)

      send(t):        m0load   rx_ports.load(Acquire) == 0 ? Err(t)
                      m1push   queue.push(t)
                      gpost    sem.post()                 gunpark  (the unpark of the waiter the post popped)
      try_recv():     y0try    sem.try_wait() ? : Empty                                   [fix: no Disconnected here]
                      y1pop    queue.pop()  Some ⇒ Ok
                      y2load   tx_ports.load(Acquire) == 0 ? : unreachable!()
                      gpost    sem.post()   – the permit without data is the disconnect token: pass it on   [fix]
                               then Err(Disconnected)
      recv(dur):      try_recv (Ok / Disconnected ⇒ return)
                      w0wait   sem.wait() / sem.wait_timeout(d)      w1park  the park inside it; false ⇒ Err(Timeout)
                      y1pop    queue.pop() …  as above
      clone/drop:     c0fadd   tx_ports.fetch_add(1)     x0fsub  tx_ports.fetch_sub(1) == 1 ? gpost sem.post() (once) [fix]
                      cr0fadd  rx_ports.fetch_add(1)     xr0fsub rx_ports.fetch_sub(1) == 1 ? e1pop while pop().is_some() {}
      Drop for InnerQueue:  z0load  assert_eq!(tx_ports, 0)   z1load  assert_eq!(rx_ports, 0), then the queue is dropped

  The Arc's strong count is folded into the last hooked step of a handle drop (`release`), as in `Mpsc.lean`.
  Handles: `tx t` / `rx t` = number of Sender / Receiver handles actor `t` owns; an idle actor may hand one to
  another actor (`Env.giveTx / giveRx`).

  Ghost fields: `tx rx pushed hist` as in `Mpsc.lean`; `dposted` (the last Sender's drop has posted the disconnect
  token), `tu b` (blocker `b` carries a permit for its parked owner).
-/
import MayVerif.Model.Chan.Base
namespace MayVerif.Chan.Mpmc
open MayVerif.Chan

/-- what follows a `post()` (and the unparks it causes) -/
inductive K | sendRet | discRet (a : Api) | dropTx | tmoRet
  deriving DecidableEq, Repr

inductive Pc
  | idle
  | done (a : Api) (r : Res)
  | m0load (v : Nat) | m1push (v : Nat)
  | gpost (k : K) | gunpark (w : Bid) (k : K)
  | y0try (a : Api) | y1pop (a : Api) | y2load (a : Api)
  | w0wait (a : Api) | w1park (b : Bid) (a : Api)
  | c0fadd | x0fsub
  | cr0fadd | xr0fsub | e1pop
  | z0load (a : Api) | z1load (a : Api)
  deriving DecidableEq, Repr

inductive Env
  | send (v : Nat) | tryRecv | recv | recvTimeout | cloneTx | dropTx | cloneRx | dropRx
  | giveTx (u : Tid) | giveRx (u : Tid)
  | go | timeout
  deriving DecidableEq, Repr

structure Sh where
  q : List Msg
  -- the gate
  cnt : Int
  wq : List Bid
  tok : Bid → Bool
  unparked : Bid → Bool
  released : Bid → Bool
  nextB : Bid
  -- the channel's counters
  txPorts : Nat
  rxPorts : Nat
  arc : Nat
  -- ghost
  tx : Tid → Nat
  rx : Tid → Nat
  pushed : List Msg
  hist : List (Msg × Disp)
  dposted : Bool
  tu : Bid → Bool

def isTimed (a : Api) : Bool := a == .recvTimeout

/-- the handle's `Arc` is released; the last one runs `Drop for InnerQueue` -/
def release (sh : Sh) (a : Api) : Sh × Pc :=
  if sh.arc = 1 then ({ sh with arc := 0 }, .z0load a) else ({ sh with arc := sh.arc - 1 }, .done a .unit)

def kont (sh : Sh) : K → Sh × Pc
  | .sendRet => (sh, .done .send .sent)
  | .discRet a => (sh, .done a .disc)
  | .dropTx => release sh .dropTx
  | .tmoRet => (sh, .done .recvTimeout .tmo)

/-- `Semphore::post` up to the unpark: `fetch_add(1)`, and with a negative old value the pop of the first waiter -/
def postTo (sh : Sh) (k : K) : Option (Sh × Pc) :=
  if sh.cnt < 0 then
    match sh.wq with
    | [] => none                               -- `expect("got null blocker!")`: proved unreachable
    | w :: r => some ({ sh with cnt := sh.cnt + 1, wq := r }, .gunpark w k)
  else some (kont { sh with cnt := sh.cnt + 1 } k)

def tstep (n : Nat) (sh : Sh) (me : Tid) : Pc → Env → Option (Sh × Pc)
  | .idle, .send v => if 0 < sh.tx me then some (sh, .m0load v) else none
  | .idle, .cloneTx => if 0 < sh.tx me then some (sh, .c0fadd) else none
  | .idle, .dropTx => if 0 < sh.tx me then some (sh, .x0fsub) else none
  | .idle, .giveTx u =>
      if 0 < sh.tx me ∧ u < n then
        some ({ sh with tx := upd (upd sh.tx me (sh.tx me - 1)) u (upd sh.tx me (sh.tx me - 1) u + 1) }, .idle)
      else none
  | .idle, .tryRecv => if 0 < sh.rx me then some (sh, .y0try .tryRecv) else none
  | .idle, .recv => if 0 < sh.rx me then some (sh, .y0try .recv) else none
  | .idle, .recvTimeout => if 0 < sh.rx me then some (sh, .y0try .recvTimeout) else none
  | .idle, .cloneRx => if 0 < sh.rx me then some (sh, .cr0fadd) else none
  | .idle, .dropRx => if 0 < sh.rx me then some (sh, .xr0fsub) else none
  | .idle, .giveRx u =>
      if 0 < sh.rx me ∧ u < n then
        some ({ sh with rx := upd (upd sh.rx me (sh.rx me - 1)) u (upd sh.rx me (sh.rx me - 1) u + 1) }, .idle)
      else none
  | .idle, _ => none
  | .done _ _, _ => some (sh, .idle)
  -- send
  | .m0load v, _ => if sh.rxPorts = 0 then some (sh, .done .send (.refused v)) else some (sh, .m1push v)
  | .m1push v, _ => some ({ sh with q := sh.q ++ [⟨v, me⟩], pushed := sh.pushed ++ [⟨v, me⟩] }, .gpost .sendRet)
  -- the gate: post and the unpark it causes
  | .gpost k, _ => postTo { sh with dposted := sh.dposted || (k == .dropTx) } k
  | .gunpark w k, _ =>
      if sh.released w then
        postTo { sh with tok := upd sh.tok w true, unparked := upd sh.unparked w true, released := upd sh.released w false } k
      else
        some (kont { sh with tok := upd sh.tok w true, unparked := upd sh.unparked w true, tu := upd sh.tu w true } k)
  -- try_recv (also the first thing `recv` does)
  | .y0try a, _ =>
      if 0 < sh.cnt then some ({ sh with cnt := sh.cnt - 1 }, .y1pop a)
      else if a = .tryRecv then some (sh, .done .tryRecv .empty)
      else some (sh, .w0wait a)
  | .y1pop a, _ => match sh.q with
      | m :: q' => some ({ sh with q := q', hist := sh.hist ++ [(m, some me)] }, .done a (.ok m))
      | [] => some (sh, .y2load a)
  | .y2load a, _ => if sh.txPorts = 0 then some (sh, .gpost (.discRet a)) else none     -- `unreachable!`: proved unreachable
  -- recv: the wait
  | .w0wait a, _ =>
      if 0 < sh.cnt then some ({ sh with cnt := sh.cnt - 1 }, .y1pop a)
      else some ({ sh with cnt := sh.cnt - 1, wq := sh.wq ++ [sh.nextB], nextB := sh.nextB + 1 },
                 .w1park sh.nextB a)
  | .w1park b a, e =>
      if e = .timeout then
        (if isTimed a then
          (if sh.unparked b then postTo { sh with tu := upd sh.tu b false } .tmoRet
           else some ({ sh with released := upd sh.released b true }, .done .recvTimeout .tmo))
         else none)
      else if sh.tok b then some ({ sh with tok := upd sh.tok b false, tu := upd sh.tu b false }, .y1pop a)
      else none
  -- clone / drop of a Sender
  | .c0fadd, _ => some ({ sh with txPorts := sh.txPorts + 1, tx := upd sh.tx me (sh.tx me + 1), arc := sh.arc + 1 }, .done .cloneTx .unit)
  | .x0fsub, _ =>
      if sh.txPorts = 0 then none      -- `panic!("bad number of tx_ports left")`: proved unreachable
      else if sh.txPorts = 1 then some ({ sh with txPorts := 0, tx := upd sh.tx me (sh.tx me - 1) }, .gpost .dropTx)
      else some (release { sh with txPorts := sh.txPorts - 1, tx := upd sh.tx me (sh.tx me - 1) } .dropTx)
  -- clone / drop of a Receiver
  | .cr0fadd, _ => some ({ sh with rxPorts := sh.rxPorts + 1, rx := upd sh.rx me (sh.rx me + 1), arc := sh.arc + 1 }, .done .cloneRx .unit)
  | .xr0fsub, _ =>
      if sh.rxPorts = 0 then none      -- `panic!("bad number of rx_ports left")`: proved unreachable
      else if sh.rxPorts = 1 then some ({ sh with rxPorts := 0, rx := upd sh.rx me (sh.rx me - 1) }, .e1pop)
      else some (release { sh with rxPorts := sh.rxPorts - 1, rx := upd sh.rx me (sh.rx me - 1) } .dropRx)
  | .e1pop, _ => match sh.q with
      | m :: q' => some ({ sh with q := q', hist := sh.hist ++ [(m, none)] }, .e1pop)
      | [] => some (release sh .dropRx)
  -- Drop for InnerQueue
  | .z0load a, _ => if sh.txPorts = 0 then some (sh, .z1load a) else none      -- `assert_eq!`: proved unreachable
  | .z1load a, _ =>
      if sh.rxPorts = 0 then some ({ sh with q := [], hist := sh.hist ++ sh.q.map (fun m => (m, none)) }, .done a .unit)
      else none                                                                 -- `assert_eq!`: proved unreachable

structure St where
  n : Nat
  sh : Sh
  pcs : Tid → Pc

def step (s : St) (t : Tid) (e : Env) : Option St :=
  if t < s.n then
    match tstep s.n s.sh t (s.pcs t) e with
    | none => none
    | some (sh', pc') => some ⟨s.n, sh', upd s.pcs t pc'⟩
  else none

/-- `channel()`: actor 0 holds the Sender and the Receiver -/
def init (n : Nat) : St :=
  ⟨n, { q := [], cnt := 0, wq := [], tok := fun _ => false, unparked := fun _ => false, released := fun _ => false, nextB := 0,
        txPorts := 1, rxPorts := 1, arc := 2, tx := fun t => if t = 0 then 1 else 0, rx := fun t => if t = 0 then 1 else 0,
        pushed := [], hist := [], dposted := false, tu := fun _ => false },
   fun _ => .idle⟩

/-- every finite schedule: disabled choices are skipped, so `∀ sched` is every interleaving -/
def run (s : St) : List (Tid × Env) → St
  | [] => s
  | (t, e) :: r => match step s t e with
    | some s' => run s' r
    | none => run s r

end MayVerif.Chan.Mpmc
