/-
  Variant of `Model/Chan/Mpmc.lean` with the behaviour of the PINNED tree (before /verif/pending_fixes/F4.patch) at the
  three places the fix changes; every other program point is the step function of `Mpmc.lean` itself. It exists only
  to carry the negation witnesses of defect F4 (`Props/C07.lean`); no theorem about the fixed code refers to it.

      try_recv():  `if !sem.try_wait() { return match tx_ports.load() { 0 => Disconnected, _ => Empty } }`   (y0load)
                   `pop() == None`  ⇒  `tx_ports.load() == 0 ? Err(Disconnected)`   – the permit is NOT passed on
      drop_tx():   `1 => while sem.get_value() == 0 { sem.post() }`                                        (dloop)
-/
import MayVerif.Model.Chan.Mpmc
namespace MayVerif.Chan.MpmcPinned
open MayVerif.Chan MayVerif.Chan.Mpmc

inductive PcP
  | base (pc : Pc)
  | y0load (a : Api)      -- `tx_ports.load()` after the failed `try_wait`
  | dloop                 -- `sem.get_value() == 0 ?` of the last Sender's drop
  deriving DecidableEq, Repr

def lift (r : Option (Sh × Pc)) : Option (Sh × PcP) := r.map fun (sh, pc) => (sh, .base pc)

/-- after a post made by the drop loop the loop condition is evaluated again -/
def relift (r : Option (Sh × Pc)) : Option (Sh × PcP) :=
  r.map fun (sh, pc) => match pc with
    | .done .dropTx .unit => (sh, .dloop)          -- `kont .dropTx` of the fixed model: here the loop goes on
    | .z0load .dropTx => ({ sh with arc := sh.arc + 1 }, .dloop)   -- (undo the release the fixed `kont` folded in)
    | pc => (sh, .base pc)

def tstepP (n : Nat) (sh : Sh) (me : Tid) : PcP → Env → Option (Sh × PcP)
  | .base (.y0try a), _ =>
      if 0 < sh.cnt then some ({ sh with cnt := sh.cnt - 1 }, .base (.y1pop a)) else some (sh, .y0load a)
  | .y0load a, _ =>
      if sh.txPorts = 0 then some (sh, .base (.done a .disc))
      else if a = .tryRecv then some (sh, .base (.done .tryRecv .empty))
      else some (sh, .base (.w0wait a))
  | .base (.y2load a), _ => if sh.txPorts = 0 then some (sh, .base (.done a .disc)) else none
  | .base .x0fsub, _ =>
      if sh.txPorts = 0 then none
      else if sh.txPorts = 1 then some ({ sh with txPorts := 0, tx := upd sh.tx me (sh.tx me - 1) }, .dloop)
      else lift (some (release { sh with txPorts := sh.txPorts - 1, tx := upd sh.tx me (sh.tx me - 1) } .dropTx))
  | .dloop, _ =>
      if 0 < sh.cnt then lift (some (release sh .dropTx))         -- get_value() != 0: the loop ends
      else some ({ sh with arc := sh.arc + 1 }, .base (.gpost .dropTx))   -- post; (`arc + 1`: the fixed `kont` will release once)
  | .base (.gpost .dropTx), e => relift (tstep n sh me (.gpost .dropTx) e)
  | .base (.gunpark w .dropTx), e => relift (tstep n sh me (.gunpark w .dropTx) e)
  | .base pc, e => lift (tstep n sh me pc e)

structure StP where
  n : Nat
  sh : Sh
  pcs : Tid → PcP

def stepP (s : StP) (t : Tid) (e : Env) : Option StP :=
  if t < s.n then
    match tstepP s.n s.sh t (s.pcs t) e with
    | none => none
    | some (sh', pc') => some ⟨s.n, sh', upd s.pcs t pc'⟩
  else none

def initP (n : Nat) : StP := ⟨n, (init n).sh, fun _ => .base .idle⟩

def runP (s : StP) : List (Tid × Env) → StP
  | [] => s
  | (t, e) :: r => match stepP s t e with
    | some s' => runP s' r
    | none => runP s r

/-- a deadlock with a receiver parked for ever although no Sender is left: every actor is idle or parked in an
    untimed `recv` without its wake-up token, at least one is parked, and all Senders have been dropped -/
def hung (s : StP) : Bool :=
  (List.range s.n).all (fun u => match s.pcs u with
    | .base .idle => true
    | .base (.w1park b a) => !s.sh.tok b && !isTimed a
    | _ => false) &&
  (List.range s.n).any (fun u => match s.pcs u with | .base (.w1park ..) => true | _ => false) &&
  s.sh.txPorts == 0 && (List.range s.n).all (fun u => s.sh.tx u == 0)

end MayVerif.Chan.MpmcPinned
