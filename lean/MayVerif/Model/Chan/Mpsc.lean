/-
  Model of `may::sync::mpsc` (src/sync/mpsc.rs): one `tstep` case per shared-memory operation of the code, in
  program order. The inner `may_queue::mpsc::Queue` is an atomic FIFO at this layer (C03 is its own check),
  a `Blocker` is the binary token of C02 (`tok`), one fresh blocker per `InnerQueue::recv` round.

      send(t):        s0load   port_dropped.load(Acquire) ? Err(t)
                      s1push   queue.push(t)
                      s2take   to_wake.take()        s3unpark  w.unpark()
      try_recv():     t0pop    queue.pop()  Some ⇒ Ok
                      t1load   channels.load(Acquire) > 0 ? Empty
                      t2pop    queue.pop().ok_or(Disconnected)              ("there is no sender any more, should re-check")
      recv(dur):      r0new    Blocker::current()                            (the `born` note of the trace)
                      r1store  to_wake.store(cur)
                      try_recv (context `reg`)   Empty ⇒ r4park, else r3clear  to_wake.clear()  and return
                      r4park   cur.park(dur)      Ok | Err(Timeout)  (Env.timeout, only with a duration)
                      try_recv (context `post`)  Empty ⇒ Receiver::recv loops (r0new) / recv_max_until checks the deadline
      recv_timeout:   try_recv (context `pre`), Empty ⇒ recv_max_until: loop { recv(Some(d)); r5dl: now >= deadline ? Timeout }
      clone:          c0fadd   channels.fetch_add(1)
      drop(Sender):   x0fsub   channels.fetch_sub(1) == 1 ?  x1take  to_wake.take()   x2unpark  w.unpark()
      drop(Receiver): p0store  port_dropped.store(true)     p1pop   while queue.pop().is_some() {}
      Drop for InnerQueue (run by whoever drops the last handle of the Arc):
                      q0load   assert_eq!(channels.load(), 0)    q1take  assert!(to_wake.take().is_none())
                               then the queue is dropped with whatever is still in it

  The strong count of the `Arc<InnerQueue>` is not hooked; its decrement is folded into the last hooked step of the
  handle's drop (`release`), which is exact in det mode (un-hooked code runs atomically with the preceding hooked step).

  Handles: `tx t` = number of `Sender`s actor `t` owns, `rx` = the actor that owns the `Receiver`; an idle actor may
  hand a handle to another actor (`Env.giveTx / giveRx`, no code step: moving a value between threads). Every API step
  needs the handle it is called on, so Rust's ownership discipline (no drop of a handle that is in use) is built in.

  Ghost fields (never read by a non-ghost part of a step): `tx`, `rx`, `pushed` (every message in push order – a send
  returns Ok iff it pushed), `hist` (every popped message in pop order with who got it), `src` inside `Msg`.
-/
import MayVerif.Model.Chan.Base
namespace MayVerif.Chan.Mpsc
open MayVerif.Chan

/-- where `try_recv` is running: as the API, as recv_timeout's optimistic first try, inside `recv` after the
    registration of blocker `b`, inside `recv` after the park -/
inductive Ctx | api | pre | reg (b : Bid) (timed : Bool) | post (timed : Bool)
  deriving DecidableEq, Repr

inductive Pc
  | idle
  | done (a : Api) (r : Res)
  | s0load (v : Nat) | s1push (v : Nat) | s2take | s3unpark (w : Bid)
  | r0new (timed : Bool) | r1store (b : Bid) (timed : Bool)
  | t0pop (c : Ctx) | t1load (c : Ctx) | t2pop (c : Ctx)
  | r3clear (a : Api) (r : Res)
  | r4park (b : Bid) (timed : Bool)
  | r5dl
  | c0fadd
  | x0fsub | x1take | x2unpark (w : Bid)
  | p0store | p1pop
  | q0load (a : Api) | q1take (a : Api)
  deriving DecidableEq, Repr

/-- caller / environment choices -/
inductive Env
  | send (v : Nat) | tryRecv | recv | recvTimeout | clone | dropTx | dropRx
  | giveTx (u : Tid) | giveRx (u : Tid)
  | go | timeout | deadline
  deriving DecidableEq, Repr

structure Sh where
  q : List Msg
  toWake : Option Bid
  channels : Nat
  portDropped : Bool
  tok : Bid → Bool
  nextB : Bid
  arc : Nat
  -- ghost
  tx : Tid → Nat
  rx : Option Tid
  pushed : List Msg
  hist : List (Msg × Disp)

def recvApi (timed : Bool) : Api := if timed then .recvTimeout else .recv

/-- what the caller of `try_recv` does with its outcome -/
def cont : Ctx → TR → Pc
  | .api, .ok m => .done .tryRecv (.ok m)
  | .api, .empty => .done .tryRecv .empty
  | .api, .disc => .done .tryRecv .disc
  | .pre, .ok m => .done .recvTimeout (.ok m)
  | .pre, .empty => .r0new true
  | .pre, .disc => .done .recvTimeout .disc
  | .reg _ timed, .ok m => .r3clear (recvApi timed) (.ok m)
  | .reg b timed, .empty => .r4park b timed
  | .reg _ timed, .disc => .r3clear (recvApi timed) .disc
  | .post timed, .ok m => .done (recvApi timed) (.ok m)
  | .post timed, .empty => if timed then .r5dl else .r0new false
  | .post timed, .disc => .done (recvApi timed) .disc

/-- the handle's `Arc` is released; the last one runs `Drop for InnerQueue` -/
def release (sh : Sh) (a : Api) : Sh × Pc :=
  if sh.arc = 1 then ({ sh with arc := 0 }, .q0load a) else ({ sh with arc := sh.arc - 1 }, .done a .unit)

def tstep (n : Nat) (sh : Sh) (me : Tid) : Pc → Env → Option (Sh × Pc)
  | .idle, .send v => if 0 < sh.tx me then some (sh, .s0load v) else none
  | .idle, .clone => if 0 < sh.tx me then some (sh, .c0fadd) else none
  | .idle, .dropTx => if 0 < sh.tx me then some (sh, .x0fsub) else none
  | .idle, .giveTx u =>
      if 0 < sh.tx me ∧ u < n then
        some ({ sh with tx := upd (upd sh.tx me (sh.tx me - 1)) u (upd sh.tx me (sh.tx me - 1) u + 1) }, .idle)
      else none
  | .idle, .tryRecv => if sh.rx = some me then some (sh, .t0pop .api) else none
  | .idle, .recv => if sh.rx = some me then some (sh, .r0new false) else none
  | .idle, .recvTimeout => if sh.rx = some me then some (sh, .t0pop .pre) else none
  | .idle, .dropRx => if sh.rx = some me then some (sh, .p0store) else none
  | .idle, .giveRx u => if sh.rx = some me ∧ u < n then some ({ sh with rx := some u }, .idle) else none
  | .idle, _ => none
  | .done _ _, _ => some (sh, .idle)
  -- send
  | .s0load v, _ => if sh.portDropped then some (sh, .done .send (.refused v)) else some (sh, .s1push v)
  | .s1push v, _ => some ({ sh with q := sh.q ++ [⟨v, me⟩], pushed := sh.pushed ++ [⟨v, me⟩] }, .s2take)
  | .s2take, _ => match sh.toWake with
      | some w => some ({ sh with toWake := none }, .s3unpark w)
      | none => some (sh, .done .send .sent)
  | .s3unpark w, _ => some ({ sh with tok := upd sh.tok w true }, .done .send .sent)
  -- recv
  | .r0new timed, _ => some ({ sh with nextB := sh.nextB + 1 }, .r1store sh.nextB timed)
  | .r1store b timed, _ => some ({ sh with toWake := some b }, .t0pop (.reg b timed))
  | .t0pop c, _ => match sh.q with
      | m :: q' => some ({ sh with q := q', hist := sh.hist ++ [(m, some me)] }, cont c (.ok m))
      | [] => some (sh, .t1load c)
  | .t1load c, _ => if 0 < sh.channels then some (sh, cont c .empty) else some (sh, .t2pop c)
  | .t2pop c, _ => match sh.q with
      | m :: q' => some ({ sh with q := q', hist := sh.hist ++ [(m, some me)] }, cont c (.ok m))
      | [] => some (sh, cont c .disc)
  | .r3clear a r, _ => some ({ sh with toWake := none }, .done a r)
  | .r4park b timed, e =>
      if e = .timeout then (if timed then some (sh, .t0pop (.post timed)) else none)
      else if sh.tok b then some ({ sh with tok := upd sh.tok b false }, .t0pop (.post timed)) else none
  | .r5dl, e =>
      if e = .deadline then some (sh, .idle)      -- `Instant::now() >= deadline`: return Err(Timeout)
      else some ({ sh with nextB := sh.nextB + 1 }, .r1store sh.nextB true)
  -- clone / drop of a Sender
  | .c0fadd, _ => some ({ sh with channels := sh.channels + 1, tx := upd sh.tx me (sh.tx me + 1), arc := sh.arc + 1 }, .done .cloneTx .unit)
  | .x0fsub, _ =>
      if sh.channels = 0 then none      -- `panic!("bad number of channels left")`: proved unreachable
      else if sh.channels = 1 then some ({ sh with channels := 0, tx := upd sh.tx me (sh.tx me - 1) }, .x1take)
      else some (release { sh with channels := sh.channels - 1, tx := upd sh.tx me (sh.tx me - 1) } .dropTx)
  | .x1take, _ => match sh.toWake with
      | some w => some ({ sh with toWake := none }, .x2unpark w)
      | none => some (release sh .dropTx)
  | .x2unpark w, _ => some (release { sh with tok := upd sh.tok w true } .dropTx)
  -- drop of the Receiver
  | .p0store, _ => some ({ sh with portDropped := true }, .p1pop)
  | .p1pop, _ => match sh.q with
      | m :: q' => some ({ sh with q := q', hist := sh.hist ++ [(m, none)] }, .p1pop)
      | [] => some (release { sh with rx := none } .dropRx)
  -- Drop for InnerQueue
  | .q0load a, _ => if sh.channels = 0 then some (sh, .q1take a) else none      -- `assert_eq!`: proved unreachable
  | .q1take a, _ => match sh.toWake with
      | some _ => none                                                          -- `assert!`: proved unreachable
      | none => some ({ sh with q := [], hist := sh.hist ++ sh.q.map (fun m => (m, none)) }, .done a .unit)

structure St where
  n : Nat
  sh : Sh
  pcs : Tid → Pc

def step (s : St) (t : Tid) (e : Env) : Option St :=
  if t < s.n then
    match tstep s.n s.sh t (s.pcs t) e with
    | none => none
    | some (sh', pc') => some ⟨s.n, sh', upd s.pcs t pc'⟩
  else none

/-- `channel()`: actor 0 holds the Sender and the Receiver -/
def init (n : Nat) : St :=
  ⟨n, ⟨[], none, 1, false, fun _ => false, 0, 2, fun t => if t = 0 then 1 else 0, some 0, [], []⟩, fun _ => .idle⟩

/-- every finite schedule: disabled choices are skipped, so `∀ sched` is every interleaving -/
def run (s : St) : List (Tid × Env) → St
  | [] => s
  | (t, e) :: r => match step s t e with
    | some s' => run s' r
    | none => run s r

end MayVerif.Chan.Mpsc
