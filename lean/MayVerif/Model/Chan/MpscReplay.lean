/-
  Observable labels of the mpsc channel model and its replay machine (family `ch_mpsc`): the driver executes the
  very `step` function of `Model/Chan/Mpsc.lean` on implementation traces.
-/
import MayVerif.Core.Trace
import MayVerif.Model.Chan.Mpsc
namespace MayVerif.Chan.Mpsc
open MayVerif MayVerif.Chan

def ch : Option (String × Nat) := some ("ch", 0)
def bl (b : Bid) : Option (String × Nat) := some ("blk", b)
def b2i (b : Bool) : Int := if b then 1 else 0

def apiName : Api → String
  | .send => "chan.send" | .tryRecv => "chan.try_recv" | .recv => "chan.recv" | .recvTimeout => "chan.recv_timeout"
  | .cloneTx => "chan.clone" | .dropTx => "chan.drop_tx" | .cloneRx => "chan.clone_rx" | .dropRx => "chan.drop_rx"

/-- result codes of the `ret` events -/
def resCode : Res → Int
  | .ok m => m.v | .disc => -1 | .empty => -2 | .tmo => -3 | .sent => 1 | .refused _ => 0 | .unit => 0

def optArg : Option Bid → LArg
  | some w => .id "blk" w
  | none => .num (-1)

def headArg : List Msg → LArg
  | m :: _ => .num m.v
  | [] => .num (-1)

/-- the observable of the step `tstep n sh me pc e` -/
def label (sh : Sh) (pc : Pc) (e : Env) : Label :=
  match pc, e with
  | .idle, .send v => { kind := "call", op := "chan.send", a1 := .num v }
  | .idle, .tryRecv => { kind := "call", op := "chan.try_recv" }
  | .idle, .recv => { kind := "call", op := "chan.recv" }
  | .idle, .recvTimeout => { kind := "call", op := "chan.recv_timeout" }
  | .idle, .clone => { kind := "call", op := "chan.clone" }
  | .idle, .dropTx => { kind := "call", op := "chan.drop_tx" }
  | .idle, .dropRx => { kind := "call", op := "chan.drop_rx" }
  | .idle, _ => { kind := "none", op := "-" }
  | .done a r, _ => { kind := "ret", op := apiName a, a1 := .num (resCode r) }
  | .s0load _, _ => { obj := "sync.mpsc.port_dropped", inst := ch, op := "load", res := .num (b2i sh.portDropped), ord := "Acquire" }
  | .s1push v, _ => { obj := "sync.mpsc.queue", inst := ch, op := "q.push", a1 := .num v }
  | .s2take, _ | .x1take, _ | .q1take _, _ => { obj := "sync.mpsc.to_wake", inst := ch, op := "opt.take", res := optArg sh.toWake }
  | .s3unpark w, _ | .x2unpark w, _ => { kind := "blk", obj := "tp", inst := bl w, op := "unpark" }
  | .r0new _, _ => { kind := "note", op := "born", a1 := .id "blk" sh.nextB }
  | .r5dl, .deadline => { kind := "ret", op := "chan.recv_timeout", a1 := .num (-3) }
  | .r5dl, _ => { kind := "note", op := "born", a1 := .id "blk" sh.nextB }
  | .r1store b _, _ => { obj := "sync.mpsc.to_wake", inst := ch, op := "opt.store", a1 := .id "blk" b }
  | .t0pop _, _ | .t2pop _, _ | .p1pop, _ => { obj := "sync.mpsc.queue", inst := ch, op := "q.pop", res := headArg sh.q }
  | .t1load _, _ | .q0load _, _ => { obj := "sync.mpsc.channels", inst := ch, op := "load", res := .num sh.channels, ord := "Acquire" }
  | .r3clear _ _, _ => { obj := "sync.mpsc.to_wake", inst := ch, op := "opt.clear" }
  | .r4park b _, .timeout => { kind := "blk", obj := "tp", inst := bl b, op := "park_return", res := .num 0 }
  | .r4park b _, _ => { kind := "blk", obj := "tp", inst := bl b, op := "park_return", res := .num 1 }
  | .c0fadd, _ => { obj := "sync.mpsc.channels", inst := ch, op := "fetch_add", a1 := .num 1, res := .num sh.channels, ord := "AcqRel" }
  | .x0fsub, _ => { obj := "sync.mpsc.channels", inst := ch, op := "fetch_sub", a1 := .num 1, res := .num sh.channels, ord := "AcqRel" }
  | .p0store, _ => { obj := "sync.mpsc.port_dropped", inst := ch, op := "store", a1 := .num 1, ord := "Release" }

def ctxName : Ctx → String
  | .api => "api" | .pre => "pre" | .reg _ t => if t then "regT" else "reg" | .post t => if t then "postT" else "post"

def pcName : Pc → String
  | .idle => "idle" | .done .. => "done" | .s0load _ => "s0load" | .s1push _ => "s1push" | .s2take => "s2take"
  | .s3unpark _ => "s3unpark" | .r0new _ => "r0new" | .r1store .. => "r1store"
  | .t0pop c => "t0pop." ++ ctxName c | .t1load c => "t1load." ++ ctxName c | .t2pop c => "t2pop." ++ ctxName c
  | .r3clear .. => "r3clear" | .r4park _ t => if t then "r4parkT" else "r4park" | .r5dl => "r5dl" | .c0fadd => "c0fadd"
  | .x0fsub => "x0fsub" | .x1take => "x1take" | .x2unpark _ => "x2unpark" | .p0store => "p0store" | .p1pop => "p1pop"
  | .q0load _ => "q0load" | .q1take _ => "q1take"

/-- the environment choices that can explain an event at this pc -/
def envsFor (pc : Pc) (ev : Event) : List Env :=
  match pc with
  | .idle =>
    if ev.kind == "call" then
      match ev.op, ev.a1 with
      | "chan.send", .num v => [.send v.toNat]
      | "chan.try_recv", _ => [.tryRecv]
      | "chan.recv", _ => [.recv]
      | "chan.recv_timeout", _ => [.recvTimeout]
      | "chan.clone", _ => [.clone]
      | "chan.drop_tx", _ => [.dropTx]
      | "chan.drop_rx", _ => [.dropRx]
      | _, _ => []
    else []
  | .r4park _ _ => [.go, .timeout]
  | .r5dl => [.go, .deadline]
  | _ => [.go]

/-- transition name for coverage: pc plus the branch taken -/
def transName (sh : Sh) (pc : Pc) (e : Env) : String :=
  let br := match pc, e with
    | .idle, .send _ => "/send" | .idle, .tryRecv => "/try_recv" | .idle, .recv => "/recv" | .idle, .recvTimeout => "/recv_timeout"
    | .idle, .clone => "/clone" | .idle, .dropTx => "/drop_tx" | .idle, .dropRx => "/drop_rx"
    | .done _ r, _ => (match r with | .ok _ => "/ok" | .empty => "/empty" | .disc => "/disc" | .tmo => "/tmo" | .sent => "/sent"
                                    | .refused _ => "/refused" | .unit => "/unit")
    | .s0load _, _ => if sh.portDropped then "/port_dropped" else "/open"
    | .s2take, _ | .x1take, _ => if sh.toWake.isSome then "/wake" else "/nobody"
    | .t0pop _, _ | .t2pop _, _ | .p1pop, _ => if sh.q.isEmpty then "/none" else "/some"
    | .t1load _, _ => if 0 < sh.channels then "/senders" else "/no_sender"
    | .r4park _ _, .timeout => "/timeout" | .r4park _ _, _ => "/woken"
    | .r5dl, .deadline => "/deadline" | .r5dl, _ => "/again"
    | .x0fsub, _ => if sh.channels = 1 then "/last" else (if sh.arc = 1 then "/free" else "/more")
    | _, _ => ""
  pcName pc ++ br

def cands (s : St) (t : Nat) (ev : Event) : List (Label × St × String) :=
  let pc := s.pcs t
  if ev.kind == "blk" && ev.op == "park_enter" then
    match pc with
    | .r4park b timed => [({ kind := "blk", obj := "tp", inst := bl b, op := "park_enter", a1 := .num (b2i timed) }, s, "park_enter")]
    | _ => []
  else
    (envsFor pc ev).filterMap fun e =>
      match step s t e with
      | some s' => some (label s.sh pc e, s', transName s.sh pc e)
      | none => none

def sumTx (s : St) : Nat := (List.range s.n).foldl (fun a t => a + s.sh.tx t) 0

/-- the initial handle distribution of a scenario, reached from `init` by model steps: actor 0 clones its Sender
    and hands the handles out -/
def distribute (n : Nat) (txs : List Nat) (rx : Nat) : Except String St :=
  let total := txs.foldl (· + ·) 0
  if total = 0 then .error "scenario without a Sender" else
  let clones : List (Tid × Env) := (List.replicate (total - 1) [(0, Env.clone), (0, .go), (0, .go)]).flatten
  let gives : List (Tid × Env) := ((List.range txs.length).map fun u => if u = 0 then [] else List.replicate (txs.getD u 0) (0, Env.giveTx u)).flatten
  let s := run (init n) (clones ++ gives ++ [(0, .giveRx rx)])
  if (List.range n).all (fun u => s.sh.tx u == txs.getD u 0) && s.sh.rx == some rx && s.sh.channels == total then .ok s
  else .error "cannot set up the handle distribution of the header"

def machine : Machine where
  St := St
  init := fun h => match hnat h "actors", hget h "tx", hnat h "rx" with
    | some n, some txs, some rx => distribute n ((txs.splitOn ".").map fun w => w.toNat?.getD 0) rx
    | _, _, _ => .error "ch_mpsc scenario without actors= tx= rx="
  actor := fun s a => if a.startsWith "t" then ((a.drop 1).toString.toNat?).bind (fun t => if t < s.n then some t else none) else none
  cands := cands
  inv := fun s =>
    if s.sh.pushed != s.sh.hist.map (·.1) ++ s.sh.q then some "pushed ≠ popped ++ queued"
    else if s.sh.channels != sumTx s then some "channels ≠ number of Sender handles"
    else none
  where_ := fun s t => pcName (s.pcs t)
  atEnd := fun s =>
    if !(List.range s.n).all (fun t => s.pcs t == .idle) then some "not every actor is idle at the end of a finished run"
    else if s.sh.arc != 0 || !s.sh.q.isEmpty then some s!"all idle and done but arc={s.sh.arc} |q|={s.sh.q.length}"
    else none
  -- not steps of the channel: bookkeeping notes other than the birth of a Blocker, and the harness's own gates
  -- (virtual parks on blockers that were not born inside the traced run)
  skip := fun e => (e.kind == "note" && !(e.op == "born" && (match e.a1 with | .id s => s.startsWith "Blocker" | _ => false)))
    || (e.kind == "blk" && !e.inst.startsWith "Blocker")

end MayVerif.Chan.Mpsc
