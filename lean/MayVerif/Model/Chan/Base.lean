/-
  What the three channel models (`Mpsc`, `Spsc`, `Mpmc`) share: function update, the message with its
  ghost origin, API names and API results. Import-free (linked into the replay driver).
-/
namespace MayVerif.Chan

/-- actors and blockers are numbered (`notation`, not `abbrev`: `omega` must see `Nat`) -/
scoped notation "Tid" => Nat
scoped notation "Bid" => Nat

@[grind] def upd {α : Type} (f : Nat → α) (t : Nat) (v : α) : Nat → α := fun u => if u = t then v else f u

/-- a message: the payload word the trace shows, and (ghost) the actor whose `send` pushed it -/
structure Msg where
  v : Nat
  src : Nat
  deriving DecidableEq, Repr

inductive Api | send | tryRecv | recv | recvTimeout | cloneTx | dropTx | cloneRx | dropRx
  deriving DecidableEq, Repr

/-- what an API call returns -/
inductive Res
  | ok (m : Msg)        -- a receive returned this message
  | empty | disc | tmo  -- TryRecvError::Empty, Disconnected / RecvError, RecvTimeoutError::Timeout
  | sent                -- send returned Ok(())
  | refused (v : Nat)   -- send returned Err(SendError(v))
  | unit                -- clone / drop
  deriving DecidableEq, Repr

/-- outcome of one `try_recv` -/
inductive TR | ok (m : Msg) | empty | disc
  deriving DecidableEq, Repr

/-- who ended up with a popped message: `some r` = returned to receiver actor `r`, `none` = dropped unreceived
    (by the drain of the last receiver's drop, or by `Drop for InnerQueue`) -/
abbrev Disp := Option Nat

def received (h : List (Msg × Disp)) : List Msg := (h.filter (fun x => x.2.isSome)).map (·.1)
def dropped (h : List (Msg × Disp)) : List Msg := (h.filter (fun x => !x.2.isSome)).map (·.1)
def recvBy (h : List (Msg × Disp)) (r : Nat) : List Msg := (h.filter (fun x => x.2 == some r)).map (·.1)

end MayVerif.Chan
