import MayVerif.Proof.Chan.Mpsc.P_idle
import MayVerif.Proof.Chan.Mpsc.P_done
import MayVerif.Proof.Chan.Mpsc.P_s0load
import MayVerif.Proof.Chan.Mpsc.P_s1push
import MayVerif.Proof.Chan.Mpsc.P_s2take
import MayVerif.Proof.Chan.Mpsc.P_s3unpark
import MayVerif.Proof.Chan.Mpsc.P_r0new
import MayVerif.Proof.Chan.Mpsc.P_r1store
import MayVerif.Proof.Chan.Mpsc.P_t0pop
import MayVerif.Proof.Chan.Mpsc.P_t1load
import MayVerif.Proof.Chan.Mpsc.P_t2pop
import MayVerif.Proof.Chan.Mpsc.P_r3clear
import MayVerif.Proof.Chan.Mpsc.P_r4park
import MayVerif.Proof.Chan.Mpsc.P_r5dl
import MayVerif.Proof.Chan.Mpsc.P_c0fadd
import MayVerif.Proof.Chan.Mpsc.P_x0fsub
import MayVerif.Proof.Chan.Mpsc.P_x1take
import MayVerif.Proof.Chan.Mpsc.P_x2unpark
import MayVerif.Proof.Chan.Mpsc.P_p0store
import MayVerif.Proof.Chan.Mpsc.P_p1pop
import MayVerif.Proof.Chan.Mpsc.P_q0load
import MayVerif.Proof.Chan.Mpsc.P_q1take
namespace MayVerif.Chan.Mpsc
open MayVerif.Chan

theorem inv_step (s s' : St) (t : Tid) (e : Env) (h : Inv s) (hs : step s t e = some s') : Inv s' := by
  obtain ⟨n, sh, pcs⟩ := s
  simp only [step] at hs
  split at hs
  case isFalse => contradiction
  next hlt =>
  split at hs
  · contradiction
  next sh' pc' hts =>
  simp only [Option.some.injEq] at hs
  subst hs
  generalize hpc : pcs t = pc at hts
  cases pc with
  | idle => exact inv_idle n sh pcs t e hlt h hpc sh' pc' hts
  | done a r => exact inv_done n sh pcs t e a r hlt h hpc sh' pc' hts
  | s0load v => exact inv_s0load n sh pcs t e v hlt h hpc sh' pc' hts
  | s1push v => exact inv_s1push n sh pcs t e v hlt h hpc sh' pc' hts
  | s2take => exact inv_s2take n sh pcs t e hlt h hpc sh' pc' hts
  | s3unpark w => exact inv_s3unpark n sh pcs t e w hlt h hpc sh' pc' hts
  | r0new tm => exact inv_r0new n sh pcs t e tm hlt h hpc sh' pc' hts
  | r1store b tm => exact inv_r1store n sh pcs t e b tm hlt h hpc sh' pc' hts
  | t0pop c => exact inv_t0pop n sh pcs t e c hlt h hpc sh' pc' hts
  | t1load c => exact inv_t1load n sh pcs t e c hlt h hpc sh' pc' hts
  | t2pop c => exact inv_t2pop n sh pcs t e c hlt h hpc sh' pc' hts
  | r3clear a r => exact inv_r3clear n sh pcs t e a r hlt h hpc sh' pc' hts
  | r4park b tm => exact inv_r4park n sh pcs t e b tm hlt h hpc sh' pc' hts
  | r5dl => exact inv_r5dl n sh pcs t e hlt h hpc sh' pc' hts
  | c0fadd => exact inv_c0fadd n sh pcs t e hlt h hpc sh' pc' hts
  | x0fsub => exact inv_x0fsub n sh pcs t e hlt h hpc sh' pc' hts
  | x1take => exact inv_x1take n sh pcs t e hlt h hpc sh' pc' hts
  | x2unpark w => exact inv_x2unpark n sh pcs t e w hlt h hpc sh' pc' hts
  | p0store => exact inv_p0store n sh pcs t e hlt h hpc sh' pc' hts
  | p1pop => exact inv_p1pop n sh pcs t e hlt h hpc sh' pc' hts
  | q0load a => exact inv_q0load n sh pcs t e a hlt h hpc sh' pc' hts
  | q1take a => exact inv_q1take n sh pcs t e a hlt h hpc sh' pc' hts

theorem inv_run (s : St) (sched : List (Tid × Env)) (h : Inv s) : Inv (run s sched) := by
  induction sched generalizing s with
  | nil => simpa [run]
  | cons te r ih =>
    obtain ⟨t, e⟩ := te
    simp only [run]
    split
    · next s' hs => exact ih _ (inv_step _ _ _ _ h hs)
    · exact ih _ h

theorem step_n (s s' : St) (t : Tid) (e : Env) (hs : step s t e = some s') : s'.n = s.n := by
  simp only [step] at hs
  split at hs
  · split at hs
    · contradiction
    · simp only [Option.some.injEq] at hs; subst hs; rfl
  · contradiction

theorem run_n (s : St) (l : List (Tid × Env)) : (run s l).n = s.n := by
  induction l generalizing s with
  | nil => rfl
  | cons te r ih =>
    obtain ⟨t, e⟩ := te
    simp only [run]
    split
    · next s' hs => rw [ih, step_n _ _ _ _ hs]
    · exact ih _

end MayVerif.Chan.Mpsc
