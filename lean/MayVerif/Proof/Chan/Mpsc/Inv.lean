/-
  Invariant of the mpsc channel model.
-/
import MayVerif.Model.Chan.Mpsc
import MayVerif.Proof.Chan.Count
namespace MayVerif.Chan.Mpsc
open MayVerif.Chan

/-- the actor is inside a call on one of its Sender handles -/
@[grind] def usesTx : Pc → Bool
  | .s0load _ | .s1push _ | .s2take | .s3unpark _ | .c0fadd | .x0fsub => true
  | _ => false
/-- the actor is inside a call on the Receiver -/
@[grind] def usesRx : Pc → Bool
  | .r0new _ | .r1store .. | .t0pop _ | .t1load _ | .t2pop _ | .r3clear .. | .r4park .. | .r5dl | .p0store | .p1pop => true
  | _ => false
/-- past the `fetch_sub` of a Sender drop, the `Arc` not yet released -/
@[grind] def dropTail : Pc → Bool | .x1take | .x2unpark _ => true | _ => false
@[grind] def atQ : Pc → Bool | .q0load _ | .q1take _ => true | _ => false
@[grind] def atS2 : Pc → Bool | .s2take => true | _ => false
@[grind] def atX1 : Pc → Bool | .x1take => true | _ => false
@[grind] def unparking (b : Bid) : Pc → Bool
  | .s3unpark w | .x2unpark w => w == b
  | _ => false
/-- the receiver registered blocker `b` and has not yet left the registration round -/
@[grind] def waitsOn : Pc → Option Bid
  | .t0pop (.reg b _) | .t1load (.reg b _) | .t2pop (.reg b _) | .r4park b _ => some b
  | _ => none
/-- … and has found the queue empty since the registration -/
@[grind] def pastPop : Pc → Bool
  | .t1load (.reg ..) | .r4park .. => true
  | _ => false
/-- the receiver will clear `to_wake` (or re-examine the channel) before it can park -/
@[grind] def willClear : Pc → Bool
  | .t0pop (.reg ..) | .t1load (.reg ..) | .t2pop (.reg ..) | .r3clear .. => true
  | _ => false
@[grind] def atP1 : Pc → Bool | .p1pop => true | _ => false
@[grind] def sawNoSender : Pc → Bool | .t2pop _ => true | _ => false
@[grind] def retDisc : Pc → Bool
  | .done _ .disc | .r3clear _ .disc => true
  | _ => false

/-- the message the actor is about to return to its caller -/
@[grind] def carries : Pc → Option Msg
  | .done _ (.ok m) | .r3clear _ (.ok m) => some m
  | _ => none

structure Inv (s : St) : Prop where
  data : s.sh.pushed = s.sh.hist.map (·.1) ++ s.sh.q
  chan : s.sh.channels = sumOf s.n s.sh.tx
  arcI : s.sh.arc = sumOf s.n s.sh.tx + cntOf s.n dropTail s.pcs + (if s.sh.rx.isSome then 1 else 0)
  out : ∀ (t : Tid), s.n ≤ t → s.pcs t = .idle
  txU : ∀ (t : Tid), usesTx (s.pcs t) = true → 0 < s.sh.tx t
  rxU : ∀ (t : Tid), usesRx (s.pcs t) = true → s.sh.rx = some t
  rxN : ∀ (t : Tid), s.sh.rx = some t → t < s.n
  pdr : s.sh.rx = none → s.sh.portDropped = true
  pd1 : ∀ (t : Tid), atP1 (s.pcs t) = true → s.sh.portDropped = true
  left : s.sh.arc = 0 → s.sh.q = [] ∨ 0 < cntOf s.n atQ s.pcs
  qz : ∀ (t : Tid), atQ (s.pcs t) = true → s.sh.arc = 0
  tw : ∀ (b : Bid) (t : Tid), s.sh.toWake = some b → s.sh.rx = some t →
        0 < s.sh.channels ∨ 0 < cntOf s.n atX1 s.pcs ∨ willClear (s.pcs t) = true
  tw0 : ∀ (b : Bid), s.sh.toWake = some b → s.sh.rx = none → 0 < s.sh.channels ∨ 0 < cntOf s.n atX1 s.pcs
  w1 : ∀ (t : Tid) (b : Bid), waitsOn (s.pcs t) = some b →
        s.sh.toWake = some b ∨ s.sh.tok b = true ∨ 0 < cntOf s.n (unparking b) s.pcs
  w2 : ∀ (t : Tid) (b : Bid), waitsOn (s.pcs t) = some b → pastPop (s.pcs t) = true → s.sh.toWake = some b →
        s.sh.q = [] ∨ 0 < cntOf s.n atS2 s.pcs
  ns : ∀ (t : Tid), sawNoSender (s.pcs t) = true → s.sh.channels = 0
  rd : ∀ (t : Tid), retDisc (s.pcs t) = true → s.sh.q = [] ∧ s.sh.channels = 0
  cr : ∀ (t : Tid) (m : Msg), carries (s.pcs t) = some m → (m, some t) ∈ s.sh.hist

theorem sumOf_init (n : Nat) (hn : 0 < n) : sumOf n (fun t => if t = 0 then 1 else 0) = 1 := by
  have h := sumOf_upd n (fun _ => 0) 0 1 hn
  have h0 := sumOf_zero_of n (fun _ => 0) (fun _ _ => rfl)
  have : upd (fun _ => 0) 0 1 = (fun t => if t = 0 then 1 else 0) := by funext u; simp [upd]
  rw [this] at h; omega

theorem inv_init (n : Nat) (hn : 0 < n) : Inv (init n) := by
  have h1 := sumOf_init n hn
  have h2 : cntOf n dropTail (fun _ => Pc.idle) = 0 := cntOf_zero_of _ _ _ (fun _ _ => rfl)
  constructor <;> simp [init, usesTx, usesRx, atQ, atP1, waitsOn, sawNoSender, retDisc, carries, h1, h2] <;> omega

theorem waitsOn_usesRx (pc : Pc) (b : Bid) (h : waitsOn pc = some b) : usesRx pc = true := by
  cases pc <;> simp_all [waitsOn, usesRx] <;> (rename_i c; cases c <;> simp_all)
theorem willClear_usesRx (pc : Pc) (h : willClear pc = true) : usesRx pc = true := by
  cases pc <;> simp_all [willClear, usesRx]
theorem data_flush (p : List Msg) (h : List (Msg × Disp)) (q : List Msg) (hd : p = h.map (·.1) ++ q) :
    p = List.map (fun x => x.fst) (h ++ List.map (fun m => (m, none)) q) ++ [] := by
  simp [hd, List.map_append, List.map_map, Function.comp_def]

set_option hygiene false in
macro "open_inv" : tactic => `(tactic|
  (obtain ⟨hdata, hchan, harc, hout, htxU, hrxU, hrxN, hpdr, hpd1, hleft, hqz, htw, htw0, hw1, hw2, hns, hrd, hcr⟩ := h
   simp only at hdata hchan harc hout htxU hrxU hrxN hpdr hpd1 hleft hqz htw htw0 hw1 hw2 hns hrd hcr
   have hDT := fun v => cntOf_upd n dropTail pcs t v hlt
   have hQ := fun v => cntOf_upd n atQ pcs t v hlt
   have hS2 := fun v => cntOf_upd n atS2 pcs t v hlt
   have hX1 := fun v => cntOf_upd n atX1 pcs t v hlt
   have hUP := fun b v => cntOf_upd n (unparking b) pcs t v hlt
   have hSum := fun v => sumOf_upd n sh.tx t v hlt
   have hLe := le_sumOf n sh.tx t hlt
   have hWU := fun u => waitsOn_usesRx (pcs u)
   have hCU := fun u => willClear_usesRx (pcs u)
   rw [hpc] at hDT hQ hS2 hX1 hUP
   simp only [dropTail, atQ, atS2, atX1, unparking] at hDT hQ hS2 hX1 hUP
   have htxUt := htxU t; have hrxUt := hrxU t; have hw1t := hw1 t; have hw2t := hw2 t; have hnst := hns t; have hrdt := hrd t; have hqzt := hqz t; have hpd1t := hpd1 t; have hcrt := hcr t
   simp only [hpc, usesTx, usesRx, waitsOn, pastPop, sawNoSender, retDisc, atQ, atP1, carries] at htxUt hrxUt hw1t hw2t hnst hrdt hqzt hpd1t hcrt))

set_option hygiene false in
macro "fin" : tactic => `(tactic| (constructor <;> simp only [] <;> first | grind | grind (splits := 40)))

end MayVerif.Chan.Mpsc
