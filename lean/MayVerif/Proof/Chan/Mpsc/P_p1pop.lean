import MayVerif.Proof.Chan.Mpsc.Inv
namespace MayVerif.Chan.Mpsc
open MayVerif.Chan

set_option maxHeartbeats 4000000 in
theorem inv_p1pop (n : Nat) (sh : Sh) (pcs : Tid → Pc) (t : Tid) (e : Env)  (hlt : t < n)
    (h : Inv ⟨n, sh, pcs⟩) (hpc : pcs t = (.p1pop)) (sh' : Sh) (pc' : Pc)
    (hts : tstep n sh t (.p1pop) e = some (sh', pc')) : Inv ⟨n, sh', upd pcs t pc'⟩ := by
  open_inv
  (simp only [tstep, release, cont, recvApi] at hts <;> (try contradiction) <;> (repeat' split at hts) <;> (try contradiction) <;>
    (simp only [Option.some.injEq, Prod.mk.injEq] at hts; obtain ⟨rfl, rfl⟩ := hts; fin))

end MayVerif.Chan.Mpsc
