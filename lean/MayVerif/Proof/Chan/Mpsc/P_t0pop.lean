import MayVerif.Proof.Chan.Mpsc.Inv
namespace MayVerif.Chan.Mpsc
open MayVerif.Chan

set_option maxHeartbeats 4000000 in
theorem inv_t0pop (n : Nat) (sh : Sh) (pcs : Tid → Pc) (t : Tid) (e : Env) (c : Ctx) (hlt : t < n)
    (h : Inv ⟨n, sh, pcs⟩) (hpc : pcs t = (.t0pop c)) (sh' : Sh) (pc' : Pc)
    (hts : tstep n sh t (.t0pop c) e = some (sh', pc')) : Inv ⟨n, sh', upd pcs t pc'⟩ := by
  open_inv
  (cases c <;> simp only [tstep, release, cont, recvApi] at hts <;> (try contradiction) <;> (repeat' split at hts) <;> (try contradiction) <;>
    (simp only [Option.some.injEq, Prod.mk.injEq] at hts; obtain ⟨rfl, rfl⟩ := hts; fin))

end MayVerif.Chan.Mpsc
