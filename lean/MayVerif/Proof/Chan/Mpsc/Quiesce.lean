/-
  Quiescent states of the mpsc model.
-/
import MayVerif.Proof.Chan.Mpsc.Step
namespace MayVerif.Chan.Mpsc
open MayVerif.Chan

/-- nobody is in the middle of an operation: every actor is idle or parked in `recv` -/
def Quiescent (s : St) : Prop := ∀ u, u < s.n → s.pcs u = .idle ∨ ∃ b tm, s.pcs u = .r4park b tm

end MayVerif.Chan.Mpsc
