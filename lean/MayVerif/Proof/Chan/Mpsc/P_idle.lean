import MayVerif.Proof.Chan.Mpsc.Inv
namespace MayVerif.Chan.Mpsc
open MayVerif.Chan
-- HAND

theorem sumOf_give (n : Nat) (f : Nat → Nat) (t u : Nat) (ht : t < n) (hu : u < n) (hpos : 0 < f t) :
    sumOf n (upd (upd f t (f t - 1)) u (upd f t (f t - 1) u + 1)) = sumOf n f := by
  have h1 := sumOf_upd n f t (f t - 1) ht
  have h2 := sumOf_upd n (upd f t (f t - 1)) u (upd f t (f t - 1) u + 1) hu
  omega

set_option maxHeartbeats 4000000 in
theorem inv_idle (n : Nat) (sh : Sh) (pcs : Tid → Pc) (t : Tid) (e : Env) (hlt : t < n)
    (h : Inv ⟨n, sh, pcs⟩) (hpc : pcs t = (.idle)) (sh' : Sh) (pc' : Pc)
    (hts : tstep n sh t (.idle) e = some (sh', pc')) : Inv ⟨n, sh', upd pcs t pc'⟩ := by
  open_inv
  have hgive := fun u => sumOf_give n sh.tx t u hlt
  have hidle : upd pcs t .idle = pcs := by funext u; simp only [upd]; split <;> simp_all
  cases e <;> simp only [tstep] at hts <;> (try contradiction) <;> (repeat' split at hts) <;> (try contradiction) <;>
    (simp only [Option.some.injEq, Prod.mk.injEq] at hts; obtain ⟨rfl, rfl⟩ := hts; (try rw [hidle]); fin)

end MayVerif.Chan.Mpsc
