import MayVerif.Proof.Chan.Mpsc.Inv
namespace MayVerif.Chan.Mpsc
open MayVerif.Chan
-- HAND

set_option maxHeartbeats 4000000 in
theorem inv_q1take (n : Nat) (sh : Sh) (pcs : Tid → Pc) (t : Tid) (e : Env) (a : Api) (hlt : t < n)
    (h : Inv ⟨n, sh, pcs⟩) (hpc : pcs t = (.q1take a)) (sh' : Sh) (pc' : Pc)
    (hts : tstep n sh t (.q1take a) e = some (sh', pc')) : Inv ⟨n, sh', upd pcs t pc'⟩ := by
  open_inv
  simp only [tstep] at hts
  split at hts
  · contradiction
  · simp only [Option.some.injEq, Prod.mk.injEq] at hts
    obtain ⟨rfl, rfl⟩ := hts
    constructor <;> simp only []
    · exact data_flush _ _ _ hdata
    all_goals (first | grind | grind (splits := 40))

end MayVerif.Chan.Mpsc
