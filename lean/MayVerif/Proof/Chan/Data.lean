/-
  List facts behind the delivery theorems: what follows from `pushed = popped ++ queued` for an atomic FIFO.
-/
import MayVerif.Model.Chan.Base
namespace MayVerif.Chan

theorem split_perm (h : List (Msg × Disp)) : (received h ++ dropped h).Perm (h.map (·.1)) := by
  unfold received dropped
  rw [← List.map_append]
  exact (List.filter_append_perm (fun x => x.2.isSome) h).map _

theorem recvBy_sublist (h : List (Msg × Disp)) (r : Nat) : (recvBy h r).Sublist (h.map (·.1)) := by
  unfold recvBy
  exact (List.filter_sublist).map _

/-- every popped message is received or dropped, never both, never twice; what is not popped is still queued -/
theorem exactly_once_of (pushed q : List Msg) (h : List (Msg × Disp)) (hd : pushed = h.map (·.1) ++ q) :
    (received h ++ dropped h ++ q).Perm pushed := by
  rw [hd]
  exact (split_perm h).append_right q

theorem fifo_of (pushed q : List Msg) (h : List (Msg × Disp)) (hd : pushed = h.map (·.1) ++ q) (r s : Nat) :
    ((recvBy h r).filter (fun m => m.src == s)).Sublist (pushed.filter (fun m => m.src == s)) := by
  rw [hd]
  exact ((recvBy_sublist h r).trans (List.sublist_append_left _ _)).filter _

theorem no_phantom_of (pushed q : List Msg) (h : List (Msg × Disp)) (hd : pushed = h.map (·.1) ++ q) (r : Nat) (m : Msg)
    (hm : m ∈ recvBy h r) : m ∈ pushed := by
  rw [hd]
  exact List.mem_append_left _ ((recvBy_sublist h r).subset hm)

theorem mem_recvBy (h : List (Msg × Disp)) (r : Nat) (m : Msg) (hm : (m, some r) ∈ h) : m ∈ recvBy h r := by
  unfold recvBy
  exact List.mem_map.mpr ⟨(m, some r), List.mem_filter.mpr ⟨hm, by simp⟩, rfl⟩

end MayVerif.Chan
