/-
  Counting and summing over the actors `0 … n-1` (shared by the channel proofs).
-/
import MayVerif.Model.Chan.Base
namespace MayVerif.Chan

def cntOf {P : Type} (n : Nat) (p : P → Bool) (f : Nat → P) : Nat := (List.range n).countP (fun u => p (f u))

theorem cntOf_upd {P : Type} (n : Nat) (p : P → Bool) (f : Nat → P) (t : Nat) (v : P) (ht : t < n) :
    cntOf n p (upd f t v) + (if p (f t) then 1 else 0) = cntOf n p f + (if p v then 1 else 0) := by
  unfold cntOf
  induction n with
  | zero => omega
  | succ k ih =>
    simp only [List.range_succ, List.countP_append, List.countP_cons, List.countP_nil]
    by_cases hk : t = k
    · subst hk
      have : List.countP (fun u => p (upd f t v u)) (List.range t) = List.countP (fun u => p (f u)) (List.range t) := by
        apply List.countP_congr
        intro x hx
        have : x < t := List.mem_range.mp hx
        have : x ≠ t := by omega
        simp [upd, this]
      rw [this]; simp [upd]; split <;> split <;> omega
    · have := ih (by omega)
      have h2 : upd f t v k = f k := by simp [upd]; intro h; omega
      rw [h2]; omega

theorem cntOf_zero_of {P : Type} (n : Nat) (p : P → Bool) (f : Nat → P) (h : ∀ u, u < n → p (f u) = false) : cntOf n p f = 0 := by
  unfold cntOf
  apply List.countP_eq_zero.mpr
  intro x hx
  simp [h x (List.mem_range.mp hx)]

theorem cntOf_pos_of {P : Type} (n : Nat) (p : P → Bool) (f : Nat → P) (t : Nat) (ht : t < n) (h : p (f t) = true) : 0 < cntOf n p f := by
  unfold cntOf
  apply List.countP_pos_iff.mpr
  exact ⟨t, List.mem_range.mpr ht, h⟩

theorem cntOf_pos_ex {P : Type} (n : Nat) (p : P → Bool) (f : Nat → P) (h : 0 < cntOf n p f) : ∃ t, t < n ∧ p (f t) = true := by
  unfold cntOf at h
  obtain ⟨t, ht, hp⟩ := List.countP_pos_iff.mp h
  exact ⟨t, List.mem_range.mp ht, hp⟩

def sumOf (n : Nat) (f : Nat → Nat) : Nat := ((List.range n).map f).sum

theorem sumOf_upd (n : Nat) (f : Nat → Nat) (t : Nat) (v : Nat) (ht : t < n) :
    sumOf n (upd f t v) + f t = sumOf n f + v := by
  unfold sumOf
  induction n with
  | zero => omega
  | succ k ih =>
    simp only [List.range_succ, List.map_append, List.sum_append, List.map_cons, List.map_nil, List.sum_cons, List.sum_nil]
    by_cases hk : t = k
    · subst hk
      have : (List.map (upd f t v) (List.range t)) = (List.map f (List.range t)) := by
        apply List.map_congr_left
        intro x hx
        have : x < t := List.mem_range.mp hx
        have : x ≠ t := by omega
        simp [upd, this]
      rw [this]; simp [upd]; omega
    · have := ih (by omega)
      have h2 : upd f t v k = f k := by simp [upd]; intro h; omega
      rw [h2]; omega

theorem sumOf_upd_ge (n : Nat) (f : Nat → Nat) (t : Nat) (v : Nat) (ht : ¬ t < n) :
    sumOf n (upd f t v) = sumOf n f := by
  unfold sumOf
  congr 1
  apply List.map_congr_left
  intro x hx
  have : x < n := List.mem_range.mp hx
  have : x ≠ t := by omega
  simp [upd, this]

theorem le_sumOf (n : Nat) (f : Nat → Nat) (t : Nat) (ht : t < n) : f t ≤ sumOf n f := by
  have := sumOf_upd n f t 0 ht
  omega

theorem sumOf_zero_of (n : Nat) (f : Nat → Nat) (h : ∀ u, u < n → f u = 0) : sumOf n f = 0 := by
  unfold sumOf
  induction n with
  | zero => rfl
  | succ k ih =>
    simp only [List.range_succ, List.map_append, List.sum_append, List.map_cons, List.map_nil, List.sum_cons, List.sum_nil]
    have := ih (fun u hu => h u (by omega))
    have := h k (by omega)
    omega

end MayVerif.Chan
