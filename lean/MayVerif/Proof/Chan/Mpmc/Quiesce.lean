/-
  What the mpmc invariant gives in a quiescent state (every actor idle or parked in `recv`).
-/
import MayVerif.Proof.Chan.Mpmc.Step
namespace MayVerif.Chan.Mpmc
open MayVerif.Chan

/-- nobody is in the middle of an operation: every actor is idle or parked in `recv` -/
def Quiescent (s : St) : Prop := ∀ u, u < s.n → s.pcs u = .idle ∨ ∃ b a, s.pcs u = .w1park b a

theorem tuSum_pos_ex (k : Nat) (tu : Bid → Bool) (h : 0 < tuSum k tu) : ∃ b, b < k ∧ tu b = true := by
  apply Classical.byContradiction
  intro hne
  have : tuSum k tu = 0 := tuSum_zero_of k tu (fun b hb => by
    cases hb' : tu b with
    | false => rfl
    | true => exact absurd ⟨b, hb, hb'⟩ hne)
  omega

theorem quiet_counts (s : St) (hq : Quiescent s) (p : Pc → Bool) (h0 : p .idle = false) (h1 : ∀ b a, p (.w1park b a) = false) :
    cntOf s.n p s.pcs = 0 := by
  apply cntOf_zero_of; intro u hu
  rcases hq u hu with h | ⟨b, a, h⟩ <;> simp [h, h0, h1]

/-- the permit ledger of a quiescent state: every queued value and the disconnect token are matched by a free
    permit or by a woken receiver that has not run yet -/
theorem quiet_ledger (s : St) (h : Inv s) (hq : Quiescent s) (hrx : 0 < s.sh.rxPorts) :
    (s.sh.q.length : Int) + (if s.sh.dposted then 1 else 0) = (if 0 < s.sh.cnt then s.sh.cnt else 0) + tuSum s.sh.nextB s.sh.tu := by
  have hl := h.led hrx
  have c1 := quiet_counts s hq atSendPost rfl (fun _ _ => rfl)
  have c2 := quiet_counts s hq atUnpark rfl (fun _ _ => rfl)
  have c3 := quiet_counts s hq holds rfl (fun _ _ => rfl)
  have c4 := quiet_counts s hq atRepost rfl (fun _ _ => rfl)
  rw [c1, c2, c3, c4] at hl
  omega

/-- in a quiescent state with a parked receiver: if a value is queued or the disconnect token has been posted,
    some parked receiver holds its wake-up token -/
theorem quiet_someone_woken (s : St) (h : Inv s) (hq : Quiescent s)
    (hv : s.sh.q ≠ [] ∨ s.sh.dposted = true) (t : Tid) (b : Bid) (a : Api) (hp : s.pcs t = .w1park b a) :
    ∃ u b' a', u < s.n ∧ s.pcs u = .w1park b' a' ∧ s.sh.tok b' = true := by
  have htn : t < s.n := by
    apply Classical.byContradiction; intro hge
    have := h.out t (by omega); rw [hp] at this; cases this
  have hrxt := h.rxU t (by simp [hp, usesRx])
  have hrx : 0 < s.sh.rxPorts := by have := le_sumOf s.n s.sh.rx t htn; have := h.rp; omega
  have hl := quiet_ledger s h hq hrx
  have wit : ∀ b', s.sh.tu b' = true → ∃ u b'' a', u < s.n ∧ s.pcs u = .w1park b'' a' ∧ s.sh.tok b'' = true := by
    intro b' hb'
    obtain ⟨htok, hpos⟩ := h.tuP b' hb'
    obtain ⟨u, hu, hpu⟩ := cntOf_pos_ex _ _ _ hpos
    generalize hpc : s.pcs u = pc at hpu
    cases pc <;> simp [parkedB] at hpu
    subst hpu
    exact ⟨u, _, _, hu, hpc, htok⟩
  rcases h.w t b (by simp [hp, parkedOn]) with h1 | h1 | h1
  · -- still queued in the gate: then the gate is negative, so no permit is free, so the ledger is all tokens
    have hneg : s.sh.cnt < 0 := by
      apply Classical.byContradiction; intro hge
      have := h.g2 (by omega); rw [this] at h1; cases h1
    have hpos : 0 < tuSum s.sh.nextB s.sh.tu := by
      have hif : (if 0 < s.sh.cnt then s.sh.cnt else 0) = 0 := by split <;> omega
      rw [hif] at hl
      rcases hv with hv | hv
      · have : 0 < s.sh.q.length := List.length_pos_iff.mpr hv
        have : (0 : Int) ≤ (if s.sh.dposted then 1 else 0) := by split <;> omega
        omega
      · rw [hv] at hl; simp at hl; omega
    obtain ⟨b', _, hb'⟩ := tuSum_pos_ex _ _ hpos
    exact wit b' hb'
  · have := quiet_counts s hq (unparking b) rfl (fun _ _ => rfl); omega
  · exact wit b h1

end MayVerif.Chan.Mpmc
