import MayVerif.Proof.Chan.Mpmc.Inv
namespace MayVerif.Chan.Mpmc
open MayVerif.Chan

set_option maxHeartbeats 4000000 in
theorem inv_m1push (n : Nat) (sh : Sh) (pcs : Tid → Pc) (t : Tid) (e : Env) (v : Nat) (hlt : t < n)
    (h : Inv ⟨n, sh, pcs⟩) (hpc : pcs t = (.m1push v)) (sh' : Sh) (pc' : Pc)
    (hts : tstep n sh t (.m1push v) e = some (sh', pc')) : Inv ⟨n, sh', upd pcs t pc'⟩ := by
  open_inv
  (simp only [tstep, postTo, kont, release] at hts <;> (try contradiction) <;> (repeat' split at hts) <;> (try contradiction) <;>
    (simp only [Option.some.injEq, Prod.mk.injEq] at hts; obtain ⟨rfl, rfl⟩ := hts; fin))

end MayVerif.Chan.Mpmc
