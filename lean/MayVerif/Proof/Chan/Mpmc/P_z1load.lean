import MayVerif.Proof.Chan.Mpmc.Inv
namespace MayVerif.Chan.Mpmc
open MayVerif.Chan
-- HAND

set_option maxHeartbeats 4000000 in
theorem inv_z1load (n : Nat) (sh : Sh) (pcs : Tid → Pc) (t : Tid) (e : Env) (a : Api) (hlt : t < n)
    (h : Inv ⟨n, sh, pcs⟩) (hpc : pcs t = (.z1load a)) (sh' : Sh) (pc' : Pc)
    (hts : tstep n sh t (.z1load a) e = some (sh', pc')) : Inv ⟨n, sh', upd pcs t pc'⟩ := by
  open_inv
  simp only [tstep] at hts
  split at hts
  · simp only [Option.some.injEq, Prod.mk.injEq] at hts
    obtain ⟨rfl, rfl⟩ := hts
    constructor <;> simp only []
    · exact data_flush _ _ _ hdata
    all_goals (first | grind | grind (splits := 40))
  · contradiction

end MayVerif.Chan.Mpmc
