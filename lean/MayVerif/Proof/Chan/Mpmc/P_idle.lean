import MayVerif.Proof.Chan.Mpmc.P_idle_send
import MayVerif.Proof.Chan.Mpmc.P_idle_tryRecv
import MayVerif.Proof.Chan.Mpmc.P_idle_recv
import MayVerif.Proof.Chan.Mpmc.P_idle_recvTimeout
import MayVerif.Proof.Chan.Mpmc.P_idle_cloneTx
import MayVerif.Proof.Chan.Mpmc.P_idle_dropTx
import MayVerif.Proof.Chan.Mpmc.P_idle_cloneRx
import MayVerif.Proof.Chan.Mpmc.P_idle_dropRx
import MayVerif.Proof.Chan.Mpmc.P_idle_giveTx
import MayVerif.Proof.Chan.Mpmc.P_idle_giveRx
namespace MayVerif.Chan.Mpmc
open MayVerif.Chan
-- HAND

theorem inv_idle (n : Nat) (sh : Sh) (pcs : Tid → Pc) (t : Tid) (e : Env) (hlt : t < n)
    (h : Inv ⟨n, sh, pcs⟩) (hpc : pcs t = (.idle)) (sh' : Sh) (pc' : Pc)
    (hts : tstep n sh t (.idle) e = some (sh', pc')) : Inv ⟨n, sh', upd pcs t pc'⟩ := by
  cases e with
  | send v => exact inv_idle_send n sh pcs t v hlt h hpc sh' pc' hts
  | tryRecv => exact inv_idle_tryRecv n sh pcs t hlt h hpc sh' pc' hts
  | recv => exact inv_idle_recv n sh pcs t hlt h hpc sh' pc' hts
  | recvTimeout => exact inv_idle_recvTimeout n sh pcs t hlt h hpc sh' pc' hts
  | cloneTx => exact inv_idle_cloneTx n sh pcs t hlt h hpc sh' pc' hts
  | dropTx => exact inv_idle_dropTx n sh pcs t hlt h hpc sh' pc' hts
  | cloneRx => exact inv_idle_cloneRx n sh pcs t hlt h hpc sh' pc' hts
  | dropRx => exact inv_idle_dropRx n sh pcs t hlt h hpc sh' pc' hts
  | giveTx u => exact inv_idle_giveTx n sh pcs t u hlt h hpc sh' pc' hts
  | giveRx u => exact inv_idle_giveRx n sh pcs t u hlt h hpc sh' pc' hts
  | go => simp [tstep] at hts
  | timeout => simp [tstep] at hts

end MayVerif.Chan.Mpmc
