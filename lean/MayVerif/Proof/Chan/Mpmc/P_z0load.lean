import MayVerif.Proof.Chan.Mpmc.Inv
namespace MayVerif.Chan.Mpmc
open MayVerif.Chan

set_option maxHeartbeats 4000000 in
theorem inv_z0load (n : Nat) (sh : Sh) (pcs : Tid → Pc) (t : Tid) (e : Env) (a : Api) (hlt : t < n)
    (h : Inv ⟨n, sh, pcs⟩) (hpc : pcs t = (.z0load a)) (sh' : Sh) (pc' : Pc)
    (hts : tstep n sh t (.z0load a) e = some (sh', pc')) : Inv ⟨n, sh', upd pcs t pc'⟩ := by
  open_inv
  (simp only [tstep, postTo, kont, release] at hts <;> (try contradiction) <;> (repeat' split at hts) <;> (try contradiction) <;>
    (simp only [Option.some.injEq, Prod.mk.injEq] at hts; obtain ⟨rfl, rfl⟩ := hts; fin))

end MayVerif.Chan.Mpmc
