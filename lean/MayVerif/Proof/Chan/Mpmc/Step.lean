import MayVerif.Proof.Chan.Mpmc.P_idle
import MayVerif.Proof.Chan.Mpmc.P_done
import MayVerif.Proof.Chan.Mpmc.P_m0load
import MayVerif.Proof.Chan.Mpmc.P_m1push
import MayVerif.Proof.Chan.Mpmc.P_gpost_send
import MayVerif.Proof.Chan.Mpmc.P_gpost_disc
import MayVerif.Proof.Chan.Mpmc.P_gpost_drop
import MayVerif.Proof.Chan.Mpmc.P_gpost_tmo
import MayVerif.Proof.Chan.Mpmc.P_gunpark_send
import MayVerif.Proof.Chan.Mpmc.P_gunpark_disc
import MayVerif.Proof.Chan.Mpmc.P_gunpark_drop
import MayVerif.Proof.Chan.Mpmc.P_gunpark_tmo
import MayVerif.Proof.Chan.Mpmc.P_y0try
import MayVerif.Proof.Chan.Mpmc.P_y1pop
import MayVerif.Proof.Chan.Mpmc.P_y2load
import MayVerif.Proof.Chan.Mpmc.P_w0wait
import MayVerif.Proof.Chan.Mpmc.P_w1park
import MayVerif.Proof.Chan.Mpmc.P_c0fadd
import MayVerif.Proof.Chan.Mpmc.P_x0fsub
import MayVerif.Proof.Chan.Mpmc.P_cr0fadd
import MayVerif.Proof.Chan.Mpmc.P_xr0fsub
import MayVerif.Proof.Chan.Mpmc.P_e1pop
import MayVerif.Proof.Chan.Mpmc.P_z0load
import MayVerif.Proof.Chan.Mpmc.P_z1load
namespace MayVerif.Chan.Mpmc
open MayVerif.Chan

theorem inv_step (s s' : St) (t : Tid) (e : Env) (h : Inv s) (hs : step s t e = some s') : Inv s' := by
  obtain ⟨n, sh, pcs⟩ := s
  simp only [step] at hs
  split at hs
  case isFalse => contradiction
  next hlt =>
  split at hs
  · contradiction
  next sh' pc' hts =>
  simp only [Option.some.injEq] at hs
  subst hs
  generalize hpc : pcs t = pc at hts
  cases pc with
  | idle => exact inv_idle n sh pcs t e hlt h hpc sh' pc' hts
  | done a r => exact inv_done n sh pcs t e a r hlt h hpc sh' pc' hts
  | m0load v => exact inv_m0load n sh pcs t e v hlt h hpc sh' pc' hts
  | m1push v => exact inv_m1push n sh pcs t e v hlt h hpc sh' pc' hts
  | gpost k =>
    cases k with
    | sendRet => exact inv_gpost_send n sh pcs t e hlt h hpc sh' pc' hts
    | discRet a => exact inv_gpost_disc n sh pcs t e a hlt h hpc sh' pc' hts
    | dropTx => exact inv_gpost_drop n sh pcs t e hlt h hpc sh' pc' hts
    | tmoRet => exact inv_gpost_tmo n sh pcs t e hlt h hpc sh' pc' hts
  | gunpark w k =>
    cases k with
    | sendRet => exact inv_gunpark_send n sh pcs t e w hlt h hpc sh' pc' hts
    | discRet a => exact inv_gunpark_disc n sh pcs t e w a hlt h hpc sh' pc' hts
    | dropTx => exact inv_gunpark_drop n sh pcs t e w hlt h hpc sh' pc' hts
    | tmoRet => exact inv_gunpark_tmo n sh pcs t e w hlt h hpc sh' pc' hts
  | y0try a => exact inv_y0try n sh pcs t e a hlt h hpc sh' pc' hts
  | y1pop a => exact inv_y1pop n sh pcs t e a hlt h hpc sh' pc' hts
  | y2load a => exact inv_y2load n sh pcs t e a hlt h hpc sh' pc' hts
  | w0wait a => exact inv_w0wait n sh pcs t e a hlt h hpc sh' pc' hts
  | w1park b a => exact inv_w1park n sh pcs t e b a hlt h hpc sh' pc' hts
  | c0fadd => exact inv_c0fadd n sh pcs t e hlt h hpc sh' pc' hts
  | x0fsub => exact inv_x0fsub n sh pcs t e hlt h hpc sh' pc' hts
  | cr0fadd => exact inv_cr0fadd n sh pcs t e hlt h hpc sh' pc' hts
  | xr0fsub => exact inv_xr0fsub n sh pcs t e hlt h hpc sh' pc' hts
  | e1pop => exact inv_e1pop n sh pcs t e hlt h hpc sh' pc' hts
  | z0load a => exact inv_z0load n sh pcs t e a hlt h hpc sh' pc' hts
  | z1load a => exact inv_z1load n sh pcs t e a hlt h hpc sh' pc' hts

theorem inv_run (s : St) (sched : List (Tid × Env)) (h : Inv s) : Inv (run s sched) := by
  induction sched generalizing s with
  | nil => simpa [run]
  | cons te r ih =>
    obtain ⟨t, e⟩ := te
    simp only [run]
    split
    · next s' hs => exact ih _ (inv_step _ _ _ _ h hs)
    · exact ih _ h

theorem step_n (s s' : St) (t : Tid) (e : Env) (hs : step s t e = some s') : s'.n = s.n := by
  simp only [step] at hs
  split at hs
  · split at hs
    · contradiction
    · simp only [Option.some.injEq] at hs; subst hs; rfl
  · contradiction

theorem run_n (s : St) (l : List (Tid × Env)) : (run s l).n = s.n := by
  induction l generalizing s with
  | nil => rfl
  | cons te r ih =>
    obtain ⟨t, e⟩ := te
    simp only [run]
    split
    · next s' hs => rw [ih, step_n _ _ _ _ hs]
    · exact ih _

end MayVerif.Chan.Mpmc
