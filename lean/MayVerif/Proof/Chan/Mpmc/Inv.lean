/-
  Invariant of the mpmc channel model: data, handle accounting, the gate (`-cnt` waiters), and the permit ledger
  `queued values + disconnect token = permits that are free, in a waker's hand, in a parked owner's token, held by a
  receiver before its pop, or about to be posted`.
-/
import MayVerif.Model.Chan.Mpmc
import MayVerif.Proof.Chan.Count
namespace MayVerif.Chan.Mpmc
open MayVerif.Chan

@[grind] def kTx : K → Bool | .sendRet => true | _ => false
@[grind] def kRx : K → Bool | .discRet _ | .tmoRet => true | _ => false
@[grind] def kDrop : K → Bool | .dropTx => true | _ => false
@[grind] def kDisc : K → Bool | .discRet _ => true | _ => false

/-- the actor is inside a call on one of its Sender handles -/
@[grind] def usesTx : Pc → Bool
  | .m0load _ | .m1push _ | .c0fadd | .x0fsub => true
  | .gpost k | .gunpark _ k => kTx k
  | _ => false
/-- the actor is inside a call on one of its Receiver handles -/
@[grind] def usesRx : Pc → Bool
  | .y0try _ | .y1pop _ | .y2load _ | .w0wait _ | .w1park .. | .cr0fadd | .xr0fsub => true
  | .gpost k | .gunpark _ k => kRx k
  | _ => false
/-- past the `fetch_sub` of a handle drop, the `Arc` not yet released -/
@[grind] def dropTail : Pc → Bool
  | .e1pop => true
  | .gpost k | .gunpark _ k => kDrop k
  | _ => false
@[grind] def atZ : Pc → Bool | .z0load _ | .z1load _ => true | _ => false
/-- pushed, the post not yet performed -/
@[grind] def atSendPost : Pc → Bool | .gpost .sendRet => true | _ => false
/-- the last Sender's drop, the post not yet performed -/
@[grind] def atDropPost : Pc → Bool | .gpost .dropTx => true | _ => false
/-- holds the disconnect token, about to pass it on -/
@[grind] def atRepost : Pc → Bool | .gpost (.discRet _) | .gpost .tmoRet => true | _ => false
/-- a popped waiter's permit is in this actor's hand -/
@[grind] def atUnpark : Pc → Bool | .gunpark .. => true | _ => false
@[grind] def unparkingOf : Pc → Option Bid | .gunpark w _ => some w | _ => none
@[grind] def unparking (b : Bid) : Pc → Bool | .gunpark w _ => w == b | _ => false
/-- has taken a permit, has not popped (or has found the queue empty and not yet turned that into a re-post) -/
@[grind] def holds : Pc → Bool | .y1pop _ | .y2load _ => true | _ => false
@[grind] def parkedOn : Pc → Option Bid | .w1park b _ => some b | _ => none
@[grind] def parkedB (b : Bid) : Pc → Bool | .w1park w _ => w == b | _ => false
/-- found the queue empty while holding a permit / is about to report Disconnected -/
@[grind] def sawEmpty : Pc → Bool
  | .y2load _ | .done _ .disc => true
  | .gpost k | .gunpark _ k => kDisc k
  | _ => false
@[grind] def atE1 : Pc → Bool | .e1pop => true | _ => false
@[grind] def carries : Pc → Option Msg
  | .done _ (.ok m) => some m
  | _ => none

/-- number of blockers below `k` that carry a permit for their parked owner -/
def tuSum (k : Nat) (tu : Bid → Bool) : Nat := sumOf k (fun b => if tu b then 1 else 0)

theorem tuSum_upd (k : Nat) (tu : Bid → Bool) (w : Bid) (v : Bool) (hw : w < k) :
    tuSum k (upd tu w v) + (if tu w then 1 else 0) = tuSum k tu + (if v then 1 else 0) := by
  unfold tuSum
  have h := sumOf_upd k (fun b => if tu b then 1 else 0) w (if v then 1 else 0) hw
  have e : (fun b => if upd tu w v b = true then 1 else 0) = upd (fun b => if tu b = true then 1 else 0) w (if v = true then 1 else 0) := by
    funext b; simp only [upd]; split <;> rfl
  rw [e]; exact h

theorem tuSum_succ (k : Nat) (tu : Bid → Bool) : tuSum (k + 1) tu = tuSum k tu + (if tu k then 1 else 0) := by
  simp [tuSum, sumOf, List.range_succ]

theorem tuSum_zero_of (k : Nat) (tu : Bid → Bool) (h : ∀ b, b < k → tu b = false) : tuSum k tu = 0 := by
  unfold tuSum
  apply sumOf_zero_of
  intro u hu; simp [h u hu]

structure Inv (s : St) : Prop where
  data : s.sh.pushed = s.sh.hist.map (·.1) ++ s.sh.q
  tp : s.sh.txPorts = sumOf s.n s.sh.tx
  rp : s.sh.rxPorts = sumOf s.n s.sh.rx
  arcI : s.sh.arc = sumOf s.n s.sh.tx + sumOf s.n s.sh.rx + cntOf s.n dropTail s.pcs
  out : ∀ (t : Tid), s.n ≤ t → s.pcs t = .idle
  txU : ∀ (t : Tid), usesTx (s.pcs t) = true → 0 < s.sh.tx t
  rxU : ∀ (t : Tid), usesRx (s.pcs t) = true → 0 < s.sh.rx t
  left : s.sh.arc = 0 → s.sh.q = [] ∨ 0 < cntOf s.n atZ s.pcs
  qz : ∀ (t : Tid), atZ (s.pcs t) = true → s.sh.arc = 0
  -- the gate
  g1 : s.sh.cnt < 0 → (s.sh.wq.length : Int) = - s.sh.cnt
  g2 : 0 ≤ s.sh.cnt → s.sh.wq = []
  virT : ∀ (b : Bid), s.sh.nextB ≤ b → s.sh.tok b = false
  virU : ∀ (b : Bid), s.sh.nextB ≤ b → s.sh.unparked b = false
  virR : ∀ (b : Bid), s.sh.nextB ≤ b → s.sh.released b = false
  virN : ∀ (b : Bid), s.sh.nextB ≤ b → s.sh.tu b = false
  frQ : ∀ (b : Bid), b ∈ s.sh.wq → b < s.sh.nextB
  frP : ∀ (t : Tid) (b : Bid), parkedOn (s.pcs t) = some b → b < s.sh.nextB
  own1 : ∀ (t u : Tid) (b : Bid), parkedOn (s.pcs t) = some b → parkedOn (s.pcs u) = some b → t = u
  tuP : ∀ (b : Bid), s.sh.tu b = true → s.sh.tok b = true ∧ 0 < cntOf s.n (parkedB b) s.pcs
  tokU : ∀ (b : Bid), s.sh.tok b = true → s.sh.unparked b = true
  unpT : ∀ (t : Tid) (b : Bid), parkedOn (s.pcs t) = some b → s.sh.unparked b = true → s.sh.tu b = true
  relP : ∀ (t : Tid) (b : Bid), parkedOn (s.pcs t) = some b → s.sh.released b = false
  nodup : s.sh.wq.Nodup
  inQ : ∀ (b : Bid), b ∈ s.sh.wq → s.sh.unparked b = false ∧ cntOf s.n (unparking b) s.pcs = 0
  qLive : ∀ (b : Bid), b ∈ s.sh.wq → s.sh.released b = false → 0 < cntOf s.n (parkedB b) s.pcs
  frU : ∀ (b : Bid), s.sh.nextB ≤ b → cntOf s.n (unparking b) s.pcs = 0
  unpk : ∀ (t : Tid) (b : Bid), unparkingOf (s.pcs t) = some b → b < s.sh.nextB ∧ s.sh.unparked b = false ∧ b ∉ s.sh.wq
  unp1 : ∀ (t u : Tid) (b : Bid), unparkingOf (s.pcs t) = some b → unparkingOf (s.pcs u) = some b → t = u
  liveO : ∀ (t : Tid) (b : Bid), unparkingOf (s.pcs t) = some b → s.sh.released b = false → 0 < cntOf s.n (parkedB b) s.pcs
  w : ∀ (t : Tid) (b : Bid), parkedOn (s.pcs t) = some b →
        b ∈ s.sh.wq ∨ 0 < cntOf s.n (unparking b) s.pcs ∨ s.sh.tu b = true
  -- the permit ledger (while a Receiver exists)
  led : 0 < s.sh.rxPorts →
        (s.sh.q.length : Int) + (if s.sh.dposted then 1 else 0) =
          cntOf s.n atSendPost s.pcs + (if 0 < s.sh.cnt then s.sh.cnt else 0) + tuSum s.sh.nextB s.sh.tu + cntOf s.n atUnpark s.pcs
            + cntOf s.n holds s.pcs + cntOf s.n atRepost s.pcs
  e1 : ∀ (t : Tid), atE1 (s.pcs t) = true → s.sh.rxPorts = 0
  dz : (if s.sh.txPorts = 0 then 1 else 0) = cntOf s.n atDropPost s.pcs + (if s.sh.dposted then 1 else 0)
  se : ∀ (t : Tid), sawEmpty (s.pcs t) = true → s.sh.q = [] ∧ s.sh.dposted = true
  cr : ∀ (t : Tid) (m : Msg), carries (s.pcs t) = some m → (m, some t) ∈ s.sh.hist

theorem sumOf_init (n : Nat) (hn : 0 < n) : sumOf n (fun t => if t = 0 then 1 else 0) = 1 := by
  have h := sumOf_upd n (fun _ => 0) 0 1 hn
  have h0 := sumOf_zero_of n (fun _ => 0) (fun _ _ => rfl)
  have : upd (fun _ => 0) 0 1 = (fun t => if t = 0 then 1 else 0) := by funext u; simp [upd]
  rw [this] at h; omega

theorem sumOf_zero (f : Nat → Nat) : sumOf 0 f = 0 := rfl

theorem inv_init (n : Nat) (hn : 0 < n) : Inv (init n) := by
  have h1 := sumOf_init n hn
  have h2 : ∀ p : Pc → Bool, p .idle = false → cntOf n p (fun _ => Pc.idle) = 0 := fun p hp => cntOf_zero_of _ _ _ (fun _ _ => hp)
  have c1 := h2 dropTail rfl; have c2 := h2 atSendPost rfl; have c3 := h2 atUnpark rfl; have c4 := h2 holds rfl; have c5 := h2 atRepost rfl; have c6 := h2 atDropPost rfl
  have c7 : ∀ b, cntOf n (unparking b) (fun _ => Pc.idle) = 0 := fun b => h2 (unparking b) rfl
  constructor <;> simp [init, usesTx, usesRx, atZ, atE1, parkedOn, unparkingOf, sawEmpty, carries, h1, c1, c2, c3, c4, c5, c6, c7, tuSum, sumOf_zero]

theorem sumOf_give (n : Nat) (f : Nat → Nat) (t u : Nat) (ht : t < n) (hu : u < n) (_hpos : 0 < f t) :
    sumOf n (upd (upd f t (f t - 1)) u (upd f t (f t - 1) u + 1)) = sumOf n f := by
  have h1 := sumOf_upd n f t (f t - 1) ht
  have h2 := sumOf_upd n (upd f t (f t - 1)) u (upd f t (f t - 1) u + 1) hu
  omega

theorem sumOf_succ (k : Nat) (f : Nat → Nat) : sumOf (k + 1) f = sumOf k f + f k := by
  simp [sumOf, List.range_succ]

theorem data_flush (p : List Msg) (h : List (Msg × Disp)) (q : List Msg) (hd : p = h.map (·.1) ++ q) :
    p = List.map (fun x => x.fst) (h ++ List.map (fun m => (m, none)) q) ++ [] := by
  simp [hd, List.map_append, List.map_map, Function.comp_def]

theorem parkedOn_usesRx (pc : Pc) (b : Bid) (h : parkedOn pc = some b) : usesRx pc = true := by
  cases pc <;> simp_all [parkedOn, usesRx]


/-! force the auxiliary matcher lemmas that `grind` / `split` generate on demand to be created here, once
    (created independently in two of the per-program-point files they would clash at import) -/
theorem aux_usesTx (pc : Pc) (h : (match usesTx pc with | true => 1 | false => 0) = 2) : False := by
  unfold usesTx at h; grind
theorem aux_usesRx (pc : Pc) (h : (match usesRx pc with | true => 1 | false => 0) = 2) : False := by
  unfold usesRx at h; grind
theorem aux_dropTail (pc : Pc) (h : (match dropTail pc with | true => 1 | false => 0) = 2) : False := by
  unfold dropTail at h; grind
theorem aux_atZ (pc : Pc) (h : (match atZ pc with | true => 1 | false => 0) = 2) : False := by
  unfold atZ at h; grind
theorem aux_atSendPost (pc : Pc) (h : (match atSendPost pc with | true => 1 | false => 0) = 2) : False := by
  unfold atSendPost at h; grind
theorem aux_atDropPost (pc : Pc) (h : (match atDropPost pc with | true => 1 | false => 0) = 2) : False := by
  unfold atDropPost at h; grind
theorem aux_atRepost (pc : Pc) (h : (match atRepost pc with | true => 1 | false => 0) = 2) : False := by
  unfold atRepost at h; grind
theorem aux_atUnpark (pc : Pc) (h : (match atUnpark pc with | true => 1 | false => 0) = 2) : False := by
  unfold atUnpark at h; grind
theorem aux_holds (pc : Pc) (h : (match holds pc with | true => 1 | false => 0) = 2) : False := by
  unfold holds at h; grind
theorem aux_sawEmpty (pc : Pc) (h : (match sawEmpty pc with | true => 1 | false => 0) = 2) : False := by
  unfold sawEmpty at h; grind
theorem aux_atE1 (pc : Pc) (h : (match atE1 pc with | true => 1 | false => 0) = 2) : False := by
  unfold atE1 at h; grind
theorem aux_unparking (b : Bid) (pc : Pc) (h : (match unparking b pc with | true => 1 | false => 0) = 2) : False := by
  unfold unparking at h; grind
theorem aux_parkedB (b : Bid) (pc : Pc) (h : (match parkedB b pc with | true => 1 | false => 0) = 2) : False := by
  unfold parkedB at h; grind
theorem aux_parkedOn (pc : Pc) (h : (match parkedOn pc with | some _ => 1 | none => 0) = 2) : False := by
  unfold parkedOn at h; grind
theorem aux_unparkingOf (pc : Pc) (h : (match unparkingOf pc with | some _ => 1 | none => 0) = 2) : False := by
  unfold unparkingOf at h; grind
theorem aux_carries (pc : Pc) (h : (match carries pc with | some _ => 1 | none => 0) = 2) : False := by
  unfold carries at h; grind

set_option hygiene false in
macro "open_inv" : tactic => `(tactic|
  (obtain ⟨hdata, htp, hrp, harc, hout, htxU, hrxU, hleft, hqz, hg1, hg2, hvirT, hvirU, hvirR, hvirN, hfrQ, hfrP, hown1, htuP, htokU, hunpT, hrelP, hnodup, hinQ, hqLive, hfrU, hunpk, hunp1, hliveO, hw, hled, he1, hdz, hse, hcr⟩ := h
   simp only at hdata htp hrp harc hout htxU hrxU hleft hqz hg1 hg2 hvirT hvirU hvirR hvirN hfrQ hfrP hown1 htuP htokU hunpT hrelP hnodup hinQ hqLive hfrU hunpk hunp1 hliveO hw hled he1 hdz hse hcr
   have hDT := fun v => cntOf_upd n dropTail pcs t v hlt
   have hZ := fun v => cntOf_upd n atZ pcs t v hlt
   have hSP := fun v => cntOf_upd n atSendPost pcs t v hlt
   have hDP := fun v => cntOf_upd n atDropPost pcs t v hlt
   have hRP := fun v => cntOf_upd n atRepost pcs t v hlt
   have hUN := fun v => cntOf_upd n atUnpark pcs t v hlt
   have hHO := fun v => cntOf_upd n holds pcs t v hlt
   have hUP := fun b v => cntOf_upd n (unparking b) pcs t v hlt
   have hPB := fun b v => cntOf_upd n (parkedB b) pcs t v hlt
   have hSumT := fun v => sumOf_upd n sh.tx t v hlt
   have hSumR := fun v => sumOf_upd n sh.rx t v hlt
   have hLeT := le_sumOf n sh.tx t hlt
   have hLeR := le_sumOf n sh.rx t hlt
   have hTU := fun w v (hw : w < sh.nextB) => tuSum_upd sh.nextB sh.tu w v hw
   have hTUs := tuSum_succ sh.nextB sh.tu
   have hl0 : ∀ l : List Bid, l.length = 0 → l = [] := fun l => List.eq_nil_of_length_eq_zero
   have hlc : ∀ (w : Bid) (r : List Bid), (w :: r).length = r.length + 1 := fun w r => List.length_cons
   have pDT := cntOf_pos_of n dropTail pcs t hlt; have pZ := cntOf_pos_of n atZ pcs t hlt; have pSP := cntOf_pos_of n atSendPost pcs t hlt
   have pDP := cntOf_pos_of n atDropPost pcs t hlt; have pRP := cntOf_pos_of n atRepost pcs t hlt; have pUN := cntOf_pos_of n atUnpark pcs t hlt
   have pHO := cntOf_pos_of n holds pcs t hlt
   rw [hpc] at hDT hZ hSP hDP hRP hUN hHO hUP hPB pDT pZ pSP pDP pRP pUN pHO
   simp only [dropTail, atZ, atSendPost, atDropPost, atRepost, atUnpark, holds, unparking, parkedB, kDrop] at hDT hZ hSP hDP hRP hUN hHO hUP hPB pDT pZ pSP pDP pRP pUN pHO
   have htxUt := htxU t; have hrxUt := hrxU t; have hqzt := hqz t; have hfrPt := hfrP t; have hunpTt := hunpT t; have hrelPt := hrelP t
   have hown1t := hown1 t; have hunpkt := hunpk t; have hunp1t := hunp1 t; have hliveOt := hliveO t; have hwt := hw t; have hset := hse t; have hcrt := hcr t; have he1t := he1 t
   simp only [hpc, usesTx, usesRx, atZ, parkedOn, sawEmpty, carries, atE1, unparkingOf, kTx, kRx, kDisc] at htxUt hrxUt hqzt hfrPt hunpTt hrelPt hown1t hunpkt hunp1t hliveOt hwt hset hcrt he1t))

set_option hygiene false in
macro "fin" : tactic => `(tactic| (constructor <;> simp only [] <;> first | assumption | grind | grind (splits := 40)))

end MayVerif.Chan.Mpmc
