import MayVerif.Proof.Chan.Mpmc.Inv
namespace MayVerif.Chan.Mpmc
open MayVerif.Chan
-- HAND (generated per caller choice)

set_option maxHeartbeats 4000000 in
theorem inv_idle_giveTx (n : Nat) (sh : Sh) (pcs : Tid → Pc) (t : Tid) (u : Tid) (hlt : t < n)
    (h : Inv ⟨n, sh, pcs⟩) (hpc : pcs t = (.idle)) (sh' : Sh) (pc' : Pc)
    (hts : tstep n sh t (.idle) (.giveTx u) = some (sh', pc')) : Inv ⟨n, sh', upd pcs t pc'⟩ := by
  open_inv
  have hgiveT := fun u => sumOf_give n sh.tx t u hlt
  have hgiveR := fun u => sumOf_give n sh.rx t u hlt
  have hidle : upd pcs t .idle = pcs := by funext u; simp only [upd]; split <;> simp_all
  simp only [tstep] at hts <;> (try contradiction) <;> (repeat' split at hts) <;> (try contradiction) <;>
    (simp only [Option.some.injEq, Prod.mk.injEq] at hts; obtain ⟨rfl, rfl⟩ := hts; (try rw [hidle]); fin)

end MayVerif.Chan.Mpmc
