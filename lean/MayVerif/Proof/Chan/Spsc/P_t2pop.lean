import MayVerif.Proof.Chan.Spsc.Inv
namespace MayVerif.Chan.Spsc
open MayVerif.Chan

set_option maxHeartbeats 4000000 in
theorem inv_t2pop (n : Nat) (sh : Sh) (pcs : Tid → Pc) (t : Tid) (e : Env) (c : Ctx) (hlt : t < n)
    (h : Inv ⟨n, sh, pcs⟩) (hpc : pcs t = (.t2pop c)) (sh' : Sh) (pc' : Pc)
    (hts : ustep n sh t (.t2pop c) e = some (sh', pc')) : Inv ⟨n, sh', upd pcs t pc'⟩ := by
  cases c <;> (open_inv; (simp only [ustep, release, cont] at hts <;> (try contradiction) <;> (repeat' split at hts) <;> (try contradiction) <;>
    (simp only [Option.some.injEq, Prod.mk.injEq] at hts; obtain ⟨rfl, rfl⟩ := hts; fin)))

end MayVerif.Chan.Spsc
