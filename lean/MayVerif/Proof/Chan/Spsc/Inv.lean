/-
  Invariant of the spsc channel model (thread path and coroutine path with its kernel tail).
-/
import MayVerif.Model.Chan.Spsc
import MayVerif.Proof.Chan.Count
namespace MayVerif.Chan.Spsc
open MayVerif.Chan

@[grind] def usesTx : Pc → Bool
  | .s0load _ | .s1push _ | .s2take | .s3unpark _ | .x0store => true
  | _ => false
@[grind] def usesRx : Pc → Bool
  | .r0new | .r1store _ | .t0pop _ | .t1load _ | .t2pop _ | .r3clear _ | .r4park _ | .y0yield | .y1susp _ | .y2drop | .p0store | .p1pop => true
  | _ => false
@[grind] def dropTail : Pc → Bool | .x1take | .x2unpark _ => true | _ => false
@[grind] def atS2 : Pc → Bool | .s2take => true | _ => false
@[grind] def atX1 : Pc → Bool | .x1take => true | _ => false
@[grind] def atP1 : Pc → Bool | .p1pop => true | _ => false
@[grind] def unparking (b : Bid) : Pc → Bool
  | .s3unpark w | .x2unpark w => w == b
  | _ => false
@[grind] def unparkingOf : Pc → Option Bid
  | .s3unpark w | .x2unpark w => some w
  | _ => none
/-- the receiver is in the registration round of blocker `b` -/
@[grind] def waitsOn : Pc → Option Bid
  | .t0pop (.reg b) | .t1load (.reg b) | .t2pop (.reg b) | .r4park b | .y1susp b => some b
  | _ => none
/-- (thread) … and has found the queue empty since the registration -/
@[grind] def storing : Pc → Option Bid | .r1store b => some b | _ => none
@[grind] def pastPop : Pc → Bool
  | .t1load (.reg _) | .r4park _ => true
  | _ => false
@[grind] def suspended : Pc → Bool | .y1susp _ => true | _ => false
/-- the receiver will clear `wait_co` (or re-examine the channel) before it can park -/
@[grind] def willClear : Pc → Bool
  | .t0pop (.reg _) | .t1load (.reg _) | .t2pop (.reg _) | .r3clear _ => true
  | _ => false
@[grind] def sawNoSender : Pc → Bool | .t2pop _ => true | _ => false
@[grind] def retDisc : Pc → Bool
  | .done _ .disc | .r3clear .disc => true
  | _ => false
@[grind] def carries : Pc → Option Msg
  | .done _ (.ok m) | .r3clear (.ok m) => some m
  | _ => none
/-- the coroutine is switched out or waits in `Drop for Park`: its kernel tail may be running -/
@[grind] def kActive : Pc → Bool | .y1susp _ | .y2drop => true | _ => false
@[grind] def atY2 : Pc → Bool | .y2drop => true | _ => false

/-- the blocker of the round the kernel tail is registering / re-checking -/
@[grind] def kRound : KPc → Option Bid
  | .k0store b | .k1empty b | .k2load b => some b
  | _ => none
/-- the kernel tail will still re-check or take: no obligation yet -/
@[grind] def kWill : KPc → Bool
  | .k0store _ | .k1empty _ | .k2load _ | .k3take => true
  | _ => false
/-- the kernel tail has not published `b` yet, or is about to resume it -/
@[grind] def kPending (b : Bid) : KPc → Bool
  | .k0store w | .k4run w => w == b
  | _ => false
@[grind] def kUnpub (b : Bid) : KPc → Bool
  | .k0store w => w == b
  | _ => false
/-- the kernel tail has seen the queue empty (or is finished) -/
@[grind] def kPastEmpty : KPc → Bool
  | .k2load _ | .k5done | .kIdle => true
  | _ => false
@[grind] def kIsIdle : KPc → Bool | .kIdle => true | _ => false
@[grind] def kRun : KPc → Option Bid | .k4run w => some w | _ => none

structure Inv (s : St) : Prop where
  data : s.sh.pushed = s.sh.hist.map (·.1) ++ s.sh.q
  chan : s.sh.channels = (if s.sh.tx.isSome then 1 else 0)
  arcI : s.sh.arc = (if s.sh.tx.isSome then 1 else 0) + cntOf s.n dropTail s.pcs + (if s.sh.rx.isSome then 1 else 0)
  out : ∀ (t : Tid), s.n ≤ t → s.pcs t = .idle
  txU : ∀ (t : Tid), usesTx (s.pcs t) = true → s.sh.tx = some t
  rxU : ∀ (t : Tid), usesRx (s.pcs t) = true → s.sh.rx = some t
  txN : ∀ (t : Tid), s.sh.tx = some t → t < s.n
  rxN : ∀ (t : Tid), s.sh.rx = some t → t < s.n
  pdr : s.sh.rx = none → s.sh.portDropped = true
  pd1 : ∀ (t : Tid), atP1 (s.pcs t) = true → s.sh.portDropped = true
  left : s.sh.arc = 0 → s.sh.q = []
  -- the kernel tail belongs to a switched-out receiver coroutine
  kA1 : kIsIdle s.sh.kt = false → s.sh.rx ≠ none ∧ s.sh.waitKernel = true
  kA2 : ∀ (t : Tid), s.sh.rx = some t → kIsIdle s.sh.kt = false → kActive (s.pcs t) = true
  kB : ∀ (t : Tid) (b : Bid), s.sh.rx = some t → kRound s.sh.kt = some b → suspended (s.pcs t) = true → s.pcs t = .y1susp b
  -- freshness and the handle inside a blocker
  frW : ∀ (t : Tid) (b : Bid), waitsOn (s.pcs t) = some b → b < s.sh.nextB ∧ (kUnpub b s.sh.kt = true ∨ s.sh.bthr b = t)
  frS : ∀ (t : Tid) (b : Bid), storing (s.pcs t) = some b → b < s.sh.nextB ∧ s.sh.bthr b = t
  frC : ∀ (b : Bid), s.sh.waitCo = some b → b < s.sh.nextB ∧ kUnpub b s.sh.kt = false
  frU : ∀ (t : Tid) (b : Bid), unparkingOf (s.pcs t) = some b → b < s.sh.nextB ∧ kUnpub b s.sh.kt = false
  frK : ∀ (b : Bid), kRound s.sh.kt = some b → b < s.sh.nextB
  frR : ∀ (b : Bid), kRun s.sh.kt = some b → b < s.sh.nextB ∧ s.sh.waitCo = none
  -- wake-ups
  tw : ∀ (b : Bid) (t : Tid), s.sh.waitCo = some b → s.sh.rx = some t →
        0 < s.sh.channels ∨ 0 < cntOf s.n atX1 s.pcs ∨ willClear (s.pcs t) = true ∨ kWill s.sh.kt = true
  tw0 : ∀ (b : Bid), s.sh.waitCo = some b → s.sh.rx = none → 0 < s.sh.channels ∨ 0 < cntOf s.n atX1 s.pcs
  w1 : ∀ (t : Tid) (b : Bid), waitsOn (s.pcs t) = some b →
        s.sh.waitCo = some b ∨ s.sh.tok t = true ∨ 0 < cntOf s.n (unparking b) s.pcs ∨ kPending b s.sh.kt = true
  w2 : ∀ (t : Tid) (b : Bid), waitsOn (s.pcs t) = some b → pastPop (s.pcs t) = true → s.sh.waitCo = some b →
        s.sh.q = [] ∨ 0 < cntOf s.n atS2 s.pcs
  w2c : ∀ (t : Tid) (b : Bid), waitsOn (s.pcs t) = some b → suspended (s.pcs t) = true → kPastEmpty s.sh.kt = true →
        s.sh.waitCo = some b → s.sh.q = [] ∨ 0 < cntOf s.n atS2 s.pcs
  ns : ∀ (t : Tid), sawNoSender (s.pcs t) = true → s.sh.channels = 0
  rd : ∀ (t : Tid), retDisc (s.pcs t) = true → s.sh.q = [] ∧ s.sh.channels = 0
  cr : ∀ (t : Tid) (m : Msg), carries (s.pcs t) = some m → (m, some t) ∈ s.sh.hist

theorem inv_init (n : Nat) (co : Tid → Bool) (hn : 0 < n) : Inv (init n co) := by
  have h2 : cntOf n dropTail (fun _ => Pc.idle) = 0 := cntOf_zero_of _ _ _ (fun _ _ => rfl)
  constructor <;> simp [init, usesTx, usesRx, atP1, waitsOn, sawNoSender, retDisc, carries, kIsIdle, kRound, kRun, unparkingOf, storing, h2] <;> omega

theorem waitsOn_usesRx (pc : Pc) (b : Bid) (h : waitsOn pc = some b) : usesRx pc = true := by
  cases pc <;> simp_all [waitsOn, usesRx] <;> (rename_i c; cases c <;> simp_all)
theorem willClear_usesRx (pc : Pc) (h : willClear pc = true) : usesRx pc = true := by
  cases pc <;> simp_all [willClear, usesRx]
theorem kActive_usesRx (pc : Pc) (h : kActive pc = true) : usesRx pc = true := by
  cases pc <;> simp_all [kActive, usesRx]
theorem data_flush (p : List Msg) (h : List (Msg × Disp)) (q : List Msg) (hd : p = h.map (·.1) ++ q) :
    p = List.map (fun x => x.fst) (h ++ List.map (fun m => (m, none)) q) ++ [] := by
  simp [hd, List.map_append, List.map_map, Function.comp_def]

/-! force the auxiliary matcher lemmas that `grind` / `split` generate on demand to be created here, once -/
theorem aux_b (pc : Pc) (h : (match usesTx pc, usesRx pc, dropTail pc, atS2 pc, atX1 pc, atP1 pc, pastPop pc, suspended pc, willClear pc,
    sawNoSender pc, retDisc pc, kActive pc, atY2 pc with | _, _, _, _, _, _, _, _, _, _, _, _, _ => 1) = 2) : False := by
  unfold usesTx usesRx dropTail atS2 atX1 atP1 pastPop suspended willClear sawNoSender retDisc kActive atY2 at h; grind
theorem aux_o (b : Bid) (pc : Pc) (h : (match unparking b pc, unparkingOf pc, waitsOn pc, carries pc, storing pc with | _, _, _, _, _ => 1) = 2) : False := by
  unfold unparking unparkingOf waitsOn carries storing at h; grind
theorem aux_k (b : Bid) (k : KPc) (h : (match kRound k, kWill k, kPending b k, kUnpub b k, kPastEmpty k, kIsIdle k, kRun k with | _, _, _, _, _, _, _ => 1) = 2) : False := by
  unfold kRound kWill kPending kUnpub kPastEmpty kIsIdle kRun at h; grind

set_option hygiene false in
macro "open_inv" : tactic => `(tactic|
  (obtain ⟨hdata, hchan, harc, hout, htxU, hrxU, htxN, hrxN, hpdr, hpd1, hleft, hkA1, hkA2, hkB, hfrW, hfrS, hfrC, hfrU, hfrK, hfrR, htw, htw0, hw1, hw2, hw2c, hns, hrd, hcr⟩ := h
   simp only at hdata hchan harc hout htxU hrxU htxN hrxN hpdr hpd1 hleft hkA1 hkA2 hkB hfrW hfrS hfrC hfrU hfrK hfrR htw htw0 hw1 hw2 hw2c hns hrd hcr
   have hDT := fun v => cntOf_upd n dropTail pcs t v hlt
   have hS2 := fun v => cntOf_upd n atS2 pcs t v hlt
   have hX1 := fun v => cntOf_upd n atX1 pcs t v hlt
   have hUP := fun b v => cntOf_upd n (unparking b) pcs t v hlt
   have hWU := fun u => waitsOn_usesRx (pcs u)
   have hCU := fun u => willClear_usesRx (pcs u)
   have hKU := fun u => kActive_usesRx (pcs u)
   rw [hpc] at hDT hS2 hX1 hUP
   simp only [dropTail, atS2, atX1, unparking] at hDT hS2 hX1 hUP
   have htxUt := htxU t; have hrxUt := hrxU t; have hw1t := hw1 t; have hw2t := hw2 t; have hw2ct := hw2c t; have hnst := hns t; have hrdt := hrd t
   have hpd1t := hpd1 t; have hcrt := hcr t; have hfrWt := hfrW t; have hfrUt := hfrU t; have hkA2t := hkA2 t; have hkBt := hkB t; have hfrSt := hfrS t
   simp only [hpc, usesTx, usesRx, waitsOn, pastPop, suspended, sawNoSender, retDisc, atP1, carries, unparkingOf, kActive, atY2, storing] at htxUt hrxUt hw1t hw2t hw2ct hnst hrdt hpd1t hcrt hfrWt hfrUt hkA2t hkBt hfrSt))

set_option hygiene false in
macro "open_invk" : tactic => `(tactic|
  (obtain ⟨hdata, hchan, harc, hout, htxU, hrxU, htxN, hrxN, hpdr, hpd1, hleft, hkA1, hkA2, hkB, hfrW, hfrS, hfrC, hfrU, hfrK, hfrR, htw, htw0, hw1, hw2, hw2c, hns, hrd, hcr⟩ := h
   simp only at hdata hchan harc hout htxU hrxU htxN hrxN hpdr hpd1 hleft hkA1 hkA2 hkB hfrW hfrS hfrC hfrU hfrK hfrR htw htw0 hw1 hw2 hw2c hns hrd hcr
   have hWU := fun u => waitsOn_usesRx (pcs u)
   have hCU := fun u => willClear_usesRx (pcs u)
   have hKU := fun u => kActive_usesRx (pcs u)
   have hw1t := hw1 t; have hw2ct := hw2c t; have hfrWt := hfrW t; have hkA2t := hkA2 t; have hkBt := hkB t; have htwt := fun b => htw b t))

set_option hygiene false in
macro "fin" : tactic => `(tactic| (constructor <;> simp only [] <;> first | assumption | exact data_flush _ _ _ hdata | grind | grind (splits := 40)))

end MayVerif.Chan.Spsc
