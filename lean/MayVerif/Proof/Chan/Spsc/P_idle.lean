import MayVerif.Proof.Chan.Spsc.Inv
namespace MayVerif.Chan.Spsc
open MayVerif.Chan
-- HAND

set_option maxHeartbeats 4000000 in
theorem inv_idle (n : Nat) (sh : Sh) (pcs : Tid → Pc) (t : Tid) (e : Env) (hlt : t < n)
    (h : Inv ⟨n, sh, pcs⟩) (hpc : pcs t = (.idle)) (sh' : Sh) (pc' : Pc)
    (hts : ustep n sh t (.idle) e = some (sh', pc')) : Inv ⟨n, sh', upd pcs t pc'⟩ := by
  open_inv
  have hidle : upd pcs t .idle = pcs := by funext u; simp only [upd]; split <;> simp_all
  cases e <;> simp only [ustep] at hts <;> (try contradiction) <;> (repeat' split at hts) <;> (try contradiction) <;>
    (simp only [Option.some.injEq, Prod.mk.injEq] at hts; obtain ⟨rfl, rfl⟩ := hts; (try rw [hidle]); fin)

end MayVerif.Chan.Spsc
