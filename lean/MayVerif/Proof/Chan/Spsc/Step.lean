import MayVerif.Proof.Chan.Spsc.P_idle
import MayVerif.Proof.Chan.Spsc.P_kern
import MayVerif.Proof.Chan.Spsc.P_done
import MayVerif.Proof.Chan.Spsc.P_s0load
import MayVerif.Proof.Chan.Spsc.P_s1push
import MayVerif.Proof.Chan.Spsc.P_s2take
import MayVerif.Proof.Chan.Spsc.P_s3unpark
import MayVerif.Proof.Chan.Spsc.P_r0new
import MayVerif.Proof.Chan.Spsc.P_r1store
import MayVerif.Proof.Chan.Spsc.P_t0pop
import MayVerif.Proof.Chan.Spsc.P_t1load
import MayVerif.Proof.Chan.Spsc.P_t2pop
import MayVerif.Proof.Chan.Spsc.P_r3clear
import MayVerif.Proof.Chan.Spsc.P_r4park
import MayVerif.Proof.Chan.Spsc.P_y0yield
import MayVerif.Proof.Chan.Spsc.P_y1susp
import MayVerif.Proof.Chan.Spsc.P_y2drop
import MayVerif.Proof.Chan.Spsc.P_x0store
import MayVerif.Proof.Chan.Spsc.P_x1take
import MayVerif.Proof.Chan.Spsc.P_x2unpark
import MayVerif.Proof.Chan.Spsc.P_p0store
import MayVerif.Proof.Chan.Spsc.P_p1pop
namespace MayVerif.Chan.Spsc
open MayVerif.Chan

theorem upd_self {α : Type} (f : Nat → α) (t : Nat) : upd f t (f t) = f := by
  funext u; simp only [upd]; split <;> simp_all

theorem inv_step (s s' : St) (t : Tid) (e : Env) (h : Inv s) (hs : step s t e = some s') : Inv s' := by
  obtain ⟨n, sh, pcs⟩ := s
  simp only [step] at hs
  split at hs
  case isFalse => contradiction
  next hlt =>
  split at hs
  · contradiction
  next sh' pc' hts =>
  simp only [Option.some.injEq] at hs
  subst hs
  simp only [tstep] at hts
  split at hts
  · -- a step of the kernel tail
    split at hts
    next hrx =>
      cases hk : kstep sh t with
      | none => simp [hk] at hts
      | some sh'' =>
        simp only [hk, Option.map_some, Option.some.injEq, Prod.mk.injEq] at hts
        obtain ⟨rfl, rfl⟩ := hts
        try simp only
        rw [upd_self]
        exact inv_kern n sh pcs t hlt h hrx sh'' hk
    · contradiction
  · generalize hpc : pcs t = pc at hts
    cases pc with
    | idle => exact inv_idle n sh pcs t e hlt h hpc sh' pc' hts
    | done a r => exact inv_done n sh pcs t e a r hlt h hpc sh' pc' hts
    | s0load v => exact inv_s0load n sh pcs t e v hlt h hpc sh' pc' hts
    | s1push v => exact inv_s1push n sh pcs t e v hlt h hpc sh' pc' hts
    | s2take => exact inv_s2take n sh pcs t e hlt h hpc sh' pc' hts
    | s3unpark w => exact inv_s3unpark n sh pcs t e w hlt h hpc sh' pc' hts
    | r0new => exact inv_r0new n sh pcs t e hlt h hpc sh' pc' hts
    | r1store b => exact inv_r1store n sh pcs t e b hlt h hpc sh' pc' hts
    | t0pop c => exact inv_t0pop n sh pcs t e c hlt h hpc sh' pc' hts
    | t1load c => exact inv_t1load n sh pcs t e c hlt h hpc sh' pc' hts
    | t2pop c => exact inv_t2pop n sh pcs t e c hlt h hpc sh' pc' hts
    | r3clear r => exact inv_r3clear n sh pcs t e r hlt h hpc sh' pc' hts
    | r4park b => exact inv_r4park n sh pcs t e b hlt h hpc sh' pc' hts
    | y0yield => exact inv_y0yield n sh pcs t e hlt h hpc sh' pc' hts
    | y1susp b => exact inv_y1susp n sh pcs t e b hlt h hpc sh' pc' hts
    | y2drop => exact inv_y2drop n sh pcs t e hlt h hpc sh' pc' hts
    | x0store => exact inv_x0store n sh pcs t e hlt h hpc sh' pc' hts
    | x1take => exact inv_x1take n sh pcs t e hlt h hpc sh' pc' hts
    | x2unpark w => exact inv_x2unpark n sh pcs t e w hlt h hpc sh' pc' hts
    | p0store => exact inv_p0store n sh pcs t e hlt h hpc sh' pc' hts
    | p1pop => exact inv_p1pop n sh pcs t e hlt h hpc sh' pc' hts

theorem inv_run (s : St) (sched : List (Tid × Env)) (h : Inv s) : Inv (run s sched) := by
  induction sched generalizing s with
  | nil => simpa [run]
  | cons te r ih =>
    obtain ⟨t, e⟩ := te
    simp only [run]
    split
    · next s' hs => exact ih _ (inv_step _ _ _ _ h hs)
    · exact ih _ h

theorem step_n (s s' : St) (t : Tid) (e : Env) (hs : step s t e = some s') : s'.n = s.n := by
  simp only [step] at hs
  split at hs
  · split at hs
    · contradiction
    · simp only [Option.some.injEq] at hs; subst hs; rfl
  · contradiction

theorem run_n (s : St) (l : List (Tid × Env)) : (run s l).n = s.n := by
  induction l generalizing s with
  | nil => rfl
  | cons te r ih =>
    obtain ⟨t, e⟩ := te
    simp only [run]
    split
    · next s' hs => rw [ih, step_n _ _ _ _ hs]
    · exact ih _

end MayVerif.Chan.Spsc
