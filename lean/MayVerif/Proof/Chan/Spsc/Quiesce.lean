/-
  Quiescent states of the spsc model.
-/
import MayVerif.Proof.Chan.Spsc.Step
namespace MayVerif.Chan.Spsc
open MayVerif.Chan

/-- nobody is in the middle of an operation: every actor is idle, parked (thread) or suspended (coroutine) in `recv`,
    and no kernel tail is running -/
def Quiescent (s : St) : Prop :=
  (∀ u, u < s.n → s.pcs u = .idle ∨ (∃ b, s.pcs u = .r4park b) ∨ (∃ b, s.pcs u = .y1susp b)) ∧ s.sh.kt = .kIdle

/-- the actor waits inside `recv` -/
def Waiting (s : St) (t : Nat) : Prop := (∃ b, s.pcs t = .r4park b) ∨ (∃ b, s.pcs t = .y1susp b)

theorem quiet_counts (s : St) (hq : Quiescent s) (p : Pc → Bool) (h0 : p .idle = false) (h1 : ∀ b, p (.r4park b) = false)
    (h2 : ∀ b, p (.y1susp b) = false) : cntOf s.n p s.pcs = 0 := by
  apply cntOf_zero_of; intro u hu
  rcases hq.1 u hu with h | ⟨b, h⟩ | ⟨b, h⟩ <;> simp [h, h0, h1, h2]

end MayVerif.Chan.Spsc
