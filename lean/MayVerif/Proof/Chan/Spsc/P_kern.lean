import MayVerif.Proof.Chan.Spsc.Inv
namespace MayVerif.Chan.Spsc
open MayVerif.Chan
-- HAND

set_option maxHeartbeats 4000000 in
theorem inv_kern (n : Nat) (sh : Sh) (pcs : Tid → Pc) (t : Tid) (hlt : t < n)
    (h : Inv ⟨n, sh, pcs⟩) (hrx : sh.rx = some t) (sh' : Sh)
    (hk : kstep sh t = some sh') : Inv ⟨n, sh', pcs⟩ := by
  open_invk
  cases hkt : sh.kt <;> simp only [kstep, hkt] at hk <;> (try contradiction) <;> (repeat' split at hk) <;> (try contradiction) <;>
    (simp only [Option.some.injEq] at hk; subst hk
     simp only [hkt, kIsIdle, kRound, kWill, kPending, kUnpub, kPastEmpty, kRun] at hkA1 hkA2 hkB hfrW hfrC hfrU hfrK hfrR htw hw1 hw2c hw1t hw2ct hfrWt hkA2t hkBt htwt
     fin)

end MayVerif.Chan.Spsc
