/-
  Invariants of the CLS / para model (fixed configuration) – helper for Props/C15.
-/
import MayVerif.Model.Local
namespace MayVerif.Local

@[grind] def live : Pc → Bool
  | .idle | .ended => false
  | _ => true
/-- the generator may carry a `para` that the coroutine is about to consume -/
@[grind] def carrying : Pc → Bool
  | .shortcut _ _ => true
  | .resumed _ a | .post _ a => hasTimer a || cancelRegistered a
  | _ => false

/-- values and maps -/
structure InvV (s : St) : Prop where
  v1 : ∀ c k v, s.sh.map c k = some v → v < s.sh.nextV ∧ s.sh.ownC v = some (c, k)
  v2 : ∀ t k v, s.sh.tmap t k = some v → v < s.sh.nextV ∧ s.sh.ownT v = some (t, k)
  v3 : ∀ v, s.sh.nextV ≤ v → s.sh.ownC v = none ∧ s.sh.ownT v = none
  v3' : ∀ v, s.sh.ownC v ≠ none → s.sh.ownT v = none
  v4 : ∀ c, s.pcs c = .idle → s.sh.freed c = 0 ∧ ∀ k, s.sh.map c k = none ∧ s.sh.inits c k = 0
  v5 : ∀ c k, s.sh.inits c k ≤ 1 ∧ (s.sh.inits c k = 1 ↔ s.sh.map c k ≠ none)
  v6 : ∀ c, s.sh.freed c ≤ 1 ∧ (s.sh.freed c = 1 ↔ s.pcs c = .ended)

/-- generators, the pool and the para slot -/
structure InvP (s : St) : Prop where
  g1 : ∀ c c', live (s.pcs c) = true → live (s.pcs c') = true → s.sh.gen c = s.sh.gen c' → c = c'
  g2 : ∀ c, live (s.pcs c) = true → s.sh.gen c < s.sh.nextG ∧ s.sh.gen c ∉ s.sh.pool
  g3 : ∀ g, g ∈ s.sh.pool → g < s.sh.nextG ∧ s.sh.para g = none
  g4 : s.sh.pool.Nodup
  g5 : ∀ g, s.sh.nextG ≤ g → s.sh.para g = none
  p1 : ∀ c, live (s.pcs c) = true → carrying (s.pcs c) = false → s.sh.para (s.sh.gen c) = none
  p2 : ∀ c, live (s.pcs c) = true → s.sh.para (s.sh.gen c) = some .canceled → s.sh.cancelBit c = true
  p3 : ∀ c u, s.pcs c ≠ .shortcut u .send ∧ s.pcs c ≠ .yielding u .send

theorem invV_init : InvV init := by
  constructor <;> simp [init]
theorem invP_init : InvP init := by
  constructor <;> simp [init, live]

end MayVerif.Local
