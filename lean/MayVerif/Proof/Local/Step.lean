import MayVerif.Proof.Local.Inv
set_option linter.unusedSimpArgs false
set_option linter.unusedVariables false
namespace MayVerif.Local

theorem step_eq (cfg : Cfg) (s s' : St) (c : Nat) (e : Env) (hs : step cfg s c e = some s') :
    ∃ sh' pc', tstep cfg s.sh c (s.pcs c) e = some (sh', pc') ∧ s' = ⟨sh', upd s.pcs c pc'⟩ := by
  unfold step at hs
  split at hs
  · next sh' pc' heq => simp only [Option.some.injEq] at hs; exact ⟨sh', pc', heq, hs.symm⟩
  · contradiction

set_option hygiene false in
macro "local_cases" : tactic => `(tactic| (
  generalize hpc : s.pcs c = pc at hts
  cases pc <;> simp only [tstep, fixed, reduceCtorEq, or_false, false_or, or_self, ↓reduceIte, or_true, true_or, Bool.false_eq_true, Bool.false_and] at hts <;> (try contradiction)
  all_goals (
    repeat' (split at hts)
    all_goals (try contradiction)
    all_goals (simp only [Option.some.injEq, Prod.mk.injEq] at hts; obtain ⟨rfl, rfl⟩ := hts))))

set_option maxHeartbeats 1000000 in
theorem invV_spawn (s : St) (c : Nat) (r : Bool) (h : InvV s) (sh' : Sh) (pc' : Pc)
    (hts : tstep fixed s.sh c (s.pcs c) (.spawn r) = some (sh', pc')) : InvV ⟨sh', upd s.pcs c pc'⟩ := by
  obtain ⟨v1, v2, v3, v3', v4, v5, v6⟩ := h
  local_cases
  all_goals (constructor <;> (try simp only []) <;> grind)

set_option maxHeartbeats 1000000 in
theorem invP_spawn (s : St) (c : Nat) (r : Bool) (h : InvP s) (sh' : Sh) (pc' : Pc)
    (hts : tstep fixed s.sh c (s.pcs c) (.spawn r) = some (sh', pc')) : InvP ⟨sh', upd s.pcs c pc'⟩ := by
  obtain ⟨g1, g2, g3, g4, g5, p1, p2, p3⟩ := h
  local_cases
  all_goals (constructor <;> (try simp only []) <;> grind)

set_option maxHeartbeats 1000000 in
theorem invV_acc (s : St) (c : Nat) (k : Key) (h : InvV s) (sh' : Sh) (pc' : Pc)
    (hts : tstep fixed s.sh c (s.pcs c) (.acc k) = some (sh', pc')) : InvV ⟨sh', upd s.pcs c pc'⟩ := by
  obtain ⟨v1, v2, v3, v3', v4, v5, v6⟩ := h
  local_cases
  all_goals (constructor <;> (try simp only []) <;> grind)

set_option maxHeartbeats 1000000 in
theorem invP_acc (s : St) (c : Nat) (k : Key) (h : InvP s) (sh' : Sh) (pc' : Pc)
    (hts : tstep fixed s.sh c (s.pcs c) (.acc k) = some (sh', pc')) : InvP ⟨sh', upd s.pcs c pc'⟩ := by
  obtain ⟨g1, g2, g3, g4, g5, p1, p2, p3⟩ := h
  local_cases
  all_goals (constructor <;> (try simp only []) <;> grind)

set_option maxHeartbeats 1000000 in
theorem invV_migrate (s : St) (c : Nat) (w : Nat) (h : InvV s) (sh' : Sh) (pc' : Pc)
    (hts : tstep fixed s.sh c (s.pcs c) (.migrate w) = some (sh', pc')) : InvV ⟨sh', upd s.pcs c pc'⟩ := by
  obtain ⟨v1, v2, v3, v3', v4, v5, v6⟩ := h
  local_cases
  all_goals (constructor <;> (try simp only []) <;> grind)

set_option maxHeartbeats 1000000 in
theorem invP_migrate (s : St) (c : Nat) (w : Nat) (h : InvP s) (sh' : Sh) (pc' : Pc)
    (hts : tstep fixed s.sh c (s.pcs c) (.migrate w) = some (sh', pc')) : InvP ⟨sh', upd s.pcs c pc'⟩ := by
  obtain ⟨g1, g2, g3, g4, g5, p1, p2, p3⟩ := h
  local_cases
  all_goals (constructor <;> (try simp only []) <;> grind)

set_option maxHeartbeats 1000000 in
theorem invV_call (s : St) (c : Nat) (a : Api) (h : InvV s) (sh' : Sh) (pc' : Pc)
    (hts : tstep fixed s.sh c (s.pcs c) (.call a) = some (sh', pc')) : InvV ⟨sh', upd s.pcs c pc'⟩ := by
  obtain ⟨v1, v2, v3, v3', v4, v5, v6⟩ := h
  local_cases
  all_goals (constructor <;> (try simp only []) <;> grind)

set_option maxHeartbeats 1000000 in
theorem invP_call (s : St) (c : Nat) (a : Api) (h : InvP s) (sh' : Sh) (pc' : Pc)
    (hts : tstep fixed s.sh c (s.pcs c) (.call a) = some (sh', pc')) : InvP ⟨sh', upd s.pcs c pc'⟩ := by
  obtain ⟨g1, g2, g3, g4, g5, p1, p2, p3⟩ := h
  local_cases
  all_goals (constructor <;> (try simp only []) <;> grind)

set_option maxHeartbeats 1000000 in
theorem invV_go (s : St) (c : Nat)  (h : InvV s) (sh' : Sh) (pc' : Pc)
    (hts : tstep fixed s.sh c (s.pcs c) (.go) = some (sh', pc')) : InvV ⟨sh', upd s.pcs c pc'⟩ := by
  obtain ⟨v1, v2, v3, v3', v4, v5, v6⟩ := h
  local_cases
  all_goals (constructor <;> (try simp only []) <;> grind)

set_option maxHeartbeats 1000000 in
theorem invP_go (s : St) (c : Nat)  (h : InvP s) (sh' : Sh) (pc' : Pc)
    (hts : tstep fixed s.sh c (s.pcs c) (.go) = some (sh', pc')) : InvP ⟨sh', upd s.pcs c pc'⟩ := by
  obtain ⟨g1, g2, g3, g4, g5, p1, p2, p3⟩ := h
  local_cases
  all_goals (constructor <;> (try simp only []) <;> grind)

set_option maxHeartbeats 1000000 in
theorem invV_wake (s : St) (c : Nat) (w : Wake) (h : InvV s) (sh' : Sh) (pc' : Pc)
    (hts : tstep fixed s.sh c (s.pcs c) (.wake w) = some (sh', pc')) : InvV ⟨sh', upd s.pcs c pc'⟩ := by
  obtain ⟨v1, v2, v3, v3', v4, v5, v6⟩ := h
  local_cases
  all_goals (constructor <;> (try simp only []) <;> grind)

set_option maxHeartbeats 1000000 in
theorem invP_wake (s : St) (c : Nat) (w : Wake) (h : InvP s) (sh' : Sh) (pc' : Pc)
    (hts : tstep fixed s.sh c (s.pcs c) (.wake w) = some (sh', pc')) : InvP ⟨sh', upd s.pcs c pc'⟩ := by
  obtain ⟨g1, g2, g3, g4, g5, p1, p2, p3⟩ := h
  local_cases
  all_goals (constructor <;> (try simp only []) <;> grind)

set_option maxHeartbeats 1000000 in
theorem invV_cancel (s : St) (c : Nat)  (h : InvV s) (sh' : Sh) (pc' : Pc)
    (hts : tstep fixed s.sh c (s.pcs c) (.cancel) = some (sh', pc')) : InvV ⟨sh', upd s.pcs c pc'⟩ := by
  obtain ⟨v1, v2, v3, v3', v4, v5, v6⟩ := h
  local_cases
  all_goals (constructor <;> (try simp only []) <;> grind)

set_option maxHeartbeats 1000000 in
theorem invP_cancel (s : St) (c : Nat)  (h : InvP s) (sh' : Sh) (pc' : Pc)
    (hts : tstep fixed s.sh c (s.pcs c) (.cancel) = some (sh', pc')) : InvP ⟨sh', upd s.pcs c pc'⟩ := by
  obtain ⟨g1, g2, g3, g4, g5, p1, p2, p3⟩ := h
  local_cases
  all_goals (constructor <;> (try simp only []) <;> grind)

set_option maxHeartbeats 1000000 in
theorem invV_finish (s : St) (c : Nat)  (h : InvV s) (sh' : Sh) (pc' : Pc)
    (hts : tstep fixed s.sh c (s.pcs c) (.finish) = some (sh', pc')) : InvV ⟨sh', upd s.pcs c pc'⟩ := by
  obtain ⟨v1, v2, v3, v3', v4, v5, v6⟩ := h
  local_cases
  all_goals (constructor <;> (try simp only []) <;> grind)

set_option maxHeartbeats 1000000 in
theorem invP_finish (s : St) (c : Nat)  (h : InvP s) (sh' : Sh) (pc' : Pc)
    (hts : tstep fixed s.sh c (s.pcs c) (.finish) = some (sh', pc')) : InvP ⟨sh', upd s.pcs c pc'⟩ := by
  obtain ⟨g1, g2, g3, g4, g5, p1, p2, p3⟩ := h
  local_cases
  all_goals (constructor <;> (try simp only []) <;> grind)

set_option maxHeartbeats 1000000 in
theorem invV_panic (s : St) (c : Nat)  (h : InvV s) (sh' : Sh) (pc' : Pc)
    (hts : tstep fixed s.sh c (s.pcs c) (.panic) = some (sh', pc')) : InvV ⟨sh', upd s.pcs c pc'⟩ := by
  obtain ⟨v1, v2, v3, v3', v4, v5, v6⟩ := h
  local_cases
  all_goals (constructor <;> (try simp only []) <;> grind)

set_option maxHeartbeats 1000000 in
theorem invP_panic (s : St) (c : Nat)  (h : InvP s) (sh' : Sh) (pc' : Pc)
    (hts : tstep fixed s.sh c (s.pcs c) (.panic) = some (sh', pc')) : InvP ⟨sh', upd s.pcs c pc'⟩ := by
  obtain ⟨g1, g2, g3, g4, g5, p1, p2, p3⟩ := h
  local_cases
  all_goals (constructor <;> (try simp only []) <;> grind)

set_option maxHeartbeats 1000000 in
theorem invV_drop (s : St) (c : Nat) (tp : Bool) (h : InvV s) (sh' : Sh) (pc' : Pc)
    (hts : tstep fixed s.sh c (s.pcs c) (.drop tp) = some (sh', pc')) : InvV ⟨sh', upd s.pcs c pc'⟩ := by
  obtain ⟨v1, v2, v3, v3', v4, v5, v6⟩ := h
  local_cases
  all_goals (constructor <;> (try simp only []) <;> grind)

set_option maxHeartbeats 1000000 in
theorem invP_drop (s : St) (c : Nat) (tp : Bool) (h : InvP s) (sh' : Sh) (pc' : Pc)
    (hts : tstep fixed s.sh c (s.pcs c) (.drop tp) = some (sh', pc')) : InvP ⟨sh', upd s.pcs c pc'⟩ := by
  obtain ⟨g1, g2, g3, g4, g5, p1, p2, p3⟩ := h
  local_cases
  all_goals (constructor <;> (try simp only []) <;> grind)

set_option maxHeartbeats 1000000 in
theorem invV_tacc (s : St) (c : Nat) (k : Key) (h : InvV s) (sh' : Sh) (pc' : Pc)
    (hts : tstep fixed s.sh c (s.pcs c) (.tacc k) = some (sh', pc')) : InvV ⟨sh', upd s.pcs c pc'⟩ := by
  obtain ⟨v1, v2, v3, v3', v4, v5, v6⟩ := h
  local_cases
  all_goals (constructor <;> (try simp only []) <;> grind)

set_option maxHeartbeats 1000000 in
theorem invP_tacc (s : St) (c : Nat) (k : Key) (h : InvP s) (sh' : Sh) (pc' : Pc)
    (hts : tstep fixed s.sh c (s.pcs c) (.tacc k) = some (sh', pc')) : InvP ⟨sh', upd s.pcs c pc'⟩ := by
  obtain ⟨g1, g2, g3, g4, g5, p1, p2, p3⟩ := h
  local_cases
  all_goals (constructor <;> (try simp only []) <;> grind)

theorem invV_step (s s' : St) (c : Nat) (e : Env) (h : InvV s) (hs : step fixed s c e = some s') : InvV s' := by
  obtain ⟨sh', pc', hts, rfl⟩ := step_eq fixed s s' c e hs
  cases e
  · exact invV_spawn s c _ h sh' pc' hts
  · exact invV_acc s c _ h sh' pc' hts
  · exact invV_migrate s c _ h sh' pc' hts
  · exact invV_call s c _ h sh' pc' hts
  · exact invV_go s c h sh' pc' hts
  · exact invV_wake s c _ h sh' pc' hts
  · exact invV_cancel s c h sh' pc' hts
  · exact invV_finish s c h sh' pc' hts
  · exact invV_panic s c h sh' pc' hts
  · exact invV_drop s c _ h sh' pc' hts
  · exact invV_tacc s c _ h sh' pc' hts

theorem invP_step (s s' : St) (c : Nat) (e : Env) (h : InvP s) (hs : step fixed s c e = some s') : InvP s' := by
  obtain ⟨sh', pc', hts, rfl⟩ := step_eq fixed s s' c e hs
  cases e
  · exact invP_spawn s c _ h sh' pc' hts
  · exact invP_acc s c _ h sh' pc' hts
  · exact invP_migrate s c _ h sh' pc' hts
  · exact invP_call s c _ h sh' pc' hts
  · exact invP_go s c h sh' pc' hts
  · exact invP_wake s c _ h sh' pc' hts
  · exact invP_cancel s c h sh' pc' hts
  · exact invP_finish s c h sh' pc' hts
  · exact invP_panic s c h sh' pc' hts
  · exact invP_drop s c _ h sh' pc' hts
  · exact invP_tacc s c _ h sh' pc' hts

theorem invV_run (s : St) (sched : List (Nat × Env)) (h : InvV s) : InvV (run fixed s sched) := by
  induction sched generalizing s with
  | nil => simpa [run]
  | cons te r ih =>
    obtain ⟨t, e⟩ := te
    simp only [run]
    split
    · next s' hs => exact ih _ (invV_step _ _ _ _ h hs)
    · exact ih _ h

theorem invP_run (s : St) (sched : List (Nat × Env)) (h : InvP s) : InvP (run fixed s sched) := by
  induction sched generalizing s with
  | nil => simpa [run]
  | cons te r ih =>
    obtain ⟨t, e⟩ := te
    simp only [run]
    split
    · next s' hs => exact ih _ (invP_step _ _ _ _ h hs)
    · exact ih _ h

/-- a value that is in a coroutine's map stays there (nothing but `spawn` of an idle coroutine resets a map) -/
theorem map_mono_step (s s' : St) (c' : Nat) (e : Env) (c : Cid) (k : Key) (v : Val) (hv : InvV s)
    (hm : s.sh.map c k = some v) (hs : step fixed s c' e = some s') : s'.sh.map c k = some v := by
  obtain ⟨sh', pc', hts, rfl⟩ := step_eq fixed s s' c' e hs
  have h4 := hv.v4 c
  generalize hpc : s.pcs c' = pc at hts
  cases e <;> cases pc <;> simp only [tstep, fixed, reduceCtorEq, or_false, false_or, or_self, ↓reduceIte, or_true, true_or, Bool.false_eq_true, Bool.false_and] at hts <;> (try contradiction)
  all_goals (
    repeat' (split at hts)
    all_goals (try contradiction)
    all_goals (simp only [Option.some.injEq, Prod.mk.injEq] at hts; obtain ⟨rfl, rfl⟩ := hts)
    all_goals (first | exact hm | grind))

theorem map_mono_run (s : St) (sched : List (Nat × Env)) (c : Cid) (k : Key) (v : Val) (hv : InvV s)
    (hm : s.sh.map c k = some v) : (run fixed s sched).sh.map c k = some v := by
  induction sched generalizing s with
  | nil => simpa [run]
  | cons te r ih =>
    obtain ⟨t, e⟩ := te
    simp only [run]
    split
    · next s' hs => exact ih _ (invV_step _ _ _ _ hv hs) (map_mono_step _ _ _ _ _ _ _ hv hm hs)
    · exact ih _ hv hm

theorem run_append (cfg : Cfg) (s : St) (a b : List (Nat × Env)) : run cfg s (a ++ b) = run cfg (run cfg s a) b := by
  induction a generalizing s with
  | nil => rfl
  | cons te r ih =>
    obtain ⟨t, e⟩ := te
    simp only [List.cons_append, run]
    split <;> exact ih _

end MayVerif.Local
