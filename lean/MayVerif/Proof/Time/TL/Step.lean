/-
  Preservation of the structural invariant `InvS` (Inst + Cover + freshness) by every step of the model.
-/
import MayVerif.Proof.Time.TL.Cover
namespace MayVerif.Time.TL
local notation "Tid" => Nat
local notation "Lid" => Nat

theorem tstep_roleA (sh sh' : Sh) (me : Tid) (pc pc' : Pc) (e : Env) (h : tstep sh me pc e = some (sh', pc'))
    (hs : isAdder pc' = true) : isAdder pc = true ∨ me ≠ 0 := by
  cases pc <;> simp only [tstep] at h
  all_goals first
    | (left; rfl)
    | (cases e <;> simp only [] at h <;> (try split at h) <;> (try split at h) <;> (try split at h) <;> (try split at h) <;>
        (try simp only [Option.some.injEq, Prod.mk.injEq, reduceCtorEq] at h) <;> (try contradiction) <;>
        (try (obtain ⟨_, rfl⟩ := h)) <;> simp_all [isAdder])
    | ((try split at h) <;> (try split at h) <;> (try split at h) <;>
        (try simp only [Option.some.injEq, Prod.mk.injEq, reduceCtorEq] at h) <;> (try contradiction) <;>
        (try (obtain ⟨_, rfl⟩ := h)) <;> simp_all [isAdder])

set_option maxHeartbeats 4000000 in
theorem invS_tstep (n : Nat) (sh : Sh) (pcs : Tid → Pc) (t : Tid) (e : Env) (h : InvS ⟨n, sh, pcs⟩) (sh' : Sh) (pc' : Pc)
    (hts : tstep sh t (pcs t) e = some (sh', pc')) : InvS ⟨n, sh', upd pcs t pc'⟩ := by
  open_inv
  have hroleS := tstep_role _ _ _ _ _ _ hts
  have hroleA := tstep_roleA _ _ _ _ _ _ hts
  have ht0 : isSched (pcs t) = true → t = 0 := by
    intro hs; cases Nat.decEq t 0 with
    | isTrue h => exact h
    | isFalse h => rw [hrS t h] at hs; cases hs
  have ht1 : isAdder (pcs t) = true → t ≠ 0 := by
    intro hs h0; subst h0; rw [hrA] at hs; cases hs
  have hlm : ∀ iv l, lookup sh.map iv = some l → l < sh.nextL := fun iv l h => hmap _ (lookup_mem _ _ _ h)
  generalize hpc : pcs t = pc at hts ht0 ht1 hroleS hroleA
  cases pc <;> simp only [tstep] at hts
  all_goals
    (try (cases e <;> simp only [] at hts)) <;>
    (try split at hts) <;> (try split at hts) <;> (try split at hts) <;> (try split at hts) <;>
    (try simp only [Option.some.injEq, Prod.mk.injEq, reduceCtorEq] at hts) <;> (try contradiction) <;>
    (obtain ⟨rfl, rfl⟩ := hts) <;>
    (simp only [isSched, isAdder, forall_const, reduceCtorEq, false_implies] at ht0 ht1 hroleS hroleA) <;>
    (have hr := hrefs t) <;> (simp only [hpc, refOf] at hr) <;>
    (constructor <;> simp only [] <;> (try simp only [upd, setUse, setEnts]) <;>
      grind [lookup_mem, List.mem_of_mem_erase, List.Nodup.erase, List.Nodup.mem_erase_iff, List.mem_filter, List.getElem?_eq_some_iff, List.mem_of_getElem?])

theorem invS_step (s s' : St) (t : Tid) (e : Env) (h : InvS s) (hs : step s t e = some s') : InvS s' := by
  unfold step at hs
  by_cases he : ∃ dt, e = .tick dt
  · obtain ⟨dt, rfl⟩ := he
    simp only [Option.some.injEq] at hs; subst hs
    obtain ⟨h1, h2, h3, h4, h5, h6, h7, h8, h9, h10, h11, h12, h13, h14, h15, h16⟩ := h
    exact ⟨h1, h2, h3, h4, h5, h6, h7, h8, h9, h10, h11, h12, h13, h14, h15, h16⟩
  · have hs' : (if t < s.n then
          match tstep s.sh t (s.pcs t) e with
          | none => none
          | some (sh', pc') => some ⟨s.n, sh', upd s.pcs t pc'⟩
        else none) = some s' := by
      cases e <;> first | exact hs | exact absurd ⟨_, rfl⟩ he
    split at hs'
    · cases hts : tstep s.sh t (s.pcs t) e with
      | none => simp [hts] at hs'
      | some r =>
        obtain ⟨sh', pc'⟩ := r
        simp only [hts, Option.some.injEq] at hs'
        subst hs'
        exact invS_tstep s.n s.sh s.pcs t e h sh' pc' hts
    · contradiction

theorem invS_run (s : St) (sched : List (Tid × Env)) (h : InvS s) : InvS (run s sched) := by
  induction sched generalizing s with
  | nil => exact h
  | cons p r ih =>
    obtain ⟨t, e⟩ := p
    simp only [run]
    cases hs : step s t e with
    | none => exact ih s h
    | some s' => exact ih s' (invS_step s s' t e h hs)

end MayVerif.Time.TL
