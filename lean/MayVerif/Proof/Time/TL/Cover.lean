/-
  C08 (ii): `Cover` (DESIGN G.2), first half — a non-empty interval list is never forgotten: its `in_use` counter is
  positive (somebody installed / is installing its heap entry), or the consumer is in the middle of processing it
  (after `in_use := 0`, before its deciding `fetch_add`), or the adder whose push made it non-empty is still between
  that push and its `in_use.fetch_add`.
-/
import MayVerif.Proof.Time.TL.Inv
namespace MayVerif.Time.TL
local notation "Tid" => Nat
local notation "Lid" => Nat

structure InvC (s : St) : Prop where
  roleS : ∀ t, t ≠ 0 → isSched (s.pcs t) = false
  cover : ∀ l, (s.sh.lists l).ents ≠ [] →
    0 < (s.sh.lists l).inUse ∨ procOf (s.pcs 0) = some l ∨ winOf (s.pcs (s.sh.cov l)) = some l

theorem invC_init (n now cap : Nat) : InvC (init n now cap) := by
  constructor <;> simp [init, emptyList, isSched]

/-- only actor 0 enters (and stays in) the consumer's program points -/
theorem tstep_role (sh sh' : Sh) (me : Tid) (pc pc' : Pc) (e : Env) (h : tstep sh me pc e = some (sh', pc'))
    (hs : isSched pc' = true) : isSched pc = true ∨ me = 0 := by
  cases pc <;> simp only [tstep] at h
  all_goals first
    | (left; rfl)
    | (cases e <;> simp only [] at h <;> (try split at h) <;> (try split at h) <;>
        simp only [Option.some.injEq, Prod.mk.injEq, reduceCtorEq] at h <;> (try contradiction) <;>
        (try (obtain ⟨_, rfl⟩ := h)) <;> simp_all [isSched])
    | ((try split at h) <;> (try split at h) <;>
        simp only [Option.some.injEq, Prod.mk.injEq, reduceCtorEq] at h <;> (try contradiction) <;>
        (try (obtain ⟨_, rfl⟩ := h)) <;> simp_all [isSched])

theorem invC_tstep (n : Nat) (sh : Sh) (pcs : Tid → Pc) (t : Tid) (e : Env) (h : InvC ⟨n, sh, pcs⟩) (sh' : Sh) (pc' : Pc)
    (hts : tstep sh t (pcs t) e = some (sh', pc')) : InvC ⟨n, sh', upd pcs t pc'⟩ := by
  obtain ⟨hrS, hcov⟩ := h
  simp only at hrS hcov
  have hrole := tstep_role _ _ _ _ _ _ hts
  refine ⟨?_, ?_⟩
  · intro u hu
    simp only [upd]
    split
    · next h => subst h
                cases hs : isSched pc' with
                | false => rfl
                | true => rcases hrole hs with h1 | h1
                          · rw [hrS u hu] at h1; cases h1
                          · exact absurd h1 hu
    · exact hrS u hu
  · simp only []
    have ht0 : isSched (pcs t) = true → t = 0 := by
      intro hs; cases Nat.decEq t 0 with
      | isTrue h => exact h
      | isFalse h => rw [hrS t h] at hs; cases hs
    generalize hpc : pcs t = pc at hts ht0
    cases pc <;> simp only [tstep] at hts
    all_goals
      (try (cases e <;> simp only [] at hts)) <;>
      (try split at hts) <;> (try split at hts) <;> (try split at hts) <;> (try split at hts) <;>
      (try simp only [Option.some.injEq, Prod.mk.injEq, reduceCtorEq] at hts) <;> (try contradiction) <;>
      (obtain ⟨rfl, rfl⟩ := hts) <;>
      (intro l' hne; have hc := hcov l'; simp only [isSched, forall_const] at ht0;
       simp only [upd, setUse, setEnts] at hne ⊢; grind)

end MayVerif.Time.TL
