/-
  From the structural invariant to the statements of `Props/C08.lean`: a quiet non-empty list has its (single) heap
  entry; what a returning `schedule_timer` has looked at.
-/
import MayVerif.Proof.Time.TL.RunT
import MayVerif.Proof.Time.TL.Early
namespace MayVerif.Time.TL
local notation "Tid" => Nat
local notation "Lid" => Nat

/-- nobody is in the middle of installing or processing list `l` -/
def quietFor (s : St) (l : Lid) : Prop :=
  (∀ t, winOf (s.pcs t) ≠ some l ∧ heapOf (s.pcs t) ≠ some l) ∧ procOf (s.pcs 0) ≠ some l ∧ holdOf (s.pcs 0) ≠ some l

theorem installed_of_inv (s : St) (h : InvS s) (l : Lid) (hne : (s.sh.lists l).ents ≠ []) (hq : quietFor s l) :
    0 < (s.sh.lists l).inUse ∧ s.sh.hent l ∈ s.sh.heap ∧ (s.sh.hent l).list = l ∧
      ∀ h', h' ∈ s.sh.heap → h'.list = l → h' = s.sh.hent l := by
  obtain ⟨hw, hp, hh⟩ := hq
  have hown : s.sh.owner l ≠ .none := by
    rcases h.cover l hne with h1 | h1 | h1
    · exact h1
    · exact absurd h1 hp
    · exact absurd h1 (hw _).1
  have huse : 0 < (s.sh.lists l).inUse := by
    cases hk : (s.sh.lists l).inUse with
    | zero => exact absurd ((h.use l).mpr hk) hown
    | succ k => omega
  have hheap : s.sh.owner l = .heap := by
    cases ho : s.sh.owner l with
    | none => exact absurd ho hown
    | heap => rfl
    | adder t => exact absurd (h.adder1 l t ho) (hw t).2
    | sched => exact absurd (h.sched1 l ho) hh
  obtain ⟨h1, h2⟩ := h.inHeap l hheap
  refine ⟨huse, h1, h2, ?_⟩
  intro h' hm hl
  have := (h.heapOwn h' hm).2
  rw [hl] at this
  exact this.symm

theorem sched_delay_unfold (time now : Nat) :
    (time ≤ now ∧ schedDelay time now = none) ∨ (now < time ∧ schedDelay time now = some (time - now)) := by
  simp only [schedDelay, Consts.TL_DUE_IS_LE, if_true]
  by_cases h : time > now
  · right; exact ⟨h, by rw [if_pos h]⟩
  · left; exact ⟨by omega, by rw [if_neg h]⟩

/-- what the returning step of `schedule_timer` saw: an empty heap, or an earliest entry that is not yet due -/
theorem sPeek_ret (sh sh' : Sh) (me now i : Nat) (r : Option Nat)
    (h : tstep sh me (.sPeek now) (.pick i) = some (sh', .sRet now r)) :
    sh' = sh ∧ ((sh.heap = [] ∧ r = none) ∨
      ∃ e, e ∈ sh.heap ∧ (∀ x, x ∈ sh.heap → e.time ≤ x.time) ∧ now < e.time ∧ r = some (e.time - now)) := by
  simp only [tstep] at h
  split at h
  · next hnil =>
    simp only [Option.some.injEq, Prod.mk.injEq, Pc.sRet.injEq, true_and] at h
    exact ⟨h.1.symm, Or.inl ⟨hnil, h.2.symm⟩⟩
  · next hd tl hcons =>
    split at h
    · contradiction
    · next e he =>
      split at h
      · next hmin =>
        have hmem : e ∈ sh.heap := List.mem_of_getElem? he
        have hall : ∀ x, x ∈ sh.heap → e.time ≤ x.time := by
          intro x hx
          have := List.all_eq_true.mp hmin x hx
          simpa using this
        have hsd := sched_delay_unfold e.time now
        split at h
        · next dl hdl =>
          simp only [Option.some.injEq, Prod.mk.injEq, Pc.sRet.injEq, true_and] at h
          obtain ⟨h1, h2⟩ := h
          rcases hsd with ⟨hle, hnone⟩ | ⟨hlt, hsome⟩
          · rw [hnone] at hdl; cases hdl
          · rw [hsome] at hdl
            simp only [Option.some.injEq] at hdl
            exact ⟨h1.symm, Or.inr ⟨e, hmem, hall, hlt, by rw [← h2, ← hdl]⟩⟩
        · simp only [Option.some.injEq, Prod.mk.injEq, reduceCtorEq, and_false] at h
      · contradiction

/-- the promptness statement for one state: a returning `schedule_timer(now)` leaves nothing due in a quiet list -/
theorem prompt_of_inv (s s' : St) (h : InvST s) (now i : Nat) (r : Option Nat)
    (hpc : s.pcs 0 = .sPeek now) (hstep : step s 0 (.pick i) = some s') (hret : s'.pcs 0 = .sRet now r)
    (l : Lid) (hq : quietFor s l) :
    (r = none → (s.sh.lists l).ents = []) ∧
    (s.sh.skew = false → ∀ x, x ∈ (s.sh.lists l).ents → now < x.time ∧ ∀ d, r = some d → now + d ≤ x.time) := by
  simp only [step] at hstep
  split at hstep
  case isFalse => contradiction
  next hlt =>
  split at hstep
  · contradiction
  next sh' pc' hts =>
  simp only [Option.some.injEq] at hstep
  subst hstep
  simp only [upd, if_true] at hret
  subst hret
  rw [hpc] at hts
  obtain ⟨_, hcase⟩ := sPeek_ret _ _ _ _ _ _ hts
  by_cases hne : (s.sh.lists l).ents = []
  · exact ⟨fun _ => hne, fun _ x hx => by rw [hne] at hx; cases hx⟩
  · obtain ⟨_, hin, hl, _⟩ := installed_of_inv s h.str l hne hq
    rcases hcase with ⟨hnil, _⟩ | ⟨e, hem, hmin, hlt', hr⟩
    · rw [hnil] at hin; cases hin
    · refine ⟨?_, ?_⟩
      · intro hn; rw [hn] at hr; cases hr
      intro hsk x hx
      have h1 := hmin _ hin
      have h2 := h.tim.hlow hsk _ hin x (by rw [hl]; exact hx)
      refine ⟨by omega, ?_⟩
      intro d hd
      rw [hd] at hr
      simp only [Option.some.injEq] at hr
      omega

end MayVerif.Time.TL
