/-
  C08 (ii): `tol_never_early` — a handler runs only for an entry whose deadline has passed.
  Small inductive invariant: every fired record `(now, x)` has `x.time ≤ now ≤ clock`, and the `now` argument of a
  running `schedule_timer` is a past clock reading.
-/
import MayVerif.Model.Time.TimeoutList
namespace MayVerif.Time.TL
local notation "Tid" => Nat
local notation "Lid" => Nat

/-- the `now` argument of the consumer's running `schedule_timer` call -/
def schedNow : Pc → Nat
  | .sPeek n | .sPop n _ | .sStore n _ | .sPopIf n _ | .sPeekL n _ | .sReFadd n _ _ | .sRePush n _ _
  | .sWEmpty n _ | .sWLen n _ | .sWRem n _ | .sWFadd n _ | .sWPeek n _ | .sRet n _ => n
  | _ => 0

structure InvE (s : St) : Prop where
  fired : ∀ p ∈ s.sh.fired, p.2.time ≤ p.1 ∧ p.1 ≤ s.sh.now
  pcnow : ∀ t, schedNow (s.pcs t) ≤ s.sh.now

theorem run_n (s : St) (sched : List (Tid × Env)) : (run s sched).n = s.n := by
  induction sched generalizing s with
  | nil => rfl
  | cons p r ih =>
    obtain ⟨t, e⟩ := p
    simp only [run]
    cases hs : step s t e with
    | none => exact ih s
    | some s' =>
      simp only []
      rw [ih s']
      unfold step at hs
      cases e <;> simp only [] at hs
      case tick dt => simp only [Option.some.injEq] at hs; subst hs; rfl
      all_goals
        split at hs
        · split at hs
          · contradiction
          · simp only [Option.some.injEq] at hs; subst hs; rfl
        · contradiction

/-- what one `tstep` does to the clock, the fired log and the `now` argument -/
theorem tstep_early (sh sh' : Sh) (me : Tid) (pc pc' : Pc) (e : Env) (h : tstep sh me pc e = some (sh', pc')) :
    sh'.now = sh.now ∧ (schedNow pc' = schedNow pc ∨ schedNow pc' = 0 ∨ schedNow pc' = sh.now) ∧
    (sh'.fired = sh.fired ∨ ∃ x, sh'.fired = (schedNow pc, x) :: sh.fired ∧ x.time ≤ schedNow pc) := by
  cases pc <;> simp only [tstep] at h
  all_goals first
    | (split at h <;> (try split at h) <;> (try split at h) <;> (try split at h) <;> (try split at h) <;>
        simp only [Option.some.injEq, Prod.mk.injEq, reduceCtorEq] at h <;>
        (try obtain ⟨rfl, rfl⟩ := h) <;> simp_all [schedNow, Consts.TL_POP_IS_LE])
    | (simp only [Option.some.injEq, Prod.mk.injEq] at h; obtain ⟨rfl, rfl⟩ := h; simp [schedNow])

theorem invE_init (n now cap : Nat) : InvE (init n now cap) :=
  ⟨by intro p hp; simp [init] at hp, by intro t; simp [init, schedNow]⟩

theorem invE_step (s s' : St) (t : Tid) (e : Env) (hi : InvE s) (hs : step s t e = some s') : InvE s' := by
  obtain ⟨hf, hp⟩ := hi
  unfold step at hs
  by_cases he : ∃ dt, e = .tick dt
  · obtain ⟨dt, rfl⟩ := he
    simp only [Option.some.injEq] at hs; subst hs
    exact ⟨fun p hp' => ⟨(hf p hp').1, Nat.le_trans (hf p hp').2 (Nat.le_add_right _ _)⟩,
           fun u => Nat.le_trans (hp u) (Nat.le_add_right _ _)⟩
  · have hs' : (if t < s.n then
          match tstep s.sh t (s.pcs t) e with
          | none => none
          | some (sh', pc') => some ⟨s.n, sh', upd s.pcs t pc'⟩
        else none) = some s' := by
      cases e <;> first | exact hs | exact absurd ⟨_, rfl⟩ he
    split at hs'
    · cases hts : tstep s.sh t (s.pcs t) e with
      | none => simp [hts] at hs'
      | some r =>
        obtain ⟨sh', pc'⟩ := r
        simp only [hts, Option.some.injEq] at hs'
        subst hs'
        obtain ⟨h1, h2, h3⟩ := tstep_early _ _ _ _ _ _ hts
        have hpt := hp t
        constructor
        · intro p hp'
          simp only [] at hp' ⊢
          rw [h1]
          rcases h3 with h3 | ⟨x, h3, hx⟩
          · rw [h3] at hp'; exact hf p hp'
          · rw [h3] at hp'
            rcases List.mem_cons.mp hp' with rfl | hp'
            · exact ⟨hx, hpt⟩
            · exact hf p hp'
        · intro u
          simp only [upd, h1]
          split
          · rcases h2 with h2 | h2 | h2 <;> omega
          · exact hp u
    · contradiction

theorem invE_run (s : St) (sched : List (Tid × Env)) (hi : InvE s) : InvE (run s sched) := by
  induction sched generalizing s with
  | nil => exact hi
  | cons p r ih =>
    obtain ⟨t, e⟩ := p
    simp only [run]
    cases hs : step s t e with
    | none => exact ih s hi
    | some s' => exact ih s' (invE_step s s' t e hi hs)

end MayVerif.Time.TL
