/-
  Timing invariant of the `TimeOutList` model (on top of the structural one): entry deadlines are bounded by
  `clock + interval`; and, as long as the clock never moved while an adder was between reading it and linking its
  entry (`skew = false`), every list is in deadline order and every heap entry / pending (re-)install carries a time
  that is a lower bound of all deadlines queued in its list.
-/
import MayVerif.Proof.Time.TL.Step
namespace MayVerif.Time.TL
local notation "Tid" => Nat
local notation "Lid" => Nat

/-- what a running `add_timer` computed from the clock -/
@[grind] def addOf : Pc → Option Add
  | .idle => none
  | .aGet a => some a
  | .aW a => some a
  | .aWNew a => some a
  | .aWIns a _ => some a
  | .aPush a _ => some a
  | .aFadd a _ => some a
  | .aHeap a _ => some a
  | .aRet _ => none
  | .sPeek _ => none
  | .sPop _ _ => none
  | .sStore _ _ => none
  | .sPopIf _ _ => none
  | .sPeekL _ _ => none
  | .sReFadd _ _ _ => none
  | .sRePush _ _ _ => none
  | .sWEmpty _ _ => none
  | .sWLen _ _ => none
  | .sWRem _ _ => none
  | .sWFadd _ _ => none
  | .sWPeek _ _ => none
  | .sRet _ _ => none
  | .rRet _ => none

/-- ... and has not linked yet -/
@[grind] def preOf : Pc → Option Add
  | .idle => none
  | .aGet a => some a
  | .aW a => some a
  | .aWNew a => some a
  | .aWIns _ _ => none
  | .aPush a _ => some a
  | .aFadd _ _ => none
  | .aHeap _ _ => none
  | .aRet _ => none
  | .sPeek _ => none
  | .sPop _ _ => none
  | .sStore _ _ => none
  | .sPopIf _ _ => none
  | .sPeekL _ _ => none
  | .sReFadd _ _ _ => none
  | .sRePush _ _ _ => none
  | .sWEmpty _ _ => none
  | .sWLen _ _ => none
  | .sWRem _ _ => none
  | .sWFadd _ _ => none
  | .sWPeek _ _ => none
  | .sRet _ _ => none
  | .rRet _ => none

/-- linked as the head of list `l`, heap entry not pushed yet -/
@[grind] def postOf : Pc → Option (Add × Lid)
  | .idle => none
  | .aGet _ => none
  | .aW _ => none
  | .aWNew _ => none
  | .aWIns a l => some (a, l)
  | .aPush _ _ => none
  | .aFadd a l => some (a, l)
  | .aHeap a l => some (a, l)
  | .aRet _ => none
  | .sPeek _ => none
  | .sPop _ _ => none
  | .sStore _ _ => none
  | .sPopIf _ _ => none
  | .sPeekL _ _ => none
  | .sReFadd _ _ _ => none
  | .sRePush _ _ _ => none
  | .sWEmpty _ _ => none
  | .sWLen _ _ => none
  | .sWRem _ _ => none
  | .sWFadd _ _ => none
  | .sWPeek _ _ => none
  | .sRet _ _ => none
  | .rRet _ => none

/-- the list an adder works on -/
@[grind] def onOf : Pc → Option (Add × Lid)
  | .idle => none
  | .aGet _ => none
  | .aW _ => none
  | .aWNew _ => none
  | .aWIns a l => some (a, l)
  | .aPush a l => some (a, l)
  | .aFadd a l => some (a, l)
  | .aHeap a l => some (a, l)
  | .aRet _ => none
  | .sPeek _ => none
  | .sPop _ _ => none
  | .sStore _ _ => none
  | .sPopIf _ _ => none
  | .sPeekL _ _ => none
  | .sReFadd _ _ _ => none
  | .sRePush _ _ _ => none
  | .sWEmpty _ _ => none
  | .sWLen _ _ => none
  | .sWRem _ _ => none
  | .sWFadd _ _ => none
  | .sWPeek _ _ => none
  | .sRet _ _ => none
  | .rRet _ => none

/-- the consumer re-installs list `e.list` with time `t` -/
@[grind] def reOf : Pc → Option (HEnt × Nat)
  | .idle => none
  | .aGet _ => none
  | .aW _ => none
  | .aWNew _ => none
  | .aWIns _ _ => none
  | .aPush _ _ => none
  | .aFadd _ _ => none
  | .aHeap _ _ => none
  | .aRet _ => none
  | .sPeek _ => none
  | .sPop _ _ => none
  | .sStore _ _ => none
  | .sPopIf _ _ => none
  | .sPeekL _ _ => none
  | .sReFadd _ e t => some (e, t)
  | .sRePush _ e t => some (e, t)
  | .sWEmpty _ _ => none
  | .sWLen _ _ => none
  | .sWRem _ _ => none
  | .sWFadd _ _ => none
  | .sWPeek _ _ => none
  | .sRet _ _ => none
  | .rRet _ => none

def sortedT (es : List Ent) : Prop := es.Pairwise (fun x y => x.time ≤ y.time)

structure InvT (s : St) : Prop where
  rng : ∀ t, s.n ≤ t → s.pcs t = .idle
  a0 : ∀ t a, addOf (s.pcs t) = some a → a.time ≤ s.sh.now + a.iv
  a1 : s.sh.skew = false → ∀ t a, preOf (s.pcs t) = some a → a.time = s.sh.now + a.iv
  e1 : ∀ l x, x ∈ (s.sh.lists l).ents → x.time ≤ s.sh.now + (s.sh.lists l).iv
  srt : s.sh.skew = false → ∀ l, sortedT (s.sh.lists l).ents
  hlow : s.sh.skew = false → ∀ h, h ∈ s.sh.heap → ∀ x, x ∈ (s.sh.lists h.list).ents → h.time ≤ x.time
  hb : ∀ h, h ∈ s.sh.heap → h.time ≤ s.sh.now + (s.sh.lists h.list).iv
  plow : s.sh.skew = false → ∀ t a l, postOf (s.pcs t) = some (a, l) → ∀ x, x ∈ (s.sh.lists l).ents → a.time ≤ x.time
  rlow : s.sh.skew = false → ∀ e τ, reOf (s.pcs 0) = some (e, τ) → ∀ x, x ∈ (s.sh.lists e.list).ents → τ ≤ x.time
  rb : ∀ e τ, reOf (s.pcs 0) = some (e, τ) → τ ≤ s.sh.now + (s.sh.lists e.list).iv
  mapIv : ∀ p, p ∈ s.sh.map → (s.sh.lists p.2).iv = p.1
  pcIv : ∀ t a l, onOf (s.pcs t) = some (a, l) → (s.sh.lists l).iv = a.iv

theorem invT_init (n now cap : Nat) : InvT (init n now cap) := by
  constructor <;> simp [init, emptyList, addOf, preOf, postOf, onOf, reOf, sortedT]

theorem sorted_append (es : List Ent) (x : Ent) (h : sortedT es) (hx : ∀ y, y ∈ es → y.time ≤ x.time) : sortedT (es ++ [x]) := by
  unfold sortedT at *
  rw [List.pairwise_append]
  refine ⟨h, List.pairwise_singleton _ _, ?_⟩
  intro a ha b hb
  simp at hb; subst hb; exact hx a ha

theorem sorted_singleton (x : Ent) : sortedT [x] := List.pairwise_singleton _ _

theorem sorted_tail (x : Ent) (r : List Ent) (h : sortedT (x :: r)) : sortedT r ∧ ∀ y, y ∈ r → x.time ≤ y.time := by
  unfold sortedT at *
  rw [List.pairwise_cons] at h
  exact ⟨h.2, h.1⟩

theorem sorted_filter (es : List Ent) (p : Ent → Bool) (h : sortedT es) : sortedT (es.filter p) := by
  unfold sortedT at *
  exact List.Pairwise.filter p h

theorem sorted_head_le (x : Ent) (r : List Ent) (h : sortedT (x :: r)) (y : Ent) (hy : y ∈ x :: r) : x.time ≤ y.time := by
  rcases List.mem_cons.mp hy with rfl | hy
  · exact Nat.le_refl _
  · exact (sorted_tail x r h).2 y hy

theorem postOf_facts (pc : Pc) (a : Add) (l : Lid) (h : postOf pc = some (a, l)) :
    addOf pc = some a ∧ onOf pc = some (a, l) ∧ refOf pc = some l ∧ preOf pc = none := by
  cases pc <;> simp_all [postOf, addOf, onOf, refOf, preOf]

theorem onOf_facts (pc : Pc) (a : Add) (l : Lid) (h : onOf pc = some (a, l)) : addOf pc = some a ∧ refOf pc = some l := by
  cases pc <;> simp_all [addOf, onOf, refOf]

theorem reOf_facts (pc : Pc) (e : HEnt) (τ : Nat) (h : reOf pc = some (e, τ)) : refOf pc = some e.list ∧ isSched pc = true := by
  cases pc <;> simp_all [reOf, refOf, isSched]

theorem preOf_facts (pc : Pc) (a : Add) (h : preOf pc = some a) : addOf pc = some a := by
  cases pc <;> simp_all [preOf, addOf]

end MayVerif.Time.TL
