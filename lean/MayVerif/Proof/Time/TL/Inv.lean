/-
  Structural invariant of the `TimeOutList` model: who is responsible for a list's heap entry (`Inst`), and that a
  non-empty list always has somebody responsible or is inside a window that establishes it (`Cover`, DESIGN G.2).
-/
import MayVerif.Model.Time.TimeoutList
namespace MayVerif.Time.TL
local notation "Tid" => Nat
local notation "Lid" => Nat

/-- adder in the window between making its list non-empty and `in_use.fetch_add` -/
@[grind] def winOf : Pc → Option Lid
  | .idle => none
  | .aGet _ => none
  | .aW _ => none
  | .aWNew _ => none
  | .aWIns _ l => some l
  | .aPush _ _ => none
  | .aFadd _ l => some l
  | .aHeap _ _ => none
  | .aRet _ => none
  | .sPeek _ => none
  | .sPop _ _ => none
  | .sStore _ _ => none
  | .sPopIf _ _ => none
  | .sPeekL _ _ => none
  | .sReFadd _ _ _ => none
  | .sRePush _ _ _ => none
  | .sWEmpty _ _ => none
  | .sWLen _ _ => none
  | .sWRem _ _ => none
  | .sWFadd _ _ => none
  | .sWPeek _ _ => none
  | .sRet _ _ => none
  | .rRet _ => none

/-- adder that won `in_use.fetch_add` and is about to push the heap entry -/
@[grind] def heapOf : Pc → Option Lid
  | .idle => none
  | .aGet _ => none
  | .aW _ => none
  | .aWNew _ => none
  | .aWIns _ _ => none
  | .aPush _ _ => none
  | .aFadd _ _ => none
  | .aHeap _ l => some l
  | .aRet _ => none
  | .sPeek _ => none
  | .sPop _ _ => none
  | .sStore _ _ => none
  | .sPopIf _ _ => none
  | .sPeekL _ _ => none
  | .sReFadd _ _ _ => none
  | .sRePush _ _ _ => none
  | .sWEmpty _ _ => none
  | .sWLen _ _ => none
  | .sWRem _ _ => none
  | .sWFadd _ _ => none
  | .sWPeek _ _ => none
  | .sRet _ _ => none
  | .rRet _ => none

/-- the consumer is processing this list: after `in_use := 0`, before its deciding `fetch_add` -/
@[grind] def procOf : Pc → Option Lid
  | .idle => none
  | .aGet _ => none
  | .aW _ => none
  | .aWNew _ => none
  | .aWIns _ _ => none
  | .aPush _ _ => none
  | .aFadd _ _ => none
  | .aHeap _ _ => none
  | .aRet _ => none
  | .sPeek _ => none
  | .sPop _ _ => none
  | .sStore _ _ => none
  | .sPopIf _ e => some e.list
  | .sPeekL _ e => some e.list
  | .sReFadd _ e _ => some e.list
  | .sRePush _ _ _ => none
  | .sWEmpty _ e => some e.list
  | .sWLen _ _ => none
  | .sWRem _ _ => none
  | .sWFadd _ e => some e.list
  | .sWPeek _ _ => none
  | .sRet _ _ => none
  | .rRet _ => none

/-- the consumer holds the responsibility: popped the entry (before `in_use := 0`) or won the re-install -/
@[grind] def holdOf : Pc → Option Lid
  | .idle => none
  | .aGet _ => none
  | .aW _ => none
  | .aWNew _ => none
  | .aWIns _ _ => none
  | .aPush _ _ => none
  | .aFadd _ _ => none
  | .aHeap _ _ => none
  | .aRet _ => none
  | .sPeek _ => none
  | .sPop _ _ => none
  | .sStore _ e => some e.list
  | .sPopIf _ _ => none
  | .sPeekL _ _ => none
  | .sReFadd _ _ _ => none
  | .sRePush _ e _ => some e.list
  | .sWEmpty _ _ => none
  | .sWLen _ _ => none
  | .sWRem _ _ => none
  | .sWFadd _ _ => none
  | .sWPeek _ e => some e.list
  | .sRet _ _ => none
  | .rRet _ => none

/-- the list a pc refers to -/
@[grind] def refOf : Pc → Option Lid
  | .idle => none
  | .aGet _ => none
  | .aW _ => none
  | .aWNew _ => none
  | .aWIns _ l => some l
  | .aPush _ l => some l
  | .aFadd _ l => some l
  | .aHeap _ l => some l
  | .aRet _ => none
  | .sPeek _ => none
  | .sPop _ e => some e.list
  | .sStore _ e => some e.list
  | .sPopIf _ e => some e.list
  | .sPeekL _ e => some e.list
  | .sReFadd _ e _ => some e.list
  | .sRePush _ e _ => some e.list
  | .sWEmpty _ e => some e.list
  | .sWLen _ e => some e.list
  | .sWRem _ e => some e.list
  | .sWFadd _ e => some e.list
  | .sWPeek _ e => some e.list
  | .sRet _ _ => none
  | .rRet _ => none

/-- program points of the consumer -/
@[grind] def isSched : Pc → Bool
  | .idle => false
  | .aGet _ => false
  | .aW _ => false
  | .aWNew _ => false
  | .aWIns _ _ => false
  | .aPush _ _ => false
  | .aFadd _ _ => false
  | .aHeap _ _ => false
  | .aRet _ => false
  | .sPeek _ => true
  | .sPop _ _ => true
  | .sStore _ _ => true
  | .sPopIf _ _ => true
  | .sPeekL _ _ => true
  | .sReFadd _ _ _ => true
  | .sRePush _ _ _ => true
  | .sWEmpty _ _ => true
  | .sWLen _ _ => true
  | .sWRem _ _ => true
  | .sWFadd _ _ => true
  | .sWPeek _ _ => true
  | .sRet _ _ => true
  | .rRet _ => true

/-- program points of `add_timer` -/
@[grind] def isAdder : Pc → Bool
  | .idle => false
  | .aGet _ => true
  | .aW _ => true
  | .aWNew _ => true
  | .aWIns _ _ => true
  | .aPush _ _ => true
  | .aFadd _ _ => true
  | .aHeap _ _ => true
  | .aRet _ => true
  | .sPeek _ => false
  | .sPop _ _ => false
  | .sStore _ _ => false
  | .sPopIf _ _ => false
  | .sPeekL _ _ => false
  | .sReFadd _ _ _ => false
  | .sRePush _ _ _ => false
  | .sWEmpty _ _ => false
  | .sWLen _ _ => false
  | .sWRem _ _ => false
  | .sWFadd _ _ => false
  | .sWPeek _ _ => false
  | .sRet _ _ => false
  | .rRet _ => false

/-- the heap entry the consumer has peeked and is about to pop -/
@[grind] def popOf : Pc → Option HEnt
  | .idle => none
  | .aGet _ => none
  | .aW _ => none
  | .aWNew _ => none
  | .aWIns _ _ => none
  | .aPush _ _ => none
  | .aFadd _ _ => none
  | .aHeap _ _ => none
  | .aRet _ => none
  | .sPeek _ => none
  | .sPop _ e => some e
  | .sStore _ _ => none
  | .sPopIf _ _ => none
  | .sPeekL _ _ => none
  | .sReFadd _ _ _ => none
  | .sRePush _ _ _ => none
  | .sWEmpty _ _ => none
  | .sWLen _ _ => none
  | .sWRem _ _ => none
  | .sWFadd _ _ => none
  | .sWPeek _ _ => none
  | .sRet _ _ => none
  | .rRet _ => none

structure InvS (s : St) : Prop where
  roleS : ∀ t, t ≠ 0 → isSched (s.pcs t) = false
  roleA : isAdder (s.pcs 0) = false
  use : ∀ l, s.sh.owner l = .none ↔ (s.sh.lists l).inUse = 0
  inHeap : ∀ l, s.sh.owner l = .heap → s.sh.hent l ∈ s.sh.heap ∧ (s.sh.hent l).list = l
  heapOwn : ∀ h, h ∈ s.sh.heap → s.sh.owner h.list = .heap ∧ s.sh.hent h.list = h
  nodup : s.sh.heap.Nodup
  adder1 : ∀ l t, s.sh.owner l = .adder t → heapOf (s.pcs t) = some l
  adder2 : ∀ l t, heapOf (s.pcs t) = some l → s.sh.owner l = .adder t
  sched1 : ∀ l, s.sh.owner l = .sched → holdOf (s.pcs 0) = some l
  sched2 : ∀ l, holdOf (s.pcs 0) = some l → s.sh.owner l = .sched
  popIn : ∀ e, popOf (s.pcs 0) = some e → e ∈ s.sh.heap
  cover : ∀ l, (s.sh.lists l).ents ≠ [] → s.sh.owner l ≠ .none ∨ procOf (s.pcs 0) = some l ∨ winOf (s.pcs (s.sh.cov l)) = some l
  fresh : ∀ l, s.sh.nextL ≤ l → (s.sh.lists l).ents = [] ∧ (s.sh.lists l).inUse = 0
  refs : ∀ t l, refOf (s.pcs t) = some l → l < s.sh.nextL
  mapLt : ∀ p, p ∈ s.sh.map → p.2 < s.sh.nextL
  heapLt : ∀ h, h ∈ s.sh.heap → h.list < s.sh.nextL

theorem invS_init (n now cap : Nat) : InvS (init n now cap) := by
  constructor <;> simp [init, emptyList, isSched, isAdder, heapOf, holdOf, popOf, refOf]

theorem lookup_mem (m : List (Nat × Lid)) (iv : Nat) (l : Lid) (h : lookup m iv = some l) : (iv, l) ∈ m := by
  unfold lookup at h
  cases hf : m.find? (·.1 == iv) with
  | none => simp [hf] at h
  | some p =>
    simp [hf] at h
    have h1 := List.find?_some hf
    have h2 := List.mem_of_find?_eq_some hf
    simp at h1
    obtain ⟨a, b⟩ := p
    simp at h h1
    subst h; subst h1
    exact h2

set_option hygiene false in
macro "open_inv" : tactic => `(tactic|
  (obtain ⟨hrS, hrA, huse, hinH, hhO, hnd, had1, had2, hsc1, hsc2, hpop, hcov, hfr, hrefs, hmap, hhlt⟩ := h
   simp only at hrS hrA huse hinH hhO hnd had1 had2 hsc1 hsc2 hpop hcov hfr hrefs hmap hhlt))

set_option hygiene false in
macro "fin" : tactic => `(tactic|
  (constructor <;> simp only [] <;> first
    | grind [List.nodup_cons, List.mem_cons, setUse, setEnts]
    | grind (splits := 30) [List.nodup_cons, List.mem_cons, setUse, setEnts]))

end MayVerif.Time.TL
