/-
  Clock steps and whole runs: the structural and the timing invariant hold in every reachable state.
-/
import MayVerif.Proof.Time.TL.StepT

namespace MayVerif.Time.TL
local notation "Tid" => Nat
local notation "Lid" => Nat

theorem preOf_prePush (pc : Pc) (a : Add) (h : preOf pc = some a) : prePush pc = true := by
  cases pc <;> simp_all [preOf, prePush]

theorem anyPre_false (n : Nat) (pcs : Tid → Pc) (h : anyPre n pcs = false) (t : Tid) (ht : t < n) : prePush (pcs t) = false := by
  unfold anyPre at h
  rw [List.any_eq_false] at h
  have := h t (List.mem_range.mpr ht)
  simpa using this

/-- both invariants together -/
structure InvST (s : St) : Prop where
  str : InvS s
  tim : InvT s

theorem invST_init (n now cap : Nat) : InvST (init n now cap) := ⟨invS_init n now cap, invT_init n now cap⟩

theorem invST_step (s s' : St) (t : Tid) (e : Env) (h : InvST s) (hs : step s t e = some s') : InvST s' := by
  refine ⟨invS_step s s' t e h.str hs, ?_⟩
  obtain ⟨hS, hT⟩ := h
  unfold step at hs
  by_cases he : ∃ dt, e = .tick dt
  · obtain ⟨dt, rfl⟩ := he
    simp only [Option.some.injEq] at hs; subst hs
    obtain ⟨hrng, ha0, ha1, he1, hsrt, hhlow, hhb, hplow, hrlow, hrb, hmapIv, hpcIv⟩ := hT
    have hsk : (s.sh.skew || (dt != 0 && anyPre s.n s.pcs)) = false → s.sh.skew = false ∧ (dt = 0 ∨ anyPre s.n s.pcs = false) := by
      intro h
      simp only [Bool.or_eq_false_iff, Bool.and_eq_false_iff, bne_eq_false_iff_eq] at h
      exact h
    refine ⟨hrng, ?_, ?_, ?_, ?_, ?_, ?_, ?_, ?_, ?_, hmapIv, hpcIv⟩ <;> simp only []
    · intro u a h; have := ha0 u a h; omega
    · intro hk u a h
      obtain ⟨h1, h2⟩ := hsk hk
      rcases h2 with h2 | h2
      · subst h2; simpa using ha1 h1 u a h
      · exfalso
        by_cases hu : u < s.n
        · have := anyPre_false _ _ h2 u hu
          rw [preOf_prePush _ _ h] at this; cases this
        · rw [hrng u (by omega)] at h; simp [preOf] at h
    · intro l x h; have := he1 l x h; omega
    · intro hk; exact hsrt (hsk hk).1
    · intro hk; exact hhlow (hsk hk).1
    · intro h hm; have := hhb h hm; omega
    · intro hk; exact hplow (hsk hk).1
    · intro hk; exact hrlow (hsk hk).1
    · intro e τ h; have := hrb e τ h; omega
  · have hs' : (if t < s.n then
          match tstep s.sh t (s.pcs t) e with
          | none => none
          | some (sh', pc') => some ⟨s.n, sh', upd s.pcs t pc'⟩
        else none) = some s' := by
      cases e <;> first | exact hs | exact absurd ⟨_, rfl⟩ he
    split at hs'
    · next hlt =>
      cases hts : tstep s.sh t (s.pcs t) e with
      | none => simp [hts] at hs'
      | some r =>
        obtain ⟨sh', pc'⟩ := r
        simp only [hts, Option.some.injEq] at hs'
        subst hs'
        exact invT_tstep s.n s.sh s.pcs t e hS hT hlt sh' pc' hts
    · contradiction

theorem invST_run (s : St) (sched : List (Tid × Env)) (h : InvST s) : InvST (run s sched) := by
  induction sched generalizing s with
  | nil => exact h
  | cons p r ih =>
    obtain ⟨t, e⟩ := p
    simp only [run]
    cases hs : step s t e with
    | none => exact ih s h
    | some s' => exact ih s' (invST_step s s' t e h hs)

end MayVerif.Time.TL
