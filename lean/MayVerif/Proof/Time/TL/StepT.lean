/-
  Preservation of the timing invariant `InvT` by every step (given the structural invariant `InvS`).
-/
import MayVerif.Proof.Time.TL.InvT
namespace MayVerif.Time.TL
local notation "Tid" => Nat
local notation "Lid" => Nat

set_option maxHeartbeats 4000000 in
theorem invT_tstep (n : Nat) (sh : Sh) (pcs : Tid → Pc) (t : Tid) (e : Env) (hS : InvS ⟨n, sh, pcs⟩) (h : InvT ⟨n, sh, pcs⟩)
    (hlt : t < n) (sh' : Sh) (pc' : Pc)
    (hts : tstep sh t (pcs t) e = some (sh', pc')) : InvT ⟨n, sh', upd pcs t pc'⟩ := by
  obtain ⟨hrng, ha0, ha1, he1, hsrt, hhlow, hhb, hplow, hrlow, hrb, hmapIv, hpcIv⟩ := h
  simp only at hrng ha0 ha1 he1 hsrt hhlow hhb hplow hrlow hrb hmapIv hpcIv
  have hrS := hS.roleS
  have hrA := hS.roleA
  have hrefs := hS.refs
  have hfr := hS.fresh
  have hhlt := hS.heapLt
  have hpop := hS.popIn
  have hmapLt := hS.mapLt
  simp only at hrS hrA hrefs hfr hhlt hpop hmapLt
  have ht0 : isSched (pcs t) = true → t = 0 := by
    intro hs; cases Nat.decEq t 0 with
    | isTrue h => exact h
    | isFalse h => rw [hrS t h] at hs; cases hs
  have ht1 : isAdder (pcs t) = true → t ≠ 0 := by
    intro hs h0; subst h0; rw [hrA] at hs; cases hs
  have hlm : ∀ iv l, lookup sh.map iv = some l → (sh.lists l).iv = iv := fun iv l h => hmapIv _ (lookup_mem _ _ _ h)
  have hon : ∀ u a l, onOf (pcs u) = some (a, l) → l < sh.nextL := fun u a l h => hrefs u l (onOf_facts _ _ _ h).2
  have hre : ∀ u e τ, reOf (pcs u) = some (e, τ) → e.list < sh.nextL := fun u e τ h => hrefs u _ (reOf_facts _ _ _ h).1
  generalize hpc : pcs t = pc at hts ht0 ht1
  cases pc <;> simp only [tstep] at hts
  all_goals
    (try (cases e <;> simp only [] at hts)) <;>
    (try split at hts) <;> (try split at hts) <;> (try split at hts) <;> (try split at hts) <;>
    (try simp only [Option.some.injEq, Prod.mk.injEq, reduceCtorEq] at hts) <;> (try contradiction) <;>
    (obtain ⟨rfl, rfl⟩ := hts) <;>
    (simp only [isSched, isAdder, forall_const, reduceCtorEq, false_implies] at ht0 ht1) <;>
    (have hr := hrefs t) <;> (simp only [hpc, refOf] at hr) <;>
    (constructor <;> simp only [] <;> (try simp only [upd, setUse, setEnts]) <;>
      grind [sorted_singleton, postOf_facts, onOf_facts, reOf_facts, preOf_facts, sorted_append, sorted_tail, sorted_filter, sorted_head_le, List.mem_of_mem_erase, List.mem_singleton, Consts.TL_POP_IS_LE])

end MayVerif.Time.TL
