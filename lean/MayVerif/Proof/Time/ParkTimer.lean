/-
  Invariants of the small subscribe/timer model (`Model/Time/ParkTimer.lean`).
-/
import MayVerif.Model.Time.ParkTimer
namespace MayVerif.Time.PT
set_option linter.unusedSimpArgs false

/-- generic: an invariant of `step` is an invariant of `run` -/
theorem run_inv (P : S → Prop) (hstep : ∀ s s' a, P s → step s a = some s' → P s') (s : S) (sched : List Act) (h : P s) :
    P (run s sched) := by
  induction sched generalizing s with
  | nil => exact h
  | cons a r ih =>
    simp only [run]
    cases hs : step s a with
    | none => exact ih s h
    | some s' => exact ih s' (hstep s s' a h hs)

def early3 : KPc → Bool | .kA | .kG | .kP => true | _ => false

/-- pinned order (arm, then publish) -/
structure InvP (s : S) : Prop where
  ord : s.order = .pinned
  noR : s.kpc ≠ .kR
  pre : early3 s.kpc = true → s.cpc = .susp ∧ s.slot = false
  slot : s.slot = true → s.cpc = .susp
  noOld : s.armedOld = false ∧ s.early = false ∧ s.handle ≠ .old
  hcur : s.armedCur = true → s.handle = .cur
  armed : s.cpc = .susp → s.kpc ≠ .kA → (s.armedCur = true ∨ s.lostFire = true)

theorem invP_step (s s' : S) (a : Act) (h : InvP s) (hs : step s a = some s') : InvP s' := by
  obtain ⟨h1, h2, h3, h4, h5, h6, h7⟩ := h
  obtain ⟨order, slot, st, wk, handle, armedCur, armedOld, dueCur, cpc, kpc, upc, rounds, early, lostFire⟩ := s
  simp only at h1 h2 h3 h4 h5 h6 h7
  subst h1
  cases a <;> cases cpc <;> cases kpc <;> cases upc <;> simp only [step] at hs <;>
    (try split at hs) <;> (try (simp only [Option.some.injEq, reduceCtorEq] at hs)) <;> (try contradiction) <;>
    (try subst hs) <;> simp_all [early3, kNext, kFirst, inRound] <;>
    (constructor <;> simp_all [early3, kNext, kFirst, inRound] <;> (try (cases slot <;> simp_all)))

theorem invP_init : InvP { order := .pinned } := by
  constructor <;> simp [early3]

end MayVerif.Time.PT

namespace MayVerif.Time.PT
set_option linter.unusedSimpArgs false

def prePub : KPc → Bool | .kG | .kP => true | _ => false
def postArm : KPc → Bool | .kR | .kC | .kD | .none => true | _ => false
def holdsWk : KPc → Bool | .kP | .kA | .kR | .kC | .kD => true | _ => false
def outRound : CPc → Bool | .idle | .spin => true | _ => false

/-- candidate fix: publish, arm, then remove the timer again if the coroutine is already gone -/
structure InvR (s : S) : Prop where
  ord : s.order = .recheck
  pre : prePub s.kpc = true → s.cpc = .susp ∧ s.slot = false
  wk : holdsWk s.kpc = true → s.wk = true
  slot : s.slot = true → s.cpc = .susp
  pub : s.cpc = .susp → prePub s.kpc = false → s.slot = true
  armed : s.cpc = .susp → postArm s.kpc = true → s.armedCur = true
  old : s.armedOld = true → s.kpc = .kR ∧ s.handle = .old ∧ outRound s.cpc = true
  hcur : s.armedCur = true → s.handle = .cur
  out : outRound s.cpc = true → s.armedCur = false
  noEarly : s.early = false

theorem invR_step (s s' : S) (a : Act) (h : InvR s) (hs : step s a = some s') : InvR s' := by
  obtain ⟨h1, h2, h3, h4, h5, h6, h7, h8, h9, h10⟩ := h
  obtain ⟨order, slot, st, wk, handle, armedCur, armedOld, dueCur, cpc, kpc, upc, rounds, early, lostFire⟩ := s
  simp only at h1 h2 h3 h4 h5 h6 h7 h8 h9 h10
  subst h1
  cases a <;> cases cpc <;> cases kpc <;> cases upc <;> simp only [step] at hs <;>
    (try split at hs) <;> (try (simp only [Option.some.injEq, reduceCtorEq] at hs)) <;> (try contradiction) <;>
    (try subst hs) <;> simp_all [prePub, postArm, holdsWk, outRound, kNext, kFirst, inRound] <;>
    (constructor <;> simp_all [prePub, postArm, holdsWk, outRound, kNext, kFirst, inRound] <;> (try (cases slot <;> simp_all)))

theorem invR_init : InvR { order := .recheck } := by
  constructor <;> simp [prePub, postArm, holdsWk, outRound]

end MayVerif.Time.PT
