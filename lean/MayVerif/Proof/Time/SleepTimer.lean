/-
  Invariant of the small sleep/timer model (`Model/Time/SleepTimer.lean`) for the order of the code: the coroutine is in
  the slot before the entry exists, so a fired entry always finds it.
-/
import MayVerif.Model.Time.SleepTimer
namespace MayVerif.Time.SLT
set_option linter.unusedSimpArgs false

/-- generic: an invariant of `step` is an invariant of `run` -/
theorem run_inv (P : S → Prop) (hstep : ∀ s s' a, P s → step s a = some s' → P s') (s : S) (sched : List Act) (h : P s) :
    P (run s sched) := by
  induction sched generalizing s with
  | nil => exact h
  | cons a r ih =>
    simp only [run]
    cases hs : step s a with
    | none => exact ih s h
    | some s' => exact ih s' (hstep s s' a h hs)

/-- the tail has published the coroutine / armed the entry -/
def published : KPc → Bool | .kA | .kC | .none => true | .kP => false
def afterArm : KPc → Bool | .kC | .none => true | _ => false

/-- publish-then-arm (the code) -/
structure InvS (s : S) : Prop where
  ord : s.order = .publishFirst
  pre : s.kpc = .kP → s.cpc = .susp ∧ s.slot = false ∧ s.armed = false
  slot : s.slot = true → s.cpc = .susp
  pub : s.cpc = .susp → published s.kpc = true → s.slot = true
  arm : s.cpc = .susp → afterArm s.kpc = true → s.armed = true
  armed : s.armed = true → s.slot = true
  tail : s.kpc = .kA → s.cpc = .susp ∧ s.armed = false
  res : s.cpc = .run → s.due = true
  noEarly : s.early = false
  noLost : s.lostFire = false

theorem invS_step (s s' : S) (a : Act) (h : InvS s) (hs : step s a = some s') : InvS s' := by
  obtain ⟨h1, h2, h3, h4, h5, h6, h7, h8, h9, h10⟩ := h
  obtain ⟨order, slot, armed, due, cpc, kpc, sleeps, early, lostFire⟩ := s
  simp only at h1 h2 h3 h4 h5 h6 h7 h8 h9 h10
  subst h1
  cases a <;> cases cpc <;> cases kpc <;> simp only [step] at hs <;>
    (try split at hs) <;> (try (simp only [Option.some.injEq, reduceCtorEq] at hs)) <;> (try contradiction) <;>
    (try subst hs) <;> simp_all [published, afterArm, kNext, kFirst] <;>
    (constructor <;> simp_all [published, afterArm, kNext, kFirst] <;> (try (cases slot <;> simp_all)))

theorem invS_init : InvS { order := .publishFirst } := by
  constructor <;> simp [published, afterArm]

end MayVerif.Time.SLT
