/-
  Helper lemmas for C08 (i): rounding of `divCeil`, the stored word of `toMillis`, decoding by `fromMillis`.
-/
import MayVerif.Model.Time.Dur
namespace MayVerif.Time
open Consts

def NS_PER_MS : Nat := 1000000

/-- the longest duration the stored word can hold: `usize::MAX` milliseconds (584 million years) -/
def MAX_STORABLE : Nat := USIZE_MAX * NS_PER_MS

theorem usize_max_val : USIZE_MAX = 18446744073709551615 := by decide
theorem u64_val : U64 = 18446744073709551616 := by decide

/-- `div_ceil` rounds up to the next multiple, by less than one unit -/
theorem divCeil_bounds (a u : Nat) (hu : 0 < u) : a ≤ divCeil a u * u ∧ divCeil a u * u < a + u := by
  have h1 := Nat.div_add_mod a u
  have h2 := Nat.mod_lt a hu
  unfold divCeil
  split
  · rw [Nat.add_mul, Nat.mul_comm (a / u) u]; omega
  · rw [Nat.mul_comm (a / u) u]; omega

theorem divCeil_ms (d : Nat) : d ≤ divCeil d 1000000 * 1000000 ∧ divCeil d 1000000 * 1000000 < d + 1000000 :=
  divCeil_bounds d 1000000 (by omega)

/-- the stored word for `Some d`, `0 < d ≤ MAX_STORABLE`: exactly `⌈d / 1 ms⌉`, which is in `1 ..= usize::MAX` -/
theorem toMillis_some (d : Nat) (hd : 0 < d) (hmax : d ≤ MAX_STORABLE) :
    toMillis (some d) = divCeil d 1000000 ∧ 1 ≤ divCeil d 1000000 ∧ divCeil d 1000000 ≤ USIZE_MAX := by
  have hb := divCeil_ms d
  have hm : MAX_STORABLE = 18446744073709551615 * 1000000 := by decide
  rw [hm] at hmax
  simp only [toMillis, DUR_NS_PER_UNIT, usize_max_val]
  omega

/-- a stored word is never 0 for `Some _` and always fits the machine word -/
theorem toMillis_some_pos (d : Nat) : 1 ≤ toMillis (some d) ∧ toMillis (some d) ≤ USIZE_MAX := by
  simp only [toMillis, usize_max_val]
  omega

theorem fromMillis_pos (u w : Nat) (h1 : 1 ≤ w) (h2 : w ≤ USIZE_MAX) : fromMillis u w = some (w * u) := by
  rw [usize_max_val] at h2
  have : w % U64 = w := Nat.mod_eq_of_lt (by rw [u64_val]; omega)
  simp only [fromMillis, this]
  split
  · omega
  · rfl

end MayVerif.Time
