/-
  Invariant of the timer-thread hand-shake (`Model/Time/TimerThread.lean`): after the timer thread registered its
  handle, the handle is in the slot, or the park token is set, or whoever took the handle is about to unpark; and
  work added since the timer thread last looked is announced by an actor that has not yet looked at the slot.
-/
import MayVerif.Model.Time.TimerThread
namespace MayVerif.Time.TT
local notation "Tid" => Nat
local notation "Lid" => Nat

@[grind] def isTimer : Pc → Bool
  | .idle => false | .rPop => true | .rStore => true | .rCheck => true | .rTake => true | .rUnpark => true
  | .rSched _ => true | .rPark _ => true | .rDone => true | .aAdd => false | .dPush => false | .aTake => false | .aUnpark => false
@[grind] def reg : Pc → Bool
  | .idle => false | .rPop => false | .rStore => false | .rCheck => true | .rTake => true | .rUnpark => true
  | .rSched _ => true | .rPark _ => true | .rDone => false | .aAdd => false | .dPush => false | .aTake => false | .aUnpark => false
@[grind] def afterCheck : Pc → Bool
  | .idle => false | .rPop => false | .rStore => false | .rCheck => false | .rTake => false | .rUnpark => false
  | .rSched _ => true | .rPark _ => true | .rDone => false | .aAdd => false | .dPush => false | .aTake => false | .aUnpark => false
/-- after a look at the heap: installs from now on are unseen -/
@[grind] def parked : Pc → Bool
  | .idle => false | .rPop => false | .rStore => false | .rCheck => false | .rTake => false | .rUnpark => false
  | .rSched p => p | .rPark _ => true | .rDone => false | .aAdd => false | .dPush => false | .aTake => false | .aUnpark => false

structure Inv (s : St) : Prop where
  r0 : isTimer (s.pcs 0) = true
  r1 : ∀ t, t ≠ 0 → isTimer (s.pcs t) = false
  rng : ∀ t, s.n ≤ t → t ≠ 0 → s.pcs t = .idle
  j1 : reg (s.pcs 0) = true → s.sh.wakeup = true ∨ s.sh.token = true ∨ s.pcs 0 = .rUnpark ∨ s.pcs s.sh.taker = .aUnpark
  j2 : parked (s.pcs 0) = true → s.sh.seen < s.sh.ver → s.sh.wakeup = true → s.pcs s.sh.w = .aTake
  j3 : afterCheck (s.pcs 0) = true → 0 < s.sh.rq → s.sh.wakeup = true → s.pcs s.sh.w = .aTake
  j4 : s.pcs 0 = .rUnpark → s.sh.wakeup = false

theorem inv_init (n : Nat) : Inv (init n) := by
  constructor <;> simp [init, isTimer, reg, afterCheck, parked]
  · intro t ht; simp [ht]

theorem inv_step (s s' : St) (t : Tid) (e : Env) (h : Inv s) (hs : step s t e = some s') : Inv s' := by
  obtain ⟨n, sh, pcs⟩ := s
  simp only [step] at hs
  split at hs
  case isFalse => contradiction
  next hlt =>
  split at hs
  · contradiction
  next sh' pc' hts =>
  simp only [Option.some.injEq] at hs
  subst hs
  obtain ⟨h0, h1, hr, hj1, hj2, hj3, hj4⟩ := h
  simp only at h0 h1 hr hj1 hj2 hj3 hj4
  have h1t := h1 t
  generalize hpc : pcs t = pc at hts
  by_cases ht0 : t = 0
  · subst ht0
    rw [hpc] at h0 hj1 hj2 hj3 hj4
    cases pc <;> simp only [isTimer, reduceCtorEq] at h0 <;> simp only [tstep] at hts <;>
      (try (cases e <;> simp only [] at hts)) <;>
      (try split at hts) <;> (try split at hts) <;> (try split at hts) <;>
      (try simp only [Option.some.injEq, Prod.mk.injEq, reduceCtorEq] at hts) <;> (try contradiction) <;>
      (obtain ⟨rfl, rfl⟩ := hts) <;>
      (constructor <;> simp only [] <;> grind)
  · have hnt : isTimer pc = false := by rw [← hpc]; exact h1 t ht0
    cases pc <;> simp only [isTimer, reduceCtorEq] at hnt <;> simp only [tstep] at hts <;>
      (try (cases e <;> simp only [] at hts)) <;>
      (try split at hts) <;> (try split at hts) <;>
      (try simp only [Option.some.injEq, Prod.mk.injEq, reduceCtorEq] at hts) <;> (try contradiction) <;>
      (obtain ⟨rfl, rfl⟩ := hts) <;>
      (constructor <;> simp only [] <;> grind)

theorem inv_run (s : St) (sched : List (Tid × Env)) (h : Inv s) : Inv (run s sched) := by
  induction sched generalizing s with
  | nil => exact h
  | cons p r ih =>
    obtain ⟨t, e⟩ := p
    simp only [run]
    cases hs : step s t e with
    | none => exact ih s h
    | some s' => exact ih s' (inv_step s s' t e h hs)

theorem run_n (s : St) (sched : List (Tid × Env)) : (run s sched).n = s.n := by
  induction sched generalizing s with
  | nil => rfl
  | cons p r ih =>
    obtain ⟨t, e⟩ := p
    simp only [run]
    cases hs : step s t e with
    | none => exact ih s
    | some s' =>
      simp only []
      rw [ih s']
      simp only [step] at hs
      split at hs
      · split at hs
        · contradiction
        · simp only [Option.some.injEq] at hs; subst hs; rfl
      · contradiction

end MayVerif.Time.TT
