/- invariant of the deadline loop: the deadline is a clock reading after the call plus the time-out -/
import MayVerif.Model.Time.Deadline
namespace MayVerif.Time.DL

def pcDeadline : Pc → Option (Option Nat)
  | .attempt dl | .check dl => some dl
  | _ => none

structure Inv (s : St) : Prop where
  t0 : s.t0 ≤ s.now
  dl : ∀ dl, pcDeadline s.pc = some dl → (s.timeout = none → dl = none) ∧ (∀ d, s.timeout = some d → ∃ x, dl = some x ∧ s.t0 + d ≤ x)
  tmo : s.pc = .done .timeout → ∃ d, s.timeout = some d ∧ s.t0 + d ≤ s.tret
  ret : ∀ r, s.pc = .done r → s.tret ≤ s.now ∧ s.t0 ≤ s.tret

theorem inv_init (now : Nat) (tm : Option Nat) : Inv (init now tm) := by
  constructor <;> simp [init, pcDeadline]

theorem inv_step (s s' : St) (e : Env) (h : Inv s) (hs : step s e = some s') : Inv s' := by
  obtain ⟨h0, hd, ht, hr⟩ := h
  obtain ⟨now, tm, pc, t0, tret⟩ := s
  simp only at h0 hd ht hr
  cases e <;> cases pc <;> simp only [step] at hs
  all_goals first
    | contradiction
    | (simp only [Option.some.injEq] at hs; subst hs
       constructor <;> simp_all [pcDeadline] <;> (try omega) <;> (try (cases tm <;> simp_all <;> omega)))
    | (split at hs <;> (try split at hs) <;> simp only [Option.some.injEq] at hs <;> subst hs <;>
       constructor <;> simp_all [pcDeadline] <;> (try omega) <;> (try (cases tm <;> simp_all <;> omega)))

theorem inv_run (s : St) (sched : List Env) (h : Inv s) : Inv (run s sched) := by
  induction sched generalizing s with
  | nil => exact h
  | cons e r ih =>
    simp only [run]
    cases hs : step s e with
    | none => exact ih s h
    | some s' => exact ih s' (inv_step s s' e h hs)

theorem step_const (s s' : St) (e : Env) (hs : step s e = some s') : s'.timeout = s.timeout ∧ s'.t0 = s.t0 := by
  obtain ⟨now, tm, pc, t0, tret⟩ := s
  cases e <;> cases pc <;> simp only [step] at hs
  all_goals first
    | contradiction
    | (simp only [Option.some.injEq] at hs; subst hs; exact ⟨rfl, rfl⟩)
    | (split at hs <;> (try split at hs) <;> simp only [Option.some.injEq] at hs <;> subst hs <;> exact ⟨rfl, rfl⟩)

theorem run_const (s : St) (sched : List Env) : (run s sched).timeout = s.timeout ∧ (run s sched).t0 = s.t0 := by
  induction sched generalizing s with
  | nil => exact ⟨rfl, rfl⟩
  | cons e r ih =>
    simp only [run]
    cases hs : step s e with
    | none => exact ih s
    | some s' =>
      have := step_const s s' e hs
      have := ih s'
      simp_all

end MayVerif.Time.DL
