import MayVerif.Proof.Scope.InvH1
set_option linter.unusedSimpArgs false
set_option linter.unusedVariables false
namespace MayVerif.Scope

set_option maxHeartbeats 4000000 in
theorem invH1_e3 (n : Nat) (sh : Sh) (pcs : Tid → Pc) (t : Tid) (e : Env) 
    (h : InvH1 ⟨n, sh, pcs⟩) (hG : InvG ⟨n, sh, pcs⟩) (hpc : pcs t = .e3) (sh' : Sh) (pc' : Pc)
    (hts : tstep sh t .e3 e = some (sh', pc')) : InvH1 ⟨n, sh', upd pcs t pc'⟩ := by
  obtain ⟨hks, hr2, hj1⟩ := h
  simp only at hks hr2 hj1
  obtain ⟨gu0, gu1, gtp, gp2, gf1, go2, gs1, gs3, gjq, gjn, gch, gjk⟩ := hG
  simp only at gu0 gu1 gtp gp2 gf1 go2 gs1 gs3 gjq gjn gch gjk
  clear gu1 gtp go2 gjn gch gjk
  have hl1 : ∀ pc c, atR2 pc c = true → pastAny pc c = true := by intro pc c; cases pc <;> simp [atR2, pastAny]
  have hl3 : ∀ pc c, atR2 pc c = true → injoin pc c = true := by intro pc c; cases pc <;> simp [atR2, injoin]
  have gu0t := gu0 t; have gp2t := gp2 t; have gf1t := gf1 t; have gjqt := gjq t; have hj1t := hj1 t; have hr2t := hr2 t
  rw [hpc] at gu0t gp2t gf1t gjqt hj1t hr2t
  simp only [tstep, toDtor, finishJoin, takePacket, storeBlocker, trigger2, afterWait, bne_self_eq_false, Bool.not_true, Bool.not_false, Bool.and_false, Bool.and_true, Bool.false_eq_true, if_false, reduceCtorEq, bne_iff_ne, ne_eq, not_false_eq_true, decide_true, decide_false, if_true] at hts <;>
    (try contradiction) <;> (repeat' split at hts) <;> (try contradiction) <;> (try (simp at hts; done)) <;>
    (obtain ⟨rfl, rfl⟩ := pair_of hts) <;> clear hts <;> (constructor <;> simp only [] <;> first | grind | grind (splits := 25) (instances := 4000))

end MayVerif.Scope
