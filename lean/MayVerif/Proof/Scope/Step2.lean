/-
  `Inv` is preserved by the join steps and the end-of-coroutine steps of the Scope model; `inv_step`, `inv_run`.
-/
import MayVerif.Proof.Scope.Step
namespace MayVerif.Scope

set_option maxHeartbeats 1000000 in
theorem inv_jd (n : Nat) (sh : Sh) (pcs : Tid → Pc) (t : Tid) (e : Env) (c : Tid) (k : K)
    (h : Inv ⟨n, sh, pcs⟩) (hpc : pcs t = .jd c k) (sh' : Sh) (pc' : Pc)
    (hts : tstep sh t (.jd c k) e = some (sh', pc')) : Inv ⟨n, sh', upd pcs t pc'⟩ := by
  simp only [tstep] at hts
  got; open_inv; close_inv

set_option maxHeartbeats 1000000 in
theorem inv_storeBlocker (n : Nat) (sh : Sh) (pcs : Tid → Pc) (t : Tid) (c : Tid) (k : K)
    (h : Inv ⟨n, sh, pcs⟩) (hpc : joining (pcs t) c = (k != .top)) (_hnp : ∀ c', pastDone (pcs t) c' = false)
    (hj : ∀ c', joining (pcs t) c' = true → c' = c) :
    Inv ⟨n, (storeBlocker sh c k).1, upd pcs t (storeBlocker sh c k).2⟩ := by
  unfold storeBlocker
  open_inv
  have hw := wb c
  constructor <;> simp only [okO] <;> grind

set_option maxHeartbeats 1000000 in
theorem inv_jx (n : Nat) (sh : Sh) (pcs : Tid → Pc) (t : Tid) (e : Env) (c : Tid) (k : K) (r : Bool)
    (h : Inv ⟨n, sh, pcs⟩) (hpc : pcs t = .jx c k r) (sh' : Sh) (pc' : Pc)
    (hts : tstep sh t (.jx c k r) e = some (sh', pc')) : Inv ⟨n, sh', upd pcs t pc'⟩ := by
  cases r with
  | true =>
    simp only [tstep] at hts
    split at hts
    · got; open_inv; close_inv
    · got
      exact inv_storeBlocker n sh pcs t c k h (by rw [hpc]; simp [joining]) (by intro c'; rw [hpc]; rfl)
        (by intro c'; rw [hpc]; simp [joining]; intro a _; exact a.symm)
  | false =>
    simp only [tstep] at hts
    split at hts
    · split at hts
      · got; open_inv; close_inv
      · contradiction
    · got
      have hp := h.pd t c
      simp only [] at hp
      rw [hpc] at hp
      exact inv_takePacket n sh pcs t c k h (by intro c'; rw [hpc]; rfl) (by intro ho hk; exact hp ho (by simp [pastDone, hk]))

set_option maxHeartbeats 1000000 in
theorem inv_w2 (n : Nat) (sh : Sh) (pcs : Tid → Pc) (t : Tid) (e : Env) (c : Tid) (k : K)
    (h : Inv ⟨n, sh, pcs⟩) (hpc : pcs t = .w2 c k) (sh' : Sh) (pc' : Pc)
    (hts : tstep sh t (.w2 c k) e = some (sh', pc')) : Inv ⟨n, sh', upd pcs t pc'⟩ := by
  simp only [tstep] at hts
  got
  exact inv_storeBlocker n sh pcs t c k h (by rw [hpc]; simp [joining]) (by intro c'; rw [hpc]; rfl)
    (by intro c'; rw [hpc]; simp [joining]; intro a _; exact a.symm)

set_option maxHeartbeats 1000000 in
theorem inv_w3 (n : Nat) (sh : Sh) (pcs : Tid → Pc) (t : Tid) (e : Env) (c : Tid) (k : K) (b : Bid)
    (h : Inv ⟨n, sh, pcs⟩) (hpc : pcs t = .w3 c k b) (sh' : Sh) (pc' : Pc)
    (hts : tstep sh t (.w3 c k b) e = some (sh', pc')) : Inv ⟨n, sh', upd pcs t pc'⟩ := by
  simp only [tstep] at hts
  got; open_inv
  have hb := pb t c b
  close_inv

set_option maxHeartbeats 2000000 in
theorem inv_w4 (n : Nat) (sh : Sh) (pcs : Tid → Pc) (t : Tid) (e : Env) (c : Tid) (k : K) (b : Bid)
    (h : Inv ⟨n, sh, pcs⟩) (hpc : pcs t = .w4 c k b) (sh' : Sh) (pc' : Pc)
    (hts : tstep sh t (.w4 c k b) e = some (sh', pc')) : Inv ⟨n, sh', upd pcs t pc'⟩ := by
  have hgo : ∀ (hts : (if sh.tok b then some ({ sh with tok := upd sh.tok b false }, afterWait sh c k) else none) = some (sh', pc')),
      Inv ⟨n, sh', upd pcs t pc'⟩ := by
    intro hts
    split at hts
    · got; open_inv
      have hb := pb t c b
      have ht := tb b
      unfold afterWait fx
      constructor <;> simp only [okO] <;> grind
    · contradiction
  cases e <;> simp only [tstep] at hts <;> try exact hgo hts
  -- cwake
  split at hts
  · split at hts
    · got; open_inv; close_inv
    · split at hts
      · cases k with
        | top => simp at hts
        | dt =>
          simp only [] at hts
          got
          refine inv_toDtor n _ pcs t (inv_same n sh _ _ (by simp [Same]) h) ?_
          intro c' ho; simp_all [okO, fx]
        | ex =>
          simp only [] at hts
          got
          refine inv_toDtor n _ pcs t (inv_same n sh _ _ (by simp [Same]) h) ?_
          intro c' ho; simp_all [okO, fx]
      · got; open_inv
        simp_all [okO, fx]
        constructor <;> simp only [okO] <;> grind
  · contradiction

set_option maxHeartbeats 1000000 in
theorem inv_w5 (n : Nat) (sh : Sh) (pcs : Tid → Pc) (t : Tid) (e : Env) (c : Tid) (k : K)
    (h : Inv ⟨n, sh, pcs⟩) (hpc : pcs t = .w5 c k) (sh' : Sh) (pc' : Pc)
    (hts : tstep sh t (.w5 c k) e = some (sh', pc')) : Inv ⟨n, sh', upd pcs t pc'⟩ := by
  simp only [tstep] at hts
  got; open_inv
  unfold afterWait fx
  constructor <;> simp only [okO] <;> grind

end MayVerif.Scope
