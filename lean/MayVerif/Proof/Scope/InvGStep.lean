import MayVerif.Proof.Scope.InvG.P_idle
import MayVerif.Proof.Scope.InvG.P_body
import MayVerif.Proof.Scope.InvG.P_inF
import MayVerif.Proof.Scope.InvG.P_jd
import MayVerif.Proof.Scope.InvG.P_jx
import MayVerif.Proof.Scope.InvG.P_w2
import MayVerif.Proof.Scope.InvG.P_w3
import MayVerif.Proof.Scope.InvG.P_w4
import MayVerif.Proof.Scope.InvG.P_w5
import MayVerif.Proof.Scope.InvG.P_r1
import MayVerif.Proof.Scope.InvG.P_r2
import MayVerif.Proof.Scope.InvG.P_s1
import MayVerif.Proof.Scope.InvG.P_left
import MayVerif.Proof.Scope.InvG.P_e1
import MayVerif.Proof.Scope.InvG.P_e2
import MayVerif.Proof.Scope.InvG.P_e3
import MayVerif.Proof.Scope.InvG.P_e4
import MayVerif.Proof.Scope.InvG.P_pend
set_option linter.unusedSimpArgs false
set_option linter.unusedVariables false
namespace MayVerif.Scope

theorem invG_tstep (n : Nat) (sh : Sh) (pcs : Tid → Pc) (t : Tid) (e : Env) (pc : Pc)
    (h : InvG ⟨n, sh, pcs⟩) (hI : Inv ⟨n, sh, pcs⟩) (hpc : pcs t = pc) (sh' : Sh) (pc' : Pc)
    (hts : tstep sh t pc e = some (sh', pc')) : InvG ⟨n, sh', upd pcs t pc'⟩ := by
  cases pc with
  | idle  => exact invG_idle n sh pcs t e  h hI hpc sh' pc' hts
  | body  => exact invG_body n sh pcs t e  h hI hpc sh' pc' hts
  | inF  => exact invG_inF n sh pcs t e  h hI hpc sh' pc' hts
  | jd c k => exact invG_jd n sh pcs t e c k h hI hpc sh' pc' hts
  | jx c k r => exact invG_jx n sh pcs t e c k r h hI hpc sh' pc' hts
  | w2 c k => exact invG_w2 n sh pcs t e c k h hI hpc sh' pc' hts
  | w3 c k b => exact invG_w3 n sh pcs t e c k b h hI hpc sh' pc' hts
  | w4 c k b => exact invG_w4 n sh pcs t e c k b h hI hpc sh' pc' hts
  | w5 c k => exact invG_w5 n sh pcs t e c k h hI hpc sh' pc' hts
  | r1 c k => exact invG_r1 n sh pcs t e c k h hI hpc sh' pc' hts
  | r2 c k => exact invG_r2 n sh pcs t e c k h hI hpc sh' pc' hts
  | s1 c => exact invG_s1 n sh pcs t e c h hI hpc sh' pc' hts
  | left  => exact invG_left n sh pcs t e  h hI hpc sh' pc' hts
  | e1 v => exact invG_e1 n sh pcs t e v h hI hpc sh' pc' hts
  | e2 v => exact invG_e2 n sh pcs t e v h hI hpc sh' pc' hts
  | e3  => exact invG_e3 n sh pcs t e  h hI hpc sh' pc' hts
  | e4  => exact invG_e4 n sh pcs t e  h hI hpc sh' pc' hts
  | pend  => exact invG_pend n sh pcs t e  h hI hpc sh' pc' hts
  | fin => simp [tstep] at hts

theorem invG_step (s s' : St) (t : Tid) (e : Env) (h : InvG s) (hI : Inv s) (hs : step s t e = some s') : InvG s' := by
  obtain ⟨n, sh, pcs⟩ := s
  simp only [step] at hs
  split at hs
  case isFalse => contradiction
  split at hs
  · contradiction
  next sh' pc' hts =>
  simp only [Option.some.injEq] at hs
  subst hs
  exact invG_tstep n sh pcs t e _ h hI rfl sh' pc' hts

theorem invG_run (s : St) (sched : List (Tid × Env)) (h : InvG s) (hI : Inv s) : InvG (run s sched) := by
  induction sched generalizing s with
  | nil => simpa [run]
  | cons te r ih =>
    obtain ⟨t, e⟩ := te
    simp only [run]
    split
    · next s' hs => exact ih _ (invG_step _ _ _ _ h hI hs) (inv_step _ _ _ _ hI hs)
    · exact ih _ h hI

end MayVerif.Scope
