/-
  `Inv` is preserved by the result steps of a join and by the end-of-coroutine steps; `inv_step`, `inv_run`.
-/
import MayVerif.Proof.Scope.Step2
namespace MayVerif.Scope

theorem inv_r1 (n : Nat) (sh : Sh) (pcs : Tid → Pc) (t : Tid) (e : Env) (c : Tid) (k : K)
    (h : Inv ⟨n, sh, pcs⟩) (hpc : pcs t = .r1 c k) (sh' : Sh) (pc' : Pc)
    (hts : tstep sh t (.r1 c k) e = some (sh', pc')) : Inv ⟨n, sh', upd pcs t pc'⟩ := by
  simp only [tstep] at hts
  got
  have hp := h.pd t c
  simp only [] at hp
  rw [hpc] at hp
  exact inv_takePacket n sh pcs t c k h (by intro c'; rw [hpc]; rfl) (by intro ho hk; exact hp ho (by simp [pastDone, hk]))

theorem inv_r2 (n : Nat) (sh : Sh) (pcs : Tid → Pc) (t : Tid) (e : Env) (c : Tid) (k : K)
    (h : Inv ⟨n, sh, pcs⟩) (hpc : pcs t = .r2 c k) (sh' : Sh) (pc' : Pc)
    (hts : tstep sh t (.r2 c k) e = some (sh', pc')) : Inv ⟨n, sh', upd pcs t pc'⟩ := by
  have hp := h.pd t c
  simp only [] at hp
  rw [hpc] at hp
  have hf : okO sh t = true → k ≠ .top → sh.fin c = true := by intro ho hk; exact hp ho (by simp [pastDone, hk])
  simp only [tstep] at hts
  split at hts
  · got
    exact inv_finishJoin n _ pcs t c k _ (inv_same n sh _ _ (by simp [Same]) h) (by intro c'; rw [hpc]; rfl) (by simpa [okO] using hf)
  · got
    exact inv_finishJoin n _ pcs t c k _ h (by intro c'; rw [hpc]; rfl) hf

set_option maxHeartbeats 1000000 in
theorem inv_s1 (n : Nat) (sh : Sh) (pcs : Tid → Pc) (t : Tid) (e : Env) (c : Tid)
    (h : Inv ⟨n, sh, pcs⟩) (hpc : pcs t = .s1 c) (sh' : Sh) (pc' : Pc)
    (hts : tstep sh t (.s1 c) e = some (sh', pc')) : Inv ⟨n, sh', upd pcs t pc'⟩ := by
  simp only [tstep] at hts
  split at hts
  · got
    apply inv_same n sh _ _ (by simp [Same])
    exact inv_move n _ pcs t _ h rfl rfl rfl (by intro c; rfl) (by intro c; rfl) (nj_of _ (by intro c'; rw [hpc]; rfl) _ t)
  · contradiction

set_option maxHeartbeats 1000000 in
theorem inv_left (n : Nat) (sh : Sh) (pcs : Tid → Pc) (t : Tid) (e : Env)
    (h : Inv ⟨n, sh, pcs⟩) (hpc : pcs t = .left) (sh' : Sh) (pc' : Pc)
    (hts : tstep sh t .left e = some (sh', pc')) : Inv ⟨n, sh', upd pcs t pc'⟩ := by
  have hnj : ∀ c, joining (pcs t) c = false := by intro c; rw [hpc]; rfl
  cases e <;> simp only [tstep] at hts <;> try contradiction
  got
  split
  · exact inv_move n _ pcs t _ h rfl rfl rfl (by intro c; rfl) (by intro c; rfl) (nj_of _ hnj _ t)
  · split
    · exact inv_move n _ pcs t _ h rfl rfl rfl (by intro c; rfl) (by intro c; rfl) (nj_of _ hnj _ t)
    · exact inv_move n _ pcs t _ h rfl rfl rfl (by intro c; rfl) (by intro c; rfl) (nj_of _ hnj _ t)

set_option maxHeartbeats 1000000 in
theorem inv_e1 (n : Nat) (sh : Sh) (pcs : Tid → Pc) (t : Tid) (e : Env) (v : Nat)
    (h : Inv ⟨n, sh, pcs⟩) (hpc : pcs t = .e1 v) (sh' : Sh) (pc' : Pc)
    (hts : tstep sh t (.e1 v) e = some (sh', pc')) : Inv ⟨n, sh', upd pcs t pc'⟩ := by
  simp only [tstep] at hts
  got
  apply inv_same n sh _ _ (by simp [Same])
  exact inv_move n _ pcs t _ h rfl rfl rfl (by intro c; rfl) (by intro c; rfl) (nj_of _ (by intro c'; rw [hpc]; rfl) _ t)

set_option maxHeartbeats 1000000 in
theorem inv_e2 (n : Nat) (sh : Sh) (pcs : Tid → Pc) (t : Tid) (e : Env) (v : Nat)
    (h : Inv ⟨n, sh, pcs⟩) (hpc : pcs t = .e2 v) (sh' : Sh) (pc' : Pc)
    (hts : tstep sh t (.e2 v) e = some (sh', pc')) : Inv ⟨n, sh', upd pcs t pc'⟩ := by
  simp only [tstep] at hts
  got
  apply inv_same n sh _ _ (by simp [Same])
  exact inv_move n _ pcs t _ h rfl rfl rfl (by intro c; rfl) (by intro c; rfl) (nj_of _ (by intro c'; rw [hpc]; rfl) _ t)

set_option maxHeartbeats 1000000 in
theorem inv_e3 (n : Nat) (sh : Sh) (pcs : Tid → Pc) (t : Tid) (e : Env)
    (h : Inv ⟨n, sh, pcs⟩) (hpc : pcs t = .e3) (sh' : Sh) (pc' : Pc)
    (hts : tstep sh t .e3 e = some (sh', pc')) : Inv ⟨n, sh', upd pcs t pc'⟩ := by
  simp only [tstep] at hts
  got; open_inv; close_inv

set_option maxHeartbeats 1000000 in
theorem inv_e4 (n : Nat) (sh : Sh) (pcs : Tid → Pc) (t : Tid) (e : Env)
    (h : Inv ⟨n, sh, pcs⟩) (hpc : pcs t = .e4) (sh' : Sh) (pc' : Pc)
    (hts : tstep sh t .e4 e = some (sh', pc')) : Inv ⟨n, sh', upd pcs t pc'⟩ := by
  simp only [tstep] at hts
  got
  unfold trigger2
  open_inv
  have hf := e4 t
  have hk := kd t
  rw [hpc] at hf hk
  simp only [joining, atE4] at hf hk
  split
  next b hb =>
    have hw := wb t b hb
    constructor <;> simp only [okO] <;> grind
  next hb => close_inv

set_option maxHeartbeats 1000000 in
theorem inv_pend (n : Nat) (sh : Sh) (pcs : Tid → Pc) (t : Tid) (e : Env)
    (h : Inv ⟨n, sh, pcs⟩) (hpc : pcs t = .pend) (sh' : Sh) (pc' : Pc)
    (hts : tstep sh t .pend e = some (sh', pc')) : Inv ⟨n, sh', upd pcs t pc'⟩ := by
  simp only [tstep] at hts
  split at hts
  · got
    apply inv_same n sh _ _ (by simp [Same])
    exact inv_move n _ pcs t _ h rfl rfl rfl (by intro c; rfl) (by intro c; rfl) (nj_of _ (by intro c'; rw [hpc]; rfl) _ t)
  · got; open_inv; close_inv
  · contradiction

theorem inv_step (s s' : St) (t : Tid) (e : Env) (h : Inv s) (hs : step s t e = some s') : Inv s' := by
  obtain ⟨n, sh, pcs⟩ := s
  simp only [step] at hs
  split at hs
  case isFalse => contradiction
  next hlt =>
  split at hs
  · contradiction
  next sh' pc' hts =>
  simp only [Option.some.injEq] at hs
  subst hs
  generalize hpc : pcs t = pc at hts
  cases pc with
  | idle => exact inv_idle n sh pcs t e h hpc sh' pc' hts
  | body => exact inv_body n sh pcs t e h hpc sh' pc' hts
  | inF => exact inv_inF n sh pcs t e h hpc sh' pc' hts
  | jd c k => exact inv_jd n sh pcs t e c k h hpc sh' pc' hts
  | jx c k r => exact inv_jx n sh pcs t e c k r h hpc sh' pc' hts
  | w2 c k => exact inv_w2 n sh pcs t e c k h hpc sh' pc' hts
  | w3 c k b => exact inv_w3 n sh pcs t e c k b h hpc sh' pc' hts
  | w4 c k b => exact inv_w4 n sh pcs t e c k b h hpc sh' pc' hts
  | w5 c k => exact inv_w5 n sh pcs t e c k h hpc sh' pc' hts
  | r1 c k => exact inv_r1 n sh pcs t e c k h hpc sh' pc' hts
  | r2 c k => exact inv_r2 n sh pcs t e c k h hpc sh' pc' hts
  | s1 c => exact inv_s1 n sh pcs t e c h hpc sh' pc' hts
  | left => exact inv_left n sh pcs t e h hpc sh' pc' hts
  | e1 v => exact inv_e1 n sh pcs t e v h hpc sh' pc' hts
  | e2 v => exact inv_e2 n sh pcs t e v h hpc sh' pc' hts
  | e3 => exact inv_e3 n sh pcs t e h hpc sh' pc' hts
  | e4 => exact inv_e4 n sh pcs t e h hpc sh' pc' hts
  | pend => exact inv_pend n sh pcs t e h hpc sh' pc' hts
  | fin => simp [tstep] at hts

theorem inv_run (s : St) (sched : List (Tid × Env)) (h : Inv s) : Inv (run s sched) := by
  induction sched generalizing s with
  | nil => simpa [run]
  | cons te r ih =>
    obtain ⟨t, e⟩ := te
    simp only [run]
    split
    · next s' hs => exact ih _ (inv_step _ _ _ _ h hs)
    · exact ih _ h

end MayVerif.Scope
