import MayVerif.Proof.Scope.InvG
set_option linter.unusedSimpArgs false
set_option linter.unusedVariables false
namespace MayVerif.Scope

set_option maxHeartbeats 4000000 in
theorem invG_body (n : Nat) (sh : Sh) (pcs : Tid → Pc) (t : Tid) (e : Env) 
    (h : InvG ⟨n, sh, pcs⟩) (hI : Inv ⟨n, sh, pcs⟩) (hpc : pcs t = .body) (sh' : Sh) (pc' : Pc)
    (hts : tstep sh t .body e = some (sh', pc')) : InvG ⟨n, sh', upd pcs t pc'⟩ := by
  obtain ⟨gu0, gu1, gtp, gp2, gf1, go2, gs1, gs3, gjq, gjn, gch, gjk⟩ := h
  simp only at gu0 gu1 gtp gp2 gf1 go2 gs1 gs3 gjq gjn gch gjk
  obtain ⟨tb, wb, pb, e4, ch, lf, kd, pd⟩ := hI
  simp only at tb wb pb e4 ch lf kd pd
  have hpn := popChain_none sh.joined (sh.chain t)
  have hps := popChain_some sh.joined (sh.chain t)
  have gu1t := gu1 t; have gtpt := gtp t; rw [hpc] at gtpt
  have gu0t := gu0 t; have gp2t := gp2 t; have gf1t := gf1 t; have gjqt := gjq t; have gjkt := gjk t; have gcht := gch t
  have pbt := pb t; have tbb := tb
  rw [hpc] at gu0t gp2t gf1t gjqt gjkt pbt
  cases e <;> simp only [tstep, toDtor, finishJoin, takePacket, storeBlocker, trigger2, afterWait, bne_self_eq_false, Bool.not_true, Bool.not_false, Bool.and_false, Bool.and_true, Bool.false_eq_true, if_false, reduceCtorEq, bne_iff_ne, ne_eq, not_false_eq_true, decide_true, decide_false, if_true] at hts <;>
    (try contradiction) <;> (repeat' split at hts) <;> (try contradiction) <;> (try (simp at hts; done)) <;>
    (obtain ⟨rfl, rfl⟩ := pair_of hts) <;> clear hts <;> (constructor <;> simp only [] <;> first | grind | grind (splits := 25) (instances := 4000))

end MayVerif.Scope
