/-
  Preservation of `Inv` by `finishJoin` / `takePacket` (the end of a join) and by simple pc moves.
-/
import MayVerif.Proof.Scope.Dtor
namespace MayVerif.Scope

/-- a step that changes nothing `Inv` reads except the actor's pc, to a pc that carries no obligations -/
theorem inv_move (n : Nat) (sh : Sh) (pcs : Tid → Pc) (t : Tid) (pc' : Pc) (h : Inv ⟨n, sh, pcs⟩)
    (h1 : blkOf pc' = none) (h2 : atE4 pc' = false) (h3 : atLeft pc' = false)
    (_h4 : ∀ c, joining pc' c = false) (h5 : ∀ c, pastDone pc' c = false)
    (hj : ∀ c, okO sh t = true → joining (pcs t) c = true → sh.fin c = true) :
    Inv ⟨n, sh, upd pcs t pc'⟩ := by
  obtain ⟨tb, wb, pb, e4, ch, lf, kd, pd⟩ := h
  simp only at tb wb pb e4 ch lf kd pd
  constructor <;> simp only [] <;> grind

set_option maxHeartbeats 1000000 in
theorem inv_finishJoin (n : Nat) (sh : Sh) (pcs : Tid → Pc) (t c : Tid) (k : K) (res : Res) (h : Inv ⟨n, sh, pcs⟩)
    (hnj : ∀ c', joining (pcs t) c' = false) (hfin : okO sh t = true → k ≠ .top → sh.fin c = true) :
    Inv ⟨n, (finishJoin sh t c k res).1, upd pcs t (finishJoin sh t c k res).2⟩ := by
  have hj : ∀ c', okO sh t = true → joining (pcs t) c' = true → sh.fin c' = true := by
    intro c' _ hc; rw [hnj c'] at hc; contradiction
  unfold finishJoin
  cases k with
  | top =>
    simp only []
    apply inv_same n sh _ _ (by simp [Same])
    exact inv_move n sh pcs t .idle h rfl rfl rfl (by intro c; rfl) (by intro c; rfl) hj
  | dt =>
    simp only []
    split
    · cases res with
      | ok =>
        simp only [reduceCtorEq, if_false]
        exact inv_toDtor n _ pcs t (inv_same n sh _ _ (by simp [Same]) h) (by simpa [okO] using hj)
      | pan p => exact inv_toDtor n _ pcs t (inv_same n sh _ _ (by simp [Same]) h) (by simpa [okO] using hj)
      | cancel => exact inv_toDtor n _ pcs t (inv_same n sh _ _ (by simp [Same]) h) (by simpa [okO] using hj)
    · exact inv_toDtor n _ pcs t (inv_same n sh _ _ (by simp [Same]) h) (by simpa [okO] using hj)
  | ex =>
    simp only []
    split
    · cases res with
      | ok =>
        simp only [if_true]
        apply inv_same n sh _ _ (by simp [Same])
        obtain ⟨tb, wb, pb, e4, ch, lf, kd, pd⟩ := h
        simp only at tb wb pb e4 ch lf kd pd
        have hf := hfin
        constructor <;> simp only [] <;> grind
      | pan p => exact inv_toDtor n _ pcs t (inv_same n sh _ _ (by simp [Same]) h) (by simpa [okO] using hj)
      | cancel => exact inv_toDtor n _ pcs t (inv_same n sh _ _ (by simp [Same]) h) (by simpa [okO] using hj)
    · exact inv_toDtor n _ pcs t (inv_same n sh _ _ (by simp [Same]) h) (by simpa [okO] using hj)

theorem inv_takePacket (n : Nat) (sh : Sh) (pcs : Tid → Pc) (t c : Tid) (k : K) (h : Inv ⟨n, sh, pcs⟩)
    (hnj : ∀ c', joining (pcs t) c' = false) (hfin : okO sh t = true → k ≠ .top → sh.fin c = true) :
    Inv ⟨n, (takePacket sh t c k).1, upd pcs t (takePacket sh t c k).2⟩ := by
  unfold takePacket
  split
  · exact inv_finishJoin n _ pcs t c k .ok (inv_same n sh _ _ (by simp [Same]) h) hnj (by simpa [okO] using hfin)
  · simp only []
    obtain ⟨tb, wb, pb, e4, ch, lf, kd, pd⟩ := h
    simp only at tb wb pb e4 ch lf kd pd
    have hf := hfin
    constructor <;> simp only [] <;> grind

end MayVerif.Scope
