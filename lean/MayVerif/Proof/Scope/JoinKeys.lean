/-
  What a joiner that is not unwinding finds in the slots of the coroutine it joins (consequences of `InvG`, `InvH1`).
-/
import MayVerif.Proof.Scope.InvH1Step
namespace MayVerif.Scope

theorem gone_late (pc : Pc) (h : goneG pc = true) : lateG pc = true := by
  cases pc <;> simp_all [goneG, lateG]

/-- the packet is there: the coroutine returned normally -/
theorem pk_key (n : Nat) (sh : Sh) (pcs : Tid → Pc) (t c : Tid) (v : Nat) (hG : InvG ⟨n, sh, pcs⟩)
    (hpa : pastAny (pcs t) c = true) (hu : sh.unw t = .no) (hp : sh.pkt c = some v) :
    sh.fin c = true ∧ sh.out c = some .ok := by
  have hf := hG.gp2 t c hu hpa
  have ho := hG.go2 c
  have hs := (hG.gs3 c v hp).1
  simp only [] at hf ho hs
  rw [hf, hs] at ho
  exact ⟨hf, by simpa [resOfUnw] using ho⟩

/-- at `panic.take`: the packet was empty, so the panic slot decides -/
theorem r2_key (n : Nat) (sh : Sh) (pcs : Tid → Pc) (t c : Tid) (k : K) (hG : InvG ⟨n, sh, pcs⟩) (hH : InvH1 ⟨n, sh, pcs⟩)
    (hpc : pcs t = .r2 c k) (hu : sh.unw t = .no) :
    sh.fin c = true ∧ sh.out c = some (match sh.pan c with | some p => Res.pan p | none => Res.cancel) := by
  have hf := hG.gp2 t c hu (by simp only []; rw [hpc]; simp [pastAny])
  have ho := hG.go2 c
  have hq := hG.gjq t c (by simp only []; rw [hpc]; simp [injoin])
  have hl := gone_late _ (hG.gf1 c hf)
  have hj := hH.hj1 c hq.2.2.1 hl
  have hn := hH.hr2 t c (by simp only []; rw [hpc]; simp [atR2]) hu
  simp only [] at hf ho hq hl hj hn
  rw [hf] at ho
  simp only [if_true] at ho
  refine ⟨hf, ?_⟩
  rw [ho]
  cases hc : sh.unw c with
  | no => exact absurd hn (hj.1 hc)
  | pan p => simp [resOfUnw, hj.2 p hc]
  | cancel =>
    cases hp : sh.pan c with
    | none => simp [resOfUnw]
    | some p => have := (hG.gs1 c p hp).1; simp only [] at this; rw [hc] at this; contradiction

end MayVerif.Scope
