import MayVerif.Proof.Scope.InvH2
set_option linter.unusedSimpArgs false
set_option linter.unusedVariables false
namespace MayVerif.Scope

set_option maxHeartbeats 4000000 in
theorem invH2_r1 (n : Nat) (sh : Sh) (pcs : Tid → Pc) (t : Tid) (e : Env) (c : Tid) (k : K)
    (h : InvH2 ⟨n, sh, pcs⟩) (hG : InvG ⟨n, sh, pcs⟩) (hI : Inv ⟨n, sh, pcs⟩) (hH : InvH1 ⟨n, sh, pcs⟩) (hpc : pcs t = (.r1 c k)) (sh' : Sh) (pc' : Pc)
    (hts : tstep sh t (.r1 c k) e = some (sh', pc')) : InvH2 ⟨n, sh', upd pcs t pc'⟩ := by
  have hGall := hG; have hHall := hH
  obtain ⟨hj2, hpk, hq1⟩ := h
  simp only at hj2 hpk hq1
  obtain ⟨gu0, gu1, gtp, gp2, gf1, go2, gs1, gs3, gjq, gjn, gch, gjk⟩ := hG
  simp only at gu0 gu1 gtp gp2 gf1 go2 gs1 gs3 gjq gjn gch gjk
  obtain ⟨tb, wb, pb, e4, ch, lf, kd, pd⟩ := hI
  simp only at tb wb pb e4 ch lf kd pd
  obtain ⟨hks, hr2, hj1⟩ := hH
  simp only at hks hr2 hj1
  clear tb wb pb e4 lf kd pd gu1 gtp
  have hl3 : ∀ pc c, atR2 pc c = true → injoin pc c = true := by intro pc c; cases pc <;> simp [atR2, injoin]
  have hpn := popChain_none sh.joined (sh.chain t)
  have hps := popChain_some sh.joined (sh.chain t)
  have gu0t := gu0 t; have gp2t := gp2 t; have gf1t := gf1 t; have gjqt := gjq t; have gjkt := gjk t; have gcht := gch t; have cht := ch t
  have hpkt := hpk t; have hq1t := hq1 t; have hr2t := hr2 t
  rw [hpc] at gu0t gp2t gf1t gjqt gjkt hpkt hr2t
  try simp only [calmG, goneG, lateG, injoin, injoinS, pastAny, atR2, Bool.false_eq_true, false_implies, implies_true, or_false, false_and, and_false, forall_const] at gu0t gp2t gf1t gjqt gjkt hpkt hr2t
  have hk := fun v => pk_key n sh pcs t c v hGall (by rw [hpc]; simp [pastAny])
  have hjb := (gjq t c (by rw [hpc]; simp [injoin])).2.1
  cases k <;> simp only [tstep, toDtor, finishJoin, takePacket, storeBlocker, trigger2, afterWait, bne_self_eq_false, Bool.not_true, Bool.not_false, Bool.and_false, Bool.and_true, Bool.false_eq_true, if_false, reduceCtorEq, bne_iff_ne, ne_eq, not_false_eq_true, decide_true, decide_false, if_true] at hts <;>
    (try contradiction) <;> (repeat' split at hts) <;> (try contradiction) <;> (try (simp at hts; done)) <;>
    (obtain ⟨rfl, rfl⟩ := pair_of hts) <;> clear hts <;> (constructor <;> simp only [] <;> first | grind | grind (splits := 25) (instances := 4000) | (intro o c hc; have hx := hpk o c; have hy := hpkt c; have hz := ch o c; have hw := gch o c; by_cases hot : o = t <;> first | grind | grind (splits := 25) (instances := 4000)) | (have hq := hps _ _ (by assumption); first | grind | grind (splits := 25) (instances := 4000) | (intro o c hc; have hx := hpk o c; have hy := hpkt c; have hz := ch o c; have hw := gch o c; by_cases hot : o = t <;> first | grind | grind (splits := 25) (instances := 4000))))

end MayVerif.Scope
