import MayVerif.Proof.Scope.InvH1.P_idle
import MayVerif.Proof.Scope.InvH1.P_body
import MayVerif.Proof.Scope.InvH1.P_inF
import MayVerif.Proof.Scope.InvH1.P_jd
import MayVerif.Proof.Scope.InvH1.P_jx
import MayVerif.Proof.Scope.InvH1.P_w2
import MayVerif.Proof.Scope.InvH1.P_w3
import MayVerif.Proof.Scope.InvH1.P_w4
import MayVerif.Proof.Scope.InvH1.P_w5
import MayVerif.Proof.Scope.InvH1.P_r1
import MayVerif.Proof.Scope.InvH1.P_r2
import MayVerif.Proof.Scope.InvH1.P_s1
import MayVerif.Proof.Scope.InvH1.P_left
import MayVerif.Proof.Scope.InvH1.P_e1
import MayVerif.Proof.Scope.InvH1.P_e2
import MayVerif.Proof.Scope.InvH1.P_e3
import MayVerif.Proof.Scope.InvH1.P_e4
import MayVerif.Proof.Scope.InvH1.P_pend
set_option linter.unusedSimpArgs false
set_option linter.unusedVariables false
namespace MayVerif.Scope

theorem invH1_tstep (n : Nat) (sh : Sh) (pcs : Tid → Pc) (t : Tid) (e : Env) (pc : Pc)
    (h : InvH1 ⟨n, sh, pcs⟩) (hG : InvG ⟨n, sh, pcs⟩) (hpc : pcs t = pc) (sh' : Sh) (pc' : Pc)
    (hts : tstep sh t pc e = some (sh', pc')) : InvH1 ⟨n, sh', upd pcs t pc'⟩ := by
  cases pc with
  | idle  => exact invH1_idle n sh pcs t e  h hG hpc sh' pc' hts
  | body  => exact invH1_body n sh pcs t e  h hG hpc sh' pc' hts
  | inF  => exact invH1_inF n sh pcs t e  h hG hpc sh' pc' hts
  | jd c k => exact invH1_jd n sh pcs t e c k h hG hpc sh' pc' hts
  | jx c k r => exact invH1_jx n sh pcs t e c k r h hG hpc sh' pc' hts
  | w2 c k => exact invH1_w2 n sh pcs t e c k h hG hpc sh' pc' hts
  | w3 c k b => exact invH1_w3 n sh pcs t e c k b h hG hpc sh' pc' hts
  | w4 c k b => exact invH1_w4 n sh pcs t e c k b h hG hpc sh' pc' hts
  | w5 c k => exact invH1_w5 n sh pcs t e c k h hG hpc sh' pc' hts
  | r1 c k => exact invH1_r1 n sh pcs t e c k h hG hpc sh' pc' hts
  | r2 c k => exact invH1_r2 n sh pcs t e c k h hG hpc sh' pc' hts
  | s1 c => exact invH1_s1 n sh pcs t e c h hG hpc sh' pc' hts
  | left  => exact invH1_left n sh pcs t e  h hG hpc sh' pc' hts
  | e1 v => exact invH1_e1 n sh pcs t e v h hG hpc sh' pc' hts
  | e2 v => exact invH1_e2 n sh pcs t e v h hG hpc sh' pc' hts
  | e3  => exact invH1_e3 n sh pcs t e  h hG hpc sh' pc' hts
  | e4  => exact invH1_e4 n sh pcs t e  h hG hpc sh' pc' hts
  | pend  => exact invH1_pend n sh pcs t e  h hG hpc sh' pc' hts
  | fin => simp [tstep] at hts

theorem invH1_step (s s' : St) (t : Tid) (e : Env) (h : InvH1 s) (hG : InvG s) (hs : step s t e = some s') : InvH1 s' := by
  obtain ⟨n, sh, pcs⟩ := s
  simp only [step] at hs
  split at hs
  case isFalse => contradiction
  split at hs
  · contradiction
  next sh' pc' hts =>
  simp only [Option.some.injEq] at hs
  subst hs
  exact invH1_tstep n sh pcs t e _ h hG rfl sh' pc' hts

end MayVerif.Scope
