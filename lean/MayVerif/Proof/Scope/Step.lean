/-
  `Inv` is preserved by every step of the Scope model.
-/
import MayVerif.Proof.Scope.Join
namespace MayVerif.Scope

set_option hygiene false in
macro "open_inv" : tactic => `(tactic| (
  obtain ⟨tb, wb, pb, e4, ch, lf, kd, pd⟩ := h
  simp only [okO] at tb wb pb e4 ch lf kd pd))

macro "close_inv" : tactic => `(tactic| (constructor <;> simp only [okO] <;> grind))

theorem pair_of {α β : Type} {x : α × β} {a : α} {b : β} (h : some x = some (a, b)) : a = x.1 ∧ b = x.2 := by
  cases h; exact ⟨rfl, rfl⟩

set_option hygiene false in
macro "got" : tactic => `(tactic| (
  obtain ⟨rfl, rfl⟩ := pair_of hts
  clear hts
  try simp only []))

theorem nj_of (pc : Pc) (h : ∀ c, joining pc c = false) (sh : Sh) (t : Tid) :
    ∀ c, okO sh t = true → joining pc c = true → sh.fin c = true := by
  intro c _ hc; rw [h c] at hc; contradiction

set_option maxHeartbeats 1000000 in
theorem inv_idle (n : Nat) (sh : Sh) (pcs : Tid → Pc) (t : Tid) (e : Env)
    (h : Inv ⟨n, sh, pcs⟩) (hpc : pcs t = .idle) (sh' : Sh) (pc' : Pc)
    (hts : tstep sh t .idle e = some (sh', pc')) : Inv ⟨n, sh', upd pcs t pc'⟩ := by
  have hnj : ∀ c, joining (pcs t) c = false := by intro c; rw [hpc]; rfl
  cases e <;> simp only [tstep] at hts <;> try contradiction
  · -- begin
    split at hts
    · split at hts
      · got; exact inv_move n _ pcs t .body h rfl rfl rfl (by intro c; rfl) (by intro c; rfl) (nj_of _ hnj _ t)
      · contradiction
    · split at hts
      · got; exact inv_move n _ pcs t .body h rfl rfl rfl (by intro c; rfl) (by intro c; rfl) (nj_of _ hnj _ t)
      · contradiction
  · -- spawn
    split at hts
    · got; open_inv; close_inv
    · contradiction
  · -- join
    split at hts
    · got; open_inv
      next c hg =>
      have hc := fun o => ch o c
      simp only [Bool.and_eq_true, Bool.not_eq_eq_eq_not, Bool.not_true, decide_eq_true_eq] at hg
      close_inv
    · contradiction
  · -- cancel
    split at hts
    · got; open_inv
      next c _ =>
      have hok : ∀ o, (sh.fixed || !upd sh.canc c true o) = true → (sh.fixed || !sh.canc o) = true := by
        intro o; simp only [upd]; split <;> simp_all
      constructor <;> simp only [okO] <;> grind
    · contradiction

set_option maxHeartbeats 1000000 in
theorem inv_body (n : Nat) (sh : Sh) (pcs : Tid → Pc) (t : Tid) (e : Env)
    (h : Inv ⟨n, sh, pcs⟩) (hpc : pcs t = .body) (sh' : Sh) (pc' : Pc)
    (hts : tstep sh t .body e = some (sh', pc')) : Inv ⟨n, sh', upd pcs t pc'⟩ := by
  have hnj : ∀ c, joining (pcs t) c = false := by intro c; rw [hpc]; rfl
  cases e <;> simp only [tstep] at hts <;> try contradiction
  · -- enter
    got; open_inv; close_inv
  · -- endv
    split at hts
    · got
      apply inv_same n sh _ _ (by simp [Same])
      split
      · split
        · exact inv_move n _ pcs t _ h rfl rfl rfl (by intro c; rfl) (by intro c; rfl) (nj_of _ hnj _ t)
        · exact inv_move n _ pcs t _ h rfl rfl rfl (by intro c; rfl) (by intro c; rfl) (nj_of _ hnj _ t)
      · exact inv_move n _ pcs t _ h rfl rfl rfl (by intro c; rfl) (by intro c; rfl) (nj_of _ hnj _ t)
    · contradiction
  · -- panic
    split at hts
    · got
      apply inv_same n sh _ _ (by simp [Same])
      split
      · exact inv_move n _ pcs t _ h rfl rfl rfl (by intro c; rfl) (by intro c; rfl) (nj_of _ hnj _ t)
      · exact inv_move n _ pcs t _ h rfl rfl rfl (by intro c; rfl) (by intro c; rfl) (nj_of _ hnj _ t)
    · contradiction
  · -- chit
    split at hts
    · got
      apply inv_same n sh _ _ (by simp [Same])
      exact inv_move n _ pcs t _ h rfl rfl rfl (by intro c; rfl) (by intro c; rfl) (nj_of _ hnj _ t)
    · contradiction

set_option maxHeartbeats 1000000 in
theorem inv_inF (n : Nat) (sh : Sh) (pcs : Tid → Pc) (t : Tid) (e : Env)
    (h : Inv ⟨n, sh, pcs⟩) (hpc : pcs t = .inF) (sh' : Sh) (pc' : Pc)
    (hts : tstep sh t .inF e = some (sh', pc')) : Inv ⟨n, sh', upd pcs t pc'⟩ := by
  have hnj : ∀ c, joining (pcs t) c = false := by intro c; rw [hpc]; rfl
  cases e <;> simp only [tstep] at hts <;> try contradiction
  · -- spawn
    split at hts
    · got; open_inv; close_inv
    · contradiction
  · -- sjoin
    split at hts
    · got; open_inv; close_inv
    · contradiction
  · -- fend
    got; exact inv_toDtor n sh pcs t h (nj_of _ hnj _ t)
  · -- fpanic
    split at hts
    · got; exact inv_toDtor n _ pcs t (inv_same n sh _ _ (by simp [Same]) h) (by simpa [okO] using nj_of _ hnj sh t)
    · contradiction
  · -- chit
    split at hts
    · got; exact inv_toDtor n _ pcs t (inv_same n sh _ _ (by simp [Same]) h) (by simpa [okO] using nj_of _ hnj sh t)
    · contradiction

end MayVerif.Scope
