/-
  Invariant of the Scope model that carries `scope_exit_after_children`.
-/
import MayVerif.Model.Scope
namespace MayVerif.Scope

/-- the owner is inside a scoped join of `c` and has not yet seen it finished -/
@[grind] def joining : Pc → Tid → Bool
  | .jd c' k, c | .jx c' k true, c | .w2 c' k, c | .w3 c' k _, c | .w4 c' k _, c => c' == c && k != .top
  | _, _ => false

/-- the owner is past the wait of the scoped join of `c` (`w5`: the re-check has seen it finished) -/
@[grind] def pastDone : Pc → Tid → Bool
  | .jx c' k false, c | .w5 c' k, c | .r1 c' k, c | .r2 c' k, c => c' == c && k != .top
  | .s1 c', c => c' == c
  | _, _ => false

/-- blocker an actor waits on, and for whom -/
@[grind] def blkOf : Pc → Option (Tid × Bid)
  | .w3 c _ b | .w4 c _ b => some (c, b)
  | _ => none

@[grind] def atE4 : Pc → Bool | .e4 => true | _ => false
@[grind] def atLeft : Pc → Bool | .left => true | _ => false

/-- the case `scope_exit_after_children` covers for owner `o`: the fixed code, or an owner that is not cancelled -/
@[grind] def okO (sh : Sh) (o : Tid) : Bool := sh.fixed || !sh.canc o

structure Inv (s : St) : Prop where
  tb : ∀ b, s.sh.tok b = true → b < s.sh.nextB ∧ s.sh.fin (s.sh.bfor b) = true
  wb : ∀ c b, s.sh.wake c = some b → b < s.sh.nextB ∧ s.sh.bfor b = c
  pb : ∀ o c b, blkOf (s.pcs o) = some (c, b) → b < s.sh.nextB ∧ s.sh.bfor b = c
  e4 : ∀ c, atE4 (s.pcs c) = true → s.sh.fin c = true
  ch : ∀ o c, c ∈ s.sh.chain o → s.sh.par c = o ∧ s.sh.spawned c = true ∧ s.sh.sco c = true
  lf : ∀ o, atLeft (s.pcs o) = true → s.sh.chain o = []
  kd : ∀ o c, okO s.sh o = true → c ∈ s.sh.kids o →
        s.sh.fin c = true ∨ (c ∈ s.sh.chain o ∧ s.sh.joined c = false) ∨ joining (s.pcs o) c = true
  pd : ∀ o c, okO s.sh o = true → pastDone (s.pcs o) c = true → s.sh.fin c = true

theorem popChain_some (j : Tid → Bool) (l : List Tid) (c : Tid) (r : List Tid) (h : popChain j l = some (c, r)) :
    j c = false ∧ c ∈ l ∧ (∀ x, x ∈ r → x ∈ l) ∧ (∀ x, x ∈ l → x = c ∨ x ∈ r ∨ j x = true) := by
  induction l with
  | nil => simp [popChain] at h
  | cons a t ih =>
    simp only [popChain] at h
    split at h
    next hj =>
      obtain ⟨h1, h2, h3, h4⟩ := ih h
      refine ⟨h1, List.mem_cons_of_mem _ h2, fun x hx => List.mem_cons_of_mem _ (h3 x hx), ?_⟩
      intro x hx
      rcases List.mem_cons.mp hx with rfl | hx
      · exact Or.inr (Or.inr hj)
      · exact h4 x hx
    next hj =>
      simp only [Option.some.injEq, Prod.mk.injEq] at h
      obtain ⟨rfl, rfl⟩ := h
      refine ⟨by simpa using hj, List.mem_cons_self, fun x hx => List.mem_cons_of_mem _ hx, ?_⟩
      intro x hx
      rcases List.mem_cons.mp hx with rfl | hx
      · exact Or.inl rfl
      · exact Or.inr (Or.inl hx)

theorem popChain_none (j : Tid → Bool) (l : List Tid) (h : popChain j l = none) : ∀ x, x ∈ l → j x = true := by
  induction l with
  | nil => intro x hx; simp at hx
  | cons a t ih =>
    simp only [popChain] at h
    split at h
    next hj =>
      intro x hx
      rcases List.mem_cons.mp hx with rfl | hx
      · exact hj
      · exact ih h x hx
    next hj => simp at h

theorem inv_init (n : Nat) (f : Bool) : Inv (init n f) := by
  constructor <;> simp [init, blkOf, atE4, atLeft, pastDone, joining]

end MayVerif.Scope
