/-
  Monotonicity facts of the Scope model: the configuration bit never changes, cancel bits are only ever set.
-/
import MayVerif.Proof.Scope.Step
namespace MayVerif.Scope

/-- what every step preserves -/
def Keeps (a b : Sh) : Prop := b.fixed = a.fixed ∧ ∀ o, a.canc o = true → b.canc o = true

theorem keeps_refl (a : Sh) : Keeps a a := ⟨rfl, fun _ h => h⟩

theorem keeps_toDtor (sh : Sh) (t : Tid) : Keeps sh (toDtor sh t).1 := by
  unfold toDtor; split <;> exact ⟨rfl, fun _ h => h⟩

theorem keeps_trans {a b c : Sh} (h1 : Keeps a b) (h2 : Keeps b c) : Keeps a c :=
  ⟨h2.1.trans h1.1, fun o h => h2.2 o (h1.2 o h)⟩

theorem keeps_finishJoin (sh : Sh) (t c : Tid) (k : K) (r : Res) : Keeps sh (finishJoin sh t c k r).1 := by
  unfold finishJoin
  cases k <;> simp only []
  · split
    · cases r <;> simp only [] <;> (try split) <;>
        first | exact keeps_trans ⟨rfl, fun _ h => h⟩ (keeps_toDtor _ t) | exact ⟨rfl, fun _ h => h⟩
    · exact keeps_trans ⟨rfl, fun _ h => h⟩ (keeps_toDtor _ t)
  · split
    · cases r <;> simp only [] <;> (try split) <;>
        first | exact keeps_trans ⟨rfl, fun _ h => h⟩ (keeps_toDtor _ t) | exact ⟨rfl, fun _ h => h⟩
    · exact keeps_trans ⟨rfl, fun _ h => h⟩ (keeps_toDtor _ t)
  · exact ⟨rfl, fun _ h => h⟩

theorem keeps_takePacket (sh : Sh) (t c : Tid) (k : K) : Keeps sh (takePacket sh t c k).1 := by
  unfold takePacket
  split
  · exact keeps_trans ⟨rfl, fun _ h => h⟩ (keeps_finishJoin _ t c k .ok)
  · exact keeps_refl sh

theorem keeps_storeBlocker (sh : Sh) (c : Tid) (k : K) : Keeps sh (storeBlocker sh c k).1 := ⟨rfl, fun _ h => h⟩

theorem keeps_trigger2 (sh : Sh) (t : Tid) : Keeps sh (trigger2 sh t) := by
  unfold trigger2; split <;> exact ⟨rfl, fun _ h => h⟩

set_option maxHeartbeats 2000000 in
theorem keeps_tstep (sh : Sh) (t : Tid) (pc : Pc) (e : Env) (sh' : Sh) (pc' : Pc)
    (hts : tstep sh t pc e = some (sh', pc')) : Keeps sh sh' := by
  have K1 := keeps_toDtor
  have K2 := keeps_finishJoin
  have K3 := keeps_takePacket
  have K4 := keeps_storeBlocker
  have K5 := keeps_trigger2
  cases pc <;> cases e <;> simp only [tstep] at hts <;> (try contradiction) <;>
    (repeat' split at hts) <;> (try contradiction) <;> (try (simp at hts; done)) <;>
    (obtain ⟨rfl, rfl⟩ := pair_of hts) <;>
    first
    | exact ⟨rfl, fun _ h => h⟩
    | exact K1 _ _
    | exact K2 _ _ _ _ _
    | exact K3 _ _ _ _
    | exact K4 _ _ _
    | exact K5 _ _
    | exact keeps_trans ⟨rfl, fun _ h => h⟩ (K1 _ _)
    | exact keeps_trans ⟨rfl, fun _ h => h⟩ (K2 _ _ _ _ _)
    | (refine ⟨rfl, fun o h => ?_⟩; simp only [upd]; split <;> simp_all)

theorem keeps_step (s s' : St) (t : Tid) (e : Env) (hs : step s t e = some s') : Keeps s.sh s'.sh := by
  obtain ⟨n, sh, pcs⟩ := s
  simp only [step] at hs
  split at hs
  case isFalse => contradiction
  split at hs
  · contradiction
  next sh' pc' hts =>
  simp only [Option.some.injEq] at hs
  subst hs
  exact keeps_tstep sh t _ e sh' pc' hts

theorem keeps_run (s : St) (sched : List (Tid × Env)) : Keeps s.sh (run s sched).sh := by
  induction sched generalizing s with
  | nil => exact keeps_refl _
  | cons te r ih =>
    obtain ⟨t, e⟩ := te
    simp only [run]
    split
    · next s' hs => exact keeps_trans (keeps_step _ _ _ _ hs) (ih _)
    · exact ih _

end MayVerif.Scope
