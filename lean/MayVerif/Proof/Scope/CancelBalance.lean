/-
  Balance invariant of `Model/ScopeCancel.lean`: the cancel word is the cancel bit plus twice the number of open
  disable brackets, and `JoinState::join` holds exactly one of them exactly while it waits.
-/
import MayVerif.Model.ScopeCancel
namespace MayVerif.ScopeCancel

structure BInv (s : St) : Prop where
  sw : s.sh.swapped = false
  bal : ∀ t, s.sh.cst t = b2n (s.sh.bit t) + 2 * (s.sh.jo t + s.sh.fo t)
  o : ∀ t, s.pcs t = .out → s.sh.jo t = 0
  p0 : ∀ t, s.pcs t = .b0 → s.sh.jo t = 0 ∧ s.sh.fo t = s.sh.ent t
  p1 : ∀ t, s.pcs t = .b1 → s.sh.jo t = 1 ∧ s.sh.ent t ≤ s.sh.fo t
  p2 : ∀ t err, s.pcs t = .b2 err → s.sh.jo t = 1 ∧ s.sh.ent t ≤ s.sh.fo t
  p3 : ∀ t err, s.pcs t = .b3 err → s.sh.jo t = 0 ∧ s.sh.fo t = s.sh.ent t
  x : ∀ t a b r, s.sh.exit t = some (a, b, r) → a = b

theorem binv_init : BInv init := by
  constructor <;> simp [init, initWith, b2n]

theorem or1_bal (b : Bool) (k : Nat) : or1 (b2n b + 2 * k) = 1 + 2 * k := by
  cases b <;> simp [or1, b2n] <;> omega

set_option maxHeartbeats 1000000 in
theorem binv_step (s s' : St) (t : Nat) (e : Env) (h : BInv s) (hs : step s t e = some s') : BInv s' := by
  obtain ⟨sh, pcs⟩ := s
  obtain ⟨hsw, hbal, ho, h0, h1, h2, h3, hx⟩ := h
  simp only at hsw hbal ho h0 h1 h2 h3 hx
  cases e with
  | cancel c =>
    simp only [step, Option.some.injEq] at hs
    subst hs
    refine ⟨hsw, ?_, ho, h0, h1, h2, h3, hx⟩
    intro u
    simp only [upd]
    by_cases hu : u = c
    · subst hu; simp only [if_true]; rw [hbal u, or1_bal]; simp [b2n]
    · simp only [hu, if_false]; exact hbal u
  | _ =>
    all_goals
      simp only [step] at hs
      split at hs
      · contradiction
      next sh' pc' hts =>
      simp only [Option.some.injEq] at hs
      subst hs
      have hbt := hbal t
      have hot := ho t
      have h0t := h0 t
      have h1t := h1 t
      have h2t := h2 t
      have h3t := h3 t
      generalize hpc : pcs t = pc at hts hot h0t h1t h2t h3t
      cases pc <;> simp only [tstep, hsw] at hts <;> (try contradiction) <;> (repeat' split at hts) <;>
        (try contradiction) <;> (try (simp at hts; done)) <;>
        (simp only [Option.some.injEq, Prod.mk.injEq] at hts; obtain ⟨rfl, rfl⟩ := hts) <;>
        (constructor <;> simp only [upd, b2n] at * <;> first | assumption | grind)

theorem binv_run (s : St) (sched : List (Nat × Env)) (h : BInv s) : BInv (run s sched) := by
  induction sched generalizing s with
  | nil => simpa [run]
  | cons te r ih =>
    obtain ⟨t, e⟩ := te
    simp only [run]
    split
    · next s' hs => exact ih _ (binv_step _ _ _ _ h hs)
    · exact ih _ h

end MayVerif.ScopeCancel
