/-
  Preservation of `Inv` by the shared sub-steps of the Scope model: `toDtor` (run the next dtor / leave the
  scope) and updates of fields the invariant does not read.
-/
import MayVerif.Proof.Scope.Inv
namespace MayVerif.Scope

/-- the two states agree on everything `Inv` reads -/
def Same (a b : Sh) : Prop :=
  a.fixed = b.fixed ∧ a.tok = b.tok ∧ a.nextB = b.nextB ∧ a.fin = b.fin ∧ a.bfor = b.bfor ∧ a.wake = b.wake ∧
  a.chain = b.chain ∧ a.par = b.par ∧ a.spawned = b.spawned ∧ a.canc = b.canc ∧ a.kids = b.kids ∧ a.joined = b.joined ∧
  a.sco = b.sco

theorem inv_same (n : Nat) (a b : Sh) (pcs : Tid → Pc) (hs : Same a b) (h : Inv ⟨n, a, pcs⟩) : Inv ⟨n, b, pcs⟩ := by
  obtain ⟨h1, h2, h3, h4, h5, h6, h7, h8, h9, h10, h11, h12, h13⟩ := hs
  obtain ⟨tb, wb, pb, e4, ch, lf, kd, pd⟩ := h
  simp only [okO] at *
  constructor <;> simp only [okO, ← h1, ← h2, ← h3, ← h4, ← h5, ← h6, ← h7, ← h8, ← h9, ← h10, ← h11, ← h12, ← h13] <;> assumption

set_option maxHeartbeats 1000000 in
theorem inv_toDtor (n : Nat) (sh : Sh) (pcs : Tid → Pc) (t : Tid) (h : Inv ⟨n, sh, pcs⟩)
    (hj : ∀ c, okO sh t = true → joining (pcs t) c = true → sh.fin c = true) :
    Inv ⟨n, (toDtor sh t).1, upd pcs t (toDtor sh t).2⟩ := by
  obtain ⟨tb, wb, pb, e4, ch, lf, kd, pd⟩ := h
  simp only at tb wb pb e4 ch lf kd pd
  unfold toDtor
  split
  next hp =>
    have hall := popChain_none _ _ hp
    constructor <;> simp only [] <;> grind
  next c r hp =>
    obtain ⟨p1, p2, p3, p4⟩ := popChain_some _ _ _ _ hp
    have hcht := ch t
    constructor <;> simp only [] <;> grind

end MayVerif.Scope
