import MayVerif.Proof.Scope.InvH2.P_idle
import MayVerif.Proof.Scope.InvH2.P_body
import MayVerif.Proof.Scope.InvH2.P_inF
import MayVerif.Proof.Scope.InvH2.P_jd
import MayVerif.Proof.Scope.InvH2.P_jx
import MayVerif.Proof.Scope.InvH2.P_w2
import MayVerif.Proof.Scope.InvH2.P_w3
import MayVerif.Proof.Scope.InvH2.P_w4
import MayVerif.Proof.Scope.InvH2.P_w5
import MayVerif.Proof.Scope.InvH2.P_r1
import MayVerif.Proof.Scope.InvH2.P_r2
import MayVerif.Proof.Scope.InvH2.P_s1
import MayVerif.Proof.Scope.InvH2.P_left
import MayVerif.Proof.Scope.InvH2.P_e1
import MayVerif.Proof.Scope.InvH2.P_e2
import MayVerif.Proof.Scope.InvH2.P_e3
import MayVerif.Proof.Scope.InvH2.P_e4
import MayVerif.Proof.Scope.InvH2.P_pend
set_option linter.unusedSimpArgs false
set_option linter.unusedVariables false
namespace MayVerif.Scope

theorem invH2_tstep (n : Nat) (sh : Sh) (pcs : Tid → Pc) (t : Tid) (e : Env) (pc : Pc)
    (h : InvH2 ⟨n, sh, pcs⟩) (hG : InvG ⟨n, sh, pcs⟩) (hI : Inv ⟨n, sh, pcs⟩) (hH : InvH1 ⟨n, sh, pcs⟩) (hpc : pcs t = pc) (sh' : Sh) (pc' : Pc)
    (hts : tstep sh t pc e = some (sh', pc')) : InvH2 ⟨n, sh', upd pcs t pc'⟩ := by
  cases pc with
  | idle  => exact invH2_idle n sh pcs t e  h hG hI hH hpc sh' pc' hts
  | body  => exact invH2_body n sh pcs t e  h hG hI hH hpc sh' pc' hts
  | inF  => exact invH2_inF n sh pcs t e  h hG hI hH hpc sh' pc' hts
  | jd c k => exact invH2_jd n sh pcs t e c k h hG hI hH hpc sh' pc' hts
  | jx c k r => exact invH2_jx n sh pcs t e c k r h hG hI hH hpc sh' pc' hts
  | w2 c k => exact invH2_w2 n sh pcs t e c k h hG hI hH hpc sh' pc' hts
  | w3 c k b => exact invH2_w3 n sh pcs t e c k b h hG hI hH hpc sh' pc' hts
  | w4 c k b => exact invH2_w4 n sh pcs t e c k b h hG hI hH hpc sh' pc' hts
  | w5 c k => exact invH2_w5 n sh pcs t e c k h hG hI hH hpc sh' pc' hts
  | r1 c k => exact invH2_r1 n sh pcs t e c k h hG hI hH hpc sh' pc' hts
  | r2 c k => exact invH2_r2 n sh pcs t e c k h hG hI hH hpc sh' pc' hts
  | s1 c => exact invH2_s1 n sh pcs t e c h hG hI hH hpc sh' pc' hts
  | left  => exact invH2_left n sh pcs t e  h hG hI hH hpc sh' pc' hts
  | e1 v => exact invH2_e1 n sh pcs t e v h hG hI hH hpc sh' pc' hts
  | e2 v => exact invH2_e2 n sh pcs t e v h hG hI hH hpc sh' pc' hts
  | e3  => exact invH2_e3 n sh pcs t e  h hG hI hH hpc sh' pc' hts
  | e4  => exact invH2_e4 n sh pcs t e  h hG hI hH hpc sh' pc' hts
  | pend  => exact invH2_pend n sh pcs t e  h hG hI hH hpc sh' pc' hts
  | fin => simp [tstep] at hts

theorem invH2_step (s s' : St) (t : Tid) (e : Env) (h : InvH2 s) (hG : InvG s) (hI : Inv s) (hH : InvH1 s)
    (hs : step s t e = some s') : InvH2 s' := by
  obtain ⟨n, sh, pcs⟩ := s
  simp only [step] at hs
  split at hs
  case isFalse => contradiction
  split at hs
  · contradiction
  next sh' pc' hts =>
  simp only [Option.some.injEq] at hs
  subst hs
  exact invH2_tstep n sh pcs t e _ h hG hI hH rfl sh' pc' hts

/-- all invariants of the Scope model together -/
structure InvAll (s : St) : Prop where
  i : Inv s
  g : InvG s
  h1 : InvH1 s
  h2 : InvH2 s

theorem invAll_init (n : Nat) (f : Bool) : InvAll (init n f) :=
  ⟨inv_init n f, invG_init n f, invH1_init n f, invH2_init n f⟩

theorem invAll_run (s : St) (sched : List (Tid × Env)) (h : InvAll s) : InvAll (run s sched) := by
  induction sched generalizing s with
  | nil => simpa [run]
  | cons te r ih =>
    obtain ⟨t, e⟩ := te
    simp only [run]
    split
    · next s' hs =>
      exact ih _ ⟨inv_step _ _ _ _ h.i hs, invG_step _ _ _ _ h.g h.i hs, invH1_step _ _ _ _ h.h1 h.g hs,
                  invH2_step _ _ _ _ h.h2 h.g h.i h.h1 hs⟩
    · exact ih _ h

end MayVerif.Scope
