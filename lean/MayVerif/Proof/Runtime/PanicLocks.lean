/-
  Invariant of the lock-and-poison system of `Model/Runtime/Panic.lean`.
-/
import MayVerif.Model.Runtime.Panic
namespace MayVerif.Panic

structure LInv (s : LSt) : Prop where
  a : ∀ m t, s.sh.held m = some t → m ∈ s.sh.hl t
  b : ∀ t m, m ∈ s.sh.hl t → s.sh.held m = some t
  c : ∀ t, (s.sh.hl t).Nodup
  p : ∀ m, s.sh.poi m = s.sh.pin m
  sw : s.sh.swapped = false
  d : ∀ t m dn, s.pcs t = .d1 m dn → m ∈ s.sh.hl t
  e : ∀ t m, s.pcs t = .d1 m true → s.sh.poi m = true
  f : ∀ m, s.sh.rel m = true → s.sh.poi m = true
  g : ∀ m, s.sh.cleanAfter m = false
  x : ∀ m t, s.sh.held m = some t → s.sh.rd m = 0

theorem linv_init : LInv linit := by
  constructor <;> simp [linit, linitWith]

theorem flagDone_false (g c : Bool) : flagDone g false c = false := by simp [flagDone]
theorem flagDone_true (g c : Bool) : flagDone g true c = (!g && !c) := by simp [flagDone]

set_option maxHeartbeats 1000000 in
theorem linv_step (s s' : LSt) (t : Nat) (tp : Bool) (e : LEnv) (h : LInv s) (hs : lstep s t tp e = some s') : LInv s' := by
  obtain ⟨sh, pcs⟩ := s
  obtain ⟨ha, hb, hc, hp, hsw, hd, he, hf, hg, hx⟩ := h
  simp only at ha hb hc hp hsw hd he hf hg hx
  simp only [lstep] at hs
  split at hs
  · contradiction
  next sh' pc' hts =>
  simp only [Option.some.injEq] at hs
  subst hs
  generalize hpc : pcs t = pc at hts
  have hct := hc t
  have hdt := hd t
  have het := he t
  cases pc <;> cases e <;> simp only [ltstep, hsw] at hts <;> (try contradiction) <;> (repeat' split at hts) <;>
    (try contradiction) <;> (try (simp at hts; done)) <;>
    (simp only [Option.some.injEq, Prod.mk.injEq] at hts; obtain ⟨rfl, rfl⟩ := hts)
  all_goals
    (constructor <;> simp only [flagDone_false, flagDone_true, Bool.or_false, sawClean, upd] <;>
        first
        | assumption
        | grind [List.Nodup.mem_erase_iff, List.Nodup.erase, List.nodup_cons, List.mem_cons_self])

theorem linv_run (s : LSt) (sched : List (Nat × Bool × LEnv)) (h : LInv s) : LInv (lrun s sched) := by
  induction sched generalizing s with
  | nil => simpa [lrun]
  | cons te r ih =>
    obtain ⟨t, tp, e⟩ := te
    simp only [lrun]
    split
    · next s' hs => exact ih _ (linv_step _ _ _ _ _ h hs)
    · exact ih _ h

/-! the history of a stack -/

theorem wnext_run (w : W) (e : Ending) (h : Bool) (hl : w.lazy = false) (hg : w.generr = none) :
    (wrun 8 (wnext w e h)).generr = none ∧ (wrun 8 (wnext w e h)).lazy = false ∧
    (wrun 8 (wnext w e h)).pslot = ownPayload e ∧ (wrun 8 (wnext w e h)).pc = .idle := by
  cases e <;> simp [wrun, wstep, wnext, hl, hg, ownPayload]

theorem wseq_clean (w : W) (l : List (Ending × Bool)) (hl : w.lazy = false) (hg : w.generr = none) :
    (wseq w l).generr = none ∧ (wseq w l).lazy = false := by
  induction l generalizing w with
  | nil => exact ⟨hg, hl⟩
  | cons eh r ih =>
    obtain ⟨e, h⟩ := eh
    have := wnext_run w e h hl hg
    exact ih _ this.2.1 this.1

theorem wseq_append (w : W) (a b : List (Ending × Bool)) : wseq w (a ++ b) = wseq (wseq w a) b := by
  induction a generalizing w with
  | nil => rfl
  | cons eh r ih => obtain ⟨e, h⟩ := eh; simp [wseq, ih]

end MayVerif.Panic
