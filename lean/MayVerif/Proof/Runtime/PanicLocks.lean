/-
  Invariant of the lock-and-poison system of `Model/Runtime/Panic.lean`.
-/
import MayVerif.Model.Runtime.Panic
namespace MayVerif.Panic

structure LInv (s : LSt) : Prop where
  a : ∀ m t, s.sh.held m = some t → m ∈ s.sh.hl t
  b : ∀ t m, m ∈ s.sh.hl t → s.sh.held m = some t
  c : ∀ t, (s.sh.hl t).Nodup
  p : ∀ m, s.sh.poi m = s.sh.pin m

theorem linv_init : LInv linit := by
  constructor <;> simp [linit]

theorem flagDone_false (g c : Bool) : flagDone g false c = false := by simp [flagDone]
theorem flagDone_true (g c : Bool) : flagDone g true c = (!g && !c) := by simp [flagDone]

set_option maxHeartbeats 1000000 in
theorem linv_step (s s' : LSt) (t : Nat) (tp : Bool) (e : LEnv) (h : LInv s) (hs : lstep s t tp e = some s') : LInv s' := by
  obtain ⟨sh, pcs⟩ := s
  obtain ⟨ha, hb, hc, hp⟩ := h
  simp only at ha hb hc hp
  simp only [lstep] at hs
  split at hs
  · contradiction
  next sh' pc' hts =>
  simp only [Option.some.injEq] at hs
  subst hs
  generalize pcs t = pc at hts
  have hct := hc t
  cases pc <;> cases e <;> simp only [ltstep] at hts <;> (try contradiction) <;> (repeat' split at hts) <;>
    (try contradiction) <;> (try (simp at hts; done)) <;>
    (simp only [Option.some.injEq, Prod.mk.injEq] at hts; obtain ⟨rfl, rfl⟩ := hts)
  all_goals first
    | exact ⟨ha, hb, hc, hp⟩
    | (constructor <;> simp only [flagDone_false, flagDone_true, Bool.or_false] <;>
        grind [List.Nodup.mem_erase_iff, List.Nodup.erase, List.nodup_cons, List.mem_cons, List.mem_cons_self])

theorem linv_run (s : LSt) (sched : List (Nat × Bool × LEnv)) (h : LInv s) : LInv (lrun s sched) := by
  induction sched generalizing s with
  | nil => simpa [lrun]
  | cons te r ih =>
    obtain ⟨t, tp, e⟩ := te
    simp only [lrun]
    split
    · next s' hs => exact ih _ (linv_step _ _ _ _ _ h hs)
    · exact ih _ h

end MayVerif.Panic
