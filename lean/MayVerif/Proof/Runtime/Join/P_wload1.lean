import MayVerif.Proof.Runtime.Join.Tac
namespace MayVerif.Join

set_option maxHeartbeats 2000000 in
theorem inv_wload1 (n : Nat) (sh : Sh) (fpc : FPc) (pcs : Tid → JPc) (t : Tid) (e : Env) (k : K)
    (hlt : t < n) (h : Inv ⟨n, sh, fpc, pcs⟩) (hpc : pcs t = .wload1 k) (sh' : Sh) (pc' : JPc)
    (hts : jstep sh (.wload1 k) e = some (sh', pc')) : Inv ⟨n, sh', fpc, upd pcs t pc'⟩ := by
  jstart
  simp only [jstep] at hts
  cases k <;> cases hst : sh.state <;> simp only [hst, contK, if_true, if_false, Bool.false_eq_true] at hts <;> jdone

end MayVerif.Join
