/-
  Invariant of the Join model (`Model/Runtime/Join.lean`): ∀-only clauses over Bool/Option-valued pc predicates.
-/
import MayVerif.Model.Runtime.Join
namespace MayVerif.Join

/-- `state.store(false)` has been performed -/
@[grind] def past : FPc → Bool | .take | .unpark _ | .done => true | _ => false
/-- the result (packet / panic payload) is in place: the finishing side is at or after `state.store(false)` -/
@[grind] def afterData : FPc → Bool | .sstore | .take | .unpark _ | .done => true | _ => false
/-- `to_wake.take` of the finishing side has not happened yet -/
@[grind] def preTake : FPc → Bool | .run | .pstore _ | .setpanic _ | .sstore | .take => true | _ => false
/-- the blocker a joiner owns -/
@[grind] def holds : JPc → Option Bid
  | .wstore _ b | .wload2 _ b | .wpark _ b | .wtake _ b => some b
  | _ => none
/-- registered: between `to_wake.store` and leaving `wait` -/
@[grind] def inA : JPc → Bool | .wload2 .. | .wpark .. | .wtake .. => true | _ => false
@[grind] def atStore : JPc → Option Bid | .wstore _ b => some b | _ => none
@[grind] def isPark : JPc → Option Bid | .wpark _ b => some b | _ => none
@[grind] def inJoin : JPc → Bool
  | .wload1 .join | .wstore .join _ | .wload2 .join _ | .wpark .join _ | .wtake .join _ | .ptake | .panictake
  | .idle (.joined _) => true
  | _ => false
@[grind] def prePtake : JPc → Bool
  | .wload1 .join | .wstore .join _ | .wload2 .join _ | .wpark .join _ | .wtake .join _ | .ptake => true
  | _ => false
@[grind] def prePanic : JPc → Bool
  | .wload1 .join | .wstore .join _ | .wload2 .join _ | .wpark .join _ | .wtake .join _ | .ptake | .panictake => true
  | _ => false
/-- the joiner has been told that the coroutine is done -/
@[grind] def retd : JPc → Bool
  | .wtake .. | .idle .waited | .idle (.isDone true) | .ptake | .panictake | .idle (.joined _) => true
  | _ => false
@[grind] def atPanicTake : JPc → Bool | .panictake => true | _ => false
@[grind] def isUnwound : JPc → Bool | .unwound => true | _ => false
@[grind] def joinedRes : JPc → Option JRes | .idle (.joined r) => some r | _ => none

structure Inv (s : St) : Prop where
  i_state : s.sh.state = !past s.fpc
  o_run : s.fpc = .run → s.sh.outcome = none
  o_some : s.sh.outcome = none → s.fpc = .run
  o_ps : ∀ v, s.fpc = .pstore v → s.sh.outcome = some (.value v)
  o_sp : ∀ p, s.fpc = .setpanic p → s.sh.outcome = some (.panic p)
  p1 : ∀ v, s.sh.packet = some v → s.sh.outcome = some (.value v)
  p2 : ∀ v, s.sh.outcome = some (.value v) → afterData s.fpc = true → s.sh.ptaken = false → s.sh.packet = some v
  q1 : ∀ p, s.sh.panic = some p → s.sh.outcome = some (.panic p)
  q2 : ∀ p, s.sh.outcome = some (.panic p) → afterData s.fpc = true → s.sh.qtaken = false → s.sh.panic = some p
  j1 : ∀ t, inJoin (s.pcs t) = true → s.sh.joined = true
  j2 : ∀ t u, inJoin (s.pcs t) = true → inJoin (s.pcs u) = true → t = u
  j3 : ∀ t, prePtake (s.pcs t) = true → s.sh.ptaken = false
  j4 : ∀ t, prePanic (s.pcs t) = true → s.sh.qtaken = false
  j5 : s.sh.joined = false → s.sh.ptaken = false ∧ s.sh.qtaken = false
  r1 : ∀ t, retd (s.pcs t) = true → s.sh.state = false
  r3 : ∀ t v, atPanicTake (s.pcs t) = true → s.sh.outcome ≠ some (.value v)
  r2 : ∀ t r o, joinedRes (s.pcs t) = some r → s.sh.outcome = some o → r = resOf o
  t1 : ∀ b, s.sh.tok b = true → s.sh.state = false
  b1 : ∀ t b, holds (s.pcs t) = some b → b < s.sh.nextB
  b2 : ∀ t u b, holds (s.pcs t) = some b → holds (s.pcs u) = some b → t = u
  b3 : ∀ b, s.sh.toWake = some b → b < s.sh.nextB
  b4 : ∀ b, s.fpc = .unpark b → b < s.sh.nextB
  c1 : s.sh.clobber = false → s.sh.state = true → ∀ t u, inA (s.pcs t) = true → inA (s.pcs u) = true → t = u
  c2 : s.sh.clobber = false → s.sh.state = true → ∀ t, inA (s.pcs t) = true → s.sh.toWake = holds (s.pcs t)
  c3 : s.sh.clobber = false → ∀ t u b, isPark (s.pcs t) = some b → u ≠ t → inA (s.pcs u) = true → s.sh.toWake ≠ some b
  n1 : s.sh.clobber = false → ∀ t b, isPark (s.pcs t) = some b →
        s.sh.tok b = true ∨ s.fpc = .unpark b ∨ (s.sh.toWake = some b ∧ preTake s.fpc = true)
  v1 : ∀ b, s.sh.nextB ≤ b → s.sh.tok b = false
  g0 : ∀ t b, atStore (s.pcs t) = some b → s.sh.tok b = false ∧ s.sh.toWake ≠ some b ∧ s.fpc ≠ .unpark b
  g1 : ∀ b, s.sh.toWake = some b → s.sh.tok b = false ∧ s.fpc ≠ .unpark b
  s1 : s.n = 1 → s.sh.clobber = false ∧ ∀ b, s.sh.toWake = some b → (holds (s.pcs 0) = some b ∧ inA (s.pcs 0) = true) ∨ isUnwound (s.pcs 0) = true

theorem inv_init (n : Nat) : Inv (init n) := by
  constructor <;> simp [init, past, afterData, holds, inA, isPark, atStore, inJoin, prePtake, prePanic, retd, atPanicTake, joinedRes]

theorem prePtake_inJoin (pc : JPc) (h : prePtake pc = true) : inJoin pc = true := by
  unfold prePtake at h; unfold inJoin; split at h <;> simp_all
theorem prePanic_inJoin (pc : JPc) (h : prePanic pc = true) : inJoin pc = true := by
  unfold prePanic at h; unfold inJoin; split at h <;> simp_all
theorem prePtake_prePanic (pc : JPc) (h : prePtake pc = true) : prePanic pc = true := by
  unfold prePtake at h; unfold prePanic; split at h <;> simp_all
theorem atStore_holds (pc : JPc) (b : Bid) (h : atStore pc = some b) : holds pc = some b ∧ inA pc = false := by
  unfold atStore at h; unfold holds inA; split at h <;> simp_all
theorem inA_holds (pc : JPc) (h : inA pc = true) : holds pc ≠ none := by
  unfold inA at h; unfold holds; split at h <;> simp_all
theorem isPark_holds (pc : JPc) (b : Bid) (h : isPark pc = some b) : holds pc = some b ∧ inA pc = true := by
  unfold isPark at h; unfold holds inA; split at h <;> simp_all

theorem past_afterData (f : FPc) (h : past f = true) : afterData f = true ∧ f ≠ .run := by
  cases f <;> simp_all [past, afterData]
theorem notPast_preTake (f : FPc) (h : past f = false) : preTake f = true := by
  cases f <;> simp_all [past, preTake]
theorem resOf_value (v : Nat) : resOf (.value v) = .ok v := rfl
theorem resOf_panic (p : Nat) : resOf (.panic p) = .err p := rfl
theorem resOf_cancel : resOf .cancel = .errCancel := rfl
theorem outcome_cases (o : Outcome) : (∃ v, o = .value v) ∨ (∃ p, o = .panic p) ∨ o = .cancel := by
  cases o <;> simp

set_option hygiene false in
macro "jfin" : tactic => `(tactic| (constructor <;> simp only [] <;>
  first | grind [prePtake_inJoin, prePanic_inJoin, prePtake_prePanic, isPark_holds, inA_holds, atStore_holds, past_afterData, notPast_preTake, resOf_value, resOf_panic, resOf_cancel]
        | grind (splits := 40) [prePtake_inJoin, prePanic_inJoin, prePtake_prePanic, isPark_holds, inA_holds, atStore_holds, past_afterData, notPast_preTake, resOf_value, resOf_panic, resOf_cancel]))

end MayVerif.Join
