import MayVerif.Proof.Runtime.Join.Inv
namespace MayVerif.Join

set_option maxHeartbeats 2000000 in
theorem inv_fstep (n : Nat) (sh : Sh) (fpc : FPc) (pcs : Tid → JPc) (e : Env)
    (h : Inv ⟨n, sh, fpc, pcs⟩) (sh' : Sh) (f' : FPc) (hts : fstep sh fpc e = some (sh', f')) :
    Inv ⟨n, sh', f', pcs⟩ := by
  obtain ⟨i_state, o_run, o_some, o_ps, o_sp, p1, p2, q1, q2, j1, j2, j3, j4, j5, r1, r3, r2, t1, b1, b2, b3, b4, c1, c2, c3, n1, v1, g0, g1, s1⟩ := h
  simp only at i_state o_run o_some o_ps o_sp p1 p2 q1 q2 j1 j2 j3 j4 j5 r1 r3 r2 t1 b1 b2 b3 b4 c1 c2 c3 n1 v1 g0 g1 s1
  cases fpc with
  | run =>
    cases e <;> simp only [fstep] at hts <;> (try contradiction) <;>
      (simp only [Option.some.injEq, Prod.mk.injEq] at hts; obtain ⟨rfl, rfl⟩ := hts; jfin)
  | pstore v => simp only [fstep, Option.some.injEq, Prod.mk.injEq] at hts; obtain ⟨rfl, rfl⟩ := hts; jfin
  | setpanic p => simp only [fstep, Option.some.injEq, Prod.mk.injEq] at hts; obtain ⟨rfl, rfl⟩ := hts; jfin
  | sstore => simp only [fstep, Option.some.injEq, Prod.mk.injEq] at hts; obtain ⟨rfl, rfl⟩ := hts; jfin
  | take =>
    simp only [fstep] at hts
    split at hts <;> (simp only [Option.some.injEq, Prod.mk.injEq] at hts; obtain ⟨rfl, rfl⟩ := hts; jfin)
  | unpark b => simp only [fstep, Option.some.injEq, Prod.mk.injEq] at hts; obtain ⟨rfl, rfl⟩ := hts; jfin
  | done => simp [fstep] at hts

end MayVerif.Join
