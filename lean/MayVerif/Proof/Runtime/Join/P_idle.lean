import MayVerif.Proof.Runtime.Join.Tac
namespace MayVerif.Join

set_option maxHeartbeats 2000000 in
theorem inv_idle (n : Nat) (sh : Sh) (fpc : FPc) (pcs : Tid → JPc) (t : Tid) (e : Env) (l : Last)
    (hlt : t < n) (h : Inv ⟨n, sh, fpc, pcs⟩) (hpc : pcs t = .idle l) (sh' : Sh) (pc' : JPc)
    (hts : jstep sh (.idle l) e = some (sh', pc')) : Inv ⟨n, sh', fpc, upd pcs t pc'⟩ := by
  jstart
  cases e <;> cases l <;> simp only [jstep] at hts <;> (try contradiction) <;> (try split at hts) <;> (try contradiction) <;> jdone

end MayVerif.Join
