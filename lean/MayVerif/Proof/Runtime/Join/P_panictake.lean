import MayVerif.Proof.Runtime.Join.Tac
namespace MayVerif.Join

attribute [local grind cases] Outcome

set_option maxHeartbeats 2000000 in
theorem inv_panictake (n : Nat) (sh : Sh) (fpc : FPc) (pcs : Tid → JPc) (t : Tid) (e : Env)
    (hlt : t < n) (h : Inv ⟨n, sh, fpc, pcs⟩) (hpc : pcs t = .panictake) (sh' : Sh) (pc' : JPc)
    (hts : jstep sh (.panictake) e = some (sh', pc')) : Inv ⟨n, sh', fpc, upd pcs t pc'⟩ := by
  jstart
  simp only [jstep] at hts
  split at hts <;> jdone

end MayVerif.Join
