import MayVerif.Proof.Runtime.Join.P_fin
import MayVerif.Proof.Runtime.Join.P_idle
import MayVerif.Proof.Runtime.Join.P_dload
import MayVerif.Proof.Runtime.Join.P_wload1
import MayVerif.Proof.Runtime.Join.P_wstore
import MayVerif.Proof.Runtime.Join.P_wload2
import MayVerif.Proof.Runtime.Join.P_wpark
import MayVerif.Proof.Runtime.Join.P_wtake
import MayVerif.Proof.Runtime.Join.P_ptake
import MayVerif.Proof.Runtime.Join.P_panictake
namespace MayVerif.Join

theorem inv_step (s s' : St) (a : Actor) (e : Env) (h : Inv s) (hs : step s a e = some s') : Inv s' := by
  obtain ⟨n, sh, fpc, pcs⟩ := s
  cases a with
  | fin =>
    simp only [step] at hs
    split at hs
    · contradiction
    next sh' f' hts =>
    simp only [Option.some.injEq] at hs
    subst hs
    exact inv_fstep n sh fpc pcs e h sh' f' hts
  | j t =>
    simp only [step] at hs
    split at hs
    case isFalse => contradiction
    next hlt =>
    split at hs
    · contradiction
    next sh' pc' hts =>
    simp only [Option.some.injEq] at hs
    subst hs
    generalize hpc : pcs t = pc at hts
    cases pc with
    | idle l => exact inv_idle n sh fpc pcs t e l hlt h hpc sh' pc' hts
    | dload => exact inv_dload n sh fpc pcs t e hlt h hpc sh' pc' hts
    | wload1 k => exact inv_wload1 n sh fpc pcs t e k hlt h hpc sh' pc' hts
    | wstore k b => exact inv_wstore n sh fpc pcs t e k b hlt h hpc sh' pc' hts
    | wload2 k b => exact inv_wload2 n sh fpc pcs t e k b hlt h hpc sh' pc' hts
    | wpark k b => exact inv_wpark n sh fpc pcs t e k b hlt h hpc sh' pc' hts
    | wtake k b => exact inv_wtake n sh fpc pcs t e k b hlt h hpc sh' pc' hts
    | ptake => exact inv_ptake n sh fpc pcs t e hlt h hpc sh' pc' hts
    | panictake => exact inv_panictake n sh fpc pcs t e hlt h hpc sh' pc' hts
    | unwound => simp [jstep] at hts

theorem inv_run (s : St) (sched : List (Actor × Env)) (h : Inv s) : Inv (run s sched) := by
  induction sched generalizing s with
  | nil => simpa [run]
  | cons te r ih =>
    obtain ⟨t, e⟩ := te
    simp only [run]
    split
    · next s' hs => exact ih _ (inv_step _ _ _ _ h hs)
    · exact ih _ h

theorem step_n (s s' : St) (a : Actor) (e : Env) (hs : step s a e = some s') : s'.n = s.n := by
  cases a with
  | fin =>
    simp only [step] at hs
    split at hs
    · contradiction
    · simp only [Option.some.injEq] at hs; subst hs; rfl
  | j t =>
    simp only [step] at hs
    split at hs
    · split at hs
      · contradiction
      · simp only [Option.some.injEq] at hs; subst hs; rfl
    · contradiction

theorem run_n (s : St) (l : List (Actor × Env)) : (run s l).n = s.n := by
  induction l generalizing s with
  | nil => rfl
  | cons te r ih =>
    obtain ⟨t, e⟩ := te
    simp only [run]
    split
    · next s' hs => rw [ih, step_n _ _ _ _ hs]
    · exact ih _

/-- once the finishing side is done, a joiner that is parked without its token stays so -/
theorem stuck_step (s s' : St) (a : Actor) (e : Env) (t : Tid) (k : K) (b : Bid) (hs : step s a e = some s')
    (hf : s.fpc = .done) (hp : s.pcs t = .wpark k b ∨ s.pcs t = .unwound) (ht : s.sh.tok b = false) :
    s'.fpc = .done ∧ (s'.pcs t = .wpark k b ∨ s'.pcs t = .unwound) ∧ s'.sh.tok b = false := by
  obtain ⟨n, sh, fpc, pcs⟩ := s
  simp only at hf hp ht
  subst hf
  cases a with
  | fin => simp [step, fstep] at hs
  | j u =>
    simp only [step] at hs
    split at hs <;> try contradiction
    split at hs <;> try contradiction
    rename_i sh' pc' hts
    simp only [Option.some.injEq] at hs
    subst hs
    by_cases hut : u = t
    · subst hut
      rcases hp with hp | hp
      · rw [hp] at hts
        cases e <;> simp [jstep, ht] at hts
        obtain ⟨rfl, rfl⟩ := hts
        simp [upd, ht]
      · rw [hp] at hts
        simp [jstep] at hts
    · generalize pcs u = pc at hts
      cases pc <;> cases e <;> simp only [jstep] at hts <;> (try contradiction) <;> (repeat' split at hts) <;>
        (try contradiction) <;> (try simp only [Option.some.injEq, Prod.mk.injEq] at hts) <;>
        obtain ⟨rfl, rfl⟩ := hts <;> simp_all [upd] <;> grind

/-- the invariant holds in every reachable state -/
theorem inv_reach (n : Nat) (sched : List (Actor × Env)) : Inv (run (init n) sched) := inv_run _ sched (inv_init n)

end MayVerif.Join
