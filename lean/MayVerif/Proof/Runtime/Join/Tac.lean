import MayVerif.Proof.Runtime.Join.Inv
namespace MayVerif.Join

set_option hygiene false in
macro "jstart" : tactic => `(tactic|
  (obtain ⟨i_state, o_run, o_some, o_ps, o_sp, p1, p2, q1, q2, j1, j2, j3, j4, j5, r1, r3, r2, t1, b1, b2, b3, b4, c1, c2, c3, n1, v1, g0, g1, s1⟩ := h
   simp only at i_state o_run o_some o_ps o_sp p1 p2 q1 q2 j1 j2 j3 j4 j5 r1 r3 r2 t1 b1 b2 b3 b4 c1 c2 c3 n1 v1 g0 g1 s1
   have j1t := j1 t; have j3t := j3 t; have j4t := j4 t; have r1t := r1 t; have r3t := r3 t; have r2t := r2 t
   have b1t := b1 t; have b2t := b2 t; have c1t := fun a b => c1 a b t; have c2t := fun a b => c2 a b t
   have c3t := fun a => c3 a t; have n1t := fun a => n1 a t; have g0t := g0 t
   simp only [hpc] at j1t j3t j4t r1t r3t r2t b1t b2t c1t c2t c3t n1t g0t
   simp only [holds, inA, isPark, inJoin, prePtake, prePanic, retd, atPanicTake, joinedRes, atStore, isUnwound] at j1t j3t j4t r1t r3t r2t b1t c2t n1t g0t))

set_option hygiene false in
macro "jdone" : tactic => `(tactic|
  (simp only [Option.some.injEq, Prod.mk.injEq] at hts; obtain ⟨rfl, rfl⟩ := hts; jfin))

end MayVerif.Join
