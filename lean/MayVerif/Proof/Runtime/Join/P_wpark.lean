import MayVerif.Proof.Runtime.Join.Tac
namespace MayVerif.Join

set_option maxHeartbeats 2000000 in
theorem inv_wpark (n : Nat) (sh : Sh) (fpc : FPc) (pcs : Tid → JPc) (t : Tid) (e : Env) (k : K) (b : Bid)
    (hlt : t < n) (h : Inv ⟨n, sh, fpc, pcs⟩) (hpc : pcs t = .wpark k b) (sh' : Sh) (pc' : JPc)
    (hts : jstep sh (.wpark k b) e = some (sh', pc')) : Inv ⟨n, sh', fpc, upd pcs t pc'⟩ := by
  jstart
  cases e
  case abort => simp only [jstep] at hts; jdone
  all_goals
    simp only [jstep] at hts
    split at hts
    · cases k <;> simp only [contK] at hts <;> jdone
    · contradiction

end MayVerif.Join
