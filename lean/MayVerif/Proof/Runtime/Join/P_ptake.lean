import MayVerif.Proof.Runtime.Join.Tac
namespace MayVerif.Join

set_option maxHeartbeats 2000000 in
theorem inv_ptake (n : Nat) (sh : Sh) (fpc : FPc) (pcs : Tid → JPc) (t : Tid) (e : Env)
    (hlt : t < n) (h : Inv ⟨n, sh, fpc, pcs⟩) (hpc : pcs t = .ptake) (sh' : Sh) (pc' : JPc)
    (hts : jstep sh (.ptake) e = some (sh', pc')) : Inv ⟨n, sh', fpc, upd pcs t pc'⟩ := by
  jstart
  simp only [jstep] at hts
  split at hts <;> jdone

end MayVerif.Join
