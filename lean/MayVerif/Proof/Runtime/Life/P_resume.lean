import MayVerif.Proof.Runtime.Life.Inv
namespace MayVerif.Life

set_option maxHeartbeats 1000000 in
theorem inv_resume (s s' : St) (t : Thr) (h : Inv s) (hs : step s t .resume = some s') : Inv s' := by
  lstart
  (repeat' split at hs) <;> (try contradiction) <;>
    (simp only [Option.some.injEq] at hs; subst hs
     have hloc := h1 t; simp [*, holdsOp] at hloc
     have hnb := fun u => r1 u
     lfin)

end MayVerif.Life
