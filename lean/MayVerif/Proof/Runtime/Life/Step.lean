import MayVerif.Proof.Runtime.Life.P_spawn
import MayVerif.Proof.Runtime.Life.P_schedG
import MayVerif.Proof.Runtime.Life.P_schedId
import MayVerif.Proof.Runtime.Life.P_schedL
import MayVerif.Proof.Runtime.Life.P_fadd
import MayVerif.Proof.Runtime.Life.P_qid
import MayVerif.Proof.Runtime.Life.P_push
import MayVerif.Proof.Runtime.Life.P_popL
import MayVerif.Proof.Runtime.Life.P_collect
import MayVerif.Proof.Runtime.Life.P_steal
import MayVerif.Proof.Runtime.Life.P_resume
import MayVerif.Proof.Runtime.Life.P_suspend
import MayVerif.Proof.Runtime.Life.P_finish
import MayVerif.Proof.Runtime.Life.P_store
import MayVerif.Proof.Runtime.Life.P_leave
import MayVerif.Proof.Runtime.Life.P_wake
namespace MayVerif.Life

theorem inv_step (s s' : St) (t : Thr) (e : Env) (h : Inv s) (hs : step s t e = some s') : Inv s' := by
  cases e with
  | spawn c => exact inv_spawn s s' t c h hs
  | schedG => exact inv_schedG s s' t h hs
  | schedL => exact inv_schedL s s' t h hs
  | schedId => exact inv_schedId s s' t h hs
  | fadd r => exact inv_fadd s s' t r h hs
  | qid k => exact inv_qid s s' t k h hs
  | push => exact inv_push s s' t h hs
  | popL => exact inv_popL s s' t h hs
  | collect n => exact inv_collect s s' t n h hs
  | steal v n => exact inv_steal s s' t v n h hs
  | resume => exact inv_resume s s' t h hs
  | suspend => exact inv_suspend s s' t h hs
  | finish => exact inv_finish s s' t h hs
  | store => exact inv_store s s' t h hs
  | leave => exact inv_leave s s' t h hs
  | wake c => exact inv_wake s s' t c h hs

theorem inv_run (s : St) (sched : List (Thr × Env)) (h : Inv s) : Inv (run s sched) := by
  induction sched generalizing s with
  | nil => simpa [run]
  | cons te r ih =>
    obtain ⟨t, e⟩ := te
    simp only [run]
    split
    · next s' hs => exact ih _ (inv_step _ _ _ _ h hs)
    · exact ih _ h

theorem inv_reach (nw : Nat) (ws : Bool) (next : Option Nat) (hnw : 0 < nw) (sched : List (Thr × Env)) :
    Inv (run (init nw ws next) sched) := inv_run _ sched (inv_init nw ws next hnw)

end MayVerif.Life
