import MayVerif.Proof.Runtime.Life.Inv
namespace MayVerif.Life

theorem split_at {α : Type} (l : List α) (n : Nat) (h : n < l.length) : l = l.take n ++ l[n] :: l.drop (n + 1) := by
  rw [List.getElem_cons_drop, List.take_append_drop]

set_option maxHeartbeats 2000000 in
theorem inv_steal (s s' : St) (t : Thr) (v n : Nat) (h : Inv s) (hs : step s t (.steal v n) = some s') : Inv s' := by
  lstart
  split at hs <;> try contradiction
  rename_i hc
  obtain ⟨hws, hlt, hvlt, hvt, hstk, hnl⟩ := hc
  split at hs <;> try contradiction
  rename_i hop
  simp only [Option.some.injEq] at hs; subst hs
  have hsplit := split_at (lq v) n hnl
  generalize (lq v)[n] = c at *
  generalize (lq v).take n = pre at *
  generalize (lq v).drop (n + 1) = post at *
  have l1v := l1 v; have l2v := l2 v; have l3v := fun c => l3 v c
  have hh := h2 t
  rw [hsplit] at l1v l2v l3v
  simp only [hop, holdsOp] at hh
  lfin

end MayVerif.Life
