import MayVerif.Proof.Runtime.Life.Inv
namespace MayVerif.Life

set_option maxHeartbeats 1000000 in
theorem inv_push (s s' : St) (t : Thr) (h : Inv s) (hs : step s t .push = some s') : Inv s' := by
  lstart
  (repeat' split at hs) <;> (try contradiction) <;>
    (simp only [Option.some.injEq] at hs; subst hs
     have hloc := h1 t; simp [*, holdsOp] at hloc
     have h3t := h3 t; have o1t := o1 t; have o2t := o2 t
     simp [*] at h3t o1t o2t
     lfin)

end MayVerif.Life
