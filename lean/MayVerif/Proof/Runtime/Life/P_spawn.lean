import MayVerif.Proof.Runtime.Life.Inv
namespace MayVerif.Life

set_option maxHeartbeats 1000000 in
theorem inv_spawn (s s' : St) (t : Thr) (c : Cid) (h : Inv s) (hs : step s t (.spawn c) = some s') : Inv s' := by
  lstart
  split at hs <;> try contradiction
  split at hs <;> try contradiction
  simp only [Option.some.injEq] at hs
  subst hs
  rename_i hop hloc
  have h1t := h1 t; have h2t := h2 t
  simp only [hop, holdsOp] at h1t h2t
  lfin

end MayVerif.Life
