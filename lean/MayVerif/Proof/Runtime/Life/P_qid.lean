import MayVerif.Proof.Runtime.Life.Inv
namespace MayVerif.Life

set_option maxHeartbeats 1000000 in
theorem inv_qid (s s' : St) (t : Thr) (k : Nat) (h : Inv s) (hs : step s t (.qid k) = some s') : Inv s' := by
  lstart
  have hm := Nat.mod_lt k nwpos
  (repeat' split at hs) <;> (try contradiction) <;>
    (simp only [Option.some.injEq] at hs; subst hs
     have hloc := h1 t; simp [*, holdsOp] at hloc
     lfin)

end MayVerif.Life
