/-
  Invariant of the Life model (`Model/Runtime/Life.lean`): the containers (queues, hands, stacks) agree with the
  location function of the linear token, in both directions.
-/
import MayVerif.Model.Runtime.Life
namespace MayVerif.Life

/-- the thread's pending operation holds coroutine `c` -/
@[grind] def holdsOp : Op → Cid → Prop
  | .hold x, c | .sub x, c | .fadd x, c | .gid x, c | .pushG x _, c | .pushL x, c => x = c
  | .moving cs, c => c ∈ cs
  | .none, _ => False

/-- no body occurs twice on a stack -/
def okStk : List Frame → Prop
  | [] => True
  | .body c :: r => Frame.body c ∉ r ∧ okStk r
  | .tail _ :: r => okStk r

@[simp, grind =] theorem okStk_nil : okStk [] = True := rfl
@[simp, grind =] theorem okStk_body (c : Cid) (r : List Frame) : okStk (.body c :: r) = (Frame.body c ∉ r ∧ okStk r) := rfl
@[simp, grind =] theorem okStk_tail (c : Cid) (r : List Frame) : okStk (.tail c :: r) = okStk r := rfl

@[grind] def isRunning : Loc → Bool | .running _ => true | _ => false

structure Inv (s : St) : Prop where
  nwpos : 0 < s.nw
  g1 : ∀ k c, c ∈ s.gq k → s.loc c = .gq k
  g2 : ∀ k, (s.gq k).Nodup
  g3 : ∀ k c, s.loc c = .gq k → c ∈ s.gq k ∧ k < s.nw
  l1 : ∀ k c, c ∈ s.lq k → s.loc c = .lq k
  l2 : ∀ k, (s.lq k).Nodup
  l3 : ∀ k c, s.loc c = .lq k → c ∈ s.lq k ∧ k < s.nw
  h1 : ∀ t c, holdsOp (s.op t) c → s.loc c = .hand t
  h2 : ∀ t c, s.loc c = .hand t → holdsOp (s.op t) c
  h3 : ∀ t cs, s.op t = .moving cs → cs.Nodup ∧ cs ≠ [] ∧ t < s.nw
  o1 : ∀ t c k, s.op t = .pushG c k → k < s.nw
  o2 : ∀ t c, s.op t = .pushL c → t < s.nw
  r1 : ∀ t c, Frame.body c ∈ s.stk t → s.loc c = .running t
  r2 : ∀ t c, s.loc c = .running t → Frame.body c ∈ s.stk t
  r3 : ∀ t, okStk (s.stk t)
  c1 : ∀ c, s.resumes c = s.suspends c + (if isRunning (s.loc c) then 1 else 0)
  c2 : ∀ c, s.starts c = if s.resumes c = 0 then 0 else 1

theorem inv_init (nw : Nat) (ws : Bool) (next : Option Nat) (h : 0 < nw) : Inv (init nw ws next) := by
  constructor <;> simp [init, holdsOp, isRunning] <;> exact h

set_option hygiene false in
macro "lstart" : tactic => `(tactic|
  (obtain ⟨nw, ws, gq, lq, stk, op, next, loc, resumes, suspends, starts⟩ := s
   obtain ⟨nwpos, g1, g2, g3, l1, l2, l3, h1, h2, h3, o1, o2, r1, r2, r3, c1, c2⟩ := h
   simp only at nwpos g1 g2 g3 l1 l2 l3 h1 h2 h3 o1 o2 r1 r2 r3 c1 c2
   simp only [step] at hs))

set_option hygiene false in
macro "lfin" : tactic => `(tactic| (constructor <;> simp only [] <;>
  first | assumption
        | grind [List.nodup_append, List.nodup_cons]
        | grind (splits := 30) [List.nodup_append, List.nodup_cons]))

end MayVerif.Life
