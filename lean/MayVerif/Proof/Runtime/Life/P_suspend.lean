import MayVerif.Proof.Runtime.Life.Inv
namespace MayVerif.Life

set_option maxHeartbeats 1000000 in
theorem inv_suspend (s s' : St) (t : Thr) (h : Inv s) (hs : step s t .suspend = some s') : Inv s' := by
  lstart
  (repeat' split at hs) <;> (try contradiction) <;>
    (simp only [Option.some.injEq] at hs; subst hs
     rename_i c r hop hstk
     have hr := r1 t c; have h3t := r3 t
     simp [hstk] at hr h3t
     have hh := h2 t; simp [hop, holdsOp] at hh
     lfin)

end MayVerif.Life
