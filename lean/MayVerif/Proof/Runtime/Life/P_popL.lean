import MayVerif.Proof.Runtime.Life.Inv
namespace MayVerif.Life

set_option maxHeartbeats 1000000 in
theorem inv_popL (s s' : St) (t : Thr) (h : Inv s) (hs : step s t .popL = some s') : Inv s' := by
  lstart
  (repeat' split at hs) <;> (try contradiction) <;>
    (simp only [Option.some.injEq] at hs; subst hs; lfin)

end MayVerif.Life
