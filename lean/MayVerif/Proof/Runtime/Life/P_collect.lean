import MayVerif.Proof.Runtime.Life.Inv
namespace MayVerif.Life

set_option maxHeartbeats 2000000 in
theorem inv_collect (s s' : St) (t : Thr) (n : Nat) (h : Inv s) (hs : step s t (.collect n) = some s') : Inv s' := by
  lstart
  split at hs <;> try contradiction
  rename_i hc
  obtain ⟨hlt, hstk, hn0, hnl⟩ := hc
  split at hs <;> try contradiction
  rename_i hop
  simp only [Option.some.injEq] at hs; subst hs
  have hsplit : gq t = (gq t).take n ++ (gq t).drop n := (List.take_append_drop n (gq t)).symm
  have hne : (gq t).take n ≠ [] := by
    intro h0
    have : ((gq t).take n).length = 0 := by rw [h0]; rfl
    rw [List.length_take] at this
    omega
  generalize (gq t).take n = pre at *
  generalize (gq t).drop n = post at *
  have g1t := g1 t; have g2t := g2 t; have g3t := fun c => g3 t c
  have hh := h2 t
  rw [hsplit] at g1t g2t g3t
  simp only [hop, holdsOp] at hh
  lfin

end MayVerif.Life
