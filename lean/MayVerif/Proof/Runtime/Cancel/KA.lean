import MayVerif.Proof.Runtime.Cancel.Inv
namespace MayVerif.Cancel

set_option maxHeartbeats 1000000 in
theorem invA_kstep (sh : Sh) (ppc : PPc) (kpc : Nat → KPc) (epc : Tid → EPc) (n : Nat) (e : Env)
    (h : InvA ⟨sh, ppc, kpc, epc⟩) (sh' : Sh) (pc' : KPc) (hts : kstep sh (kpc n) e = some (sh', pc')) :
    InvA ⟨sh', ppc, upd kpc n pc', epc⟩ := by
  obtain ⟨hbP, hbS, hbR, hbL, hbC, hbK, hl1, hl1c, hl2, hl3, hl3f, hl4, hfxK, hfxC, hfx3, hbT, hl4c, hl5⟩ := h
  simp only at hbP hbS hbR hbL hbC hbK hl1 hl1c hl2 hl3 hl3f hl4 hfxK hfxC hfx3 hbT hl4c hl5
  generalize hpc : kpc n = pc at hts
  have hK := hbK n
  have h4 := hl4 n
  have hX := hfxK n
  have hY := hfxC n
  have hZ := hfx3 n
  have hT := hbT n
  rw [hpc] at hK h4 hX hY hZ hT
  cases pc with
  | off => simp [kstep] at hts
  | k0 a =>
    simp only [kstep] at hts
    simp only [Option.some.injEq, Prod.mk.injEq] at hts; obtain ⟨rfl, rfl⟩ := hts
    constructor <;> simp only [] <;> grind
  | k1 a =>
    cases e <;> simp only [kstep, kfin, takeSlot] at hts <;>
      (repeat' split at hts) <;> simp only [Option.some.injEq, Prod.mk.injEq] at hts <;> obtain ⟨rfl, rfl⟩ := hts <;>
      constructor <;> simp only [] <;> grind
  | k3 a | kf0 a | kf3 a | kd1c a | kd3c a =>
    simp only [kstep] at hts
    simp only [Option.some.injEq, Prod.mk.injEq] at hts; obtain ⟨rfl, rfl⟩ := hts
    constructor <;> simp only [] <;> grind
  | kd0 a | kd3 a =>
    simp only [kstep] at hts
    simp only [Option.some.injEq, Prod.mk.injEq] at hts; obtain ⟨rfl, rfl⟩ := hts
    constructor <;> simp only [] <;> grind
  | k4 a =>
    simp only [kstep, kfin] at hts
    (repeat' split at hts) <;> simp only [Option.some.injEq, Prod.mk.injEq] at hts <;> obtain ⟨rfl, rfl⟩ := hts <;>
      constructor <;> simp only [] <;> grind
  | kt a =>
    simp only [kstep, kfin, takeSlot] at hts
    (repeat' split at hts) <;> simp only [Option.some.injEq, Prod.mk.injEq] at hts <;> obtain ⟨rfl, rfl⟩ := hts <;>
      constructor <;> simp only [] <;> grind
  | kc a c =>
    cases c <;> simp only [kstep, cstep, takeSlot, kfin] at hts <;>
      (repeat' split at hts) <;> simp only [Option.some.injEq, Prod.mk.injEq] at hts <;> (try contradiction) <;>
      obtain ⟨rfl, rfl⟩ := hts <;> constructor <;> simp only [] <;> grind

end MayVerif.Cancel
