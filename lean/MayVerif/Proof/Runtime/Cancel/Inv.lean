/-
  Invariants of the Cancel model.
  `InvA` (every configuration): the coroutine is a linear token, `para = Canceled` / the Cancel panic / a returned
  `cancel()` imply that the cancel bit is set.
  `InvB` (configuration `ov = false`: kernel tails do not overlap): a cancellation is never lost.
-/
import MayVerif.Model.Runtime.Cancel
namespace MayVerif.Cancel

/-- the user side is on its stack -/
@[grind] def pRuns : PPc → Bool
  | .susp _ => false | .fin => false | .idle => true | .ck => true | .y0 _ => true | .yb _ _ => true | .ycl _ => true
/-- the tail still owns the coroutine (it has not published it yet) -/
@[grind] def isK0 : KPc → Bool
  | .k0 _ => true | .kf0 _ => true | .kf3 _ => true | .kd0 _ => true | .kd1c _ => true | .kd3 _ => true | .kd3c _ => true
  | .off => false | .k1 _ => false | .k3 _ => false | .k4 _ => false | .kc _ _ => false | .kt _ => false
/-- program points that exist only in the register-before-publish order -/
@[grind] def isFx : KPc → Bool
  | .kf0 _ => true | .kf3 _ => true | .kt _ => true | .kd0 _ => true | .kd1c _ => true | .kd3 _ => true | .kd3c _ => true
  | .off => false | .k0 _ => false | .k1 _ => false | .k3 _ => false | .k4 _ => false | .kc _ _ => false

structure InvA (s : St) : Prop where
  bitP : s.sh.para = .canceled → s.sh.cst % 2 = 1 ∨ s.sh.stale0 = true
  bitS : s.sh.sawCancel = true → s.sh.cst % 2 = 1
  bitR : s.sh.cancelRet = true → s.sh.cst % 2 = 1
  bitL : s.sh.lastRes = .canceled → s.sh.cst % 2 = 1 ∨ s.sh.stale0 = true
  bitC : ∀ (t : Tid) (c : CPc), s.epc t = .c c → c ≠ .c0 → s.sh.cst % 2 = 1
  bitK : ∀ (n : Nat) (a : Sid) (c : CPc), s.kpc n = .kc a c → s.sh.cst % 2 = 1
  l1 : ∀ (a : Sid), s.sh.slot a = true → s.sh.loc = .slot a
  l1c : ∀ (a : Sid), s.sh.loc = .slot a → s.sh.slot a = true
  l2 : s.sh.rq = if s.sh.loc = .queued then 1 else 0
  l3 : s.sh.loc = .running ↔ pRuns s.ppc = true
  l3f : s.sh.loc = .done ↔ s.ppc = .fin
  l4 : ∀ (n : Nat), isK0 (s.kpc n) = true → s.sh.loc = .withK ∧ n + 1 = s.sh.yields
  fxK : ∀ (n : Nat), isFx (s.kpc n) = true → s.sh.fx = true
  fxC : ∀ (n : Nat) (a : Sid) (c : CPc), s.kpc n = .kc a c → s.sh.fx = false
  fx3 : ∀ (n : Nat) (a : Sid), s.kpc n = .k3 a → s.sh.fx = false
  bitT : ∀ (n : Nat) (a : Sid), s.kpc n = .kt a → s.sh.cst % 2 = 1
  l4c : ∀ (n : Nat), n + 1 = s.sh.yields → s.sh.loc = .withK → isK0 (s.kpc n) = true
  l5 : s.sh.resumes + (if pRuns s.ppc then 0 else 1) = s.sh.yields + (if s.ppc = .fin then 1 else 0)

theorem invA_init (ov : Bool) (p0 : Para) (ns : Nat) (fx dz : Bool) : InvA (init ov p0 ns fx dz) := by
  constructor <;> simp [init, pRuns, isK0, isFx]

/-! ### no lost cancellation when kernel tails do not overlap (`ov = false`) -/

/-- the tail (own slot `s`) has not yet registered its slot with `set_co` -/
@[grind] def kPre (s : Sid) : KPc → Bool
  | .k1 a => a == s | .k3 a => a == s | .off => false | .k0 _ => false | .k4 _ => false | .kc _ _ => false
  | .kf0 _ => false | .kf3 _ => false | .kt _ => false | .kd0 _ => false | .kd1c _ => false | .kd3 _ => false | .kd3c _ => false
/-- the tail will still deal with a cancellation of the coroutine waiting in slot `s` -/
@[grind] def kPend (s : Sid) : KPc → Bool
  | .k1 a | .k3 a | .k4 a => a == s
  | .kc a .c0 | .kc a .c1 | .kc a .c2 => a == s
  | .kc a (.c3 b) => a == s && b == s
  | .off => false | .k0 _ => false | .kf0 _ => false | .kf3 _ => false | .kt _ => false
  | .kd0 _ => false | .kd1c _ => false | .kd3 _ => false | .kd3c _ => false
@[grind] def kSlot : KPc → Option Sid
  | .k0 a | .k1 a | .k3 a | .k4 a | .kc a _ | .kf0 a | .kf3 a | .kt a | .kd0 a | .kd1c a | .kd3 a | .kd3c a => some a
  | .off => none
/-- an event actor inside `cancel()` after its `fetch_or`, before its `co.take` -/
@[grind] def eMid : EPc → Bool
  | .c .c1 => true | .c .c2 => true | .c .c0 => false | .c (.c3 _) => false | .idle => false

structure InvB (s : St) : Prop where
  ov : s.sh.ov = false
  fx : s.sh.fx = false
  k1 : ∀ (n : Nat), s.kpc n ≠ .off → n + 1 = s.sh.yields ∧ s.sh.kact = 1
  k2 : s.sh.kact ≤ 1
  b2 : ∀ (n : Nat) (a a' : Sid), kSlot (s.kpc n) = some a → s.sh.loc = .slot a' → a' = a
  b4 : ∀ (n : Nat) (a : Sid), n + 1 = s.sh.yields → s.sh.loc = .slot a →
        kPre a (s.kpc n) = true ∨ s.sh.cco = some a ∨ s.epc s.sh.wtk = .c (.c3 a) ∨ s.kpc n = .kc a (.c3 a)
  b6 : ∀ (n : Nat) (a a' : Sid), n + 1 = s.sh.yields → s.sh.loc = .slot a → s.sh.cco = some a' →
        a' = a ∨ kPre a (s.kpc n) = true
  b5 : ∀ (n : Nat) (a : Sid), n + 1 = s.sh.yields → s.sh.cst = 1 → s.sh.loc = .slot a →
        kPend a (s.kpc n) = true ∨ (s.sh.cco = some a ∧ eMid (s.epc s.sh.wfo) = true) ∨ s.epc s.sh.wtk = .c (.c3 a)

theorem kPre_kPend (s : Sid) (pc : KPc) (h : kPre s pc = true) : kPend s pc = true := by
  cases pc <;> simp_all [kPre, kPend]
theorem kPend_c3 (a : Sid) : kPend a (.kc a (.c3 a)) = true := by simp [kPend]
theorem kPre_slot (s : Sid) (pc : KPc) (h : kPre s pc = true) : kSlot pc = some s := by
  cases pc <;> simp_all [kPre, kSlot]
theorem kPend_slot (s : Sid) (pc : KPc) (h : kPend s pc = true) : kSlot pc = some s := by
  cases pc with
  | kc a c => cases c <;> simp_all [kPend, kSlot]
  | _ => simp_all [kPend, kSlot]

theorem kSlot_ne_off (pc : KPc) (a : Sid) (h : kSlot pc = some a) : pc ≠ .off := by
  cases pc <;> simp_all [kSlot]

theorem invB_init (p0 : Para) (ns : Nat) (dz : Bool) : InvB (init false p0 ns false dz) := by
  constructor <;> simp [init, kSlot]

/-! ### no lost cancellation in the register-before-publish order (`fx = true`), overlapping kernel tails included -/

/-- the tail (own slot `s`) still has its re-check / its own-slot take ahead -/
@[grind] def kFpre (s : Sid) : KPc → Bool
  | .k1 a => a == s | .k4 a => a == s | .kt a => a == s
  | .off => false | .k0 _ => false | .k3 _ => false | .kc _ _ => false | .kf0 _ => false | .kf3 _ => false
  | .kd0 _ => false | .kd1c _ => false | .kd3 _ => false | .kd3c _ => false

structure InvF (s : St) : Prop where
  fx : s.sh.fx = true
  f1 : ∀ (n : Nat) (a a' : Sid), n + 1 = s.sh.yields → kSlot (s.kpc n) = some a → s.sh.loc = .slot a' → a' = a
  f3 : ∀ (n : Nat) (a : Sid), s.kpc n = .k0 a → s.sh.cst < 2 →
        s.sh.cco = some a ∨ s.epc s.sh.wtk = .c (.c3 a) ∨ s.sh.cst = 1
  f6k : ∀ (n : Nat) (a a' : Sid), s.kpc n = .k0 a → s.sh.cco = some a' → a' = a
  f6 : ∀ (a a' : Sid), s.sh.loc = .slot a → s.sh.cco = some a' → a' = a
  f4 : ∀ (n : Nat) (a : Sid), n + 1 = s.sh.yields → s.sh.loc = .slot a → s.sh.cst < 2 →
        s.sh.cco = some a ∨ s.epc s.sh.wtk = .c (.c3 a) ∨ (kFpre a (s.kpc n) = true ∧ s.sh.cst = 1)
  f5 : ∀ (n : Nat) (a : Sid), n + 1 = s.sh.yields → s.sh.cst = 1 → s.sh.loc = .slot a →
        kFpre a (s.kpc n) = true ∨ (s.sh.cco = some a ∧ eMid (s.epc s.sh.wfo) = true) ∨ s.epc s.sh.wtk = .c (.c3 a)
  g1 : ∀ (n : Nat) (a : Sid), (s.kpc n = .kd1c a ∨ s.kpc n = .kd3c a) → 2 ≤ s.sh.cst

theorem invF_init (ov : Bool) (p0 : Para) (ns : Nat) (dz : Bool) : InvF (init ov p0 ns true dz) := by
  constructor <;> simp [init, kSlot]

/-! ### a wait entered with cancellation disabled is not interrupted (`fx` and `dz`, F16) -/

structure InvD (s : St) : Prop where
  fx : s.sh.fx = true
  dz : s.sh.dz = true
  u1 : ∀ (a : Sid), s.sh.used a = false → s.sh.cco ≠ some a
  u2 : ∀ (t : Tid) (a : Sid), s.epc t = .c (.c3 a) → s.sh.used a = true
  u3 : ∀ (n : Nat) (a : Sid), kSlot (s.kpc n) = some a → s.sh.used a = true
  p1 : ∀ (a : Sid), s.sh.pw = some a → 2 ≤ s.sh.cst
  p2 : ∀ (a : Sid), s.sh.pw = some a → s.sh.cco ≠ some a
  p3 : ∀ (t : Tid) (a : Sid), s.sh.pw = some a → s.epc t ≠ .c (.c3 a)
  p4 : ∀ (n : Nat) (a : Sid), s.sh.pw = some a → kSlot (s.kpc n) = some a → n + 1 = s.sh.yields
  p5 : ∀ (n : Nat) (a : Sid), s.sh.pw = some a → s.kpc n ≠ .kt a ∧ s.kpc n ≠ .kf0 a ∧ s.kpc n ≠ .kf3 a
  p6 : ∀ (a : Sid), s.sh.pw = some a → pRuns s.ppc = false
  bad : s.sh.badIntr = false

theorem invD_init (ov : Bool) (p0 : Para) (ns : Nat) : InvD (init ov p0 ns true true) := by
  constructor <;> simp [init, kSlot]

theorem kFpre_slot (s : Sid) (pc : KPc) (h : kFpre s pc = true) : kSlot pc = some s := by
  cases pc <;> simp_all [kFpre, kSlot]

end MayVerif.Cancel
