import MayVerif.Proof.Runtime.Cancel.Step
namespace MayVerif.Cancel

theorem cstep_frame (sh : Sh) (me : Option Tid) (c : CPc) :
    (cstep sh me c).1.yields = sh.yields ∧ (cstep sh me c).1.maxE = sh.maxE := by
  cases c <;> simp only [cstep, takeSlot] <;> (repeat' split) <;> simp

theorem kstep_frame (sh : Sh) (pc : KPc) (e : Env) (sh' : Sh) (pc' : KPc) (h : kstep sh pc e = some (sh', pc')) :
    sh'.yields = sh.yields ∧ sh'.maxE = sh.maxE ∧ pc ≠ .off := by
  cases pc with
  | off => simp [kstep] at h
  | kc a c =>
    have hf := cstep_frame sh none c
    simp only [kstep, kfin] at h
    split at h <;> simp only [Option.some.injEq, Prod.mk.injEq] at h <;> obtain ⟨rfl, rfl⟩ := h <;> simp_all
  | k1 a =>
    cases e <;> simp only [kstep, kfin, takeSlot] at h <;> (repeat' split at h) <;>
      simp only [Option.some.injEq, Prod.mk.injEq] at h <;> obtain ⟨rfl, rfl⟩ := h <;> simp
  | k0 a | k3 a | k4 a | kf0 a | kf3 a | kt a | kd0 a | kd1c a | kd3 a | kd3c a =>
    simp only [kstep, kfin, takeSlot] at h <;> (repeat' split at h) <;>
      simp only [Option.some.injEq, Prod.mk.injEq] at h <;> obtain ⟨rfl, rfl⟩ := h <;> simp

theorem estep0_frame (sh : Sh) (me : Tid) (pc : EPc) (e : Env) (sh' : Sh) (pc' : EPc) (h : estep0 sh me pc e = some (sh', pc')) :
    sh'.yields = sh.yields ∧ sh'.maxE = sh.maxE := by
  cases pc with
  | idle =>
    cases e <;> simp only [estep0, takeSlot] at h <;> (try contradiction) <;> (repeat' split at h) <;>
      simp only [Option.some.injEq, Prod.mk.injEq] at h <;> obtain ⟨rfl, rfl⟩ := h <;> simp
  | c c =>
    have hf := cstep_frame sh (some me) c
    simp only [estep0] at h
    split at h <;> simp only [Option.some.injEq, Prod.mk.injEq] at h <;> obtain ⟨rfl, rfl⟩ := h <;> simp_all

set_option maxHeartbeats 1000000 in
theorem pstep_frame (sh : Sh) (pc : PPc) (e : Env) (sh' : Sh) (pc' : PPc) (ks : Option KPc) (h : pstep sh pc e = some (sh', pc', ks)) :
    sh'.maxE = sh.maxE ∧ sh.yields ≤ sh'.yields ∧ (ks.isSome = true → sh'.yields = sh.yields + 1) := by
  cases pc with
  | fin => simp [pstep] at h
  | idle =>
    cases e <;> simp only [pstep] at h <;> (try contradiction) <;> (repeat' split at h) <;> (try contradiction) <;>
      (try simp only [Option.some.injEq, Prod.mk.injEq] at h) <;> obtain ⟨rfl, rfl, rfl⟩ := h <;> simp
  | y0 src =>
    cases src with
    | park a chk =>
      cases chk <;> simp only [pstep, post, checks] at h <;> (repeat' split at h) <;> (try contradiction) <;>
        (try simp only [Option.some.injEq, Prod.mk.injEq] at h) <;> obtain ⟨rfl, rfl, rfl⟩ := h <;> simp
    | sleep | yld | send =>
      simp only [pstep, post, checks] at h <;> (repeat' split at h) <;> (try contradiction) <;>
        (try simp only [Option.some.injEq, Prod.mk.injEq] at h) <;> obtain ⟨rfl, rfl, rfl⟩ := h <;> simp
  | ck | susp src =>
    simp only [pstep, raise] at h <;> (repeat' split at h) <;> (try contradiction) <;>
      (try simp only [Option.some.injEq, Prod.mk.injEq] at h) <;> obtain ⟨rfl, rfl, rfl⟩ := h <;> simp
  | yb src short | ycl src =>
    cases src <;> simp only [pstep, post, raise] at h <;> (repeat' split at h) <;> (try contradiction) <;>
      (try simp only [Option.some.injEq, Prod.mk.injEq] at h) <;> obtain ⟨rfl, rfl, rfl⟩ := h <;> simp

theorem invBd_step (s s' : St) (a : Actor) (e : Env) (h : InvBd s) (hs : step s a e = some s') : InvBd s' := by
  obtain ⟨sh, ppc, kpc, epc⟩ := s
  obtain ⟨hk, he⟩ := h
  simp only at hk he
  cases a with
  | p =>
    simp only [step] at hs
    split at hs
    · contradiction
    · next sh' pc' ks hts =>
      simp only [Option.some.injEq] at hs; subst hs
      have hf := pstep_frame sh ppc e sh' pc' ks hts
      constructor
      · intro n hn
        simp only at hn
        cases ks with
        | none => simp only [startK]; exact hk n (by omega)
        | some k =>
          have := hf.2.2 rfl
          simp only [startK, upd]
          split
          · omega
          · exact hk n (by omega)
      · intro t ht; exact he t (by simp only at ht; omega)
  | k n =>
    simp only [step] at hs
    split at hs
    · contradiction
    · next sh' pc' hts =>
      simp only [Option.some.injEq] at hs; subst hs
      have hf := kstep_frame sh (kpc n) e sh' pc' hts
      constructor
      · intro m hm
        simp only [upd]
        split
        · next hmn => subst hmn; exact absurd (hk m (by simp only at hm; omega)) hf.2.2
        · exact hk m (by simp only at hm; omega)
      · intro t ht; exact he t (by simp only at ht; omega)
  | e t =>
    simp only [step, estep] at hs
    split at hs
    · contradiction
    · next sh' pc' hts =>
      split at hts
      · contradiction
      · next sh0 pc0 hts0 =>
        simp only [Option.some.injEq, Prod.mk.injEq] at hts
        obtain ⟨rfl, rfl⟩ := hts
        simp only [Option.some.injEq] at hs; subst hs
        have hf := estep0_frame sh t (epc t) e sh0 pc0 hts0
        constructor
        · intro n hn; exact hk n (by simp only at hn; omega)
        · intro u hu
          simp only at hu
          simp only [upd]
          split
          · omega
          · exact he u (by omega)

theorem invBd_run (s : St) (sched : List (Actor × Env)) (h : InvBd s) : InvBd (run s sched) := by
  induction sched generalizing s with
  | nil => simpa [run]
  | cons ae r ih =>
    obtain ⟨a, e⟩ := ae
    simp only [run]
    split
    · next s' hs => exact ih _ (invBd_step _ _ _ _ h hs)
    · exact ih _ h

/-! `stale0` is a constant of the run -/
theorem cstep_stale (sh : Sh) (me : Option Tid) (c : CPc) : (cstep sh me c).1.stale0 = sh.stale0 := by
  cases c <;> simp only [cstep, takeSlot] <;> (repeat' split) <;> simp

theorem kstep_stale (sh : Sh) (pc : KPc) (e : Env) (sh' : Sh) (pc' : KPc) (h : kstep sh pc e = some (sh', pc')) :
    sh'.stale0 = sh.stale0 := by
  cases pc with
  | off => simp [kstep] at h
  | kc a c =>
    have hf := cstep_stale sh none c
    simp only [kstep, kfin] at h
    split at h <;> simp only [Option.some.injEq, Prod.mk.injEq] at h <;> obtain ⟨rfl, rfl⟩ := h <;> simp_all
  | k1 a =>
    cases e <;> simp only [kstep, kfin, takeSlot] at h <;> (repeat' split at h) <;>
      simp only [Option.some.injEq, Prod.mk.injEq] at h <;> obtain ⟨rfl, rfl⟩ := h <;> simp
  | k0 a | k3 a | k4 a | kf0 a | kf3 a | kt a | kd0 a | kd1c a | kd3 a | kd3c a =>
    simp only [kstep, kfin, takeSlot] at h <;> (repeat' split at h) <;>
      simp only [Option.some.injEq, Prod.mk.injEq] at h <;> obtain ⟨rfl, rfl⟩ := h <;> simp

theorem estep0_stale (sh : Sh) (me : Tid) (pc : EPc) (e : Env) (sh' : Sh) (pc' : EPc) (h : estep0 sh me pc e = some (sh', pc')) :
    sh'.stale0 = sh.stale0 := by
  cases pc with
  | idle =>
    cases e <;> simp only [estep0, takeSlot] at h <;> (try contradiction) <;> (repeat' split at h) <;>
      simp only [Option.some.injEq, Prod.mk.injEq] at h <;> obtain ⟨rfl, rfl⟩ := h <;> simp
  | c c =>
    have hf := cstep_stale sh (some me) c
    simp only [estep0] at h
    split at h <;> simp only [Option.some.injEq, Prod.mk.injEq] at h <;> obtain ⟨rfl, rfl⟩ := h <;> simp_all

set_option maxHeartbeats 1000000 in
theorem pstep_stale (sh : Sh) (pc : PPc) (e : Env) (sh' : Sh) (pc' : PPc) (ks : Option KPc) (h : pstep sh pc e = some (sh', pc', ks)) :
    sh'.stale0 = sh.stale0 := by
  cases pc with
  | fin => simp [pstep] at h
  | idle =>
    cases e <;> simp only [pstep] at h <;> (try contradiction) <;> (repeat' split at h) <;> (try contradiction) <;>
      (try simp only [Option.some.injEq, Prod.mk.injEq] at h) <;> obtain ⟨rfl, rfl, rfl⟩ := h <;> simp
  | y0 src =>
    cases src with
    | park a chk =>
      cases chk <;> simp only [pstep, post, checks] at h <;> (repeat' split at h) <;> (try contradiction) <;>
        (try simp only [Option.some.injEq, Prod.mk.injEq] at h) <;> obtain ⟨rfl, rfl, rfl⟩ := h <;> simp
    | sleep | yld | send =>
      simp only [pstep, post, checks] at h <;> (repeat' split at h) <;> (try contradiction) <;>
        (try simp only [Option.some.injEq, Prod.mk.injEq] at h) <;> obtain ⟨rfl, rfl, rfl⟩ := h <;> simp
  | ck | susp src =>
    simp only [pstep, raise] at h <;> (repeat' split at h) <;> (try contradiction) <;>
      (try simp only [Option.some.injEq, Prod.mk.injEq] at h) <;> obtain ⟨rfl, rfl, rfl⟩ := h <;> simp
  | yb src short | ycl src =>
    cases src <;> simp only [pstep, post, raise] at h <;> (repeat' split at h) <;> (try contradiction) <;>
      (try simp only [Option.some.injEq, Prod.mk.injEq] at h) <;> obtain ⟨rfl, rfl, rfl⟩ := h <;> simp

theorem run_stale0 (l : List (Actor × Env)) (s0 : St) : (run s0 l).sh.stale0 = s0.sh.stale0 := by
  induction l generalizing s0 with
  | nil => rfl
  | cons ae r ih =>
    obtain ⟨a, e⟩ := ae
    simp only [run]
    split
    · next s' hs =>
      rw [ih]
      cases a with
      | p =>
        simp only [step] at hs
        split at hs
        · contradiction
        · next sh' pc' ks hts =>
          simp only [Option.some.injEq] at hs; subst hs
          exact pstep_stale _ _ _ _ _ _ hts
      | k n =>
        simp only [step] at hs
        split at hs
        · contradiction
        · next sh' pc' hts =>
          simp only [Option.some.injEq] at hs; subst hs
          exact kstep_stale _ _ _ _ _ hts
      | e t =>
        simp only [step, estep] at hs
        split at hs
        · contradiction
        · next sh' pc' hts =>
          split at hts
          · contradiction
          · next sh0 pc0 hts0 =>
            simp only [Option.some.injEq, Prod.mk.injEq] at hts
            obtain ⟨rfl, rfl⟩ := hts
            simp only [Option.some.injEq] at hs; subst hs
            simp only
            exact estep0_stale _ _ _ _ _ _ hts0
    · exact ih _

/-! ### quiescence -/

/-- nothing but the target itself can move: no kernel tail is active, no event actor is inside a call -/
def Quiescent (s : St) : Prop := (∀ n : Nat, s.kpc n = .off) ∧ (∀ t : Nat, s.epc t = .idle)

/-- decidable form of `Quiescent` for concrete states (actors beyond the bounds never moved: `InvBd`) -/
def quiescentB (s : St) : Bool :=
  (List.range s.sh.yields).all (fun n => s.kpc n == .off) && (List.range s.sh.maxE).all (fun t => s.epc t == .idle)

theorem quiescent_of_bounded (ov : Bool) (p0 : Para) (ns : Nat) (fx dz : Bool) (sched : List (Actor × Env))
    (h : quiescentB (run (init ov p0 ns fx dz) sched) = true) : Quiescent (run (init ov p0 ns fx dz) sched) := by
  have hb := invBd_run _ sched (invBd_init ov p0 ns fx dz)
  simp only [quiescentB, Bool.and_eq_true, List.all_eq_true, List.mem_range, beq_iff_eq] at h
  constructor
  · intro n
    by_cases hn : n < (run (init ov p0 ns fx dz) sched).sh.yields
    · exact h.1 n hn
    · exact hb.kB n (by omega)
  · intro t
    by_cases ht : t < (run (init ov p0 ns fx dz) sched).sh.maxE
    · exact h.2 t ht
    · exact hb.eB t (by omega)

end MayVerif.Cancel
