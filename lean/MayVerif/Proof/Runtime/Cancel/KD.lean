import MayVerif.Proof.Runtime.Cancel.Inv
namespace MayVerif.Cancel

set_option maxHeartbeats 4000000 in
theorem invD_kstep (sh : Sh) (ppc : PPc) (kpc : Nat → KPc) (epc : Tid → EPc) (n : Nat) (e : Env)
    (hA : InvA ⟨sh, ppc, kpc, epc⟩) (h : InvD ⟨sh, ppc, kpc, epc⟩) (sh' : Sh) (pc' : KPc)
    (hts : kstep sh (kpc n) e = some (sh', pc')) :
    InvD ⟨sh', ppc, upd kpc n pc', epc⟩ := by
  obtain ⟨hbP, hbS, hbR, hbL, hbC, hbK, hl1, hl1c, hl2, hl3, hl3f, hl4, hfxK, hfxC, hfx3, hbT, hl4c, hl5⟩ := hA
  obtain ⟨hfx, hdz, hu1, hu2, hu3, hp1, hp2, hp3, hp4, hp5, hp6, hbad⟩ := h
  simp only at hbP hbS hbR hbL hbC hbK hl1 hl1c hl2 hl3 hl3f hl4 hfxK hfxC hfx3 hbT hl4c hl5 hfx hdz hu1 hu2 hu3 hp1 hp2 hp3 hp4 hp5 hp6 hbad
  generalize hpc : kpc n = pc at hts
  have hu3n := hu3 n
  have hp4n := hp4 n
  have hp5n := hp5 n
  rw [hpc] at hu3n hp4n hp5n
  cases pc with
  | off => simp [kstep] at hts
  | k3 a => have := hfx3 n a hpc; simp [hfx] at this
  | kc a c => have := hfxC n a c hpc; simp [hfx] at this
  | k0 a | kf0 a | kf3 a | kd0 a | kd1c a | kd3 a | kd3c a =>
    simp [kSlot] at hu3n hp4n hp5n <;>
    simp only [kstep] at hts <;>
    simp only [Option.some.injEq, Prod.mk.injEq] at hts <;> obtain ⟨rfl, rfl⟩ := hts <;>
    constructor <;> simp only [] <;> grind
  | k1 a =>
    simp [kSlot] at hu3n hp4n hp5n
    cases e <;> simp only [kstep, kfin, takeSlot, hfx] at hts <;>
      (repeat' split at hts) <;> (try contradiction) <;> simp only [Option.some.injEq, Prod.mk.injEq] at hts <;>
      obtain ⟨rfl, rfl⟩ := hts <;> constructor <;> simp only [] <;> grind
  | k4 a =>
    simp [kSlot] at hu3n hp4n hp5n
    simp only [kstep, kfin, hfx] at hts
    (repeat' split at hts) <;> (try contradiction) <;> simp only [Option.some.injEq, Prod.mk.injEq] at hts <;>
      obtain ⟨rfl, rfl⟩ := hts <;> constructor <;> simp only [] <;> grind
  | kt a =>
    simp [kSlot] at hu3n hp4n hp5n
    simp only [kstep, kfin, takeSlot] at hts
    (repeat' split at hts) <;> simp only [Option.some.injEq, Prod.mk.injEq] at hts <;> obtain ⟨rfl, rfl⟩ := hts <;>
      constructor <;> simp only [] <;> grind

end MayVerif.Cancel
