import MayVerif.Proof.Runtime.Cancel.Inv
namespace MayVerif.Cancel

set_option maxHeartbeats 4000000 in
theorem invF_estep (sh : Sh) (ppc : PPc) (kpc : Nat → KPc) (epc : Tid → EPc) (t : Tid) (e : Env)
    (hA : InvA ⟨sh, ppc, kpc, epc⟩) (h : InvF ⟨sh, ppc, kpc, epc⟩) (sh' : Sh) (pc' : EPc)
    (hts : estep0 sh t (epc t) e = some (sh', pc')) :
    InvF ⟨sh', ppc, kpc, upd epc t pc'⟩ := by
  obtain ⟨hbP, hbS, hbR, hbL, hbC, hbK, hl1, hl1c, hl2, hl3, hl3f, hl4, hfxK, hfxC, hfx3, hbT, hl4c, hl5⟩ := hA
  obtain ⟨hfx, hf1, hf3, hf6k, hf6, hf4, hf5, hg1⟩ := h
  simp only at hbP hbS hbR hbL hbC hbK hl1 hl1c hl2 hl3 hl3f hl4 hfxK hfxC hfx3 hbT hl4c hl5 hfx hf1 hf3 hf6k hf6 hf4 hf5 hg1
  generalize hpc : epc t = pc at hts
  have hC := hbC t
  rw [hpc] at hC
  cases pc with
  | idle =>
    cases e <;> simp only [estep0, takeSlot] at hts <;> (try contradiction) <;>
      (repeat' split at hts) <;> simp only [Option.some.injEq, Prod.mk.injEq] at hts <;> obtain ⟨rfl, rfl⟩ := hts <;>
      constructor <;> simp only [] <;> grind
  | c c =>
    cases c with
    | c2 =>
      cases hcco : sh.cco <;> simp only [estep0, cstep, hcco] at hts <;>
        simp only [Option.some.injEq, Prod.mk.injEq] at hts <;> obtain ⟨rfl, rfl⟩ := hts <;>
        constructor <;> simp only [] <;> grind
    | c0 | c1 | c3 a =>
      simp only [estep0, cstep, takeSlot] at hts <;>
        (repeat' split at hts) <;> simp only [Option.some.injEq, Prod.mk.injEq] at hts <;> (try contradiction) <;>
        obtain ⟨rfl, rfl⟩ := hts <;> constructor <;> simp only [] <;> grind

end MayVerif.Cancel
