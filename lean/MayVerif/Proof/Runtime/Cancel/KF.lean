import MayVerif.Proof.Runtime.Cancel.Inv
namespace MayVerif.Cancel

set_option maxHeartbeats 4000000 in
theorem invF_kstep (sh : Sh) (ppc : PPc) (kpc : Nat → KPc) (epc : Tid → EPc) (n : Nat) (e : Env)
    (hA : InvA ⟨sh, ppc, kpc, epc⟩) (h : InvF ⟨sh, ppc, kpc, epc⟩) (sh' : Sh) (pc' : KPc)
    (hts : kstep sh (kpc n) e = some (sh', pc')) :
    InvF ⟨sh', ppc, upd kpc n pc', epc⟩ := by
  obtain ⟨hbP, hbS, hbR, hbL, hbC, hbK, hl1, hl1c, hl2, hl3, hl3f, hl4, hfxK, hfxC, hfx3, hbT, hl4c, hl5⟩ := hA
  obtain ⟨hfx, hf1, hf3, hf6k, hf6, hf4, hf5, hg1⟩ := h
  simp only at hbP hbS hbR hbL hbC hbK hl1 hl1c hl2 hl3 hl3f hl4 hfxK hfxC hfx3 hbT hl4c hl5 hfx hf1 hf3 hf6k hf6 hf4 hf5 hg1
  generalize hpc : kpc n = pc at hts
  have h4n := hl4 n
  have hf1n := hf1 n
  have hf3n := hf3 n
  have hf4n := hf4 n
  have hf5n := hf5 n
  have hf6n := hf6k n
  have hTn := hbT n
  have hg1n := hg1 n
  rw [hpc] at h4n hf1n hf3n hf4n hf5n hf6n hTn hg1n
  cases pc with
  | off => simp [kstep] at hts
  | k3 a => have := hfx3 n a hpc; simp [hfx] at this
  | kc a c => have := hfxC n a c hpc; simp [hfx] at this
  | k0 a =>
    simp [kSlot, kFpre, isK0] at h4n hf1n hf3n hf4n hf5n hf6n
    simp only [kstep] at hts
    simp only [Option.some.injEq, Prod.mk.injEq] at hts; obtain ⟨rfl, rfl⟩ := hts
    constructor <;> simp only [] <;> grind
  | k1 a =>
    simp [kSlot, kFpre, isK0] at h4n hf1n hf3n hf4n hf5n hf6n
    cases e <;> simp only [kstep, kfin, takeSlot, hfx] at hts <;>
      (repeat' split at hts) <;> (try contradiction) <;> simp only [Option.some.injEq, Prod.mk.injEq] at hts <;>
      obtain ⟨rfl, rfl⟩ := hts <;> constructor <;> simp only [] <;> grind
  | kf0 a =>
    simp [kSlot, kFpre, isK0] at h4n hf1n hf3n hf4n hf5n hf6n
    simp only [kstep] at hts
    simp only [Option.some.injEq, Prod.mk.injEq] at hts; obtain ⟨rfl, rfl⟩ := hts
    constructor <;> simp only [] <;> grind
  | kf3 a =>
    simp [kSlot, kFpre, isK0] at h4n hf1n hf3n hf4n hf5n hf6n
    simp only [kstep] at hts
    simp only [Option.some.injEq, Prod.mk.injEq] at hts; obtain ⟨rfl, rfl⟩ := hts
    constructor <;> simp only [] <;> grind
  | k4 a =>
    simp [kSlot, kFpre, isK0] at h4n hf1n hf3n hf4n hf5n hf6n
    simp only [kstep, kfin, hfx] at hts
    (repeat' split at hts) <;> (try contradiction) <;> simp only [Option.some.injEq, Prod.mk.injEq] at hts <;>
      obtain ⟨rfl, rfl⟩ := hts <;> constructor <;> simp only [] <;> grind
  | kd0 a | kd3 a =>
    simp [kSlot, kFpre, isK0] at h4n hf1n hf3n hf4n hf5n hf6n
    simp only [kstep] at hts
    simp only [Option.some.injEq, Prod.mk.injEq] at hts; obtain ⟨rfl, rfl⟩ := hts
    constructor <;> simp only [] <;> grind
  | kd1c a | kd3c a =>
    simp [kSlot, kFpre, isK0] at h4n hf1n hf3n hf4n hf5n hf6n hg1n
    simp only [kstep] at hts
    simp only [Option.some.injEq, Prod.mk.injEq] at hts; obtain ⟨rfl, rfl⟩ := hts
    constructor <;> simp only [] <;> grind
  | kt a =>
    simp [kSlot, kFpre, isK0] at h4n hf1n hf3n hf4n hf5n hf6n hTn
    simp only [kstep, kfin, takeSlot] at hts
    (repeat' split at hts) <;> simp only [Option.some.injEq, Prod.mk.injEq] at hts <;> obtain ⟨rfl, rfl⟩ := hts <;>
      constructor <;> simp only [] <;> grind

end MayVerif.Cancel
