import MayVerif.Proof.Runtime.Cancel.Inv
namespace MayVerif.Cancel

set_option maxHeartbeats 4000000 in
theorem invB_kstep (sh : Sh) (ppc : PPc) (kpc : Nat → KPc) (epc : Tid → EPc) (n : Nat) (e : Env)
    (hA : InvA ⟨sh, ppc, kpc, epc⟩) (h : InvB ⟨sh, ppc, kpc, epc⟩) (sh' : Sh) (pc' : KPc)
    (hts : kstep sh (kpc n) e = some (sh', pc')) :
    InvB ⟨sh', ppc, upd kpc n pc', epc⟩ := by
  obtain ⟨hbP, hbS, hbR, hbL, hbC, hbK, hl1, hl1c, hl2, hl3, hl3f, hl4, hfxK, hfxC, hfx3, hbT, hl4c, hl5⟩ := hA
  obtain ⟨hov, hfx, hk1, hk2, hb2, hb4, hb6, hb5⟩ := h
  simp only at hbP hbS hbR hbL hbC hbK hl1 hl1c hl2 hl3 hl3f hl4 hfxK hfxC hfx3 hbT hl4c hl5 hov hfx hk1 hk2 hb2 hb4 hb6 hb5
  generalize hpc : kpc n = pc at hts
  have hP := fun a pc => kPre_kPend a pc
  have h3 := kPend_c3
  have hk1n := hk1 n
  have h4n := hl4 n
  have hb2n := hb2 n
  have hb4n := hb4 n
  have hb5n := hb5 n
  have hb6n := hb6 n
  rw [hpc] at hk1n h4n hb2n hb4n hb5n hb6n
  cases pc with
  | off => simp [kstep] at hts
  | k0 a =>
    simp [kSlot, kPre, kPend] at hk1n h4n hb2n hb4n hb5n hb6n
    simp only [kstep] at hts
    simp only [Option.some.injEq, Prod.mk.injEq] at hts; obtain ⟨rfl, rfl⟩ := hts
    constructor <;> simp only [] <;> grind
  | k1 a =>
    simp [kSlot, kPre, kPend] at hk1n h4n hb2n hb4n hb5n hb6n
    cases e <;> simp only [kstep, kfin, takeSlot, hfx] at hts <;>
      (repeat' split at hts) <;> simp only [Option.some.injEq, Prod.mk.injEq] at hts <;> obtain ⟨rfl, rfl⟩ := hts <;>
      constructor <;> simp only [] <;> grind
  | k3 a =>
    simp [kSlot, kPre, kPend] at hk1n h4n hb2n hb4n hb5n hb6n
    simp only [kstep] at hts
    simp only [Option.some.injEq, Prod.mk.injEq] at hts; obtain ⟨rfl, rfl⟩ := hts
    constructor <;> simp only [] <;> grind
  | k4 a =>
    simp [kSlot, kPre, kPend] at hk1n h4n hb2n hb4n hb5n hb6n
    simp only [kstep, kfin, hfx] at hts
    (repeat' split at hts) <;> (try contradiction) <;> simp only [Option.some.injEq, Prod.mk.injEq] at hts <;> obtain ⟨rfl, rfl⟩ := hts <;>
      constructor <;> simp only [] <;> grind
  | kf0 a | kf3 a | kt a | kd0 a | kd1c a | kd3 a | kd3c a =>
    have := hfxK n
    rw [hpc] at this
    simp [isFx, hfx] at this
  | kc a c =>
    cases c with
    | c2 =>
      simp [kSlot, kPre, kPend] at hk1n h4n hb2n hb4n hb5n hb6n
      cases hcco : sh.cco <;> simp only [kstep, cstep, kfin, hcco] at hts <;>
        simp only [Option.some.injEq, Prod.mk.injEq] at hts <;> obtain ⟨rfl, rfl⟩ := hts <;>
        constructor <;> simp only [] <;> grind
    | c0 | c1 | c3 b =>
      simp [kSlot, kPre, kPend] at hk1n h4n hb2n hb4n hb5n hb6n <;>
      simp only [kstep, cstep, takeSlot, kfin] at hts <;>
        (repeat' split at hts) <;> simp only [Option.some.injEq, Prod.mk.injEq] at hts <;> (try contradiction) <;>
        obtain ⟨rfl, rfl⟩ := hts <;> constructor <;> simp only [] <;> grind

end MayVerif.Cancel
