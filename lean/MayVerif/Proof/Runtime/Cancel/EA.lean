import MayVerif.Proof.Runtime.Cancel.Inv
namespace MayVerif.Cancel

set_option maxHeartbeats 1000000 in
theorem invA_estep (sh : Sh) (ppc : PPc) (kpc : Nat → KPc) (epc : Tid → EPc) (t : Tid) (e : Env)
    (h : InvA ⟨sh, ppc, kpc, epc⟩) (sh' : Sh) (pc' : EPc) (hts : estep0 sh t (epc t) e = some (sh', pc')) :
    InvA ⟨sh', ppc, kpc, upd epc t pc'⟩ := by
  obtain ⟨hbP, hbS, hbR, hbL, hbC, hbK, hl1, hl1c, hl2, hl3, hl3f, hl4, hfxK, hfxC, hfx3, hbT, hl4c, hl5⟩ := h
  simp only at hbP hbS hbR hbL hbC hbK hl1 hl1c hl2 hl3 hl3f hl4 hfxK hfxC hfx3 hbT hl4c hl5
  generalize hpc : epc t = pc at hts
  have hC := hbC t
  rw [hpc] at hC
  cases pc with
  | idle =>
    cases e <;> simp only [estep0, takeSlot] at hts <;> (try contradiction) <;>
      (repeat' split at hts) <;> simp only [Option.some.injEq, Prod.mk.injEq] at hts <;> obtain ⟨rfl, rfl⟩ := hts <;>
      constructor <;> simp only [] <;> grind
  | c c =>
    cases c <;> simp only [estep0, cstep, takeSlot] at hts <;>
      (repeat' split at hts) <;> simp only [Option.some.injEq, Prod.mk.injEq] at hts <;> (try contradiction) <;>
      obtain ⟨rfl, rfl⟩ := hts <;> constructor <;> simp only [] <;> grind

end MayVerif.Cancel
