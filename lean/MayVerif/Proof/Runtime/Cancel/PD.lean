import MayVerif.Proof.Runtime.Cancel.Inv
namespace MayVerif.Cancel

set_option maxHeartbeats 4000000 in
theorem invD_pstep (sh : Sh) (ppc : PPc) (kpc : Nat → KPc) (epc : Tid → EPc) (e : Env)
    (hA : InvA ⟨sh, ppc, kpc, epc⟩) (h : InvD ⟨sh, ppc, kpc, epc⟩) (sh' : Sh) (pc' : PPc) (ks : Option KPc)
    (hts : pstep sh ppc e = some (sh', pc', ks)) :
    InvD ⟨sh', pc', startK kpc sh.yields ks, epc⟩ := by
  obtain ⟨hbP, hbS, hbR, hbL, hbC, hbK, hl1, hl1c, hl2, hl3, hl3f, hl4, hfxK, hfxC, hfx3, hbT, hl4c, hl5⟩ := hA
  obtain ⟨hfx, hdz, hu1, hu2, hu3, hp1, hp2, hp3, hp4, hp5, hp6, hbad⟩ := h
  simp only at hbP hbS hbR hbL hbC hbK hl1 hl1c hl2 hl3 hl3f hl4 hfxK hfxC hfx3 hbT hl4c hl5 hfx hdz hu1 hu2 hu3 hp1 hp2 hp3 hp4 hp5 hp6 hbad
  have hS := kSlot_ne_off
  cases ppc with
  | idle =>
    cases e <;> simp only [pstep] at hts <;> (try contradiction) <;>
      (repeat' split at hts) <;> (try contradiction) <;> (try simp only [Option.some.injEq, Prod.mk.injEq] at hts) <;>
      obtain ⟨rfl, rfl, rfl⟩ := hts <;> constructor <;> simp only [startK] <;> grind
  | fin => simp [pstep] at hts
  | ck =>
    simp only [pstep, raise] at hts
    (repeat' split at hts) <;> (try contradiction) <;> (try simp only [Option.some.injEq, Prod.mk.injEq] at hts) <;>
      obtain ⟨rfl, rfl, rfl⟩ := hts <;> constructor <;> simp only [startK] <;> grind
  | y0 src =>
    cases src with
    | park a chk =>
      cases chk <;> simp only [pstep, post, checks, hfx, hdz] at hts <;>
        (repeat' split at hts) <;> (try contradiction) <;> (try simp only [Option.some.injEq, Prod.mk.injEq] at hts) <;>
        obtain ⟨rfl, rfl, rfl⟩ := hts <;> constructor <;> simp only [startK] <;> grind
    | sleep | yld | send =>
      simp only [pstep, post, checks, hfx, hdz] at hts <;>
        (repeat' split at hts) <;> (try contradiction) <;> (try simp only [Option.some.injEq, Prod.mk.injEq] at hts) <;>
        obtain ⟨rfl, rfl, rfl⟩ := hts <;> constructor <;> simp only [startK] <;> grind
  | susp src =>
    simp only [pstep] at hts
    (repeat' split at hts) <;> (try contradiction) <;> (try simp only [Option.some.injEq, Prod.mk.injEq] at hts) <;>
      obtain ⟨rfl, rfl, rfl⟩ := hts <;> constructor <;> simp only [startK] <;> grind
  | yb src short =>
    cases src <;> simp only [pstep, post, raise] at hts <;>
      (repeat' split at hts) <;> (try contradiction) <;> (try simp only [Option.some.injEq, Prod.mk.injEq] at hts) <;>
      obtain ⟨rfl, rfl, rfl⟩ := hts <;> constructor <;> simp only [startK] <;> grind
  | ycl src =>
    cases src <;> simp only [pstep, post] at hts <;>
      simp only [Option.some.injEq, Prod.mk.injEq] at hts <;>
      obtain ⟨rfl, rfl, rfl⟩ := hts <;> constructor <;> simp only [startK] <;> grind

end MayVerif.Cancel
