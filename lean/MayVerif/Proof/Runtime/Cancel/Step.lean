import MayVerif.Proof.Runtime.Cancel.PA
import MayVerif.Proof.Runtime.Cancel.KA
import MayVerif.Proof.Runtime.Cancel.EA
import MayVerif.Proof.Runtime.Cancel.PB
import MayVerif.Proof.Runtime.Cancel.KB
import MayVerif.Proof.Runtime.Cancel.EB
import MayVerif.Proof.Runtime.Cancel.PF
import MayVerif.Proof.Runtime.Cancel.KF
import MayVerif.Proof.Runtime.Cancel.EF
import MayVerif.Proof.Runtime.Cancel.PD
import MayVerif.Proof.Runtime.Cancel.KD
import MayVerif.Proof.Runtime.Cancel.ED
namespace MayVerif.Cancel

theorem invA_maxE (sh : Sh) (ppc : PPc) (kpc : Nat → KPc) (epc : Tid → EPc) (m : Nat) (h : InvA ⟨sh, ppc, kpc, epc⟩) :
    InvA ⟨{ sh with maxE := m }, ppc, kpc, epc⟩ := by
  obtain ⟨h1, h2, h3, h4, h5, h6, h7, h8, h9, h10, h11, h12, h13, h14, h15, h16, h17, h18⟩ := h
  exact ⟨h1, h2, h3, h4, h5, h6, h7, h8, h9, h10, h11, h12, h13, h14, h15, h16, h17, h18⟩

theorem invB_maxE (sh : Sh) (ppc : PPc) (kpc : Nat → KPc) (epc : Tid → EPc) (m : Nat) (h : InvB ⟨sh, ppc, kpc, epc⟩) :
    InvB ⟨{ sh with maxE := m }, ppc, kpc, epc⟩ := by
  obtain ⟨h1, h2, h3, h4, h5, h6, h7, h8⟩ := h
  exact ⟨h1, h2, h3, h4, h5, h6, h7, h8⟩

theorem invF_maxE (sh : Sh) (ppc : PPc) (kpc : Nat → KPc) (epc : Tid → EPc) (m : Nat) (h : InvF ⟨sh, ppc, kpc, epc⟩) :
    InvF ⟨{ sh with maxE := m }, ppc, kpc, epc⟩ := by
  obtain ⟨h1, h2, h3, h4, h5, h6, h7, h8⟩ := h
  exact ⟨h1, h2, h3, h4, h5, h6, h7, h8⟩

theorem invD_maxE (sh : Sh) (ppc : PPc) (kpc : Nat → KPc) (epc : Tid → EPc) (m : Nat) (h : InvD ⟨sh, ppc, kpc, epc⟩) :
    InvD ⟨{ sh with maxE := m }, ppc, kpc, epc⟩ := by
  obtain ⟨h1, h2, h3, h4, h5, h6, h7, h8, h9, h10, h11, h12⟩ := h
  exact ⟨h1, h2, h3, h4, h5, h6, h7, h8, h9, h10, h11, h12⟩

theorem invA_step (s s' : St) (a : Actor) (e : Env) (h : InvA s) (hs : step s a e = some s') : InvA s' := by
  obtain ⟨sh, ppc, kpc, epc⟩ := s
  cases a with
  | p =>
    simp only [step] at hs
    split at hs
    · contradiction
    · next sh' pc' ks hts =>
      simp only [Option.some.injEq] at hs; subst hs
      exact invA_pstep sh ppc kpc epc e h sh' pc' ks hts
  | k n =>
    simp only [step] at hs
    split at hs
    · contradiction
    · next sh' pc' hts =>
      simp only [Option.some.injEq] at hs; subst hs
      exact invA_kstep sh ppc kpc epc n e h sh' pc' hts
  | e t =>
    simp only [step, estep] at hs
    split at hs
    · contradiction
    · next sh' pc' hts =>
      split at hts
      · contradiction
      · next sh0 pc0 hts0 =>
        simp only [Option.some.injEq, Prod.mk.injEq] at hts
        obtain ⟨rfl, rfl⟩ := hts
        simp only [Option.some.injEq] at hs; subst hs
        exact invA_maxE _ _ _ _ _ (invA_estep sh ppc kpc epc t e h sh0 pc0 hts0)

theorem invB_step (s s' : St) (a : Actor) (e : Env) (hA : InvA s) (h : InvB s) (hs : step s a e = some s') : InvB s' := by
  obtain ⟨sh, ppc, kpc, epc⟩ := s
  cases a with
  | p =>
    simp only [step] at hs
    split at hs
    · contradiction
    · next sh' pc' ks hts =>
      simp only [Option.some.injEq] at hs; subst hs
      exact invB_pstep sh ppc kpc epc e hA h sh' pc' ks hts
  | k n =>
    simp only [step] at hs
    split at hs
    · contradiction
    · next sh' pc' hts =>
      simp only [Option.some.injEq] at hs; subst hs
      exact invB_kstep sh ppc kpc epc n e hA h sh' pc' hts
  | e t =>
    simp only [step, estep] at hs
    split at hs
    · contradiction
    · next sh' pc' hts =>
      split at hts
      · contradiction
      · next sh0 pc0 hts0 =>
        simp only [Option.some.injEq, Prod.mk.injEq] at hts
        obtain ⟨rfl, rfl⟩ := hts
        simp only [Option.some.injEq] at hs; subst hs
        exact invB_maxE _ _ _ _ _ (invB_estep sh ppc kpc epc t e hA h sh0 pc0 hts0)

theorem invF_step (s s' : St) (a : Actor) (e : Env) (hA : InvA s) (h : InvF s) (hs : step s a e = some s') : InvF s' := by
  obtain ⟨sh, ppc, kpc, epc⟩ := s
  cases a with
  | p =>
    simp only [step] at hs
    split at hs
    · contradiction
    · next sh' pc' ks hts =>
      simp only [Option.some.injEq] at hs; subst hs
      exact invF_pstep sh ppc kpc epc e hA h sh' pc' ks hts
  | k n =>
    simp only [step] at hs
    split at hs
    · contradiction
    · next sh' pc' hts =>
      simp only [Option.some.injEq] at hs; subst hs
      exact invF_kstep sh ppc kpc epc n e hA h sh' pc' hts
  | e t =>
    simp only [step, estep] at hs
    split at hs
    · contradiction
    · next sh' pc' hts =>
      split at hts
      · contradiction
      · next sh0 pc0 hts0 =>
        simp only [Option.some.injEq, Prod.mk.injEq] at hts
        obtain ⟨rfl, rfl⟩ := hts
        simp only [Option.some.injEq] at hs; subst hs
        exact invF_maxE _ _ _ _ _ (invF_estep sh ppc kpc epc t e hA h sh0 pc0 hts0)

theorem invAF_run (s : St) (sched : List (Actor × Env)) (hA : InvA s) (hF : InvF s) :
    InvA (run s sched) ∧ InvF (run s sched) := by
  induction sched generalizing s with
  | nil => simpa [run] using ⟨hA, hF⟩
  | cons ae r ih =>
    obtain ⟨a, e⟩ := ae
    simp only [run]
    split
    · next s' hs => exact ih _ (invA_step _ _ _ _ hA hs) (invF_step _ _ _ _ hA hF hs)
    · exact ih _ hA hF

theorem invD_step (s s' : St) (a : Actor) (e : Env) (hA : InvA s) (h : InvD s) (hs : step s a e = some s') : InvD s' := by
  obtain ⟨sh, ppc, kpc, epc⟩ := s
  cases a with
  | p =>
    simp only [step] at hs
    split at hs
    · contradiction
    · next sh' pc' ks hts =>
      simp only [Option.some.injEq] at hs; subst hs
      exact invD_pstep sh ppc kpc epc e hA h sh' pc' ks hts
  | k n =>
    simp only [step] at hs
    split at hs
    · contradiction
    · next sh' pc' hts =>
      simp only [Option.some.injEq] at hs; subst hs
      exact invD_kstep sh ppc kpc epc n e hA h sh' pc' hts
  | e t =>
    simp only [step, estep] at hs
    split at hs
    · contradiction
    · next sh' pc' hts =>
      split at hts
      · contradiction
      · next sh0 pc0 hts0 =>
        simp only [Option.some.injEq, Prod.mk.injEq] at hts
        obtain ⟨rfl, rfl⟩ := hts
        simp only [Option.some.injEq] at hs; subst hs
        exact invD_maxE _ _ _ _ _ (invD_estep sh ppc kpc epc t e hA h sh0 pc0 hts0)

theorem invAD_run (s : St) (sched : List (Actor × Env)) (hA : InvA s) (hD : InvD s) :
    InvA (run s sched) ∧ InvD (run s sched) := by
  induction sched generalizing s with
  | nil => simpa [run] using ⟨hA, hD⟩
  | cons ae r ih =>
    obtain ⟨a, e⟩ := ae
    simp only [run]
    split
    · next s' hs => exact ih _ (invA_step _ _ _ _ hA hs) (invD_step _ _ _ _ hA hD hs)
    · exact ih _ hA hD

theorem invA_run (s : St) (sched : List (Actor × Env)) (h : InvA s) : InvA (run s sched) := by
  induction sched generalizing s with
  | nil => simpa [run]
  | cons ae r ih =>
    obtain ⟨a, e⟩ := ae
    simp only [run]
    split
    · next s' hs => exact ih _ (invA_step _ _ _ _ h hs)
    · exact ih _ h

theorem invAB_run (s : St) (sched : List (Actor × Env)) (hA : InvA s) (hB : InvB s) :
    InvA (run s sched) ∧ InvB (run s sched) := by
  induction sched generalizing s with
  | nil => simpa [run] using ⟨hA, hB⟩
  | cons ae r ih =>
    obtain ⟨a, e⟩ := ae
    simp only [run]
    split
    · next s' hs => exact ih _ (invA_step _ _ _ _ hA hs) (invB_step _ _ _ _ hA hB hs)
    · exact ih _ hA hB

/-! bounds on the actors that ever moved: they make quiescence of a concrete state decidable -/
structure InvBd (s : St) : Prop where
  kB : ∀ (n : Nat), s.sh.yields ≤ n → s.kpc n = .off
  eB : ∀ (t : Tid), s.sh.maxE ≤ t → s.epc t = .idle

theorem invBd_init (ov : Bool) (p0 : Para) (ns : Nat) (fx dz : Bool) : InvBd (init ov p0 ns fx dz) := by
  constructor <;> simp [init]

end MayVerif.Cancel
