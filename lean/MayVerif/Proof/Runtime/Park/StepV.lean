import MayVerif.Proof.Runtime.Park.Tac
namespace MayVerif.Park

set_option maxHeartbeats 2000000 in
theorem inv_stepV (s s' : St) (t : Tid) (e : Env) (h : Inv s) (hs : stepV s t e = some s') : Inv s' := by
  destruct_inv
  unfold stepV at hs
  split at hs
  all_goals (try (split at hs))
  all_goals (try (simp only [Option.some.injEq, reduceCtorEq] at hs))
  all_goals (try (subst hs))
  all_goals (first | contradiction | fin_inv)

end MayVerif.Park
