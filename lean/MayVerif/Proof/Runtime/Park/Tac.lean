import MayVerif.Proof.Runtime.Park.Inv
namespace MayVerif.Park

set_option hygiene false in
macro "destruct_inv" : tactic => `(tactic|
  obtain ⟨hbad, hrun, hktail, hytail, hslot, hheldK, hheldKc, hheldKt, hheldT, hheldC, hheldV, hqueued, hcnt, hu3, hyt, hwk, hb2,
    hdr1, hdr2, hdr3, hdr4, hi2, hi4, hcb1, hcb2, hcb3, hcb4, hr0, hr1, hpown, hplive, htm1, htm2, htm3, htm4, htm5, htm6, hdl1, hdl3, hdl4, hdl2, hdu1, hdu2, hdu3, hkc1, hkc2, he1, he2, he2b, he3, he4, he5, he6, hf6, hg0, hg1, hg2⟩ := h)

macro "fin_inv" : tactic => `(tactic|
  (constructor <;> (try simp only [sched, ret, cpanic, yieldNow]) <;> (try dsimp only []) <;> first | grind | grind (splits := 40)))

/-- a holder's pc implies that the parker is suspended at `u3wait` -/
theorem Inv.susp_of_loc (s : St) (h : Inv s) (hl : s.loc ≠ .run) : susp s.ppc = true := by
  cases hs : susp s.ppc
  · exact absurd (h.run.mpr hs) hl
  · rfl

end MayVerif.Park
