/-
  Definitions used in the statements of `Props/C02.lean`, and the bridge lemmas from the invariant.
-/
import MayVerif.Proof.Runtime.Park.Step
import MayVerif.Proof.Runtime.Park.Tac
import MayVerif.Proof.Runtime.Park.TP
namespace MayVerif.Park

/-- nobody but the parker (and a dropper) is in the middle of an operation and nothing is queued -/
def Quiescent (s : St) : Prop :=
  s.kpc = .kidle ∧ s.tpc = .tidle ∧ s.cpc = .cidle ∧ s.ypend = false ∧ s.rq = 0 ∧ ∀ t, s.vpcs t = .vidle

/-- actor `a` has taken the coroutine out of the slot and has not yet resumed / scheduled it -/
def Holds (s : St) : Actor → Prop
  | .K => s.kpc = .k4r ∨ s.kpc = .kc4 ∨ s.kpc = .k2r
  | .T => s.tpc = .t1
  | .C => s.cpc = .c4
  | .V t => s.vpcs t = .v2
  | _ => False

theorem stepK_isSome (s : St) (h : s.kpc ≠ .kidle) : (stepK s).isSome = true := by
  unfold stepK ktouch
  dsimp only []
  cases hk : s.kpc <;> simp only [] <;> first | exact absurd hk h | rfl | (split <;> rfl)

theorem stepT_isSome (s : St) (h : s.tpc ≠ .tidle) : (stepT s .go).isSome = true := by
  unfold stepT
  cases ht : s.tpc <;> simp only [] <;> first | exact absurd ht h | rfl | (split <;> rfl)

theorem stepC_isSome (s : St) (h : s.cpc ≠ .cidle) : (stepC s .go).isSome = true := by
  unfold stepC
  cases hc : s.cpc <;> simp only [] <;> first | exact absurd hc h | rfl | (split <;> rfl)

theorem stepV_isSome (s : St) (t : Tid) (h : s.vpcs t ≠ .vidle) : (stepV s t .go).isSome = true := by
  unfold stepV
  cases hv : s.vpcs t <;> simp only [] <;> first | exact absurd hv h | rfl | (split <;> rfl)

/-- "no actor other than the parker has an enabled step of an operation in progress" gives `Quiescent` -/
theorem quiescent_of_stuck (s : St) (hq : ∀ a, a ≠ Actor.P → a ≠ Actor.D → step s a .go = none) : Quiescent s := by
  refine ⟨?_, ?_, ?_, ?_, ?_, ?_⟩
  · have := hq .K (by simp) (by simp)
    cases hk : s.kpc <;> first | rfl | (have h2 := stepK_isSome s (by simp [hk]); rw [show stepK s = none from this] at h2; simp at h2)
  · have := hq .T (by simp) (by simp)
    cases ht : s.tpc <;> first | rfl | (have h2 := stepT_isSome s (by simp [ht]); rw [show stepT s .go = none from this] at h2; simp at h2)
  · have := hq .C (by simp) (by simp)
    cases hc : s.cpc <;> first | rfl | (have h2 := stepC_isSome s (by simp [hc]); rw [show stepC s .go = none from this] at h2; simp at h2)
  · have := hq .Y (by simp) (by simp)
    simp only [step] at this
    cases hy : s.ypend <;> simp_all
  · have := hq .S (by simp) (by simp)
    simp only [step] at this
    split at this
    · simp at this
    · omega
  · intro t
    have := hq (.V t) (by simp) (by simp)
    cases hv : s.vpcs t <;> first | rfl | (have h2 := stepV_isSome s t (by simp [hv]); rw [show stepV s t .go = none from this] at h2; simp at h2)

theorem holds_unique (s : St) (h : Inv s) (a b : Actor) (ha : Holds s a) (hb : Holds s b) : a = b := by
  have h1 := h.heldK; have h2 := h.heldKc; have h2t := h.heldKt; have h3 := h.heldT; have h4 := h.heldC; have h5 := h.heldV
  cases a <;> cases b <;> simp only [Holds] at ha hb <;> grind

theorem holds_excl (s : St) (h : Inv s) (a : Actor) (ha : Holds s a) :
    s.wco = false ∧ s.rq = 0 ∧ s.ypend = false ∧ s.ppc = .u3wait := by
  have h1 := h.heldK; have h2 := h.heldKc; have h2t := h.heldKt; have h3 := h.heldT; have h4 := h.heldC; have h5 := h.heldV
  have h6 := h.slot; have h7 := h.queued; have h8 := h.ytail; have h9 := h.u3
  cases a <;> simp only [Holds] at ha <;> grind

theorem slot_excl (s : St) (h : Inv s) (hw : s.wco = true) : s.rq = 0 ∧ s.ypend = false ∧ s.ppc = .u3wait := by
  have h6 := h.slot; have h7 := h.queued; have h8 := h.ytail; have h9 := h.u3
  grind

theorem queued_excl (s : St) (h : Inv s) (hw : 0 < s.rq) : s.rq = 1 ∧ s.wco = false ∧ s.ypend = false ∧ susp s.ppc = true := by
  have h6 := h.slot; have h7 := h.queued; have h8 := h.ytail; have h9 := h.run
  grind

/-- I2 ∧ I4 at quiescence: an unpark since the last return and a suspended parker cannot coexist -/
theorem no_lost_wakeup (s : St) (h : Inv s) (hq : Quiescent s) (hw : s.w = true) : susp s.ppc = false := by
  obtain ⟨hk, ht, hc, hy, hr, hv⟩ := hq
  have hv1 := hv s.lastV
  destruct_inv
  cases hs : susp s.ppc
  · rfl
  · exfalso
    cases hl : s.loc <;> grind

/-- the code variant never changes -/
theorem step_fix (s s' : St) (a : Actor) (e : Env) (hs : step s a e = some s') : s'.fix = s.fix := by
  cases a <;> simp only [step] at hs
  · unfold stepP at hs
    split at hs <;> (try (split at hs)) <;> simp only [Option.some.injEq, reduceCtorEq] at hs <;>
      first | contradiction | (subst hs; simp [ret, cpanic, yieldNow])
  · unfold stepK ktouch at hs
    dsimp only [] at hs
    split at hs <;> (try (split at hs)) <;> simp only [Option.some.injEq, reduceCtorEq] at hs <;>
      first | contradiction | (subst hs; simp [resume, sched]; try (split <;> rfl))
  · unfold stepT at hs
    split at hs <;> (try (split at hs)) <;> simp only [Option.some.injEq, reduceCtorEq] at hs <;>
      first | contradiction | (subst hs; simp [resume]; try (split <;> rfl))
  · unfold stepC at hs
    split at hs <;> (try (split at hs)) <;> simp only [Option.some.injEq, reduceCtorEq] at hs <;>
      first | contradiction | (subst hs; simp [sched])
  · split at hs
    · simp only [Option.some.injEq] at hs; subst hs; simp [sched]
    · contradiction
  · split at hs
    · simp only [Option.some.injEq] at hs; subst hs; simp only [resume]; split <;> rfl
    · contradiction
  · unfold stepD at hs
    split at hs <;> (try (split at hs)) <;> simp only [Option.some.injEq, reduceCtorEq] at hs <;>
      first | contradiction | (subst hs; rfl)
  · unfold stepV at hs
    split at hs <;> (try (split at hs)) <;> simp only [Option.some.injEq, reduceCtorEq] at hs <;>
      first | contradiction | (subst hs; simp [sched])

theorem run_fix (s : St) (sched : List (Actor × Env)) : (run s sched).fix = s.fix := by
  induction sched generalizing s with
  | nil => rfl
  | cons ae r ih =>
    obtain ⟨a, e⟩ := ae
    simp only [run]
    split
    · next s' hs => rw [ih, step_fix _ _ _ _ hs]
    · exact ih _

theorem inv_reachPinned (sched : List (Actor × Env)) : Inv (run initPinned sched) := inv_run _ _ inv_initPinned

/-- fixed code: a timed parker whose deadline has passed is not left in the slot when nobody else has a step and
    the timer thread cannot pop its entry any more -/
theorem timeout_returns (s : St) (h : Inv s) (hf : s.fix = true) (hq : Quiescent s) (hpop : step s .T .popOwn = none)
    (hd : s.dur ≠ 0) (hdue : s.due = true) : s.ppc ≠ .u3wait := by
  obtain ⟨hk, ht, hc, hy, hr, hv⟩ := hq
  have hown : ¬ (s.own = .armed ∨ s.own = .delreq) := by
    intro ho
    simp [step, stepT, ht, ho, hdue] at hpop
  intro hp
  have hsu : susp s.ppc = true := by simp [hp, susp]
  have hv1 := hv s.lastV
  destruct_inv
  cases hl : s.loc <;> grind

end MayVerif.Park
