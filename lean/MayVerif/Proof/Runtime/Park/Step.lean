import MayVerif.Proof.Runtime.Park.StepP
import MayVerif.Proof.Runtime.Park.StepK
import MayVerif.Proof.Runtime.Park.StepV
import MayVerif.Proof.Runtime.Park.StepT
import MayVerif.Proof.Runtime.Park.StepC
import MayVerif.Proof.Runtime.Park.StepYS
namespace MayVerif.Park

theorem inv_step (s s' : St) (a : Actor) (e : Env) (h : Inv s) (hs : step s a e = some s') : Inv s' := by
  cases a with
  | P => exact inv_stepP s s' e h hs
  | K => exact inv_stepK s s' h hs
  | T => exact inv_stepT s s' e h hs
  | C => exact inv_stepC s s' e h hs
  | D => exact inv_stepD s s' e h hs
  | V t => exact inv_stepV s s' t e h hs
  | Y =>
    simp only [step] at hs
    split at hs
    · next hy => simp only [Option.some.injEq] at hs; subst hs; exact inv_stepY s h hy
    · contradiction
  | S =>
    simp only [step] at hs
    split at hs
    · next hq => simp only [Option.some.injEq] at hs; subst hs; exact inv_stepS s h hq
    · contradiction

theorem inv_run (s : St) (sched : List (Actor × Env)) (h : Inv s) : Inv (run s sched) := by
  induction sched generalizing s with
  | nil => simpa [run]
  | cons ae r ih =>
    obtain ⟨a, e⟩ := ae
    simp only [run]
    split
    · next s' hs => exact ih _ (inv_step _ _ _ _ h hs)
    · exact ih _ h

theorem inv_reach (sched : List (Actor × Env)) : Inv (run init sched) := inv_run _ _ inv_init

end MayVerif.Park
