import MayVerif.Proof.Runtime.Park.StepP0
import MayVerif.Proof.Runtime.Park.StepP1
import MayVerif.Proof.Runtime.Park.StepP2
namespace MayVerif.Park

theorem inv_stepP (s s' : St) (e : Env) (h : Inv s) (hs : stepP s e = some s') : Inv s' := by
  have h3 : pgrp s.ppc = 0 ∨ pgrp s.ppc = 1 ∨ pgrp s.ppc = 2 := by
    cases s.ppc <;> simp [pgrp]
  rcases h3 with h0 | h1 | h2
  · exact inv_stepP0 s s' e h h0 hs
  · exact inv_stepP1 s s' e h h1 hs
  · exact inv_stepP2 s s' e h h2 hs

end MayVerif.Park
