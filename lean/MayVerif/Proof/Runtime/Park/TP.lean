/-
  ThreadPark (the lock/cvar token of src/sync/blocking.rs): invariant of `tpStep`.
-/
import MayVerif.Model.Runtime.Park
namespace MayVerif.Park

structure TPInv (s : TPSt) : Prop where
  /-- every token that was ever set is accounted for: consumed by an `Ok`, swallowed by a `Timeout`, or still there -/
  conserve : s.sets = s.oks + s.swallowed + (if s.tok then 1 else 0)
  /-- a waiter whose token is set has been notified: its wait ends -/
  wake : ∀ timed, s.ppc = .waiting timed → s.tok = true → s.notified = true
  /-- only a timed wait ends by time-out -/
  timed : ∀ timed, s.ppc = .woken timed true → timed = true

theorem tpInv_init : TPInv {} := by constructor <;> simp

theorem tpInv_step (s s' : TPSt) (p : Bool) (e : TPEv) (h : TPInv s) (hs : tpStep s p e = some s') : TPInv s' := by
  obtain ⟨h1, h2, h3⟩ := h
  unfold tpStep at hs
  split at hs
  · split at hs
    all_goals (try (split at hs))
    all_goals (try (simp only [Option.some.injEq, reduceCtorEq] at hs))
    all_goals (try (subst hs))
    all_goals (first | contradiction | (constructor <;> (try dsimp only []) <;> grind))
  · split at hs
    all_goals (try (split at hs))
    all_goals (try (simp only [Option.some.injEq, reduceCtorEq] at hs))
    all_goals (try (subst hs))
    all_goals (first | contradiction | (constructor <;> (try dsimp only []) <;> grind))

theorem tpInv_run (s : TPSt) (l : List (Bool × TPEv)) (h : TPInv s) : TPInv (tpRun s l) := by
  induction l generalizing s with
  | nil => simpa [tpRun]
  | cons pe r ih =>
    obtain ⟨p, e⟩ := pe
    simp only [tpRun]
    split
    · next s' hs => exact ih _ (tpInv_step _ _ _ _ h hs)
    · exact ih _ h

end MayVerif.Park
