/-
  The invariant of the Park model (`Model/Runtime/Park.lean`), in groups:
   A  the coroutine is a linear token: the ghost location agrees with the real slot, the ready queue, the pending
      Yield tail and the pcs of everybody who can hold it; nothing "bad" ever happens; yields and resumes alternate
   B  the `wait_kernel` guard (I6): the kernel tail is active exactly while `wait_kernel` is set (after its store);
      the parker does not re-enter and nobody drops the Park while it is
   C  no lost wake-up (I2, I4)
   D  result soundness (I5)
   F  the own timer of a timed park is still going to fire unless the F6 window was hit
-/
import MayVerif.Model.Runtime.Park
namespace MayVerif.Park

@[grind =] theorem upd_apply {α : Type} (f : Nat → α) (t : Nat) (v : α) (u : Nat) : upd f t v u = if u = t then v else f u := rfl

@[grind] def kPre : KPc → Bool | .k5d | .k5 | .k5x | .k0 | .k1 | .k2 => true | _ => false
/-- the kernel tail has set `wait_kernel` and not yet cleared it -/
@[grind] def kAct : KPc → Bool | .kidle | .k5d | .k5 | .k5x | .k0 | .k1 => false | _ => true
/-- the kernel tail is past its re-check of `state` with the answer "not set" (or done) -/
@[grind] def kPast : KPc → Bool | .kidle | .k5c | .kc3 | .kc4 | .k6 => true | _ => false
/-- the parker has consumed the token after its resume and is on its way out of the park call -/
@[grind] def retBound : PPc → Bool | .u6 | .u7 => true | _ => false
/-- the parker is inside a park call -/
@[grind] def inPark : PPc → Bool
  | .u0load | .u0store | .u0swap | .u1load | .u1chk | .u1wait | .u1back | .u1pan | .u2store | .u3chk | .u3wait
  | .u4chk | .u4cst | .u5load | .u5store | .u5swap | .u6 | .u7 => true
  | _ => false
/-- ... and before its switch-out / resume -/
@[grind] def preYield : PPc → Bool
  | .u0load | .u0store | .u0swap | .u1load | .u1chk | .u1wait | .u1back | .u1pan | .u2store | .u3chk | .u3wait => true
  | _ => false
/-- the para slot may be non-empty only here -/
@[grind] def paraLive : PPc → Bool
  | .u3wait | .u4chk | .u4cst | .u5load | .u5store | .u5swap | .u6 | .u7 | .u1pan | .pd0pan => true
  | _ => false
/-- the parker was resumed out of the slot (or took the cancel shortcut) and has not yet read the para -/
@[grind] def postRes : PPc → Bool
  | .u4chk | .u4cst | .u5load | .u5store | .u5swap | .u6 | .u7 => true
  | _ => false
@[grind] def cSet : CPc → Bool | .c2 | .c3 | .c4 => true | _ => false
@[grind] def kcSet : KPc → Bool | .kc3 | .kc4 => true | _ => false
@[grind] def kArmed : KPc → Bool | .k1 | .k2 => true | _ => false
/-- fixed code: the tail has armed the timer and not yet done its re-check of the time (incl. the take that follows) -/
@[grind] def kWin : KPc → Bool | .k1 | .k2 | .k2t | .k2k => true | _ => false
/-- the tail has not yet reached the arming step -/
@[grind] def kPreArm : KPc → Bool | .k5d | .k5 | .k5x | .k0 => true | _ => false
@[grind] def kChk : KPc → Bool | .k2t | .k2k | .k2r => true | _ => false

@[grind →] theorem kArmed_kPre {k : KPc} (h : kArmed k = true) : kPre k = true := by cases k <;> simp_all [kArmed, kPre]
@[grind →] theorem kAct_false {k : KPc} (h : kAct k = false) : k = .kidle ∨ kPre k = true := by cases k <;> simp_all [kAct, kPre]
@[grind →] theorem kPre_true {k : KPc} (h : kPre k = true) : kPast k = false ∧ kcSet k = false ∧ k ≠ .kidle := by
  cases k <;> simp_all [kPre, kPast, kcSet]
@[grind →] theorem kWin_true {k : KPc} (h : kWin k = true) : kPreArm k = false ∧ k ≠ .kidle ∧ kPast k = false := by
  cases k <;> simp_all [kWin, kPreArm, kPast]
@[grind →] theorem kChk_true {k : KPc} (h : kChk k = true) : kPre k = false ∧ kAct k = true ∧ kPast k = false ∧ kPreArm k = false ∧ kArmed k = false ∧ kcSet k = false := by
  cases k <;> simp_all [kChk, kPre, kAct, kPast, kPreArm, kArmed, kcSet]
@[grind →] theorem kPreArm_true {k : KPc} (h : kPreArm k = true) : kPre k = true ∧ kWin k = false ∧ kArmed k = false := by
  cases k <;> simp_all [kPreArm, kPre, kWin, kArmed]
@[grind →] theorem retBound_true {p : PPc} (h : retBound p = true) : susp p = false ∧ preYield p = false ∧ inPark p = true ∧ paraLive p = true := by
  cases p <;> simp_all [retBound, susp, preYield, inPark, paraLive]
@[grind →] theorem susp_true {p : PPc} (h : susp p = true) : p = .u3wait ∨ p = .u1wait ∨ p = .pd0wait := by
  cases p <;> simp_all [susp]

/-- proof engineering only: the preservation proof for P (and K) is split over several files that build in parallel -/
def pgrp : PPc → Nat
  | .idle | .pfin | .pchk _ | .u0load | .u0store | .u0swap | .u1load | .u1chk | .u1wait | .u1back | .u1pan => 0
  | .u2store | .u3chk | .u3wait | .u4chk | .u4cst | .u5load | .u5store | .u5swap | .u6 | .u7 => 1
  | _ => 2
def kgrp : KPc → Nat
  | .kidle | .k5d | .k5 | .k5x | .k0 | .k1 | .k2 | .k3 => 0
  | .k2t | .k2k | .k2r => 2
  | _ => 1

structure Inv (s : St) : Prop where
  -- A
  bad : s.bad = false
  run : (s.loc = .run) ↔ susp s.ppc = false
  ktail : (s.loc = .ktail) ↔ kPre s.kpc = true
  ytail : (s.loc = .ytail) ↔ s.ypend = true
  slot : (s.loc = .slot) ↔ s.wco = true
  heldK : (s.loc = .heldK) ↔ s.kpc = .k4r
  heldKc : (s.loc = .heldKc) ↔ s.kpc = .kc4
  heldKt : (s.loc = .heldKt) ↔ s.kpc = .k2r
  heldT : (s.loc = .heldT) ↔ s.tpc = .t1
  heldC : (s.loc = .heldC) ↔ s.cpc = .c4
  heldV : ∀ t, (s.loc = .heldV t) ↔ s.vpcs t = .v2
  queued : s.rq = if s.loc = .queued then 1 else 0
  cnt : s.yields = s.resumes + (if susp s.ppc then 1 else 0)
  u3 : (s.loc = .ktail ∨ s.loc = .slot ∨ s.loc = .heldK ∨ s.loc = .heldKc ∨ s.loc = .heldKt ∨ s.loc = .heldT ∨ s.loc = .heldC ∨ (∃ t, s.loc = .heldV t)) → s.ppc = .u3wait
  yt : s.loc = .ytail → (s.ppc = .u1wait ∨ s.ppc = .pd0wait)
  -- B
  wk : s.wk = kAct s.kpc
  b2 : (s.ppc = .u2store ∨ s.ppc = .u3chk) → s.kpc = .kidle
  dr1 : s.dropped = true → s.dropping = true
  dr2 : s.dropping = true → inPark s.ppc = false
  dr3 : (s.dropped = true ∨ s.dpc = .d1 ∨ s.ppc = .pd1 ∨ s.ppc = .pen) → s.kpc = .kidle
  dr4 : (s.dpc = .d0load ∨ s.dpc = .d1 ∨ s.dpc = .dfin ∨ s.ppc = .pd0load ∨ s.ppc = .pdis ∨ s.ppc = .pd2load ∨ s.ppc = .pd0chk ∨ s.ppc = .pd0wait ∨ s.ppc = .pd0back ∨ s.ppc = .pd0pan ∨ s.ppc = .pen ∨ s.ppc = .pd1) → s.dropping = true
  -- C
  i2 : s.wco = true → kPast s.kpc = true → s.state = true → s.vpcs s.lastV = .v1
  i4 : s.w = true → (s.state = true ∨ retBound s.ppc = true)
  -- D
  cb1 : s.para = .canceled → s.cbit = true
  cb2 : cSet s.cpc = true → s.cbit = true
  cb3 : kcSet s.kpc = true → s.cbit = true
  cb4 : (s.ppc = .u1pan ∨ s.ppc = .pd0pan) → (s.cbit = true ∧ s.cdis = 0)
  r0 : s.rnd = 0 → (s.own = .none ∧ s.stale = 0 ∧ s.tpc = .tidle ∧ inPark s.ppc = false)
  r1 : s.rnd ≤ 1 → (s.stale = 0 ∧ s.tpc ≠ .t0 false)
  pown : s.para = .timedOut → (s.paraOwn = true ∨ 1 < s.rnd)
  plive : s.para ≠ .none → paraLive s.ppc = true
  tm1 : (s.ppc = .u3chk ∨ s.kpc = .k5d ∨ s.kpc = .k5 ∨ s.kpc = .k5x ∨ s.kpc = .k0) → s.tmo = s.dur
  tm2 : (s.own ≠ .none ∨ s.tpc = .t0 true) → s.dur ≠ 0
  tm3 : (s.para = .timedOut ∧ s.paraOwn = true) → s.dur ≠ 0
  tm4 : preYield s.ppc = true → s.own ≠ .delreq
  tm5 : s.tpc = .t1 → s.para = .timedOut
  tm6 : s.kpc = .k2r → s.para = .timedOut
  dl1 : s.ppc = .u3wait → kPreArm s.kpc = false → s.dl = true → (s.dur ≠ 0 ∧ s.own ≠ .none)
  dl3 : preYield s.ppc = true → (s.ppc ≠ .u3wait ∨ kPreArm s.kpc = true) → (s.own = .none ∧ s.tpc ≠ .t0 true)
  dl4 : kPre s.kpc = true → s.para = .none
  dl2 : s.own ≠ .none → (s.dl = true ∨ preYield s.ppc = false)
  du1 : s.due = true → s.dl = true
  du2 : s.tpc = .t0 true → s.due = true
  du3 : (s.para = .timedOut ∧ s.paraOwn = true) → s.due = true
  kc1 : kChk s.kpc = true → (s.fix = true ∧ s.dl = true)
  kc2 : (s.kpc = .k2k ∨ s.kpc = .k2r) → s.due = true
  -- E (an Ok needs an unpark)
  e1 : s.state = true → 1 ≤ s.sets
  e2 : ∀ t, s.vpcs t = .v1 → 1 ≤ s.sets
  e2b : ∀ t, s.vpcs t = .v2 → 1 ≤ s.sets
  e3 : (s.kpc = .k4 ∨ s.kpc = .k4r) → 1 ≤ s.sets
  e4 : (s.cpc = .c4 ∨ s.kpc = .kc4) → s.para = .canceled
  e5 : s.rq = 1 → s.ppc = .u3wait → (s.para ≠ .none ∨ 1 ≤ s.sets)
  e6 : postRes s.ppc = true → (s.para ≠ .none ∨ 1 ≤ s.sets)
  -- F
  f6 : s.ppc = .u3wait → s.dur ≠ 0 → s.lostTmo = false → (kArmed s.kpc = true ∨ s.wco = true) →
        (s.own = .armed ∨ s.tpc = .t0 true)
  -- F' (fixed code: the time-out cannot be lost)
  g0 : s.ppc = .u3wait → s.dur ≠ 0 → (kPreArm s.kpc = true ∨ s.dl = true)
  g1 : s.fix = true → s.ppc = .u3wait → s.dl = true → kWin s.kpc = true →
        (s.own = .armed ∨ s.tpc = .t0 true ∨ s.due = true)
  g2 : s.fix = true → s.ppc = .u3wait → s.dl = true → s.wco = true → kWin s.kpc = false →
        (s.own = .armed ∨ s.tpc = .t0 true)

theorem inv_initPinned : Inv initPinned := by
  constructor <;> simp [initPinned, susp, kPre, kAct, inPark, cSet, kcSet, kPast, retBound, preYield, paraLive, kArmed, postRes, kWin, kPreArm, kChk]

theorem inv_init : Inv init := by
  constructor <;> simp [init, susp, kPre, kAct, inPark, cSet, kcSet, kPast, retBound, preYield, paraLive, kArmed, postRes, kWin, kPreArm, kChk]

end MayVerif.Park
