import MayVerif.Proof.Runtime.Park.Tac
namespace MayVerif.Park

set_option maxHeartbeats 4000000 in
theorem inv_stepP2 (s s' : St) (e : Env) (h : Inv s) (hg : pgrp s.ppc = 2) (hs : stepP s e = some s') : Inv s' := by
  destruct_inv
  unfold stepP at hs
  split at hs
  all_goals (try (simp only [*, pgrp, reduceCtorEq] at hg))
  all_goals (try omega)
  all_goals (try (split at hs))
  all_goals (try (simp only [Option.some.injEq, reduceCtorEq] at hs))
  all_goals (try (subst hs))
  all_goals (first | contradiction | fin_inv)

end MayVerif.Park
