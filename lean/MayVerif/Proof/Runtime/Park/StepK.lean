import MayVerif.Proof.Runtime.Park.StepK0
import MayVerif.Proof.Runtime.Park.StepK1
import MayVerif.Proof.Runtime.Park.StepK2
namespace MayVerif.Park

theorem inv_stepK (s s' : St) (h : Inv s) (hs : stepK s = some s') : Inv s' := by
  have h2 : kgrp s.kpc = 0 ∨ kgrp s.kpc = 1 ∨ kgrp s.kpc = 2 := by
    cases s.kpc <;> simp [kgrp]
  rcases h2 with h0 | h1 | h2
  · exact inv_stepK0 s s' h h0 hs
  · exact inv_stepK1 s s' h h1 hs
  · exact inv_stepK2 s s' h h2 hs

end MayVerif.Park
