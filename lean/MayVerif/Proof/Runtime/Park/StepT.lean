import MayVerif.Proof.Runtime.Park.Tac
namespace MayVerif.Park

set_option maxHeartbeats 4000000 in
theorem inv_stepT (s s' : St) (e : Env) (h : Inv s) (hs : stepT s e = some s') : Inv s' := by
  have hp3 : s.tpc = .t1 → s.ppc = .u3wait := fun ht => h.u3 (Or.inr (Or.inr (Or.inr (Or.inr (Or.inr (Or.inl (h.heldT.mpr ht)))))))
  destruct_inv
  unfold stepT at hs
  split at hs
  all_goals (try (split at hs))
  all_goals (try (simp only [Option.some.injEq, reduceCtorEq] at hs))
  all_goals (try (subst hs))
  all_goals (first | contradiction | (constructor <;> (try simp only [resume, hp3, *]) <;> (try dsimp only []) <;> grind))

end MayVerif.Park
