import MayVerif.Proof.Runtime.Park.Tac
namespace MayVerif.Park

set_option maxHeartbeats 2000000 in
theorem inv_stepC (s s' : St) (e : Env) (h : Inv s) (hs : stepC s e = some s') : Inv s' := by
  destruct_inv
  unfold stepC at hs
  split at hs
  all_goals (try (split at hs))
  all_goals (try (simp only [Option.some.injEq, reduceCtorEq] at hs))
  all_goals (try (subst hs))
  all_goals (first | contradiction | fin_inv)

set_option maxHeartbeats 2000000 in
theorem inv_stepD (s s' : St) (e : Env) (h : Inv s) (hs : stepD s e = some s') : Inv s' := by
  destruct_inv
  unfold stepD at hs
  split at hs
  all_goals (try (split at hs))
  all_goals (try (simp only [Option.some.injEq, reduceCtorEq] at hs))
  all_goals (try (subst hs))
  all_goals (first | contradiction | fin_inv)

end MayVerif.Park
