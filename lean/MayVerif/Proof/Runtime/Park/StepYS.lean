import MayVerif.Proof.Runtime.Park.Tac
namespace MayVerif.Park

set_option maxHeartbeats 2000000 in
theorem inv_stepY (s : St) (h : Inv s) (hy : s.ypend = true) : Inv { sched s with ypend := false } := by
  destruct_inv
  fin_inv

set_option maxHeartbeats 2000000 in
theorem inv_stepS (s : St) (h : Inv s) (hq : 0 < s.rq) : Inv (resume { s with rq := s.rq - 1 }) := by
  have hl : s.loc = .queued := by
    have := h.queued; split at this <;> first | assumption | omega
  have hsu := h.susp_of_loc s (by rw [hl]; simp)
  destruct_inv
  unfold resume
  dsimp only []
  cases hp : s.ppc <;> simp only [hp, susp, reduceCtorEq] at hsu <;>
    (constructor <;> (try dsimp only []) <;> grind)

end MayVerif.Park
