import MayVerif.Proof.Runtime.Park.Tac
namespace MayVerif.Park

set_option maxHeartbeats 1000000 in
theorem inv_stepK0 (s s' : St) (h : Inv s) (hg : kgrp s.kpc = 0) (hs : stepK s = some s') : Inv s' := by
  have hppc : s.kpc = .k4r → s.ppc = .u3wait := fun hk => h.u3 (Or.inr (Or.inr (Or.inl (h.heldK.mpr hk))))
  have hppc2 : s.kpc = .k2r → s.ppc = .u3wait := fun hk => h.u3 (Or.inr (Or.inr (Or.inr (Or.inr (Or.inl (h.heldKt.mpr hk))))))
  have hnd : s.kpc ≠ .kidle → s.dropped = false := by
    intro hk; cases hd : s.dropped
    · rfl
    · exact absurd (h.dr3 (Or.inl hd)) hk
  destruct_inv
  unfold stepK ktouch at hs
  dsimp only [] at hs
  cases hk : s.kpc <;> simp only [hk, reduceCtorEq] at hs <;> simp only [hk, kgrp, reduceCtorEq] at hg <;> (try omega)
  all_goals (try (have hd0 := hnd (by simp [hk])))
  all_goals (try (have hp3 := hppc hk))
  all_goals (try (have hp3 := hppc2 hk))
  all_goals (try (split at hs)) <;> simp only [Option.some.injEq] at hs <;> subst hs
  all_goals (constructor <;> (try simp only [sched]) <;> (try simp only [resume, hp3]) <;> (try dsimp only []) <;> grind)

end MayVerif.Park
