/-
  The timer-handle cell of the repaired code (`St.fixOwn`, pending_fixes/io-timer-handle-race.patch): the cell is a lock, the
  handle it holds belongs to the wait in progress on its socket, and a timeout handler that goes on past its check owns that wait:
  nobody can end it (every taker has to disarm first, which needs the lock) until the handler has done its `co.take`.
-/
import MayVerif.Proof.Io.Inv
import MayVerif.Proof.Io.Timer
namespace MayVerif.Io

/-- the handler holds the lock of the cell of `s` -/
@[grind] def fCrit : WPc → Sock → Bool
  | .fOr s' _, s | .fTake s' _, s => s' == s
  | _, _ => false

structure Inv7 (st : St) : Prop where
  /-- the lock is held by a handler between its check and the end of its `co.take`, by one only, and the cell is empty then -/
  lk1 : ∀ s, st.tlock s = true → fCrit (st.wpc (st.lockBy s)) s = true
  lk2 : ∀ w s, fCrit (st.wpc w) s = true → st.tlock s = true ∧ st.lockBy s = w ∧ st.tslot s = none
  /-- the handle in the cell belongs to the wait in progress: its caller is switched off in that very wait, not yet scheduled -/
  m2 : ∀ s t, st.tslot s = some t → t < st.nextTm ∧ st.upc (st.own t) = .wait s ∧ st.wno t = st.wcnt (st.own t) ∧
        st.queued (st.own t) = false
  /-- … and so does the entry of a handler that has passed its check -/
  m1 : ∀ w s t, (st.wpc w = .fOr s t ∨ st.wpc w = .fTake s t) → st.upc (st.own t) = .wait s ∧ st.wno t = st.wcnt (st.own t) ∧
        st.queued (st.own t) = false
  /-- the handler's `co.take` comes after its `fetch_or` -/
  ft : ∀ w s t, st.wpc w = .fTake s t → st.flag s ≠ 0
  /-- whoever has taken a coroutine out of a slot took it from the socket it waits on -/
  hk : ∀ k s c, (st.kpc k = .dis s c ∨ st.kpc k = .ownDis s c ∨ st.kpc k = .xDis s c) → st.upc c = .wait s
  hw : ∀ w s c, (st.wpc w = .sDis s c ∨ st.wpc w = .xDis s c) → st.upc c = .wait s

theorem inv7_init (co : Co → Bool) : Inv7 (init co) := by
  constructor <;> simp [init, initCfg, fCrit]

theorem disarmTm_other (tm : Tm → TmSt) (ts : Option Tm) (t : Tm) (h : ts ≠ some t) : disarmTm tm ts t = tm t := by
  cases ts with
  | none => rfl
  | some u =>
    simp only [disarmTm, upd]
    split
    · next hu => subst hu; simp at h
    · rfl

theorem disarmTm_armed (tm : Tm → TmSt) (ts : Option Tm) (t : Tm) (s : Sock) (h : disarmTm tm ts t = .armed s) : tm t = .armed s := by
  cases ts with
  | none => simpa [disarmTm] using h
  | some u =>
    simp only [disarmTm, upd] at h
    split at h
    · next hu => subst hu; revert h; cases tm t <;> simp [unarm]
    · exact h

theorem disarmTm_gone (tm : Tm → TmSt) (ts : Option Tm) (t : Tm) (h : tm t = .gone) : disarmTm tm ts t = .gone := by
  cases ts with
  | none => simpa [disarmTm]
  | some u =>
    simp only [disarmTm, upd]
    split
    · next hu => subst hu; simp [h, unarm]
    · exact h

theorem disarmTm_popped (tm : Tm → TmSt) (ts : Option Tm) (t : Tm) (s : Sock) (h : tm t = .popped s) : disarmTm tm ts t = .popped s := by
  cases ts with
  | none => simpa [disarmTm]
  | some u =>
    simp only [disarmTm, upd]
    split
    · next hu => subst hu; simp [h, unarm]
    · exact h

set_option hygiene false in
macro "crunch7" : tactic => `(tactic| (
  simp only [kstep, wstep, ustep, estep, resumeU, schedule, disarm, finish, xtakeStep, hF, hD, hR, hO, hS, ↓reduceIte, Bool.true_and, Bool.false_and] at hs
  repeat' (split at hs)
  all_goals (first | contradiction | (simp only [Option.some.injEq] at hs; subst hs; constructor <;> (try simp only []) <;>
    first | grind [lor_ne_zero, timeoutBit] | grind (splits := 30) [lor_ne_zero, timeoutBit]
          | grind (splits := 40) (instances := 6000) (gen := 10) [lor_ne_zero, timeoutBit]))))

set_option hygiene false in
macro "prep7" : tactic => `(tactic| (
  obtain ⟨hF, hD, hR, hO, hS⟩ := hc
  obtain ⟨k0, lt, ls, lk, lw, lq, wt, ws, wk, ww, wq, u1, nb, nd⟩ := h
  have t1 := h3.t1; have t5 := h3.t5; have t5f := h3.t5f; have t5c := h3.t5c
  clear h3
  obtain ⟨lk1, lk2, m2, m1, ft, hk, hw⟩ := h7))

end MayVerif.Io
