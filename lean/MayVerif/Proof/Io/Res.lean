/-
  The result of a wait (TimedOut) is pending only between the resume of the timed-out caller and its result check: it is consumed
  before the operation goes on, nothing is left for a later operation.
-/
import MayVerif.Proof.Io.Inv
namespace MayVerif.Io

/-- the resumed coroutine caller before / at its result check -/
@[grind] def resPc : UPc → Bool | .back _ | .clear _ => true | _ => false

structure Inv9 (st : St) : Prop where
  pb : ∀ c, st.para c = true → resPc (st.upc c) = true

theorem inv9_init (co : Co → Bool) : Inv9 (init co) := by
  constructor; simp [init, initCfg]

set_option hygiene false in
macro "crunch9" : tactic => `(tactic| (
  simp only [kstep, wstep, ustep, estep, resumeU, schedule, disarm, finish, xtakeStep, hF, hD, hR, hO, hS, hL, ↓reduceIte, Bool.true_and, Bool.false_and] at hs
  repeat' (split at hs)
  all_goals (first | contradiction | (simp only [Option.some.injEq] at hs; subst hs; constructor <;> (try simp only []) <;>
    first | grind | grind (splits := 30)))))

set_option hygiene false in
macro "prep9" : tactic => `(tactic| (
  obtain ⟨hF, hD, hR, hO, hS, hL⟩ := hc
  have ws := h.ws; have wk := h.wk; have ww := h.ww; have wq := h.wq
  clear h
  obtain ⟨pb⟩ := h9))

set_option maxHeartbeats 8000000 in
theorem inv9_step (st st' : St) (a : Actor) (e : Env) (hc : Cfg st) (h : Inv1 st) (h9 : Inv9 st)
    (hs : step st a e = some st') : Inv9 st' := by
  prep9
  cases a with
  | u c =>
    simp only [step] at hs
    have hpb := pb c
    generalize hpc : st.upc c = pc at hs hpb
    cases pc <;> cases e <;> crunch9
  | k i =>
    simp only [step] at hs
    have hwk := wk i
    generalize hpc : st.kpc i = pc at hs hwk
    cases pc <;> crunch9
  | w i =>
    simp only [step] at hs
    have hww := ww i
    generalize hpc : st.wpc i = pc at hs hww
    cases pc <;> cases e <;> crunch9
  | env =>
    simp only [step] at hs
    cases e <;> crunch9

end MayVerif.Io
