import MayVerif.Proof.Io.Inv
namespace MayVerif.Io

set_option maxHeartbeats 8000000 in
theorem inv4_wstep (st st' : St) (w : Wk) (pc : WPc) (e : Env) (hc : Cfg st) (h : Inv1 st) (h4 : Inv4 st)
    (hpc : st.wpc w = pc) (hs : wstep st w pc e = some st') : Inv4 st' := by
  prep4
  have hlw := lw w; have hww := ww w
  cases pc with
  | idle => cases e <;> crunch
  | sTake s => crunch
  | sDis s c => simp [hpc, wHolds] at hlw hww; crunch
  | fChk s t => crunch
  | fOr s t => crunch
  | fTake s t => crunch
  | xio c => crunch
  | xtake s => crunch
  | xDis s c => simp [hpc, wHolds] at hlw hww; crunch

end MayVerif.Io
