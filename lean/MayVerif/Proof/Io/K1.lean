import MayVerif.Proof.Io.Inv
namespace MayVerif.Io

set_option hygiene false in
macro "kprep" : tactic => `(tactic| (
  obtain ⟨hF, hD, hR, hO, hS⟩ := hc
  obtain ⟨k0, lt, ls, lk, lw, lq, wt, ws, wk, ww, wq, u1, nb, nd⟩ := h
  have hk0 := k0 k; have hlt := lt k; have hwt := wt k; have hlk := lk k; have hwk := wk k
  (try simp [hpc, kTok, kHolds] at hk0); (try simp [hpc, kTok, kHolds] at hlt); (try simp [hpc, kTok, kHolds] at hwt)
  (try simp [hpc, kTok, kHolds] at hlk); (try simp [hpc, kTok, kHolds] at hwk)))

set_option maxHeartbeats 8000000 in
theorem inv1_kstep (st st' : St) (k : Kt) (pc : KPc) (e : Env) (hc : Cfg st) (h : Inv1 st)
    (hpc : st.kpc k = pc) (hs : kstep st k pc e = some st') : Inv1 st' := by
  cases pc with
  | off => simp [kstep] at hs
  | start s c r => kprep; crunch
  | arm s c r => kprep; crunch
  | set s c r t => kprep; crunch
  | store s c r => kprep; crunch
  | load s c r => kprep; crunch
  | take s => kprep; crunch
  | dis s c => kprep; crunch
  | reg s c => kprep; crunch
  | chk c => kprep; crunch
  | xor c => kprep; crunch
  | xio c => kprep; crunch
  | xtake s => kprep; crunch
  | xDis s c => kprep; crunch
  | reg0 s c r => kprep; crunch
  | chk2 s c => kprep; crunch
  | own s => kprep; crunch
  | ownDis s c => kprep; crunch

end MayVerif.Io
