/-
  Invariants of the io handshake model (`Model/Io.lean`).
    Inv1 : the coroutine is a linear token (where it is, who may resume it), one operation per socket
    Inv2 : register-then-recheck: a raised `io_flag` with a registered coroutine has a waker in progress; readiness that
           arrived after the EAGAIN is visible as a pending edge or a raised flag
-/
import MayVerif.Model.Io
namespace MayVerif.Io

/-- socket of the operation the caller is in -/
@[grind] def uSock : UPc → Option Sock
  | .reset s | .sys s _ | .dur s | .chk s | .pre s | .wait s | .back s | .clear s | .store s => some s
  | _ => none
@[grind] def isWait : UPc → Bool | .wait _ => true | _ => false
/-- the caller got EAGAIN and has not cleared `io_flag` since -/
@[grind] def phaseOn : UPc → Option Sock
  | .dur s | .chk s | .pre s | .wait s => some s
  | _ => none
/-- the kernel tail still carries the coroutine it is going to publish in the slot of `s` -/
@[grind] def kTok : KPc → Option (Co × Sock)
  | .start s c _ | .arm s c _ | .set s c _ _ | .store s c _ | .reg0 s c _ => some (c, s)
  | _ => none
@[grind] def kHolds : KPc → Option Co | .dis _ c | .ownDis _ c | .xDis _ c => some c | _ => none
@[grind] def wHolds : WPc → Option Co | .sDis _ c | .xDis _ c => some c | _ => none
/-- about to (re-)check / take on socket `s` -/
@[grind] def kWill : KPc → Sock → Bool
  | .load s' _ _, s | .take s', s => s' == s
  | _, _ => false
@[grind] def wWill : WPc → Sock → Bool
  | .sTake s', s | .fTake s' _, s => s' == s
  | _, _ => false
/-- the timeout handler has popped an entry of `s` and is about to raise IO_FLAG_TIMEOUT -/
@[grind] def fPend : WPc → Sock → Bool
  | .fOr s' _, s => s' == s
  | _, _ => false

/-- which code: every invariant below is one of the REPAIRED code (`init`); the branches of `step` that describe the trees without
    the fixes are there for the labelled defect witnesses and for the replay of those trees -/
structure Cfg (st : St) : Prop where
  hF : st.fixFlag = true
  hD : st.fixDis = true
  hR : st.regFirst = true
  hO : st.fixOwn = true
  hS : st.skipSys = false

theorem cfg_init (co : Co → Bool) : Cfg (init co) := ⟨rfl, rfl, rfl, rfl, rfl⟩

structure Inv1 (st : St) : Prop where
  k0 : ∀ k, st.kpc k ≠ .off → k < st.nk
  lt : ∀ k c s, kTok (st.kpc k) = some (c, s) → st.loc c = .tail k
  ls : ∀ s c, st.slot s = some c → st.loc c = .slot s
  lk : ∀ k c, kHolds (st.kpc k) = some c → st.loc c = .heldK k
  lw : ∀ w c, wHolds (st.wpc w) = some c → st.loc c = .heldW w
  lq : ∀ c, st.queued c = true → st.loc c = .queued
  wt : ∀ k c s, kTok (st.kpc k) = some (c, s) → st.upc c = .wait s
  ws : ∀ s c, st.slot s = some c → st.upc c = .wait s
  wk : ∀ k c, kHolds (st.kpc k) = some c → isWait (st.upc c) = true
  ww : ∀ w c, wHolds (st.wpc w) = some c → isWait (st.upc c) = true
  wq : ∀ c, st.queued c = true → isWait (st.upc c) = true
  u1 : ∀ c s, uSock (st.upc c) = some s → st.user s = some c
  nb : st.bad = false
  nd : st.dup = false

theorem inv1_init (co : Co → Bool) : Inv1 (init co) := by
  constructor <;> simp [init, initCfg, kTok, kHolds, wHolds, uSock]

structure Inv2 (st : St) : Prop where
  /-- the tail that filled the slot is a real one -/
  k1 : ∀ s c, st.slot s = some c → st.lastStore s < st.nk
  /-- readiness that arrived after the EAGAIN is visible: as a pending edge or as a raised flag -/
  j1 : ∀ c s, phaseOn (st.upc c) = some s → st.avail s = true → st.pend s = true ∨ st.flag s ≠ 0
  /-- a raised flag with a registered coroutine has its waker in progress: the tail that stored is about to re-check
      (or to take), or the selector that raised the flag is about to take -/
  j2 : ∀ s c, st.slot s = some c → st.flag s ≠ 0 →
        kWill (st.kpc (st.lastStore s)) s = true ∨ wWill (st.wpc (st.lastFetch s)) s = true

theorem inv2_init (co : Co → Bool) : Inv2 (init co) := by
  constructor <;> simp [init, initCfg, phaseOn]

theorem phase_uSock (pc : UPc) (s : Sock) (h : phaseOn pc = some s) : uSock pc = some s := by
  cases pc <;> simp_all [phaseOn, uSock]

theorem lor_ne_zero (a b : Nat) (h : b ≠ 0) : a ||| b ≠ 0 := by
  intro h0
  exact h (Nat.or_eq_zero_iff.mp h0).2

set_option hygiene false in
macro "crunch" : tactic => `(tactic| (
  simp only [kstep, wstep, ustep, estep, resumeU, schedule, disarm, finish, xtakeStep, hF, hD, hR, hO, hS, ↓reduceIte, Bool.true_and, Bool.false_and] at hs
  repeat' (split at hs)
  all_goals (first | contradiction | (simp only [Option.some.injEq] at hs; subst hs; constructor <;> (try simp only []) <;> first | grind | grind (splits := 25)))))

set_option hygiene false in
macro "crunch2" : tactic => `(tactic| (
  simp only [kstep, wstep, ustep, estep, resumeU, schedule, disarm, finish, xtakeStep, hF, hD, hR, hO, hS, ↓reduceIte, Bool.true_and, Bool.false_and] at hs
  repeat' (split at hs)
  all_goals (first | contradiction | (simp only [Option.some.injEq] at hs; subst hs; constructor <;> (try simp only []) <;> first | grind [lor_ne_zero, phase_uSock] | grind (splits := 25) [lor_ne_zero, phase_uSock]))))

set_option hygiene false in
macro "prep2" : tactic => `(tactic| (
  obtain ⟨hF, hD, hR, hO, hS⟩ := hc
  obtain ⟨k0, lt, ls, lk, lw, lq, wt, ws, wk, ww, wq, u1, nb, nd⟩ := h
  obtain ⟨k1, j1, j2⟩ := h2))

/-- the converse of the token clauses of `Inv1`: where `loc` says the coroutine is, it is -/
structure Inv4 (st : St) : Prop where
  r0 : ∀ c, isWait (st.upc c) = true → st.loc c ≠ .run
  r1 : ∀ c k, st.loc c = .tail k → (kTok (st.kpc k)).map (·.1) = some c
  r2 : ∀ c s, st.loc c = .slot s → st.slot s = some c
  r3 : ∀ c k, st.loc c = .heldK k → kHolds (st.kpc k) = some c
  r4 : ∀ c w, st.loc c = .heldW w → wHolds (st.wpc w) = some c
  r5 : ∀ c, st.loc c = .queued → st.queued c = true

theorem inv4_init (co : Co → Bool) : Inv4 (init co) := by
  constructor <;> simp [init, initCfg, isWait]

set_option hygiene false in
macro "prep4" : tactic => `(tactic| (
  obtain ⟨hF, hD, hR, hO, hS⟩ := hc
  obtain ⟨k0, lt, ls, lk, lw, lq, wt, ws, wk, ww, wq, u1, nb, nd⟩ := h
  obtain ⟨r0, r1, r2, r3, r4, r5⟩ := h4))

end MayVerif.Io
