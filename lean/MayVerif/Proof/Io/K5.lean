import MayVerif.Proof.Io.TT
namespace MayVerif.Io

set_option maxHeartbeats 16000000 in
theorem inv5_kstep (st st' : St) (k : Kt) (pc : KPc) (e : Env) (h : Inv1 st) (h3 : Inv3 st) (h5 : Inv5 st)
    (hpc : st.kpc k = pc) (hs : kstep st k pc e = some st') : Inv5 st' := by
  prep5
  have hk0 := k0 k; have hlt := lt k; have hwt := wt k; have hlk := lk k; have hwk := wk k
  have htk0 := tk0 k; have htk1 := tk1 k; have htk2 := tk2 k; have hhk := hk k
  cases pc with
  | off => simp [kstep] at hs
  | start s c r => simp [hpc, kTok, kHolds] at hk0 hlt hwt; crunch5
  | set s c r t => simp [hpc, kTok, kHolds] at hk0 hlt hwt; crunch5
  | store s c r => simp [hpc, kTok, kHolds] at hk0 hlt hwt; crunch5
  | load s c r => crunch5
  | take s => crunch5
  | dis s c => simp [hpc, kTok, kHolds] at hlk hwk; crunch5
  | reg s c => crunch5
  | chk c => crunch5
  | xor c => crunch5
  | xio c => crunch5
  | xtake s => crunch5
  | reg0 s c r => simp [hpc, kTok, kHolds] at hk0 hlt hwt; crunch5
  | chk2 s c => crunch5
  | own s => crunch5
  | ownDis s c => simp [hpc, kTok, kHolds] at hlk hwk; crunch5

end MayVerif.Io
