import MayVerif.Proof.Io.TT
namespace MayVerif.Io

set_option maxHeartbeats 16000000 in
theorem inv5_kstep (st st' : St) (k : Kt) (pc : KPc) (e : Env) (hc : Cfg st) (h : Inv1 st) (h3 : Inv3 st) (h7 : Inv7 st) (h5 : Inv5 st)
    (hpc : st.kpc k = pc) (hs : kstep st k pc e = some st') : Inv5 st' := by
  prep5
  have hk0 := k0 k; have hlt := lt k; have hwt := wt k; have hlk := lk k; have hwk := wk k
  have htkd := tkd k; have htk1 := tk1 k; have htk2 := tk2 k; have hhk := hk k
  cases pc with
  | off => simp [kstep] at hs
  | start s c r => simp [hpc, kTok, kHolds] at hk0 hlt hwt; c5
  | arm s c r => simp [hpc, kTok, kHolds] at hk0 hlt hwt; c5
  | set s c r t => simp [hpc, kTok, kHolds] at hk0 hlt hwt; c5
  | store s c r => simp [hpc, kTok, kHolds] at hk0 hlt hwt; c5
  | load s c r => c5
  | take s => c5
  | dis s c => simp [hpc, kTok, kHolds] at hlk hwk hhk; c5
  | reg s c => c5
  | chk c => c5
  | xor c => c5
  | xio c => c5
  | xtake s => c5
  | xDis s c => simp [hpc, kTok, kHolds] at hlk hwk hhk; c5
  | reg0 s c r => simp [hpc, kTok, kHolds] at hk0 hlt hwt; c5
  | chk2 s c => c5
  | own s => c5
  | ownDis s c => simp [hpc, kTok, kHolds] at hlk hwk hhk; c5

end MayVerif.Io
