import MayVerif.Proof.Io.Inv
namespace MayVerif.Io

set_option hygiene false in
macro "uprep" : tactic => `(tactic| (
  obtain ⟨hF, hD, hR, hO, hS⟩ := hc
  obtain ⟨k0, lt, ls, lk, lw, lq, wt, ws, wk, ww, wq, u1, nb, nd⟩ := h
  have hu1 := u1 c; have hk0n := k0 st.nk
  (try simp [hpc, uSock] at hu1); (try simp at hk0n)))

set_option maxHeartbeats 8000000 in
theorem inv1_ustep (st st' : St) (c : Co) (pc : UPc) (e : Env) (hc : Cfg st) (h : Inv1 st)
    (hpc : st.upc c = pc) (hs : ustep st c pc e = some st') : Inv1 st' := by
  cases pc with
  | idle => uprep; cases e <;> crunch
  | done o => uprep; cases e <;> crunch
  | reset s => uprep; crunch
  | sys s f => uprep; cases e <;> crunch
  | dur s => uprep; cases e <;> crunch
  | chk s => uprep; crunch
  | pre s => uprep; crunch
  | wait s => uprep; cases e <;> crunch
  | back s => uprep; crunch
  | clear s => uprep; crunch
  | store s => uprep; crunch

theorem inv1_estep (st st' : St) (e : Env) (h : Inv1 st) (hs : estep st e = some st') : Inv1 st' := by
  obtain ⟨k0, lt, ls, lk, lw, lq, wt, ws, wk, ww, wq, u1, nb, nd⟩ := h
  cases e <;> simp only [estep] at hs <;> (repeat' (split at hs)) <;> first | contradiction | (simp only [Option.some.injEq] at hs; subst hs; constructor <;> assumption)

end MayVerif.Io
