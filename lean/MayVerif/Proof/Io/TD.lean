/-
  The entry in a socket's handle cell – and the entry of a handler that has passed its check – carries the time-out of the wait in
  progress and was armed after that wait began.
-/
import MayVerif.Proof.Io.TT
namespace MayVerif.Io

structure Inv6 (st : St) : Prop where
  wf : ∀ c, st.waitFrom c ≤ st.now
  a : ∀ s t, st.tslot s = some t → st.dur (st.own t) = some (st.tdur t) ∧ st.waitFrom (st.own t) ≤ st.armedAt t
  b : ∀ w s t, (st.wpc w = .fOr s t ∨ st.wpc w = .fTake s t) →
        st.dur (st.own t) = some (st.tdur t) ∧ st.waitFrom (st.own t) ≤ st.armedAt t

theorem inv6_init (co : Co → Bool) : Inv6 (init co) := by
  constructor <;> simp [init, initCfg]

set_option hygiene false in
macro "crunch6" : tactic => `(tactic| (
  simp only [kstep, wstep, ustep, estep, resumeU, schedule, disarm, finish, xtakeStep, hF, hD, hR, hO, hS, ↓reduceIte, Bool.true_and, Bool.false_and] at hs
  repeat' (split at hs)
  all_goals (first | contradiction | (simp only [Option.some.injEq] at hs; subst hs; constructor <;> (try simp only []) <;>
    first | grind | grind (splits := 30) | grind (splits := 40) (instances := 6000) (gen := 10)))))

set_option hygiene false in
macro "prep6" : tactic => `(tactic| (
  obtain ⟨hF, hD, hR, hO, hS⟩ := hc
  have tlt : ∀ s t, st.tslot s = some t → t < st.nextTm ∧ st.upc (st.own t) = .wait s := fun s t ht => ⟨(h7.m2 s t ht).1, (h7.m2 s t ht).2.1⟩
  have flt : ∀ w s t, (st.wpc w = .fOr s t ∨ st.wpc w = .fTake s t) → t < st.nextTm ∧ st.upc (st.own t) = .wait s := by
    intro w s t hw
    refine ⟨?_, (h7.m1 w s t hw).1⟩
    rcases hw with hw | hw
    · exact (h3.t5f w s t hw).2
    · exact (h3.t5 w s t hw).2
  clear h3 h7
  obtain ⟨wf, a, b⟩ := h6))

set_option maxHeartbeats 16000000 in
theorem inv6_kstep (st st' : St) (k : Kt) (pc : KPc) (e : Env) (hc : Cfg st) (h : Inv1 st) (h3 : Inv3 st) (h7 : Inv7 st) (h6 : Inv6 st)
    (hpc : st.kpc k = pc) (hs : kstep st k pc e = some st') : Inv6 st' := by
  prep6
  have hwt := h.wt k
  clear h
  cases pc with
  | off => simp [kstep] at hs
  | start s c r => crunch6
  | arm s c r => simp [hpc, kTok] at hwt; crunch6
  | set s c r t => crunch6
  | store s c r => crunch6
  | load s c r => crunch6
  | take s => crunch6
  | dis s c => crunch6
  | reg s c => crunch6
  | chk c => crunch6
  | xor c => crunch6
  | xio c => crunch6
  | xtake s => crunch6
  | xDis s c => crunch6
  | reg0 s c r => crunch6
  | chk2 s c => crunch6
  | own s => crunch6
  | ownDis s c => crunch6

set_option maxHeartbeats 16000000 in
theorem inv6_wstep (st st' : St) (w : Wk) (pc : WPc) (e : Env) (hc : Cfg st) (h : Inv1 st) (h3 : Inv3 st) (h7 : Inv7 st) (h6 : Inv6 st)
    (hpc : st.wpc w = pc) (hs : wstep st w pc e = some st') : Inv6 st' := by
  prep6
  have ws := h.ws
  clear h
  cases pc with
  | idle => cases e <;> crunch6
  | sTake s => crunch6
  | sDis s c => crunch6
  | fChk s t => crunch6
  | fOr s t => crunch6
  | fTake s t => crunch6
  | xio c => crunch6
  | xtake s => crunch6
  | xDis s c => crunch6

set_option maxHeartbeats 16000000 in
theorem inv6_ustep (st st' : St) (c0 : Co) (pc : UPc) (e : Env) (hc : Cfg st) (h : Inv1 st) (h3 : Inv3 st) (h7 : Inv7 st) (h6 : Inv6 st)
    (hpc : st.upc c0 = pc) (hs : ustep st c0 pc e = some st') : Inv6 st' := by
  prep6
  clear h
  cases pc with
  | idle => cases e <;> crunch6
  | done o => cases e <;> crunch6
  | reset s => crunch6
  | sys s f => cases e <;> crunch6
  | dur s => cases e <;> crunch6
  | chk s => crunch6
  | pre s => crunch6
  | wait s => cases e <;> crunch6
  | back s => crunch6
  | clear s => crunch6
  | store s => crunch6

theorem inv6_estep (st st' : St) (e : Env) (h6 : Inv6 st) (hs : estep st e = some st') : Inv6 st' := by
  obtain ⟨wf, a, b⟩ := h6
  cases e <;> simp only [estep] at hs <;> (repeat' (split at hs)) <;> first | contradiction | (simp only [Option.some.injEq] at hs; subst hs; constructor <;> (try simp only []) <;> grind)

end MayVerif.Io
