/-
  The entry armed for a wait carries the caller's time-out.
-/
import MayVerif.Proof.Io.TT
namespace MayVerif.Io

structure Inv6 (st : St) : Prop where
  a : ∀ k s c r t d, st.kpc k = .set s c r t → st.dur c = some d → st.tdur t = d
  b : ∀ k s c r t d, st.kpc k = .store s c r → st.lastArm s = some t → st.dur c = some d → st.tdur t = d
  c : ∀ s c t d, st.slot s = some c → st.lastArm s = some t → st.dur c = some d → st.tdur t = d

theorem inv6_init (co : Co → Bool) : Inv6 (init co) := by
  constructor <;> simp [init, initCfg]

set_option hygiene false in
macro "crunch6" : tactic => `(tactic| (
  simp only [kstep, wstep, ustep, estep, resumeU, schedule, disarm, finish, xtakeStep] at hs
  repeat' (split at hs)
  all_goals (first | contradiction | (simp only [Option.some.injEq] at hs; subst hs; constructor <;> (try simp only []) <;>
    first | grind | grind (splits := 30) | grind (splits := 40) (instances := 6000) (gen := 10)))))

set_option hygiene false in
macro "prep6" : tactic => `(tactic| (
  have setU : ∀ k s c r t, st.kpc k = .set s c r t → st.user s = some c ∧ st.upc c = .wait s ∧ st.loc c = .tail k := by
    intro k s c r t hk
    have := h.wt k c s (by simp [hk, kTok])
    exact ⟨h.u1 c s (by simp [this, uSock]), this, h.lt k c s (by simp [hk, kTok])⟩
  have storeU : ∀ k s c r, st.kpc k = .store s c r → st.user s = some c ∧ st.upc c = .wait s ∧ st.loc c = .tail k := by
    intro k s c r hk
    have := h.wt k c s (by simp [hk, kTok])
    exact ⟨h.u1 c s (by simp [this, uSock]), this, h.lt k c s (by simp [hk, kTok])⟩
  have startU : ∀ k s c r, st.kpc k = .start s c r → st.user s = some c ∧ st.upc c = .wait s ∧ st.loc c = .tail k := by
    intro k s c r hk
    have := h.wt k c s (by simp [hk, kTok])
    exact ⟨h.u1 c s (by simp [this, uSock]), this, h.lt k c s (by simp [hk, kTok])⟩
  have slotU : ∀ s c, st.slot s = some c → st.user s = some c ∧ st.upc c = .wait s ∧ st.loc c = .slot s := by
    intro s c hs
    have := h.ws s c hs
    exact ⟨h.u1 c s (by simp [this, uSock]), this, h.ls s c hs⟩
  have fresh : ∀ s t, st.lastArm s = some t → t < st.nextTm := fun s t ht => (h5.ta s t ht).1
  have setFresh : ∀ k s c r t, st.kpc k = .set s c r t → t < st.nextTm ∧ st.lastArm s = some t :=
    fun k s c r t hk => ⟨(h5.ta s t (h5.tk0 k s c r t hk)).1, h5.tk0 k s c r t hk⟩
  have u1 := h.u1
  have hk0n : st.kpc st.nk = .off := by
    have := h.k0 st.nk
    simp at this
    exact this
  clear h h5
  obtain ⟨a, b, c⟩ := h6))

set_option maxHeartbeats 16000000 in
theorem inv6_kstep (st st' : St) (k : Kt) (pc : KPc) (e : Env) (h : Inv1 st) (h5 : Inv5 st) (h6 : Inv6 st)
    (hpc : st.kpc k = pc) (hs : kstep st k pc e = some st') : Inv6 st' := by
  prep6
  cases pc with
  | off => simp [kstep] at hs
  | start s c r => have := startU k s c r hpc; crunch6
  | set s c r t => have := setU k s c r t hpc; crunch6
  | store s c r => have := storeU k s c r hpc; crunch6
  | load s c r => crunch6
  | take s => crunch6
  | dis s c => crunch6
  | reg s c => crunch6
  | chk c => crunch6
  | xor c => crunch6
  | xio c => crunch6
  | xtake s => crunch6
  | reg0 s c r => crunch6
  | chk2 s c => crunch6
  | own s => crunch6
  | ownDis s c => crunch6

set_option maxHeartbeats 16000000 in
theorem inv6_wstep (st st' : St) (w : Wk) (pc : WPc) (e : Env) (h : Inv1 st) (h5 : Inv5 st) (h6 : Inv6 st)
    (hpc : st.wpc w = pc) (hs : wstep st w pc e = some st') : Inv6 st' := by
  prep6
  cases pc with
  | idle => cases e <;> crunch6
  | sTake s => crunch6
  | sDis s c => crunch6
  | fOr s t => crunch6
  | fTake s t => crunch6
  | xio c => crunch6
  | xtake s => crunch6

set_option maxHeartbeats 16000000 in
theorem inv6_ustep (st st' : St) (c0 : Co) (pc : UPc) (e : Env) (h : Inv1 st) (h5 : Inv5 st) (h6 : Inv6 st)
    (hpc : st.upc c0 = pc) (hs : ustep st c0 pc e = some st') : Inv6 st' := by
  prep6
  have hu1 := u1 c0
  cases pc with
  | idle => cases e <;> crunch6
  | done o => cases e <;> crunch6
  | reset s => simp [hpc, uSock] at hu1; crunch6
  | sys s f => simp [hpc, uSock] at hu1; cases e <;> crunch6
  | dur s => simp [hpc, uSock] at hu1; cases e <;> crunch6
  | chk s => simp [hpc, uSock] at hu1; crunch6
  | pre s => simp [hpc, uSock] at hu1; crunch6
  | wait s => simp [hpc, uSock] at hu1; cases e <;> crunch6
  | back s => simp [hpc, uSock] at hu1; crunch6
  | clear s => simp [hpc, uSock] at hu1; crunch6
  | store s => simp [hpc, uSock] at hu1; crunch6

theorem inv6_estep (st st' : St) (e : Env) (h6 : Inv6 st) (hs : estep st e = some st') : Inv6 st' := by
  obtain ⟨a, b, c⟩ := h6
  cases e <;> simp only [estep] at hs <;> first | contradiction | (simp only [Option.some.injEq] at hs; subst hs; constructor <;> assumption)

end MayVerif.Io
