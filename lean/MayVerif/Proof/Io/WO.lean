import MayVerif.Proof.Io.Own
namespace MayVerif.Io

set_option maxHeartbeats 16000000 in
theorem inv7_wstep (st st' : St) (w : Wk) (pc : WPc) (e : Env) (hc : Cfg st) (h : Inv1 st) (h3 : Inv3 st) (h7 : Inv7 st)
    (hpc : st.wpc w = pc) (hs : wstep st w pc e = some st') : Inv7 st' := by
  prep7
  have hlw := lw w; have hww := ww w; have hhw := hw w; have hlk2 := lk2 w; have hm1 := m1 w; have hft := ft w
  cases pc with
  | idle => cases e <;> crunch7
  | sTake s => crunch7
  | sDis s c => simp [hpc, wHolds] at hlw hww hhw; crunch7
  | fChk s t => crunch7
  | fOr s t => simp [hpc, fCrit] at hlk2 hm1; crunch7
  | fTake s t => simp [hpc, fCrit] at hlk2 hm1 hft; crunch7
  | xio c => crunch7
  | xtake s => crunch7
  | xDis s c => simp [hpc, wHolds] at hlw hww hhw; crunch7

end MayVerif.Io
