import MayVerif.Proof.Io.Own
namespace MayVerif.Io

set_option maxHeartbeats 16000000 in
theorem inv7_ustep (st st' : St) (c : Co) (pc : UPc) (e : Env) (hc : Cfg st) (h : Inv1 st) (h3 : Inv3 st) (h7 : Inv7 st)
    (hpc : st.upc c = pc) (hs : ustep st c pc e = some st') : Inv7 st' := by
  prep7
  have ftU : ∀ w s t, st.wpc w = .fTake s t → st.user s = some (st.own t) ∧ st.upc (st.own t) = .wait s := by
    intro w s t hw'
    have := (m1 w s t (Or.inr hw')).1
    exact ⟨u1 _ s (by simp [this, uSock]), this⟩
  have hu1 := u1 c; have hk0n := k0 st.nk
  simp at hk0n
  cases pc with
  | idle => cases e <;> crunch7
  | done o => cases e <;> crunch7
  | reset s => simp [hpc, uSock] at hu1; crunch7
  | sys s f => simp [hpc, uSock] at hu1; cases e <;> crunch7
  | dur s => simp [hpc, uSock] at hu1; cases e <;> crunch7
  | chk s => simp [hpc, uSock] at hu1; crunch7
  | pre s => simp [hpc, uSock] at hu1; crunch7
  | wait s => simp [hpc, uSock] at hu1; cases e <;> crunch7
  | back s => simp [hpc, uSock] at hu1; crunch7
  | clear s => simp [hpc, uSock] at hu1; crunch7
  | store s => simp [hpc, uSock] at hu1; crunch7

theorem inv7_estep (st st' : St) (e : Env) (h7 : Inv7 st) (hs : estep st e = some st') : Inv7 st' := by
  obtain ⟨lk1, lk2, m2, m1, ft, hk, hw⟩ := h7
  cases e <;> simp only [estep] at hs <;> (repeat' (split at hs)) <;> first | contradiction | (simp only [Option.some.injEq] at hs; subst hs; constructor <;> assumption)

end MayVerif.Io
