/-
  Frame property of the io model: which sockets a step can change.
-/
import MayVerif.Proof.Io.Inv
namespace MayVerif.Io

/-- the per-socket part of the state -/
structure SockSt where
  flag : Nat
  slot : Option Co
  tslot : Option Tm
  tlock : Bool
  user : Option Co
  avail : Bool
  pend : Bool
  deriving DecidableEq, Repr

def sockSt (st : St) (j : Sock) : SockSt := ⟨st.flag j, st.slot j, st.tslot j, st.tlock j, st.user j, st.avail j, st.pend j⟩

/-- the socket a caller that is being resumed was waiting on -/
def waitSock (st : St) (c : Co) : List Sock := match st.upc c with | .wait s => [s] | _ => []

/-- the sockets the step `step st a e` works on (the one named by the actor's program counter or by the environment choice, plus
    – when the step resumes a coroutine directly – the socket that coroutine was waiting on; by `io_single_resume` that is the
    same socket) -/
def touched (st : St) : Actor → Env → List Sock
  | .u c, e => (match uSock (st.upc c) with | some s => [s] | none => []) ++
               (match e with | .start s _ | .delTimer s | .del s => [s] | _ => [])
  | .k i, _ => (match st.kpc i with
      | .start s _ _ | .arm s _ _ | .set s _ _ _ | .store s _ _ | .load s _ _ | .reg s _ | .xtake s | .xDis s _ | .own s | .ownDis s _ => [s]
      | .take s => s :: (match st.slot s with | some c => waitSock st c | none => [])
      | .dis s c => s :: waitSock st c
      | _ => [])
  | .w i, e => (match st.wpc i, e with
      | .idle, .deliver s _ => [s]
      | .idle, .fire t => (match st.tm t with | .armed s | .popped s => [s] | _ => [])
      | .sTake s, _ | .sDis s _, _ | .xtake s, _ | .xDis s _, _ | .fChk s _, _ | .fOr s _, _ => [s]
      | .fTake s _, _ => s :: (match st.slot s with | some c => waitSock st c | none => [])
      | _, _ => [])
  | .env, e => (match e with | .arrive s | .edge s => [s] | _ => [])

set_option hygiene false in
macro "crunchF" : tactic => `(tactic| (
  simp only [kstep, wstep, ustep, estep, resumeU, schedule, disarm, finish, xtakeStep] at hs
  repeat' (split at hs)
  all_goals (first | contradiction | (simp only [Option.some.injEq] at hs; subst hs; (simp only [sockSt, SockSt.mk.injEq]) <;> ((try simp only [touched, waitSock, uSock] at hj) <;> first | grind | grind (splits := 25))))))

set_option maxHeartbeats 8000000 in
theorem frame_u (st st' : St) (c : Co) (e : Env) (j : Sock) (hs : ustep st c (st.upc c) e = some st')
    (hj : j ∉ touched st (.u c) e) : sockSt st' j = sockSt st j := by
  generalize hpc : st.upc c = pc at hs
  simp only [touched, hpc] at hj
  cases pc with
  | idle => cases e <;> crunchF
  | done o => cases e <;> crunchF
  | reset s => crunchF
  | sys s f => cases e <;> crunchF
  | dur s => cases e <;> crunchF
  | chk s => crunchF
  | pre s => crunchF
  | wait s => cases e <;> crunchF
  | back s => crunchF
  | clear s => crunchF
  | store s => crunchF

set_option maxHeartbeats 8000000 in
theorem frame_k (st st' : St) (k : Kt) (e : Env) (j : Sock) (hs : kstep st k (st.kpc k) e = some st')
    (hj : j ∉ touched st (.k k) e) : sockSt st' j = sockSt st j := by
  generalize hpc : st.kpc k = pc at hs
  simp only [touched, hpc] at hj
  cases pc with
  | off => simp [kstep] at hs
  | start s c r => crunchF
  | arm s c r => crunchF
  | set s c r t => crunchF
  | store s c r => crunchF
  | load s c r => crunchF
  | take s => crunchF
  | dis s c => crunchF
  | reg s c => crunchF
  | chk c => crunchF
  | xor c => crunchF
  | xio c => crunchF
  | xtake s => crunchF
  | xDis s c => crunchF
  | reg0 s c r => crunchF
  | chk2 s c => crunchF
  | own s => crunchF
  | ownDis s c => crunchF

set_option maxHeartbeats 8000000 in
theorem frame_w (st st' : St) (w : Wk) (e : Env) (j : Sock) (hs : wstep st w (st.wpc w) e = some st')
    (hj : j ∉ touched st (.w w) e) : sockSt st' j = sockSt st j := by
  generalize hpc : st.wpc w = pc at hs
  simp only [touched, hpc] at hj
  cases pc with
  | idle => cases e <;> crunchF
  | sTake s => crunchF
  | sDis s c => crunchF
  | fChk s t => crunchF
  | fOr s t => crunchF
  | fTake s t => crunchF
  | xio c => crunchF
  | xtake s => crunchF
  | xDis s c => crunchF

theorem frame_e (st st' : St) (e : Env) (j : Sock) (hs : estep st e = some st')
    (hj : j ∉ touched st .env e) : sockSt st' j = sockSt st j := by
  simp only [touched] at hj
  cases e <;> crunchF

end MayVerif.Io
