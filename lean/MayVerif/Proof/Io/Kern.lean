/-
  Invariants of the kernel byte-stream / datagram contract of `Model/Io.lean` (`namespace Kern`).
-/
import MayVerif.Model.Io
namespace MayVerif.Io

open Kern in
theorem kern_inv (evs : List Kern.Ev) (c : Kern.Chan)
    (h1 : c.rcvd ++ c.fifo = c.sent) (h2 : c.eofSeen = true → c.shut = true ∧ c.fifo = []) :
    (Kern.run c evs).rcvd ++ (Kern.run c evs).fifo = (Kern.run c evs).sent ∧
    ((Kern.run c evs).eofSeen = true → (Kern.run c evs).shut = true ∧ (Kern.run c evs).fifo = []) := by
  induction evs generalizing c with
  | nil => exact ⟨h1, h2⟩
  | cons e r ih =>
    simp only [Kern.run]
    apply ih
    · cases e with
      | write buf k =>
        simp only [sysStep]
        split
        · exact h1
        · split
          · exact h1
          · simp only []; rw [← List.append_assoc, h1]
      | read m k =>
        simp only [sysStep]
        split
        · split
          · exact h1
          · split <;> exact h1
        · simp only []; rw [List.append_assoc, List.take_append_drop]; exact h1
      | room n => exact h1
      | shutdown => exact h1
    · cases e with
      | write buf k =>
        simp only [sysStep]
        split
        · exact h2
        · split
          · exact h2
          · next hs _ =>
            simp only []
            intro he
            have := (h2 he).1
            simp [this] at hs
      | read m k =>
        simp only [sysStep]
        split
        · split
          · next hc => simp only []; intro _; exact ⟨hc.2, List.eq_nil_of_length_eq_zero hc.1⟩
          · split <;> exact h2
        · simp only []
          intro he
          have := (h2 he).2
          simp [this] at *
      | room n => exact h2
      | shutdown => simp only [sysStep]; intro he; exact ⟨trivial, (h2 he).2⟩


theorem dq_inv (evs : List Kern.DEv) (s : Kern.DQ) (h : s.rcvd.map (·.1) ++ s.q = s.sent) :
    (Kern.dRun s evs).rcvd.map (·.1) ++ (Kern.dRun s evs).q = (Kern.dRun s evs).sent := by
  induction evs generalizing s with
  | nil => exact h
  | cons e r ih =>
    simp only [Kern.dRun]
    apply ih
    cases e with
    | send d full =>
      simp only [Kern.dStep]
      split
      · exact h
      · simp only []; rw [← List.append_assoc, h]
    | recv m =>
      simp only [Kern.dStep]
      split
      · exact h
      · next d r hq => simp only []; rw [hq] at h; simp [← h]


end MayVerif.Io
