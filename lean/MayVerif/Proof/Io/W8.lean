import MayVerif.Proof.Io.Canc
namespace MayVerif.Io

set_option maxHeartbeats 16000000 in
theorem inv8_wstep (st st' : St) (w : Wk) (pc : WPc) (e : Env) (hc : Cfg st) (h : Inv1 st) (h2 : Inv2 st) (h8 : Inv8 st)
    (hpc : st.wpc w = pc) (hs : wstep st w pc e = some st') : Inv8 st' := by
  prep8
  have hxb := xb w
  cases pc with
  | idle => cases e <;> crunch8
  | sTake s => crunch8
  | sDis s c => crunch8
  | fChk s t => crunch8
  | fOr s t => crunch8
  | fTake s t => crunch8
  | xio c => simp [hpc] at hxb; crunch8
  | xtake s => crunch8
  | xDis s c => crunch8

end MayVerif.Io
