import MayVerif.Proof.Io.Inv
namespace MayVerif.Io

set_option maxHeartbeats 8000000 in
theorem inv4_ustep (st st' : St) (c : Co) (pc : UPc) (e : Env) (hc : Cfg st) (h : Inv1 st) (h4 : Inv4 st)
    (hpc : st.upc c = pc) (hs : ustep st c pc e = some st') : Inv4 st' := by
  prep4
  have hu1 := u1 c; have hk0n := k0 st.nk; have hr0 := r0 c
  simp at hk0n
  cases pc with
  | idle => simp [hpc, isWait] at hr0; cases e <;> crunch
  | done o => simp [hpc, isWait] at hr0; cases e <;> crunch
  | reset s => simp [hpc, isWait] at hr0; crunch
  | sys s f => simp [hpc, isWait] at hr0; cases e <;> crunch
  | dur s => simp [hpc, isWait] at hr0; cases e <;> crunch
  | chk s => simp [hpc, isWait] at hr0; crunch
  | pre s => simp [hpc, isWait] at hr0; crunch
  | wait s => simp [hpc, isWait] at hr0; cases e <;> crunch
  | back s => simp [hpc, isWait] at hr0; crunch
  | clear s => simp [hpc, isWait] at hr0; crunch
  | store s => simp [hpc, isWait] at hr0; crunch

theorem inv4_estep (st st' : St) (e : Env) (h4 : Inv4 st) (hs : estep st e = some st') : Inv4 st' := by
  obtain ⟨r0, r1, r2, r3, r4, r5⟩ := h4
  cases e <;> simp only [estep] at hs <;> (repeat' (split at hs)) <;> first | contradiction | (simp only [Option.some.injEq] at hs; subst hs; constructor <;> assumption)

end MayVerif.Io
