import MayVerif.Proof.Io.Canc
namespace MayVerif.Io

set_option maxHeartbeats 16000000 in
theorem inv8_ustep (st st' : St) (c : Co) (pc : UPc) (e : Env) (hc : Cfg st) (h : Inv1 st) (h2 : Inv2 st) (h8 : Inv8 st)
    (hpc : st.upc c = pc) (hs : ustep st c pc e = some st') : Inv8 st' := by
  prep8
  have hu1 := u1 c; have hk0n := k0 st.nk
  simp at hk0n
  have hnk : ∀ k, st.kpc k ≠ .off → k ≠ st.nk := by intro k hk he; subst he; exact hk hk0n
  cases pc with
  | idle => cases e <;> crunch8
  | done o => cases e <;> crunch8
  | reset s => simp [hpc, uSock] at hu1; crunch8
  | sys s f => simp [hpc, uSock] at hu1; cases e <;> crunch8
  | dur s => simp [hpc, uSock] at hu1; cases e <;> crunch8
  | chk s => simp [hpc, uSock] at hu1; crunch8
  | pre s => simp [hpc, uSock] at hu1; crunch8
  | wait s => simp [hpc, uSock] at hu1; cases e <;> crunch8
  | back s => simp [hpc, uSock] at hu1; crunch8
  | clear s => simp [hpc, uSock] at hu1; crunch8
  | store s => simp [hpc, uSock] at hu1; crunch8

theorem inv8_estep (st st' : St) (e : Env) (h8 : Inv8 st) (hs : estep st e = some st') : Inv8 st' := by
  obtain ⟨dk, xb, rr, rr0, ls1, ls2, c2t, c2, ci⟩ := h8
  cases e <;> simp only [estep] at hs <;> (repeat' (split at hs)) <;> first | contradiction | (simp only [Option.some.injEq] at hs; subst hs; constructor <;> assumption)

end MayVerif.Io
