/-
  Timer-entry bookkeeping of the io model: deadlines, fresh entries, who was timed out by what.
-/
import MayVerif.Proof.Io.Inv
namespace MayVerif.Io

structure Inv3 (st : St) : Prop where
  /-- entries not handed out yet are free -/
  t1 : ∀ t, st.nextTm ≤ t → st.tm t = .free
  /-- the deadline of an entry is the time it was armed plus the time-out of the operation that armed it -/
  t2 : ∀ t, t < st.nextTm → st.deadline t = st.armedAt t + st.tdur t
  /-- a pending TimedOut result comes from an entry whose deadline has passed -/
  t3 : ∀ c, st.para c = true → st.deadline (st.firedBy c) ≤ st.now ∧ st.firedBy c < st.nextTm
  /-- an entry is armed no later than now -/
  t4 : ∀ t, t < st.nextTm → st.armedAt t ≤ st.now
  /-- a time-out in force is a positive whole number of milliseconds (it went through `AtomicDuration`) -/
  d1 : ∀ c d, st.dur c = some d → d % 1000000 = 0 ∧ 0 < d
  /-- … and so is the time-out every entry was armed with -/
  d2 : ∀ t, t < st.nextTm → st.tdur t % 1000000 = 0 ∧ 0 < st.tdur t
  /-- the handler between `timer.take()` and `co.take()` works for an entry whose deadline has passed -/
  t5 : ∀ w s t, st.wpc w = .fTake s t → st.deadline t ≤ st.now ∧ t < st.nextTm
  t5f : ∀ w s t, st.wpc w = .fOr s t → st.deadline t ≤ st.now ∧ t < st.nextTm
  t5c : ∀ w s t, st.wpc w = .fChk s t → st.deadline t ≤ st.now ∧ t < st.nextTm

theorem inv3_init (co : Co → Bool) : Inv3 (init co) := by
  constructor <;> simp [init, initCfg]

theorem msToNs_pos (ms : Nat) (h : ms ≠ 0) : msToNs ms % 1000000 = 0 ∧ 0 < msToNs ms := by
  unfold msToNs; omega

theorem disarmTm_free (tm : Tm → TmSt) (ts : Option Tm) (t : Tm) (h : tm t = .free) : disarmTm tm ts t = .free := by
  cases ts with
  | none => simpa [disarmTm]
  | some u =>
    simp only [disarmTm, upd]
    split
    · next hu => subst hu; simp [h, unarm]
    · exact h

set_option hygiene false in
macro "crunch3" : tactic => `(tactic| (
  simp only [kstep, wstep, ustep, estep, resumeU, schedule, disarm, finish, xtakeStep] at hs
  repeat' (split at hs)
  all_goals (first | contradiction | (simp only [Option.some.injEq] at hs; subst hs; constructor <;> (try simp only []) <;> first | grind [msToNs_pos, disarmTm_free] | grind (splits := 25) [msToNs_pos, disarmTm_free]))))

set_option maxHeartbeats 8000000 in
theorem inv3_ustep (st st' : St) (c : Co) (pc : UPc) (e : Env) (h : Inv3 st)
    (hs : ustep st c pc e = some st') : Inv3 st' := by
  obtain ⟨t1, t2, t3, t4, d1, d2, t5, t5f, t5c⟩ := h
  cases pc with
  | idle => cases e <;> crunch3
  | done o => cases e <;> crunch3
  | reset s => crunch3
  | sys s f => cases e <;> crunch3
  | dur s => cases e <;> crunch3
  | chk s => crunch3
  | pre s => crunch3
  | wait s => cases e <;> crunch3
  | back s => crunch3
  | clear s => crunch3
  | store s => crunch3

set_option maxHeartbeats 8000000 in
theorem inv3_kstep (st st' : St) (k : Kt) (pc : KPc) (e : Env) (h : Inv3 st)
    (hs : kstep st k pc e = some st') : Inv3 st' := by
  obtain ⟨t1, t2, t3, t4, d1, d2, t5, t5f, t5c⟩ := h
  cases pc with
  | off => simp [kstep] at hs
  | start s c r => have := d1 c; crunch3
  | arm s c r => have := d1 c; crunch3
  | set s c r t => crunch3
  | store s c r => crunch3
  | load s c r => crunch3
  | take s => crunch3
  | dis s c => crunch3
  | reg s c => crunch3
  | chk c => crunch3
  | xor c => crunch3
  | xio c => crunch3
  | xtake s => crunch3
  | xDis s c => crunch3
  | reg0 s c r => crunch3
  | chk2 s c => crunch3
  | own s => crunch3
  | ownDis s c => crunch3

set_option maxHeartbeats 8000000 in
theorem inv3_wstep (st st' : St) (w : Wk) (pc : WPc) (e : Env) (h : Inv3 st) (hpc : st.wpc w = pc)
    (hs : wstep st w pc e = some st') : Inv3 st' := by
  obtain ⟨t1, t2, t3, t4, d1, d2, t5, t5f, t5c⟩ := h
  have ht5 := t5 w
  have ht5f := t5f w
  have ht5c := t5c w
  cases pc with
  | idle => cases e <;> crunch3
  | sTake s => crunch3
  | sDis s c => crunch3
  | fChk s t => have := ht5c s t hpc; crunch3
  | fOr s t => have := ht5f s t hpc; crunch3
  | fTake s t => have := ht5 s t hpc; crunch3
  | xio c => crunch3
  | xtake s => crunch3
  | xDis s c => crunch3

theorem inv3_estep (st st' : St) (e : Env) (h : Inv3 st) (hs : estep st e = some st') : Inv3 st' := by
  obtain ⟨t1, t2, t3, t4, d1, d2, t5, t5f, t5c⟩ := h
  cases e <;> simp only [estep] at hs <;> (repeat' (split at hs)) <;> first | contradiction | (simp only [Option.some.injEq] at hs; subst hs; constructor <;> (try simp only []) <;> grind)

theorem inv3_step (st st' : St) (a : Actor) (e : Env) (h : Inv3 st) (hs : step st a e = some st') : Inv3 st' := by
  cases a with
  | u c => exact inv3_ustep st st' c _ e h hs
  | k i => exact inv3_kstep st st' i _ e h hs
  | w i => exact inv3_wstep st st' i _ e h rfl hs
  | env => exact inv3_estep st st' e h hs

theorem inv3_run (st : St) (sched : List (Actor × Env)) (h : Inv3 st) : Inv3 (run st sched) := by
  induction sched generalizing st with
  | nil => simpa [run]
  | cons ae r ih =>
    obtain ⟨a, e⟩ := ae
    simp only [run]
    split
    · next st' hs => exact ih _ (inv3_step _ _ _ _ h hs)
    · exact ih _ h

/-! a disarmed entry (`event_data = null`) is never armed again: it stays disarmed until it is popped -/

def deadTm : TmSt → Bool | .disarmed | .gone => true | _ => false

theorem disarmTm_dead (tm : Tm → TmSt) (ts : Option Tm) (t : Tm) (h : deadTm (tm t) = true) : deadTm (disarmTm tm ts t) = true := by
  cases ts with
  | none => simpa [disarmTm]
  | some u =>
    simp only [disarmTm, upd]
    split
    · next hu => subst hu; revert h; cases tm t <;> simp [deadTm, unarm]
    · exact h

set_option hygiene false in
macro "crunchD" : tactic => `(tactic| (
  simp only [kstep, wstep, ustep, estep, resumeU, schedule, disarm, finish, xtakeStep] at hs
  repeat' (split at hs)
  all_goals (first | contradiction | (simp only [Option.some.injEq] at hs; subst hs; (try simp only []); first | assumption | grind [disarmTm_dead, deadTm] | grind (splits := 25) [disarmTm_dead, deadTm]))))

set_option maxHeartbeats 8000000 in
theorem dead_step (st st' : St) (a : Actor) (e : Env) (t : Tm) (h : Inv3 st) (hd : deadTm (st.tm t) = true)
    (hs : step st a e = some st') : deadTm (st'.tm t) = true := by
  have hlt : t < st.nextTm := by
    apply Classical.byContradiction
    intro hn
    have := h.t1 t (by omega)
    simp [this, deadTm] at hd
  cases a with
  | u c =>
    simp only [step] at hs
    generalize st.upc c = pc at hs
    cases pc with
    | idle => cases e <;> crunchD
    | done o => cases e <;> crunchD
    | reset s => crunchD
    | sys s f => cases e <;> crunchD
    | dur s => cases e <;> crunchD
    | chk s => crunchD
    | pre s => crunchD
    | wait s => cases e <;> crunchD
    | back s => crunchD
    | clear s => crunchD
    | store s => crunchD
  | k i =>
    simp only [step] at hs
    generalize st.kpc i = pc at hs
    cases pc with
    | off => simp [kstep] at hs
    | start s c r => crunchD
    | arm s c r => crunchD
    | set s c r t => crunchD
    | store s c r => crunchD
    | load s c r => crunchD
    | take s => crunchD
    | dis s c => crunchD
    | reg s c => crunchD
    | chk c => crunchD
    | xor c => crunchD
    | xio c => crunchD
    | xtake s => crunchD
    | xDis s c => crunchD
    | reg0 s c r => crunchD
    | chk2 s c => crunchD
    | own s => crunchD
    | ownDis s c => crunchD
  | w i =>
    simp only [step] at hs
    generalize st.wpc i = pc at hs
    cases pc with
    | idle => cases e <;> crunchD
    | sTake s => crunchD
    | sDis s c => crunchD
    | fChk s t => crunchD
    | fOr s t => crunchD
    | fTake s t => crunchD
    | xio c => crunchD
    | xtake s => crunchD
    | xDis s c => crunchD
  | env =>
    simp only [step] at hs
    cases e <;> crunchD

end MayVerif.Io
