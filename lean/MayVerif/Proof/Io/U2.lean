import MayVerif.Proof.Io.Inv
namespace MayVerif.Io

set_option maxHeartbeats 8000000 in
theorem inv2_ustep (st st' : St) (c : Co) (pc : UPc) (e : Env) (hc : Cfg st) (h : Inv1 st) (h2 : Inv2 st)
    (hpc : st.upc c = pc) (hs : ustep st c pc e = some st') : Inv2 st' := by
  prep2
  have hu1 := u1 c; have hk0n := k0 st.nk; have hj1 := j1 c
  simp at hk0n
  cases pc with
  | idle => cases e <;> crunch2
  | done o => cases e <;> crunch2
  | reset s => simp [hpc, uSock] at hu1; crunch2
  | sys s f => simp [hpc, uSock] at hu1; cases e <;> crunch2
  | dur s => simp [hpc, uSock, phaseOn] at hu1 hj1; cases e <;> crunch2
  | chk s => simp [hpc, uSock, phaseOn] at hu1 hj1; crunch2
  | pre s => simp [hpc, uSock, phaseOn] at hu1 hj1; crunch2
  | wait s => simp [hpc, uSock, phaseOn] at hu1 hj1; cases e <;> crunch2
  | back s => simp [hpc, uSock] at hu1; crunch2
  | clear s => simp [hpc, uSock] at hu1; crunch2
  | store s => simp [hpc, uSock] at hu1; crunch2

theorem inv2_estep (st st' : St) (e : Env) (h2 : Inv2 st) (hs : estep st e = some st') : Inv2 st' := by
  obtain ⟨k1, j1, j2⟩ := h2
  cases e <;> simp only [estep] at hs <;> (repeat' (split at hs)) <;> first | contradiction | (simp only [Option.some.injEq] at hs; subst hs; constructor <;> (try simp only []) <;> grind)

end MayVerif.Io
