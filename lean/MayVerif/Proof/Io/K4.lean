import MayVerif.Proof.Io.Inv
namespace MayVerif.Io

set_option maxHeartbeats 8000000 in
theorem inv4_kstep (st st' : St) (k : Kt) (pc : KPc) (e : Env) (hc : Cfg st) (h : Inv1 st) (h4 : Inv4 st)
    (hpc : st.kpc k = pc) (hs : kstep st k pc e = some st') : Inv4 st' := by
  prep4
  have hk0 := k0 k; have hlt := lt k; have hwt := wt k; have hlk := lk k; have hwk := wk k
  cases pc with
  | off => simp [kstep] at hs
  | start s c r => simp [hpc, kTok, kHolds] at hk0 hlt hwt; crunch
  | arm s c r => simp [hpc, kTok, kHolds] at hk0 hlt hwt; crunch
  | set s c r t => simp [hpc, kTok, kHolds] at hk0 hlt hwt; crunch
  | store s c r => simp [hpc, kTok, kHolds] at hk0 hlt hwt; crunch
  | load s c r => simp [hpc, kTok, kHolds] at hk0; crunch
  | take s => simp [hpc, kTok, kHolds] at hk0; crunch
  | dis s c => simp [hpc, kTok, kHolds] at hk0 hlk hwk; crunch
  | reg s c => simp [hpc, kTok, kHolds] at hk0; crunch
  | chk c => simp [hpc, kTok, kHolds] at hk0; crunch
  | xor c => simp [hpc, kTok, kHolds] at hk0; crunch
  | xio c => simp [hpc, kTok, kHolds] at hk0; crunch
  | xtake s => simp [hpc, kTok, kHolds] at hk0; crunch
  | xDis s c => simp [hpc, kTok, kHolds] at hk0 hlk hwk; crunch
  | reg0 s c r => simp [hpc, kTok, kHolds] at hk0 hlt hwt; crunch
  | chk2 s c => simp [hpc, kTok, kHolds] at hk0; crunch
  | own s => simp [hpc, kTok, kHolds] at hk0; crunch
  | ownDis s c => simp [hpc, kTok, kHolds] at hk0 hlk hwk; crunch

end MayVerif.Io
