/-
  The timer of a timed wait (fixed code, `St.fixFlag`): while the caller sits in the slot with `io_flag = 0` and no timeout
  handler is between popping an entry of this socket and raising IO_FLAG_TIMEOUT, the socket's timer handle refers to the entry
  armed by this wait's `add_io_timer`, and that entry is still ARMED. This is what makes `io_timeout_returns` true (the io twin
  of F6): the time-out of a registered caller cannot be lost.
-/
import MayVerif.Proof.Io.Inv
import MayVerif.Proof.Io.Timer
namespace MayVerif.Io

structure Inv5 (st : St) : Prop where
  ff : st.fixFlag = true
  /-- an entry referenced by a socket's handle is not armed for another socket -/
  ent : ∀ s t s', st.tslot s = some t → st.tm t = .armed s' → s' = s
  tf : ∀ s t, st.tslot s = some t → t < st.nextTm
  ta : ∀ s t, st.lastArm s = some t → t < st.nextTm ∧ ∀ s', st.tm t = .armed s' → s' = s
  tk0 : ∀ k s c r t, st.kpc k = .set s c r t → st.lastArm s = some t
  tk1 : ∀ k s c r t, st.kpc k = .set s c r t → st.flag s = 0 → fPend (st.wpc (st.lastFire s)) s = false → st.tm t = .armed s
  tk2 : ∀ k s c r, st.kpc k = .store s c r → (st.dur c).isSome = true → st.flag s = 0 → fPend (st.wpc (st.lastFire s)) s = false →
          st.tslot s = st.lastArm s ∧ (st.lastArm s).isSome = true ∧ ∀ t, st.lastArm s = some t → st.tm t = .armed s
  ts : ∀ s c, st.slot s = some c → (st.dur c).isSome = true → st.flag s = 0 → fPend (st.wpc (st.lastFire s)) s = false →
          st.tslot s = st.lastArm s ∧ (st.lastArm s).isSome = true ∧ ∀ t, st.lastArm s = some t → st.tm t = .armed s
  hk : ∀ k s c, (st.kpc k = .dis s c ∨ st.kpc k = .ownDis s c) → st.upc c = .wait s
  hw : ∀ w s c, st.wpc w = .sDis s c → st.upc c = .wait s

theorem inv5_init (co : Co → Bool) : Inv5 (init co) := by
  constructor <;> simp [init, initCfg]

theorem disarmTm_other (tm : Tm → TmSt) (ts : Option Tm) (t : Tm) (h : ts ≠ some t) : disarmTm tm ts t = tm t := by
  cases ts with
  | none => rfl
  | some u =>
    simp only [disarmTm, upd]
    split
    · next hu => subst hu; simp at h
    · rfl

theorem disarmTm_armed (tm : Tm → TmSt) (ts : Option Tm) (t : Tm) (s : Sock) (h : disarmTm tm ts t = .armed s) : tm t = .armed s := by
  cases ts with
  | none => simpa [disarmTm] using h
  | some u =>
    simp only [disarmTm, upd] at h
    split at h
    · next hu => subst hu; revert h; cases tm t <;> simp [unarm]
    · exact h

set_option hygiene false in
macro "crunch5" : tactic => `(tactic| (
  simp only [kstep, wstep, ustep, estep, resumeU, schedule, disarm, finish, xtakeStep] at hs
  repeat' (split at hs)
  all_goals (first | contradiction | (simp only [Option.some.injEq] at hs; subst hs; constructor <;> (try simp only []) <;>
    first | grind [lor_ne_zero, disarmTm_other, disarmTm_armed, timeoutBit] | grind (splits := 30) [lor_ne_zero, disarmTm_other, disarmTm_armed, timeoutBit]))))

set_option hygiene false in
macro "prep5" : tactic => `(tactic| (
  obtain ⟨k0, lt, ls, lk, lw, lq, wt, ws, wk, ww, wq, u1, nb, nd⟩ := h
  have t1 := h3.t1
  clear h3
  obtain ⟨ff, ent, tf, ta, tk0, tk1, tk2, ts, hk, hw⟩ := h5))

end MayVerif.Io
