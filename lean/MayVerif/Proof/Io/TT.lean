/-
  The timer of a timed wait (repaired code): while the caller sits in the slot with `io_flag = 0` and no timeout handler holds the
  lock of the handle cell, the cell refers to the entry armed by this wait's `arm_timer`, and that entry is still ARMED – or it has
  just been popped and its handler is about to find it in the cell. This is what makes `io_timeout_returns` true (the io twin of
  F6): the time-out of a registered caller cannot be lost.
-/
import MayVerif.Proof.Io.Own
namespace MayVerif.Io

structure Inv5 (st : St) : Prop where
  ta : ∀ s t, st.lastArm s = some t → t < st.nextTm
  tkd : ∀ k s c r t, st.kpc k = .set s c r t → (st.dur c).isSome = true
  tk1 : ∀ k s c r t, st.kpc k = .set s c r t → st.flag s = 0 → st.tlock s = false →
          st.tslot s = st.lastArm s ∧ (st.lastArm s).isSome = true ∧
          ∀ t, st.lastArm s = some t → st.tm t = .armed s ∨ st.tm t = .popped s ∨ (st.tm t = .gone ∧ st.wpc (st.popBy t) = .fChk s t)
  tk2 : ∀ k s c r, st.kpc k = .store s c r → (st.dur c).isSome = true → st.flag s = 0 → st.tlock s = false →
          st.tslot s = st.lastArm s ∧ (st.lastArm s).isSome = true ∧
          ∀ t, st.lastArm s = some t → st.tm t = .armed s ∨ st.tm t = .popped s ∨ (st.tm t = .gone ∧ st.wpc (st.popBy t) = .fChk s t)
  ts : ∀ s c, st.slot s = some c → (st.dur c).isSome = true → st.flag s = 0 → st.tlock s = false →
          st.tslot s = st.lastArm s ∧ (st.lastArm s).isSome = true ∧
          ∀ t, st.lastArm s = some t → st.tm t = .armed s ∨ st.tm t = .popped s ∨ (st.tm t = .gone ∧ st.wpc (st.popBy t) = .fChk s t)

theorem inv5_init (co : Co → Bool) : Inv5 (init co) := by
  constructor <;> simp [init, initCfg]

set_option hygiene false in
macro "crunch5" : tactic => `(tactic| (
  simp only [kstep, wstep, ustep, estep, resumeU, schedule, disarm, finish, xtakeStep, hF, hD, hR, hO, hS, ↓reduceIte, Bool.true_and, Bool.false_and] at hs
  repeat' (split at hs)
  all_goals (first | contradiction | (simp only [Option.some.injEq] at hs; subst hs; constructor <;> (try simp only []) <;>
    first | grind [lor_ne_zero, disarmTm_other, disarmTm_armed, disarmTm_gone, disarmTm_popped, timeoutBit]
          | grind (splits := 30) [lor_ne_zero, disarmTm_other, disarmTm_armed, disarmTm_gone, disarmTm_popped, timeoutBit]
          | grind (splits := 40) (instances := 6000) (gen := 10) [lor_ne_zero, disarmTm_other, disarmTm_armed, disarmTm_gone, disarmTm_popped, timeoutBit]))))

set_option hygiene false in
macro "prep5" : tactic => `(tactic| (
  obtain ⟨hF, hD, hR, hO, hS⟩ := hc
  obtain ⟨k0, lt, ls, lk, lw, lq, wt, ws, wk, ww, wq, u1, nb, nd⟩ := h
  have t1 := h3.t1
  clear h3
  obtain ⟨lk1, lk2, m2, m1, ft, hk, hw⟩ := h7
  obtain ⟨ta, tkd, tk1, tk2, ts⟩ := h5))

set_option hygiene false in
macro "crunch5q" : tactic => `(tactic| (
  simp only [kstep, wstep, ustep, estep, resumeU, schedule, disarm, finish, xtakeStep, hF, hD, hR, hO, hS, ↓reduceIte, Bool.true_and, Bool.false_and] at hs
  repeat' (split at hs)
  all_goals (first | contradiction | (simp only [Option.some.injEq] at hs; subst hs; constructor <;> (try simp only []) <;>
    grind [lor_ne_zero, disarmTm_other, disarmTm_armed, disarmTm_gone, disarmTm_popped, timeoutBit]))))

set_option hygiene false in
macro "c5a" : tactic => `(tactic| (clear k0 lk lw lq wk ww wq nb nd t1 lk1 lk2 m2 m1 ft hk hw; crunch5q))
set_option hygiene false in
macro "c5b" : tactic => `(tactic| (clear k0 lw lq wk ww wq nb nd lk1 lk2 m1 ft hk hw; crunch5))
/-- the same proof with less and less of the context cleared (all ids are `Nat`: e-matching explodes on the full context) -/
macro "c5" : tactic => `(tactic| first | c5a | c5b | crunch5)

set_option hygiene false in
macro "u5a" : tactic => `(tactic| (clear m2 hq hnk u1 hu1 hk0n; crunch5q))
set_option hygiene false in
macro "u5b" : tactic => `(tactic| (clear m2 hq u1; crunch5q))
set_option hygiene false in
macro "u5c" : tactic => `(tactic| (clear hq hnk hk0n; crunch5))
macro "u5" : tactic => `(tactic| first | u5a | u5b | u5c | crunch5)

end MayVerif.Io
