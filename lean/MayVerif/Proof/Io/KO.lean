import MayVerif.Proof.Io.Own
namespace MayVerif.Io

set_option maxHeartbeats 16000000 in
theorem inv7_kstep (st st' : St) (k : Kt) (pc : KPc) (e : Env) (hc : Cfg st) (h : Inv1 st) (h3 : Inv3 st) (h7 : Inv7 st)
    (hpc : st.kpc k = pc) (hs : kstep st k pc e = some st') : Inv7 st' := by
  prep7
  have hk0 := k0 k; have hlt := lt k; have hwt := wt k; have hlk := lk k; have hwk := wk k; have hhk := hk k
  cases pc with
  | off => simp [kstep] at hs
  | start s c r => simp [hpc, kTok, kHolds] at hk0 hlt hwt; crunch7
  | arm s c r => simp [hpc, kTok, kHolds] at hk0 hlt hwt; crunch7
  | set s c r t => simp [hpc, kTok, kHolds] at hk0 hlt hwt; crunch7
  | store s c r => simp [hpc, kTok, kHolds] at hk0 hlt hwt; crunch7
  | load s c r => crunch7
  | take s => crunch7
  | dis s c => simp [hpc, kTok, kHolds] at hlk hwk hhk; crunch7
  | reg s c => crunch7
  | chk c => crunch7
  | xor c => crunch7
  | xio c => crunch7
  | xtake s => crunch7
  | xDis s c => simp [hpc, kTok, kHolds] at hlk hwk hhk; crunch7
  | reg0 s c r => simp [hpc, kTok, kHolds] at hk0 hlt hwt; crunch7
  | chk2 s c => crunch7
  | own s => crunch7
  | ownDis s c => simp [hpc, kTok, kHolds] at hlk hwk hhk; crunch7

end MayVerif.Io
