import MayVerif.Proof.Io.Canc
namespace MayVerif.Io

set_option maxHeartbeats 16000000 in
theorem inv8_kstep (st st' : St) (k : Kt) (pc : KPc) (e : Env) (hc : Cfg st) (h : Inv1 st) (h2 : Inv2 st) (h8 : Inv8 st)
    (hpc : st.kpc k = pc) (hs : kstep st k pc e = some st') : Inv8 st' := by
  prep8
  have hk0 := k0 k; have hlt := lt k; have hwt := wt k; have hdk := dk k; have hrr := rr k; have hc2t := c2t k; have hrr0 := rr0 k
  cases pc with
  | off => simp [kstep] at hs
  | start s c r => simp [hpc, kTok, kTokR] at hk0 hlt hwt hrr hc2t; crunch8
  | arm s c r => simp [hpc, kTok, kTokR] at hk0 hlt hwt hrr hc2t; crunch8
  | set s c r t => simp [hpc, kTok, kTokR] at hk0 hlt hwt hrr hc2t; crunch8
  | store s c r => simp [hpc, kTok, kTokR] at hk0 hlt hwt hrr hc2t; crunch8
  | load s c r => crunch8
  | take s => crunch8
  | dis s c => crunch8
  | reg s c => simp [hpc, deadK] at hdk
  | chk c => simp [hpc, deadK] at hdk
  | xor c => simp [hpc, deadK] at hdk
  | xio c => simp [hpc, deadK] at hdk
  | xtake s => simp [hpc, deadK] at hdk
  | xDis s c => simp [hpc, deadK] at hdk
  | reg0 s c r => simp [hpc, kTok, kTokR] at hk0 hlt hwt hrr0; crunch8
  | chk2 s c => crunch8
  | own s => crunch8
  | ownDis s c => crunch8

end MayVerif.Io
