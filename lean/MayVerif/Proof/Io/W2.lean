import MayVerif.Proof.Io.Inv
namespace MayVerif.Io

set_option maxHeartbeats 8000000 in
theorem inv2_wstep (st st' : St) (w : Wk) (pc : WPc) (e : Env) (hc : Cfg st) (h : Inv1 st) (h2 : Inv2 st)
    (hpc : st.wpc w = pc) (hs : wstep st w pc e = some st') : Inv2 st' := by
  prep2
  have hlw := lw w; have hww := ww w
  cases pc with
  | idle => cases e <;> crunch2
  | sTake s => crunch2
  | sDis s c => simp [hpc, wHolds] at hlw hww; crunch2
  | fChk s t => crunch2
  | fOr s t => crunch2
  | fTake s t => crunch2
  | xio c => crunch2
  | xtake s => crunch2
  | xDis s c => simp [hpc, wHolds] at hlw hww; crunch2

end MayVerif.Io
