import MayVerif.Proof.Io.TT
namespace MayVerif.Io

set_option maxHeartbeats 16000000 in
theorem inv5_ustep (st st' : St) (c : Co) (pc : UPc) (e : Env) (h : Inv1 st) (h3 : Inv3 st) (h5 : Inv5 st)
    (hpc : st.upc c = pc) (hs : ustep st c pc e = some st') : Inv5 st' := by
  have setU : ∀ k s c r t, st.kpc k = .set s c r t → st.user s = some c ∧ st.upc c = .wait s := by
    intro k s c r t hk
    have := h.wt k c s (by simp [hk, kTok])
    exact ⟨h.u1 c s (by simp [this, uSock]), this⟩
  have storeU : ∀ k s c r, st.kpc k = .store s c r → st.user s = some c ∧ st.upc c = .wait s := by
    intro k s c r hk
    have := h.wt k c s (by simp [hk, kTok])
    exact ⟨h.u1 c s (by simp [this, uSock]), this⟩
  have slotU : ∀ s c, st.slot s = some c → st.user s = some c ∧ st.upc c = .wait s := by
    intro s c hs
    have := h.ws s c hs
    exact ⟨h.u1 c s (by simp [this, uSock]), this⟩
  prep5
  have hu1 := u1 c; have hk0n := k0 st.nk
  simp at hk0n
  cases pc with
  | idle => clear lt ls lk lw lq wk ww wq nb nd wt ws k0; cases e <;> crunch5
  | done o => clear lt ls lk lw lq wk ww wq nb nd wt ws k0; cases e <;> crunch5
  | reset s => clear lt ls lk lw lq wk ww wq nb nd wt ws k0; simp [hpc, uSock] at hu1; crunch5
  | sys s f => clear lt ls lk lw lq wk ww wq nb nd wt ws k0; simp [hpc, uSock] at hu1; cases e <;> crunch5
  | dur s => clear lt ls lk lw lq wk ww wq nb nd wt ws k0; simp [hpc, uSock] at hu1; cases e <;> crunch5
  | chk s => clear lt ls lk lw lq wk ww wq nb nd wt ws k0; simp [hpc, uSock] at hu1; crunch5
  | pre s =>
    have hnk : ∀ k, st.kpc k ≠ .off → k ≠ st.nk := by intro k hk he; subst he; exact hk hk0n
    clear lt ls lk lw lq wk ww wq nb nd wt ws k0 setU storeU slotU
    simp [hpc, uSock] at hu1; crunch5
  | wait s =>
    have hq : st.queued c = true → (∀ k s', st.kpc k ≠ .dis s' c ∧ st.kpc k ≠ .ownDis s' c) ∧ (∀ w s', st.wpc w ≠ .sDis s' c) := by
      intro hq
      have hl := lq c hq
      refine ⟨fun k s' => ⟨fun hk => ?_, fun hk => ?_⟩, fun w s' hw' => ?_⟩
      · have := lk k c (by simp [hk, kHolds]); rw [hl] at this; cases this
      · have := lk k c (by simp [hk, kHolds]); rw [hl] at this; cases this
      · have := lw w c (by simp [hw', wHolds]); rw [hl] at this; cases this
    clear lt ls lk lw lq wk ww wq nb nd wt ws k0
    simp [hpc, uSock] at hu1; cases e <;> crunch5
  | back s => clear lt ls lk lw lq wk ww wq nb nd wt ws k0; simp [hpc, uSock] at hu1; crunch5
  | clear s => clear lt ls lk lw lq wk ww wq nb nd wt ws k0; simp [hpc, uSock] at hu1; crunch5
  | store s => clear lt ls lk lw lq wk ww wq nb nd wt ws k0; simp [hpc, uSock] at hu1; crunch5

theorem inv5_estep (st st' : St) (e : Env) (h5 : Inv5 st) (hs : estep st e = some st') : Inv5 st' := by
  obtain ⟨ff, ent, tf, ta, tk0, tk1, tk2, ts, hk, hw⟩ := h5
  cases e <;> simp only [estep] at hs <;> first | contradiction | (simp only [Option.some.injEq] at hs; subst hs; constructor <;> assumption)

end MayVerif.Io
