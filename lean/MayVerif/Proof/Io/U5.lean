import MayVerif.Proof.Io.TT
namespace MayVerif.Io

set_option maxHeartbeats 16000000 in
theorem inv5_ustep (st st' : St) (c : Co) (pc : UPc) (e : Env) (hc : Cfg st) (h : Inv1 st) (h3 : Inv3 st) (h7 : Inv7 st) (h5 : Inv5 st)
    (hpc : st.upc c = pc) (hs : ustep st c pc e = some st') : Inv5 st' := by
  have setU : ∀ k s c r t, st.kpc k = .set s c r t → st.user s = some c ∧ st.upc c = .wait s := by
    intro k s c r t hk
    have := h.wt k c s (by simp [hk, kTok])
    exact ⟨h.u1 c s (by simp [this, uSock]), this⟩
  have storeU : ∀ k s c r, st.kpc k = .store s c r → st.user s = some c ∧ st.upc c = .wait s := by
    intro k s c r hk
    have := h.wt k c s (by simp [hk, kTok])
    exact ⟨h.u1 c s (by simp [this, uSock]), this⟩
  have slotU : ∀ s c, st.slot s = some c → st.user s = some c ∧ st.upc c = .wait s := by
    intro s c hs
    have := h.ws s c hs
    exact ⟨h.u1 c s (by simp [this, uSock]), this⟩
  have hq : st.queued c = true → (∀ k, kTok (st.kpc k) = none ∨ ∀ s', kTok (st.kpc k) ≠ some (c, s')) ∧ (∀ s', st.slot s' ≠ some c) := by
    intro hq
    have hl := h.lq c hq
    refine ⟨fun k => Or.inr fun s' hk => ?_, fun s' hs' => ?_⟩
    · have := h.lt k c s' hk; rw [hl] at this; cases this
    · have := h.ls s' c hs'; rw [hl] at this; cases this
  prep5
  have hu1 := u1 c; have hk0n := k0 st.nk
  simp at hk0n
  have hnk : ∀ k, st.kpc k ≠ .off → k ≠ st.nk := by intro k hk he; subst he; exact hk hk0n
  clear lt ls lk lw lq wk ww wq nb nd wt ws k0 t1 lk1 lk2 m1 ft hk hw
  cases pc with
  | idle => cases e <;> u5
  | done o => cases e <;> u5
  | reset s => simp [hpc, uSock] at hu1; u5
  | sys s f => simp [hpc, uSock] at hu1; cases e <;> u5
  | dur s => simp [hpc, uSock] at hu1; cases e <;> u5
  | chk s => simp [hpc, uSock] at hu1; u5
  | pre s => simp [hpc, uSock] at hu1; u5
  | wait s => simp [hpc, uSock] at hu1; cases e <;> u5
  | back s => simp [hpc, uSock] at hu1; u5
  | clear s => simp [hpc, uSock] at hu1; u5
  | store s => simp [hpc, uSock] at hu1; u5

theorem inv5_estep (st st' : St) (e : Env) (h5 : Inv5 st) (hs : estep st e = some st') : Inv5 st' := by
  obtain ⟨ta, tkd, tk1, tk2, ts⟩ := h5
  cases e <;> simp only [estep] at hs <;> (repeat' (split at hs)) <;> first | contradiction | (simp only [Option.some.injEq] at hs; subst hs; constructor <;> first | assumption | grind)

end MayVerif.Io
