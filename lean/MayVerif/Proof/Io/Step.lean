import MayVerif.Proof.Io.K1
import MayVerif.Proof.Io.W1
import MayVerif.Proof.Io.U1
import MayVerif.Proof.Io.K2
import MayVerif.Proof.Io.W2
import MayVerif.Proof.Io.U2
import MayVerif.Proof.Io.K4
import MayVerif.Proof.Io.W4
import MayVerif.Proof.Io.U4
namespace MayVerif.Io

structure Inv (st : St) : Prop where
  i1 : Inv1 st
  i2 : Inv2 st
  i4 : Inv4 st

theorem inv_initCfg (ff fd : Bool) (co : Co → Bool) : Inv (initCfg ff fd co) := ⟨inv1_init ff fd co, inv2_init ff fd co, inv4_init ff fd co⟩
theorem inv_init (co : Co → Bool) : Inv (init co) := inv_initCfg true true co

theorem inv_step (st st' : St) (a : Actor) (e : Env) (h : Inv st) (hs : step st a e = some st') : Inv st' := by
  obtain ⟨h1, h2, h4⟩ := h
  cases a with
  | u c => exact ⟨inv1_ustep st st' c _ e h1 rfl hs, inv2_ustep st st' c _ e h1 h2 rfl hs, inv4_ustep st st' c _ e h1 h4 rfl hs⟩
  | k i => exact ⟨inv1_kstep st st' i _ e h1 rfl hs, inv2_kstep st st' i _ e h1 h2 rfl hs, inv4_kstep st st' i _ e h1 h4 rfl hs⟩
  | w i => exact ⟨inv1_wstep st st' i _ e h1 rfl hs, inv2_wstep st st' i _ e h1 h2 rfl hs, inv4_wstep st st' i _ e h1 h4 rfl hs⟩
  | env => exact ⟨inv1_estep st st' e h1 hs, inv2_estep st st' e h2 hs, inv4_estep st st' e h4 hs⟩

theorem inv_run (st : St) (sched : List (Actor × Env)) (h : Inv st) : Inv (run st sched) := by
  induction sched generalizing st with
  | nil => simpa [run]
  | cons ae r ih =>
    obtain ⟨a, e⟩ := ae
    simp only [run]
    split
    · next st' hs => exact ih _ (inv_step _ _ _ _ h hs)
    · exact ih _ h

/-- nobody is in the middle of the handshake on socket `s`: no kernel tail between its `co.store` and its re-check / take,
    no selector between its `fetch_or` and its `co.take` -/
def QuietOn (st : St) (s : Sock) : Prop := (∀ k, kWill (st.kpc k) s = false) ∧ (∀ w, wWill (st.wpc w) s = false)

/-- every kernel tail has finished and every worker / canceller thread is between two events -/
def Quiescent (st : St) : Prop := (∀ k, st.kpc k = .off) ∧ (∀ w, st.wpc w = .idle)

theorem quiescent_quietOn (st : St) (s : Sock) (h : Quiescent st) : QuietOn st s := by
  constructor
  · intro k; simp [h.1 k, kWill]
  · intro w; simp [h.2 w, wWill]

end MayVerif.Io
