import MayVerif.Proof.Io.K1
import MayVerif.Proof.Io.W1
import MayVerif.Proof.Io.U1
import MayVerif.Proof.Io.K2
import MayVerif.Proof.Io.W2
import MayVerif.Proof.Io.U2
import MayVerif.Proof.Io.K4
import MayVerif.Proof.Io.W4
import MayVerif.Proof.Io.U4
namespace MayVerif.Io

/-- which code the model is of never changes -/
theorem cfg_step (st st' : St) (a : Actor) (e : Env) (hs : step st a e = some st') :
    st'.fixFlag = st.fixFlag ∧ st'.fixDis = st.fixDis ∧ st'.regFirst = st.regFirst ∧ st'.fixOwn = st.fixOwn ∧ st'.skipSys = st.skipSys := by
  cases a with
  | u c =>
    simp only [step] at hs
    generalize st.upc c = pc at hs
    cases pc <;> cases e <;> simp only [ustep, resumeU, finish, disarm] at hs <;> (repeat' (split at hs)) <;>
      first | contradiction | (simp only [Option.some.injEq] at hs; subst hs; exact ⟨rfl, rfl, rfl, rfl, rfl⟩)
  | k i =>
    simp only [step] at hs
    generalize st.kpc i = pc at hs
    cases pc <;> simp only [kstep, resumeU, finish, disarm, schedule, xtakeStep] at hs <;> (repeat' (split at hs)) <;>
      first | contradiction | (simp only [Option.some.injEq] at hs; subst hs; exact ⟨rfl, rfl, rfl, rfl, rfl⟩)
  | w i =>
    simp only [step] at hs
    generalize st.wpc i = pc at hs
    cases pc <;> cases e <;> simp only [wstep, resumeU, finish, disarm, schedule, xtakeStep] at hs <;> (repeat' (split at hs)) <;>
      first | contradiction | (simp only [Option.some.injEq] at hs; subst hs; exact ⟨rfl, rfl, rfl, rfl, rfl⟩)
  | env =>
    simp only [step] at hs
    cases e <;> simp only [estep] at hs <;> (repeat' (split at hs)) <;> first | contradiction | (simp only [Option.some.injEq] at hs; subst hs; exact ⟨rfl, rfl, rfl, rfl, rfl⟩)

theorem cfg_run (st : St) (sched : List (Actor × Env)) :
    (run st sched).fixFlag = st.fixFlag ∧ (run st sched).fixDis = st.fixDis ∧ (run st sched).regFirst = st.regFirst ∧
    (run st sched).fixOwn = st.fixOwn ∧ (run st sched).skipSys = st.skipSys := by
  induction sched generalizing st with
  | nil => exact ⟨rfl, rfl, rfl, rfl, rfl⟩
  | cons ae r ih =>
    obtain ⟨a, e⟩ := ae
    simp only [run]
    split
    · next st' hs =>
      have h1 := cfg_step _ _ _ _ hs
      have h2 := ih st'
      exact ⟨h2.1.trans h1.1, h2.2.1.trans h1.2.1, h2.2.2.1.trans h1.2.2.1, h2.2.2.2.1.trans h1.2.2.2.1, h2.2.2.2.2.trans h1.2.2.2.2⟩
    · exact ih st

theorem Cfg.step {st st' : St} {a : Actor} {e : Env} (hc : Cfg st) (hs : step st a e = some st') : Cfg st' := by
  have h := cfg_step _ _ _ _ hs
  exact ⟨h.1.trans hc.hF, h.2.1.trans hc.hD, h.2.2.1.trans hc.hR, h.2.2.2.1.trans hc.hO, h.2.2.2.2.trans hc.hS⟩

structure Inv (st : St) : Prop where
  c : Cfg st
  i1 : Inv1 st
  i2 : Inv2 st
  i4 : Inv4 st

theorem inv_init (co : Co → Bool) : Inv (init co) := ⟨cfg_init co, inv1_init co, inv2_init co, inv4_init co⟩

theorem inv_step (st st' : St) (a : Actor) (e : Env) (h : Inv st) (hs : step st a e = some st') : Inv st' := by
  obtain ⟨hc, h1, h2, h4⟩ := h
  have hc' := hc.step hs
  cases a with
  | u c => exact ⟨hc', inv1_ustep st st' c _ e hc h1 rfl hs, inv2_ustep st st' c _ e hc h1 h2 rfl hs, inv4_ustep st st' c _ e hc h1 h4 rfl hs⟩
  | k i => exact ⟨hc', inv1_kstep st st' i _ e hc h1 rfl hs, inv2_kstep st st' i _ e hc h1 h2 rfl hs, inv4_kstep st st' i _ e hc h1 h4 rfl hs⟩
  | w i => exact ⟨hc', inv1_wstep st st' i _ e hc h1 rfl hs, inv2_wstep st st' i _ e hc h1 h2 rfl hs, inv4_wstep st st' i _ e hc h1 h4 rfl hs⟩
  | env =>
    have he : estep st e = some st' := hs
    exact ⟨hc', inv1_estep st st' e h1 he, inv2_estep st st' e h2 he, inv4_estep st st' e h4 he⟩

theorem inv_run (st : St) (sched : List (Actor × Env)) (h : Inv st) : Inv (run st sched) := by
  induction sched generalizing st with
  | nil => simpa [run]
  | cons ae r ih =>
    obtain ⟨a, e⟩ := ae
    simp only [run]
    split
    · next st' hs => exact ih _ (inv_step _ _ _ _ h hs)
    · exact ih _ h

/-- nobody is in the middle of the handshake on socket `s`: no kernel tail between its `co.store` and its re-check / take,
    no selector between its `fetch_or` and its `co.take` -/
def QuietOn (st : St) (s : Sock) : Prop := (∀ k, kWill (st.kpc k) s = false) ∧ (∀ w, wWill (st.wpc w) s = false)

/-- every kernel tail has finished and every worker / canceller thread is between two events -/
def Quiescent (st : St) : Prop := (∀ k, st.kpc k = .off) ∧ (∀ w, st.wpc w = .idle)

theorem quiescent_quietOn (st : St) (s : Sock) (h : Quiescent st) : QuietOn st s := by
  constructor
  · intro k; simp [h.1 k, kWill]
  · intro w; simp [h.2 w, wWill]

end MayVerif.Io
