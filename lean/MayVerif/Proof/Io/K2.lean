import MayVerif.Proof.Io.Inv
namespace MayVerif.Io

set_option maxHeartbeats 8000000 in
theorem inv2_kstep (st st' : St) (k : Kt) (pc : KPc) (e : Env) (hc : Cfg st) (h : Inv1 st) (h2 : Inv2 st)
    (hpc : st.kpc k = pc) (hs : kstep st k pc e = some st') : Inv2 st' := by
  prep2
  have hk0 := k0 k; have hlt := lt k; have hwt := wt k; have hlk := lk k; have hwk := wk k
  cases pc with
  | off => simp [kstep] at hs
  | start s c r => simp [hpc, kTok, kHolds] at hk0 hlt hwt; crunch2
  | arm s c r => simp [hpc, kTok, kHolds] at hk0 hlt hwt; crunch2
  | set s c r t => simp [hpc, kTok, kHolds] at hk0 hlt hwt; crunch2
  | store s c r => simp [hpc, kTok, kHolds] at hk0 hlt hwt; crunch2
  | load s c r => simp [hpc, kTok, kHolds] at hk0; crunch2
  | take s => simp [hpc, kTok, kHolds] at hk0; crunch2
  | dis s c => simp [hpc, kTok, kHolds] at hk0 hlk hwk; crunch2
  | reg s c => simp [hpc, kTok, kHolds] at hk0; crunch2
  | chk c => simp [hpc, kTok, kHolds] at hk0; crunch2
  | xor c => simp [hpc, kTok, kHolds] at hk0; crunch2
  | xio c => simp [hpc, kTok, kHolds] at hk0; crunch2
  | xtake s => simp [hpc, kTok, kHolds] at hk0; crunch2
  | xDis s c => simp [hpc, kTok, kHolds] at hk0 hlk hwk; crunch2
  | reg0 s c r => simp [hpc, kTok, kHolds] at hk0 hlt hwt; crunch2
  | chk2 s c => simp [hpc, kTok, kHolds] at hk0; crunch2
  | own s => simp [hpc, kTok, kHolds] at hk0; crunch2
  | ownDis s c => simp [hpc, kTok, kHolds] at hk0 hlk hwk; crunch2

end MayVerif.Io
