import MayVerif.Proof.Io.Step
import MayVerif.Proof.Io.K5
import MayVerif.Proof.Io.W5
import MayVerif.Proof.Io.U5
import MayVerif.Proof.Io.TD
namespace MayVerif.Io

/-- everything that is invariant of the fixed code (`init`) -/
structure InvT (st : St) : Prop where
  i : Inv st
  i3 : Inv3 st
  i5 : Inv5 st
  i6 : Inv6 st

theorem invT_init (co : Co → Bool) : InvT (init co) := ⟨inv_init co, inv3_init co, inv5_init co, inv6_init co⟩

theorem invT_step (st st' : St) (a : Actor) (e : Env) (h : InvT st) (hs : step st a e = some st') : InvT st' := by
  obtain ⟨hi, h3, h5, h6⟩ := h
  refine ⟨inv_step _ _ _ _ hi hs, inv3_step _ _ _ _ h3 hs, ?_, ?_⟩
  · cases a with
    | u c => exact inv5_ustep st st' c _ e hi.i1 h3 h5 rfl hs
    | k i => exact inv5_kstep st st' i _ e hi.i1 h3 h5 rfl hs
    | w i => exact inv5_wstep st st' i _ e hi.i1 h3 h5 rfl hs
    | env => exact inv5_estep st st' e h5 hs
  · cases a with
    | u c => exact inv6_ustep st st' c _ e hi.i1 h5 h6 rfl hs
    | k i => exact inv6_kstep st st' i _ e hi.i1 h5 h6 rfl hs
    | w i => exact inv6_wstep st st' i _ e hi.i1 h5 h6 rfl hs
    | env => exact inv6_estep st st' e h6 hs

theorem invT_run (st : St) (sched : List (Actor × Env)) (h : InvT st) : InvT (run st sched) := by
  induction sched generalizing st with
  | nil => simpa [run]
  | cons ae r ih =>
    obtain ⟨a, e⟩ := ae
    simp only [run]
    split
    · next st' hs => exact ih _ (invT_step _ _ _ _ h hs)
    · exact ih _ h

/-- which code the model is of never changes -/
theorem cfg_step (st st' : St) (a : Actor) (e : Env) (hs : step st a e = some st') :
    st'.fixFlag = st.fixFlag ∧ st'.fixDis = st.fixDis ∧ st'.regFirst = st.regFirst := by
  cases a with
  | u c =>
    simp only [step] at hs
    generalize st.upc c = pc at hs
    cases pc <;> cases e <;> simp only [ustep, resumeU, finish, disarm] at hs <;> (repeat' (split at hs)) <;>
      first | contradiction | (simp only [Option.some.injEq] at hs; subst hs; exact ⟨rfl, rfl, rfl⟩)
  | k i =>
    simp only [step] at hs
    generalize st.kpc i = pc at hs
    cases pc <;> simp only [kstep, resumeU, finish, disarm, schedule, xtakeStep] at hs <;> (repeat' (split at hs)) <;>
      first | contradiction | (simp only [Option.some.injEq] at hs; subst hs; exact ⟨rfl, rfl, rfl⟩)
  | w i =>
    simp only [step] at hs
    generalize st.wpc i = pc at hs
    cases pc <;> cases e <;> simp only [wstep, resumeU, finish, disarm, schedule, xtakeStep] at hs <;> (repeat' (split at hs)) <;>
      first | contradiction | (simp only [Option.some.injEq] at hs; subst hs; exact ⟨rfl, rfl, rfl⟩)
  | env =>
    simp only [step] at hs
    cases e <;> simp only [estep] at hs <;> first | contradiction | (simp only [Option.some.injEq] at hs; subst hs; exact ⟨rfl, rfl, rfl⟩)

theorem cfg_run (st : St) (sched : List (Actor × Env)) :
    (run st sched).fixFlag = st.fixFlag ∧ (run st sched).fixDis = st.fixDis ∧ (run st sched).regFirst = st.regFirst := by
  induction sched generalizing st with
  | nil => exact ⟨rfl, rfl, rfl⟩
  | cons ae r ih =>
    obtain ⟨a, e⟩ := ae
    simp only [run]
    split
    · next st' hs =>
      have h1 := cfg_step _ _ _ _ hs
      have h2 := ih st'
      exact ⟨h2.1.trans h1.1, h2.2.1.trans h1.2.1, h2.2.2.trans h1.2.2⟩
    · exact ih st

end MayVerif.Io
