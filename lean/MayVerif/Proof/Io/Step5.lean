import MayVerif.Proof.Io.Step
import MayVerif.Proof.Io.KO
import MayVerif.Proof.Io.WO
import MayVerif.Proof.Io.UO
import MayVerif.Proof.Io.K5
import MayVerif.Proof.Io.W5
import MayVerif.Proof.Io.U5
import MayVerif.Proof.Io.TD
import MayVerif.Proof.Io.K8
import MayVerif.Proof.Io.W8
import MayVerif.Proof.Io.U8
namespace MayVerif.Io

/-- everything that is invariant of the repaired code (`init`) -/
structure InvT (st : St) : Prop where
  i : Inv st
  i3 : Inv3 st
  i7 : Inv7 st
  i5 : Inv5 st
  i6 : Inv6 st
  i8 : Inv8 st

theorem invT_init (co : Co → Bool) : InvT (init co) :=
  ⟨inv_init co, inv3_init co, inv7_init co, inv5_init co, inv6_init co, inv8_init co⟩

theorem invT_step (st st' : St) (a : Actor) (e : Env) (h : InvT st) (hs : step st a e = some st') : InvT st' := by
  obtain ⟨hi, h3, h7, h5, h6, h8⟩ := h
  have hc := hi.c
  refine ⟨inv_step _ _ _ _ hi hs, inv3_step _ _ _ _ h3 hs, ?_, ?_, ?_, ?_⟩
  · cases a with
    | u c => exact inv7_ustep st st' c _ e hc hi.i1 h3 h7 rfl hs
    | k i => exact inv7_kstep st st' i _ e hc hi.i1 h3 h7 rfl hs
    | w i => exact inv7_wstep st st' i _ e hc hi.i1 h3 h7 rfl hs
    | env => exact inv7_estep st st' e h7 hs
  · cases a with
    | u c => exact inv5_ustep st st' c _ e hc hi.i1 h3 h7 h5 rfl hs
    | k i => exact inv5_kstep st st' i _ e hc hi.i1 h3 h7 h5 rfl hs
    | w i => exact inv5_wstep st st' i _ e hc hi.i1 h3 h7 h5 rfl hs
    | env => exact inv5_estep st st' e h5 hs
  · cases a with
    | u c => exact inv6_ustep st st' c _ e hc hi.i1 h3 h7 h6 rfl hs
    | k i => exact inv6_kstep st st' i _ e hc hi.i1 h3 h7 h6 rfl hs
    | w i => exact inv6_wstep st st' i _ e hc hi.i1 h3 h7 h6 rfl hs
    | env => exact inv6_estep st st' e h6 hs
  · cases a with
    | u c => exact inv8_ustep st st' c _ e hc hi.i1 hi.i2 h8 rfl hs
    | k i => exact inv8_kstep st st' i _ e hc hi.i1 hi.i2 h8 rfl hs
    | w i => exact inv8_wstep st st' i _ e hc hi.i1 hi.i2 h8 rfl hs
    | env => exact inv8_estep st st' e h8 hs

theorem invT_run (st : St) (sched : List (Actor × Env)) (h : InvT st) : InvT (run st sched) := by
  induction sched generalizing st with
  | nil => simpa [run]
  | cons ae r ih =>
    obtain ⟨a, e⟩ := ae
    simp only [run]
    split
    · next st' hs => exact ih _ (invT_step _ _ _ _ h hs)
    · exact ih _ h

end MayVerif.Io
