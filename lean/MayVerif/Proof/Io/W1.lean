import MayVerif.Proof.Io.Inv
namespace MayVerif.Io

set_option hygiene false in
macro "wprep" : tactic => `(tactic| (
  obtain ⟨hF, hD, hR, hO, hS⟩ := hc
  obtain ⟨k0, lt, ls, lk, lw, lq, wt, ws, wk, ww, wq, u1, nb, nd⟩ := h
  have hlw := lw w; have hww := ww w
  (try simp [hpc, wHolds] at hlw); (try simp [hpc, wHolds] at hww)))

set_option maxHeartbeats 8000000 in
theorem inv1_wstep (st st' : St) (w : Wk) (pc : WPc) (e : Env) (hc : Cfg st) (h : Inv1 st)
    (hpc : st.wpc w = pc) (hs : wstep st w pc e = some st') : Inv1 st' := by
  cases pc with
  | idle => wprep; cases e <;> crunch
  | sTake s => wprep; crunch
  | sDis s c => wprep; crunch
  | fChk s t => wprep; crunch
  | fOr s t => wprep; crunch
  | fTake s t => wprep; crunch
  | xio c => wprep; crunch
  | xtake s => wprep; crunch
  | xDis s c => wprep; crunch

end MayVerif.Io
