import MayVerif.Proof.Io.TT
namespace MayVerif.Io

set_option maxHeartbeats 16000000 in
theorem inv5_wstep (st st' : St) (w : Wk) (pc : WPc) (e : Env) (h : Inv1 st) (h3 : Inv3 st) (h5 : Inv5 st)
    (hpc : st.wpc w = pc) (hs : wstep st w pc e = some st') : Inv5 st' := by
  prep5
  have hlw := lw w; have hww := ww w; have hhw := hw w
  cases pc with
  | idle => cases e <;> crunch5
  | sTake s => crunch5
  | sDis s c => simp [hpc, wHolds] at hlw hww hhw; crunch5
  | fOr s t => crunch5
  | fTake s t => crunch5
  | xio c => crunch5
  | xtake s => crunch5

end MayVerif.Io
