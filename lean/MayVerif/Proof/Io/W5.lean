import MayVerif.Proof.Io.TT
namespace MayVerif.Io

set_option maxHeartbeats 16000000 in
theorem inv5_wstep (st st' : St) (w : Wk) (pc : WPc) (e : Env) (hc : Cfg st) (h : Inv1 st) (h3 : Inv3 st) (h7 : Inv7 st) (h5 : Inv5 st)
    (hpc : st.wpc w = pc) (hs : wstep st w pc e = some st') : Inv5 st' := by
  prep5
  have hlw := lw w; have hww := ww w; have hhw := hw w; have hlk2 := lk2 w; have hm1 := m1 w; have hft := ft w
  cases pc with
  | idle => cases e <;> c5
  | sTake s => c5
  | sDis s c => simp [hpc, wHolds] at hlw hww hhw; c5
  | fChk s t => c5
  | fOr s t => simp [hpc, fCrit] at hlk2 hm1; c5
  | fTake s t => simp [hpc, fCrit] at hlk2 hm1 hft; c5
  | xio c => c5
  | xtake s => c5
  | xDis s c => simp [hpc, wHolds] at hlw hww hhw; c5

end MayVerif.Io
