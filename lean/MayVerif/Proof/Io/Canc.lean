/-
  Cancel of a coroutine blocked in socket io (repaired code, `St.regFirst`: pending_fixes/io-stale-set_io.patch). The subscribing
  kernel tail registers the socket in the coroutine's `CancelIoImpl` BEFORE it publishes the coroutine and re-checks the cancel bit
  afterwards (taking its own slot if it is set). Invariant: a registering caller that sits in a slot is registered for that very
  socket as long as its bit is clear; once the bit is set somebody is on the way to take it out – the tail that published it (it has
  not yet re-checked), or the canceller (before its `CancelIoImpl.take()` with the registration still there, or before its `co.take`).
-/
import MayVerif.Proof.Io.Inv
namespace MayVerif.Io

/-- kernel-tail program points that exist only on the trees without the fix (`set_io` after publication, cancel run by the tail) -/
@[grind] def deadK : KPc → Bool
  | .reg _ _ | .chk _ | .xor _ | .xio _ | .xtake _ | .xDis _ _ => true
  | _ => false
/-- the tail will still look at the slot of `s`: flag re-check, `fast_schedule`, cancel re-check, `EventData::schedule` -/
@[grind] def kWillC : KPc → Sock → Bool
  | .load s' _ _, s | .take s', s | .chk2 s' _, s | .own s', s => s' == s
  | _, _ => false
/-- the tail has registered (if it registers at all) and still carries the coroutine -/
@[grind] def kTokR : KPc → Option (Co × Sock × Bool)
  | .start s c r | .arm s c r | .set s c r _ | .store s c r => some (c, s, r)
  | _ => none
@[grind] def xtk : WPc → Sock → Bool
  | .xtake s', s => s' == s
  | _, _ => false

structure Inv8 (st : St) : Prop where
  dk : ∀ k, deadK (st.kpc k) = false
  xb : ∀ w c, st.wpc w = .xio c → st.cbit c = true
  rr : ∀ k c s r, kTokR (st.kpc k) = some (c, s, r) → r = st.opReg c
  rr0 : ∀ k s c r, st.kpc k = .reg0 s c r → r = st.opReg c
  ls1 : ∀ s c' c r, st.slot s = some c' → st.kpc (st.lastStore s) = .load s c r → c' = c ∧ r = st.opReg c
  ls2 : ∀ s c' c, st.slot s = some c' → st.kpc (st.lastStore s) = .chk2 s c → c' = c
  c2t : ∀ k c s, kTokR (st.kpc k) = some (c, s, true) → st.cbit c = false → st.cio c = some s
  c2 : ∀ s c, st.slot s = some c → st.opReg c = true → st.cbit c = false → st.cio c = some s
  ci : ∀ s c, st.slot s = some c → st.opReg c = true → st.cbit c = true →
        kWillC (st.kpc (st.lastStore s)) s = true ∨ xtk (st.wpc (st.lastX s)) s = true ∨
        (st.wpc (st.lastCanc c) = .xio c ∧ st.cio c = some s)

theorem inv8_init (co : Co → Bool) : Inv8 (init co) := by
  constructor <;> simp [init, initCfg, deadK, kTokR]

theorem kTokR_kTok (pc : KPc) (c : Co) (s : Sock) (r : Bool) (h : kTokR pc = some (c, s, r)) : kTok pc = some (c, s) := by
  cases pc <;> simp_all [kTokR, kTok]

set_option hygiene false in
macro "crunch8" : tactic => `(tactic| (
  simp only [kstep, wstep, ustep, estep, resumeU, schedule, disarm, finish, xtakeStep, hF, hD, hR, hO, hS, ↓reduceIte, Bool.true_and, Bool.false_and] at hs
  repeat' (split at hs)
  all_goals (first | contradiction | (simp only [Option.some.injEq] at hs; subst hs; constructor <;> (try simp only []) <;>
    first | grind [kTokR_kTok] | grind (splits := 30) [kTokR_kTok] | grind (splits := 40) (instances := 6000) (gen := 10) [kTokR_kTok]))))

set_option hygiene false in
macro "prep8" : tactic => `(tactic| (
  obtain ⟨hF, hD, hR, hO, hS⟩ := hc
  have k1 := h2.k1
  clear h2
  obtain ⟨k0, lt, ls, lk, lw, lq, wt, ws, wk, ww, wq, u1, nb, nd⟩ := h
  clear lk lw lq wk ww wq nb nd
  have wtR : ∀ k c s r, kTokR (st.kpc k) = some (c, s, r) → st.upc c = .wait s ∧ st.loc c = .tail k :=
    fun k c s r hk => ⟨wt k c s (kTokR_kTok _ c s r hk), lt k c s (kTokR_kTok _ c s r hk)⟩
  have wt0 : ∀ k s c r, st.kpc k = .reg0 s c r → st.upc c = .wait s ∧ st.loc c = .tail k :=
    fun k s c r hk => ⟨wt k c s (by simp [hk, kTok]), lt k c s (by simp [hk, kTok])⟩
  obtain ⟨dk, xb, rr, rr0, ls1, ls2, c2t, c2, ci⟩ := h8))

end MayVerif.Io
