/-
  The poller steps that change an arm or a counter: spawn, `cnt += 1`, `total += 1`, dispatch of a popped event.
-/
import MayVerif.Proof.Cqueue.Frame
set_option linter.unusedSimpArgs false
namespace MayVerif.Cqueue

/-- the table row of an arm depends only on that arm's fields and on which of its events are pending -/
theorem ArmOk_congr (s s' : St) (b : Aid) (h : ArmOk s b)
    (hpc : s'.apc b = s.apc b) (htp : s'.tpc b = s.tpc b) (h1 : s'.sh.tops b = s.sh.tops b) (h2 : s'.sh.sent b = s.sh.sent b)
    (h3 : s'.sh.cons b = s.sh.cons b) (h4 : s'.sh.botS b = s.sh.botS b) (h5 : s'.sh.bots b = s.sh.bots b)
    (h6 : s'.sh.doneCons b = s.sh.doneCons b) (h7 : s'.sh.joined b = s.sh.joined b) (h8 : s'.sh.wk b = s.sh.wk b)
    (h9 : s'.sh.outcome b = s.sh.outcome b)
    (hn : Ev.normal b ∈ pend s' ↔ Ev.normal b ∈ pend s) (hd : Ev.done b ∈ pend s' ↔ Ev.done b ∈ pend s) : ArmOk s' b := by
  simp only [ArmOk, hpc, htp, h1, h2, h3, h4, h5, h6, h7, h8, h9, hn, hd] at h ⊢
  exact h

/-- `add_impl`: spawn the arm `total` (a1 → a2) -/
theorem inv_spawn (s : St) (h : Inv s) (hppc : s.ppc = .a1) :
    Inv { s with ppc := .a2, apc := upd s.apc s.sh.total .top } := by
  obtain ⟨harm, hnd0, htot, ha1, hsp, hsp', hnew, hcnt0, hlate0, hend, hdc, hchk, hps, hnp, hpo, hok, hrun, hc6, hp1, hp2, hp3, hpb, hst, hunwp, hgone⟩ := h
  have hlt : s.sh.total < s.n := ha1 (Or.inl hppc)
  have hidle : s.apc s.sh.total = .idle := by
    apply Classical.byContradiction; intro hne
    rcases hsp _ hne with h1 | ⟨_, h2⟩
    · omega
    · simp [hppc, adding] at h2
  have hC := cntOf_upd s.n counted s.apc s.sh.total .top hlt
  rw [hidle] at hC
  simp only [counted] at hC
  have hpend : pend { s with ppc := .a2, apc := upd s.apc s.sh.total .top } = pend s := by simp [pend, hppc, held]
  constructor
  case arm =>
    intro b
    by_cases hb : b = s.sh.total
    · subst hb
      have := harm s.sh.total
      simp only [ArmOk, armOk, hidle, hpend, upd, if_true] at this ⊢
      simp only [pushedDone, dying] at this ⊢
      grind
    · apply ArmOk_congr s _ b (harm b) <;> simp [upd, hb, hpend]
  case nodup => rw [hpend]; exact hnd0
  case tot => exact htot
  case a1lt => intro _; exact hlt
  case spawned =>
    intro b hb
    by_cases hba : b = s.sh.total
    · exact Or.inr ⟨hba, by simp [adding]⟩
    · simp only [upd, hba, if_false] at hb
      rcases hsp b hb with h1 | ⟨h1, _⟩
      · exact Or.inl h1
      · exact absurd h1 hba
  case spawned' =>
    intro b hb
    have hba : b ≠ s.sh.total := by simp only at hb; omega
    simpa [upd, hba] using hsp' b hb
  case newArm => intro _; simp [upd]
  case cntEq => simp only [hcnt0, hppc]; simp at hC ⊢; omega
  case lateAll => intro hl; simp [allLate] at hl
  case endedAll => intro hl; simp [allEnded] at hl
  case dcons =>
    intro b hb
    have := hdc b hb
    simp only [hppc, checking] at this
    rcases this with h1 | h1
    · left
      have hba : b ≠ s.sh.total := by intro hh; rw [hh, hidle] at h1; cases h1
      simpa [upd, hba] using h1
    · cases h1
  case chk => intro b hb; simp [checking] at hb
  case panSeen =>
    intro b hb hob
    have := hps b hb hob
    simpa [hppc, checking, atC6] using this
  case noPinned => simp [pinnedOnly]
  case noPoison => exact hpo
  case okRet => intro b hb; simp [retOk] at hb
  case runOk => intro b hb; simp [running] at hb
  case c6ok => intro b hb; simp [atC6] at hb
  case panA1 => exact hp1
  case panA2 => exact hp2
  case panA3 => exact hp3
  case panB => exact hpb
  case storedOk => exact hst
  case unwPan => intro hh; simp [atUnw] at hh
  case goneOk => intro r hr; cases hr

/-- `add_impl`: `cnt += 1` (a2 → a3) -/
theorem inv_a2 (s : St) (h : Inv s) (hppc : s.ppc = .a2) :
    Inv { s with sh := { s.sh with cnt := s.sh.cnt + 1 }, ppc := .a3 } := by
  obtain ⟨harm, hnd0, htot, ha1, hsp, hsp', hnew, hcnt0, hlate0, hend, hdc, hchk, hps, hnp, hpo, hok, hrun, hc6, hp1, hp2, hp3, hpb, hst, hunwp, hgone⟩ := h
  have hpend : pend { s with sh := { s.sh with cnt := s.sh.cnt + 1 }, ppc := .a3 } = pend s := by simp [pend, hppc, held]
  simp only [hppc, adding, checking, atC6, retOk, running, allLate, allEnded] at *
  constructor
  case arm => intro b; apply ArmOk_congr s _ b (harm b) <;> simp [hpend]
  case nodup => rw [hpend]; exact hnd0
  case cntEq => simp only [hcnt0]; simp
  case spawned => intro b hb; simpa [adding] using hsp b hb
  case newArm => intro _; exact hnew trivial
  case a1lt => intro _; exact ha1 (Or.inr trivial)
  case dcons => intro b hb; simpa [checking] using hdc b hb
  case panSeen => intro b hb hob; simpa [checking, atC6] using hps b hb hob
  case goneOk => intro r hr; cases hr
  all_goals first | assumption | (simp [pinnedOnly, allLate, allEnded, checking, atC6, retOk, running, atUnw]; done) | (intro b hb; simp [checking, atC6, retOk, running] at hb; done)

/-- `add_impl`: `total += 1` (a3 → a4) -/
theorem inv_a3 (s : St) (h : Inv s) (hppc : s.ppc = .a3) :
    Inv { s with sh := { s.sh with total := s.sh.total + 1 }, ppc := .a4 } := by
  obtain ⟨harm, hnd0, htot, ha1, hsp, hsp', hnew, hcnt0, hlate0, hend, hdc, hchk, hps, hnp, hpo, hok, hrun, hc6, hp1, hp2, hp3, hpb, hst, hunwp, hgone⟩ := h
  have hpend : pend { s with sh := { s.sh with total := s.sh.total + 1 }, ppc := .a4 } = pend s := by simp [pend, hppc, held]
  simp only [hppc, adding, checking, atC6, retOk, running, allLate, allEnded] at *
  have hlt : s.sh.total < s.n := ha1 (Or.inr trivial)
  constructor
  case arm => intro b; apply ArmOk_congr s _ b (harm b) <;> simp [hpend]
  case nodup => rw [hpend]; exact hnd0
  case tot => simp only; omega
  case cntEq => simp only [hcnt0]; simp
  case spawned =>
    intro b hb
    rcases hsp b hb with h1 | ⟨h1, _⟩
    · exact Or.inl (by simp only; omega)
    · exact Or.inl (by simp only; omega)
  case spawned' =>
    intro b hb
    simp only at hb
    by_cases hbt : b = s.sh.total
    · rw [hbt]; exact hnew trivial
    · exact hsp' b (by omega)
  case newArm => intro hh; simp [adding] at hh
  case a1lt => intro hh; simp [adding] at hh
  case dcons => intro b hb; simpa [checking] using hdc b hb
  case panSeen => intro b hb hob; simpa [checking, atC6] using hps b hb hob
  case goneOk => intro r hr; cases hr
  all_goals first | assumption | (simp [pinnedOnly, allLate, allEnded, checking, atC6, retOk, running, atUnw]; done) | (intro b hb; simp [checking, atC6, retOk, running] at hb; done)

/-- the state after the dispatch of a Normal event -/
def dispN (s : St) (a : Aid) (m : Mode) (rest : List Ev) (tw : Option Bid) : St :=
  { s with sh := { s.sh with q := rest, toWake := tw, cons := upd s.sh.cons a (s.sh.cons a + 1) }, ppc := .run m a, apc := upd s.apc a .r0 }

/-- dispatch of a Normal event: `continue_bottom` resumes the arm -/
theorem inv_dispatch_normal (s : St) (a : Aid) (m : Mode) (rest : List Ev) (tw : Option Bid) (h : Inv s)
    (hpend : pend s = .normal a :: rest)
    (hchk0 : ∀ b, checking s.ppc b = false) (hc60 : ∀ b, atC6 s.ppc b = false) (hadd0 : adding s.ppc = false) (ha20 : s.ppc ≠ .a2) :
    Inv (dispN s a m rest tw) := by
  unfold dispN
  obtain ⟨harm, hnd0, htot, ha1, hsp, hsp', hnew, hcnt0, hlate0, hend, hdc, hchk, hps, hnp, hpo, hok, hrun, hc6, hp1, hp2, hp3, hpb, hst, hunwp, hgone⟩ := h
  have hpend' : pend (dispN s a m rest tw) = rest := by simp [pend, held, dispN]
  unfold dispN at hpend'
  rw [hpend] at hnd0
  have hnot : Ev.normal a ∉ rest := (List.nodup_cons.mp hnd0).1
  have hrow := harm a
  simp only [ArmOk, hpend] at hrow
  -- the arm whose event is pending is suspended in `send`, its tail has pushed
  have hin : Ev.normal a ∈ Ev.normal a :: rest := by simp
  have hsusp : s.apc a = .susp ∧ tailPushed (s.tpc a) = true := by
    cases hpc : s.apc a <;> simp only [hpc, armOk] at hrow <;> grind
  have hlt : a < s.n := by
    rcases hsp a (by rw [hsusp.1]; simp) with h1 | ⟨_, h2⟩
    · omega
    · simp [hadd0] at h2
  have hC := cntOf_upd s.n counted s.apc a .r0 hlt
  rw [hsusp.1] at hC
  simp only [counted] at hC
  constructor
  case arm =>
    intro b
    by_cases hb : b = a
    · subst hb
      simp only [ArmOk, hpend', upd, if_true]
      simp only [hsusp.1, armOk, List.mem_cons, true_or, Ev.normal.injEq, reduceCtorEq, false_or, hsusp.2] at hrow
      simp only [armOk, pushedDone, dying] at hrow ⊢
      grind
    · apply ArmOk_congr s _ b (harm b) <;> simp [upd, hb, hpend', hpend, Ne.symm hb]
  case nodup => rw [hpend']; exact (List.nodup_cons.mp hnd0).2
  case tot => exact htot
  case a1lt => intro hh; simp [adding] at hh
  case spawned =>
    intro b hb
    by_cases hba : b = a
    · subst hba
      rcases hsp b (by rw [hsusp.1]; simp) with h1 | ⟨_, h2⟩
      · exact Or.inl h1
      · simp [hadd0] at h2
    · simp only [upd, hba, if_false] at hb
      rcases hsp b hb with h1 | ⟨_, h2⟩
      · exact Or.inl h1
      · simp [hadd0] at h2
  case spawned' =>
    intro b hb
    by_cases hba : b = a
    · subst hba; simp [upd]
    · simpa [upd, hba] using hsp' b hb
  case newArm => intro hh; simp [adding] at hh
  case cntEq => simp only [hcnt0, ha20, if_false]; simp at hC ⊢; omega
  case lateAll => intro hl; simp [allLate] at hl
  case endedAll => intro hl; simp [allEnded] at hl
  case dcons =>
    intro b hb
    rcases hdc b hb with h1 | h1
    · left
      have hba : b ≠ a := by intro hh; rw [hh, hsusp.1] at h1; cases h1
      simpa [upd, hba] using h1
    · rw [hchk0 b] at h1; cases h1
  case chk => intro b hb; simp [checking] at hb
  case panSeen =>
    intro b hb hob
    rcases hps b hb hob with h1 | h1 | h1
    · exact Or.inl h1
    · rw [hchk0 b] at h1; cases h1
    · rw [hc60 b] at h1; cases h1
  case noPinned => simp [pinnedOnly]
  case noPoison => exact hpo
  case okRet => intro b hb; simp [retOk] at hb
  case runOk =>
    intro b hb
    simp only [running, beq_iff_eq] at hb
    subst hb
    simp [upd]
  case c6ok => intro b hb; simp [atC6] at hb
  case panA1 => exact hp1
  case panA2 => exact hp2
  case panA3 => exact hp3
  case panB => exact hpb
  case storedOk => exact hst
  case unwPan => intro hh; simp [atUnw] at hh
  case goneOk => intro r hr; cases hr

/-- the state after the dispatch of a Done event -/
def dispD (s : St) (a : Aid) (m : Mode) (rest : List Ev) (tw : Option Bid) : St :=
  { s with sh := { s.sh with q := rest, toWake := tw, doneCons := upd s.sh.doneCons a true }, ppc := .c1 m a }

/-- dispatch of a Done event: `check_panic` starts -/
theorem inv_dispatch_done (s : St) (a : Aid) (m : Mode) (rest : List Ev) (tw : Option Bid) (h : Inv s)
    (hpend : pend s = .done a :: rest)
    (hchk0 : ∀ b, checking s.ppc b = false) (hc60 : ∀ b, atC6 s.ppc b = false) (hadd0 : adding s.ppc = false) (ha20 : s.ppc ≠ .a2) :
    Inv (dispD s a m rest tw) := by
  unfold dispD
  obtain ⟨harm, hnd0, htot, ha1, hsp, hsp', hnew, hcnt0, hlate0, hend, hdc, hchk, hps, hnp, hpo, hok, hrun, hc6, hp1, hp2, hp3, hpb, hst, hunwp, hgone⟩ := h
  have hpend' : pend (dispD s a m rest tw) = rest := by simp [pend, held, dispD]
  unfold dispD at hpend'
  rw [hpend] at hnd0
  have hnot : Ev.done a ∉ rest := (List.nodup_cons.mp hnd0).1
  have hrow := harm a
  simp only [ArmOk, hpend] at hrow
  have hin : Ev.done a ∈ Ev.done a :: rest := by simp
  constructor
  case arm =>
    intro b
    by_cases hb : b = a
    · subst hb
      simp only [ArmOk, hpend', upd, if_true]
      simp only [armOk, List.mem_cons, true_or, Ev.done.injEq, reduceCtorEq, false_or] at hrow ⊢
      grind
    · apply ArmOk_congr s _ b (harm b) <;> simp [upd, hb, hpend', hpend, Ne.symm hb]
  case nodup => rw [hpend']; exact (List.nodup_cons.mp hnd0).2
  case tot => exact htot
  case a1lt => intro hh; simp [adding] at hh
  case spawned =>
    intro b hb
    rcases hsp b hb with h1 | ⟨_, h2⟩
    · exact Or.inl h1
    · simp [hadd0] at h2
  case spawned' => exact hsp'
  case newArm => intro hh; simp [adding] at hh
  case cntEq => simp only [hcnt0, ha20, if_false]; simp
  case lateAll => intro hl; simp [allLate] at hl
  case endedAll => intro hl; simp [allEnded] at hl
  case dcons =>
    intro b hb
    by_cases hba : b = a
    · right; simp [checking, hba]
    · simp only [upd, hba, if_false] at hb
      rcases hdc b hb with h1 | h1
      · exact Or.inl h1
      · rw [hchk0 b] at h1; cases h1
  case chk =>
    intro b hb
    simp only [checking, beq_iff_eq] at hb
    simp [upd, hb]
  case panSeen =>
    intro b hb hob
    by_cases hba : b = a
    · right; left; simp [checking, hba]
    · simp only [upd, hba, if_false] at hb
      rcases hps b hb hob with h1 | h1 | h1
      · exact Or.inl h1
      · rw [hchk0 b] at h1; cases h1
      · rw [hc60 b] at h1; cases h1
  case noPinned => simp [pinnedOnly]
  case noPoison => exact hpo
  case okRet => intro b hb; simp [retOk] at hb
  case runOk => intro b hb; simp [running] at hb
  case c6ok => intro b hb; simp [atC6] at hb
  case panA1 => exact hp1
  case panA2 =>
    intro p hp
    have := hp2 p hp
    refine ⟨this.1, ?_, this.2.2⟩
    by_cases hpa : p = a
    · simp [upd, hpa]
    · simpa [upd, hpa] using this.2.1
  case panA3 => exact hp3
  case panB => exact hpb
  case storedOk => exact hst
  case unwPan => intro hh; simp [atUnw] at hh
  case goneOk => intro r hr; cases hr

end MayVerif.Cqueue
