/-
  `Inv` is an inductive invariant of the fixed cqueue model.
-/
import MayVerif.Proof.Cqueue.StepArm
import MayVerif.Proof.Cqueue.StepPoller
set_option linter.unusedSimpArgs false
namespace MayVerif.Cqueue

theorem inv_poller (s s' : St) (e : Env) (h : Inv s) (hs : step fixed s .poller e = some s') : Inv s' := by
  obtain ⟨sh', pc', u, hp, rfl⟩ := step_poller_eq s s' e hs
  clear hs
  show Inv (nextSt s sh' pc' u)
  generalize hppc : s.ppc = pc at hp
  cases pc
  case idle => exact inv_pp_idle s e h hppc sh' pc' u hp
  case a1 => exact inv_pp_a1 s e h hppc sh' pc' u hp
  case a2 => exact inv_pp_a2 s e h hppc sh' pc' u hp
  case a3 => exact inv_pp_a3 s e h hppc sh' pc' u hp
  case a4 => exact inv_pp_a4 s e h hppc sh' pc' u hp
  case a5 => exact inv_pp_a5 s e h hppc sh' pc' u hp
  case a6 => exact inv_pp_a6 s e h hppc sh' pc' u hp
  case p1 m => exact inv_pp_p1 s e m h hppc sh' pc' u hp
  case p2 m => exact inv_pp_p2 s e m h hppc sh' pc' u hp
  case p2b m => exact inv_pp_p2b s e m h hppc sh' pc' u hp
  case p3 m => exact inv_pp_p3 s e m h hppc sh' pc' u hp
  case p4 m b => exact inv_pp_p4 s e m b h hppc sh' pc' u hp
  case p4t m ev => exact inv_pp_p4t s e m ev h hppc sh' pc' u hp
  case p5 m b => exact inv_pp_p5 s e m b h hppc sh' pc' u hp
  case run m a => exact inv_pp_run s e m a h hppc sh' pc' u hp
  case c0 m a => exact inv_pp_c0 s e m a h hppc sh' pc' u hp
  case c1 m a => exact inv_pp_c1 s e m a h hppc sh' pc' u hp
  case c2 m a => exact inv_pp_c2 s e m a h hppc sh' pc' u hp
  case c3 m a => exact inv_pp_c3 s e m a h hppc sh' pc' u hp
  case c5 m a => exact inv_pp_c5 s e m a h hppc sh' pc' u hp
  case c6 m a => exact inv_pp_c6 s e m a h hppc sh' pc' u hp
  case c7 m a => exact inv_pp_c7 s e m a h hppc sh' pc' u hp
  case c8 m a => exact inv_pp_c8 s e m a h hppc sh' pc' u hp
  case cU m a => exact inv_pp_cU s e m a h hppc sh' pc' u hp
  case ret m r => exact inv_pp_ret s e m r h hppc sh' pc' u hp
  case unw a => exact inv_pp_unw s e a h hppc sh' pc' u hp
  case x1 => exact inv_pp_x1 s e h hppc sh' pc' u hp
  case x2 => exact inv_pp_x2 s e h hppc sh' pc' u hp
  case x2p => exact inv_pp_x2p s e h hppc sh' pc' u hp
  case x3 i => exact inv_pp_x3 s e i h hppc sh' pc' u hp
  case x4 i => exact inv_pp_x4 s e i h hppc sh' pc' u hp
  case x5 => exact inv_pp_x5 s e h hppc sh' pc' u hp
  case xEnd => exact inv_pp_xEnd s e h hppc sh' pc' u hp
  case gone r => simp [pstep] at hp

theorem inv_step (s s' : St) (who : Actor) (e : Env) (h : Inv s) (hs : step fixed s who e = some s') : Inv s' := by
  cases who
  · exact inv_poller s s' e h hs
  · exact inv_arm s s' _ e h hs
  · exact inv_remover s s' e h hs

theorem inv_init (n : Nat) : Inv (init n) := by
  have hc : cntOf n counted (fun _ => APc.idle) = 0 := by
    unfold cntOf
    apply List.countP_eq_zero.mpr
    intro x _; simp [counted]
  constructor
  case goneOk => intro r hr; cases hr
  all_goals simp [init, sh0, ArmOk, armOk, pend, held, adding, allLate, allEnded, checking, atC6, retOk, running, pinnedOnly, atUnw,
    wkOf, pushedDone, dying, hc]

theorem inv_run (s : St) (sched : List (Actor × Env)) (h : Inv s) : Inv (run fixed s sched) := by
  induction sched generalizing s with
  | nil => simpa [run]
  | cons te r ih =>
    obtain ⟨t, e⟩ := te
    simp only [run]
    split
    · next s' hs => exact ih _ (inv_step _ _ _ _ h hs)
    · exact ih _ h

theorem inv_reach (n : Nat) (sched : List (Actor × Env)) : Inv (run fixed (init n) sched) := inv_run _ _ (inv_init n)

end MayVerif.Cqueue
