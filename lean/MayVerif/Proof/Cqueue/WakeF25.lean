/-
  Helper for `sender_subscribe_terminates` (Props/C16): the reachable states of `Model/CqueueWake.lean` are a finite,
  step-closed list.
-/
import MayVerif.Model.CqueueWake
namespace MayVerif.CqueueWake

set_option maxRecDepth 100000 in
theorem reachable_closed : (reachable fixed).all (fun s => allActors.all fun a =>
    match step fixed s a with
    | some s' => (reachable fixed).contains s'
    | none => true) = true := by decide

set_option maxRecDepth 100000 in
theorem init_reachable : (reachable fixed).contains init = true := by decide

set_option maxRecDepth 100000 in
theorem reachable_not_stuck : (reachable fixed).all (fun s => !stuck fixed s) = true := by decide

theorem run_reachable (s : St) (sched : List Actor) (h : s ∈ reachable fixed) : run fixed s sched ∈ reachable fixed := by
  induction sched generalizing s with
  | nil => simpa [run]
  | cons a r ih =>
    simp only [run]
    split
    · next s' hs =>
      apply ih
      have hc := List.all_eq_true.mp reachable_closed s h
      have := List.all_eq_true.mp hc a (by cases a <;> simp [allActors])
      rw [hs] at this
      simpa using this
    · exact ih _ h

theorem init_mem : init ∈ reachable fixed := by
  have := init_reachable
  simpa using this

end MayVerif.CqueueWake
