/-
  Frame lemmas: what has to be shown about a single step to re-establish `Inv`.
-/
import MayVerif.Proof.Cqueue.Inv
namespace MayVerif.Cqueue

theorem pend_arm (s : St) (sh' : Sh) (apc' : Aid → APc) (tpc' : Aid → TPc) :
    pend { s with sh := sh', apc := apc', tpc := tpc' } = (held s.ppc).toList ++ sh'.q := rfl

/-- **arm frame**: a step of arm `a` that appends `add` (events of `a`) to the queue and changes only `a`'s own
    fields re-establishes the invariant if `a`'s table row holds afterwards. -/
theorem inv_arm_frame (s : St) (a : Aid) (sh' : Sh) (pc' : APc) (tp' : TPc) (add : List Ev) (h : Inv s) (hlt : a < s.n)
    (hq : sh'.q = s.sh.q ++ add) (hadd : ∀ ev, ev ∈ add → ev = .normal a ∨ ev = .done a)
    (htotal : sh'.total = s.sh.total)
    (hcnt : sh'.cnt + (if counted (s.apc a) then 1 else 0) = s.sh.cnt + (if counted pc' then 1 else 0))
    (hpoison : sh'.poison = s.sh.poison) (hisPan : sh'.isPan = s.sh.isPan) (hunw : sh'.unwinding = s.sh.unwinding)
    (hstored : sh'.stored = s.sh.stored) (hraised : sh'.raisedBy = s.sh.raisedBy) (hcaught : sh'.caught = s.sh.caught)
    (hdoneCons : sh'.doneCons = s.sh.doneCons) (hcons : sh'.cons = s.sh.cons)
    (hother : ∀ b, b ≠ a → sh'.tops b = s.sh.tops b ∧ sh'.sent b = s.sh.sent b ∧ sh'.botS b = s.sh.botS b ∧
        sh'.bots b = s.sh.bots b ∧ sh'.joined b = s.sh.joined b ∧ sh'.wk b = s.sh.wk b ∧ sh'.outcome b = s.sh.outcome b)
    (hrow : armOk pc' tp' (sh'.tops a) (sh'.sent a) (sh'.cons a) (sh'.botS a) (sh'.bots a)
        (Ev.normal a ∈ (held s.ppc).toList ++ sh'.q) (Ev.done a ∈ (held s.ppc).toList ++ sh'.q)
        (sh'.doneCons a) (sh'.joined a) (sh'.wk a) (sh'.outcome a))
    (hnd : ((held s.ppc).toList ++ sh'.q).Nodup)
    (hidle : pc' ≠ .idle) (hidle0 : s.apc a ≠ .idle)
    (hlate : late (s.apc a) = true → late pc' = true)
    (hended : s.apc a ≠ .ended)
    (hbot : (pc' = .r0 ∨ pc' = .b0 ∨ pc' = .bot) → (s.apc a = .r0 ∨ s.apc a = .b0 ∨ s.apc a = .bot))
    (hout : dying (s.apc a) = true → sh'.outcome a = s.sh.outcome a) :
    Inv { s with sh := sh', apc := upd s.apc a pc', tpc := upd s.tpc a tp' } := by
  obtain ⟨harm, hnd0, htot, ha1, hsp, hsp', hnew, hcnt0, hlate0, hend, hdc, hchk, hps, hnp, hpo, hok, hrun, hc6, hp1, hp2, hp3, hpb, hst, hunwp, hgone⟩ := h
  have hC := cntOf_upd s.n counted s.apc a pc' hlt
  have hrowa := harm a
  -- the arm is not ended, so nothing below is about an arm whose Done was joined
  have hdca : s.sh.doneCons a = true → checking s.ppc a = true := by
    intro hd; rcases hdc a hd with h1 | h1
    · exact absurd h1 hended
    · exact h1
  constructor
  case arm =>
    intro b
    by_cases hb : b = a
    · subst hb
      simpa [ArmOk, pend_arm, upd] using hrow
    · have hbb := harm b
      obtain ⟨o1, o2, o3, o4, o5, o6, o7⟩ := hother b hb
      have hn : Ev.normal b ∈ (held s.ppc).toList ++ sh'.q ↔ Ev.normal b ∈ pend s := by
        simp only [pend, hq, List.mem_append]
        constructor
        · rintro (h1 | h1 | h1)
          · exact Or.inl h1
          · exact Or.inr h1
          · rcases hadd _ h1 with h2 | h2
            · exact absurd (Ev.normal.inj h2) hb
            · exact absurd h2 (by simp)
        · rintro (h1 | h1)
          · exact Or.inl h1
          · exact Or.inr (Or.inl h1)
      have hd : Ev.done b ∈ (held s.ppc).toList ++ sh'.q ↔ Ev.done b ∈ pend s := by
        simp only [pend, hq, List.mem_append]
        constructor
        · rintro (h1 | h1 | h1)
          · exact Or.inl h1
          · exact Or.inr h1
          · rcases hadd _ h1 with h2 | h2
            · exact absurd h2 (by simp)
            · exact absurd (Ev.done.inj h2) hb
        · rintro (h1 | h1)
          · exact Or.inl h1
          · exact Or.inr (Or.inl h1)
      simp only [ArmOk, pend_arm, upd, hb, if_false, o1, o2, o3, o4, o5, o6, o7, hcons, hdoneCons, hn, hd]
      exact hbb
  case nodup => simpa [pend_arm] using hnd
  case tot => simpa [htotal] using htot
  case a1lt => simpa [htotal] using ha1
  case spawned =>
    intro b hb
    simp only [htotal]
    by_cases hba : b = a
    · subst hba; exact hsp b hidle0
    · simp only [upd, hba, if_false] at hb; exact hsp b hb
  case spawned' =>
    intro b hb
    simp only [htotal] at hb
    by_cases hba : b = a
    · subst hba; simpa [upd] using hidle
    · simpa [upd, hba] using hsp' b hb
  case newArm =>
    intro hadd'
    simp only [htotal]
    by_cases hba : s.sh.total = a
    · simpa [upd, hba] using hidle
    · simpa [upd, hba] using hnew hadd'
  case cntEq =>
    show sh'.cnt = (cntOf s.n counted (upd s.apc a pc') : Int) - (if s.ppc = .a2 then 1 else 0)
    have hC' : ((cntOf s.n counted (upd s.apc a pc') : Nat) : Int) + (if counted (s.apc a) = true then 1 else 0)
        = ((cntOf s.n counted s.apc : Nat) : Int) + (if counted pc' = true then 1 else 0) := by
      have := hC
      cases h1 : counted (s.apc a) <;> cases h2 : counted pc' <;> simp only [h1, h2, if_true, if_false, Bool.false_eq_true] at this ⊢ <;> omega
    rw [hcnt0] at hcnt
    omega
  case lateAll =>
    intro hl b hb
    simp only [htotal] at hb
    have := hlate0 hl b hb
    by_cases hba : b = a
    · subst hba; simpa [upd] using hlate this
    · simpa [upd, hba] using this
  case endedAll =>
    intro hl b hb
    simp only [htotal] at hb
    have := hend hl b hb
    by_cases hba : b = a
    · subst hba; exact absurd this.1 hended
    · simpa [upd, hba, hdoneCons] using this
  case dcons =>
    intro b hb
    simp only [hdoneCons] at hb
    by_cases hba : b = a
    · subst hba; exact Or.inr (hdca hb)
    · simpa [upd, hba] using hdc b hb
  case chk => intro b hb; simp only [hdoneCons]; exact hchk b hb
  case panSeen =>
    intro b hb hob
    simp only [hdoneCons] at hb
    simp only [hisPan]
    by_cases hba : b = a
    · subst hba; exact Or.inr (Or.inl (hdca hb))
    · rw [(hother b hba).2.2.2.2.2.2] at hob; exact hps b hb hob
  case noPinned => exact hnp
  case noPoison => simpa [hpoison] using hpo
  case okRet =>
    intro b hb
    have := hok b hb
    simp only [hcons]
    by_cases hba : b = a
    · subst hba
      simp only [upd, if_true]
      refine ⟨hidle, ?_, ?_, ?_, this.2.2.2.2⟩
      · intro h1; rcases hbot (Or.inl h1) with h2 | h2 | h2
        · exact this.2.1 h2
        · exact this.2.2.1 h2
        · exact this.2.2.2.1 h2
      · intro h1; rcases hbot (Or.inr (Or.inl h1)) with h2 | h2 | h2
        · exact this.2.1 h2
        · exact this.2.2.1 h2
        · exact this.2.2.2.1 h2
      · intro h1; rcases hbot (Or.inr (Or.inr h1)) with h2 | h2 | h2
        · exact this.2.1 h2
        · exact this.2.2.1 h2
        · exact this.2.2.2.1 h2
    · simpa [upd, hba] using this
  case runOk => intro b hb; simpa [hcons] using hrun b hb
  case c6ok =>
    intro b hb
    have := hc6 b hb
    by_cases hba : b = a
    · subst hba; exact absurd this.2.2.1 hended
    · simpa [upd, hba, hisPan, hdoneCons, (hother b hba).2.2.2.2.2.2] using this
  case panA1 => simpa [hisPan, hraised] using hp1
  case panA2 =>
    intro p hp
    simp only [hraised] at hp
    have := hp2 p hp
    simp only [hisPan, hdoneCons]
    by_cases hpa : p = a
    · subst hpa
      have hdy : dying (s.apc p) = true := by
        have := hrowa
        simp only [ArmOk, armOk] at this
        have hpd := this.2.2.2.1 (by simpa using (hp2 p hp).2.1)
        revert hpd; cases s.apc p <;> simp [pushedDone, dying]
      rw [hout hdy]; exact this
    · rw [(hother p hpa).2.2.2.2.2.2]; exact this
  case panA3 => simpa [hisPan, hunw, hstored, hraised, hcaught] using hp3
  case panB => simpa [hisPan, hunw, hstored, hraised, hcaught] using hpb
  case storedOk => simpa [hstored, hraised] using hst
  case unwPan => simpa [hisPan] using hunwp
  case goneOk => intro r hr; simpa [hraised, hisPan, hcaught] using hgone r hr

/-- **poller frame**: a poller step that leaves the arms, the pending events and the per-arm fields alone -/
theorem inv_poller_frame (s : St) (sh' : Sh) (pc' : PPc) (h : Inv s)
    (hpend : (held pc').toList ++ sh'.q = pend s)
    (htotal : sh'.total = s.sh.total) (hcnt : sh'.cnt = s.sh.cnt) (hpoison : sh'.poison = s.sh.poison)
    (hdoneCons : sh'.doneCons = s.sh.doneCons) (hcons : sh'.cons = s.sh.cons) (htops : sh'.tops = s.sh.tops)
    (hsent : sh'.sent = s.sh.sent) (hbotS : sh'.botS = s.sh.botS) (hbots : sh'.bots = s.sh.bots)
    (hjoined : sh'.joined = s.sh.joined) (hwk : sh'.wk = s.sh.wk) (houtcome : sh'.outcome = s.sh.outcome)
    (o_a1 : (pc' = .a1 ∨ adding pc' = true) → s.sh.total < s.n)
    (o_add : adding pc' = adding s.ppc)
    (o_a2 : (pc' = .a2) ↔ (s.ppc = .a2))
    (o_late : allLate pc' = true → ∀ a, a < s.sh.total → late (s.apc a) = true)
    (o_ended : allEnded pc' = true → ∀ a, a < s.sh.total → s.apc a = .ended ∧ s.sh.doneCons a = true)
    (o_dc : ∀ a, s.sh.doneCons a = true → s.apc a = .ended ∨ checking pc' a = true)
    (o_chk : ∀ a, checking pc' a = true → s.sh.doneCons a = true)
    (o_ps : ∀ a, s.sh.doneCons a = true → s.sh.outcome a = .panicked → sh'.isPan = true ∨ checking pc' a = true ∨ atC6 pc' a = true)
    (o_np : pinnedOnly pc' = false)
    (o_ok : ∀ a, retOk pc' a = true → s.apc a ≠ .idle ∧ s.apc a ≠ .r0 ∧ s.apc a ≠ .b0 ∧ s.apc a ≠ .bot ∧ 1 ≤ s.sh.cons a)
    (o_run : ∀ a, running pc' a = true → 1 ≤ s.sh.cons a)
    (o_c6 : ∀ a, atC6 pc' a = true → s.sh.outcome a = .panicked ∧ sh'.isPan = false ∧ s.apc a = .ended ∧ s.sh.doneCons a = true)
    (p1 : sh'.isPan = true → sh'.raisedBy ≠ none)
    (p2 : ∀ p, sh'.raisedBy = some p → s.sh.outcome p = .panicked ∧ s.sh.doneCons p = true ∧ sh'.isPan = true)
    (p3 : sh'.isPan = true → sh'.unwinding = true ∨ sh'.stored = sh'.raisedBy ∨ sh'.caught = true)
    (pb : sh'.isPan = false → sh'.unwinding = false ∧ sh'.stored = none ∧ sh'.caught = false ∧ sh'.raisedBy = none)
    (pst : sh'.stored ≠ none → sh'.stored = sh'.raisedBy)
    (o_unw : atUnw pc' = true → sh'.isPan = true)
    (o_gone : ∀ r, pc' = .gone r → (∀ p, r = .unwound p → sh'.raisedBy = some p) ∧ (r = .normal → sh'.isPan = true → sh'.caught = true)) :
    Inv { s with sh := sh', ppc := pc' } := by
  obtain ⟨harm, hnd0, htot, ha1, hsp, hsp', hnew, hcnt0, hlate0, hend, hdc, hchk, hps, hnp, hpo, hok, hrun, hc6, hp1, hp2, hp3, hpb, hst, hunwp, hgone⟩ := h
  have hpend' : pend { s with sh := sh', ppc := pc' } = pend s := hpend
  constructor
  case arm =>
    intro a
    have := harm a
    simp only [ArmOk, hpend', htops, hsent, hcons, hbotS, hbots, hdoneCons, hjoined, hwk, houtcome] at this ⊢
    exact this
  case nodup => rw [hpend']; exact hnd0
  case tot => simpa [htotal] using htot
  case a1lt => simpa [htotal] using o_a1
  case spawned => intro a ha; simp only [htotal, o_add]; exact hsp a ha
  case spawned' => intro a ha; simp only [htotal] at ha; exact hsp' a ha
  case newArm => intro ha; simp only [htotal]; simp only [o_add] at ha; exact hnew ha
  case cntEq =>
    simp only [hcnt, hcnt0]
    by_cases h2 : s.ppc = .a2
    · simp [h2, o_a2.mpr h2]
    · have : pc' ≠ .a2 := fun hh => h2 (o_a2.mp hh)
      simp [h2, this]
  case lateAll => intro hl a ha; simp only [htotal] at ha; exact o_late hl a ha
  case endedAll => intro hl a ha; simp only [htotal] at ha; simpa [hdoneCons] using o_ended hl a ha
  case dcons => intro a ha; simp only [hdoneCons] at ha; exact o_dc a ha
  case chk => intro a ha; simp only [hdoneCons]; exact o_chk a ha
  case panSeen => intro a ha hb; simp only [hdoneCons] at ha; simp only [houtcome] at hb; exact o_ps a ha hb
  case noPinned => exact o_np
  case noPoison => simpa [hpoison] using hpo
  case okRet => intro a ha; simpa [hcons] using o_ok a ha
  case runOk => intro a ha; simpa [hcons] using o_run a ha
  case c6ok => intro a ha; simpa [houtcome, hdoneCons] using o_c6 a ha
  case panA1 => exact p1
  case panA2 => intro p hp; simpa [houtcome, hdoneCons] using p2 p hp
  case panA3 => exact p3
  case panB => exact pb
  case storedOk => exact pst
  case unwPan => exact o_unw
  case goneOk => exact o_gone

end MayVerif.Cqueue
