/-
  Invariant of the cqueue model in its `fixed` configuration (helper definitions and lemmas for Props/C16).
-/
import MayVerif.Model.Cqueue
namespace MayVerif.Cqueue

/-! ### counting arms -/

def cntOf (n : Nat) (p : APc → Bool) (f : Aid → APc) : Nat := (List.range n).countP (fun u => p (f u))

theorem cntOf_upd (n : Nat) (p : APc → Bool) (f : Aid → APc) (t : Nat) (v : APc) (ht : t < n) :
    cntOf n p (upd f t v) + (if p (f t) then 1 else 0) = cntOf n p f + (if p v then 1 else 0) := by
  unfold cntOf
  induction n with
  | zero => omega
  | succ k ih =>
    simp only [List.range_succ, List.countP_append, List.countP_cons, List.countP_nil]
    by_cases hk : t = k
    · subst hk
      have : List.countP (fun u => p (upd f t v u)) (List.range t) = List.countP (fun u => p (f u)) (List.range t) := by
        apply List.countP_congr
        intro x hx
        have : x < t := List.mem_range.mp hx
        have : x ≠ t := by omega
        simp [upd, this]
      rw [this]; simp [upd]; split <;> split <;> omega
    · have := ih (by omega)
      have h2 : upd f t v k = f k := by simp [upd]; intro h; omega
      rw [h2]; omega

theorem cntOf_zero (n : Nat) (p : APc → Bool) (f : Aid → APc) (h : cntOf n p f = 0) (u : Nat) (hu : u < n) : p (f u) = false := by
  unfold cntOf at h
  have := List.countP_eq_zero.mp h u (List.mem_range.mpr hu)
  simpa using this

/-! ### pc predicates -/

/-- the arm still counts in `cnt` -/
@[grind] def counted : APc → Bool
  | .idle | .d3 | .ended => false
  | _ => true
/-- past its `cnt -= 1` -/
@[grind] def late : APc → Bool
  | .d3 | .ended => true
  | _ => false
@[grind] def pushedDone : APc → Bool
  | .d2 | .d3 | .ended => true
  | _ => false
@[grind] def dying : APc → Bool
  | .d0 | .d1 | .d2 | .d3 | .ended => true
  | _ => false
/-- the kernel tail has pushed its event -/
@[grind] def tailPushed : TPc → Bool
  | .k3 | .k4 | .idle => true
  | _ => false
@[grind] def wkOf : TPc → Bool
  | .k1 | .k2 | .k3 | .k4 => true
  | _ => false

/-- the poller is inside `check_panic` for arm `a`, before the join has returned -/
@[grind] def checking : PPc → Aid → Bool
  | .c1 _ b, a | .c2 _ b, a | .c3 _ b, a | .c5 _ b, a => a == b
  | _, _ => false
@[grind] def atC6 : PPc → Aid → Bool
  | .c6 _ b, a => a == b
  | _, _ => false
/-- every arm is past its `cnt -= 1` while the poller is here -/
@[grind] def allLate : PPc → Bool
  | .p2b _ | .ret _ .finished | .xEnd | .gone _ => true
  | _ => false
@[grind] def allEnded : PPc → Bool
  | .ret _ .finished | .xEnd | .gone _ => true
  | _ => false
@[grind] def adding : PPc → Bool
  | .a2 | .a3 => true
  | _ => false
/-- pcs that exist only in the pinned configuration -/
@[grind] def pinnedOnly : PPc → Bool
  | .c0 .. | .c7 .. | .c8 .. | .cU .. | .x2p | .gone .aborted | .gone .poisonPanic => true
  | _ => false
@[grind] def retOk : PPc → Aid → Bool
  | .ret _ (.ok b), a => a == b
  | _, _ => false
@[grind] def atUnw : PPc → Bool
  | .unw _ => true
  | _ => false
@[grind] def running : PPc → Aid → Bool
  | .run _ b, a => a == b
  | _, _ => false

/-- the per-arm table: pc × tail pc × counters × queue membership -/
def armOk (pc : APc) (tp : TPc) (d s c S B : Nat) (nIn dIn : Prop) (dCons jn wk : Bool) (oc : Outcome) : Prop :=
  wk = wkOf tp ∧ jn = (pc == .ended) ∧
  (dIn → pushedDone pc = true ∧ dCons = false) ∧ (dCons = true → pushedDone pc = true) ∧
  (pushedDone pc = true → dIn ∨ dCons = true) ∧
  (oc = .running ↔ dying pc = false) ∧
  (match pc with
  | .idle => tp = .idle ∧ d = 0 ∧ s = 0 ∧ c = 0 ∧ S = 0 ∧ B = 0 ∧ ¬ nIn
  | .top => tp = .idle ∧ d = s ∧ s = c ∧ c = S ∧ S = B ∧ ¬ nIn
  | .s1 | .s2 => tp = .idle ∧ d = s + 1 ∧ s = c ∧ c = S ∧ S = B ∧ ¬ nIn
  | .s3 => False
  | .susp => (tailPushed tp = false → d = s + 1 ∧ s = c ∧ c = S ∧ S = B ∧ ¬ nIn) ∧
             (tailPushed tp = true → d = s ∧ s = c + 1 ∧ c = S ∧ S = B ∧ nIn)
  | .r0 => tailPushed tp = true ∧ d = s ∧ s = c ∧ c = S + 1 ∧ S = B ∧ ¬ nIn
  | .b0 => tp = .idle ∧ d = s ∧ s = c ∧ c = S + 1 ∧ S = B ∧ ¬ nIn
  | .bot => tp = .idle ∧ d = s ∧ s = c ∧ c = S ∧ S = B + 1 ∧ ¬ nIn
  | .d0 | .d1 | .d2 | .d3 | .ended =>
      tp = .idle ∧ s ≤ d ∧ d ≤ s + 1 ∧ s = c ∧ c = S ∧ B ≤ S ∧ S ≤ B + 1 ∧ ¬ nIn ∧ (S = B + 1 → oc = .panicked))

/-- the event the poller has popped (re-pop after registering) but not dispatched yet -/
@[grind] def held : PPc → Option Ev
  | .p4t _ ev => some ev
  | _ => none
/-- events that are sent and not yet dispatched -/
def pend (s : St) : List Ev := (held s.ppc).toList ++ s.sh.q

def ArmOk (s : St) (a : Aid) : Prop :=
  armOk (s.apc a) (s.tpc a) (s.sh.tops a) (s.sh.sent a) (s.sh.cons a) (s.sh.botS a) (s.sh.bots a)
    (Ev.normal a ∈ pend s) (Ev.done a ∈ pend s) (s.sh.doneCons a) (s.sh.joined a) (s.sh.wk a) (s.sh.outcome a)

structure Inv (s : St) : Prop where
  arm : ∀ a, ArmOk s a
  nodup : (pend s).Nodup
  tot : s.sh.total ≤ s.n
  a1lt : (s.ppc = .a1 ∨ adding s.ppc = true) → s.sh.total < s.n
  spawned : ∀ a, s.apc a ≠ .idle → a < s.sh.total ∨ (a = s.sh.total ∧ adding s.ppc = true)
  spawned' : ∀ a, a < s.sh.total → s.apc a ≠ .idle
  newArm : adding s.ppc = true → s.apc s.sh.total ≠ .idle
  cntEq : s.sh.cnt = (cntOf s.n counted s.apc : Int) - (if s.ppc = .a2 then 1 else 0)
  lateAll : allLate s.ppc = true → ∀ a, a < s.sh.total → late (s.apc a) = true
  endedAll : allEnded s.ppc = true → ∀ a, a < s.sh.total → s.apc a = .ended ∧ s.sh.doneCons a = true
  dcons : ∀ a, s.sh.doneCons a = true → s.apc a = .ended ∨ checking s.ppc a = true
  chk : ∀ a, checking s.ppc a = true → s.sh.doneCons a = true
  panSeen : ∀ a, s.sh.doneCons a = true → s.sh.outcome a = .panicked →
              s.sh.isPan = true ∨ checking s.ppc a = true ∨ atC6 s.ppc a = true
  noPinned : pinnedOnly s.ppc = false
  noPoison : s.sh.poison = false
  okRet : ∀ a, retOk s.ppc a = true → s.apc a ≠ .idle ∧ s.apc a ≠ .r0 ∧ s.apc a ≠ .b0 ∧ s.apc a ≠ .bot ∧ 1 ≤ s.sh.cons a
  runOk : ∀ a, running s.ppc a = true → 1 ≤ s.sh.cons a
  c6ok : ∀ a, atC6 s.ppc a = true → s.sh.outcome a = .panicked ∧ s.sh.isPan = false ∧ s.apc a = .ended ∧ s.sh.doneCons a = true
  panA1 : s.sh.isPan = true → s.sh.raisedBy ≠ none
  panA2 : ∀ p, s.sh.raisedBy = some p → s.sh.outcome p = .panicked ∧ s.sh.doneCons p = true ∧ s.sh.isPan = true
  panA3 : s.sh.isPan = true → s.sh.unwinding = true ∨ s.sh.stored = s.sh.raisedBy ∨ s.sh.caught = true
  panB : s.sh.isPan = false → s.sh.unwinding = false ∧ s.sh.stored = none ∧ s.sh.caught = false ∧ s.sh.raisedBy = none
  storedOk : s.sh.stored ≠ none → s.sh.stored = s.sh.raisedBy
  unwPan : atUnw s.ppc = true → s.sh.isPan = true
  goneOk : ∀ r, s.ppc = .gone r → (∀ p, r = .unwound p → s.sh.raisedBy = some p) ∧ (r = .normal → s.sh.isPan = true → s.sh.caught = true)

/-! ### `wake` touches only `toWake` and `tok` -/
section
variable (sh : Sh)
@[simp] theorem wake_q : (wake sh).q = sh.q := by unfold wake; split <;> rfl
@[simp] theorem wake_cnt : (wake sh).cnt = sh.cnt := by unfold wake; split <;> rfl
@[simp] theorem wake_total : (wake sh).total = sh.total := by unfold wake; split <;> rfl
@[simp] theorem wake_poison : (wake sh).poison = sh.poison := by unfold wake; split <;> rfl
@[simp] theorem wake_isPan : (wake sh).isPan = sh.isPan := by unfold wake; split <;> rfl
@[simp] theorem wake_wk : (wake sh).wk = sh.wk := by unfold wake; split <;> rfl
@[simp] theorem wake_joined : (wake sh).joined = sh.joined := by unfold wake; split <;> rfl
@[simp] theorem wake_outcome : (wake sh).outcome = sh.outcome := by unfold wake; split <;> rfl
@[simp] theorem wake_unwinding : (wake sh).unwinding = sh.unwinding := by unfold wake; split <;> rfl
@[simp] theorem wake_stored : (wake sh).stored = sh.stored := by unfold wake; split <;> rfl
@[simp] theorem wake_tops : (wake sh).tops = sh.tops := by unfold wake; split <;> rfl
@[simp] theorem wake_sent : (wake sh).sent = sh.sent := by unfold wake; split <;> rfl
@[simp] theorem wake_cons : (wake sh).cons = sh.cons := by unfold wake; split <;> rfl
@[simp] theorem wake_botS : (wake sh).botS = sh.botS := by unfold wake; split <;> rfl
@[simp] theorem wake_bots : (wake sh).bots = sh.bots := by unfold wake; split <;> rfl
@[simp] theorem wake_doneCons : (wake sh).doneCons = sh.doneCons := by unfold wake; split <;> rfl
@[simp] theorem wake_raisedBy : (wake sh).raisedBy = sh.raisedBy := by unfold wake; split <;> rfl
@[simp] theorem wake_caught : (wake sh).caught = sh.caught := by unfold wake; split <;> rfl
@[simp] theorem wake_cancel : (wake sh).cancel = sh.cancel := by unfold wake; split <;> rfl
@[simp] theorem wake_handle : (wake sh).handle = sh.handle := by unfold wake; split <;> rfl
end

end MayVerif.Cqueue
