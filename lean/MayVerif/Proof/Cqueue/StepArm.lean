/-
  Steps of an arm (and of its kernel tail) preserve the invariant.
-/
import MayVerif.Proof.Cqueue.Frame
namespace MayVerif.Cqueue

theorem step_arm_eq (s s' : St) (a : Aid) (e : Env) (hs : step fixed s (.arm a) e = some s') :
    a < s.n ∧ ∃ sup sh' pc' tp', astep fixed sup s.sh a (s.apc a) (s.tpc a) e = some (sh', pc', tp') ∧
      s' = { s with sh := sh', apc := upd s.apc a pc', tpc := upd s.tpc a tp' } := by
  unfold step at hs
  split at hs
  · contradiction
  · simp only at hs
    split at hs
    · next hlt =>
      split at hs
      · next sh' pc' tp' heq =>
        simp only [Option.some.injEq] at hs
        exact ⟨hlt, _, sh', pc', tp', heq, hs.symm⟩
      · contradiction
    · contradiction

theorem nodup_push (l q : List Ev) (x : Ev) (h : (l ++ q).Nodup) (hx : x ∉ l ++ q) : (l ++ (q ++ [x])).Nodup := by
  rw [← List.append_assoc]
  apply List.nodup_append.mpr
  refine ⟨h, by simp, ?_⟩
  intro y hy z hz
  simp only [List.mem_singleton] at hz
  subst hz
  intro hyz; subst hyz; exact hx hy

set_option hygiene false in
/-- discharge the hypotheses of `inv_arm_frame` for a concrete step (context: `ha` = old table row of `a`, unfolded) -/
macro "arm_case" add:term : tactic => `(tactic| (
  apply inv_arm_frame s a _ _ _ $add h hlt
  case hq => first | rfl | simp
  case hadd => intro ev hev; first | (cases hev; done) | (have hev' := List.mem_singleton.mp hev; subst hev'; simp)
  case hother => intro b hb; first | (simp [upd, hb]; done) | (refine ⟨?_, ?_, ?_, ?_, ?_, ?_, ?_⟩ <;> first | rfl | simp [upd, hb])
  case hrow =>
    simp only [armOk, upd, if_true, pend, List.mem_append, List.mem_singleton, List.mem_nil_iff, or_false, reduceCtorEq,
      Ev.normal.injEq, Ev.done.injEq, wake_q, wake_wk, wake_joined, wake_outcome, wake_tops, wake_sent, wake_cons, wake_botS,
      wake_bots, wake_doneCons, wkOf, tailPushed, pushedDone, dying, hpc, htp] at ha ⊢
    grind
  case hnd =>
    first
      | exact h.nodup
      | (simp only [wake_q, List.append_nil]; exact h.nodup)
      | (simp only [wake_q]; apply nodup_push _ _ _ h.nodup
         simp only [armOk, pend, List.mem_append, hpc, htp] at ha ⊢
         grind)
  all_goals (first | rfl | (simp [hpc, htp, counted, late, dying] ; done) | (simp [hpc, htp, counted, late, dying]; omega) | grind)))

theorem astep_main (cfg : Cfg) (sup : Bool) (sh : Sh) (a : Aid) (pc : APc) (tp : TPc) (e : Env) (sh' : Sh) (pc' : APc) (tp' : TPc)
    (he : e ≠ .tail) (h : astep cfg sup sh a pc tp e = some (sh', pc', tp')) :
    ∃ otp, mstep cfg sup sh a pc e = some (sh', pc', otp) ∧ tp' = otp.getD tp := by
  unfold astep at h
  simp only [he, if_false] at h
  split at h
  · simp only [Option.some.injEq, Prod.mk.injEq] at h
    obtain ⟨rfl, rfl, rfl⟩ := h
    exact ⟨_, by assumption, rfl⟩
  · simp only [Option.some.injEq, Prod.mk.injEq] at h
    obtain ⟨rfl, rfl, rfl⟩ := h
    exact ⟨_, by assumption, rfl⟩
  · contradiction

theorem astep_tail (cfg : Cfg) (sup : Bool) (sh : Sh) (a : Aid) (pc : APc) (tp : TPc) (sh' : Sh) (pc' : APc) (tp' : TPc)
    (h : astep cfg sup sh a pc tp .tail = some (sh', pc', tp')) : kstep cfg sh a tp = some (sh', tp') ∧ pc' = pc := by
  unfold astep at h
  simp only [if_true] at h
  split at h
  · simp only [Option.some.injEq, Prod.mk.injEq] at h
    obtain ⟨rfl, rfl, rfl⟩ := h
    exact ⟨by assumption, rfl⟩
  · contradiction

theorem inv_arm (s s' : St) (a : Aid) (e : Env) (h : Inv s) (hs : step fixed s (.arm a) e = some s') : Inv s' := by
  obtain ⟨hlt, sup, sh', pc', tp', hts, rfl⟩ := step_arm_eq s s' a e hs
  clear hs
  have ha := h.arm a
  simp only [ArmOk] at ha
  generalize hpc : s.apc a = pc at hts ha
  generalize htp : s.tpc a = tp at hts ha
  by_cases het : e = .tail
  · -- the kernel tail
    subst het
    obtain ⟨hk, rfl⟩ := astep_tail _ _ _ _ _ _ _ _ _ hts
    clear hts
    cases tp <;> simp only [kstep, fixed] at hk <;> (try contradiction) <;>
      (simp only [Option.some.injEq, Prod.mk.injEq, if_true] at hk; obtain ⟨rfl, rfl⟩ := hk) <;>
      cases pc' <;> (first | (exfalso; simp [armOk, tailPushed, wkOf] at ha; done) | skip)
    case k2.susp => arm_case [Ev.normal a]
    all_goals arm_case []
  · -- the arm itself
    obtain ⟨otp, hm, rfl⟩ := astep_main _ _ _ _ _ _ _ _ _ _ het hts
    clear hts
    cases pc <;> simp only [mstep, fixed, ↓reduceIte, Bool.true_and] at hm <;> (try contradiction)
    case top =>
      cases tp <;> (first | (exfalso; simp [armOk] at ha; done) | skip)
      cases e <;> simp only at hm <;> (try contradiction)
      all_goals (try (split at hm <;> (try contradiction)))
      all_goals (simp only [Option.some.injEq, Prod.mk.injEq] at hm; obtain ⟨rfl, rfl, rfl⟩ := hm; simp only [Option.getD])
      all_goals arm_case []
    case bot =>
      cases tp <;> (first | (exfalso; simp [armOk] at ha; done) | skip)
      cases e <;> simp only at hm <;> (try contradiction)
      all_goals (simp only [Option.some.injEq, Prod.mk.injEq] at hm; obtain ⟨rfl, rfl, rfl⟩ := hm; simp only [Option.getD])
      all_goals arm_case []
    case d1 =>
      cases tp <;> (first | (exfalso; simp [armOk] at ha; done) | skip)
      simp only [Option.some.injEq, Prod.mk.injEq] at hm; obtain ⟨rfl, rfl, rfl⟩ := hm; simp only [Option.getD]
      arm_case [Ev.done a]
    all_goals (
      cases tp <;> (first | (exfalso; simp [armOk, tailPushed] at ha; done) | skip)
      all_goals (try (split at hm))
      all_goals (simp only [Option.some.injEq, Prod.mk.injEq] at hm; obtain ⟨rfl, rfl, rfl⟩ := hm; simp only [Option.getD])
      all_goals arm_case [])

end MayVerif.Cqueue
