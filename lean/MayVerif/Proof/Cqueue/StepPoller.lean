/-
  Steps of the poller (and of the remover) preserve the invariant.
-/
import MayVerif.Proof.Cqueue.Special
set_option linter.unusedSimpArgs false
set_option linter.unusedVariables false
namespace MayVerif.Cqueue

theorem step_poller_eq (s s' : St) (e : Env) (hs : step fixed s .poller e = some s') :
    ∃ sh' pc' u, pstep fixed s.n s.sh s.apc s.tpc s.ppc e = some (sh', pc', u) ∧
      s' = (match u with
            | none => { s with sh := sh', ppc := pc' }
            | some (a, apc') => { s with sh := sh', ppc := pc', apc := upd s.apc a apc' }) := by
  unfold step at hs
  split at hs
  · contradiction
  · simp only at hs
    split at hs
    · next sh' pc' heq => simp only [Option.some.injEq] at hs; exact ⟨sh', pc', none, heq, hs.symm⟩
    · next sh' pc' a apc' heq => simp only [Option.some.injEq] at hs; exact ⟨sh', pc', some (a, apc'), heq, hs.symm⟩
    · contradiction

theorem inv_remover (s s' : St) (e : Env) (h : Inv s) (hs : step fixed s .remover e = some s') : Inv s' := by
  unfold step at hs
  split at hs
  · contradiction
  · simp only at hs
    split at hs
    · next sh' pc' heq =>
      simp only [Option.some.injEq] at hs
      subst hs
      have hsh : sh' = s.sh ∨ ∃ a, sh' = { s.sh with cancel := upd s.sh.cancel a true } := by
        unfold rstep at heq
        split at heq
        · split at heq
          · split at heq
            · simp only [Option.some.injEq, Prod.mk.injEq] at heq; exact Or.inl heq.1.symm
            · contradiction
          · contradiction
        · simp only [Option.some.injEq, Prod.mk.injEq] at heq; exact Or.inr ⟨_, heq.1.symm⟩
        · simp only [Option.some.injEq, Prod.mk.injEq] at heq; exact Or.inl heq.1.symm
      rcases hsh with rfl | ⟨a, rfl⟩
      · exact ⟨h.arm, h.nodup, h.tot, h.a1lt, h.spawned, h.spawned', h.newArm, h.cntEq, h.lateAll, h.endedAll, h.dcons, h.chk, h.panSeen,
          h.noPinned, h.noPoison, h.okRet, h.runOk, h.c6ok, h.panA1, h.panA2, h.panA3, h.panB, h.storedOk, h.unwPan, h.goneOk⟩
      · exact ⟨h.arm, h.nodup, h.tot, h.a1lt, h.spawned, h.spawned', h.newArm, h.cntEq, h.lateAll, h.endedAll, h.dcons, h.chk, h.panSeen,
          h.noPinned, h.noPoison, h.okRet, h.runOk, h.c6ok, h.panA1, h.panA2, h.panA3, h.panB, h.storedOk, h.unwPan, h.goneOk⟩
    · contradiction

set_option hygiene false in
/-- a poller step that only moves the poller (and touches fields the invariant does not mention) -/
macro "pol_frame" : tactic => `(tactic| (
  apply inv_poller_frame s _ _ h
  case hpend => simp [pend, hppc, held]
  all_goals (first
    | rfl
    | (simp [hppc, allLate, allEnded, adding, pinnedOnly, checking, atC6, retOk, running, atUnw]; done)
    | (have hl := h.lateAll; have he := h.endedAll; have hd := h.dcons; have hchk := h.chk; have hps := h.panSeen; have hok := h.okRet;
       have hrun := h.runOk; have hc6 := h.c6ok; have hp1 := h.panA1; have hp2 := h.panA2; have hp3 := h.panA3;
       have hpb := h.panB; have hst := h.storedOk; have ha1 := h.a1lt; have hpo := h.noPoison; have hnp := h.noPinned; have hunwp := h.unwPan; have hgone := h.goneOk;
       simp only [hppc] at hl he hd hchk hps hok hrun hc6 ha1 hnp hunwp hgone;
       grind))))

set_option hygiene false in
/-- finish a case: `hp` is `some (sh, pc, u) = some (sh', pc', u')` -/
macro "pol_inj" : tactic => `(tactic| (simp only [Option.some.injEq, Prod.mk.injEq] at hp; obtain ⟨rfl, rfl, rfl⟩ := hp))

set_option hygiene false in
/-- the remaining obligations of `inv_poller_frame` -/
macro "pol_rest" : tactic => `(tactic| (
  all_goals (first
    | rfl
    | (simp [hppc, allLate, allEnded, adding, pinnedOnly, checking, atC6, retOk, running, atUnw]; done)
    | (have hl := h.lateAll; have he := h.endedAll; have hd := h.dcons; have hchk := h.chk; have hps := h.panSeen; have hok := h.okRet;
       have hrun := h.runOk; have hc6 := h.c6ok; have hp1 := h.panA1; have hp2 := h.panA2; have hp3 := h.panA3;
       have hpb := h.panB; have hst := h.storedOk; have ha1 := h.a1lt; have hpo := h.noPoison; have hnp := h.noPinned; have hunwp := h.unwPan; have hgone := h.goneOk;
       simp only [hppc] at hl he hd hchk hps hok hrun hc6 ha1 hnp hunwp hgone;
       grind))))

/-- the successor state of a poller step -/
def nextSt (s : St) (sh' : Sh) (pc' : PPc) (u : Option (Aid × APc)) : St :=
  match u with
  | none => { s with sh := sh', ppc := pc' }
  | some (a, apc') => { s with sh := sh', ppc := pc', apc := upd s.apc a apc' }

theorem inv_pp_idle (s : St) (e : Env)  (h : Inv s) (hppc : s.ppc = .idle) (sh' : Sh) (pc' : PPc) (u : Option (Aid × APc))
    (hp : pstep fixed s.n s.sh s.apc s.tpc .idle e = some (sh', pc', u)) : Inv (nextSt s sh' pc' u) := by
  unfold nextSt
  simp only [pstep, fixed, ↓reduceIte, Bool.true_and] at hp
  cases e <;> simp only at hp <;> (try contradiction)
  · split at hp
    · pol_inj; pol_frame
    · contradiction
  · pol_inj; pol_frame
  · pol_inj; pol_frame

theorem inv_pp_a1 (s : St) (e : Env)  (h : Inv s) (hppc : s.ppc = .a1) (sh' : Sh) (pc' : PPc) (u : Option (Aid × APc))
    (hp : pstep fixed s.n s.sh s.apc s.tpc .a1 e = some (sh', pc', u)) : Inv (nextSt s sh' pc' u) := by
  unfold nextSt
  simp only [pstep, fixed, ↓reduceIte, Bool.true_and] at hp
  pol_inj; exact inv_spawn s h hppc

theorem inv_pp_a2 (s : St) (e : Env)  (h : Inv s) (hppc : s.ppc = .a2) (sh' : Sh) (pc' : PPc) (u : Option (Aid × APc))
    (hp : pstep fixed s.n s.sh s.apc s.tpc .a2 e = some (sh', pc', u)) : Inv (nextSt s sh' pc' u) := by
  unfold nextSt
  simp only [pstep, fixed, ↓reduceIte, Bool.true_and] at hp
  pol_inj; exact inv_a2 s h hppc

theorem inv_pp_a3 (s : St) (e : Env)  (h : Inv s) (hppc : s.ppc = .a3) (sh' : Sh) (pc' : PPc) (u : Option (Aid × APc))
    (hp : pstep fixed s.n s.sh s.apc s.tpc .a3 e = some (sh', pc', u)) : Inv (nextSt s sh' pc' u) := by
  unfold nextSt
  simp only [pstep, fixed, ↓reduceIte, Bool.true_and] at hp
  pol_inj; exact inv_a3 s h hppc

theorem inv_pp_a4 (s : St) (e : Env)  (h : Inv s) (hppc : s.ppc = .a4) (sh' : Sh) (pc' : PPc) (u : Option (Aid × APc))
    (hp : pstep fixed s.n s.sh s.apc s.tpc .a4 e = some (sh', pc', u)) : Inv (nextSt s sh' pc' u) := by
  unfold nextSt
  simp only [pstep, fixed, ↓reduceIte, Bool.true_and] at hp
  split at hp
  · contradiction
  · pol_inj; pol_frame

theorem inv_pp_a5 (s : St) (e : Env)  (h : Inv s) (hppc : s.ppc = .a5) (sh' : Sh) (pc' : PPc) (u : Option (Aid × APc))
    (hp : pstep fixed s.n s.sh s.apc s.tpc .a5 e = some (sh', pc', u)) : Inv (nextSt s sh' pc' u) := by
  unfold nextSt
  simp only [pstep, fixed, ↓reduceIte, Bool.true_and] at hp
  rw [h.noPoison] at hp
  simp only [Bool.false_eq_true, ↓reduceIte] at hp
  pol_inj; pol_frame

theorem inv_pp_a6 (s : St) (e : Env)  (h : Inv s) (hppc : s.ppc = .a6) (sh' : Sh) (pc' : PPc) (u : Option (Aid × APc))
    (hp : pstep fixed s.n s.sh s.apc s.tpc .a6 e = some (sh', pc', u)) : Inv (nextSt s sh' pc' u) := by
  unfold nextSt
  simp only [pstep, fixed, ↓reduceIte, Bool.true_and] at hp
  pol_inj; pol_frame

theorem inv_pp_p1 (s : St) (e : Env) (m : Mode) (h : Inv s) (hppc : s.ppc = (.p1 m)) (sh' : Sh) (pc' : PPc) (u : Option (Aid × APc))
    (hp : pstep fixed s.n s.sh s.apc s.tpc (.p1 m) e = some (sh', pc', u)) : Inv (nextSt s sh' pc' u) := by
  unfold nextSt
  simp only [pstep, fixed, ↓reduceIte, Bool.true_and] at hp
  split at hp
  · pol_inj; pol_frame
  · next ev q' heq =>
    cases ev <;> simp only [dispatch, fixed, ↓reduceIte] at hp <;> pol_inj
    · exact inv_dispatch_normal s _ m q' s.sh.toWake h (by simp [pend, hppc, held, heq]) (by simp [hppc, checking]) (by simp [hppc, atC6])
        (by simp [hppc, adding]) (by simp [hppc])
    · exact inv_dispatch_done s _ m q' s.sh.toWake h (by simp [pend, hppc, held, heq]) (by simp [hppc, checking]) (by simp [hppc, atC6])
        (by simp [hppc, adding]) (by simp [hppc])

theorem inv_pp_p2 (s : St) (e : Env) (m : Mode) (h : Inv s) (hppc : s.ppc = (.p2 m)) (sh' : Sh) (pc' : PPc) (u : Option (Aid × APc))
    (hp : pstep fixed s.n s.sh s.apc s.tpc (.p2 m) e = some (sh', pc', u)) : Inv (nextSt s sh' pc' u) := by
  unfold nextSt
  simp only [pstep, fixed, ↓reduceIte, Bool.true_and] at hp
  split at hp
  · next hz =>
    pol_inj
    -- `cnt == 0`: every arm is past its decrement
    have hl8 : ∀ a, a < s.sh.total → late (s.apc a) = true := by
      intro a ha
      have hc := h.cntEq
      simp only [hppc, reduceCtorEq, if_false, hz] at hc
      have hc0 : cntOf s.n counted s.apc = 0 := by omega
      have := cntOf_zero s.n counted s.apc hc0 a (by have := h.tot; omega)
      have hni := h.spawned' a ha
      revert this hni; cases s.apc a <;> simp [counted, late]
    apply inv_poller_frame s _ _ h
    case hpend => simp [pend, hppc, held]
    case o_late => intro _; exact hl8
    all_goals (first
      | rfl
      | (simp [hppc, allLate, allEnded, adding, pinnedOnly, checking, atC6, retOk, running, atUnw]; done)
      | (have hd := h.dcons; have hchk := h.chk; have hps := h.panSeen; have hp1 := h.panA1; have hp2 := h.panA2; have hp3 := h.panA3;
         have hpb := h.panB; have hst := h.storedOk;
         simp only [hppc] at hd hchk hps;
         grind))
  · pol_inj; pol_frame

theorem inv_pp_p2b (s : St) (e : Env) (m : Mode) (h : Inv s) (hppc : s.ppc = (.p2b m)) (sh' : Sh) (pc' : PPc) (u : Option (Aid × APc))
    (hp : pstep fixed s.n s.sh s.apc s.tpc (.p2b m) e = some (sh', pc', u)) : Inv (nextSt s sh' pc' u) := by
  unfold nextSt
  simp only [pstep, fixed, ↓reduceIte, Bool.true_and] at hp
  split at hp
  · next heq =>
    pol_inj
    -- Finished: every arm is late, nothing is pending: every Done was consumed, every arm was joined
    have hfin : ∀ a, a < s.sh.total → s.apc a = .ended ∧ s.sh.doneCons a = true := by
      intro a ha
      have hl := h.lateAll (by simp [hppc, allLate]) a ha
      have hrow := h.arm a
      have hpe : pend s = [] := by simp [pend, hppc, held, heq]
      simp only [ArmOk, armOk, hpe, List.not_mem_nil] at hrow
      have hd : s.sh.doneCons a = true := by
        have := hrow.2.2.2.2.1 (by revert hl; cases s.apc a <;> simp [late, pushedDone])
        simpa using this
      have := h.dcons a hd
      simp only [hppc, checking] at this
      exact ⟨by simpa using this, hd⟩
    apply inv_poller_frame s _ _ h
    case hpend => simp [pend, hppc, held]
    case o_ended => intro _; exact hfin
    case o_late => intro _ a ha; rw [(hfin a ha).1]; rfl
    all_goals (first
      | rfl
      | (simp [hppc, allLate, allEnded, adding, pinnedOnly, checking, atC6, retOk, running, atUnw]; done)
      | (have hd := h.dcons; have hchk := h.chk; have hps := h.panSeen; have hp1 := h.panA1; have hp2 := h.panA2; have hp3 := h.panA3;
         have hpb := h.panB; have hst := h.storedOk;
         simp only [hppc] at hd hchk hps;
         grind))
  · next ev q' heq =>
    cases ev <;> simp only [dispatch, fixed, ↓reduceIte] at hp <;> pol_inj
    · exact inv_dispatch_normal s _ m q' s.sh.toWake h (by simp [pend, hppc, held, heq]) (by simp [hppc, checking]) (by simp [hppc, atC6])
        (by simp [hppc, adding]) (by simp [hppc])
    · exact inv_dispatch_done s _ m q' s.sh.toWake h (by simp [pend, hppc, held, heq]) (by simp [hppc, checking]) (by simp [hppc, atC6])
        (by simp [hppc, adding]) (by simp [hppc])

theorem inv_pp_p3 (s : St) (e : Env) (m : Mode) (h : Inv s) (hppc : s.ppc = (.p3 m)) (sh' : Sh) (pc' : PPc) (u : Option (Aid × APc))
    (hp : pstep fixed s.n s.sh s.apc s.tpc (.p3 m) e = some (sh', pc', u)) : Inv (nextSt s sh' pc' u) := by
  unfold nextSt
  simp only [pstep, fixed, ↓reduceIte, Bool.true_and] at hp
  pol_inj; pol_frame

theorem inv_pp_p4 (s : St) (e : Env) (m : Mode) (b : Bid) (h : Inv s) (hppc : s.ppc = (.p4 m b)) (sh' : Sh) (pc' : PPc) (u : Option (Aid × APc))
    (hp : pstep fixed s.n s.sh s.apc s.tpc (.p4 m b) e = some (sh', pc', u)) : Inv (nextSt s sh' pc' u) := by
  unfold nextSt
  simp only [pstep, fixed, ↓reduceIte, Bool.true_and] at hp
  split at hp
  · pol_inj; pol_frame
  · next ev q' heq =>
    pol_inj
    apply inv_poller_frame s _ _ h
    case hpend => simp [pend, hppc, held, heq]
    all_goals (first
      | rfl
      | (simp [hppc, allLate, allEnded, adding, pinnedOnly, checking, atC6, retOk, running, atUnw]; done)
      | (have hd := h.dcons; have hchk := h.chk; have hps := h.panSeen; have hp1 := h.panA1; have hp2 := h.panA2; have hp3 := h.panA3;
         have hpb := h.panB; have hst := h.storedOk;
         simp only [hppc] at hd hchk hps;
         grind))

theorem inv_pp_p4t (s : St) (e : Env) (m : Mode) (ev : Ev) (h : Inv s) (hppc : s.ppc = (.p4t m ev)) (sh' : Sh) (pc' : PPc) (u : Option (Aid × APc))
    (hp : pstep fixed s.n s.sh s.apc s.tpc (.p4t m ev) e = some (sh', pc', u)) : Inv (nextSt s sh' pc' u) := by
  unfold nextSt
  simp only [pstep, fixed, ↓reduceIte, Bool.true_and] at hp
  cases ev <;> simp only [dispatch, fixed, ↓reduceIte] at hp <;> pol_inj
  · exact inv_dispatch_normal s _ m s.sh.q none h (by simp [pend, hppc, held]) (by simp [hppc, checking]) (by simp [hppc, atC6])
      (by simp [hppc, adding]) (by simp [hppc])
  · exact inv_dispatch_done s _ m s.sh.q none h (by simp [pend, hppc, held]) (by simp [hppc, checking]) (by simp [hppc, atC6])
      (by simp [hppc, adding]) (by simp [hppc])

theorem inv_pp_p5 (s : St) (e : Env) (m : Mode) (b : Bid) (h : Inv s) (hppc : s.ppc = (.p5 m b)) (sh' : Sh) (pc' : PPc) (u : Option (Aid × APc))
    (hp : pstep fixed s.n s.sh s.apc s.tpc (.p5 m b) e = some (sh', pc', u)) : Inv (nextSt s sh' pc' u) := by
  unfold nextSt
  simp only [pstep, fixed, ↓reduceIte, Bool.true_and] at hp
  cases e <;> simp only at hp <;> (try (split at hp <;> (try contradiction))) <;> pol_inj <;> pol_frame

theorem inv_pp_run (s : St) (e : Env) (m : Mode) (a : Aid) (h : Inv s) (hppc : s.ppc = (.run m a)) (sh' : Sh) (pc' : PPc) (u : Option (Aid × APc))
    (hp : pstep fixed s.n s.sh s.apc s.tpc (.run m a) e = some (sh', pc', u)) : Inv (nextSt s sh' pc' u) := by
  unfold nextSt
  simp only [pstep, fixed, ↓reduceIte, Bool.true_and] at hp
  split at hp
  · next hoff =>
    pol_inj
    have hr := h.runOk a (by simp [hppc, running])
    apply inv_poller_frame s _ _ h
    case hpend => simp [pend, hppc, held]
    case o_ok =>
      intro b hb
      simp only [retOk, beq_iff_eq] at hb
      subst hb
      revert hoff; cases s.apc b <;> simp [offStack, hr]
    all_goals (first
      | rfl
      | (simp [hppc, allLate, allEnded, adding, pinnedOnly, checking, atC6, retOk, running, atUnw]; done)
      | (have hd := h.dcons; have hchk := h.chk; have hps := h.panSeen; have hp1 := h.panA1; have hp2 := h.panA2; have hp3 := h.panA3;
         have hpb := h.panB; have hst := h.storedOk;
         simp only [hppc] at hd hchk hps;
         grind))
  · contradiction

theorem inv_pp_c0 (s : St) (e : Env) (m : Mode) (a : Aid) (h : Inv s) (hppc : s.ppc = (.c0 m a)) (sh' : Sh) (pc' : PPc) (u : Option (Aid × APc))
    (hp : pstep fixed s.n s.sh s.apc s.tpc (.c0 m a) e = some (sh', pc', u)) : Inv (nextSt s sh' pc' u) := by
  unfold nextSt
  simp only [pstep, fixed, ↓reduceIte, Bool.true_and] at hp
  have := h.noPinned; simp [hppc, pinnedOnly] at this

theorem inv_pp_c1 (s : St) (e : Env) (m : Mode) (a : Aid) (h : Inv s) (hppc : s.ppc = (.c1 m a)) (sh' : Sh) (pc' : PPc) (u : Option (Aid × APc))
    (hp : pstep fixed s.n s.sh s.apc s.tpc (.c1 m a) e = some (sh', pc', u)) : Inv (nextSt s sh' pc' u) := by
  unfold nextSt
  simp only [pstep, fixed, ↓reduceIte, Bool.true_and] at hp
  split at hp
  · contradiction
  · pol_inj; pol_frame

theorem inv_pp_c2 (s : St) (e : Env) (m : Mode) (a : Aid) (h : Inv s) (hppc : s.ppc = (.c2 m a)) (sh' : Sh) (pc' : PPc) (u : Option (Aid × APc))
    (hp : pstep fixed s.n s.sh s.apc s.tpc (.c2 m a) e = some (sh', pc', u)) : Inv (nextSt s sh' pc' u) := by
  unfold nextSt
  simp only [pstep, fixed, ↓reduceIte, Bool.true_and] at hp
  rw [h.noPoison] at hp
  simp only [Bool.false_eq_true, ↓reduceIte] at hp
  pol_inj; pol_frame

theorem inv_pp_c3 (s : St) (e : Env) (m : Mode) (a : Aid) (h : Inv s) (hppc : s.ppc = (.c3 m a)) (sh' : Sh) (pc' : PPc) (u : Option (Aid × APc))
    (hp : pstep fixed s.n s.sh s.apc s.tpc (.c3 m a) e = some (sh', pc', u)) : Inv (nextSt s sh' pc' u) := by
  unfold nextSt
  simp only [pstep, fixed, ↓reduceIte, Bool.true_and] at hp
  pol_inj; pol_frame

theorem inv_pp_c7 (s : St) (e : Env) (m : Mode) (a : Aid) (h : Inv s) (hppc : s.ppc = (.c7 m a)) (sh' : Sh) (pc' : PPc) (u : Option (Aid × APc))
    (hp : pstep fixed s.n s.sh s.apc s.tpc (.c7 m a) e = some (sh', pc', u)) : Inv (nextSt s sh' pc' u) := by
  unfold nextSt
  simp only [pstep, fixed, ↓reduceIte, Bool.true_and] at hp
  have := h.noPinned; simp [hppc, pinnedOnly] at this

theorem inv_pp_c8 (s : St) (e : Env) (m : Mode) (a : Aid) (h : Inv s) (hppc : s.ppc = (.c8 m a)) (sh' : Sh) (pc' : PPc) (u : Option (Aid × APc))
    (hp : pstep fixed s.n s.sh s.apc s.tpc (.c8 m a) e = some (sh', pc', u)) : Inv (nextSt s sh' pc' u) := by
  unfold nextSt
  simp only [pstep, fixed, ↓reduceIte, Bool.true_and] at hp
  have := h.noPinned; simp [hppc, pinnedOnly] at this

theorem inv_pp_cU (s : St) (e : Env) (m : Mode) (a : Aid) (h : Inv s) (hppc : s.ppc = (.cU m a)) (sh' : Sh) (pc' : PPc) (u : Option (Aid × APc))
    (hp : pstep fixed s.n s.sh s.apc s.tpc (.cU m a) e = some (sh', pc', u)) : Inv (nextSt s sh' pc' u) := by
  unfold nextSt
  simp only [pstep, fixed, ↓reduceIte, Bool.true_and] at hp
  have := h.noPinned; simp [hppc, pinnedOnly] at this

theorem inv_pp_x2p (s : St) (e : Env)  (h : Inv s) (hppc : s.ppc = .x2p) (sh' : Sh) (pc' : PPc) (u : Option (Aid × APc))
    (hp : pstep fixed s.n s.sh s.apc s.tpc .x2p e = some (sh', pc', u)) : Inv (nextSt s sh' pc' u) := by
  unfold nextSt
  simp only [pstep, fixed, ↓reduceIte, Bool.true_and] at hp
  have := h.noPinned; simp [hppc, pinnedOnly] at this

theorem inv_pp_c5 (s : St) (e : Env) (m : Mode) (a : Aid) (h : Inv s) (hppc : s.ppc = (.c5 m a)) (sh' : Sh) (pc' : PPc) (u : Option (Aid × APc))
    (hp : pstep fixed s.n s.sh s.apc s.tpc (.c5 m a) e = some (sh', pc', u)) : Inv (nextSt s sh' pc' u) := by
  unfold nextSt
  simp only [pstep, fixed, ↓reduceIte, Bool.true_and] at hp
  have hdcA := h.chk a (by simp [hppc, checking])
  split at hp
  · next hj =>
    have hended : s.apc a = .ended := by
      have := (h.arm a).2.1
      rw [hj] at this
      simpa using this.symm
    split at hp
    · pol_inj
      apply inv_poller_frame s _ _ h
      case hpend => simp [pend, hppc, held]
      pol_rest
    · split at hp
      · pol_inj
        apply inv_poller_frame s _ _ h
        case hpend => simp [pend, hppc, held]
        pol_rest
      · pol_inj
        apply inv_poller_frame s _ _ h
        case hpend => simp [pend, hppc, held]
        pol_rest
  · contradiction

theorem inv_pp_c6 (s : St) (e : Env) (m : Mode) (a : Aid) (h : Inv s) (hppc : s.ppc = (.c6 m a)) (sh' : Sh) (pc' : PPc) (u : Option (Aid × APc))
    (hp : pstep fixed s.n s.sh s.apc s.tpc (.c6 m a) e = some (sh', pc', u)) : Inv (nextSt s sh' pc' u) := by
  unfold nextSt
  simp only [pstep, fixed, ↓reduceIte, Bool.true_and] at hp
  have hc := h.c6ok a (by simp [hppc, atC6])
  cases m <;> simp only [raise, fixed, ↓reduceIte] at hp <;> pol_inj
  · apply inv_poller_frame s _ _ h
    case hpend => simp [pend, hppc, held]
    pol_rest
  · apply inv_poller_frame s _ _ h
    case hpend => simp [pend, hppc, held]
    pol_rest
theorem inv_pp_ret (s : St) (e : Env) (m : Mode) (r : Res) (h : Inv s) (hppc : s.ppc = (.ret m r)) (sh' : Sh) (pc' : PPc) (u : Option (Aid × APc))
    (hp : pstep fixed s.n s.sh s.apc s.tpc (.ret m r) e = some (sh', pc', u)) : Inv (nextSt s sh' pc' u) := by
  unfold nextSt
  simp only [pstep, fixed, ↓reduceIte, Bool.true_and] at hp
  cases m <;> simp only at hp
  · pol_inj
    apply inv_poller_frame s _ _ h
    case hpend => simp [pend, hppc, held]
    pol_rest
  · cases r <;> simp only at hp <;> pol_inj
    all_goals (
      apply inv_poller_frame s _ _ h
      case hpend => simp [pend, hppc, held]
      pol_rest)
theorem inv_pp_unw (s : St) (e : Env) (a : Aid) (h : Inv s) (hppc : s.ppc = (.unw a)) (sh' : Sh) (pc' : PPc) (u : Option (Aid × APc))
    (hp : pstep fixed s.n s.sh s.apc s.tpc (.unw a) e = some (sh', pc', u)) : Inv (nextSt s sh' pc' u) := by
  unfold nextSt
  simp only [pstep, fixed, ↓reduceIte, Bool.true_and] at hp
  cases e <;> simp only at hp <;> pol_inj
  all_goals (
    apply inv_poller_frame s _ _ h
    case hpend => simp [pend, hppc, held]
    pol_rest)
theorem inv_pp_x1 (s : St) (e : Env)  (h : Inv s) (hppc : s.ppc = .x1) (sh' : Sh) (pc' : PPc) (u : Option (Aid × APc))
    (hp : pstep fixed s.n s.sh s.apc s.tpc .x1 e = some (sh', pc', u)) : Inv (nextSt s sh' pc' u) := by
  unfold nextSt
  simp only [pstep, fixed, ↓reduceIte, Bool.true_and] at hp
  split at hp
  · contradiction
  · pol_inj
    apply inv_poller_frame s _ _ h
    case hpend => simp [pend, hppc, held]
    pol_rest
theorem inv_pp_x2 (s : St) (e : Env)  (h : Inv s) (hppc : s.ppc = .x2) (sh' : Sh) (pc' : PPc) (u : Option (Aid × APc))
    (hp : pstep fixed s.n s.sh s.apc s.tpc .x2 e = some (sh', pc', u)) : Inv (nextSt s sh' pc' u) := by
  unfold nextSt
  simp only [pstep, fixed, ↓reduceIte, Bool.true_and] at hp
  rw [h.noPoison] at hp
  simp only [Bool.false_eq_true, ↓reduceIte] at hp
  pol_inj
  apply inv_poller_frame s _ _ h
  case hpend => simp [pend, hppc, held]
  pol_rest
theorem inv_pp_x3 (s : St) (e : Env) (i : Aid) (h : Inv s) (hppc : s.ppc = (.x3 i)) (sh' : Sh) (pc' : PPc) (u : Option (Aid × APc))
    (hp : pstep fixed s.n s.sh s.apc s.tpc (.x3 i) e = some (sh', pc', u)) : Inv (nextSt s sh' pc' u) := by
  unfold nextSt
  simp only [pstep, fixed, ↓reduceIte, Bool.true_and] at hp
  split at hp
  · cases e <;> simp only at hp <;> (split at hp <;> (try contradiction)) <;> pol_inj
    all_goals (
      apply inv_poller_frame s _ _ h
      case hpend => simp [pend, hppc, held]
      pol_rest)
  · pol_inj
    apply inv_poller_frame s _ _ h
    case hpend => simp [pend, hppc, held]
    pol_rest
theorem inv_pp_x4 (s : St) (e : Env) (i : Aid) (h : Inv s) (hppc : s.ppc = (.x4 i)) (sh' : Sh) (pc' : PPc) (u : Option (Aid × APc))
    (hp : pstep fixed s.n s.sh s.apc s.tpc (.x4 i) e = some (sh', pc', u)) : Inv (nextSt s sh' pc' u) := by
  unfold nextSt
  simp only [pstep, fixed, ↓reduceIte, Bool.true_and] at hp
  pol_inj
  apply inv_poller_frame s _ _ h
  case hpend => simp [pend, hppc, held]
  pol_rest
theorem inv_pp_x5 (s : St) (e : Env)  (h : Inv s) (hppc : s.ppc = .x5) (sh' : Sh) (pc' : PPc) (u : Option (Aid × APc))
    (hp : pstep fixed s.n s.sh s.apc s.tpc .x5 e = some (sh', pc', u)) : Inv (nextSt s sh' pc' u) := by
  unfold nextSt
  simp only [pstep, fixed, ↓reduceIte, Bool.true_and] at hp
  pol_inj
  apply inv_poller_frame s _ _ h
  case hpend => simp [pend, hppc, held]
  pol_rest
theorem inv_pp_xEnd (s : St) (e : Env)  (h : Inv s) (hppc : s.ppc = .xEnd) (sh' : Sh) (pc' : PPc) (u : Option (Aid × APc))
    (hp : pstep fixed s.n s.sh s.apc s.tpc .xEnd e = some (sh', pc', u)) : Inv (nextSt s sh' pc' u) := by
  unfold nextSt
  simp only [pstep, fixed, ↓reduceIte, Bool.true_and] at hp
  split at hp
  · next hu =>
    pol_inj
    have hip : s.sh.isPan = true := by
      cases hh : s.sh.isPan
      · have := (h.panB hh).1; rw [hu] at this; cases this
      · rfl
    obtain ⟨q, hq⟩ : ∃ q, s.sh.raisedBy = some q := by
      cases hr : s.sh.raisedBy
      · exact absurd hr (h.panA1 hip)
      · exact ⟨_, rfl⟩
    apply inv_poller_frame s _ _ h
    case hpend => simp [pend, hppc, held]
    case o_gone =>
      intro r hr
      simp only [PPc.gone.injEq] at hr
      subst hr
      simp [hq]
    pol_rest
  · split at hp <;> pol_inj
    all_goals (
      apply inv_poller_frame s _ _ h
      case hpend => simp [pend, hppc, held]
      pol_rest)

end MayVerif.Cqueue
