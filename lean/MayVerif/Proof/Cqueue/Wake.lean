/-
  The register-then-recheck invariant of `poll` (on top of `Inv`): a poller that waits on blocker `b` without its token
  is still registered, every queued event's pusher still has its `to_wake.take` ahead, and somebody can still push.
-/
import MayVerif.Proof.Cqueue.Step
set_option linter.unusedSimpArgs false
set_option linter.unusedVariables false
namespace MayVerif.Cqueue

/-- the blocker the poller has registered and may park on -/
@[grind] def waitB : PPc → Option Bid
  | .p4 _ b | .p5 _ b => some b
  | _ => none
@[grind] def atP3 : PPc → Bool
  | .p3 _ => true
  | _ => false
@[grind] def atP5 : PPc → Bool
  | .p5 .. => true
  | _ => false
@[grind] def notDone : APc → Bool
  | .idle | .ended => false
  | _ => true
/-- the pusher of this event has not done its `to_wake.take` yet -/
def pusherPending (s : St) : Ev → Prop
  | .normal a => s.tpc a = .k3
  | .done a => s.apc a = .d2 ∨ s.apc a = .d3

structure InvW (s : St) : Prop where
  w1 : ∀ b, waitB s.ppc = some b → s.sh.tok b = true ∨ s.sh.toWake = some b
  w2 : ∀ b, waitB s.ppc = some b → atP5 s.ppc = true → s.sh.tok b = false → ∀ ev, ev ∈ s.sh.q → pusherPending s ev
  w3 : (atP3 s.ppc = true ∨ waitB s.ppc ≠ none) →
        0 < cntOf s.n notDone s.apc ∨ s.sh.q ≠ [] ∨ (∃ b, waitB s.ppc = some b ∧ s.sh.tok b = true)

theorem invW_init (n : Nat) : InvW (init n) := by
  constructor <;> simp [init, waitB, atP3]

theorem cntOf_mono (n : Nat) (p q : APc → Bool) (f : Aid → APc) (h : ∀ x, p x = true → q x = true) : cntOf n p f ≤ cntOf n q f := by
  unfold cntOf
  apply List.countP_mono_left
  intro x _ hx
  exact h _ hx

theorem cntOf_pos (n : Nat) (p : APc → Bool) (f : Aid → APc) (h : 0 < cntOf n p f) : ∃ a, a < n ∧ p (f a) = true := by
  unfold cntOf at h
  obtain ⟨a, ha, hp⟩ := List.countP_pos_iff.mp h
  exact ⟨a, List.mem_range.mp ha, hp⟩

theorem wake_cases (sh : Sh) :
    ((wake sh).toWake = sh.toWake ∧ (wake sh).tok = sh.tok ∧ sh.toWake = none) ∨
    (∃ b, sh.toWake = some b ∧ (wake sh).toWake = none ∧ (wake sh).tok = upd sh.tok b true) := by
  unfold wake; split
  · next b hb => exact Or.inr ⟨b, hb, rfl, rfl⟩
  · next hb => exact Or.inl ⟨rfl, rfl, hb⟩

set_option hygiene false in
/-- the three clauses after a step of arm `a` (context: old clauses `w1 w2 w3`, `ha` = old table row of `a`, `hpc`, `htp`) -/
macro "w_arm" : tactic => `(tactic| (
  have hN := cntOf_upd s.n notDone s.apc a
  have hdc := h.dcons a
  have hpend : pend s = (held s.ppc).toList ++ s.sh.q := rfl
  constructor
  · intro b hb
    have := w1 b hb
    first
      | (simpa using this)
      | (rcases wake_cases s.sh with ⟨h1, h2, h3⟩ | ⟨b', h1, h2, h3⟩ <;> simp only [h1, h2, h3] at * <;> grind)
  · intro b hb h5 htok ev hev
    have hw1 := w1 b hb
    have hw2 := w2 b hb h5
    simp only [armOk, hpc, htp, tailPushed, wkOf, pushedDone, dying] at ha
    first
      | (cases ev <;> simp only [pusherPending, upd] at hw2 ⊢ <;> grind)
      | (rcases wake_cases s.sh with ⟨h1, h2, h3⟩ | ⟨b', h1, h2, h3⟩ <;> simp only [wake_q, h1, h2, h3] at * <;>
          cases ev <;> simp only [pusherPending, upd] at hw2 ⊢ <;> grind)
  · intro hreg
    have hw3 := w3 hreg
    simp only [armOk, hpc, htp, tailPushed, wkOf, pushedDone, dying] at ha
    first
      | grind
      | (rcases wake_cases s.sh with ⟨h1, h2, h3⟩ | ⟨b', h1, h2, h3⟩ <;> simp only [wake_q, h1, h2, h3] at * <;> grind)))

theorem invW_arm (s s' : St) (a : Aid) (e : Env) (h : Inv s) (hw : InvW s) (hs : step fixed s (.arm a) e = some s') : InvW s' := by
  obtain ⟨hlt, sup, sh', pc', tp', hts, rfl⟩ := step_arm_eq s s' a e hs
  clear hs
  have ha := h.arm a
  simp only [ArmOk] at ha
  generalize hpc : s.apc a = pc at hts ha
  generalize htp : s.tpc a = tp at hts ha
  obtain ⟨w1, w2, w3⟩ := hw
  by_cases het : e = .tail
  · subst het
    obtain ⟨hk, rfl⟩ := astep_tail _ _ _ _ _ _ _ _ _ hts
    clear hts
    cases tp <;> simp only [kstep, fixed] at hk <;> (try contradiction) <;>
      (simp only [Option.some.injEq, Prod.mk.injEq, if_true] at hk; obtain ⟨rfl, rfl⟩ := hk) <;>
      cases pc' <;> (first | (exfalso; simp [armOk, tailPushed, wkOf] at ha; done) | skip)
    all_goals w_arm
  · obtain ⟨otp, hm, rfl⟩ := astep_main _ _ _ _ _ _ _ _ _ _ het hts
    clear hts
    cases pc <;> simp only [mstep, fixed, ↓reduceIte, Bool.true_and] at hm <;> (try contradiction)
    case top =>
      cases tp <;> (first | (exfalso; simp [armOk] at ha; done) | skip)
      cases e <;> simp only at hm <;> (try contradiction)
      all_goals (try (split at hm <;> (try contradiction)))
      all_goals (simp only [Option.some.injEq, Prod.mk.injEq] at hm; obtain ⟨rfl, rfl, rfl⟩ := hm; simp only [Option.getD])
      all_goals w_arm
    case bot =>
      cases tp <;> (first | (exfalso; simp [armOk] at ha; done) | skip)
      cases e <;> simp only at hm <;> (try contradiction)
      all_goals (simp only [Option.some.injEq, Prod.mk.injEq] at hm; obtain ⟨rfl, rfl, rfl⟩ := hm; simp only [Option.getD])
      all_goals w_arm
    all_goals (
      cases tp <;> (first | (exfalso; simp [armOk, tailPushed] at ha; done) | skip)
      all_goals (try (split at hm))
      all_goals (simp only [Option.some.injEq, Prod.mk.injEq] at hm; obtain ⟨rfl, rfl, rfl⟩ := hm; simp only [Option.getD])
      all_goals w_arm)

set_option hygiene false in
/-- a poller step whose target is outside `p3/p4/p5`: the clauses are vacuous -/
macro "w_out" : tactic => `(tactic| (
  all_goals (try (simp only [Option.some.injEq, Prod.mk.injEq] at hp; obtain ⟨rfl, rfl, rfl⟩ := hp))
  all_goals (constructor <;> simp [nextSt, waitB, atP3, atP5])))

set_option maxHeartbeats 1600000 in
theorem invW_poller (s s' : St) (e : Env) (h : Inv s) (hw : InvW s) (hs : step fixed s .poller e = some s') : InvW s' := by
  obtain ⟨sh', pc', u, hp, rfl⟩ := step_poller_eq s s' e hs
  clear hs
  show InvW (nextSt s sh' pc' u)
  obtain ⟨w1, w2, w3⟩ := hw
  generalize hppc : s.ppc = pc at hp
  have hpo := h.noPoison
  cases pc <;> simp only [pstep, fixed, ↓reduceIte, Bool.true_and, hpo, Bool.false_eq_true] at hp
  case p2 m =>
    split at hp
    · w_out
    · next hz =>
      simp only [Option.some.injEq, Prod.mk.injEq] at hp; obtain ⟨rfl, rfl, rfl⟩ := hp
      have hc := h.cntEq
      simp only [hppc, reduceCtorEq, if_false] at hc
      have hmono := cntOf_mono s.n counted notDone s.apc (by intro x; cases x <;> simp [counted, notDone])
      constructor <;> simp [nextSt, waitB, atP3, atP5]
      left; omega
  case p3 m =>
    simp only [Option.some.injEq, Prod.mk.injEq] at hp; obtain ⟨rfl, rfl, rfl⟩ := hp
    have hw3 := w3 (Or.inl (by simp [hppc, atP3]))
    simp only [hppc, waitB, reduceCtorEq, false_and, exists_false, or_false] at hw3
    constructor <;> simp [nextSt, waitB, atP3, atP5]
    rcases hw3 with h1 | h1
    · exact Or.inl h1
    · exact Or.inr (Or.inl h1)
  case p4 m b =>
    split at hp
    · next heq =>
      simp only [Option.some.injEq, Prod.mk.injEq] at hp; obtain ⟨rfl, rfl, rfl⟩ := hp
      have hw1 := w1 b (by simp [hppc, waitB])
      have hw3 := w3 (Or.inr (by simp [hppc, waitB]))
      simp only [hppc, waitB, Option.some.injEq] at hw3
      constructor <;> simp [nextSt, waitB, atP3, atP5, heq]
      · exact hw1
      · rcases hw3 with h1 | h1 | ⟨b', rfl, h1⟩
        · exact Or.inl h1
        · exact absurd heq h1
        · exact Or.inr h1
    · w_out
  all_goals (first | contradiction | skip)
  all_goals (try (split at hp))
  all_goals (try (split at hp))
  all_goals (try (split at hp))
  all_goals (first | contradiction | skip)
  all_goals (try (simp only [dispatch, raise, fixed, ↓reduceIte] at hp))
  all_goals (try (split at hp))
  all_goals (first | contradiction | skip)
  all_goals w_out

theorem invW_remover (s s' : St) (e : Env) (hw : InvW s) (hs : step fixed s .remover e = some s') : InvW s' := by
  unfold step at hs
  split at hs
  · contradiction
  · simp only at hs
    split at hs
    · next sh' pc' heq =>
      simp only [Option.some.injEq] at hs
      subst hs
      have hsh : sh' = s.sh ∨ ∃ a, sh' = { s.sh with cancel := upd s.sh.cancel a true } := by
        unfold rstep at heq
        split at heq
        · split at heq
          · split at heq
            · simp only [Option.some.injEq, Prod.mk.injEq] at heq; exact Or.inl heq.1.symm
            · contradiction
          · contradiction
        · simp only [Option.some.injEq, Prod.mk.injEq] at heq; exact Or.inr ⟨_, heq.1.symm⟩
        · simp only [Option.some.injEq, Prod.mk.injEq] at heq; exact Or.inl heq.1.symm
      rcases hsh with rfl | ⟨a, rfl⟩
      · exact ⟨hw.w1, fun b hb h5 ht ev hev => by have := hw.w2 b hb h5 ht ev hev; cases ev <;> exact this, hw.w3⟩
      · exact ⟨hw.w1, fun b hb h5 ht ev hev => by have := hw.w2 b hb h5 ht ev hev; cases ev <;> exact this, hw.w3⟩
    · contradiction

theorem invW_step (s s' : St) (who : Actor) (e : Env) (h : Inv s) (hw : InvW s) (hs : step fixed s who e = some s') : InvW s' := by
  cases who
  · exact invW_poller s s' e h hw hs
  · exact invW_arm s s' _ e h hw hs
  · exact invW_remover s s' e hw hs

theorem invW_run (s : St) (sched : List (Actor × Env)) (h : Inv s) (hw : InvW s) : InvW (run fixed s sched) := by
  induction sched generalizing s with
  | nil => simpa [run]
  | cons te r ih =>
    obtain ⟨t, e⟩ := te
    simp only [run]
    split
    · next s' hs => exact ih _ (inv_step _ _ _ _ h hs) (invW_step _ _ _ _ h hw hs)
    · exact ih _ h hw

theorem invW_reach (n : Nat) (sched : List (Actor × Env)) : InvW (run fixed (init n) sched) :=
  invW_run _ _ (inv_init n) (invW_init n)

end MayVerif.Cqueue
