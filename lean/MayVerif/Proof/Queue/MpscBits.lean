/-
  C03: the bit-level facts behind the packed tail word of `may_queue::mpsc` (`BlockPtr::pack/unpack`, the closing
  flag in bit 63) and the index arithmetic of both block queues, over `BitVec 64` (= `usize`) and `Nat`.
  Generic in the mask; `Props/C03.lean` instantiates them at the constants generated from the source.
-/
set_option linter.unusedSimpArgs false
namespace MayVerif.MpscBits

abbrev W := BitVec 64

/-- `BlockPtr::pack`: `(ptr as usize) | index` -/
def pack (ptr idx : W) : W := ptr ||| idx
/-- `BlockPtr::unpack`: `(ptr & !BLOCK_MASK, ptr & BLOCK_MASK)` -/
def unpackPtr (mask p : W) : W := p &&& ~~~mask
def unpackIdx (mask p : W) : W := p &&& mask
/-- the closing flag -/
def closingBit : W := 1#64 <<< 63
def setClosing (p : W) : W := p ||| closingBit
def clearClosing (p : W) : W := p &&& ~~~closingBit

theorem bit_of_eq {a b : W} (h : a = b) (j : Nat) : a.getLsbD j = b.getLsbD j := by rw [h]

/-- a block pointer has the mask bits clear (alignment), an index lies inside the mask -/
theorem unpackIdx_pack (mask ptr idx : W) (ha : ptr &&& mask = 0) (hi : idx &&& ~~~mask = 0) :
    unpackIdx mask (pack ptr idx) = idx := by
  unfold unpackIdx pack
  apply BitVec.eq_of_getLsbD_eq; intro j hj
  have ha := bit_of_eq ha j
  have hi := bit_of_eq hi j
  simp only [BitVec.getLsbD_and, BitVec.getLsbD_or, BitVec.getLsbD_not, BitVec.ofNat_eq_ofNat, BitVec.getLsbD_zero, hj, decide_true, Bool.true_and] at *
  revert ha hi
  cases ptr.getLsbD j <;> cases idx.getLsbD j <;> cases mask.getLsbD j <;> decide

theorem unpackPtr_pack (mask ptr idx : W) (ha : ptr &&& mask = 0) (hi : idx &&& ~~~mask = 0) :
    unpackPtr mask (pack ptr idx) = ptr := by
  unfold unpackPtr pack
  apply BitVec.eq_of_getLsbD_eq; intro j hj
  have ha := bit_of_eq ha j
  have hi := bit_of_eq hi j
  simp only [BitVec.getLsbD_and, BitVec.getLsbD_or, BitVec.getLsbD_not, BitVec.ofNat_eq_ofNat, BitVec.getLsbD_zero, hj, decide_true, Bool.true_and] at *
  revert ha hi
  cases ptr.getLsbD j <;> cases idx.getLsbD j <;> cases mask.getLsbD j <;> decide

/-- packing is injective on (aligned pointer, index in range): the CAS on the packed word compares both -/
theorem pack_inj (mask p1 i1 p2 i2 : W) (h1 : p1 &&& mask = 0) (h2 : p2 &&& mask = 0)
    (k1 : i1 &&& ~~~mask = 0) (k2 : i2 &&& ~~~mask = 0) (h : pack p1 i1 = pack p2 i2) : p1 = p2 ∧ i1 = i2 := by
  constructor
  · rw [← unpackPtr_pack mask p1 i1 h1 k1, ← unpackPtr_pack mask p2 i2 h2 k2, h]
  · rw [← unpackIdx_pack mask p1 i1 h1 k1, ← unpackIdx_pack mask p2 i2 h2 k2, h]

/-- a word without the closing flag (user-space pointers are below 2^63) -/
def NoFlag (p : W) : Prop := p &&& closingBit = 0
instance (p : W) : Decidable (NoFlag p) := inferInstanceAs (Decidable (p &&& closingBit = 0))

theorem clear_set (p : W) (h : NoFlag p) : clearClosing (setClosing p) = p := by
  unfold clearClosing setClosing; unfold NoFlag at h
  apply BitVec.eq_of_getLsbD_eq; intro j hj
  have h := bit_of_eq h j
  simp only [BitVec.getLsbD_and, BitVec.getLsbD_or, BitVec.getLsbD_not, BitVec.ofNat_eq_ofNat, BitVec.getLsbD_zero, hj, decide_true, Bool.true_and] at *
  revert h
  cases p.getLsbD j <;> cases closingBit.getLsbD j <;> decide

theorem clear_noflag (p : W) (h : NoFlag p) : clearClosing p = p := by
  unfold clearClosing; unfold NoFlag at h
  apply BitVec.eq_of_getLsbD_eq; intro j hj
  have h := bit_of_eq h j
  simp only [BitVec.getLsbD_and, BitVec.getLsbD_or, BitVec.getLsbD_not, BitVec.ofNat_eq_ofNat, BitVec.getLsbD_zero, hj, decide_true, Bool.true_and] at *
  revert h
  cases p.getLsbD j <;> cases closingBit.getLsbD j <;> decide

/-- the closing word differs from every word without the flag: every CAS (whose expected word has the flag
    cleared, `tail & !(1 << 63)`) fails while the tail is closing -/
theorem set_ne_noflag (p q : W) (hq : NoFlag q) : setClosing p ≠ q := by
  intro h
  have h63 := congrArg (fun x : W => x.getLsbD 63) h
  have hq63 := congrArg (fun x : W => x.getLsbD 63) hq
  simp [setClosing, closingBit, NoFlag] at h63 hq63
  simp [h63] at hq63

/-- the flag does not disturb the index, and `push_index` (unpack first, then clear bit 63 of the pointer part)
    finds the block of the closing word -/
theorem unpackIdx_set (mask p : W) (hm : mask &&& closingBit = 0) : unpackIdx mask (setClosing p) = unpackIdx mask p := by
  unfold unpackIdx setClosing
  apply BitVec.eq_of_getLsbD_eq; intro j hj
  have hm := bit_of_eq hm j
  simp only [BitVec.getLsbD_and, BitVec.getLsbD_or, BitVec.getLsbD_not, BitVec.ofNat_eq_ofNat, BitVec.getLsbD_zero, hj, decide_true, Bool.true_and] at *
  revert hm
  cases p.getLsbD j <;> cases closingBit.getLsbD j <;> cases mask.getLsbD j <;> decide

theorem unpackPtr_set (mask p : W) (hm : mask &&& closingBit = 0) (hp : NoFlag p) :
    clearClosing (unpackPtr mask (setClosing p)) = unpackPtr mask p := by
  unfold unpackPtr setClosing clearClosing; unfold NoFlag at hp
  apply BitVec.eq_of_getLsbD_eq; intro j hj
  have hm := bit_of_eq hm j
  have hp := bit_of_eq hp j
  simp only [BitVec.getLsbD_and, BitVec.getLsbD_or, BitVec.getLsbD_not, BitVec.ofNat_eq_ofNat, BitVec.getLsbD_zero, hj, decide_true, Bool.true_and] at *
  revert hm hp
  cases p.getLsbD j <;> cases closingBit.getLsbD j <;> cases mask.getLsbD j <;> decide

/-- alignment gives the clear mask bits: `addr % align = 0`, `B ∣ align`, `mask = B - 1`, `B = 2^k` -/
theorem aligned_mask (k align : Nat) (p : W) (hk : k ≤ 64) (hal : align % 2 ^ k = 0) (hp : p.toNat % align = 0) :
    p &&& BitVec.ofNat 64 (2 ^ k - 1) = 0 := by
  apply BitVec.eq_of_toNat_eq
  have h1 : 2 ^ k - 1 < 2 ^ 64 := by
    have : 2 ^ k ≤ 2 ^ 64 := Nat.pow_le_pow_right (by decide) hk
    omega
  rw [BitVec.toNat_and, BitVec.toNat_ofNat, Nat.mod_eq_of_lt h1, Nat.and_two_pow_sub_one_eq_mod]
  have : p.toNat % 2 ^ k = 0 := by
    obtain ⟨c, hc⟩ := Nat.dvd_of_mod_eq_zero hal
    obtain ⟨d, hd⟩ := Nat.dvd_of_mod_eq_zero hp
    rw [hd, hc, Nat.mul_assoc]; exact Nat.mul_mod_right _ _
  simpa using this

/-- an index below the block size lies inside the mask -/
theorem index_in_mask (k i : Nat) (hk : k ≤ 64) (hi : i < 2 ^ k) :
    BitVec.ofNat 64 i &&& ~~~BitVec.ofNat 64 (2 ^ k - 1) = 0 := by
  have h64 : 2 ^ k ≤ 2 ^ 64 := Nat.pow_le_pow_right (by decide) hk
  have hi64 : i < 2 ^ 64 := by omega
  apply BitVec.eq_of_getLsbD_eq; intro j hj
  simp only [BitVec.getLsbD_and, BitVec.getLsbD_not, BitVec.getLsbD_ofNat, hj, decide_true, Bool.true_and, BitVec.getLsbD_zero]
  by_cases hjk : j < k
  · simp [Nat.testBit_two_pow_sub_one, hjk]
  · have : i < 2 ^ j := Nat.lt_of_lt_of_le hi (Nat.pow_le_pow_right (by decide) (by omega))
    simp [Nat.testBit_lt_two_pow this]

/-! index arithmetic over `Nat` (the models use `%` and `/`; the code uses the mask) -/

theorem and_mask_eq_mod (x k : Nat) : x &&& (2 ^ k - 1) = x % 2 ^ k := Nat.and_two_pow_sub_one_eq_mod x k

/-- logical index ↦ (block number, slot) is a bijection -/
theorem index_split (B i : Nat) : i = i / B * B + i % B := by
  have := Nat.div_add_mod i B; rw [Nat.mul_comm] at this; omega

theorem index_join (B b s : Nat) (hs : s < B) : (b * B + s) / B = b ∧ (b * B + s) % B = s := by
  have hB : 0 < B := by omega
  constructor
  · rw [Nat.mul_comm, Nat.mul_add_div hB, Nat.div_eq_of_lt hs]; simp
  · rw [Nat.mul_comm, Nat.mul_add_mod, Nat.mod_eq_of_lt hs]

/-- `(start + BLOCK_SIZE) & !BLOCK_MASK`: the end of the block that holds `start` -/
theorem block_end (B i : Nat) (hB : 0 < B) : (i + B) - (i + B) % B = (i / B + 1) * B := by
  have h1 : (i + B) % B = i % B := Nat.add_mod_right i B
  have h2 := index_split B i
  rw [h1, Nat.add_mul]; omega

/-- the last-slot tests of push: `id < BLOCK_MASK` / `id == BLOCK_MASK` with `BLOCK_MASK = B - 1` -/
theorem last_slot_tests (B id : Nat) (hB : 0 < B) : (id < B - 1 ↔ id + 1 < B) ∧ (id = B - 1 ↔ id + 1 = B) := by
  constructor <;> omega

end MayVerif.MpscBits
