/-
  Level-B spmc: `InvS` is preserved by every step (given that the block `head` points to is live, which the
  counting invariant of `Rel` provides) and holds initially.
-/
import MayVerif.Proof.Queue.Spmc.PS_idle
import MayVerif.Proof.Queue.Spmc.PS_pu0
import MayVerif.Proof.Queue.Spmc.PS_pu1
import MayVerif.Proof.Queue.Spmc.PS_pu2
import MayVerif.Proof.Queue.Spmc.PS_pu3
import MayVerif.Proof.Queue.Spmc.PS_pu4
import MayVerif.Proof.Queue.Spmc.PS_t0
import MayVerif.Proof.Queue.Spmc.PS_t1
import MayVerif.Proof.Queue.Spmc.PS_t2
import MayVerif.Proof.Queue.Spmc.PS_tT
import MayVerif.Proof.Queue.Spmc.PS_tE
import MayVerif.Proof.Queue.Spmc.PS_t4
import MayVerif.Proof.Queue.Spmc.PS_t5
import MayVerif.Proof.Queue.Spmc.PS_t6r
import MayVerif.Proof.Queue.Spmc.PS_t6
import MayVerif.Proof.Queue.Spmc.PS_t7
import MayVerif.Proof.Queue.Spmc.PS_t8
import MayVerif.Proof.Queue.Spmc.PS_t9
import MayVerif.Proof.Queue.Spmc.PS_tF
import MayVerif.Proof.Queue.Spmc.PS_tFree
import MayVerif.Proof.Queue.Spmc.PS_d1
import MayVerif.Proof.Queue.Spmc.PS_d2
import MayVerif.Proof.Queue.Spmc.PS_d3
import MayVerif.Proof.Queue.Spmc.PS_rPush
import MayVerif.Proof.Queue.Spmc.PS_rPop
import MayVerif.Proof.Queue.Spmc.PS_rLpop
import MayVerif.Proof.Queue.Spmc.PS_rBulk
import MayVerif.Proof.Queue.Spmc.PS_rSteal
import MayVerif.Proof.Queue.Spmc.PS_rDrop
import MayVerif.Proof.Queue.Spmc.PS_panic
namespace MayVerif.Spmc
local notation "Tid" => Nat

theorem invS_init (n : Nat) : InvS (init n) := by
  constructor <;> simp [init, newBlock, locOf, pu3Pc, bndPc, BSZ] <;> (try omega)

theorem invS_step (s s' : St) (t : Tid) (e : Env) (h : InvS s) (hl : HeadLive s)
    (hgo : ∀ q, onQ t (s.pcs t) q = true → (s.sh.qs q).gone = false)
    (hs : step s t e = some s') : InvS s' := by
  obtain ⟨n, sh, pcs⟩ := s
  simp only [step] at hs
  split at hs
  case isFalse => contradiction
  next hlt =>
  obtain ⟨hlt, hg⟩ := hlt
  split at hs
  · contradiction
  next sh' pc' hts =>
  simp only [Option.some.injEq] at hs
  subst hs
  simp only at hlt hgo
  generalize hpc : pcs t = pc at hts
  cases pc with
  | idle  => exact invS_idle n sh pcs t e  h hl hg hlt hgo hpc sh' pc' hts
  | pu0 q v k => exact invS_pu0 n sh pcs t e q v k h hl hg hlt hgo hpc sh' pc' hts
  | pu1 q v tb k => exact invS_pu1 n sh pcs t e q v tb k h hl hg hlt hgo hpc sh' pc' hts
  | pu2 q tb pi k => exact invS_pu2 n sh pcs t e q tb pi k h hl hg hlt hgo hpc sh' pc' hts
  | pu3 q nb pi k => exact invS_pu3 n sh pcs t e q nb pi k h hl hg hlt hgo hpc sh' pc' hts
  | pu4 q pi k => exact invS_pu4 n sh pcs t e q pi k h hl hg hlt hgo hpc sh' pc' hts
  | t0 l => exact invS_t0 n sh pcs t e l h hl hg hlt hgo hpc sh' pc' hts
  | t1 l => exact invS_t1 n sh pcs t e l h hl hg hlt hgo hpc sh' pc' hts
  | t2 l => exact invS_t2 n sh pcs t e l h hl hg hlt hgo hpc sh' pc' hts
  | tT l => exact invS_tT n sh pcs t e l h hl hg hlt hgo hpc sh' pc' hts
  | tE l => exact invS_tE n sh pcs t e l h hl hg hlt hgo hpc sh' pc' hts
  | t4 l lk nid => exact invS_t4 n sh pcs t e l lk nid h hl hg hlt hgo hpc sh' pc' hts
  | t5 l lo => exact invS_t5 n sh pcs t e l lo h hl hg hlt hgo hpc sh' pc' hts
  | t6r l => exact invS_t6r n sh pcs t e l h hl hg hlt hgo hpc sh' pc' hts
  | t6 l lo hi => exact invS_t6 n sh pcs t e l lo hi h hl hg hlt hgo hpc sh' pc' hts
  | t7 l lo hi nh => exact invS_t7 n sh pcs t e l lo hi nh h hl hg hlt hgo hpc sh' pc' hts
  | t8 l lo hi => exact invS_t8 n sh pcs t e l lo hi h hl hg hlt hgo hpc sh' pc' hts
  | t9 l lo => exact invS_t9 n sh pcs t e l lo h hl hg hlt hgo hpc sh' pc' hts
  | tF l lo hi sk => exact invS_tF n sh pcs t e l lo hi sk h hl hg hlt hgo hpc sh' pc' hts
  | tFree l vals => exact invS_tFree n sh pcs t e l vals h hl hg hlt hgo hpc sh' pc' hts
  | d1 q => exact invS_d1 n sh pcs t e q h hl hg hlt hgo hpc sh' pc' hts
  | d2 q hb => exact invS_d2 n sh pcs t e q hb h hl hg hlt hgo hpc sh' pc' hts
  | d3 q b => exact invS_d3 n sh pcs t e q b h hl hg hlt hgo hpc sh' pc' hts
  | rPush  => exact invS_rPush n sh pcs t e  h hl hg hlt hgo hpc sh' pc' hts
  | rPop r => exact invS_rPop n sh pcs t e r h hl hg hlt hgo hpc sh' pc' hts
  | rLpop r => exact invS_rLpop n sh pcs t e r h hl hg hlt hgo hpc sh' pc' hts
  | rBulk items m => exact invS_rBulk n sh pcs t e items m h hl hg hlt hgo hpc sh' pc' hts
  | rSteal r => exact invS_rSteal n sh pcs t e r h hl hg hlt hgo hpc sh' pc' hts
  | rDrop  => exact invS_rDrop n sh pcs t e  h hl hg hlt hgo hpc sh' pc' hts
  | panic  => exact invS_panic n sh pcs t e  h hl hg hlt hgo hpc sh' pc' hts

end MayVerif.Spmc
