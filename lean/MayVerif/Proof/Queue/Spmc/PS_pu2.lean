import MayVerif.Proof.Queue.Spmc.TacS
namespace MayVerif.Spmc
local notation "Tid" => Nat
local notation "Bid" => Nat
local notation "Qid" => Nat
local notation "Val" => Nat

set_option hygiene false in
local macro "fin_pc" : tactic => `(tactic| (
  constructor
  case bown => (sS; have hx := h.bown; simp only [BSZ] at hx ⊢; first | exact hx | grind [upd, locOf, ph, bndPc, pu3Pc, mkLoc, BSZ, newBlock] | grind (splits := 25) [upd, locOf, ph, bndPc, pu3Pc, mkLoc, BSZ, newBlock])
  case balign => (sS; have hx := h.balign; simp only [BSZ] at hx ⊢; first | exact hx | grind [upd, locOf, ph, bndPc, pu3Pc, mkLoc, BSZ, newBlock] | grind (splits := 25) [upd, locOf, ph, bndPc, pu3Pc, mkLoc, BSZ, newBlock])
  case bnext => (sS; have hx := h.bnext; have xbalign := h.balign; simp only [BSZ] at hx xbalign ⊢; first | exact hx | grind [upd, locOf, ph, bndPc, pu3Pc, mkLoc, BSZ, newBlock] | grind (splits := 25) [upd, locOf, ph, bndPc, pu3Pc, mkLoc, BSZ, newBlock])
  case uniq => (sS; have hx := h.uniq; have xqmax := h.qmax; simp only [BSZ] at hx xqmax ⊢; first | exact hx | grind [upd, locOf, ph, bndPc, pu3Pc, mkLoc, BSZ, newBlock] | grind (splits := 25) [upd, locOf, ph, bndPc, pu3Pc, mkLoc, BSZ, newBlock])
  case bnone => (sS; have hx := h.bnone; have xqlast := h.qlast; simp only [BSZ] at hx xqlast ⊢; first | exact hx | grind [upd, locOf, ph, bndPc, pu3Pc, mkLoc, BSZ, newBlock] | grind (splits := 25) [upd, locOf, ph, bndPc, pu3Pc, mkLoc, BSZ, newBlock])
  case qlast => (sS; have hx := h.qlast; simp only [BSZ] at hx ⊢; first | exact hx | grind [upd, locOf, ph, bndPc, pu3Pc, mkLoc, BSZ, newBlock] | grind (splits := 25) [upd, locOf, ph, bndPc, pu3Pc, mkLoc, BSZ, newBlock])
  case qmax => (sS; have hx := h.qmax; have xqlast := h.qlast; simp only [BSZ] at hx xqlast ⊢; first | exact hx | grind [upd, locOf, ph, bndPc, pu3Pc, mkLoc, BSZ, newBlock] | grind (splits := 25) [upd, locOf, ph, bndPc, pu3Pc, mkLoc, BSZ, newBlock])
  case qmaxid => (sS; have hx := h.qmaxid; have xqlast := h.qlast; simp only [BSZ] at hx xqlast ⊢; first | exact hx | grind [upd, locOf, ph, bndPc, pu3Pc, mkLoc, BSZ, newBlock] | grind (splits := 25) [upd, locOf, ph, bndPc, pu3Pc, mkLoc, BSZ, newBlock])
  case ffg => (sS; have hx := h.ffg; simp only [BSZ] at hx ⊢; first | exact hx | grind [upd, locOf, ph, bndPc, pu3Pc, mkLoc, BSZ, newBlock] | grind (splits := 25) [upd, locOf, ph, bndPc, pu3Pc, mkLoc, BSZ, newBlock])
  case qtb => (sS; have hx := h.qtb; simp only [BSZ] at hx ⊢; first | exact hx | grind [upd, locOf, ph, bndPc, pu3Pc, mkLoc, BSZ, newBlock] | grind (splits := 25) [upd, locOf, ph, bndPc, pu3Pc, mkLoc, BSZ, newBlock])
  case qti => (sS; have hx := h.qti; have xqlast := h.qlast; simp only [BSZ] at hx xqlast ⊢; first | exact hx | grind [upd, locOf, ph, bndPc, pu3Pc, mkLoc, BSZ, newBlock] | grind (splits := 25) [upd, locOf, ph, bndPc, pu3Pc, mkLoc, BSZ, newBlock])
  case qtn => (sS; have hx := h.qtn; have xqlast := h.qlast; simp only [BSZ] at hx xqlast ⊢; first | exact hx | grind [upd, locOf, ph, bndPc, pu3Pc, mkLoc, BSZ, newBlock] | grind (splits := 25) [upd, locOf, ph, bndPc, pu3Pc, mkLoc, BSZ, newBlock])
  case qtbnd => (sS; have hx := h.qtbnd; have xqlast := h.qlast; simp only [BSZ] at hx xqlast ⊢; first | exact hx | grind [upd, locOf, ph, bndPc, pu3Pc, mkLoc, BSZ, newBlock] | grind (splits := 25) [upd, locOf, ph, bndPc, pu3Pc, mkLoc, BSZ, newBlock])
  case qhead => (sS; have hx := h.qhead; have xqlast := h.qlast; simp only [BSZ] at hx xqlast ⊢; first | exact hx | grind [upd, locOf, ph, bndPc, pu3Pc, mkLoc, BSZ, newBlock] | grind (splits := 25) [upd, locOf, ph, bndPc, pu3Pc, mkLoc, BSZ, newBlock])
  case pu0 => (sS; have hx := h.pu0; simp only [BSZ] at hx ⊢; first | exact hx | grind [upd, locOf, ph, bndPc, pu3Pc, mkLoc, BSZ, newBlock] | grind (splits := 25) [upd, locOf, ph, bndPc, pu3Pc, mkLoc, BSZ, newBlock])
  case pu1 => (sS; have hx := h.pu1; simp only [BSZ] at hx ⊢; first | exact hx | grind [upd, locOf, ph, bndPc, pu3Pc, mkLoc, BSZ, newBlock] | grind (splits := 25) [upd, locOf, ph, bndPc, pu3Pc, mkLoc, BSZ, newBlock])
  case pu2 => (sS; have hx := h.pu2; simp only [BSZ] at hx ⊢; first | exact hx | grind [upd, locOf, ph, bndPc, pu3Pc, mkLoc, BSZ, newBlock] | grind (splits := 25) [upd, locOf, ph, bndPc, pu3Pc, mkLoc, BSZ, newBlock])
  case pu3 => (sS; have hx := h.pu3; simp only [BSZ] at hx ⊢; first | exact hx | grind [upd, locOf, ph, bndPc, pu3Pc, mkLoc, BSZ, newBlock] | grind (splits := 25) [upd, locOf, ph, bndPc, pu3Pc, mkLoc, BSZ, newBlock])
  case pu4 => (sS; have hx := h.pu4; simp only [BSZ] at hx ⊢; first | exact hx | grind [upd, locOf, ph, bndPc, pu3Pc, mkLoc, BSZ, newBlock] | grind (splits := 25) [upd, locOf, ph, bndPc, pu3Pc, mkLoc, BSZ, newBlock])
  case lq => (sS; have hx := h.lq; simp only [BSZ] at hx ⊢; first | exact hx | grind [upd, locOf, ph, bndPc, pu3Pc, mkLoc, BSZ, newBlock] | grind (splits := 25) [upd, locOf, ph, bndPc, pu3Pc, mkLoc, BSZ, newBlock])
  case lhb => (sS; have hx := h.lhb; simp only [BSZ] at hx ⊢; first | exact hx | grind [upd, locOf, ph, bndPc, pu3Pc, mkLoc, BSZ, newBlock] | grind (splits := 25) [upd, locOf, ph, bndPc, pu3Pc, mkLoc, BSZ, newBlock])
  case ofr => (sS; have hx := h.ofr; have xlhb := h.lhb; have xqlast := h.qlast; simp only [BSZ] at hx xlhb xqlast ⊢; first | exact hx | grind [upd, locOf, ph, bndPc, pu3Pc, mkLoc, BSZ, newBlock] | grind (splits := 25) [upd, locOf, ph, bndPc, pu3Pc, mkLoc, BSZ, newBlock])
  case opi => (sS; have hx := h.opi; simp only [BSZ] at hx ⊢; first | exact hx | grind [upd, locOf, ph, bndPc, pu3Pc, mkLoc, BSZ, newBlock] | grind (splits := 25) [upd, locOf, ph, bndPc, pu3Pc, mkLoc, BSZ, newBlock])
  case otb => (sS; have hx := h.otb; simp only [BSZ] at hx ⊢; first | exact hx | grind [upd, locOf, ph, bndPc, pu3Pc, mkLoc, BSZ, newBlock] | grind (splits := 25) [upd, locOf, ph, bndPc, pu3Pc, mkLoc, BSZ, newBlock])
  case one => (sS; have hx := h.one; have xlhb := h.lhb; simp only [BSZ] at hx xlhb ⊢; first | exact hx | grind [upd, locOf, ph, bndPc, pu3Pc, mkLoc, BSZ, newBlock] | grind (splits := 25) [upd, locOf, ph, bndPc, pu3Pc, mkLoc, BSZ, newBlock])
  case t4 => (sS; have hx := h.t4; simp only [BSZ] at hx ⊢; first | exact hx | grind [upd, locOf, ph, bndPc, pu3Pc, mkLoc, BSZ, newBlock] | grind (splits := 25) [upd, locOf, ph, bndPc, pu3Pc, mkLoc, BSZ, newBlock])
  case t4k => (sS; have hx := h.t4k; simp only [BSZ] at hx ⊢; first | exact hx | grind [upd, locOf, ph, bndPc, pu3Pc, mkLoc, BSZ, newBlock] | grind (splits := 25) [upd, locOf, ph, bndPc, pu3Pc, mkLoc, BSZ, newBlock])
  case t4n => (sS; have hx := h.t4n; simp only [BSZ] at hx ⊢; first | exact hx | grind [upd, locOf, ph, bndPc, pu3Pc, mkLoc, BSZ, newBlock] | grind (splits := 25) [upd, locOf, ph, bndPc, pu3Pc, mkLoc, BSZ, newBlock])
  case t5 => (sS; have hx := h.t5; have xlhb := h.lhb; simp only [BSZ] at hx xlhb ⊢; first | exact hx | grind [upd, locOf, ph, bndPc, pu3Pc, mkLoc, BSZ, newBlock] | grind (splits := 25) [upd, locOf, ph, bndPc, pu3Pc, mkLoc, BSZ, newBlock])
  case t6 => (sS; have hx := h.t6; have xlhb := h.lhb; simp only [BSZ] at hx xlhb ⊢; first | exact hx | grind [upd, locOf, ph, bndPc, pu3Pc, mkLoc, BSZ, newBlock] | grind (splits := 25) [upd, locOf, ph, bndPc, pu3Pc, mkLoc, BSZ, newBlock])
  case t7 => (sS; have hx := h.t7; have xlhb := h.lhb; simp only [BSZ] at hx xlhb ⊢; first | exact hx | grind [upd, locOf, ph, bndPc, pu3Pc, mkLoc, BSZ, newBlock] | grind (splits := 25) [upd, locOf, ph, bndPc, pu3Pc, mkLoc, BSZ, newBlock])
  case t8 => (sS; have hx := h.t8; have xlhb := h.lhb; simp only [BSZ] at hx xlhb ⊢; first | exact hx | grind [upd, locOf, ph, bndPc, pu3Pc, mkLoc, BSZ, newBlock] | grind (splits := 25) [upd, locOf, ph, bndPc, pu3Pc, mkLoc, BSZ, newBlock])
  case tF => (sS; have hx := h.tF; have xlhb := h.lhb; simp only [BSZ] at hx xlhb ⊢; first | exact hx | grind [upd, locOf, ph, bndPc, pu3Pc, mkLoc, BSZ, newBlock] | grind (splits := 25) [upd, locOf, ph, bndPc, pu3Pc, mkLoc, BSZ, newBlock])
  case t9 => (sS; have hx := h.t9; simp only [BSZ] at hx ⊢; first | exact hx | grind [upd, locOf, ph, bndPc, pu3Pc, mkLoc, BSZ, newBlock] | grind (splits := 25) [upd, locOf, ph, bndPc, pu3Pc, mkLoc, BSZ, newBlock])
  case tTk => (sS; have hx := h.tTk; simp only [BSZ] at hx ⊢; first | exact hx | grind [upd, locOf, ph, bndPc, pu3Pc, mkLoc, BSZ, newBlock] | grind (splits := 25) [upd, locOf, ph, bndPc, pu3Pc, mkLoc, BSZ, newBlock])
  case d1 => (sS; have hx := h.d1; simp only [BSZ] at hx ⊢; first | exact hx | grind [upd, locOf, ph, bndPc, pu3Pc, mkLoc, BSZ, newBlock] | grind (splits := 25) [upd, locOf, ph, bndPc, pu3Pc, mkLoc, BSZ, newBlock])
  case d2 => (sS; have hx := h.d2; simp only [BSZ] at hx ⊢; first | exact hx | grind [upd, locOf, ph, bndPc, pu3Pc, mkLoc, BSZ, newBlock] | grind (splits := 25) [upd, locOf, ph, bndPc, pu3Pc, mkLoc, BSZ, newBlock])
  case d3 => (sS; have hx := h.d3; simp only [BSZ] at hx ⊢; first | exact hx | grind [upd, locOf, ph, bndPc, pu3Pc, mkLoc, BSZ, newBlock] | grind (splits := 25) [upd, locOf, ph, bndPc, pu3Pc, mkLoc, BSZ, newBlock])
  case fresh => (sS; have hx := h.fresh; simp only [BSZ] at hx ⊢; first | exact hx | grind [upd, locOf, ph, bndPc, pu3Pc, mkLoc, BSZ, newBlock] | grind (splits := 25) [upd, locOf, ph, bndPc, pu3Pc, mkLoc, BSZ, newBlock])
  case idle => (sS; have hx := h.idle; simp only [BSZ] at hx ⊢; first | exact hx | grind [upd, locOf, ph, bndPc, pu3Pc, mkLoc, BSZ, newBlock] | grind (splits := 25) [upd, locOf, ph, bndPc, pu3Pc, mkLoc, BSZ, newBlock])
  ))

set_option maxHeartbeats 1600000 in
theorem invS_pu2 (n : Nat) (sh : Sh) (pcs : Tid → Pc) (t : Tid) (e : Env) (q : Qid) (tb : Bid) (pi : Nat) (k : PK)
    (h : InvS ⟨n, sh, pcs⟩) (hl : HeadLive ⟨n, sh, pcs⟩) (hg : guard ⟨n, sh, pcs⟩ t e = true) (ht : t < n)
    (hgo : ∀ q, onQ t (pcs t) q = true → (sh.qs q).gone = false)
    (hpc : pcs t = .pu2 q tb pi k) (sh' : Sh) (pc' : Pc)
    (hts : tstep sh t (.pu2 q tb pi k) e = some (sh', pc')) : InvS ⟨n, sh', upd pcs t pc'⟩ := by
  have mpc := h.pu2 t q tb pi k hpc
  have mtb := h.qtb t mpc.2.1 (by simp [hpc, pu3Pc, bndPc])
  have mql := h.qlast t mpc.2.1
  have mqi := h.qti t mpc.2.1
  have mqn := h.qtn t mpc.2.1 (by simp [hpc, pu3Pc, bndPc])
  try simp only [BSZ] at mpc
  try simp only [BSZ] at mtb
  try simp only [BSZ] at mql
  try simp only [BSZ] at mqi
  try simp only [BSZ] at mqn
  simp only [tstep, Option.some.injEq, Prod.mk.injEq] at hts
  obtain ⟨rfl, rfl⟩ := hts
  fin_pc

end MayVerif.Spmc
