import MayVerif.Proof.Queue.Spmc.TacS
namespace MayVerif.Spmc
local notation "Tid" => Nat
local notation "Bid" => Nat
local notation "Qid" => Nat
local notation "Val" => Nat

set_option hygiene false in
local macro "fin_pc" : tactic => `(tactic| (
  constructor
  case bown => (sS; have hx := h.bown; simp only [BSZ] at hx ⊢; first | exact hx | grind [upd, locOf, ph, bndPc, pu3Pc, mkLoc, BSZ, newBlock] | grind (splits := 25) [upd, locOf, ph, bndPc, pu3Pc, mkLoc, BSZ, newBlock])
  case balign => (sS; have hx := h.balign; simp only [BSZ] at hx ⊢; first | exact hx | grind [upd, locOf, ph, bndPc, pu3Pc, mkLoc, BSZ, newBlock] | grind (splits := 25) [upd, locOf, ph, bndPc, pu3Pc, mkLoc, BSZ, newBlock])
  case bnext => (sS; have hx := h.bnext; simp only [BSZ] at hx ⊢; first | exact hx | grind [upd, locOf, ph, bndPc, pu3Pc, mkLoc, BSZ, newBlock] | grind (splits := 25) [upd, locOf, ph, bndPc, pu3Pc, mkLoc, BSZ, newBlock])
  case uniq => (sS; have hx := h.uniq; simp only [BSZ] at hx ⊢; first | exact hx | grind [upd, locOf, ph, bndPc, pu3Pc, mkLoc, BSZ, newBlock] | grind (splits := 25) [upd, locOf, ph, bndPc, pu3Pc, mkLoc, BSZ, newBlock])
  case bnone => (sS; have hx := h.bnone; simp only [BSZ] at hx ⊢; first | exact hx | grind [upd, locOf, ph, bndPc, pu3Pc, mkLoc, BSZ, newBlock] | grind (splits := 25) [upd, locOf, ph, bndPc, pu3Pc, mkLoc, BSZ, newBlock])
  case qlast => (sS; have hx := h.qlast; simp only [BSZ] at hx ⊢; first | exact hx | grind [upd, locOf, ph, bndPc, pu3Pc, mkLoc, BSZ, newBlock] | grind (splits := 25) [upd, locOf, ph, bndPc, pu3Pc, mkLoc, BSZ, newBlock])
  case qmax => (sS; have hx := h.qmax; simp only [BSZ] at hx ⊢; first | exact hx | grind [upd, locOf, ph, bndPc, pu3Pc, mkLoc, BSZ, newBlock] | grind (splits := 25) [upd, locOf, ph, bndPc, pu3Pc, mkLoc, BSZ, newBlock])
  case qmaxid => (sS; have hx := h.qmaxid; simp only [BSZ] at hx ⊢; first | exact hx | grind [upd, locOf, ph, bndPc, pu3Pc, mkLoc, BSZ, newBlock] | grind (splits := 25) [upd, locOf, ph, bndPc, pu3Pc, mkLoc, BSZ, newBlock])
  case ffg => (sS; have hx := h.ffg; simp only [BSZ] at hx ⊢; first | exact hx | grind [upd, locOf, ph, bndPc, pu3Pc, mkLoc, BSZ, newBlock] | grind (splits := 25) [upd, locOf, ph, bndPc, pu3Pc, mkLoc, BSZ, newBlock])
  case qtb => (sS; have hx := h.qtb; simp only [BSZ] at hx ⊢; first | exact hx | grind [upd, locOf, ph, bndPc, pu3Pc, mkLoc, BSZ, newBlock] | grind (splits := 25) [upd, locOf, ph, bndPc, pu3Pc, mkLoc, BSZ, newBlock])
  case qti => (sS; have hx := h.qti; simp only [BSZ] at hx ⊢; first | exact hx | grind [upd, locOf, ph, bndPc, pu3Pc, mkLoc, BSZ, newBlock] | grind (splits := 25) [upd, locOf, ph, bndPc, pu3Pc, mkLoc, BSZ, newBlock])
  case qtn => (sS; have hx := h.qtn; simp only [BSZ] at hx ⊢; first | exact hx | grind [upd, locOf, ph, bndPc, pu3Pc, mkLoc, BSZ, newBlock] | grind (splits := 25) [upd, locOf, ph, bndPc, pu3Pc, mkLoc, BSZ, newBlock])
  case qtbnd => (sS; have hx := h.qtbnd; simp only [BSZ] at hx ⊢; first | exact hx | grind [upd, locOf, ph, bndPc, pu3Pc, mkLoc, BSZ, newBlock] | grind (splits := 25) [upd, locOf, ph, bndPc, pu3Pc, mkLoc, BSZ, newBlock])
  case qhead => (sS; have hx := h.qhead; simp only [BSZ] at hx ⊢; first | exact hx | grind [upd, locOf, ph, bndPc, pu3Pc, mkLoc, BSZ, newBlock] | grind (splits := 25) [upd, locOf, ph, bndPc, pu3Pc, mkLoc, BSZ, newBlock])
  case pu0 => (sS; have hx := h.pu0; simp only [BSZ] at hx ⊢; first | exact hx | grind [upd, locOf, ph, bndPc, pu3Pc, mkLoc, BSZ, newBlock] | grind (splits := 25) [upd, locOf, ph, bndPc, pu3Pc, mkLoc, BSZ, newBlock])
  case pu1 => (sS; have hx := h.pu1; simp only [BSZ] at hx ⊢; first | exact hx | grind [upd, locOf, ph, bndPc, pu3Pc, mkLoc, BSZ, newBlock] | grind (splits := 25) [upd, locOf, ph, bndPc, pu3Pc, mkLoc, BSZ, newBlock])
  case pu2 => (sS; have hx := h.pu2; simp only [BSZ] at hx ⊢; first | exact hx | grind [upd, locOf, ph, bndPc, pu3Pc, mkLoc, BSZ, newBlock] | grind (splits := 25) [upd, locOf, ph, bndPc, pu3Pc, mkLoc, BSZ, newBlock])
  case pu3 => (sS; have hx := h.pu3; simp only [BSZ] at hx ⊢; first | exact hx | grind [upd, locOf, ph, bndPc, pu3Pc, mkLoc, BSZ, newBlock] | grind (splits := 25) [upd, locOf, ph, bndPc, pu3Pc, mkLoc, BSZ, newBlock])
  case pu4 => (sS; have hx := h.pu4; simp only [BSZ] at hx ⊢; first | exact hx | grind [upd, locOf, ph, bndPc, pu3Pc, mkLoc, BSZ, newBlock] | grind (splits := 25) [upd, locOf, ph, bndPc, pu3Pc, mkLoc, BSZ, newBlock])
  case lq => (sS; have hx := h.lq; simp only [BSZ] at hx ⊢; first | exact hx | grind [upd, locOf, ph, bndPc, pu3Pc, mkLoc, BSZ, newBlock] | grind (splits := 25) [upd, locOf, ph, bndPc, pu3Pc, mkLoc, BSZ, newBlock])
  case lhb => (sS; have hx := h.lhb; simp only [BSZ] at hx ⊢; first | exact hx | grind [upd, locOf, ph, bndPc, pu3Pc, mkLoc, BSZ, newBlock] | grind (splits := 25) [upd, locOf, ph, bndPc, pu3Pc, mkLoc, BSZ, newBlock])
  case ofr => (sS; have hx := h.ofr; simp only [BSZ] at hx ⊢; first | exact hx | grind [upd, locOf, ph, bndPc, pu3Pc, mkLoc, BSZ, newBlock] | grind (splits := 25) [upd, locOf, ph, bndPc, pu3Pc, mkLoc, BSZ, newBlock])
  case opi => (sS; have hx := h.opi; simp only [BSZ] at hx ⊢; first | exact hx | grind [upd, locOf, ph, bndPc, pu3Pc, mkLoc, BSZ, newBlock] | grind (splits := 25) [upd, locOf, ph, bndPc, pu3Pc, mkLoc, BSZ, newBlock])
  case otb => (sS; have hx := h.otb; simp only [BSZ] at hx ⊢; first | exact hx | grind [upd, locOf, ph, bndPc, pu3Pc, mkLoc, BSZ, newBlock] | grind (splits := 25) [upd, locOf, ph, bndPc, pu3Pc, mkLoc, BSZ, newBlock])
  case one => (sS; have hx := h.one; simp only [BSZ] at hx ⊢; first | exact hx | grind [upd, locOf, ph, bndPc, pu3Pc, mkLoc, BSZ, newBlock] | grind (splits := 25) [upd, locOf, ph, bndPc, pu3Pc, mkLoc, BSZ, newBlock])
  case t4 => (sS; have hx := h.t4; simp only [BSZ] at hx ⊢; first | exact hx | grind [upd, locOf, ph, bndPc, pu3Pc, mkLoc, BSZ, newBlock] | grind (splits := 25) [upd, locOf, ph, bndPc, pu3Pc, mkLoc, BSZ, newBlock])
  case t4k => (sS; have hx := h.t4k; simp only [BSZ] at hx ⊢; first | exact hx | grind [upd, locOf, ph, bndPc, pu3Pc, mkLoc, BSZ, newBlock] | grind (splits := 25) [upd, locOf, ph, bndPc, pu3Pc, mkLoc, BSZ, newBlock])
  case t4n => (sS; have hx := h.t4n; simp only [BSZ] at hx ⊢; first | exact hx | grind [upd, locOf, ph, bndPc, pu3Pc, mkLoc, BSZ, newBlock] | grind (splits := 25) [upd, locOf, ph, bndPc, pu3Pc, mkLoc, BSZ, newBlock])
  case t5 => (sS; have hx := h.t5; simp only [BSZ] at hx ⊢; first | exact hx | grind [upd, locOf, ph, bndPc, pu3Pc, mkLoc, BSZ, newBlock] | grind (splits := 25) [upd, locOf, ph, bndPc, pu3Pc, mkLoc, BSZ, newBlock])
  case t6 => (sS; have hx := h.t6; simp only [BSZ] at hx ⊢; first | exact hx | grind [upd, locOf, ph, bndPc, pu3Pc, mkLoc, BSZ, newBlock] | grind (splits := 25) [upd, locOf, ph, bndPc, pu3Pc, mkLoc, BSZ, newBlock])
  case t7 => (sS; have hx := h.t7; simp only [BSZ] at hx ⊢; first | exact hx | grind [upd, locOf, ph, bndPc, pu3Pc, mkLoc, BSZ, newBlock] | grind (splits := 25) [upd, locOf, ph, bndPc, pu3Pc, mkLoc, BSZ, newBlock])
  case t8 => (sS; have hx := h.t8; simp only [BSZ] at hx ⊢; first | exact hx | grind [upd, locOf, ph, bndPc, pu3Pc, mkLoc, BSZ, newBlock] | grind (splits := 25) [upd, locOf, ph, bndPc, pu3Pc, mkLoc, BSZ, newBlock])
  case tF => (sS; have hx := h.tF; simp only [BSZ] at hx ⊢; first | exact hx | grind [upd, locOf, ph, bndPc, pu3Pc, mkLoc, BSZ, newBlock] | grind (splits := 25) [upd, locOf, ph, bndPc, pu3Pc, mkLoc, BSZ, newBlock])
  case t9 => (sS; have hx := h.t9; simp only [BSZ] at hx ⊢; first | exact hx | grind [upd, locOf, ph, bndPc, pu3Pc, mkLoc, BSZ, newBlock] | grind (splits := 25) [upd, locOf, ph, bndPc, pu3Pc, mkLoc, BSZ, newBlock])
  case tTk => (sS; have hx := h.tTk; simp only [BSZ] at hx ⊢; first | exact hx | grind [upd, locOf, ph, bndPc, pu3Pc, mkLoc, BSZ, newBlock] | grind (splits := 25) [upd, locOf, ph, bndPc, pu3Pc, mkLoc, BSZ, newBlock])
  case d1 => (sS; have hx := h.d1; simp only [BSZ] at hx ⊢; first | exact hx | grind [upd, locOf, ph, bndPc, pu3Pc, mkLoc, BSZ, newBlock] | grind (splits := 25) [upd, locOf, ph, bndPc, pu3Pc, mkLoc, BSZ, newBlock])
  case d2 => (sS; have hx := h.d2; simp only [BSZ] at hx ⊢; first | exact hx | grind [upd, locOf, ph, bndPc, pu3Pc, mkLoc, BSZ, newBlock] | grind (splits := 25) [upd, locOf, ph, bndPc, pu3Pc, mkLoc, BSZ, newBlock])
  case d3 => (sS; have hx := h.d3; simp only [BSZ] at hx ⊢; first | exact hx | grind [upd, locOf, ph, bndPc, pu3Pc, mkLoc, BSZ, newBlock] | grind (splits := 25) [upd, locOf, ph, bndPc, pu3Pc, mkLoc, BSZ, newBlock])
  case fresh => (sS; have hx := h.fresh; simp only [BSZ] at hx ⊢; first | exact hx | grind [upd, locOf, ph, bndPc, pu3Pc, mkLoc, BSZ, newBlock] | grind (splits := 25) [upd, locOf, ph, bndPc, pu3Pc, mkLoc, BSZ, newBlock])
  case idle => (sS; have hx := h.idle; simp only [BSZ] at hx ⊢; first | exact hx | grind [upd, locOf, ph, bndPc, pu3Pc, mkLoc, BSZ, newBlock] | grind (splits := 25) [upd, locOf, ph, bndPc, pu3Pc, mkLoc, BSZ, newBlock])
  ))

set_option maxHeartbeats 1600000 in
theorem invS_t7 (n : Nat) (sh : Sh) (pcs : Tid → Pc) (t : Tid) (e : Env) (l : Loc) (lo hi : Nat) (nh : HeadW)
    (h : InvS ⟨n, sh, pcs⟩) (hl : HeadLive ⟨n, sh, pcs⟩) (hg : guard ⟨n, sh, pcs⟩ t e = true) (ht : t < n)
    (hgo : ∀ q, onQ t (pcs t) q = true → (sh.qs q).gone = false)
    (hpc : pcs t = .t7 l lo hi nh) (sh' : Sh) (pc' : Pc)
    (hts : tstep sh t (.t7 l lo hi nh) e = some (sh', pc')) : InvS ⟨n, sh', upd pcs t pc'⟩ := by
  have hloc : locOf (pcs t) = some l := by rw [hpc]; rfl
  have hph : ph (pcs t) = 4 := by rw [hpc]; rfl
  have mlq := h.lq t l hloc
  have mlhb := h.lhb t l hloc (by show 1 ≤ ph (pcs t); omega)
  have mofr := h.ofr t l hloc (by show 1 ≤ ph (pcs t); omega)
  have mopi := h.opi t l hloc (by show 2 ≤ ph (pcs t); omega)
  have motb := h.otb t l hloc (by show 3 ≤ ph (pcs t); omega)
  have mone := h.one t l hloc (by show 4 ≤ ph (pcs t); omega)
  have mpc := h.t7 t l lo hi nh hpc
  try simp only [BSZ] at mlq
  try simp only [BSZ] at mlhb
  try simp only [BSZ] at mofr
  try simp only [BSZ] at mopi
  try simp only [BSZ] at motb
  try simp only [BSZ] at mone
  try simp only [BSZ] at mpc
  simp only [tstep, Option.some.injEq, Prod.mk.injEq] at hts
  obtain ⟨rfl, rfl⟩ := hts
  fin_pc

end MayVerif.Spmc
