import MayVerif.Proof.Queue.Spmc.Exact
import MayVerif.Proof.Queue.Spmc.RelLemmas
