/-
  Level-B spmc: local facts about the step function (composition of `steal_into`, where blocks are freed).
-/
import MayVerif.Model.Queue.Spmc
namespace MayVerif.Spmc
local notation "Tid" => Nat
local notation "Bid" => Nat
local notation "Qid" => Nat
local notation "Val" => Nat

/-- the values a `steal_into` in progress still has to push to the thief's own queue (in this order) -/
def pending : Pc → Option (List Val)
  | .pu0 _ v (.steal xs _) | .pu1 _ v _ (.steal xs _) => some (v :: xs)
  | .pu2 _ _ _ (.steal xs _) | .pu3 _ _ _ (.steal xs _) | .pu4 _ _ (.steal xs _) => some xs
  | .rSteal _ => some []
  | _ => none

/-- the value a `steal_into` in progress will return -/
def willReturn : Pc → Option (Option Val)
  | .pu0 _ _ (.steal _ r) | .pu1 _ _ _ (.steal _ r) | .pu2 _ _ _ (.steal _ r) | .pu3 _ _ _ (.steal _ r)
  | .pu4 _ _ (.steal _ r) | .rSteal r => some r
  | _ => none

/-- the queue a re-queueing push works on -/
def pushQ : Pc → Option Qid
  | .pu0 q .. | .pu1 q .. | .pu2 q .. | .pu3 q .. | .pu4 q .. => some q
  | _ => none

theorem deliver_steal (me : Tid) (l : Loc) (vals : List Val) (hk : l.k = .bulk) (hc : l.cx = .steal) :
    pending (deliver me l vals) = some vals.dropLast ∧ willReturn (deliver me l vals) = some vals.getLast? ∧
    (vals.dropLast ≠ [] → pushQ (deliver me l vals) = some me) := by
  simp only [deliver, hk, hc, afterPush]
  cases h : vals.dropLast <;> simp [pending, willReturn, pushQ]

/-- a step inside the re-queueing loop keeps the return value; the slot write of a push (`pu1`) takes exactly
    the front value off the plan and stores it at `tail.index` of the tail block of the queue pushed to; every
    other step keeps the plan; the step that publishes (`pu4`) advances `tail.index` by one and, if values are
    left, goes on with a push to the thief's own queue -/
theorem requeue_step (sh : Sh) (me : Tid) (pc : Pc) (e : Env) (sh' : Sh) (pc' : Pc) (todo : List Val)
    (hp : pending pc = some todo) (hne : ∀ r, pc ≠ .rSteal r) (hts : tstep sh me pc e = some (sh', pc')) :
    willReturn pc' = willReturn pc ∧
    (∀ q v tb k, pc = .pu1 q v tb k →
        (∃ rest, todo = v :: rest ∧ pending pc' = some rest) ∧ (sh'.blks tb).data ((sh.qs q).tidx % BSZ) = some v) ∧
    ((∀ q v tb k, pc ≠ .pu1 q v tb k) → pending pc' = some todo) ∧
    (∀ q pi k, pc = .pu4 q pi k → (sh'.qs q).tidx = pi + 1 ∧ (todo ≠ [] → pushQ pc' = some me)) := by
  cases pc with
  | pu0 q v k =>
    cases k with
    | plain => simp [pending] at hp
    | steal xs r =>
      simp only [tstep, Option.some.injEq, Prod.mk.injEq] at hts
      obtain ⟨rfl, rfl⟩ := hts
      simp_all [pending, willReturn]
  | pu1 q v tb k =>
    cases k with
    | plain => simp [pending] at hp
    | steal xs r =>
      simp only [tstep, Option.some.injEq, Prod.mk.injEq] at hts
      obtain ⟨rfl, rfl⟩ := hts
      simp only [pending, Option.some.injEq] at hp
      subst hp
      refine ⟨(by split <;> simp [willReturn]), ?_, ?_, (by intro q pi k h; cases h)⟩
      · intro q' v' tb' k' h
        cases h
        refine ⟨⟨xs, rfl, (by split <;> simp [pending])⟩, ?_⟩
        simp only [setBlk, upd, if_true]
      · intro h; exact absurd rfl (h q v tb _)
  | pu2 q tb pi k =>
    cases k with
    | plain => simp [pending] at hp
    | steal xs r =>
      simp only [tstep, Option.some.injEq, Prod.mk.injEq] at hts
      obtain ⟨rfl, rfl⟩ := hts
      simp_all [pending, willReturn]
  | pu3 q nb pi k =>
    cases k with
    | plain => simp [pending] at hp
    | steal xs r =>
      simp only [tstep, Option.some.injEq, Prod.mk.injEq] at hts
      obtain ⟨rfl, rfl⟩ := hts
      simp_all [pending, willReturn]
  | pu4 q pi k =>
    cases k with
    | plain => simp [pending] at hp
    | steal xs r =>
      simp only [tstep, Option.some.injEq, Prod.mk.injEq] at hts
      obtain ⟨rfl, rfl⟩ := hts
      simp only [pending, Option.some.injEq] at hp
      subst hp
      refine ⟨(by cases xs <;> simp [afterPush, willReturn]), (by intro q' v tb k h; cases h),
              (by intro _; cases xs <;> simp [afterPush, pending]), ?_⟩
      intro q' pi' k' h
      cases h
      refine ⟨(by simp [upd]), ?_⟩
      intro hne'
      cases xs with
      | nil => exact absurd rfl hne'
      | cons x xs => simp [afterPush, pushQ]
  | rSteal r => exact absurd rfl (hne r)
  | _ => simp [pending] at hp

end MayVerif.Spmc
