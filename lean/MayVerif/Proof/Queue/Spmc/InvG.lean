/-
  Level-B spmc: `InvG` – `Drop` is exclusive: while the `Drop` of a queue runs, the dropping actor is the only
  one inside a routine that has a reference to that queue, and after it nobody is.
-/
import MayVerif.Proof.Queue.Spmc.Abs
import MayVerif.Proof.Queue.Spmc.TacS
namespace MayVerif.Spmc
local notation "Tid" => Nat
local notation "Bid" => Nat
local notation "Qid" => Nat
local notation "Val" => Nat

theorem invG_init (n : Nat) : InvG (init n) := by
  constructor <;> simp [init, onQ, dropOn]

/-- a step that only moves on inside its routine (no new queue reference, `dead`/`gone` untouched) -/
theorem invG_mono (n : Nat) (sh sh' : Sh) (pcs : Tid → Pc) (t : Tid) (pc' : Pc) (h : InvG ⟨n, sh, pcs⟩)
    (hon : ∀ q, onQ t pc' q = true → onQ t (pcs t) q = true)
    (hdr : ∀ q, dropOn pc' q = true → dropOn (pcs t) q = true)
    (hdg : ∀ q, (sh'.qs q).dead = (sh.qs q).dead ∧ (sh'.qs q).gone = (sh.qs q).gone) :
    InvG ⟨n, sh', upd pcs t pc'⟩ := by
  obtain ⟨hgd, hon', hun, hdr'⟩ := h
  simp only at hgd hon' hun hdr'
  constructor <;> simp only []
  · intro q; rw [(hdg q).1, (hdg q).2]; exact hgd q
  · intro u q; rw [(hdg q).2]; simp only [upd]; split
    · next hu => subst hu; intro h1; exact hon' u q (hon q h1)
    · exact hon' u q
  · intro u v q; rw [(hdg q).1]; simp only [upd]
    intro hd h1 h2
    have e1 : onQ u (pcs u) q = true := by
      split at h1
      · next hu => subst hu; exact hon q h1
      · exact h1
    have e2 : onQ v (pcs v) q = true := by
      split at h2
      · next hu => subst hu; exact hon q h2
      · exact h2
    exact hun u v q hd e1 e2
  · intro u q; rw [(hdg q).1]; simp only [upd]; split
    · next hu => subst hu; intro h1; exact hdr' u q (hdr q h1)
    · exact hdr' u q

theorem entry_on (n : Nat) (t : Tid) (l : Loc) (pc' : Pc) (q : Qid)
    (he : pc' = .idle ∨ pc' = .rPush ∨ (∃ r, pc' = .rPop r) ∨ (∃ r, pc' = .rLpop r) ∨ (∃ i m, pc' = .rBulk i m) ∨
      (∃ r, pc' = .rSteal r) ∨ (∃ x k, pc' = .pu0 t x k ∧ l.cx = .steal) ∨ (pc' = .d1 l.q ∧ l.cx = .drop) ∨
      (pc' = .t0 (mkLoc l.q .bulk .drop) ∧ l.cx = .drop)) :
    (onQ t pc' q = true → (l.q == q || (l.cx == .steal && t == q)) = true) ∧
    (dropOn pc' q = true → (l.cx == .drop && l.q == q) = true) := by
  rcases he with h | h | ⟨r, h⟩ | ⟨r, h⟩ | ⟨i, m, h⟩ | ⟨r, h⟩ | ⟨x, k, h, hc⟩ | ⟨h, hc⟩ | ⟨h, hc⟩ <;> subst h <;>
    simp_all [onQ, dropOn, mkLoc]

theorem deliver_on (t : Tid) (l : Loc) (vals : List Val) (q : Qid) :
    (onQ t (deliver t l vals) q = true → (l.q == q || (l.cx == .steal && t == q)) = true) ∧
    (dropOn (deliver t l vals) q = true → (l.cx == .drop && l.q == q) = true) := by
  apply entry_on 0 t l
  rcases deliver_cases t l vals with ⟨r, hd⟩ | ⟨r, hd⟩ | ⟨i, n', hd⟩ | ⟨r, hd⟩ | ⟨x, xs, r, hd, hc, _⟩ | ⟨hd, hc⟩ | ⟨hd, hc⟩ | hd <;>
    simp_all

end MayVerif.Spmc
