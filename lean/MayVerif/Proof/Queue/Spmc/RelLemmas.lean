/-
  Level-B spmc: lemmas about `Rel` used by the per-program-point simulation proofs.
-/
import MayVerif.Proof.Queue.Spmc.InvG
namespace MayVerif.Spmc
local notation "Tid" => Nat
local notation "Bid" => Nat
local notation "Qid" => Nat
local notation "Val" => Nat

/-- `absPc` reads the block table only at `start` of the head block in the locals -/
theorem absPc_congr (blks blks' : Bid → Block) (q : Qid) (pc : Pc)
    (h : ∀ l, locOf pc = some l → 1 ≤ ph pc → (blks' l.hb).start = (blks l.hb).start) :
    absPc blks' q pc = absPc blks q pc := by
  cases pc <;> simp only [absPc, absOn, pcQ] <;> (try rfl)
  all_goals (first | rw [h _ rfl (by simp [ph])] | skip)

theorem absPc_entry (n : Nat) (t : Tid) (blks : Bid → Block) (q : Qid) (pc : Pc) (he : EntryPc n t pc) :
    absPc blks q pc = .idle := by
  rcases he with he | he | ⟨r, he⟩ | ⟨r, he⟩ | ⟨i, m, he⟩ | ⟨r, he⟩ | ⟨x, k, he, hlt⟩ | ⟨q', he, hq⟩ | ⟨q', he, hq, hlt⟩ <;>
    subst he <;> simp [absPc, absOn, pcQ, mkLoc]

/-- the `pcs` clause of `Rel` after a step of actor `t` that is matched by level-A steps of actor `sw Q t` in
    instance `Q` ending at `pcA'` -/
theorem pcs_frame (n : Nat) (blks blks' : Bid → Block) (pcs : Tid → Pc) (as : Nat → SpmcA.St) (t : Tid) (pc' : Pc)
    (Q : Qid) (m : Nat) (shA' : SpmcA.Sh) (pcA' : SpmcA.Pc)
    (hold : ∀ q t', q < n → (as q).pcs (sw q t') = absPc blks q (pcs t'))
    (hst : ∀ t' l, t' ≠ t → locOf (pcs t') = some l → 1 ≤ ph (pcs t') → (blks' l.hb).start = (blks l.hb).start)
    (hnew : ∀ q', q' < n → absPc blks' q' pc' = if q' = Q then pcA' else absPc blks q' (pcs t)) :
    ∀ q' t', q' < n → (upd as Q ⟨m, shA', SpmcA.upd (as Q).pcs (sw Q t) pcA'⟩ q').pcs (sw q' t') =
      absPc blks' q' (upd pcs t pc' t') := by
  intro q' t' hq'
  by_cases ht' : t' = t
  · subst ht'
    simp only [upd, if_true]
    rw [hnew q' hq']
    by_cases hq : q' = Q
    · subst hq; simp [SpmcA.upd]
    · simp only [hq, if_false]; exact hold q' t' hq'
  · have e1 : upd pcs t pc' t' = pcs t' := by simp [upd, ht']
    rw [e1, absPc_congr blks blks' q' (pcs t') (fun l hl hp => hst t' l ht' hl hp), ← hold q' t' hq']
    by_cases hq : q' = Q
    · subst hq
      have : sw q' t' ≠ sw q' t := fun hc => ht' (sw_inj q' t' t hc)
      simp [upd, SpmcA.upd, this]
    · simp [upd, hq]

/-- the same when no level-A step is made -/
theorem pcs_frame0 (n : Nat) (blks blks' : Bid → Block) (pcs : Tid → Pc) (as : Nat → SpmcA.St) (t : Tid) (pc' : Pc)
    (hold : ∀ q t', q < n → (as q).pcs (sw q t') = absPc blks q (pcs t'))
    (hst : ∀ t' l, t' ≠ t → locOf (pcs t') = some l → 1 ≤ ph (pcs t') → (blks' l.hb).start = (blks l.hb).start)
    (hnew : ∀ q', q' < n → absPc blks' q' pc' = absPc blks q' (pcs t)) :
    ∀ q' t', q' < n → (as q').pcs (sw q' t') = absPc blks' q' (upd pcs t pc' t') := by
  intro q' t' hq'
  by_cases ht' : t' = t
  · subst ht'
    simp only [upd, if_true]
    rw [hnew q' hq']; exact hold q' t' hq'
  · have e1 : upd pcs t pc' t' = pcs t' := by simp [upd, ht']
    rw [e1, absPc_congr blks blks' q' (pcs t') (fun l hl hp => hst t' l ht' hl hp)]; exact hold q' t' hq'

theorem gcnt_pos_of_mem (got : List Got) (g : Got) (h : g ∈ got) : 0 < gcnt got g.q g.i := by
  simp only [gcnt]
  exact List.countP_pos_iff.mpr ⟨g, h, by simp⟩

/-- a block that contains an index which has not been handed out, of a queue whose `Drop` has not finished,
    is not freed -/
theorem blk_live (s : St) (as : Nat → SpmcA.St) (h : Rel s as) (b : Bid) (i : Nat) (hb : b < s.sh.nextB)
    (h1 : (s.sh.blks b).start ≤ i) (h2 : i < (s.sh.blks b).start + BSZ) (hc : (as (s.sh.blks b).own).sh.cnt i = 0)
    (hg : (s.sh.qs (s.sh.blks b).own).gone = false) : (s.sh.blks b).freed = false := by
  cases hf : (s.sh.blks b).freed
  · rfl
  · rcases h.fr b hb hf with hu | hu
    · have := unread_pos _ _ _ i h1 h2 hc
      rw [← h.used b hb] at this
      omega
    · rw [hg] at hu; contradiction

/-- level A: nothing at or beyond `tail` has been handed out -/
theorem A_cnt_tail (a : SpmcA.St) (hA : SpmcA.Inv a) (i : Nat) (hi : a.sh.tail ≤ i) : a.sh.cnt i = 0 := by
  have h1 := hA.once i
  have h2 := hA.pub i
  cases hc : a.sh.cnt i with
  | zero => rfl
  | succ k => have : a.sh.cnt i = 1 := by omega
              have := h2 this; omega

theorem head_live (s : St) (as : Nat → SpmcA.St) (hS : InvS s) (h : Rel s as) (hA : ∀ q, q < s.n → SpmcA.Inv (as q)) :
    HeadLive s := by
  intro q hq hg
  have hh := hS.qhead q hq
  have hown := hh.2.1
  refine blk_live s as h _ ((s.sh.blks (s.sh.qs q).head.blk).start + (s.sh.qs q).head.idx) hh.1 (by omega) (by omega) ?_ ?_
  · rw [hown, ← h.head q hq]; exact (hA q hq).ahead _ (Nat.le_refl _)
  · rw [hown]; exact hg

@[simp] theorem setBlk_got (sh : Sh) (b : Bid) (f : Block → Block) : (setBlk sh b f).got = sh.got := rfl
@[simp] theorem setBlk_uaf (sh : Sh) (b : Bid) (f : Block → Block) : (setBlk sh b f).uaf = sh.uaf := rfl
@[simp] theorem setBlk_dfree (sh : Sh) (b : Bid) (f : Block → Block) : (setBlk sh b f).dfree = sh.dfree := rfl
@[simp] theorem setBlk_uninit (sh : Sh) (b : Bid) (f : Block → Block) : (setBlk sh b f).uninit = sh.uninit := rfl
@[simp] theorem setBlk_unpub (sh : Sh) (b : Bid) (f : Block → Block) : (setBlk sh b f).unpub = sh.unpub := rfl
@[simp] theorem setHead_got (sh : Sh) (q : Qid) (h : HeadW) : (setHead sh q h).got = sh.got := rfl
@[simp] theorem setHead_uaf (sh : Sh) (q : Qid) (h : HeadW) : (setHead sh q h).uaf = sh.uaf := rfl
@[simp] theorem setHead_dfree (sh : Sh) (q : Qid) (h : HeadW) : (setHead sh q h).dfree = sh.dfree := rfl
@[simp] theorem setHead_uninit (sh : Sh) (q : Qid) (h : HeadW) : (setHead sh q h).uninit = sh.uninit := rfl
@[simp] theorem setHead_unpub (sh : Sh) (q : Qid) (h : HeadW) : (setHead sh q h).unpub = sh.unpub := rfl
@[simp] theorem freeBlk_got (sh : Sh) (b : Bid) : (freeBlk sh b).got = sh.got := by unfold freeBlk; split <;> rfl
@[simp] theorem freeBlk_uaf (sh : Sh) (b : Bid) : (freeBlk sh b).uaf = sh.uaf := by unfold freeBlk; split <;> rfl
@[simp] theorem freeBlk_uninit (sh : Sh) (b : Bid) : (freeBlk sh b).uninit = sh.uninit := by unfold freeBlk; split <;> rfl
@[simp] theorem freeBlk_unpub (sh : Sh) (b : Bid) : (freeBlk sh b).unpub = sh.unpub := by unfold freeBlk; split <;> rfl
theorem freeBlk_dfree (sh : Sh) (b : Bid) (h : (sh.blks b).freed = false) : (freeBlk sh b).dfree = sh.dfree := by
  unfold freeBlk; simp [h, setBlk]

macro "sR" : tactic => `(tactic| simp only [setBlk_blks, setBlk_qs, setBlk_nextB, touch_blks, touch_qs, touch_nextB,
  setHead_blks, setHead_qs, setHead_nextB, freeBlk_blks, freeBlk_qs, freeBlk_nextB, setBlk_got, setBlk_uaf, setBlk_dfree,
  setBlk_uninit, setBlk_unpub, setHead_got, setHead_uaf, setHead_dfree, setHead_uninit, setHead_unpub, freeBlk_got,
  freeBlk_uaf, freeBlk_uninit, freeBlk_unpub, touch_got, touch_uninit, touch_unpub, touch_dfree])

theorem upd_sh (as : Nat → SpmcA.St) (q : Nat) (a : SpmcA.St) (q' : Nat) :
    (upd as q a q').sh = if q' = q then a.sh else (as q').sh := by simp only [upd]; split <;> rfl
theorem upd_n (as : Nat → SpmcA.St) (q : Nat) (a : SpmcA.St) (q' : Nat) :
    (upd as q a q').n = if q' = q then a.n else (as q').n := by simp only [upd]; split <;> rfl
theorem upd_pcs (as : Nat → SpmcA.St) (q : Nat) (a : SpmcA.St) (q' : Nat) :
    (upd as q a q').pcs = if q' = q then a.pcs else (as q').pcs := by simp only [upd]; split <;> rfl

/-- push the projections of the updated level-A state through the case distinction on the queue -/
macro "aS" : tactic => `(tactic| try simp only [upd_sh, upd_n, upd_pcs, apply_ite SpmcA.Sh.tail, apply_ite SpmcA.Sh.head,
  apply_ite SpmcA.Sh.lock, apply_ite SpmcA.Sh.slot, apply_ite SpmcA.Sh.cnt, apply_ite SpmcA.Sh.who, apply_ite SpmcA.Sh.lk,
  apply_ite SpmcA.Sh.bad, apply_ite SpmcA.Sh.olog, apply_ite SpmcA.Sh.olast, apply_ite SpmcA.Sh.plog])

theorem A_upd_upd {α : Type} (f : Nat → α) (t : Nat) (a b : α) : SpmcA.upd (SpmcA.upd f t a) t b = SpmcA.upd f t b := by
  funext u; simp only [SpmcA.upd]; split <;> rfl

/-- one level-A step of actor `sw Q t` in instance `Q` -/
theorem match1 (as : Nat → SpmcA.St) (Q u : Nat) (e : SpmcA.Env) (pcA : SpmcA.Pc) (shA' : SpmcA.Sh) (pcA' : SpmcA.Pc)
    (hu : u < (as Q).n) (hp : (as Q).pcs u = pcA) (ht : SpmcA.tstep (as Q).sh u pcA e = some (shA', pcA')) :
    Match as (upd as Q ⟨(as Q).n, shA', SpmcA.upd (as Q).pcs u pcA'⟩) :=
  match_step1 as Q u e _ (A_step_of (as Q) u e pcA shA' pcA' hu hp ht)

/-- two level-A steps of actor `sw Q t` in instance `Q` -/
theorem match2 (as : Nat → SpmcA.St) (Q u : Nat) (e1 e2 : SpmcA.Env) (pcA : SpmcA.Pc) (sh1 : SpmcA.Sh) (pc1 : SpmcA.Pc)
    (sh2 : SpmcA.Sh) (pc2 : SpmcA.Pc)
    (hu : u < (as Q).n) (hp : (as Q).pcs u = pcA) (h1 : SpmcA.tstep (as Q).sh u pcA e1 = some (sh1, pc1))
    (h2 : SpmcA.tstep sh1 u pc1 e2 = some (sh2, pc2)) :
    Match as (upd as Q ⟨(as Q).n, sh2, SpmcA.upd (as Q).pcs u pc2⟩) := by
  have s1 := A_step_of (as Q) u e1 pcA sh1 pc1 hu hp h1
  have s2 := A_step_of ⟨(as Q).n, sh1, SpmcA.upd (as Q).pcs u pc1⟩ u e2 pc1 sh2 pc2 hu (by simp [SpmcA.upd]) h2
  simp only [A_upd_upd] at s2
  exact match_step2 as Q u e1 e2 _ _ s1 s2

/-- while actor `t` is inside a routine on queue `q`, nobody is at the last step of `Drop q` but `t` itself -/
theorem no_d3_while_on (s : St) (hG : InvG s) (t : Tid) (q : Qid) (hon : onQ t (s.pcs t) q = true) (u : Tid) (b : Bid)
    (hd : s.pcs u = .d3 q b) : u = t := by
  have h1 : (s.sh.qs q).dead = true := hG.dr u q (by simp [hd, dropOn])
  exact hG.un u t q h1 (by simp [hd, onQ]) hon

/-- while the `Drop` of queue `q` is at its last step, the dropping actor is the only one on `q` -/
theorem only_dropper (s : St) (hG : InvG s) (t : Tid) (q : Qid) (b : Bid) (hd : s.pcs t = .d3 q b) (u : Tid)
    (hon : onQ u (s.pcs u) q = true) : u = t := by
  have h1 : (s.sh.qs q).dead = true := hG.dr t q (by simp [hd, dropOn])
  exact hG.un u t q h1 hon (by simp [hd, onQ])

end MayVerif.Spmc
