/-
  Level-B spmc: leaving a routine towards an API return or towards the first program point of the routine a
  composed call goes on with preserves `InvS` (nothing is claimed or held there).
-/
import MayVerif.Proof.Queue.Spmc.TacS
namespace MayVerif.Spmc
local notation "Tid" => Nat
local notation "Bid" => Nat
local notation "Qid" => Nat
local notation "Val" => Nat

set_option hygiene false in
local macro "fin_e" : tactic => `(tactic| (
  constructor
  all_goals (simp only [BSZ] at h ⊢)
  case bown => exact h.bown
  case balign => exact h.balign
  case bnext => exact h.bnext
  case uniq => exact h.uniq
  case bnone => exact h.bnone
  case qlast => exact h.qlast
  case qmax => exact h.qmax
  case qmaxid => exact h.qmaxid
  case ffg => exact h.ffg
  case qhead => exact h.qhead
  case qti => exact h.qti
  case fresh => exact h.fresh
  case qtb => (have hx := h.qtb; simp only [BSZ] at hx; grind [upd, pu3Pc, mkLoc])
  case qtn => (have hx := h.qtn; simp only [BSZ] at hx; grind [upd, bndPc, mkLoc])
  case qtbnd => (have hx := h.qtbnd; simp only [BSZ] at hx; grind [upd, bndPc, mkLoc])
  case pu0 => (have hx := h.pu0; simp only [BSZ] at hx; grind [upd, mkLoc])
  case pu1 => (have hx := h.pu1; simp only [BSZ] at hx; grind [upd, mkLoc])
  case pu2 => (have hx := h.pu2; simp only [BSZ] at hx; grind [upd, mkLoc])
  case pu3 => (have hx := h.pu3; simp only [BSZ] at hx; grind [upd, mkLoc])
  case pu4 => (have hx := h.pu4; simp only [BSZ] at hx; grind [upd, mkLoc])
  case lq => (have hx := h.lq; simp only [BSZ] at hx; grind [upd, locOf, ph, mkLoc])
  case lhb => (have hx := h.lhb; simp only [BSZ] at hx; grind [upd, locOf, ph, mkLoc])
  case ofr => (have hx := h.ofr; simp only [BSZ] at hx; grind [upd, locOf, ph, mkLoc])
  case opi => (have hx := h.opi; simp only [BSZ] at hx; grind [upd, locOf, ph, mkLoc])
  case otb => (have hx := h.otb; simp only [BSZ] at hx; grind [upd, locOf, ph, mkLoc])
  case one => (have hx := h.one; simp only [BSZ] at hx; grind [upd, locOf, ph, mkLoc])
  case t4 => (have hx := h.t4; simp only [BSZ] at hx; grind [upd, mkLoc])
  case t4k => (have hx := h.t4k; simp only [BSZ] at hx; grind [upd, mkLoc])
  case t4n => (have hx := h.t4n; simp only [BSZ] at hx; grind [upd, mkLoc])
  case t5 => (have hx := h.t5; simp only [BSZ] at hx; grind [upd, mkLoc])
  case t6 => (have hx := h.t6; simp only [BSZ] at hx; grind [upd, mkLoc])
  case t7 => (have hx := h.t7; simp only [BSZ] at hx; first | grind [upd, mkLoc] | grind (splits := 25) [upd, mkLoc])
  case t8 => (have hx := h.t8; simp only [BSZ] at hx; grind [upd, mkLoc])
  case tF => (have hx := h.tF; simp only [BSZ] at hx; grind [upd, mkLoc])
  case t9 => (have hx := h.t9; simp only [BSZ] at hx; grind [upd, mkLoc])
  case tTk => (have hx := h.tTk; simp only [BSZ] at hx; grind [upd, mkLoc])
  case d1 => (have hx := h.d1; simp only [BSZ] at hx; grind [upd, mkLoc])
  case d2 => (have hx := h.d2; simp only [BSZ] at hx; grind [upd, mkLoc])
  case d3 => (have hx := h.d3; simp only [BSZ] at hx; grind [upd, mkLoc])
  case idle => (have hx := h.idle; simp only [BSZ] at hx; grind [upd, mkLoc])))

set_option maxHeartbeats 1600000 in
theorem invS_entry (n : Nat) (sh : Sh) (pcs : Tid → Pc) (t : Tid) (pc' : Pc)
    (h : InvS ⟨n, sh, upd pcs t .idle⟩) (ht : t < n) (he : EntryPc n t pc') : InvS ⟨n, sh, upd pcs t pc'⟩ := by
  have hpu3 : pu3Pc (upd pcs t .idle t) = false := by simp [upd, pu3Pc]
  have hbnd : bndPc (upd pcs t .idle t) = false := by simp [upd, bndPc]
  have hupd : ∀ u, u ≠ t → upd pcs t .idle u = pcs u := by intro u hu; simp [upd, hu]
  have hself : upd pcs t .idle t = .idle := by simp [upd]
  rcases he with he | he | ⟨r, he⟩ | ⟨r, he⟩ | ⟨i, m, he⟩ | ⟨r, he⟩ | ⟨x, k, he, hlt⟩ | ⟨q, he, hq⟩ | ⟨q, he, hq, hlt⟩ <;>
    subst he <;> fin_e

end MayVerif.Spmc
