/-
  Level-B spmc: the level-A theorems transported along the simulation relation.
-/
import MayVerif.Proof.Queue.Spmc.Sim
namespace MayVerif.Spmc
local notation "Tid" => Nat

/-- logical index `head` of queue `q` points to -/
def lhead (s : St) (q : Nat) : Nat := (s.sh.blks (s.sh.qs q).head.blk).start + (s.sh.qs q).head.idx

/-- actor `t` holds a claim on logical index `i` of queue `q` that it has not read yet -/
def holds (s : St) (q : Nat) (t : Tid) (i : Nat) : Bool := SpmcA.covers (absPc s.sh.blks q (s.pcs t)) i

theorem exactly_once_of_sim (s : St) (as : Nat → SpmcA.St) (h : Sim s as) (q i : Nat) (hq : q < s.n) :
    gcnt s.sh.got q i ≤ 1 ∧
    (gcnt s.sh.got q i = 1 → i < (s.sh.qs q).tidx) ∧
    (lhead s q ≤ i → gcnt s.sh.got q i = 0) ∧
    (i < lhead s q → gcnt s.sh.got q i = 0 → ∃ t, holds s q t i = true) ∧
    (∀ t u, holds s q t i = true → holds s q u i = true → t = u) ∧
    (∀ t, holds s q t i = true → gcnt s.sh.got q i = 0) := by
  have hA := sim_A s as h q
  have hg := h.R.gcnt q i hq
  have ht := h.R.tail q hq
  have hh := h.R.head q hq
  simp only [lhead, holds]
  rw [hg, ← ht, ← hh]
  refine ⟨hA.once i, hA.pub i, hA.ahead i, ?_, ?_, ?_⟩
  · intro hi hc
    rcases hA.kept i hi with h1 | h1
    · omega
    · refine ⟨sw q ((as q).sh.who i), ?_⟩
      rw [← h.R.pcs q _ hq, sw_sw]; exact h1
  · intro t u h1 h2
    rw [← h.R.pcs q t hq] at h1
    rw [← h.R.pcs q u hq] at h2
    exact sw_inj q t u ((hA.own _ i h1).symm.trans (hA.own _ i h2))
  · intro t h1
    rw [← h.R.pcs q t hq] at h1
    exact hA.fresh _ i h1

theorem values_of_sim (s : St) (as : Nat → SpmcA.St) (h : Sim s as) (g : Got) (hg : g ∈ s.sh.got) :
    g.q < s.n ∧ g.i < (s.sh.qs g.q).tidx ∧ (as g.q).sh.plog[g.i]? = some g.v := by
  have hv := h.R.gval g hg
  have hA := sim_A s as h g.q
  obtain ⟨sch, hq⟩ := h.A g.q
  have hP : SpmcA.InvP (as g.q) := by rw [hq]; exact SpmcA.invP_reach _ sch
  have hc := h.R.gcnt g.q g.i hv.1
  have hpos := gcnt_pos_of_mem s.sh.got g hg
  have h1 : (as g.q).sh.cnt g.i = 1 := by have := hA.once g.i; omega
  have hlt := hA.pub g.i h1
  have hl := hP.pl
  have hlen : g.i < (as g.q).sh.plog.length := by split at hl <;> omega
  refine ⟨hv.1, ?_, ?_⟩
  · rw [← h.R.tail g.q hv.1]; exact hlt
  · rw [← hP.ps g.i hlen]; exact hv.2

theorem owner_order_of_sim (s : St) (as : Nat → SpmcA.St) (h : Sim s as) (q : Nat) (hq : q < s.n) :
    (ownerIdx s.sh.got q).Pairwise (· < ·) := by
  obtain ⟨sch, hq'⟩ := h.A q
  have hO : SpmcA.InvO (as q) := by rw [hq']; exact SpmcA.invO_reach _ sch
  rw [← h.R.olog q hq]; exact hO.op

/-- schedule of the non-vacuity example of `spmc_block_safe`: actor 0 pushes 32 values to its queue and pops
    them all (the surplus `go` choices are skipped while the actor is idle) -/
def fillDrain : List (Nat × Env) :=
  ((List.range 32).flatMap fun v => (0, Env.start (.push 0 v)) :: List.replicate 6 (0, Env.go)) ++
  ((List.range 32).flatMap fun _ => (0, Env.start (.lpop 0)) :: List.replicate 10 (0, Env.go))

end MayVerif.Spmc
