/-
  Level-B spmc: the abstraction to level A (`SpmcA`), the simulation relation `Rel`, the discipline invariant of
  `Drop` (`InvG`) and the counting lemmas they need.

  Queue `q` of level B is simulated by its own level-A instance `as q`; the owner of queue `q` is actor `q`, the
  level-A owner is actor 0, so actors `q` and `0` are swapped (`sw q`). A level-B program point is mapped to a
  level-A program point of the instance of the queue it operates on (`absPc`), to `idle` in every other instance.
-/
import MayVerif.Proof.Queue.Spmc.InvS
import MayVerif.Proof.Queue.SpmcA.Step
namespace MayVerif.Spmc
local notation "Tid" => Nat
local notation "Bid" => Nat
local notation "Qid" => Nat
local notation "Val" => Nat

/-! ### `Drop` is exclusive -/

/-- the pc is inside the `Drop` of queue `q` -/
def dropOn (pc : Pc) (q : Qid) : Bool :=
  match pc with
  | .d1 q' | .d2 q' _ | .d3 q' _ => q' == q
  | .t0 l | .t1 l | .t2 l | .tT l | .tE l | .t4 l .. | .t5 l _ | .t6r l | .t6 l .. | .t7 l .. | .t8 l .. | .t9 l _
  | .tF l .. | .tFree l _ => l.cx == .drop && l.q == q
  | _ => false

structure InvG (s : St) : Prop where
  gd : ∀ q, (s.sh.qs q).gone = true → (s.sh.qs q).dead = true
  on : ∀ t q, onQ t (s.pcs t) q = true → (s.sh.qs q).gone = false
  un : ∀ t u q, (s.sh.qs q).dead = true → onQ t (s.pcs t) q = true → onQ u (s.pcs u) q = true → t = u
  dr : ∀ t q, dropOn (s.pcs t) q = true → (s.sh.qs q).dead = true

/-! ### abstraction of the program points -/

/-- swap of actor `q` (the owner of queue `q`) and actor `0` (the level-A owner) -/
def sw (q t : Nat) : Nat := if t = q then 0 else if t = 0 then q else t

theorem sw_sw (q t : Nat) : sw q (sw q t) = t := by unfold sw; split <;> split <;> (try split) <;> omega
theorem sw_inj (q t u : Nat) (h : sw q t = sw q u) : t = u := by rw [← sw_sw q t, h, sw_sw]
theorem sw_zero (q t : Nat) : sw q t = 0 ↔ t = q := by unfold sw; split <;> (try split) <;> omega
theorem sw_self (q : Nat) : sw q q = 0 := by simp [sw]
theorem sw_lt (q t n : Nat) (hq : q < n) (ht : t < n) : sw q t < n := by unfold sw; split <;> (try split) <;> omega

/-- the queue the routine at `pc` operates on -/
def pcQ : Pc → Option Qid
  | .pu0 q .. | .pu1 q .. | .pu2 q .. | .pu3 q .. | .pu4 q .. => some q
  | .t0 l | .t1 l | .t2 l | .tT l | .tE l | .t4 l .. | .t5 l _ | .t6r l | .t6 l .. | .t7 l .. | .t8 l .. | .t9 l _
  | .tF l .. | .tFree l _ => some l.q
  | .d1 q | .d2 q _ | .d3 q _ => some q
  | _ => none

/-- the level-A program point of a level-B program point (in the instance of its own queue) -/
def absOn (blks : Bid → Block) : Pc → SpmcA.Pc
  | .pu1 _ v _ _ => .oWrite v
  | .pu2 .. | .pu3 .. | .pu4 .. => .oPub
  | .t0 l => if l.k = .lpop then .oLoad else .idle
  | .t1 l | .t2 l | .tT l =>
      (match l.k with | .lpop => .oTry ((blks l.hb).start + l.hi) | .empt => .idle | _ => .tTry)
  | .t4 l lk nid =>
      if lk then .tLocked ((blks l.hb).start + l.hi) else .tWait ((blks l.hb).start + l.hi) ((blks l.hb).start + nid)
  | .t5 _ lo => .tLocked lo
  | .t6r l => .tBack ((blks l.hb).start + l.hi)
  | .t6 _ lo hi | .t7 _ lo hi _ => .tGo lo hi
  | .t8 _ lo hi => .tWait lo hi
  | .tF _ lo hi _ => .tRead lo hi
  | _ => .idle

/-- (also makes the splitter lemmas of the `match` in `absOn` exist here, once, for all importing files) -/
theorem absOn_t1_cases (blks : Bid → Block) (l : Loc) :
    absOn blks (.t1 l) = .tTry ∨ absOn blks (.t1 l) = .idle ∨ ∃ h, absOn blks (.t1 l) = .oTry h := by
  simp only [absOn]; split <;> simp

theorem absOn_t1_pop (blks : Bid → Block) (l : Loc) (h : l.k = .pop) : absOn blks (.t1 l) = .tTry := by
  grind [absOn]

def absPc (blks : Bid → Block) (q : Qid) (pc : Pc) : SpmcA.Pc := if pcQ pc = some q then absOn blks pc else .idle

/-! ### counting -/

/-- number of indices in `[s, s + k)` that have not been handed out -/
def unread (cnt : Nat → Nat) (s : Nat) : Nat → Nat
  | 0 => 0
  | k + 1 => unread cnt s k + (if cnt (s + k) = 0 then 1 else 0)

theorem unread_congr (c c' : Nat → Nat) (s k : Nat) (h : ∀ i, s ≤ i → i < s + k → c' i = c i) :
    unread c' s k = unread c s k := by
  induction k with
  | zero => rfl
  | succ k ih =>
    simp only [unread]
    rw [ih (fun i h1 h2 => h i h1 (by omega)), h (s + k) (by omega) (by omega)]

theorem unread_le (c : Nat → Nat) (s k : Nat) : unread c s k ≤ k := by
  induction k with
  | zero => simp [unread]
  | succ k ih => simp only [unread]; split <;> omega

theorem unread_all (c : Nat → Nat) (s k : Nat) (h : ∀ i, s ≤ i → i < s + k → c i = 0) : unread c s k = k := by
  induction k with
  | zero => rfl
  | succ k ih =>
    simp only [unread]
    rw [ih (fun i h1 h2 => h i h1 (by omega)), h (s + k) (by omega) (by omega)]
    simp

theorem unread_pos (c : Nat → Nat) (s k i : Nat) (h1 : s ≤ i) (h2 : i < s + k) (h0 : c i = 0) : 0 < unread c s k := by
  induction k with
  | zero => omega
  | succ k ih =>
    simp only [unread]
    by_cases hi : i = s + k
    · subst hi; simp [h0]
    · have := ih (by omega); omega

/-- handing out the indices `[lo, hi)` (none of which had been handed out) inside `[s, s + k)` -/
theorem unread_read (c : Nat → Nat) (s k lo hi : Nat) (h1 : s ≤ lo) (h2 : hi ≤ s + k) (hlh : lo ≤ hi)
    (h0 : ∀ i, lo ≤ i → i < hi → c i = 0) :
    unread (fun i => if lo ≤ i ∧ i < hi then c i + 1 else c i) s k + (hi - lo) = unread c s k := by
  induction k generalizing hi with
  | zero => simp only [unread]; omega
  | succ k ih =>
    simp only [unread]
    by_cases hk : hi ≤ s + k
    · have := ih hi hk hlh h0
      have hc : ¬(lo ≤ s + k ∧ s + k < hi) := by omega
      simp only [hc, if_false]
      omega
    · have hhi : hi = s + k + 1 := by omega
      by_cases hlo : lo = hi
      · have hc : ¬(lo ≤ s + k ∧ s + k < hi) := by omega
        simp only [hc, if_false]
        have : unread (fun i => if lo ≤ i ∧ i < hi then c i + 1 else c i) s k = unread c s k :=
          unread_congr _ _ _ _ (fun i _ _ => by
            have hc' : ¬(lo ≤ i ∧ i < hi) := by omega
            simp only [hc', if_false])
        omega
      · have hc : lo ≤ s + k ∧ s + k < hi := by omega
        have h00 := h0 (s + k) hc.1 hc.2
        simp only [hc, and_self, if_true, h00]
        have h3 := ih (s + k) (by omega) (by omega) (fun i a b => h0 i a (by omega))
        have : unread (fun i => if lo ≤ i ∧ i < hi then c i + 1 else c i) s k =
               unread (fun i => if lo ≤ i ∧ i < s + k then c i + 1 else c i) s k :=
          unread_congr _ _ _ _ (fun i a b => by
            have e1 : (lo ≤ i ∧ i < s + k) ↔ (lo ≤ i ∧ i < hi) := by omega
            simp only [e1])
        simp only [Nat.add_eq_zero_iff, Nat.succ_ne_self, and_false, if_false]
        omega

/-- how often logical index `i` of queue `q` was obtained -/
def gcnt (got : List Got) (q i : Nat) : Nat := got.countP (fun g => g.q == q && g.i == i)

/-- the logical indices of queue `q` obtained by its owner, in the order of `got` -/
def ownerIdx (got : List Got) (q : Nat) : List Nat := (got.filter (fun g => g.q == q && g.t == q)).map (·.i)

/-- the entries the read of the slots `[lo, lo + k)` of queue `q` appends -/
def gotsOf (me q lo k : Nat) (f : Nat → Val) (d : Bool) : List Got :=
  (List.range k).map fun j => (⟨me, q, lo + j, f j, d⟩ : Got)

theorem gcnt_gotsOf (me q lo k : Nat) (f : Nat → Val) (d : Bool) (q' i : Nat) :
    gcnt (gotsOf me q lo k f d) q' i = if q' = q ∧ lo ≤ i ∧ i < lo + k then 1 else 0 := by
  induction k with
  | zero => simp [gotsOf, gcnt]
  | succ k ih =>
    simp only [gotsOf, gcnt] at ih ⊢
    rw [List.range_succ, List.map_append, List.countP_append, ih]
    simp only [List.map_cons, List.map_nil, List.countP_cons, List.countP_nil, Nat.zero_add]
    by_cases hq : q' = q
    · subst hq
      by_cases hi : i = lo + k
      · subst hi; simp
      · have e1 : ((q' == q' && lo + k == i) = true) ↔ False := by simp; omega
        simp only [e1, if_false, true_and]
        split <;> split <;> omega
    · have e1 : ((q == q' && lo + k == i) = true) ↔ False := by simp; intro h; exact absurd h.symm hq
      simp [e1, hq]

theorem gcnt_append (a b : List Got) (q i : Nat) : gcnt (a ++ b) q i = gcnt a q i + gcnt b q i := by
  simp [gcnt, List.countP_append]

theorem ownerIdx_append (a b : List Got) (q : Nat) : ownerIdx (a ++ b) q = ownerIdx a q ++ ownerIdx b q := by
  simp [ownerIdx, List.filter_append]

theorem ownerIdx_gotsOf (me q lo k : Nat) (f : Nat → Val) (d : Bool) (q' : Nat) :
    ownerIdx (gotsOf me q lo k f d) q' = if q' = q ∧ me = q then List.range' lo k else [] := by
  induction k with
  | zero => simp [gotsOf, ownerIdx]
  | succ k ih =>
    simp only [gotsOf, ownerIdx] at ih ⊢
    rw [List.range_succ, List.map_append, List.filter_append, List.map_append, ih]
    by_cases hq : q' = q ∧ me = q
    · obtain ⟨rfl, rfl⟩ := hq
      simp [List.range'_concat]
    · have e1 : ((q == q' && me == q') = true) ↔ False := by
        simp only [Bool.and_eq_true, beq_iff_eq, iff_false]; intro h; exact hq ⟨h.1.symm, h.1 ▸ h.2⟩
      simp [hq, e1]

theorem mem_gotsOf (me q lo k : Nat) (f : Nat → Val) (d : Bool) (g : Got) (h : g ∈ gotsOf me q lo k f d) :
    ∃ j, j < k ∧ g = ⟨me, q, lo + j, f j, d⟩ := by
  simp only [gotsOf, List.mem_map, List.mem_range] at h
  obtain ⟨j, hj, rfl⟩ := h
  exact ⟨j, hj, rfl⟩

/-! ### the simulation relation -/

structure Rel (s : St) (as : Nat → SpmcA.St) : Prop where
  an : ∀ q, (as q).n = s.n
  tail : ∀ q, q < s.n → (as q).sh.tail = (s.sh.qs q).tidx
  lock : ∀ q, q < s.n → (as q).sh.lock = (s.sh.qs q).head.lock
  head : ∀ q, q < s.n → (as q).sh.head = (s.sh.blks (s.sh.qs q).head.blk).start + (s.sh.qs q).head.idx
  pcs : ∀ q t, q < s.n → (as q).pcs (sw q t) = absPc s.sh.blks q (s.pcs t)
  slot : ∀ b j, b < s.sh.nextB → j < BSZ →
            (as (s.sh.blks b).own).sh.slot ((s.sh.blks b).start + j) = (s.sh.blks b).data j
  fut : ∀ q i, q < s.n → (as q).sh.tail < i → (as q).sh.slot i = none
  used : ∀ b, b < s.sh.nextB → (s.sh.blks b).used = unread (as (s.sh.blks b).own).sh.cnt (s.sh.blks b).start BSZ
  fr : ∀ b, b < s.sh.nextB → (s.sh.blks b).freed = true →
            (s.sh.blks b).used = 0 ∨ (s.sh.qs (s.sh.blks b).own).gone = true
  tfree : ∀ t l vals, s.pcs t = .tFree l vals → (s.sh.blks l.hb).used = 0 ∧ (s.sh.blks l.hb).freed = false
  tfu : ∀ t u l vals l' vals', s.pcs t = .tFree l vals → s.pcs u = .tFree l' vals' → l.hb = l'.hb → t = u
  d3 : ∀ t q b, s.pcs t = .d3 q b → b = (s.sh.qs q).tblk
  gcnt : ∀ q i, q < s.n → gcnt s.sh.got q i = (as q).sh.cnt i
  gval : ∀ g, g ∈ s.sh.got → g.q < s.n ∧ (as g.q).sh.slot g.i = some g.v
  olog : ∀ q, q < s.n → (as q).sh.olog = ownerIdx s.sh.got q
  uaf : s.sh.uaf = false
  dfree : s.sh.dfree = false
  uninit : s.sh.uninit = false
  unpub : s.sh.unpub = false

/-- every level-A instance has made at most two steps (of one actor) -/
def Match (as as' : Nat → SpmcA.St) : Prop :=
  ∀ q, ∃ l : List (Nat × SpmcA.Env), l.length ≤ 2 ∧ as' q = SpmcA.run (as q) l

theorem match_refl (as : Nat → SpmcA.St) : Match as as := fun _ => ⟨[], by simp, rfl⟩

theorem match_step1 (as : Nat → SpmcA.St) (q u : Nat) (e : SpmcA.Env) (a' : SpmcA.St)
    (h : SpmcA.step (as q) u e = some a') : Match as (upd as q a') := by
  intro q'
  by_cases hq : q' = q
  · subst hq; exact ⟨[(u, e)], by simp, by simp [upd, SpmcA.run, h]⟩
  · exact ⟨[], by simp, by simp [upd, hq, SpmcA.run]⟩

theorem match_step2 (as : Nat → SpmcA.St) (q u : Nat) (e1 e2 : SpmcA.Env) (a1 a' : SpmcA.St)
    (h1 : SpmcA.step (as q) u e1 = some a1) (h2 : SpmcA.step a1 u e2 = some a') : Match as (upd as q a') := by
  intro q'
  by_cases hq : q' = q
  · subst hq; exact ⟨[(u, e1), (u, e2)], by simp, by simp [upd, SpmcA.run, h1, h2]⟩
  · exact ⟨[], by simp, by simp [upd, hq, SpmcA.run]⟩

theorem A_step_of (a : SpmcA.St) (u : Nat) (e : SpmcA.Env) (pcA : SpmcA.Pc) (shA' : SpmcA.Sh) (pcA' : SpmcA.Pc)
    (hu : u < a.n) (hp : a.pcs u = pcA) (ht : SpmcA.tstep a.sh u pcA e = some (shA', pcA')) :
    SpmcA.step a u e = some ⟨a.n, shA', SpmcA.upd a.pcs u pcA'⟩ := by
  simp [SpmcA.step, hu, hp, ht]

end MayVerif.Spmc
