import MayVerif.Proof.Queue.Spmc.RelLemmas
namespace MayVerif.Spmc
local notation "Tid" => Nat
local notation "Bid" => Nat
local notation "Qid" => Nat
local notation "Val" => Nat

set_option hygiene false in
local macro "fin_pc" : tactic => `(tactic| (
  constructor
  case an => (sR; aS; have hx := h.an; simp only [BSZ] at hx ⊢; first | exact hx | grind [upd, SpmcA.upd, BSZ, newBlock, mkLoc, locOf, ph] | grind (splits := 25) [upd, SpmcA.upd, BSZ, newBlock, mkLoc, locOf, ph])
  case tail => (sR; aS; have hx := h.tail; simp only [BSZ] at hx ⊢; first | exact hx | grind [upd, SpmcA.upd, BSZ, newBlock, mkLoc, locOf, ph] | grind (splits := 25) [upd, SpmcA.upd, BSZ, newBlock, mkLoc, locOf, ph])
  case lock => (sR; aS; have hx := h.lock; simp only [BSZ] at hx ⊢; first | exact hx | grind [upd, SpmcA.upd, BSZ, newBlock, mkLoc, locOf, ph] | grind (splits := 25) [upd, SpmcA.upd, BSZ, newBlock, mkLoc, locOf, ph])
  case head => (sR; aS; have hx := h.head; simp only [BSZ] at hx ⊢; first | exact hx | grind [upd, SpmcA.upd, BSZ, newBlock, mkLoc, locOf, ph] | grind (splits := 25) [upd, SpmcA.upd, BSZ, newBlock, mkLoc, locOf, ph])
  case pcs => (sR; (first | refine pcs_frame0 n sh.blks _ pcs as t _ h.pcs ?_ ?_ | refine pcs_frame n sh.blks _ pcs as t _ _ _ _ _ h.pcs ?_ ?_) <;> first
    | (intro t' l' hne hl hp; first | rfl | (have hb := hS.lhb t' l' hl hp; simp only [BSZ] at hb; grind [upd, newBlock]))
    | (intro q' hq'; simp only [hpc, absPc, pcQ, absOn]; first | rfl | grind [mkLoc]))
  case slot => (sR; aS; have hx := h.slot; simp only [BSZ] at hx ⊢; first | exact hx | grind [upd, SpmcA.upd, BSZ, newBlock, mkLoc, locOf, ph] | grind (splits := 25) [upd, SpmcA.upd, BSZ, newBlock, mkLoc, locOf, ph])
  case fut => (sR; aS; have hx := h.fut; simp only [BSZ] at hx ⊢; first | exact hx | grind [upd, SpmcA.upd, BSZ, newBlock, mkLoc, locOf, ph] | grind (splits := 25) [upd, SpmcA.upd, BSZ, newBlock, mkLoc, locOf, ph])
  case used => (sR; aS; have hx := h.used; simp only [BSZ] at hx ⊢; first | exact hx | grind [upd, SpmcA.upd, BSZ, newBlock, mkLoc, locOf, ph] | grind (splits := 25) [upd, SpmcA.upd, BSZ, newBlock, mkLoc, locOf, ph])
  case fr => (sR; aS; have hx := h.fr; simp only [BSZ] at hx ⊢; first | exact hx | grind [upd, SpmcA.upd, BSZ, newBlock, mkLoc, locOf, ph] | grind (splits := 25) [upd, SpmcA.upd, BSZ, newBlock, mkLoc, locOf, ph])
  case tfree => (sR; aS; have hx := h.tfree; simp only [BSZ] at hx ⊢; first | exact hx | grind [upd, SpmcA.upd, BSZ, newBlock, mkLoc, locOf, ph] | grind (splits := 25) [upd, SpmcA.upd, BSZ, newBlock, mkLoc, locOf, ph])
  case tfu => (sR; aS; have hx := h.tfu; simp only [BSZ] at hx ⊢; first | exact hx | grind [upd, SpmcA.upd, BSZ, newBlock, mkLoc, locOf, ph] | grind (splits := 25) [upd, SpmcA.upd, BSZ, newBlock, mkLoc, locOf, ph])
  case d3 => (sR; aS; have hx := h.d3; simp only [BSZ] at hx ⊢; first | exact hx | grind [upd, SpmcA.upd, BSZ, newBlock, mkLoc, locOf, ph] | grind (splits := 25) [upd, SpmcA.upd, BSZ, newBlock, mkLoc, locOf, ph])
  case gcnt => (sR; aS; have hx := h.gcnt; simp only [BSZ] at hx ⊢; first | exact hx | grind [upd, SpmcA.upd, BSZ, newBlock, mkLoc, locOf, ph] | grind (splits := 25) [upd, SpmcA.upd, BSZ, newBlock, mkLoc, locOf, ph])
  case gval => (sR; aS; have hx := h.gval; simp only [BSZ] at hx ⊢; first | exact hx | grind [upd, SpmcA.upd, BSZ, newBlock, mkLoc, locOf, ph] | grind (splits := 25) [upd, SpmcA.upd, BSZ, newBlock, mkLoc, locOf, ph])
  case olog => (sR; aS; have hx := h.olog; simp only [BSZ] at hx ⊢; first | exact hx | grind [upd, SpmcA.upd, BSZ, newBlock, mkLoc, locOf, ph] | grind (splits := 25) [upd, SpmcA.upd, BSZ, newBlock, mkLoc, locOf, ph])
  case uaf => (sR; aS; have hx := h.uaf; simp only [BSZ] at hx ⊢; first | exact hx | grind [upd, SpmcA.upd, BSZ, newBlock, mkLoc, locOf, ph] | grind (splits := 25) [upd, SpmcA.upd, BSZ, newBlock, mkLoc, locOf, ph])
  case dfree => (sR; aS; have hx := h.dfree; simp only [BSZ] at hx ⊢; first | exact hx | grind [upd, SpmcA.upd, BSZ, newBlock, mkLoc, locOf, ph] | grind (splits := 25) [upd, SpmcA.upd, BSZ, newBlock, mkLoc, locOf, ph])
  case uninit => (sR; aS; have hx := h.uninit; simp only [BSZ] at hx ⊢; first | exact hx | grind [upd, SpmcA.upd, BSZ, newBlock, mkLoc, locOf, ph] | grind (splits := 25) [upd, SpmcA.upd, BSZ, newBlock, mkLoc, locOf, ph])
  case unpub => (sR; aS; have hx := h.unpub; simp only [BSZ] at hx ⊢; first | exact hx | grind [upd, SpmcA.upd, BSZ, newBlock, mkLoc, locOf, ph] | grind (splits := 25) [upd, SpmcA.upd, BSZ, newBlock, mkLoc, locOf, ph])
  ))

set_option maxHeartbeats 1600000 in
theorem rel_t0 (n : Nat) (sh : Sh) (pcs : Tid → Pc) (t : Tid) (e : Env) (l : Loc) (as : Nat → SpmcA.St)
    (hS : InvS ⟨n, sh, pcs⟩) (hG : InvG ⟨n, sh, pcs⟩) (h : Rel ⟨n, sh, pcs⟩ as) (hA : ∀ q, q < n → SpmcA.Inv (as q))
    (hg : guard ⟨n, sh, pcs⟩ t e = true) (ht : t < n)
    (hpc : pcs t = .t0 l) (sh' : Sh) (pc' : Pc)
    (hts : tstep sh t (.t0 l) e = some (sh', pc')) (hS' : InvS ⟨n, sh', upd pcs t pc'⟩) :
    ∃ as', Match as as' ∧ Rel ⟨n, sh', upd pcs t pc'⟩ as' := by
  have hloc : locOf (pcs t) = some l := by rw [hpc]; rfl
  have hph : ph (pcs t) = 0 := by rw [hpc]; rfl
  have mlq := hS.lq t l hloc
  have mgo := hG.on t l.q (by simp [hpc, onQ])
  have hQ : l.q < n := mlq.1
  have han := h.an (l.q)
  simp only at han
  have hu : sw (l.q) t < (as (l.q)).n := by rw [han]; exact sw_lt _ t n hQ ht
  have rtail := h.tail (l.q) hQ
  have rlock := h.lock (l.q) hQ
  have rhead := h.head (l.q) hQ
  simp only at rtail rlock rhead
  have iA := hA (l.q) hQ
  have mqh := hS.qhead l.q mlq.1
  try simp only [BSZ] at mlq
  try simp only [BSZ] at mgo
  try simp only [BSZ] at mqh
  simp only [tstep, Option.some.injEq, Prod.mk.injEq] at hts
  obtain ⟨rfl, rfl⟩ := hts
  cases hk : l.k
  case lpop =>
    have rpc := h.pcs l.q t hQ
    simp only [hpc, absPc, pcQ, absOn, hk, if_true] at rpc
    refine ⟨_, match1 as l.q (sw l.q t) .go .oLoad _ _ hu rpc (by simp only [SpmcA.tstep]; rfl), ?_⟩
    fin_pc
  case empt =>
    refine ⟨as, match_refl as, ?_⟩
    fin_pc
  all_goals (
    have rpc := h.pcs l.q t hQ
    simp only [hpc, absPc, pcQ, absOn, hk, if_true] at rpc
    refine ⟨_, match1 as l.q (sw l.q t) .take .idle _ _ hu (by simpa using rpc) (by simp only [SpmcA.tstep]; rfl), ?_⟩
    fin_pc)

end MayVerif.Spmc
